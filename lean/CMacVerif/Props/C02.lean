import CMacVerif.Lemmas.RayMarch
import Mathlib.Algebra.Order.Field.Rat
/-!
# C02 — a packet crossing a subgrid deposits exactly its geometric path

Model: `CMacVerif/Model/RayMarch.lean` (`interact` = statement-by-statement mirror of
`DensitySubGrid::interact`).  All theorems are over an arbitrary linear ordered field `K`
(exact arithmetic; IEEE rounding is the named gap, see the evidence file) and quantify over
every block shape, cell content, packet and entry classification that satisfies `Hyp`:

* `Valid`: cell sizes > 0, at least one cell per axis, direction ≠ 0, opacities
  `κ = n (σ_H x_H + σ_He x_He) ≥ 0`, target optical depth > 0, and the `DBL_MAX` sentinel the
  code uses for axes with direction component 0 really is larger than every wall distance
  (`cell_size < DBL_MAX·|d_a|` on the moving axes);
* `Start`: a classification `0..26`, `inv_cell_size · cell_size = 1`, and on every axis whose
  index is *computed from the position* the position lies in the closed block
  (`0 ≤ x ≤ n·cell_size`; a position on the upper boundary belongs to the last cell since the
  index is clamped, `std::min(index, n - 1)`).  Nothing is assumed about the compatibility of the
  entry classification with the direction: an incompatible entry simply leaves at once with
  zero path.  What the code did with a start on the upper boundary before the clamp existed is
  kept as `old_code_upper_boundary_index_outside`.
-/
set_option linter.unusedSectionVars false
set_option linter.unusedVariables false
set_option linter.unnecessarySeqFocus false

namespace CMacVerif.RayMarch
variable {K : Type} [Field K] [LinearOrder K] [IsStrictOrderedRing K]

/-- opacities are non-negative when densities, neutral fractions and cross sections are -/
theorem kappa_nonneg_of (c : Cell K) (ph : Photon K) (h1 : 0 ≤ c.n) (h2 : 0 ≤ c.xH) (h3 : 0 ≤ c.xHe)
    (h4 : 0 ≤ ph.sigH) (h5 : 0 ≤ ph.sigHe) : 0 ≤ kappa c ph := by
  unfold kappa; positivity

/-- the constructor `DensitySubGrid(box, ncell)` establishes the block part of the hypotheses -/
theorem mkBlock_ok (anchor side : V3 K) (n : V3 Nat) (hs : ∀ a, 0 < side.get a) (hn : ∀ a, 0 < n.get a) :
    (∀ a, 0 < (mkBlock anchor side n).cs.get a) ∧
    (∀ a, (mkBlock anchor side n).inv.get a * (mkBlock anchor side n).cs.get a = 1) ∧
    (∀ a, top (mkBlock anchor side n) a = side.get a) := by
  have hnK : ∀ a, (0 : K) < (n.get a : K) := fun a => by exact_mod_cast hn a
  refine ⟨fun a => ?_, fun a => ?_, fun a => ?_⟩
  · simp only [mkBlock, V3.get_of, ofNat_eq]; exact div_pos (hs a) (hnK a)
  · simp only [mkBlock, V3.get_of, ofNat_eq]
    have := (hs a).ne'; have := (hnK a).ne'; field_simp
  · simp only [top, mkBlock, V3.get_of, ofNat_eq]
    have := (hnK a).ne'; field_simp

section main
variable (b : Block K) (cells : Nat → Cell K) (ph : Photon K) (inDir : Nat)

/-- **Termination is a theorem**: the loop of `interact` ends by its own condition within
`nx + ny + nz + 1` evaluations of that condition (every pass that does not end the loop moves
at least one index one step in its direction of travel). -/
theorem fuel_sufficient (h : Hyp b cells ph inDir) :
    (interact b cells ph inDir).finished = true :=
  trav_fuel_sufficient b cells ph _ h.valid (entry_interact b cells ph inDir h)

/-- the loop ended by its own condition: target reached or index outside -/
theorem last_done (h : Hyp b cells ph inDir) :
    ¬ ((interact b cells ph inDir).last.tauDone < ph.tau ∧
        InRange b.n (interact b cells ph inDir).last.idx) :=
  trav_last_done b cells ph _ h.valid (entry_interact b cells ph inDir h)

/-- **Path sum**: the final position is the (pinned) start position plus `Σ path · direction`,
per coordinate; in absolute coordinates as well. -/
theorem path_sum (h : Hyp b cells ph inDir) (a : Ax) :
    (interact b cells ph inDir).last.pos.get a =
        (initSt b ph inDir).pos.get a + pathSum (interact b cells ph inDir).visits * ph.dir.get a
    ∧ (interact b cells ph inDir).pos.get a =
        ((initSt b ph inDir).pos.get a + b.anchor.get a)
          + pathSum (interact b cells ph inDir).visits * ph.dir.get a :=
  trav_path_sum b cells ph _ h.valid (entry_interact b cells ph inDir h) a

/-- every credited path length is non-negative -/
theorem path_nonneg (h : Hyp b cells ph inDir) : ∀ v ∈ (interact b cells ph inDir).visits, 0 ≤ v.path :=
  trav_path_nonneg b cells ph _ h.valid (entry_interact b cells ph inDir h)

/-- hence **Σ path = straight-line distance** for a unit direction (sqrt-free form:
`Σ path ≥ 0` and `(Σ path)² = |final − start|²`) -/
theorem path_sum_is_distance (h : Hyp b cells ph inDir)
    (hunit : ph.dir.x ^ 2 + ph.dir.y ^ 2 + ph.dir.z ^ 2 = 1) :
    0 ≤ pathSum (interact b cells ph inDir).visits ∧
    pathSum (interact b cells ph inDir).visits ^ 2 =
      ((interact b cells ph inDir).last.pos.x - (initSt b ph inDir).pos.x) ^ 2
      + ((interact b cells ph inDir).last.pos.y - (initSt b ph inDir).pos.y) ^ 2
      + ((interact b cells ph inDir).last.pos.z - (initSt b ph inDir).pos.z) ^ 2 :=
  trav_path_sum_is_distance b cells ph _ h.valid (entry_interact b cells ph inDir h) hunit

/-- **Every visited cell contains its segment**: in order of traversal, with `S` the path
travelled before the visit, the visited cell is a real cell of the block (`InRange`, one-index
= `get_one_index`), and both end points `start + S·d` and `start + (S + path)·d` lie in the
closed cell — the cell is convex, so the whole segment does. -/
theorem segments_in_cells (h : Hyp b cells ph inDir) :
    SegsFwd b ph (initSt b ph inDir).pos 0 (interact b cells ph inDir).visits :=
  trav_segments_in_cells b cells ph _ h.valid (entry_interact b cells ph inDir h)

/-- the exit classification of a packet that leaves is one of `1..26` -/
theorem outputDirection_valid (h : Hyp b cells ph inDir)
    (hout : ¬ InRange b.n (interact b cells ph inDir).last.idx) :
    1 ≤ outputDirection b.n (interact b cells ph inDir).last.idx ∧
    outputDirection b.n (interact b cells ph inDir).last.idx < 27 ∧
    ∀ a, pinKind (outputDirection b.n (interact b cells ph inDir).last.idx).toNat a
      = zone (b.n.get a) ((interact b cells ph inDir).last.idx.get a) :=
  trav_outputDirection_valid b cells ph _ h.valid (entry_interact b cells ph inDir h) hout

/-- the packet is reported INSIDE exactly when the loop ended because the target was reached -/
theorem outDir_zero_iff (h : Hyp b cells ph inDir) :
    (interact b cells ph inDir).outDir = 0 ↔ ph.tau ≤ (interact b cells ph inDir).last.tauDone :=
  trav_outDir_zero_iff b cells ph _ h.valid (entry_interact b cells ph inDir h)

/-- **Optical depth accounting.**  A packet that leaves has used up `Σ κ·path` and keeps
`τ_target − Σ κ·path > 0`; a packet that stops inside has deposited *exactly* `τ_target`
(the surplus correction), and what the code stores as remaining optical depth is the
non-positive surplus of the last cell. -/
theorem tau_account (h : Hyp b cells ph inDir) :
    ((interact b cells ph inDir).outDir ≠ 0 →
      (interact b cells ph inDir).tauLeft = ph.tau - tauSum cells ph (interact b cells ph inDir).visits
      ∧ 0 < (interact b cells ph inDir).tauLeft) ∧
    ((interact b cells ph inDir).outDir = 0 →
      tauSum cells ph (interact b cells ph inDir).visits = ph.tau
      ∧ (interact b cells ph inDir).tauLeft ≤ 0) :=
  trav_tau_account b cells ph _ h.valid (entry_interact b cells ph inDir h)

/-- **Estimators**: each visit adds `path·σ·w` to the mean-intensity counter of every ion and
`path·σ·w·(ν − ν₀)` to the heating counters (ν₀ = 3.288e15 Hz for H, 5.948e15 Hz for He). -/
theorem estimators (h : Hyp b cells ph inDir) :
    ∀ v ∈ (interact b cells ph inDir).visits, EstOK ph v :=
  trav_estimators b cells ph _ h.valid (entry_interact b cells ph inDir h)

/-- optical depth of the whole line from the (pinned) start to the block boundary: what the loop of
`compute_optical_depth` accumulates from the loop-entry state of `interact` -/
def fullTau (b : Block K) (cells : Nat → Cell K) (ph : Photon K) (inDir : Nat) : K :=
  fullTauFrom b cells ph (initSt b ph inDir)

/-- `fullTau` really is the sum over the whole line: the free march ends outside the block
within the fuel, its visits satisfy the segment property, it is on the line, its optical depth
is `Σ κ·path` over its visits, and it ends on the block faces it crossed. -/
theorem fullTau_is_line_sum (h : Hyp b cells ph inDir) :
    let r := marchFree b cells ph (fuel b.n) (initSt b ph inDir)
    r.2 = true ∧ ¬ InRange b.n r.1.idx ∧ fullTau b cells ph inDir = tauSum cells ph r.1.out.reverse
      ∧ SegsFwd b ph (initSt b ph inDir).pos 0 r.1.out.reverse
      ∧ (∀ a, r.1.pos.get a = (initSt b ph inDir).pos.get a + pathSum r.1.out.reverse * ph.dir.get a)
      ∧ OutFaces b ph r.1 :=
  trav_fullTau_is_line_sum b cells ph _ h.valid (entry_interact b cells ph inDir h)

/-- **The packet stops inside the block exactly when its target optical depth is reached on
the line through the block.** -/
theorem stops_inside_iff (h : Hyp b cells ph inDir) :
    (interact b cells ph inDir).outDir = 0 ↔ ph.tau ≤ fullTau b cells ph inDir :=
  trav_stops_inside_iff b cells ph _ h.valid (entry_interact b cells ph inDir h)

/-- **Exit geometry.**  A packet that leaves gets a classification `1..26`; reading the
classification the way `update_photon_position` does (`pinKind`: 1 = lower face, 2 = upper face,
0 = free), the final position lies on exactly the faces it names and is crossing them outwards;
on the axes it does not name the position is inside the block and is not on a face the packet
is travelling towards; the classification passes `is_compatible_output_direction`. -/
theorem exit_geometric (h : Hyp b cells ph inDir) (hout : (interact b cells ph inDir).outDir ≠ 0) :
    1 ≤ (interact b cells ph inDir).outDir ∧ (interact b cells ph inDir).outDir < 27 ∧
    (∀ a,
      (pinKind (interact b cells ph inDir).outDir.toNat a = 1 →
        (interact b cells ph inDir).last.pos.get a = 0 ∧ ph.dir.get a < 0) ∧
      (pinKind (interact b cells ph inDir).outDir.toNat a = 2 →
        (interact b cells ph inDir).last.pos.get a = top b a ∧ 0 < ph.dir.get a) ∧
      (pinKind (interact b cells ph inDir).outDir.toNat a = 0 →
        0 ≤ (interact b cells ph inDir).last.pos.get a ∧
        (interact b cells ph inDir).last.pos.get a ≤ top b a ∧
        (0 < ph.dir.get a → (interact b cells ph inDir).last.pos.get a < top b a) ∧
        (ph.dir.get a < 0 → 0 < (interact b cells ph inDir).last.pos.get a))) ∧
    compatOut (interact b cells ph inDir).outDir.toNat (sgnOf ph.dir.x) (sgnOf ph.dir.y) (sgnOf ph.dir.z)
      = true :=
  trav_exit_geometric b cells ph _ h.valid (entry_interact b cells ph inDir h) hout

/-- corollary: a block without opacity on the line is always crossed -/
theorem transparent_block_is_crossed (h : Hyp b cells ph inDir) (h0 : ∀ c, kappa (cells c) ph = 0) :
    (interact b cells ph inDir).outDir ≠ 0 :=
  trav_transparent_block_is_crossed b cells ph _ h.valid (entry_interact b cells ph inDir h) h0

/-! #### the counters of the cells after a traversal -/

/-- sum of the increments `f` of the visits made to cell `c` -/
def incSum (f : Visit K → K) (vs : List (Visit K)) (c : Nat) : K :=
  ((vs.filter (fun v => v.cell.toNat = c)).map f).sum

/-- **Counters accumulate**: after the visits `vs` every counter of every cell is its old value
plus the sum of the increments of the visits made to that cell (`+=` on whatever was there). -/
theorem deposit_spec (ctr : Nat → Counters K) (vs : List (Visit K)) (c : Nat) :
    (deposit ctr vs c).jH = (ctr c).jH + incSum (·.jH) vs c ∧
    (deposit ctr vs c).jHe = (ctr c).jHe + incSum (·.jHe) vs c ∧
    (deposit ctr vs c).jX = (ctr c).jX + incSum (·.jX) vs c ∧
    (deposit ctr vs c).hH = (ctr c).hH + incSum (·.hH) vs c ∧
    (deposit ctr vs c).hHe = (ctr c).hHe + incSum (·.hHe) vs c := by
  induction vs generalizing ctr with
  | nil => simp [deposit, incSum]
  | cons v rest ih =>
    have hstep : deposit ctr (v :: rest) =
        deposit (fun c => if c = v.cell.toNat then (ctr c).add v else ctr c) rest := rfl
    rw [hstep]
    have := ih (fun c => if c = v.cell.toNat then (ctr c).add v else ctr c)
    by_cases hc : c = v.cell.toNat
    · subst hc
      have hf : ∀ f : Visit K → K,
          incSum f (v :: rest) v.cell.toNat = f v + incSum f rest v.cell.toNat := fun f => by
        unfold incSum; rw [List.filter_cons_of_pos (by simp)]; simp
      simp only [if_true, Counters.add] at this
      simp only [hf]
      refine ⟨?_, ?_, ?_, ?_, ?_⟩
      · exact this.1.trans (by ring)
      · exact this.2.1.trans (by ring)
      · exact this.2.2.1.trans (by ring)
      · exact this.2.2.2.1.trans (by ring)
      · exact this.2.2.2.2.trans (by ring)
    · have hf : ∀ f : Visit K → K, incSum f (v :: rest) c = incSum f rest c := fun f => by
        unfold incSum; rw [List.filter_cons_of_neg (by simpa using fun h => hc h.symm)]
      simp only [hc, if_false] at this
      simp only [hf]
      exact this

/-- a cell the traversal did not visit keeps its counters -/
theorem deposit_unvisited (ctr : Nat → Counters K) (vs : List (Visit K)) (c : Nat)
    (hc : ∀ v ∈ vs, v.cell.toNat ≠ c) : deposit ctr vs c = ctr c := by
  induction vs generalizing ctr with
  | nil => rfl
  | cons v rest ih =>
    have hstep : deposit ctr (v :: rest) =
        deposit (fun c => if c = v.cell.toNat then (ctr c).add v else ctr c) rest := rfl
    rw [hstep, ih _ (fun u hu => hc u (List.mem_cons_of_mem _ hu))]
    have : c ≠ v.cell.toNat := fun h => hc v (List.mem_cons_self) h.symm
    simp [this]

/-- **Estimators after `interact`**: every counter of every cell has grown by exactly
`weight × cross-section × (path lengths credited to that cell)` — times the excess photon
energy for the heating terms — on top of what earlier packets left there. -/
theorem counters_after_interact (h : Hyp b cells ph inDir) (ctr : Nat → Counters K) (c : Nat) :
    (deposit ctr (interact b cells ph inDir).visits c).jH
      = (ctr c).jH + incSum (fun v => v.path * ph.sigH * ph.w) (interact b cells ph inDir).visits c ∧
    (deposit ctr (interact b cells ph inDir).visits c).jHe
      = (ctr c).jHe + incSum (fun v => v.path * ph.sigHe * ph.w) (interact b cells ph inDir).visits c ∧
    (deposit ctr (interact b cells ph inDir).visits c).jX
      = (ctr c).jX + incSum (fun v => v.path * ph.sigX * ph.w) (interact b cells ph inDir).visits c ∧
    (deposit ctr (interact b cells ph inDir).visits c).hH
      = (ctr c).hH + incSum (fun v => v.path * ph.sigH * ph.w * (ph.nu - 3.288e15))
          (interact b cells ph inDir).visits c ∧
    (deposit ctr (interact b cells ph inDir).visits c).hHe
      = (ctr c).hHe + incSum (fun v => v.path * ph.sigHe * ph.w * (ph.nu - 5.948e15))
          (interact b cells ph inDir).visits c := by
  have he := estimators b cells ph inDir h
  have hcong : ∀ (f g : Visit K → K), (∀ v ∈ (interact b cells ph inDir).visits, f v = g v) →
      incSum f (interact b cells ph inDir).visits c = incSum g (interact b cells ph inDir).visits c := by
    intro f g hfg
    unfold incSum
    congr 1
    apply List.map_congr_left
    intro v hv
    exact hfg v (List.mem_of_mem_filter hv)
  obtain ⟨d1, d2, d3, d4, d5⟩ := deposit_spec ctr (interact b cells ph inDir).visits c
  refine ⟨?_, ?_, ?_, ?_, ?_⟩
  · rw [d1, hcong _ _ (fun v hv => (he v hv).1)]
  · rw [d2, hcong _ _ (fun v hv => (he v hv).2.1)]
  · rw [d3, hcong _ _ (fun v hv => (he v hv).2.2.1)]
  · rw [d4, hcong _ _ (fun v hv => (he v hv).2.2.2.1)]
  · rw [d5, hcong _ _ (fun v hv => (he v hv).2.2.2.2)]

/-! #### `propagate`: the same traversal without pinning and without counters -/

/-- `propagate` terminates (same bound) -/
theorem propagate_fuel_sufficient (h : HypNoPin b cells ph inDir) :
    (propagate b cells ph inDir).finished = true :=
  trav_fuel_sufficient b cells ph _ h.valid (entry_noPin b cells ph inDir h)

/-- path sum of `propagate`: final = handed-over position + `Σ path · direction`
(`visits` = ghost record of the passes), relative and absolute -/
theorem propagate_path_sum (h : HypNoPin b cells ph inDir) (a : Ax) :
    (propagate b cells ph inDir).last.pos.get a =
        (initStNoPin b ph inDir).pos.get a + pathSum (propagate b cells ph inDir).visits * ph.dir.get a
    ∧ (propagate b cells ph inDir).pos.get a =
        ((initStNoPin b ph inDir).pos.get a + b.anchor.get a)
          + pathSum (propagate b cells ph inDir).visits * ph.dir.get a :=
  trav_path_sum b cells ph _ h.valid (entry_noPin b cells ph inDir h) a

theorem propagate_segments_in_cells (h : HypNoPin b cells ph inDir) :
    SegsFwd b ph (initStNoPin b ph inDir).pos 0 (propagate b cells ph inDir).visits :=
  trav_segments_in_cells b cells ph _ h.valid (entry_noPin b cells ph inDir h)

/-- optical depth accounting of `propagate` (as `tau_account`) -/
theorem propagate_tau_account (h : HypNoPin b cells ph inDir) :
    ((propagate b cells ph inDir).outDir ≠ 0 →
      (propagate b cells ph inDir).tauLeft = ph.tau - tauSum cells ph (propagate b cells ph inDir).visits
      ∧ 0 < (propagate b cells ph inDir).tauLeft) ∧
    ((propagate b cells ph inDir).outDir = 0 →
      tauSum cells ph (propagate b cells ph inDir).visits = ph.tau
      ∧ (propagate b cells ph inDir).tauLeft ≤ 0) :=
  trav_tau_account b cells ph _ h.valid (entry_noPin b cells ph inDir h)

/-- `propagate` stops inside iff the target is reached on the line through the block -/
theorem propagate_stops_inside_iff (h : HypNoPin b cells ph inDir) :
    (propagate b cells ph inDir).outDir = 0 ↔
      ph.tau ≤ fullTauFrom b cells ph (initStNoPin b ph inDir) :=
  trav_stops_inside_iff b cells ph _ h.valid (entry_noPin b cells ph inDir h)

/-- exit geometry of `propagate` (as `exit_geometric`) -/
theorem propagate_exit_geometric (h : HypNoPin b cells ph inDir)
    (hout : (propagate b cells ph inDir).outDir ≠ 0) :
    1 ≤ (propagate b cells ph inDir).outDir ∧ (propagate b cells ph inDir).outDir < 27 ∧
    (∀ a,
      (pinKind (propagate b cells ph inDir).outDir.toNat a = 1 →
        (propagate b cells ph inDir).last.pos.get a = 0 ∧ ph.dir.get a < 0) ∧
      (pinKind (propagate b cells ph inDir).outDir.toNat a = 2 →
        (propagate b cells ph inDir).last.pos.get a = top b a ∧ 0 < ph.dir.get a) ∧
      (pinKind (propagate b cells ph inDir).outDir.toNat a = 0 →
        0 ≤ (propagate b cells ph inDir).last.pos.get a ∧
        (propagate b cells ph inDir).last.pos.get a ≤ top b a ∧
        (0 < ph.dir.get a → (propagate b cells ph inDir).last.pos.get a < top b a) ∧
        (ph.dir.get a < 0 → 0 < (propagate b cells ph inDir).last.pos.get a))) ∧
    compatOut (propagate b cells ph inDir).outDir.toNat (sgnOf ph.dir.x) (sgnOf ph.dir.y) (sgnOf ph.dir.z)
      = true :=
  trav_exit_geometric b cells ph _ h.valid (entry_noPin b cells ph inDir h) hout

/-- **`propagate` is `interact` without the counters**: when the position handed over already
sits where `update_photon_position` would put it, both return the same direction, position,
remaining optical depth, and walk through the same cells with the same paths. -/
theorem propagate_eq_interact (hpin : pinPos b inDir (relPos b ph.pos) = relPos b ph.pos) :
    propagate b cells ph inDir = interact b cells ph inDir := by
  unfold propagate
  rw [← initSt_eq_noPin b ph inDir hpin]
  rfl

/-! #### `compute_optical_depth`: the whole line -/

/-- **`compute_optical_depth` measures the whole line through the block.**  Its loop ends outside
the block within the same bound; what it adds to the packet's optical depth is exactly
`Σ κ·path` over its passes; the passes tile the line from the handed-over position to the final
position cell by cell (`SegsFwd`); the final position is `start + (Σ path)·d`; the returned
classification is one of `1..26`, the final position lies exactly on the faces it names,
crossing them outwards, strictly inside on the other axes it moves along, and the classification
passes `is_compatible_output_direction`. -/
theorem cod_spec (h : HypNoPin b cells ph inDir) :
    (computeOpticalDepth b cells ph inDir).finished = true ∧
    (computeOpticalDepth b cells ph inDir).tau =
      ph.tau + tauSum cells ph (computeOpticalDepth b cells ph inDir).last.out.reverse ∧
    SegsFwd b ph (initStNoPin b ph inDir).pos 0 (computeOpticalDepth b cells ph inDir).last.out.reverse ∧
    (∀ a, (computeOpticalDepth b cells ph inDir).last.pos.get a =
        (initStNoPin b ph inDir).pos.get a
          + pathSum (computeOpticalDepth b cells ph inDir).last.out.reverse * ph.dir.get a
      ∧ (computeOpticalDepth b cells ph inDir).pos.get a =
        (computeOpticalDepth b cells ph inDir).last.pos.get a + b.anchor.get a) ∧
    1 ≤ (computeOpticalDepth b cells ph inDir).outDir ∧ (computeOpticalDepth b cells ph inDir).outDir < 27 ∧
    (∀ a,
      (pinKind (computeOpticalDepth b cells ph inDir).outDir.toNat a = 1 →
        (computeOpticalDepth b cells ph inDir).last.pos.get a = 0 ∧ ph.dir.get a < 0) ∧
      (pinKind (computeOpticalDepth b cells ph inDir).outDir.toNat a = 2 →
        (computeOpticalDepth b cells ph inDir).last.pos.get a = top b a ∧ 0 < ph.dir.get a) ∧
      (pinKind (computeOpticalDepth b cells ph inDir).outDir.toNat a = 0 →
        0 ≤ (computeOpticalDepth b cells ph inDir).last.pos.get a ∧
        (computeOpticalDepth b cells ph inDir).last.pos.get a ≤ top b a ∧
        (0 < ph.dir.get a → (computeOpticalDepth b cells ph inDir).last.pos.get a < top b a) ∧
        (ph.dir.get a < 0 → 0 < (computeOpticalDepth b cells ph inDir).last.pos.get a))) ∧
    compatOut (computeOpticalDepth b cells ph inDir).outDir.toNat
      (sgnOf ph.dir.x) (sgnOf ph.dir.y) (sgnOf ph.dir.z) = true := by
  have he := entry_noPin b cells ph inDir h
  obtain ⟨hfin, hnr, hF, hS⟩ := free_spec b cells ph h.valid _ he
  have hx := exit_facts b cells ph h.valid _ hF.inCell hF.range hF.outFaces hS hnr
  refine ⟨hfin, ?_, segs_reverse b ph _ _ hF.segs, fun a => ⟨?_, ?_⟩, hx.1, hx.2.1, hx.2.2.1, hx.2.2.2⟩
  · show ph.tau + _ = _
    rw [tauSum_reverse]; congr 1; exact hF.tauAcc
  · rw [pathSum_reverse]; exact hF.onLine a
  · simp [computeOpticalDepth]

/-- the optical depth `compute_optical_depth` adds is the `fullTau` of the theorems above -/
theorem cod_adds_fullTau :
    (computeOpticalDepth b cells ph inDir).tau = ph.tau + fullTauFrom b cells ph (initStNoPin b ph inDir) :=
  rfl

/-- what `compute_optical_depth` adds does not depend on the packet's target optical depth -/
theorem cod_independent_of_target (t : K) :
    (computeOpticalDepth b cells { ph with tau := t } inDir).tau - t =
      (computeOpticalDepth b cells ph inDir).tau - ph.tau := by
  have key : ∀ (f : Nat) (s : St K), marchFree b cells { ph with tau := t } f s = marchFree b cells ph f s := by
    intro f
    induction f with
    | zero => intro s; rfl
    | succ f ih =>
      intro s
      unfold marchFree
      have hs : stepFree b cells { ph with tau := t } s = stepFree b cells ph s := rfl
      rw [hs, ih]
  show t + (marchFree b cells { ph with tau := t } (fuel b.n) (initStNoPin b { ph with tau := t } inDir)).1.tauDone - t
    = ph.tau + (marchFree b cells ph (fuel b.n) (initStNoPin b ph inDir)).1.tauDone - ph.tau
  rw [key]
  have : initStNoPin b { ph with tau := t } inDir = initStNoPin b ph inDir := rfl
  rw [this]; ring

/-- **`interact` stops inside exactly when its target does not exceed what
`compute_optical_depth` measures** for the same packet (position already where
`update_photon_position` puts it): the two routines of the code agree on where the packet ends. -/
theorem interact_stops_iff_cod (h : Hyp b cells ph inDir)
    (hpin : pinPos b inDir (relPos b ph.pos) = relPos b ph.pos) :
    (interact b cells ph inDir).outDir = 0 ↔
      ph.tau ≤ (computeOpticalDepth b cells ph inDir).tau - ph.tau := by
  rw [stops_inside_iff b cells ph inDir h, cod_adds_fullTau]
  unfold fullTau
  rw [initSt_eq_noPin b ph inDir hpin]
  constructor <;> intro h' <;> linarith

/-- for a packet emitted inside the block (classification INSIDE) `update_photon_position` does
nothing, so the two theorems above apply to every such packet -/
theorem pinPos_inside (p : V3 K) : pinPos b 0 p = p := by
  have hk : ∀ a, pinKind 0 a = 0 := fun a => by cases a <;> decide
  unfold pinPos V3.of pinAxis
  simp only [hk]
  cases p; rfl

/-! #### the hypotheses from the inputs of the constructor and of the call -/

/-- `Hyp` from what a caller controls: a box with positive sides and at least one cell per axis
(`DensitySubGrid(box, ncell)`), non-negative cell contents and cross sections, a non-zero
direction, a positive target optical depth, a classification `0..26`, the position inside the
closed box on the axes whose index is computed — and the magnitude condition on the `DBL_MAX`
sentinel, the one hypothesis that is about the size of the numbers. -/
theorem hyp_of_inputs (anchor side : V3 K) (n : V3 Nat)
    (hs : ∀ a, 0 < side.get a) (hn : ∀ a, 0 < n.get a)
    (hc : ∀ c, 0 ≤ (cells c).n ∧ 0 ≤ (cells c).xH ∧ 0 ≤ (cells c).xHe)
    (hsig : 0 ≤ ph.sigH ∧ 0 ≤ ph.sigHe) (hd : ∃ a, ph.dir.get a ≠ 0) (ht : 0 < ph.tau)
    (hbig : ∀ a, ph.dir.get a ≠ 0 → side.get a / (n.get a : K) < dblMax * |ph.dir.get a|)
    (hdir : inDir < 27)
    (hbox : ∀ a, idxKind inDir a = 0 →
      anchor.get a ≤ ph.pos.get a ∧ ph.pos.get a ≤ anchor.get a + side.get a) :
    Hyp (mkBlock anchor side n) cells ph inDir := by
  obtain ⟨h1, h2, h3⟩ := mkBlock_ok anchor side n hs hn
  have hcs : ∀ a, (mkBlock anchor side n).cs.get a = side.get a / (n.get a : K) := fun a => by
    simp only [mkBlock, V3.get_of, ofNat_eq]
  refine ⟨⟨h1, hn, hd, fun a ha => by rw [hcs a]; exact hbig a ha,
    fun c => kappa_nonneg_of _ _ (hc c).1 (hc c).2.1 (hc c).2.2 hsig.1 hsig.2, ht⟩, ⟨hdir, h2, fun a hk => ?_⟩⟩
  rw [h3 a]
  have := hbox a hk
  show 0 ≤ ph.pos.get a - anchor.get a ∧ ph.pos.get a - anchor.get a ≤ side.get a
  constructor <;> linarith [this.1, this.2]

/-! #### one pass through the loop body (the core the theorems above rest on) -/

/-- **One pass, packet leaves the cell**: the credited path is `≥ 0`; the new position is
`pos + path·d` and lies in the closed cell just traversed *and* in the closed cell named by the
new index; every index moves by at most one step and only in the direction of travel (the
potential `phi` = number of steps still possible drops by at least one); an index that leaves
the range sits exactly on the block face it crossed; `tau_done` grows by `κ·path`. -/
theorem one_pass_leave (hv : Valid b cells ph) (s : St K) (hr : InRange b.n s.idx) (hc : InCell b s) :
    0 ≤ (geo b cells ph s).lmin ∧
    (∀ a, (leave ph s (geo b cells ph s)).pos.get a = s.pos.get a + (geo b cells ph s).lmin * ph.dir.get a ∧
      (s.idx.get a : K) * b.cs.get a ≤ (leave ph s (geo b cells ph s)).pos.get a ∧
      (leave ph s (geo b cells ph s)).pos.get a ≤ ((s.idx.get a : K) + 1) * b.cs.get a) ∧
    InCell b (leave ph s (geo b cells ph s)) ∧ Range b (leave ph s (geo b cells ph s)) ∧
    OutFaces b ph (leave ph s (geo b cells ph s)) ∧ Strict b ph (leave ph s (geo b cells ph s)) ∧
    phi b ph (leave ph s (geo b cells ph s)) + 1 ≤ phi b ph s ∧
    (leave ph s (geo b cells ph s)).tauDone =
      s.tauDone + kappa (cells (oneIndex b.n s.idx).toNat) ph * (geo b cells ph s).lmin := by
  obtain ⟨h1, h2, h3, h4, h5⟩ := leave_spec b cells ph s hv hr hc
  refine ⟨(lmin_facts b cells ph s hv hr hc).1, fun a => ?_, h1, h2, h3, h4, h5, leave_tau b cells ph s⟩
  have := leave_axis b cells ph s hv hr hc a
  exact ⟨this.1, this.2.2.1, this.2.2.2⟩

/-- **One pass, target reached in this cell**: the corrected path `lmin·(1 − surplus/τ_cell)`
lies in `[0, lmin]`, deposits exactly the missing optical depth `τ_target − τ_done`, and the new
position `pos + path·d` stays in the closed cell; the index is unchanged. -/
theorem one_pass_stop (hv : Valid b cells ph) (s : St K) (hr : InRange b.n s.idx) (hc : InCell b s)
    (hrun : s.tauDone < ph.tau) (hreach : ph.tau ≤ (geo b cells ph s).td) :
    0 ≤ stopPath ph (geo b cells ph s) ∧ stopPath ph (geo b cells ph s) ≤ (geo b cells ph s).lmin ∧
    kappa (cells (oneIndex b.n s.idx).toNat) ph * stopPath ph (geo b cells ph s) = ph.tau - s.tauDone ∧
    (stop ph s (geo b cells ph s)).idx = s.idx ∧
    (∀ a, (stop ph s (geo b cells ph s)).pos.get a
        = s.pos.get a + stopPath ph (geo b cells ph s) * ph.dir.get a ∧
      (s.idx.get a : K) * b.cs.get a ≤ (stop ph s (geo b cells ph s)).pos.get a ∧
      (stop ph s (geo b cells ph s)).pos.get a ≤ ((s.idx.get a : K) + 1) * b.cs.get a) := by
  obtain ⟨h1, h2, h3⟩ := stop_facts b cells ph s hv hr hc hrun hreach
  refine ⟨h1, h2, h3, rfl, fun a => ?_⟩
  have := stop_axis b cells ph s hv hr hc hrun hreach a
  exact ⟨this.1, this.2.1, this.2.2⟩

/-! #### the code before the clamp in `get_{x,y,z}_index` (frozen negative example) -/

/-- A coordinate whose index is *computed from the position* and that lies on the upper block
boundary (`position·inv_cell_size ≥ n`): the OLD index rule (`return x * _inv_cell_size`) gave
the index `n`, outside the range, so the loop body never ran and the packet was returned at
once through the upper face whatever its direction (former finding
`march:start-on-upper-block-boundary`); the current rule (`std::min(…, n - 1)`) gives the last
cell, and all theorems above hold for such a start (`Start.owned` is `0 ≤ x ≤ extent`). -/
theorem old_code_upper_boundary_index_outside (hd : inDir < 27) (a : Ax)
    (hk : idxKind inDir a = 0)
    (hup : (b.n.get a : K) ≤ (ph.pos.get a - b.anchor.get a) * b.inv.get a) :
    startIdxAxisOld b inDir (pinPos b inDir (relPos b ph.pos)) a = (b.n.get a : Int) ∧
    startIdxAxis b inDir (pinPos b inDir (relPos b ph.pos)) a = (b.n.get a : Int) - 1 := by
  have ht := tables_entry_ax inDir hd a
  have hpk : pinKind inDir a = 0 := by rw [← ht.1]; exact hk
  have hrel : (pinPos b inDir (relPos b ph.pos)).get a = ph.pos.get a - b.anchor.get a := by
    simp only [pinPos, V3.get_of, pinAxis, hpk, relPos]
  constructor
  · unfold startIdxAxisOld; rw [hk]; simp only [hrel]; rw [floorUpTo_top _ _ hup]
  · unfold startIdxAxis; rw [hk]; simp only [hrel]; rw [floorUpTo_top _ _ hup]
    unfold clampIdx; rw [if_pos (by omega)]

end main
/-! ### non-vacuity: the hypotheses are satisfiable and both outcomes occur -/

def exBlock : Block ℚ := mkBlock ⟨0, 0, 0⟩ ⟨2, 1, 1⟩ ⟨2, 1, 1⟩
def exCells : Nat → Cell ℚ := fun _ => ⟨1, 1, 0⟩
def exPhoton (tau : ℚ) : Photon ℚ :=
  { pos := ⟨1 / 2, 1 / 2, 1 / 2⟩, dir := ⟨1, 0, 0⟩, tau := tau, sigH := 1, sigHe := 0, sigX := 1, w := 1,
    nu := 4000000000000000 }

theorem exHyp (tau : ℚ) (ht : 0 < tau) : Hyp exBlock exCells (exPhoton tau) 0 := by
  have hs : ∀ a, (0 : ℚ) < (⟨2, 1, 1⟩ : V3 ℚ).get a := fun a => by cases a <;> norm_num [V3.get]
  have hn : ∀ a, 0 < (⟨2, 1, 1⟩ : V3 Nat).get a := fun a => by cases a <;> norm_num [V3.get]
  obtain ⟨h1, h2, h3⟩ := mkBlock_ok (⟨0, 0, 0⟩ : V3 ℚ) ⟨2, 1, 1⟩ ⟨2, 1, 1⟩ hs hn
  have hcs : ∀ a, exBlock.cs.get a = 1 := fun a => by
    cases a <;> simp [exBlock, mkBlock, V3.of, V3.get, ofNat, lit0, lit1] <;> norm_num
  refine ⟨⟨h1, hn, ⟨.x, by simp [exPhoton, V3.get]⟩, fun a ha => ?_, fun c => ?_, ht⟩, ⟨by norm_num, h2, fun a _ => ?_⟩⟩
  · rw [hcs a]
    cases a <;> simp [exPhoton, V3.get] at ha ⊢
    unfold dblMax; norm_num
  · unfold kappa exCells exPhoton; norm_num
  · show 0 ≤ (exPhoton tau).pos.get a - exBlock.anchor.get a ∧ _ ≤ top exBlock a
    rw [show top exBlock a = (⟨2, 1, 1⟩ : V3 ℚ).get a from h3 a]
    cases a <;> simp [exPhoton, exBlock, mkBlock, V3.get] <;> norm_num

example : ∃ (b : Block ℚ) (cells : Nat → Cell ℚ) (ph : Photon ℚ) (d : Nat), Hyp b cells ph d :=
  ⟨exBlock, exCells, exPhoton 1, 0, exHyp 1 (by norm_num)⟩

/-- with target optical depth 1/4 the packet stops inside (after a path of 1/4 in cell 0) -/
theorem example_stops_inside : (interact exBlock exCells (exPhoton (1 / 4)) 0).outDir = 0 ∧
    ((interact exBlock exCells (exPhoton (1 / 4)) 0).visits.map (fun v => (v.cell, v.path))) = [(0, 1 / 4)] := by
  decide +kernel

/-- with target optical depth 10 it crosses both cells (paths 1/2 and 1) and leaves through the
upper x face (classification 21 = FACE_X_P) with 17/2 left -/
theorem example_leaves : (interact exBlock exCells (exPhoton 10) 0).outDir = 21 ∧
    ((interact exBlock exCells (exPhoton 10) 0).visits.map (fun v => (v.cell, v.path))) = [(0, 1 / 2), (1, 1)] ∧
    (interact exBlock exCells (exPhoton 10) 0).tauLeft = 17 / 2 := by
  decide +kernel

/-- non-vacuity of `exit_geometric` (its extra hypothesis "the packet leaves" is satisfiable
together with `Hyp`) and of `path_sum_is_distance` (unit direction) -/
example : Hyp exBlock exCells (exPhoton 10) 0 ∧ (interact exBlock exCells (exPhoton 10) 0).outDir ≠ 0 ∧
    (exPhoton 10).dir.x ^ 2 + (exPhoton 10).dir.y ^ 2 + (exPhoton 10).dir.z ^ 2 = 1 :=
  ⟨exHyp 10 (by norm_num), by rw [example_leaves.1]; decide, by norm_num [exPhoton]⟩

/-- a packet ON the upper x boundary of the block (entry INSIDE) -/
def exPhotonUpper (dx : ℚ) : Photon ℚ := { exPhoton 1 with pos := ⟨2, 1 / 2, 1 / 2⟩, dir := ⟨dx, 0, 0⟩ }

/-- the hypotheses hold for a start on the upper block boundary (closed block) -/
theorem exHypUpper (dx : ℚ) (hdx : dx = 1 ∨ dx = -1) : Hyp exBlock exCells (exPhotonUpper dx) 0 := by
  have hs : ∀ a, (0 : ℚ) < (⟨2, 1, 1⟩ : V3 ℚ).get a := fun a => by cases a <;> norm_num [V3.get]
  have hn : ∀ a, 0 < (⟨2, 1, 1⟩ : V3 Nat).get a := fun a => by cases a <;> norm_num [V3.get]
  obtain ⟨h1, h2, h3⟩ := mkBlock_ok (⟨0, 0, 0⟩ : V3 ℚ) ⟨2, 1, 1⟩ ⟨2, 1, 1⟩ hs hn
  have hcs : ∀ a, exBlock.cs.get a = 1 := fun a => by
    cases a <;> simp [exBlock, mkBlock, V3.of, V3.get, ofNat, lit0, lit1] <;> norm_num
  have hdx0 : dx ≠ 0 := by rcases hdx with h | h <;> rw [h] <;> norm_num
  have habs : |dx| = 1 := by rcases hdx with h | h <;> rw [h] <;> norm_num
  refine ⟨⟨h1, hn, ⟨.x, by simpa [exPhotonUpper, V3.get] using hdx0⟩, fun a ha => ?_, fun c => ?_, by norm_num [exPhotonUpper, exPhoton]⟩,
    ⟨by norm_num, h2, fun a _ => ?_⟩⟩
  · rw [hcs a]
    cases a <;> simp [exPhotonUpper, V3.get] at ha ⊢
    rw [habs]; unfold dblMax; norm_num
  · unfold kappa exCells exPhotonUpper exPhoton; norm_num
  · show 0 ≤ (exPhotonUpper dx).pos.get a - exBlock.anchor.get a ∧ _ ≤ top exBlock a
    rw [show top exBlock a = (⟨2, 1, 1⟩ : V3 ℚ).get a from h3 a]
    cases a <;> simp [exPhotonUpper, exBlock, mkBlock, V3.get] <;> norm_num

/-- on the upper x boundary and travelling INTO the block: the packet now traverses the last
cell (here it is absorbed after a path of 1 in cell 1) -/
theorem example_upper_boundary_inward :
    (interact exBlock exCells (exPhotonUpper (-1)) 0).outDir = 0 ∧
    ((interact exBlock exCells (exPhotonUpper (-1)) 0).visits.map (fun v => (v.cell, v.path))) = [(1, 1)] := by
  decide +kernel

/-- on the upper x boundary and travelling OUT of the block: it leaves at once through that face
(21 = FACE_X_P) with zero path and its optical depth untouched -/
theorem example_upper_boundary_outward :
    (interact exBlock exCells (exPhotonUpper 1) 0).outDir = 21 ∧
    ((interact exBlock exCells (exPhotonUpper 1) 0).visits.map (fun v => (v.cell, v.path))) = [(1, 0)] ∧
    (interact exBlock exCells (exPhotonUpper 1) 0).tauLeft = 1 := by
  decide +kernel

/-! ### non-vacuity for `propagate` / `compute_optical_depth` / `hyp_of_inputs` -/

/-- the no-pin hypotheses hold for a packet emitted inside the block … -/
theorem exHypNoPin (tau : ℚ) (ht : 0 < tau) : HypNoPin exBlock exCells (exPhoton tau) 0 := by
  have h := exHyp tau ht
  have hk : ∀ a, idxKind 0 a = 0 := fun a => by cases a <;> decide
  exact ⟨h.valid, ⟨h.start.dir_ok, h.start.inv_ok, fun a hk' => h.start.owned a hk',
    fun a h1 => absurd h1 (by rw [hk a]; decide), fun a h2 => absurd h2 (by rw [hk a]; decide)⟩⟩

/-- … and for a packet handed over on the lower x face (22 = FACE_X_N) -/
def exPhotonFace : Photon ℚ := { exPhoton 10 with pos := ⟨0, 1 / 2, 1 / 2⟩ }

theorem exHypNoPinFace : HypNoPin exBlock exCells exPhotonFace 22 := by
  have h := exHyp 10 (by norm_num)
  have hs : ∀ a, (0 : ℚ) < (⟨2, 1, 1⟩ : V3 ℚ).get a := fun a => by cases a <;> norm_num [V3.get]
  have hn : ∀ a, 0 < (⟨2, 1, 1⟩ : V3 Nat).get a := fun a => by cases a <;> norm_num [V3.get]
  obtain ⟨h1, h2, h3⟩ := mkBlock_ok (⟨0, 0, 0⟩ : V3 ℚ) ⟨2, 1, 1⟩ ⟨2, 1, 1⟩ hs hn
  have hcs : ∀ a, exBlock.cs.get a = 1 := fun a => by
    cases a <;> simp [exBlock, mkBlock, V3.of, V3.get, ofNat, lit0, lit1] <;> norm_num
  refine ⟨⟨h.valid.cs_pos, h.valid.n_pos, h.valid.moving, h.valid.big, h.valid.kappa_nonneg, by norm_num [exPhotonFace, exPhoton]⟩,
    ⟨by norm_num, h2, fun a hk => ?_, fun a hk => ?_, fun a hk => ?_⟩⟩
  · show 0 ≤ exPhotonFace.pos.get a - exBlock.anchor.get a ∧ _ ≤ top exBlock a
    rw [show top exBlock a = (⟨2, 1, 1⟩ : V3 ℚ).get a from h3 a]
    cases a <;> simp [exPhotonFace, exPhoton, exBlock, mkBlock, V3.get] <;> norm_num
  · rw [hcs a]
    cases a
    · simp [exPhotonFace, exPhoton, exBlock, mkBlock, V3.get]
    · exact absurd hk (by decide)
    · exact absurd hk (by decide)
  · cases a <;> exact absurd hk (by decide)

/-- `compute_optical_depth` on the example: the line from (1/2,1/2,1/2) in +x has optical depth
3/2, the packet's 10 becomes 23/2, it ends on FACE_X_P (21) at x = 2 -/
theorem example_cod :
    (computeOpticalDepth exBlock exCells (exPhoton 10) 0).tau = 23 / 2 ∧
    (computeOpticalDepth exBlock exCells (exPhoton 10) 0).outDir = 21 ∧
    (computeOpticalDepth exBlock exCells (exPhoton 10) 0).pos.x = 2 := by
  decide +kernel

/-- `propagate` from the lower x face: target 10 is not reached on a line of optical depth 2 -/
theorem example_propagate :
    (propagate exBlock exCells exPhotonFace 22).outDir = 21 ∧
    (propagate exBlock exCells exPhotonFace 22).tauLeft = 8 ∧
    ((propagate exBlock exCells exPhotonFace 22).visits.map (fun v => (v.cell, v.path))) = [(0, 1), (1, 1)] := by
  decide +kernel

/-- `hyp_of_inputs` is applicable (unit box of one cell, packet in the centre) -/
example : Hyp (mkBlock (⟨0, 0, 0⟩ : V3 ℚ) ⟨1, 1, 1⟩ ⟨1, 1, 1⟩) exCells
    { exPhoton 1 with pos := ⟨1 / 2, 1 / 2, 1 / 2⟩ } 0 := by
  refine hyp_of_inputs _ _ _ _ _ _ (fun a => by cases a <;> norm_num [V3.get])
    (fun a => by cases a <;> norm_num [V3.get]) (fun c => by norm_num [exCells])
    (by norm_num [exPhoton]) ⟨.x, by norm_num [exPhoton, V3.get]⟩ (by norm_num [exPhoton]) (fun a ha => ?_)
    (by norm_num) (fun a _ => by cases a <;> norm_num [exPhoton, V3.get])
  cases a <;> simp [exPhoton, V3.get] at ha ⊢
  unfold dblMax; norm_num

/-- `interact_stops_iff_cod` on the example (entry INSIDE): the target 1/4 is below the 3/2 that
`compute_optical_depth` measures, and `interact` indeed stops inside -/
example : (interact exBlock exCells (exPhoton (1 / 4)) 0).outDir = 0 :=
  (interact_stops_iff_cod exBlock exCells (exPhoton (1 / 4)) 0 (exHyp _ (by norm_num))
    (pinPos_inside exBlock _)).mpr (by
      have : (computeOpticalDepth exBlock exCells (exPhoton (1 / 4)) 0).tau = 7 / 4 := by decide +kernel
      rw [this]; norm_num [exPhoton])

end CMacVerif.RayMarch
