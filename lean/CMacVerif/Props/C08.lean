import CMacVerif.Lemmas.AtomicsPool
import CMacVerif.Lemmas.AtomicsQueue
import CMacVerif.Lemmas.AtomicsCtr
/-!
# C08 — shared scheduler containers never give one slot or task to two owners

Model: `CMacVerif/Model/Atomics.lean` — sequentially consistent shared memory, one transition =
one `AtomicValue` operation (or one piece of plain code), any thread may move next.  Every theorem
below quantifies over **every number of threads** (`progs : List (List Cmd)`, one program per
thread, of any length), **every schedule** (`sched : List Nat`, any length) and every pool size /
task table (`cfg`).  `run cfg (init progs) sched` is the state reached.

Vocabulary (defined next to the lemmas): `holdL cfg L th` = how many times thread `th` holds
lock `L` (in user hands, through a task whose `lock_dependency` succeeded, or transiently between
a successful CAS and the matching unlock); `holdS i th` = the same for pool slot `i` (in user
hands, or between the successful flag CAS and the return of `get_free_element`, or between the
call of `free_element` and its CAS).
-/
namespace CMacVerif.Atomics

/-! ## ThreadLock -/

/-- **Locks admit one holder at a time.**  In every reachable state, for every lock (resource
locks and queue locks): the holders counted over all threads are exactly `[lock flag]`. -/
theorem lock_count (cfg : Cfg) (progs : List (List Cmd)) (sched : List Nat) (L : LockId) :
    sumT (holdL cfg L) (run cfg (init progs) sched).threads
      = ((run cfg (init progs) sched).mem.locks L).toNat :=
  lockInv_run cfg progs sched L

/-- **lock_mutex**: two different threads never hold the same lock, whatever the number of
threads and the interleaving. -/
theorem lock_mutex (cfg : Cfg) (progs : List (List Cmd)) (sched : List Nat) (L : LockId)
    (t1 t2 : Nat) (a b : Thread)
    (h1 : (run cfg (init progs) sched).threads[t1]? = some a)
    (h2 : (run cfg (init progs) sched).threads[t2]? = some b) (hne : t1 ≠ t2)
    (ha : 1 ≤ holdL cfg L a) : holdL cfg L b = 0 := by
  have hs := lock_count cfg progs sched L
  have hle := add_le_sumT (holdL cfg L) _ t1 t2 a b h1 h2 hne
  have := Bool.toNat_le ((run cfg (init progs) sched).mem.locks L)
  omega

/-- a thread never holds a lock twice, and a held lock has its flag set -/
theorem lock_held_once (cfg : Cfg) (progs : List (List Cmd)) (sched : List Nat) (L : LockId)
    (t : Nat) (a : Thread) (h1 : (run cfg (init progs) sched).threads[t]? = some a) :
    holdL cfg L a ≤ 1 ∧ (1 ≤ holdL cfg L a → (run cfg (init progs) sched).mem.locks L = true) := by
  have hs := lock_count cfg progs sched L
  have hle := le_sumT (holdL cfg L) _ t a h1
  have := Bool.toNat_le ((run cfg (init progs) sched).mem.locks L)
  refine ⟨by omega, fun h => ?_⟩
  cases hl : (run cfg (init progs) sched).mem.locks L
  · rw [hl] at hs; simp at hs; omega
  · rfl

/-- non-vacuity: two threads race for lock 0 with `lock`; one gets it, the other one spins -/
example :
    let s := run ⟨1, 200, fun _ => (none, none)⟩ (init [[.lock 0], [.lock 0]]) [0, 1, 0, 1, 1]
    s.mem.locks (.dep 0) = true ∧ (s.threads.map (·.held)) = [[0], []] := by decide

/-! ## Slot pool (ThreadSafeVector, MemorySpace) -/

/-- In every reachable state and for every slot index: holders counted over all threads =
`[slot flag]`. -/
theorem slot_count (cfg : Cfg) (progs : List (List Cmd)) (sched : List Nat) (i : Nat) :
    sumT (holdS i) (run cfg (init progs) sched).threads
      = ((run cfg (init progs) sched).mem.flags i).toNat :=
  slotInv_run cfg progs sched i

/-- **slot_unique**: no slot index is held by two owners — for every number of threads, every
interleaving of the single atomic operations, every pool size (in particular a pool that becomes
full, and any value of the wrapping cursor). -/
theorem slot_unique (cfg : Cfg) (progs : List (List Cmd)) (sched : List Nat) (i : Nat)
    (t1 t2 : Nat) (a b : Thread)
    (h1 : (run cfg (init progs) sched).threads[t1]? = some a)
    (h2 : (run cfg (init progs) sched).threads[t2]? = some b) (hne : t1 ≠ t2)
    (ha : 1 ≤ holdS i a) : holdS i b = 0 := by
  have hs := slot_count cfg progs sched i
  have hle := add_le_sumT (holdS i) _ t1 t2 a b h1 h2 hne
  have := Bool.toNat_le ((run cfg (init progs) sched).mem.flags i)
  omega

/-- in particular the lists of slots in the callers' hands are disjoint and duplicate-free -/
theorem owned_disjoint (cfg : Cfg) (progs : List (List Cmd)) (sched : List Nat) (i : Nat)
    (t1 t2 : Nat) (a b : Thread)
    (h1 : (run cfg (init progs) sched).threads[t1]? = some a)
    (h2 : (run cfg (init progs) sched).threads[t2]? = some b) (hne : t1 ≠ t2)
    (ha : i ∈ a.owned) : i ∉ b.owned ∧ a.owned.count i = 1 := by
  have hc : 1 ≤ a.owned.count i := List.count_pos_iff.mpr ha
  have hb := slot_unique cfg progs sched i t1 t2 a b h1 h2 hne (by unfold holdS; omega)
  have hs := slot_count cfg progs sched i
  have hle := le_sumT (holdS i) _ t1 a h1
  have := Bool.toNat_le ((run cfg (init progs) sched).mem.flags i)
  have ea : holdS i a = a.owned.count i + pcHoldS a.pc i := rfl
  have eb : holdS i b = b.owned.count i + pcHoldS b.pc i := rfl
  constructor
  · intro hi
    have : 1 ≤ b.owned.count i := List.count_pos_iff.mpr hi
    omega
  · omega

/-- non-vacuity (pool of size 2 that becomes full and wraps): thread 0 takes both slots, frees
slot 0; thread 1, preempted between its flag CAS and its counter increment, gets slot 0 -/
example :
    let s := run ⟨2, 200, fun _ => (none, none)⟩ (init [[.get, .get, .free 1], [.get]])
      ([0,0,0,0,0,0, 0,0,0,0,0,0, 1,1,1,1, 0,0,0, 1,1, 1,1,1,1])
    (s.threads.map (·.owned)) = [[1], [0]] ∧ s.mem.cur = 5 ∧ s.mem.taken = 2 := by decide

/-- **quiescent_count**, general form: in every reachable state
`_number_taken + #(threads between flag CAS and increment) = #(flags set) + #(threads between
flag clear and decrement)`. -/
theorem count_general (cfg : Cfg) (hs : 0 < cfg.size) (progs : List (List Cmd)) (sched : List Nat) :
    let s := run cfg (init progs) sched
    s.mem.taken + (sumT incP s.threads : Int) = (cnt s.mem.flags cfg.size : Int) + (sumT decP s.threads : Int) :=
  (poolInv_run cfg hs progs sched).2.2

/-- **quiescent_count**: when no `get`/`free` is between its flag operation and its counter
operation (in particular when all threads are idle), the occupancy counter equals the number of
flags set. -/
theorem quiescent_count (cfg : Cfg) (hs : 0 < cfg.size) (progs : List (List Cmd)) (sched : List Nat)
    (hq : ∀ th ∈ (run cfg (init progs) sched).threads, incP th = 0 ∧ decP th = 0) :
    (run cfg (init progs) sched).mem.taken = (cnt (run cfg (init progs) sched).mem.flags cfg.size : Int) := by
  have h := count_general cfg hs progs sched
  simp only at h
  rw [sumT_eq_zero incP _ (fun th hth => (hq th hth).1),
      sumT_eq_zero decP _ (fun th hth => (hq th hth).2)] at h
  simpa using h

/-- every slot index a thread holds or is about to touch is inside the pool -/
theorem slot_in_range (cfg : Cfg) (hs : 0 < cfg.size) (progs : List (List Cmd)) (sched : List Nat)
    (th : Thread) (hth : th ∈ (run cfg (init progs) sched).threads) (i : Nat) (hi : i ∈ th.owned) :
    i < cfg.size :=
  ((poolInv_run cfg hs progs sched).2.1 th hth).1 i hi

/-! ## Atomic counters -/

/-- **counter_linear**, invariant form: value + net effect of all calls still to be made (or in
progress) is the same in every reachable state; `LockFree::add`'s compare-exchange loop included. -/
theorem counter_invariant (cfg : Cfg) (progs : List (List Cmd)) (sched : List Nat) (c : Nat) :
    let s := run cfg (init progs) sched
    s.mem.ctr c + sumTI (net c) s.threads = ((progs.map (progNet c)).sum : Int) := by
  have h := ctrTotal_run cfg c (init progs) sched
  simp only [ctrTotal] at h ⊢
  rw [h]
  simp only [init]
  have : ∀ l : List (List Cmd), sumTI (net c) (l.map fun p => ({ prog := p } : Thread)) = (l.map (progNet c)).sum := by
    intro l
    induction l with
    | nil => rfl
    | cons p l ih => simp only [List.map_cons, sumTI_cons, List.sum_cons, ih]; simp [net, pcNet]
  rw [this]; simp

/-- **counter_linear**: when all threads have completed their calls, the counter has changed by
the sum of the net effects of all calls, in whatever order the atomic operations interleaved. -/
theorem counter_linear (cfg : Cfg) (progs : List (List Cmd)) (sched : List Nat) (c : Nat)
    (hdone : ∀ th ∈ (run cfg (init progs) sched).threads, th.pc = .idle ∧ th.prog = []) :
    (run cfg (init progs) sched).mem.ctr c = ((progs.map (progNet c)).sum : Int) := by
  have h := counter_invariant cfg progs sched c
  simp only at h
  rw [sumTI_eq_zero] at h
  · simpa using h
  · intro th hth
    obtain ⟨h1, h2⟩ := hdone th hth
    simp [net, h1, h2, pcNet, progNet]

/-- a program of `n` `pre_increment`s and `m` `pre_decrement`s of counter `c` has net effect `n - m` -/
theorem progNet_inc_dec (c : Nat) (prog : List Cmd) (h : ∀ x ∈ prog, x = .inc c ∨ x = .dec c) :
    progNet c prog = (prog.count (.inc c) : Int) - (prog.count (.dec c) : Int) := by
  induction prog with
  | nil => rfl
  | cons x l ih =>
    have := ih (fun y hy => h y (by simp [hy]))
    simp only [progNet, List.map_cons, List.sum_cons] at this ⊢
    rcases h x (by simp) with rfl | rfl <;>
      simp [cmdNet, indI, List.count_cons, this] <;> omega

/-- non-vacuity: 2 increments and 1 decrement from two threads, plus two racing `LockFree::add`s
(one compare-exchange fails and is retried) -/
example :
    let s := run ⟨1, 200, fun _ => (none, none)⟩
      (init [[.inc 0, .lfAdd 1 5, .inc 0], [.dec 0, .lfAdd 1 7]]) [0,0,1,1,0,1,0,1,1,1,0,0,0,0]
    s.mem.ctr 0 = 1 ∧ s.mem.ctr 1 = 12 ∧ s.threads.all Thread.finished = true := by decide

/-! ## Task queue -/

/-- **queue_multiset**: for every queue and task index,
(#occurrences in the queue) + (#times popped, over all threads) = (#times added, over all threads). -/
theorem queue_multiset (cfg : Cfg) (progs : List (List Cmd)) (sched : List Nat) (q x : Nat) :
    let s := run cfg (init progs) sched
    (s.mem.items q).count x + sumT (cntPop q x) s.threads = sumT (cntAdd q x) s.threads :=
  queueInv_run cfg progs sched q x

/-- **pop_unique**: a task index that was added once is handed out at most once — never to two
threads, never twice to one thread — and exactly once as soon as it is no longer in the queue. -/
theorem pop_unique (cfg : Cfg) (progs : List (List Cmd)) (sched : List Nat) (q x : Nat)
    (hadd : sumT (cntAdd q x) (run cfg (init progs) sched).threads = 1) :
    (∀ (t1 t2 : Nat) (a b : Thread), (run cfg (init progs) sched).threads[t1]? = some a →
        (run cfg (init progs) sched).threads[t2]? = some b → t1 ≠ t2 →
        (q, x) ∈ a.popLog → (q, x) ∉ b.popLog) ∧
    (∀ (t : Nat) (a : Thread), (run cfg (init progs) sched).threads[t]? = some a → a.popLog.count (q, x) ≤ 1) ∧
    (x ∉ (run cfg (init progs) sched).mem.items q →
        sumT (cntPop q x) (run cfg (init progs) sched).threads = 1) := by
  have h := queue_multiset cfg progs sched q x
  simp only at h
  refine ⟨?_, ?_, ?_⟩
  · intro t1 t2 a b h1 h2 hne ha hb
    have hle := add_le_sumT (cntPop q x) _ t1 t2 a b h1 h2 hne
    have : 1 ≤ cntPop q x a := List.count_pos_iff.mpr ha
    have : 1 ≤ cntPop q x b := List.count_pos_iff.mpr hb
    omega
  · intro t a h1
    have hle := le_sumT (cntPop q x) _ t a h1
    have e : cntPop q x a = a.popLog.count (q, x) := rfl
    omega
  · intro hx
    have : ((run cfg (init progs) sched).mem.items q).count x = 0 := List.count_eq_zero.mpr hx
    omega

/-- non-vacuity: two threads add to and pop from one queue; task 0 needs locks 0 and 1, task 1
needs lock 1: after thread 1 popped task 1, thread 0's pop has to roll back its first lock -/
example :
    let s := run ⟨1, 200, fun t => if t = 0 then (some 0, some 1) else (some 1, none)⟩
      (init [[.addTask 0 0, .addTask 0 1, .getTask 0], [.getTask 0]])
      [0,0,0,0,0,0,0,0, 1,1,1,1,1,1,1,1, 0,0,0,0,0,0,0,0,0,0]
    (s.threads.map (·.popLog)) = [[], [(0, 1)]] ∧ s.mem.items 0 = [0] ∧
    s.mem.locks (.dep 0) = false ∧ s.mem.locks (.dep 1) = true := by decide

end CMacVerif.Atomics
