import CMacVerif.Lemmas.AtomicsPool
import CMacVerif.Lemmas.AtomicsMem
import CMacVerif.Lemmas.AtomicsQueue
import CMacVerif.Lemmas.AtomicsCtr
import CMacVerif.Lemmas.AtomicsRun
import CMacVerif.Lemmas.AtomicsHydro
import CMacVerif.Lemmas.AtomicsMax
import CMacVerif.Lemmas.AtomicsTask
import CMacVerif.Lemmas.AtomicsMaint
/-!
# C08 — shared scheduler containers never give one slot or task to two owners

Model: `CMacVerif/Model/Atomics.lean` — sequentially consistent shared memory, one transition =
one `AtomicValue` operation (or one piece of plain code), any thread may move next.  Every theorem
below quantifies over **every number of threads** (`progs : List (List Cmd)`, one program per
thread, of any length), **every schedule** (`sched : List Nat`, any length) and every pool size /
task table (`cfg`).  `run cfg (init progs) sched` is the state reached.

Vocabulary (defined next to the lemmas): `holdL cfg L th` = how many times thread `th` holds
lock `L` (in user hands, through a task whose `lock_dependency` succeeded, or transiently between
a successful CAS and the matching unlock); `holdS i th` = the same for pool slot `i` (in user
hands, or between the successful flag CAS and the return of `get_free_element`, or between the
call of `free_element` and its CAS).
-/
namespace CMacVerif.Atomics

/-! ## ThreadLock -/

/-- **Locks admit one holder at a time.**  In every reachable state, for every lock (resource
locks and queue locks): the holders counted over all threads are exactly `[lock flag]`. -/
theorem lock_count (cfg : Cfg) (progs : List (List Cmd)) (sched : List Nat) (L : LockId) :
    sumT (holdL cfg L) (run cfg (init progs) sched).threads
      = ((run cfg (init progs) sched).mem.locks L).toNat :=
  lockInv_run cfg progs sched L

/-- **lock_mutex**: two different threads never hold the same lock, whatever the number of
threads and the interleaving. -/
theorem lock_mutex (cfg : Cfg) (progs : List (List Cmd)) (sched : List Nat) (L : LockId)
    (t1 t2 : Nat) (a b : Thread)
    (h1 : (run cfg (init progs) sched).threads[t1]? = some a)
    (h2 : (run cfg (init progs) sched).threads[t2]? = some b) (hne : t1 ≠ t2)
    (ha : 1 ≤ holdL cfg L a) : holdL cfg L b = 0 := by
  have hs := lock_count cfg progs sched L
  have hle := add_le_sumT (holdL cfg L) _ t1 t2 a b h1 h2 hne
  have := Bool.toNat_le ((run cfg (init progs) sched).mem.locks L)
  omega

/-- a thread never holds a lock twice, and a held lock has its flag set -/
theorem lock_held_once (cfg : Cfg) (progs : List (List Cmd)) (sched : List Nat) (L : LockId)
    (t : Nat) (a : Thread) (h1 : (run cfg (init progs) sched).threads[t]? = some a) :
    holdL cfg L a ≤ 1 ∧ (1 ≤ holdL cfg L a → (run cfg (init progs) sched).mem.locks L = true) := by
  have hs := lock_count cfg progs sched L
  have hle := le_sumT (holdL cfg L) _ t a h1
  have := Bool.toNat_le ((run cfg (init progs) sched).mem.locks L)
  refine ⟨by omega, fun h => ?_⟩
  cases hl : (run cfg (init progs) sched).mem.locks L
  · rw [hl] at hs; simp at hs; omega
  · rfl

/-- non-vacuity: two threads race for lock 0 with `lock`; one gets it, the other one spins -/
example :
    let s := run { size := 1, cap := 200, deps := fun _ => (none, none) } (init [[.lock 0], [.lock 0]]) [0, 1, 0, 1, 1]
    s.mem.locks (.dep 0) = true ∧ (s.threads.map (·.held)) = [[0], []] := by decide

/-! ## Slot pool (ThreadSafeVector, MemorySpace) -/

/-- In every reachable state and for every slot index: holders counted over all threads =
`[slot flag]`. -/
theorem slot_count (cfg : Cfg) (progs : List (List Cmd)) (sched : List Nat) (i : Nat) :
    sumT (holdS i) (run cfg (init progs) sched).threads
      = ((run cfg (init progs) sched).mem.flags i).toNat :=
  slotInv_run cfg progs sched i

/-- **slot_unique**: no slot index is held by two owners — for every number of threads, every
interleaving of the single atomic operations, every pool size (in particular a pool that becomes
full, and any value of the wrapping cursor). -/
theorem slot_unique (cfg : Cfg) (progs : List (List Cmd)) (sched : List Nat) (i : Nat)
    (t1 t2 : Nat) (a b : Thread)
    (h1 : (run cfg (init progs) sched).threads[t1]? = some a)
    (h2 : (run cfg (init progs) sched).threads[t2]? = some b) (hne : t1 ≠ t2)
    (ha : 1 ≤ holdS i a) : holdS i b = 0 := by
  have hs := slot_count cfg progs sched i
  have hle := add_le_sumT (holdS i) _ t1 t2 a b h1 h2 hne
  have := Bool.toNat_le ((run cfg (init progs) sched).mem.flags i)
  omega

/-- in particular the lists of slots in the callers' hands are disjoint and duplicate-free -/
theorem owned_disjoint (cfg : Cfg) (progs : List (List Cmd)) (sched : List Nat) (i : Nat)
    (t1 t2 : Nat) (a b : Thread)
    (h1 : (run cfg (init progs) sched).threads[t1]? = some a)
    (h2 : (run cfg (init progs) sched).threads[t2]? = some b) (hne : t1 ≠ t2)
    (ha : i ∈ a.owned) : i ∉ b.owned ∧ a.owned.count i = 1 := by
  have hc : 1 ≤ a.owned.count i := List.count_pos_iff.mpr ha
  have hb := slot_unique cfg progs sched i t1 t2 a b h1 h2 hne (by unfold holdS; omega)
  have hs := slot_count cfg progs sched i
  have hle := le_sumT (holdS i) _ t1 a h1
  have := Bool.toNat_le ((run cfg (init progs) sched).mem.flags i)
  have ea : holdS i a = a.owned.count i + pcHoldS a.pc i := rfl
  have eb : holdS i b = b.owned.count i + pcHoldS b.pc i := rfl
  constructor
  · intro hi
    have : 1 ≤ b.owned.count i := List.count_pos_iff.mpr hi
    omega
  · omega

/-- non-vacuity (pool of size 2 that becomes full and wraps): thread 0 takes both slots, frees
slot 0; thread 1, preempted between its flag CAS and its counter increment, gets slot 0 -/
example :
    let s := run { size := 2, cap := 200, deps := fun _ => (none, none) } (init [[.get, .get, .free 1], [.get]])
      ([0,0,0,0,0,0,0, 0,0,0,0,0,0,0, 1,1,1,1, 0,0,0, 1,1, 1,1,1,1,1])
    (s.threads.map (·.owned)) = [[1], [0]] ∧ s.mem.cur = 5 ∧ s.mem.taken = 2 := by decide

/-- **quiescent_count**, general form: in every reachable state
`_number_taken + #(threads between flag CAS and increment) = #(flags set) + #(threads between
flag clear and decrement)`. -/
theorem count_general (cfg : Cfg) (hs : 0 < cfg.size) (progs : List (List Cmd)) (sched : List Nat) :
    let s := run cfg (init progs) sched
    s.mem.taken + (sumT incP s.threads : Int) = (cnt s.mem.flags cfg.size : Int) + (sumT decP s.threads : Int) :=
  (poolInv_run cfg hs progs sched).2.2

/-- **quiescent_count**: when no `get`/`free` is between its flag operation and its counter
operation (in particular when all threads are idle), the occupancy counter equals the number of
flags set. -/
theorem quiescent_count (cfg : Cfg) (hs : 0 < cfg.size) (progs : List (List Cmd)) (sched : List Nat)
    (hq : ∀ th ∈ (run cfg (init progs) sched).threads, incP th = 0 ∧ decP th = 0) :
    (run cfg (init progs) sched).mem.taken = (cnt (run cfg (init progs) sched).mem.flags cfg.size : Int) := by
  have h := count_general cfg hs progs sched
  simp only at h
  rw [sumT_eq_zero incP _ (fun th hth => (hq th hth).1),
      sumT_eq_zero decP _ (fun th hth => (hq th hth).2)] at h
  simpa using h

/-- **quiescent_count**, owner form: when every thread is idle, the occupancy counter equals the
total number of slots in the callers' hands. -/
theorem quiescent_count_owned (cfg : Cfg) (hs : 0 < cfg.size) (progs : List (List Cmd)) (sched : List Nat)
    (hidle : ∀ th ∈ (run cfg (init progs) sched).threads, th.pc = .idle) :
    (run cfg (init progs) sched).mem.taken
      = (sumT (fun th => th.owned.length) (run cfg (init progs) sched).threads : Int) :=
  taken_eq_owned cfg _ (poolInv_run cfg hs progs sched) hidle

/-- the occupancy counter never goes below zero in any reachable state: the unsigned
`_number_taken` of the C++ never wraps (the model uses an `Int`) -/
theorem number_taken_nonneg (cfg : Cfg) (hs : 0 < cfg.size) (progs : List (List Cmd)) (sched : List Nat) :
    0 ≤ (run cfg (init progs) sched).mem.taken :=
  taken_nonneg cfg _ (poolInv_run cfg hs progs sched)

/-- every slot index a thread holds or is about to touch is inside the pool -/
theorem slot_in_range (cfg : Cfg) (hs : 0 < cfg.size) (progs : List (List Cmd)) (sched : List Nat)
    (th : Thread) (hth : th ∈ (run cfg (init progs) sched).threads) (i : Nat) (hi : i ∈ th.owned) :
    i < cfg.size :=
  ((poolInv_run cfg hs progs sched).2.1 th hth).1 i hi

/-! ## Atomic counters -/

/-- **counter_linear**, invariant form: value + net effect of all calls still to be made (or in
progress) is the same in every reachable state; `LockFree::add`'s compare-exchange loop included. -/
theorem counter_invariant (cfg : Cfg) (progs : List (List Cmd)) (sched : List Nat) (c : Nat) :
    let s := run cfg (init progs) sched
    s.mem.ctr c + sumTI (net c) s.threads = ((progs.map (progNet c)).sum : Int) := by
  have h := ctrTotal_run cfg c (init progs) sched
  simp only [ctrTotal] at h ⊢
  rw [h]
  simp only [init]
  have : ∀ l : List (List Cmd), sumTI (net c) (l.map fun p => ({ prog := p } : Thread)) = (l.map (progNet c)).sum := by
    intro l
    induction l with
    | nil => rfl
    | cons p l ih => simp only [List.map_cons, sumTI_cons, List.sum_cons, ih]; simp [net, pcNet]
  rw [this]; simp

/-- **counter_linear**: when all threads have completed their calls, the counter has changed by
the sum of the net effects of all calls, in whatever order the atomic operations interleaved. -/
theorem counter_linear (cfg : Cfg) (progs : List (List Cmd)) (sched : List Nat) (c : Nat)
    (hdone : ∀ th ∈ (run cfg (init progs) sched).threads, th.pc = .idle ∧ th.prog = []) :
    (run cfg (init progs) sched).mem.ctr c = ((progs.map (progNet c)).sum : Int) := by
  have h := counter_invariant cfg progs sched c
  simp only at h
  rw [sumTI_eq_zero] at h
  · simpa using h
  · intro th hth
    obtain ⟨h1, h2⟩ := hdone th hth
    simp [net, h1, h2, pcNet, progNet]

/-- a program of `n` `pre_increment`s and `m` `pre_decrement`s of counter `c` has net effect `n - m` -/
theorem progNet_inc_dec (c : Nat) (prog : List Cmd) (h : ∀ x ∈ prog, x = .inc c ∨ x = .dec c) :
    progNet c prog = (prog.count (.inc c) : Int) - (prog.count (.dec c) : Int) := by
  induction prog with
  | nil => rfl
  | cons x l ih =>
    have := ih (fun y hy => h y (by simp [hy]))
    simp only [progNet, List.map_cons, List.sum_cons] at this ⊢
    rcases h x (by simp) with rfl | rfl <;>
      simp [cmdNet, indI, this] <;> omega

/-- **counter_linear** as in the property statement: threads that together perform `n`
`pre_increment`s and `m` `pre_decrement`s of a counter change it by `n - m`, in any interleaving. -/
theorem counter_linear_n_m (cfg : Cfg) (progs : List (List Cmd)) (sched : List Nat) (c : Nat)
    (honly : ∀ p ∈ progs, ∀ x ∈ p, x = .inc c ∨ x = .dec c)
    (hdone : ∀ th ∈ (run cfg (init progs) sched).threads, th.pc = .idle ∧ th.prog = []) :
    (run cfg (init progs) sched).mem.ctr c
      = ((progs.map fun p => ((p.count (.inc c) : Nat) : Int) - ((p.count (.dec c) : Nat) : Int)).sum : Int) := by
  rw [counter_linear cfg progs sched c hdone]
  congr 1
  exact List.map_congr_left (fun p hp => progNet_inc_dec c p (honly p hp))

/-- non-vacuity: 2 increments and 1 decrement from two threads, plus two racing `LockFree::add`s
(one compare-exchange fails and is retried) -/
example :
    let s := run { size := 1, cap := 200, deps := fun _ => (none, none) }
      (init [[.inc 0, .lfAdd 1 5, .inc 0], [.dec 0, .lfAdd 1 7]]) [0,0,1,1,0,1,0,1,1,1,0,0,0,0]
    s.mem.ctr 0 = 1 ∧ s.mem.ctr 1 = 12 ∧ s.threads.all Thread.finished = true := by decide

/-! ## Task queue -/

/-- **queue_multiset**: for every queue and task index,
(#occurrences in the queue) + (#times popped, over all threads) = (#times added, over all threads). -/
theorem queue_multiset (cfg : Cfg) (progs : List (List Cmd)) (sched : List Nat) (q x : Nat) :
    let s := run cfg (init progs) sched
    (s.mem.items q).count x + sumT (cntPop q x) s.threads = sumT (cntAdd q x) s.threads :=
  queueInv_run cfg progs sched q x

/-- **pop_unique**: a task index that was added once is handed out at most once — never to two
threads, never twice to one thread — and exactly once as soon as it is no longer in the queue. -/
theorem pop_unique (cfg : Cfg) (progs : List (List Cmd)) (sched : List Nat) (q x : Nat)
    (hadd : sumT (cntAdd q x) (run cfg (init progs) sched).threads = 1) :
    (∀ (t1 t2 : Nat) (a b : Thread), (run cfg (init progs) sched).threads[t1]? = some a →
        (run cfg (init progs) sched).threads[t2]? = some b → t1 ≠ t2 →
        (q, x) ∈ a.popLog → (q, x) ∉ b.popLog) ∧
    (∀ (t : Nat) (a : Thread), (run cfg (init progs) sched).threads[t]? = some a → a.popLog.count (q, x) ≤ 1) ∧
    (x ∉ (run cfg (init progs) sched).mem.items q →
        sumT (cntPop q x) (run cfg (init progs) sched).threads = 1) := by
  have h := queue_multiset cfg progs sched q x
  simp only at h
  refine ⟨?_, ?_, ?_⟩
  · intro t1 t2 a b h1 h2 hne ha hb
    have hle := add_le_sumT (cntPop q x) _ t1 t2 a b h1 h2 hne
    have : 1 ≤ cntPop q x a := List.count_pos_iff.mpr ha
    have : 1 ≤ cntPop q x b := List.count_pos_iff.mpr hb
    omega
  · intro t a h1
    have hle := le_sumT (cntPop q x) _ t a h1
    have e : cntPop q x a = a.popLog.count (q, x) := rfl
    omega
  · intro hx
    have : ((run cfg (init progs) sched).mem.items q).count x = 0 := List.count_eq_zero.mpr hx
    omega

/-- non-vacuity: two threads add to and pop from one queue; task 0 needs locks 0 and 1, task 1
needs lock 1: after thread 1 popped task 1, thread 0's pop has to roll back its first lock -/
example :
    let s := run { size := 1, cap := 200, deps := fun t => if t = 0 then (some 0, some 1) else (some 1, none) }
      (init [[.addTask 0 0, .addTask 0 1, .getTask 0], [.getTask 0]])
      [0,0,0,0,0,0,0,0, 1,1,1,1,1,1,1,1, 0,0,0,0,0,0,0,0,0,0]
    (s.threads.map (·.popLog)) = [[], [(0, 1)]] ∧ s.mem.items 0 = [0] ∧
    s.mem.locks (.dep 0) = false ∧ s.mem.locks (.dep 1) = true := by decide

/-- a task whose `lock_dependency` succeeded (directly or inside a pop) has every declared lock
set, held by that thread and by no other thread -/
theorem task_holds_locks (cfg : Cfg) (progs : List (List Cmd)) (sched : List Nat)
    (t1 : Nat) (a : Thread) (x : Nat) (L : LockId)
    (h1 : (run cfg (init progs) sched).threads[t1]? = some a) (hx : x ∈ a.tasks)
    (hL : 1 ≤ depsHold cfg x L) :
    (run cfg (init progs) sched).mem.locks L = true ∧ 1 ≤ holdL cfg L a ∧
    ∀ (t2 : Nat) (b : Thread), (run cfg (init progs) sched).threads[t2]? = some b → t1 ≠ t2 →
      holdL cfg L b = 0 := by
  have hle := depsHold_le_tasksHold cfg a.tasks x L hx
  have ha : 1 ≤ holdL cfg L a := by unfold holdL; omega
  exact ⟨(lock_held_once cfg progs sched L t1 a h1).2 ha, ha,
    fun t2 b h2 hne => lock_mutex cfg progs sched L t1 t2 a b h1 h2 hne ha⟩

/-- **pop_holds_locks**: when `get_task` / `try_get_task` is about to return task `x` (it re-read
`_queue[index]` after `lock_dependency` succeeded — the queue lock's mutual exclusion makes that
the task whose locks were taken), every lock `x` declares is set and held by the popping thread
and by nobody else. -/
theorem pop_holds_locks (cfg : Cfg) (progs : List (List Cmd)) (sched : List Nat)
    (t1 q x : Nat) (a : Thread) (L : LockId)
    (h1 : (run cfg (init progs) sched).threads[t1]? = some a)
    (hpc : a.pc = .popUnlock q (some x)) (hL : 1 ≤ depsHold cfg x L) :
    (run cfg (init progs) sched).mem.locks L = true ∧ 1 ≤ holdL cfg L a ∧
    ∀ (t2 : Nat) (b : Thread), (run cfg (init progs) sched).threads[t2]? = some b → t1 ≠ t2 →
      holdL cfg L b = 0 :=
  task_holds_locks cfg progs sched t1 a x L h1
    ((stabInv_run cfg progs sched t1 a h1).2 q x hpc) hL

/-- the plain code of a queue operation runs under the queue lock: two threads are never both
inside the body of an operation on the same queue (this is what justifies treating the body as
one transition) -/
theorem queue_body_exclusive (cfg : Cfg) (progs : List (List Cmd)) (sched : List Nat) (q : Nat)
    (t1 t2 : Nat) (a b : Thread)
    (h1 : (run cfg (init progs) sched).threads[t1]? = some a)
    (h2 : (run cfg (init progs) sched).threads[t2]? = some b) (hne : t1 ≠ t2)
    (ha : 1 ≤ pcHoldL cfg a.pc (.queue q)) : pcHoldL cfg b.pc (.queue q) = 0 := by
  have := lock_mutex cfg progs sched (.queue q) t1 t2 a b h1 h2 hne (by unfold holdL; omega)
  unfold holdL at this; omega

/-- **rollback**: the roll-back step of a failed two-lock attempt (`_dependency[1]` was busy)
clears the first dependency; afterwards the thread holds exactly what it held before
`lock_dependency` was called (its user locks, its tasks, and the queue lock if the call came
from a pop) — no lock of the failed attempt stays held. -/
theorem rollback (cfg : Cfg) (progs : List (List Cmd)) (sched : List Nat) (tid : Nat) (th : Thread)
    (c : Ctx) (t : Nat)
    (hth : (run cfg (init progs) sched).threads[tid]? = some th) (hpc : th.pc = .tlBack c t) :
    ∃ th', (step cfg (run cfg (init progs) sched) tid).threads[tid]? = some th' ∧
      th'.held = th.held ∧ th'.tasks = th.tasks ∧ (∀ L, pcHoldL cfg th'.pc L = ctxHold c L) ∧
      (∀ a, (cfg.deps t).1 = some a →
        (step cfg (run cfg (init progs) sched) tid).mem.locks (.dep a) = false) := by
  have hlt : tid < (run cfg (init progs) sched).threads.length := by
    rcases Nat.lt_or_ge tid (run cfg (init progs) sched).threads.length with h' | h'
    · exact h'
    · rw [List.getElem?_eq_none h'] at hth; cases hth
  rw [step_some cfg _ tid th hth]
  refine ⟨(exec cfg (run cfg (init progs) sched).mem th).2, by simp [hlt], ?_⟩
  unfold exec
  rw [hpc]
  rcases hd : cfg.deps t with ⟨_ | a, d1⟩ <;> cases c <;>
    simp [hd, tlFail, ret, pcHoldL, ctxHold]

/-- **pop_available** (solo / obstruction-free form): the thread has just taken the queue lock of
`get_task` / `try_get_task`; if some queued task has all its declared locks free, then the pop,
running without interference, returns a task (skipping and rolling back the candidates above it
that cannot be locked). -/
theorem pop_available (cfg : Cfg) (s : State) (tid q : Nat) (th : Thread) (x : Nat)
    (hth : s.threads[tid]? = some th) (hpc : th.pc = .popInit q)
    (hx : x ∈ s.mem.items q) (hfree : Lockable cfg s.mem.locks x) :
    Solo cfg tid s (fun s' => ∃ th' y, s'.threads[tid]? = some th' ∧ th'.pc = .popUnlock q (some y)) := by
  have e1 : exec cfg s.mem th = (s.mem, { th with pc := .popScan q (s.mem.items q).length }) := by
    unfold exec; rw [hpc]
  have h1 := solo_exec hth e1
  apply Solo.next
  obtain ⟨j, hj, hjx⟩ := List.mem_iff_getElem.mp hx
  refine pop_progress cfg tid q _ _ _ h1.1 rfl (by rw [h1.2]; exact Nat.le_refl _)
    ⟨j, x, hj, ?_, by rw [h1.2]; exact hfree⟩
  rw [h1.2, List.getElem?_eq_getElem hj, hjx]

/-- non-vacuity of `pop_available`: the top entry needs a busy lock, the entry below is free -/
example :
    let cfg : Cfg := { size := 1, cap := 200, deps := fun t => if t = 0 then (some 0, none) else (some 1, some 0) }
    let s : State := { mem := { items := fun _ => [0, 1], locks := fun L => L = .dep 1 || L = .queue 0 },
                       threads := [{ pc := .popInit 0 }] }
    (run cfg s (List.replicate 8 0)).threads.map (·.pc) = [.popUnlock 0 (some 0)] := by decide

/-- **slot_released**: the CAS of `free_element(i)` clears the flag of slot `i`, and from then on
(in fact: whenever some slot of the pool is free) a `get_free_element` search loop that runs
without interference obtains a slot that was free. -/
theorem slot_released (cfg : Cfg) (s : State) (tid i : Nat) (th : Thread)
    (hth : s.threads[tid]? = some th) (hpc : th.pc = .freeUnlock i) (hi : i < cfg.size) :
    (step cfg s tid).mem.flags i = false ∧
    ∀ (u : Nat) (thu : Thread) (r : Option Nat), (step cfg s tid).threads[u]? = some thu →
      thu.pc = .getInc r →
      ∃ n k th', n ≤ 2 * cfg.size ∧
        (run cfg (step cfg s tid) (List.replicate n u)).threads[u]? = some th' ∧
        th'.pc = .getCount k r ∧ (step cfg s tid).mem.flags k = false := by
  have e1 : exec cfg s.mem th = ({ s.mem with flags := upd s.mem.flags i false }, { th with pc := .freeDec i }) := by
    unfold exec; rw [hpc]
  have h1 := solo_exec hth e1
  have hf : (step cfg s tid).mem.flags i = false := by rw [h1.2]; simp
  refine ⟨hf, fun u thu r hu hpcu => ?_⟩
  obtain ⟨d, hd, hdi⟩ := exists_offset (step cfg s tid).mem.cur cfg.size i hi
  obtain ⟨n, k, th', hn, hrun, hpc', hk, _, _⟩ :=
    get_progress_aux cfg u r d (step cfg s tid) thu hu hpcu (by rw [hdi]; exact hf)
  exact ⟨n, k, th', by omega, hrun, hpc', hk⟩

/-- **wraparound**: for every value of the cursor (it only ever grows; the index is taken modulo
the size) and a pool that is full except for slot `j`: the search loop, running without
interference, obtains exactly slot `j` within `2·size` transitions. -/
theorem wraparound (cfg : Cfg) (s : State) (u j : Nat) (thu : Thread) (r : Option Nat)
    (hu : s.threads[u]? = some thu) (hpc : thu.pc = .getInc r) (hj : j < cfg.size)
    (hfree : s.mem.flags j = false) (hfull : ∀ k, k < cfg.size → k ≠ j → s.mem.flags k = true) :
    ∃ n th', n ≤ 2 * cfg.size ∧ (run cfg s (List.replicate n u)).threads[u]? = some th' ∧
      th'.pc = .getCount j r ∧ (run cfg s (List.replicate n u)).mem.flags j = true := by
  obtain ⟨d, hd, hdi⟩ := exists_offset s.mem.cur cfg.size j hj
  obtain ⟨n, k, th', hn, hrun, hpc', hk, hk', e, _, hke⟩ :=
    get_progress_aux cfg u r d s thu hu hpc (by rw [hdi]; exact hfree)
  have hklt : k < cfg.size := by rw [hke]; exact Nat.mod_lt _ (by omega)
  have hkj : k = j := by
    rcases Nat.decEq k j with h | h
    · have := hfull k hklt h; rw [hk] at this; cases this
    · exact h
  subst hkj
  exact ⟨n, th', by omega, hrun, hpc', hk'⟩

/-- non-vacuity of `wraparound`: size 3, cursor 7 (wrapped twice), only slot 0 free -/
example :
    let cfg : Cfg := { size := 3, cap := 200, deps := fun _ => (none, none) }
    let s : State := { mem := { cur := 7, flags := fun i => i != 0 }, threads := [{ pc := .getInc none }] }
    (run cfg s (List.replicate 6 0)).threads.map (·.pc) = [.getCount 0 none] := by decide

/-! ## MemorySpace::add_photons -/

/-- ghost accounting that holds for every client: packets handed to `add_photons` = packets
stored in pool buffers + packets in flight (taken from the input buffer, new buffer not yet
filled) + packets discarded by `free_buffer` + `lost`, where `lost` counts what the copy loop
would silently drop if the target buffer already held more than `PHOTONBUFFER_SIZE` packets. -/
theorem photon_accounting (cfg : Cfg) (hs : 0 < cfg.size) (progs : List (List Cmd)) (sched : List Nat) :
    let s := run cfg (init progs) sched
    sumN s.mem.count cfg.size + sumT pend s.threads + sumT (·.disc) s.threads + sumT (·.lost) s.threads
      = sumT (·.inj) s.threads :=
  photonInv_run cfg hs progs sched

/-- For clients of `MemorySpace` (buffers released through `free_buffer` only, input buffers of at
most `PHOTONBUFFER_SIZE` packets), in every reachable state: nothing was lost, no buffer holds more
than `PHOTONBUFFER_SIZE` packets, and a free slot is an empty buffer (the overflow buffer obtained
inside `add_photons` is empty). -/
theorem add_photons_no_loss (cfg : Cfg) (hs : 0 < cfg.size) (progs : List (List Cmd))
    (hms : ∀ p ∈ progs, ∀ c ∈ p, CmdMS cfg.cap c) (sched : List Nat) :
    let s := run cfg (init progs) sched
    (∀ th ∈ s.threads, th.lost = 0) ∧ (∀ i, s.mem.count i ≤ cfg.cap) ∧
    (∀ i, s.mem.flags i = false → s.mem.count i = 0) := by
  have h := msInv_run cfg hs progs hms sched
  refine ⟨fun th hth => ?_, h.2.1, h.2.2⟩
  obtain ⟨k, hk, hke⟩ := List.mem_iff_getElem.mp hth
  exact (h.1 k th (by rw [List.getElem?_eq_getElem hk, hke])).2.2.2.2.2

/-- **add_photons_conserves**: for clients of `MemorySpace`, under every interleaving: packets
handed to `add_photons` = packets in the (old and new) pool buffers + packets in flight inside a
running `add_photons` + packets discarded by `free_buffer`. -/
theorem add_photons_conserves (cfg : Cfg) (hs : 0 < cfg.size) (progs : List (List Cmd))
    (hms : ∀ p ∈ progs, ∀ c ∈ p, CmdMS cfg.cap c) (sched : List Nat) :
    let s := run cfg (init progs) sched
    sumN s.mem.count cfg.size + sumT pend s.threads + sumT (·.disc) s.threads = sumT (·.inj) s.threads := by
  have h := photon_accounting cfg hs progs sched
  have hl := (add_photons_no_loss cfg hs progs hms sched).1
  simp only at h hl ⊢
  rw [sumT_eq_zero (·.lost) _ hl] at h
  omega

/-- **owner_writes_only**: while thread `t1` holds slot `i` — from the successful flag CAS inside
`get_free_buffer` / `get_free_element`, through the time the index is in the caller's hands, to the
flag-clearing CAS of `free_buffer(i)` (which wipes the buffer BEFORE it releases the slot) — no
transition of any other thread writes the content of buffer `i`. -/
theorem owner_writes_only (cfg : Cfg) (hs : 0 < cfg.size) (progs : List (List Cmd)) (sched : List Nat)
    (i t1 t2 : Nat) (a b : Thread)
    (h1 : (run cfg (init progs) sched).threads[t1]? = some a)
    (h2 : (run cfg (init progs) sched).threads[t2]? = some b) (hne : t1 ≠ t2)
    (ha : 1 ≤ holdS i a) :
    (step cfg (run cfg (init progs) sched) t2).mem.count i = (run cfg (init progs) sched).mem.count i := by
  have hb := slot_unique cfg progs sched i t1 t2 a b h1 h2 hne ha
  have hwf := (poolInv_run cfg hs progs sched).2.1 b (List.mem_of_getElem? h2)
  rw [step_some cfg _ t2 b h2]
  exact exec_count_frame cfg _ b i hwf hb

/-- **handed_out_buffer_is_empty**: for clients of `MemorySpace`, under every interleaving: the
slot a `get_free_buffer` is about to return holds an empty buffer — at every program counter
between the successful flag CAS and the return, and still when the index is handed to the caller
(nobody else can have written it: `owner_writes_only`). -/
theorem handed_out_buffer_is_empty (cfg : Cfg) (hs : 0 < cfg.size) (progs : List (List Cmd))
    (hms : ∀ p ∈ progs, ∀ c ∈ p, CmdMS cfg.cap c) (sched : List Nat)
    (tid i : Nat) (th : Thread) (hth : (run cfg (init progs) sched).threads[tid]? = some th) :
    (pcFresh th.pc = some i → (run cfg (init progs) sched).mem.count i = 0) ∧
    (th.pc = .getTotal i none →
      ∃ th', (step cfg (run cfg (init progs) sched) tid).threads[tid]? = some th' ∧
        th'.pc = .idle ∧ th'.res = .slot i :: th.res ∧ th'.owned = i :: th.owned ∧
        (step cfg (run cfg (init progs) sched) tid).mem.count i = 0) := by
  have hinv := (msInv_run cfg hs progs hms sched).1 tid th hth
  refine ⟨fun h => hinv.2.2.1 i h, fun hpc => ?_⟩
  have h0 : (run cfg (init progs) sched).mem.count i = 0 := hinv.2.2.1 i (by simp [hpc, pcFresh])
  have e : exec cfg (run cfg (init progs) sched).mem th
      = ({ (run cfg (init progs) sched).mem with totalTaken := (run cfg (init progs) sched).mem.totalTaken + 1 },
         ret { th with owned := i :: th.owned } (.slot i)) := by
    unfold exec; rw [hpc]; rfl
  have h := solo_exec hth e
  exact ⟨_, h.1, rfl, rfl, rfl, by rw [h.2]; exact h0⟩

/-- one call, sequentially: the fill step moves `min n (cap - size)` packets into the target; if
that fills it exactly, the rest continues (through `get_free_buffer`) to the new buffer, otherwise
everything fitted. -/
theorem add_photons_fill_step (cfg : Cfg) (m : Mem) (th : Thread) (tgt n : Nat)
    (hpc : th.pc = .apFill tgt n) (hcap : m.count tgt ≤ cfg.cap) :
    (exec cfg m th).2.lost = th.lost ∧
    ((exec cfg m th).1.count tgt = m.count tgt + min n (cfg.cap - m.count tgt)) ∧
    ((exec cfg m th).2.pc = .getCheck (some (n - min n (cfg.cap - m.count tgt))) ∨
     ((exec cfg m th).2.pc = .idle ∧ min n (cfg.cap - m.count tgt) = n)) := by
  unfold exec
  rw [hpc]
  simp only
  split
  · simp
  · rename_i hne
    simp only [ret, upd_same, true_and]
    have : min n (cfg.cap - m.count tgt) = n := by
      simp only [Nat.min_def] at hne ⊢
      split at hne <;> rename_i h
      · simp [h]
      · omega
    simp [this]

/-- non-vacuity of the `MemorySpace` discipline hypothesis -/
example : ∀ p ∈ [[Cmd.getSafe, .addPhotons 0 150, .addPhotons 0 100, .freeBuf 0]], ∀ c ∈ p, CmdMS 200 c := by
  intro p hp c hc
  simp only [List.mem_singleton] at hp
  subst hp
  simp only [List.mem_cons, List.not_mem_nil, or_false] at hc
  rcases hc with rfl | rfl | rfl | rfl <;> simp [CmdMS]

/-- non-vacuity: 150 + 100 packets: the target fills up (200), 50 go to a fresh buffer -/
example :
    let s := run { size := 3, cap := 200, deps := fun _ => (none, none) }
      (init [[.getSafe, .addPhotons 0 150, .addPhotons 0 100]]) (List.replicate 21 0)
    (List.range 3).map s.mem.count = [200, 50, 0] ∧ s.threads.map (·.owned) = [[1, 0]] ∧
    s.threads.map (·.lost) = [0] := by decide

/-! ## Task-level atomicity (the assumption of C07's `Worker` model and of C01)

`running cfg s` = all tasks some thread *runs* in state `s`: from the atomic operation that took
the task's last lock (inside `get_task` / `try_get_task`, or a direct `lock_dependency`) up to the
first unlock of `unlock_dependency`.  `graphOf cfg` is the lock part of `Worker.Graph`
(`lockset` = `_dependency[0..1]` after the duplicate rule of `set_extra_dependency`). -/

open Spec

/-- **running_tasks_conflict_free**: at every moment of every execution, any two running tasks
(of different threads, or of one thread that popped several) have disjoint declared lock sets —
exactly the guard of `Worker.step … (.acquire t)`. -/
theorem running_tasks_conflict_free (cfg : Cfg) (progs : List (List Cmd)) (sched : List Nat) :
    (running cfg (run cfg (init progs) sched)).Pairwise
      (fun a b => Worker.conflicts (graphOf cfg) a b = false) := by
  simp only [conflicts_graphOf]
  apply pairwise_of_hsum
  intro L
  unfold running
  rw [hsum_running]
  exact runHold_sum_le_one cfg _ (lockInv_run cfg progs sched) L

/-- sum form: every lock is declared by at most one running task, and the thread that runs a
task holds all the locks the task declares -/
theorem running_holds_locks (cfg : Cfg) (progs : List (List Cmd)) (sched : List Nat) (L : LockId) :
    sumT (runHold cfg L) (run cfg (init progs) sched).threads ≤ 1 ∧
    ∀ th ∈ (run cfg (init progs) sched).threads, runHold cfg L th ≤ holdL cfg L th :=
  ⟨runHold_sum_le_one cfg _ (lockInv_run cfg progs sched) L, fun th _ => runHold_le_holdL cfg L th⟩

/-- nothing runs and nothing is queued initially -/
theorem abs_init (cfg : Cfg) (progs : List (List Cmd)) :
    (∀ x, (abs cfg (init progs)).run x = 0) ∧ (∀ q x, (abs cfg (init progs)).queue q x = 0) := by
  refine ⟨fun x => ?_, fun q x => ?_⟩
  · show sumT (runW cfg x) (init progs).threads = 0
    apply sumT_eq_zero
    intro th hth
    simp only [init, List.mem_map] at hth
    obtain ⟨p, _, rfl⟩ := hth
    simp [runW, runList, pcRunning]
  · show ((init progs).mem.items q).count x - absK (init progs) q x = 0
    simp [init]

/-- **pop_is_atomic_acquire**, one step: in every reachable state every transition of every
thread is either a stuttering step of the abstract lock-level specification (`Model/AtomicsSpec`)
or the abstract transition of its label, *enabled* in the abstraction of the current state.  The
label `acquire q t` sits on the atomic operation with which a pop takes the LAST lock of `t`;
enabledness means: `t` is (still) in the abstract queue `q` — so a task is acquired at most once
per add — and no running task conflicts with `t`. -/
theorem pop_is_atomic_acquire_step (cfg : Cfg) (progs : List (List Cmd)) (sched : List Nat)
    (tid : Nat) (th : Thread) (hth : (run cfg (init progs) sched).threads[tid]? = some th) :
    match lab cfg (run cfg (init progs) sched).mem th with
    | none => Same (abs cfg (run cfg (init progs) sched)) (abs cfg (step cfg (run cfg (init progs) sched) tid))
    | some l => Step cfg (abs cfg (run cfg (init progs) sched)) l (abs cfg (step cfg (run cfg (init progs) sched) tid)) := by
  have hstep : run cfg (init progs) (sched ++ [tid]) = step cfg (run cfg (init progs) sched) tid := by
    rw [run_append]; rfl
  exact sim_step cfg _ tid th (lockInv_run cfg progs sched) (stabInv_run cfg progs sched)
    (by rw [← hstep]; exact lockInv_run cfg progs _) (by rw [← hstep]; exact stabInv_run cfg progs _) hth

/-- **pop_is_atomic_acquire** (refinement): the projection of every execution — `acquire t` at
the linearisation point of each successful pop, `finish t` at the first unlock of
`unlock_dependency(t)`, `add q t` at the body of `add_task` — is an execution of the abstract
specification from the empty state to the abstraction of the state reached. -/
theorem pop_is_atomic_acquire (cfg : Cfg) (progs : List (List Cmd)) (sched : List Nat) :
    Exec cfg (abs cfg (init progs)) (trace cfg (init progs) sched) (abs cfg (run cfg (init progs) sched)) :=
  refines_from cfg progs sched []

/-- (2a) the guard, in `Worker` terms: at a linearisation point of a pop of `t`, `t` conflicts
with no task that is running -/
theorem acquire_guard (cfg : Cfg) (progs : List (List Cmd)) (sched : List Nat)
    (tid q t : Nat) (th : Thread) (hth : (run cfg (init progs) sched).threads[tid]? = some th)
    (hl : lab cfg (run cfg (init progs) sched).mem th = some (.acquire q t)) :
    ∀ u ∈ running cfg (run cfg (init progs) sched), Worker.conflicts (graphOf cfg) t u = false := by
  have h := pop_is_atomic_acquire_step cfg progs sched tid th hth
  rw [hl] at h
  intro u hu
  rw [conflicts_graphOf]
  apply h.2.1 u
  show 1 ≤ sumT (runW cfg u) (run cfg (init progs) sched).threads
  unfold running at hu
  obtain ⟨thk, hk, hmem⟩ := List.mem_flatMap.mp hu
  obtain ⟨k, hklt, hke⟩ := List.mem_iff_getElem.mp hk
  have := le_sumT (runW cfg u) (run cfg (init progs) sched).threads k thk (by rw [List.getElem?_eq_getElem hklt, hke])
  have : 1 ≤ runW cfg u thk := List.count_pos_iff.mpr hmem
  omega

/-- (2b) at most once: at a linearisation point of a pop of `t` from queue `q`, `t` is in the
abstract queue (queued and not claimed by another pop), and the step takes one occurrence out -/
theorem acquire_at_most_once (cfg : Cfg) (progs : List (List Cmd)) (sched : List Nat)
    (tid q t : Nat) (th : Thread) (hth : (run cfg (init progs) sched).threads[tid]? = some th)
    (hl : lab cfg (run cfg (init progs) sched).mem th = some (.acquire q t)) :
    1 ≤ absQueue (run cfg (init progs) sched) q t ∧
    absQueue (step cfg (run cfg (init progs) sched) tid) q t + 1 = absQueue (run cfg (init progs) sched) q t := by
  have h := pop_is_atomic_acquire_step cfg progs sched tid th hth
  rw [hl] at h
  refine ⟨h.1, ?_⟩
  have := h.2.2.2 q t
  simpa [abs, one] using this

/-- **failed_pop_changes_nothing** (interleaved form): a transition without a label — in
particular every transition of a pop that ends with NO_TASK: lock attempts, roll-backs, skipped
entries — is a stuttering step of the abstract specification; the only labelled transition inside
a pop leads to the removal of the entry (a pop that returns a task). -/
theorem failed_pop_is_stutter (cfg : Cfg) (progs : List (List Cmd)) (sched : List Nat)
    (tid : Nat) (th : Thread) (hth : (run cfg (init progs) sched).threads[tid]? = some th) :
    (lab cfg (run cfg (init progs) sched).mem th = none →
      Same (abs cfg (run cfg (init progs) sched)) (abs cfg (step cfg (run cfg (init progs) sched) tid))) ∧
    (∀ q t, lab cfg (run cfg (init progs) sched).mem th = some (.acquire q t) →
      ∃ j, (exec cfg (run cfg (init progs) sched).mem th).2.pc = .popRemove q j t) := by
  refine ⟨fun hn => ?_, fun q t h => acquire_leads_to_remove cfg _ th q t h⟩
  have h := pop_is_atomic_acquire_step cfg progs sched tid th hth
  rw [hn] at h
  exact h

/-- **failed_pop_changes_nothing** (memory form): a `get_task` / `try_get_task` that finds the
queue lock free and is not interfered with terminates, and if it returns NO_TASK, every lock
flag, the content of every queue and the caller's own locks and tasks are exactly as it found
them (each failed two-lock attempt was rolled back). -/
theorem failed_pop_changes_nothing (cfg : Cfg) (s : State) (tid q : Nat) (b : Bool) (th : Thread)
    (hth : s.threads[tid]? = some th) (hpc : th.pc = .popLock q b)
    (hfree : s.mem.locks (.queue q) = false) :
    Solo cfg tid s (fun s' => ∃ th' r, s'.threads[tid]? = some th' ∧ th'.pc = .idle ∧
      th'.res = .popped q r :: th.res ∧
      (r = none → (∀ L, s'.mem.locks L = s.mem.locks L) ∧ s'.mem.items = s.mem.items ∧
        th'.tasks = th.tasks ∧ th'.held = th.held)) :=
  pop_outcome cfg s tid q b th hth hpc hfree

/-- non-vacuity: both queued tasks need lock 1, which is busy; task 1 also needs lock 0 (taken,
then rolled back): the pop returns NO_TASK and leaves everything as it was -/
example :
    let cfg : Cfg := { size := 1, cap := 200, deps := fun t => if t = 0 then (some 1, none) else (some 0, some 1) }
    let s : State := { mem := { items := fun _ => [0, 1], locks := fun L => L = .dep 1 },
                       threads := [{ pc := .popLock 0 true }] }
    let s' := run cfg s (List.replicate 13 0)
    s'.threads.map (·.res) = [[.popped 0 none]] ∧ s'.mem.items 0 = [0, 1] ∧
    (s'.mem.locks (.dep 0), s'.mem.locks (.dep 1), s'.mem.locks (.queue 0)) = (false, true, false) := by decide

/-! ## Counter protocol of the hydro worker loop -/

/-- **hydro_counter**: threads whose calls put tasks into queues only through the initial loop
(`seed`) and the release of children (`release`), for every task graph (`cfg.children`,
`cfg.queueOf`), number of threads and schedule: `number_of_tasks` (plus the increments of the
initial loop that are still to come) is at least the number of queued tasks plus the number of
running tasks. -/
theorem hydro_counter (cfg : Cfg) (hq : ∀ c, cfg.queueOf c < cfg.nq) (progs : List (List Cmd))
    (hprog : ∀ p ∈ progs, ∀ c ∈ p, HydroCmd cfg c) (sched : List Nat) :
    let s := run cfg (init progs) sched
    (qlen s.mem cfg.nq : Int) + (sumT runCount s.threads : Int)
      ≤ s.mem.num + (sumT (fun th => debtSeed th.pc) s.threads : Int) :=
  hydro_counter_bound cfg _ (hydroInv_run cfg hq progs hprog sched)

/-- … hence, once the initial loop is over, **the counter is never 0 while a task is queued or
running**: if `number_of_tasks = 0` then every queue is empty and no thread holds a popped task
or is inside `unlock_dependency`. -/
theorem hydro_counter_zero (cfg : Cfg) (hq : ∀ c, cfg.queueOf c < cfg.nq) (progs : List (List Cmd))
    (hprog : ∀ p ∈ progs, ∀ c ∈ p, HydroCmd cfg c) (sched : List Nat)
    (hseed : ∀ th ∈ (run cfg (init progs) sched).threads, debtSeed th.pc = 0)
    (hzero : (run cfg (init progs) sched).mem.num = 0) :
    (∀ q, q < cfg.nq → (run cfg (init progs) sched).mem.items q = []) ∧
    (∀ th ∈ (run cfg (init progs) sched).threads, th.tasks = [] ∧ unlockingPC th.pc = 0) := by
  have h := hydro_counter cfg hq progs hprog sched
  simp only at h
  rw [sumT_eq_zero (fun th => debtSeed th.pc) _ hseed, hzero] at h
  have hq0 : qlen (run cfg (init progs) sched).mem cfg.nq = 0 := by omega
  have hr0 : sumT runCount (run cfg (init progs) sched).threads = 0 := by omega
  refine ⟨fun q hqlt => ?_, fun th hth => ?_⟩
  · have := le_sumN (fun q => ((run cfg (init progs) sched).mem.items q).length) cfg.nq q hqlt
    unfold qlen at hq0
    exact List.length_eq_zero_iff.mp (by omega)
  · have := sumT_zero_elim runCount _ hr0 th hth
    unfold runCount at this
    exact ⟨List.length_eq_zero_iff.mp (by omega), by omega⟩

/-- the exact accounting behind `hydro_counter` -/
theorem hydro_counter_exact (cfg : Cfg) (hq : ∀ c, cfg.queueOf c < cfg.nq) (progs : List (List Cmd))
    (hprog : ∀ p ∈ progs, ∀ c ∈ p, HydroCmd cfg c) (sched : List Nat) :
    let s := run cfg (init progs) sched
    s.mem.num + (sumT (fun th => debtSeed th.pc) s.threads : Int) + (sumT (fun th => debtRel th.pc) s.threads : Int)
      = (qlen s.mem cfg.nq : Int) + (sumT live s.threads : Int) :=
  (hydroInv_run cfg hq progs hprog sched).2

/-- non-vacuity (and the transient the task-level model does not see): parent 0 with children
1 and 2; thread 0 pops 0, releases child 1 (`add_task` done, `pre_increment` pending); thread 1 pops
child 1, finishes and retires it: `number_of_tasks` reads 0 although thread 0 still has child 2 to
release — no task is queued or running at that moment, as the theorem says. -/
example :
    let cfg : Cfg := { size := 1, cap := 200, deps := fun _ => (none, none),
                       children := fun t => if t = 0 then [1, 2] else [], nq := 1 }
    let s := run cfg (init [[.setUnf 1 1, .setUnf 2 1, .seed 0 0, .getTask 0, .unlockTask 0, .release],
                            [.getTask 0, .unlockTask 0, .release]])
      (List.replicate 23 0 ++ List.replicate 11 1)
    s.mem.num = 0 ∧ s.mem.items 0 = [] ∧ s.threads.map (·.tasks) = [[], []] ∧
    (s.threads.map (·.pc)).head? = some (.numInc 0 1 (.rel 0 [2])) := by decide

/-! ## AtomicValue::max (load; compare-exchange loop with reload) -/

/-- **max_monotone**: from ANY state, along ANY schedule of any number of threads, a cell that is
updated through `max` (and `_max_number_taken` of the slot pool) never decreases — in
particular a CAS that was beaten by a larger value does not write a smaller one over it. -/
theorem max_monotone (cfg : Cfg) (s : State) (sched : List Nat) (c : Nat) :
    s.mem.mx c ≤ (run cfg s sched).mem.mx c ∧ s.mem.maxTaken ≤ (run cfg s sched).mem.maxTaken :=
  run_mx_mono cfg c sched s

/-- **max_is_maximum**, general form with pending calls: in every reachable state the cell is at
most the maximum of the initial value 0 and all arguments of all `max` calls of all threads, and
every argument is either still pending (its call has not completed its successful
compare-exchange) or `≤` the cell. -/
theorem max_general (cfg : Cfg) (progs : List (List Cmd)) (sched : List Nat) (c : Nat) :
    let s := run cfg (init progs) sched
    s.mem.mx c ≤ lmax (allVals c progs) ∧
    ∀ v ∈ allVals c progs,
      (∃ (k : Nat) (th : Thread), s.threads[k]? = some th ∧ v ∈ pendVals c th) ∨ v ≤ s.mem.mx c := by
  refine ⟨(run_inv cfg (MaxUB c _) (fun s tid h => maxUB_step cfg c _ s tid h) _ sched (maxUB_init c progs)).1, ?_⟩
  intro v hv
  exact run_inv cfg (MaxLB c v) (fun s tid h => maxLB_step cfg c v s tid h) _ sched
    (Or.inl (mem_allVals c progs v hv))

/-- **max_is_maximum**: once all calls have completed, the cell holds exactly
max(initial value, v₁, …, vₙ), whatever the interleaving of the loads and compare-exchanges. -/
theorem max_is_maximum (cfg : Cfg) (progs : List (List Cmd)) (sched : List Nat) (c : Nat)
    (hdone : ∀ th ∈ (run cfg (init progs) sched).threads, th.pc = .idle ∧ th.prog = []) :
    (run cfg (init progs) sched).mem.mx c = lmax (allVals c progs) := by
  obtain ⟨hub, hlb⟩ := max_general cfg progs sched c
  have hge : ∀ v ∈ allVals c progs, v ≤ (run cfg (init progs) sched).mem.mx c := by
    intro v hv
    rcases hlb v hv with ⟨k, th, hk, hp⟩ | h
    · obtain ⟨h1, h2⟩ := hdone th (List.mem_of_getElem? hk)
      simp [pendVals, h1, h2, pcMaxVal] at hp
    · exact h
  have h0 : (0 : Int) ≤ (run cfg (init progs) sched).mem.mx c := by
    have := (max_monotone cfg (init progs) sched c).1
    simpa [init] using this
  exact Int.le_antisymm hub (lmax_le _ _ h0 hge)

/-- non-vacuity, the interleaving of the seeded defect: thread 0 loads 0 for `max(5)`, thread 1
completes `max(9)`, thread 0's compare-exchange fails, it reloads 9 and writes max(5,9) = 9 -/
example :
    let s := run { size := 1, cap := 200, deps := fun _ => (none, none) }
      (init [[.maxC 0 5], [.maxC 0 9]]) [0, 0, 1, 1, 1, 0, 0, 0]
    s.mem.mx 0 = 9 ∧ s.threads.all Thread.finished = true := by decide

/-! ## Class-level contract of `Task`: the dependency setters and `lock_dependency`

`setupDeps ops` = `_dependency[0..1]` of a fresh `Task` after the setter calls `ops`
(`Task::set_dependency`, `Task::set_extra_dependency` as they are in src/Task.hpp: the duplicate
check of `set_extra_dependency` compares with the first dependency *as it is at that moment*). -/

/-- first dependency first (the order every call site uses): the duplicate is dropped, the
resulting lock set is the set of declared resources -/
theorem setup_first_then_extra (a b : Nat) :
    setupDeps [.dep a] = (some a, none) ∧
    setupDeps [.dep a, .extra b] = (some a, if b = a then none else some b) ∧
    setupDeps [.dep a, .extra b] = mkDeps (some a) (some b) := by
  refine ⟨rfl, ?_, ?_⟩ <;> by_cases h : b = a <;> simp [setupDeps, applySet, mkDeps, h]

/-- the other order: nothing is dropped — with `a = b` the task declares the same lock twice;
`set_extra_dependency` alone leaves the first dependency null -/
theorem setup_extra_then_first (a b : Nat) :
    setupDeps [.extra b, .dep a] = (some a, some b) ∧ setupDeps [.extra b] = (none, some b) := by
  constructor <;> simp [setupDeps, applySet]

/-- for a task set up first-dependency-first, "can be locked" is exactly "all declared resources
are free" -/
theorem conforming_lockable_iff (cfg : Cfg) (locks : LockId → Bool) (t a b : Nat)
    (h : cfg.deps t = setupDeps [.dep a, .extra b]) :
    Lockable cfg locks t ↔ (locks (.dep a) = false ∧ locks (.dep b) = false) := by
  unfold Lockable
  rw [h, (setup_first_then_extra a b).2.1]
  by_cases hab : b = a
  · subst hab; simp
  · have : a ≠ b := fun e => hab e.symm
    simp [hab, this]

/-- **contract of set_dependency / set_extra_dependency + lock_dependency**: a fresh task gets the
resources `a` and `b` through the two setters in either order; all locks are free; the direct
`lock_dependency()` (nobody interferes) succeeds **iff** the first dependency was set first or the
two resources differ.  (`tryAll` is what `lock_dependency` returns: `lock_dependency_solo`.) -/
theorem task_setup_contract (cfg : Cfg) (t a b : Nat) (ops : List SetOp)
    (hops : ops = [.dep a, .extra b] ∨ ops = [.extra b, .dep a]) (h : cfg.deps t = setupDeps ops) :
    tryAll cfg (fun _ => false) t = true ↔ (ops = [.dep a, .extra b] ∨ a ≠ b) := by
  rcases hops with rfl | rfl
  · rw [tryAll, h, (setup_first_then_extra a b).2.1]
    by_cases hab : b = a <;> simp [hab, upd_apply]
  · rw [tryAll, h, (setup_extra_then_first a b).1]
    by_cases hab : a = b
    · subst hab; simp [upd_apply]
    · have : ¬ b = a := fun e => hab e.symm
      simp [hab, this, upd_apply]

/-- what the direct call does, in full (sequential semantics of `Task::lock_dependency`) -/
theorem lock_dependency_returns (cfg : Cfg) (s : State) (tid t : Nat) (th : Thread)
    (hth : s.threads[tid]? = some th) (hpc : th.pc = .tlStart .alone t) :
    Solo cfg tid s (fun s' => ∃ th', s'.threads[tid]? = some th' ∧ th'.pc = .idle ∧
      th'.res = .taskLocked t (tryAll cfg s.mem.locks t) :: th.res ∧
      (∀ L, s'.mem.locks L = if tryAll cfg s.mem.locks t then lockedBy cfg s.mem.locks t L else s.mem.locks L) ∧
      th'.tasks = if tryAll cfg s.mem.locks t then t :: th.tasks else th.tasks) :=
  lock_dependency_solo cfg s tid t th hth hpc

/-- **a task that declares the same lock twice is never handed out** — by no pop and no direct
`lock_dependency`, for every number of threads and every schedule, also when nobody holds its
resource: the clause "when none of its resources is held by anyone the task can be handed out"
fails for `set_extra_dependency(x); set_dependency(x)` (the order of seeded change C08r4b; no call
site of the unchanged tree uses it). -/
theorem duplicate_never_handed_out (cfg : Cfg) (progs : List (List Cmd)) (sched : List Nat) (t a : Nat)
    (hd : cfg.deps t = (some a, some a)) : t ∉ running cfg (run cfg (init progs) sched) := by
  intro hmem
  unfold running at hmem
  obtain ⟨th, hth, ht⟩ := List.mem_flatMap.mp hmem
  have h1 : depsHold cfg t (.dep a) ≤ runHold cfg (.dep a) th := le_hsum cfg (.dep a) _ t ht
  obtain ⟨k, hk, hke⟩ := List.mem_iff_getElem.mp hth
  have h2 := le_sumT (runHold cfg (.dep a)) _ k th (by rw [List.getElem?_eq_getElem hk, hke])
  have h3 := (running_holds_locks cfg progs sched (.dep a)).1
  have h4 : depsHold cfg t (.dep a) = 2 := by simp [depsHold, hd, ind]
  omega

/-- `set_extra_dependency` without a first dependency: `lock_dependency` returns true and locks
nothing — the declared resource is not held (second candidate; no call site does this) -/
theorem extra_only_locks_nothing (cfg : Cfg) (locks : LockId → Bool) (t b : Nat)
    (h : cfg.deps t = setupDeps [.extra b]) :
    tryAll cfg locks t = true ∧ lockedBy cfg locks t = locks ∧ lockset cfg t = [] := by
  rw [(setup_extra_then_first 0 b).2] at h
  simp [tryAll, lockedBy, lockset, h]

/-- non-vacuity: `set_extra_dependency(0); set_dependency(0)`, lock 0 free, `lock_dependency`
takes lock 0, fails on the second attempt for the same lock, rolls back and returns false -/
example :
    let cfg : Cfg := { size := 1, cap := 200, deps := fun _ => setupDeps [.extra 0, .dep 0] }
    let s := run cfg (init [[.lockTask 0]]) (List.replicate 5 0)
    s.threads.map (·.res) = [[.taskLocked 0 false]] ∧ s.mem.locks (.dep 0) = false ∧
    (let cfg' : Cfg := { size := 1, cap := 200, deps := fun _ => setupDeps [.dep 0, .extra 0] }
     (run cfg' (init [[.lockTask 0]]) (List.replicate 3 0)).threads.map (·.res) = [[.taskLocked 0 true]]) := by
  decide

/-! ## Maintenance calls of ThreadSafeVector between parallel phases

`clear`, `clear_fast` (= `MemorySpace::reset`), `clear_after`, `get_free_elements` are "not meant to
be thread safe": they are modelled as operations on a *quiescent* state (`Model/AtomicsMaint.lean`:
every thread idle — the premise), not as transitions of a thread.  `PhaseReach` = everything that
can be reached by parallel phases (any programs, any schedule) separated by maintenance calls that
respect the premises stated in the source. -/

inductive PhaseReach (cfg : Cfg) : State → Prop where
  | init (progs : List (List Cmd)) : PhaseReach cfg (init progs)
  | run {s : State} (sched : List Nat) : PhaseReach cfg s → PhaseReach cfg (run cfg s sched)
  | reload {s : State} (progs : List (List Cmd)) : PhaseReach cfg s → Quiescent s → PhaseReach cfg (reload s progs)
  | clear {s : State} : PhaseReach cfg s → Quiescent s → PhaseReach cfg (maint cfg s .clear)
  | clearFast {s : State} : PhaseReach cfg s → Quiescent s → PhaseReach cfg (maint cfg s .clearFast)
  | clearAfter {s : State} (k : Nat) : PhaseReach cfg s → Quiescent s → k ≤ cfg.size →
      (∀ i, i < k → s.mem.flags i = true) → PhaseReach cfg (maint cfg s (.clearAfter k))
  | getFreeElements {s : State} (tid n : Nat) (th : Thread) : PhaseReach cfg s → Quiescent s →
      FreshPool cfg s → n ≤ cfg.size → s.threads[tid]? = some th →
      PhaseReach cfg (maint cfg s (.getFreeElements tid n))

/-- the pool invariants (per-slot holders = flag, indices in range, count accounting) hold in
every state of every phase, after any history of phases and maintenance calls -/
theorem phase_poolInv (cfg : Cfg) (hs : 0 < cfg.size) (s : State) (h : PhaseReach cfg s) : PoolInv cfg s := by
  induction h with
  | init progs => exact poolInv_init cfg progs
  | run sched _ ih => exact poolInv_run_from cfg hs _ sched ih
  | reload progs _ _ ih => exact reload_poolInv cfg _ progs ih
  | clear _ hq ih => exact (clear_poolInv cfg _ hq ih).1
  | clearFast _ _ ih => exact clearFast_poolInv cfg _ ih
  | clearAfter k _ hq hk hpre ih => exact (clearAfter_poolInv cfg _ k hq ih hk hpre).1
  | getFreeElements tid n th _ hq hf hn hth ih => exact (getFreeElements_poolInv cfg _ tid n th hq hf ih hn hth).1

/-- **clear_restores_quiescent**: after ANY history, `clear()` applied between phases — whoever
still held slots — leaves every slot free, the count 0 (= number of set flags = number of slots
held), the cursor at 0, every buffer empty, the statistics reset. -/
theorem clear_restores_quiescent (cfg : Cfg) (hs : 0 < cfg.size) (s : State) (h : PhaseReach cfg s)
    (hq : Quiescent s) :
    let s' := maint cfg s .clear
    FreshPool cfg s' ∧ s'.mem.taken = (cnt s'.mem.flags cfg.size : Int) ∧
    s'.mem.taken = (sumT (fun th => th.owned.length) s'.threads : Int) ∧
    s'.mem.maxTaken = 0 ∧ (∀ i, i < cfg.size → s'.mem.count i = 0) := by
  obtain ⟨hp, hf, hq', hm, hc⟩ := clear_poolInv cfg s hq (phase_poolInv cfg hs s h)
  refine ⟨hf, ?_, taken_eq_owned cfg _ hp hq', hm, hc⟩
  rw [hf.2.1, cnt_zero _ _ hf.1]; rfl

/-- the same for `clear_after(k)` (premise of the source: the first `k` slots are in use) and
`get_free_elements(n)` (on an empty pool): count = number of set flags = `k` resp. `n` -/
theorem clear_after_restores_quiescent (cfg : Cfg) (hs : 0 < cfg.size) (s : State) (h : PhaseReach cfg s)
    (hq : Quiescent s) (k : Nat) (hk : k ≤ cfg.size) (hpre : ∀ i, i < k → s.mem.flags i = true) :
    let s' := maint cfg s (.clearAfter k)
    s'.mem.taken = k ∧ (∀ i, s'.mem.flags i = decide (i < k)) ∧
    s'.mem.taken = (sumT (fun th => th.owned.length) s'.threads : Int) := by
  obtain ⟨hp, hq', ht, hfl⟩ := clearAfter_poolInv cfg s k hq (phase_poolInv cfg hs s h) hk hpre
  exact ⟨ht, hfl, taken_eq_owned cfg _ hp hq'⟩

/-- **clear_fast_requires_all_released**: `clear_fast()` resets cursor and statistics only.  It
leaves the pool empty **iff** nothing was held (`_number_taken = 0`, the assertion the source
compiles out); a slot that is still flagged stays flagged — if its holder has dropped the index
(task-plot keeps tasks) it is leaked. -/
theorem clear_fast_requires_all_released (cfg : Cfg) (hs : 0 < cfg.size) (s : State) (h : PhaseReach cfg s)
    (hq : Quiescent s) :
    (FreshPool cfg (maint cfg s .clearFast) ↔ s.mem.taken = 0) ∧
    (∀ i, s.mem.flags i = true → (maint cfg s .clearFast).mem.flags i = true) ∧
    (maint cfg s .clearFast).mem.taken = s.mem.taken :=
  ⟨clearFast_fresh_iff cfg s hq (phase_poolInv cfg hs s h), fun _ hi => hi, rfl⟩

/-- **pool_reusable_after_clear**: after `clear()` the pool is as after construction, and in the
next phase — any programs, any schedule — all pool invariants hold again (so `slot_unique`,
`count_general`, `quiescent_count` apply verbatim); a `get_free_element_safe` passes its check and
the search loop finds slot 0 at once. -/
theorem pool_reusable_after_clear (cfg : Cfg) (hs : 0 < cfg.size) (s : State) (h : PhaseReach cfg s)
    (hq : Quiescent s) (progs : List (List Cmd)) (sched : List Nat) :
    let s1 := reload (maint cfg s .clear) progs
    FreshPool cfg (maint cfg s .clear) ∧ PoolInv cfg (run cfg s1 sched) ∧
    (∀ i, sumT (holdS i) (run cfg s1 sched).threads = ((run cfg s1 sched).mem.flags i).toNat) ∧
    s1.mem.taken < (cfg.size : Int) ∧ s1.mem.flags (s1.mem.cur % cfg.size) = false := by
  have hc := clear_poolInv cfg s hq (phase_poolInv cfg hs s h)
  have hr : PhaseReach cfg (run cfg (reload (maint cfg s .clear) progs) sched) :=
    .run sched (.reload progs (.clear h hq) hc.2.2.1)
  have hp := phase_poolInv cfg hs _ hr
  refine ⟨hc.2.1, hp, hp.1, ?_, ?_⟩
  · show (maint cfg s .clear).mem.taken < _
    rw [hc.2.1.2.1]; omega
  · show (maint cfg s .clear).mem.flags ((maint cfg s .clear).mem.cur % cfg.size) = false
    rw [hc.2.1.2.2.1]
    exact hc.2.1.1 _ (by simp [Nat.zero_mod]; exact hs)

/-- non-vacuity (the history of seeded change C08r5b): a pool of 2; the thread takes both slots
and keeps them; `clear()`; next phase: it can fill the pool to capacity again, the third request
reports "full" (returns the size), the count is 2 -/
example :
    let cfg : Cfg := { size := 2, cap := 200, deps := fun _ => (none, none) }
    let s := run cfg (init [[.getSafe, .getSafe]]) (List.replicate 16 0)
    let s' := run cfg (reload (maint cfg s .clear) [[.getSafe, .getSafe, .getSafe, .numActive]]) (List.replicate 22 0)
    s.mem.taken = 2 ∧ s.threads.map (·.owned) = [[1, 0]] ∧ s.threads.all Thread.finished = true ∧
    (maint cfg s .clear).mem.taken = 0 ∧
    s'.threads.map (·.owned) = [[1, 0]] ∧ (s'.threads.map (·.res.take 4)) = [[.active 2, .slot 2, .slot 1, .slot 0]] := by
  decide

end CMacVerif.Atomics
