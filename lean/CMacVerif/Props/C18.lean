import CMacVerif.Lemmas.RecombBounds
import CMacVerif.Lemmas.Planck
import CMacVerif.Model.Notation
/-!
# C18 — atomic data and sampled photon frequencies are physical

Models (generic arithmetic, instantiated here at ℝ; the `Float` instantiation of the *same*
definitions is what `drv_c18` runs against the real classes):

* `Model/Verner.lean`  — `VernerCrossSections` (tables: `Gen/Verner.lean`, regenerated from
  `/repo/data/verner_*.dat` and from the switch of `get_cross_section` on every run),
* `Model/Recomb.lean`  — `VernerRecombinationRates`, `ChargeTransferRates`,
* `Model/Locate.lean`  — `Utilities::locate` and the inverse-CDF samplers.

All statements quantify over every real input.  Not proved (searched by the check on the
implementation): finiteness in IEEE arithmetic, and that the tabulated cumulative distributions
are those of the physical spectra (the samplers are proved to invert their tables).
-/
namespace CMacVerif.C18
open CMacVerif CMacVerif.Verner CMacVerif.Gen.Verner CMacVerif.Locate CMacVerif.Planck CMacVerif.Notation

/-! ## photoionization cross sections -/

/-- **Every data row a tracked ion reads is well formed**: threshold, energy scale `E₀` and `y_a`
positive, `σ₀ ≥ 0`, in `verner_A.dat` and `verner_B.dat` as shipped (22 shells). -/
theorem table_wellformed : ∀ s ∈ usedShellsSpec, ShellWF s.1 s.2.1 s.2.2 := by
  simp only [usedShellsSpec, allIons, ionShellsSpec, List.flatMap_cons, List.flatMap_nil, List.cons_append, List.nil_append, List.append_nil, List.forall_mem_cons, List.not_mem_nil, false_imp_iff, implies_true, and_true]
  norm_num [ShellWF, RowAWF, RowBWF]

/-- **σ ≥ 0** for every tracked ion and every photon frequency (also negative or zero ones). -/
theorem sigma_nonneg (ion : Ion) (e : ℝ) : 0 ≤ crossSection ion e := by
  unfold crossSection
  rw [sumLeft_eq_sum]
  apply List.sum_nonneg
  intro x hx
  obtain ⟨s, hs, rfl⟩ := List.mem_map.mp hx
  exact csv_nonneg _ _ _ e (table_wellformed s (ionShells_subset ion s hs))

/-- **σ = 0 below threshold**: a photon below the threshold of every shell the ion sums over
has cross section exactly zero. -/
theorem sigma_zero_below_threshold (ion : Ion) (e : ℝ)
    (h : ∀ s ∈ ionShellsSpec ion, e < shellThreshold s.1 s.2.1 s.2.2) : crossSection ion e = 0 := by
  unfold crossSection
  rw [sumLeft_eq_sum]
  apply List.sum_eq_zero
  intro x hx
  obtain ⟨s, hs, rfl⟩ := List.mem_map.mp hx
  exact csv_below _ _ _ e (h s hs)

/-- all thresholds are positive, so the hypothesis above holds e.g. for every `e ≤ 0` -/
theorem thresholds_pos : ∀ s ∈ usedShellsSpec, 0 < shellThreshold s.1 s.2.1 s.2.2 :=
  fun s hs => shellThreshold_pos (table_wellformed s hs).1

example (ion : Ion) : crossSection ion (0 : ℝ) = 0 :=
  sigma_zero_below_threshold ion 0 fun s hs => thresholds_pos s (ionShells_subset ion s hs)

/-- hydrogen: zero below 13.6 eV -/
example (e : ℝ) (h : e < 13.6 * eVtoHz) : crossSection .H_n e = 0 := by
  apply sigma_zero_below_threshold
  intro s hs
  simp only [ionShellsSpec, List.mem_singleton] at hs
  subst hs
  simp only [shellThreshold, prepA, dataA_1_1_1]
  norm_num at h ⊢
  exact h

/-- **σ is the published fit of the shipped row**: `get_cross_section_verner` evaluates, in the
energy range it selects, exactly Verner & Yakovlev (1995) eq. (1) (`publishedA`) resp. Verner
et al. (1996) eq. (1) (`publishedB`) with the coefficients of the generated table row, at the
photon energy in eV (`e / eVtoHz`), times 1e-22 m²/Mb. -/
theorem sigma_is_fit (nz ne is : ℕ) (e : ℝ) :
    crossSectionVerner nz ne is e =
      if e < shellThreshold nz ne is then 0
      else if is > noutOf nz ne then 0
      else if is < noutOf nz ne ∧ is > nintOf ne ∧ e < einnOf nz ne then 0
      else if is ≤ nintOf ne ∨ e ≥ einnOf nz ne then publishedA (dataA nz ne is) (e / eVtoHz)
      else publishedB (dataB nz ne) (e / eVtoHz) := by
  unfold crossSectionVerner xsBranch shellThreshold
  split_ifs <;> simp only [zero_lit, fitA_eq_published, fitB_eq_published]

/-- the cross section of an ion is the sum of the shell fits the C++ switch lists for it -/
theorem sigma_is_sum_of_fits (ion : Ion) (e : ℝ) :
    crossSection ion e = ((ionShellsSpec ion).map fun s => crossSectionVerner s.1 s.2.1 s.2.2 e).sum := by
  unfold crossSection; rw [sumLeft_eq_sum]

/-- element and number of electrons of every tracked ion (atomic numbers H 1, He 2, C 6, N 7,
O 8, Ne 10, S 16; electrons = Z − charge) — written down independently of the C++ -/
def ionZN : Ion → ℕ × ℕ
  | .H_n => (1, 1) | .He_n => (2, 2) | .C_p1 => (6, 5) | .C_p2 => (6, 4)
  | .N_n => (7, 7) | .N_p1 => (7, 6) | .N_p2 => (7, 5) | .O_n => (8, 8) | .O_p1 => (8, 7)
  | .Ne_n => (10, 10) | .Ne_p1 => (10, 9) | .S_p1 => (16, 15) | .S_p2 => (16, 14) | .S_p3 => (16, 13)

/-- **The specified shell sums address the right ion**: every shell summed for an ion
belongs to that element and charge state, is a valence shell (above the inner shell `Ninn`, at
most the outer shell), the first one is the outermost shell, and the radiative recombination fit
of the metal ions uses the same (Z, N). -/
theorem ion_shells_physical (ion : Ion) :
    (∀ s ∈ ionShellsSpec ion, (s.1, s.2.1) = ionZN ion ∧ nintOf s.2.1 < s.2.2 ∧ s.2.2 ≤ noutOf s.1 s.2.1) ∧
    (ionShellsSpec ion).head?.map (·.2.2) = some (noutOf (ionZN ion).1 (ionZN ion).2) ∧
    (recPairOf ion = none ∨ recPairOf ion = some (ionZN ion)) := by
  cases ion <;> decide

/-- **The switch of `get_cross_section` is the specification**: for every tracked ion the list of
`get_cross_section_verner(Z, N, shell, ·)` calls extracted from the current C++ source equals
`ionShellsSpec`, so `get_cross_section` as coded is the specified sum of published fits.  (A change
of the switch breaks this theorem AND shows up as a concrete (ion, energy) in the `xs` stream,
because the driver evaluates the specification.) -/
theorem coded_shells_are_spec (ion : Ion) (e : ℝ) :
    ionShells ion = ionShellsSpec ion ∧ crossSectionCoded ion e = crossSection ion e := by
  have h : ionShells ion = ionShellsSpec ion := by cases ion <;> rfl
  exact ⟨h, by unfold crossSectionCoded crossSection; rw [h]⟩

/-- the `gtNout` return is dead code for the tracked ions: every used shell is ≤ the outer shell -/
theorem used_shells_le_nout : ∀ s ∈ usedShellsSpec, s.2.2 ≤ noutOf s.1 s.2.1 := by decide

/-- **Fixed-value cross sections** (`FixedValueCrossSections`): the value is the constructor
argument of that ion for every energy, hence non-negative whenever the given values are. -/
theorem fixed_value_cross_sections (args : List ℝ) (ion : Ion) (e : ℝ) :
    fixedCrossSection args ion e = args.getD ion.argIndex 0 ∧
    ((∀ v ∈ args, 0 ≤ v) → 0 ≤ fixedCrossSection args ion e) := by
  have h : fixedCrossSection args ion e = args.getD ion.argIndex 0 := by
    unfold fixedCrossSection; rw [zero_lit]
  refine ⟨h, fun hv => ?_⟩
  rw [h, List.getD_eq_getElem?_getD]
  cases hq : args[ion.argIndex]? with
  | none => simp
  | some v => simpa using hv v (List.mem_of_getElem? hq)

/-! ## recombination rates -/

/-- **α_H > 0 and strictly decreasing in T** on `T > 0` (Verner & Ferland fit, H I). -/
theorem alphaH_pos_strictAnti :
    (∀ T : ℝ, 0 < T → 0 < recombinationRate .H_n T) ∧
    StrictAntiOn (fun T : ℝ => recombinationRate .H_n T) (Set.Ioi 0) := by
  have hp : ∀ T : ℝ, 0 < T → 0 < rateCgs .H_n T := fun T hT => by
    simp only [rateCgs]; exact vfFit_pos (by norm_num) (by norm_num) (by norm_num) hT
  refine ⟨fun T hT => recombinationRate_pos (hp T hT), ?_⟩
  intro T hT T' hT' hlt
  simp only [Set.mem_Ioi] at hT hT'
  show recombinationRate .H_n T' < recombinationRate .H_n T
  rw [recombinationRate_of_pos (hp T hT), recombinationRate_of_pos (hp T' hT')]
  simp only [rateCgs]
  have := vfFit_lt (a := 7.982e-11) (t1 := 3.148) (t2 := 7.036e5) (b1 := 0.252) (b2 := 1.748)
    (by norm_num) (by norm_num) (by norm_num) (by norm_num) (by norm_num) hT hlt
  exact mul_lt_mul_of_pos_right this (by norm_num)

/-- **α_He > 0 and strictly decreasing in T** on `T > 0` (Verner & Ferland fit, He I a). -/
theorem alphaHe_pos_strictAnti :
    (∀ T : ℝ, 0 < T → 0 < recombinationRate .He_n T) ∧
    StrictAntiOn (fun T : ℝ => recombinationRate .He_n T) (Set.Ioi 0) := by
  have hp : ∀ T : ℝ, 0 < T → 0 < rateCgs .He_n T := fun T hT => by
    simp only [rateCgs]; exact vfFit_pos (by norm_num) (by norm_num) (by norm_num) hT
  refine ⟨fun T hT => recombinationRate_pos (hp T hT), ?_⟩
  intro T hT T' hT' hlt
  simp only [Set.mem_Ioi] at hT hT'
  show recombinationRate .He_n T' < recombinationRate .He_n T
  rw [recombinationRate_of_pos (hp T hT), recombinationRate_of_pos (hp T' hT')]
  simp only [rateCgs]
  have := vfFit_lt (a := 3.294e-11) (t1 := 15.54) (t2 := 3.676e7) (b1 := 0.309) (b2 := 1.691)
    (by norm_num) (by norm_num) (by norm_num) (by norm_num) (by norm_num) hT hlt
  exact mul_lt_mul_of_pos_right this (by norm_num)

example : recombinationRate .H_n (2e4 : ℝ) < recombinationRate .H_n (1e4 : ℝ) :=
  alphaH_pos_strictAnti.2 (by norm_num [Set.mem_Ioi]) (by norm_num [Set.mem_Ioi]) (by norm_num)

/-- **All rates the ionization balance uses are ≥ 0**, for every ion and every temperature:
recombination (radiative + dielectronic, after the `max(0, ·)` of the code), charge-transfer
recombination with H, charge-transfer ionization with H, charge-transfer recombination with He. -/
theorem rates_nonneg (ion : Ion) (T : ℝ) :
    0 ≤ recombinationRate ion T ∧ 0 ≤ ctRecH ion T ∧ 0 ≤ ctIonH ion T ∧ 0 ≤ ctRecHe ion T :=
  ⟨recombinationRate_nonneg ion T, ctRecH_nonneg ion T, ctIonH_nonneg ion T, ctRecHe_nonneg ion T⟩

/-- the rows of `verner_rec_data.txt` the tracked metal ions use have positive leading
coefficients (the branch of `get_recombination_rate_verner` is decided per (Z, N)) -/
theorem rec_table_wellformed : ∀ p ∈ recPairs, RecWF p.1 p.2 := by
  simp only [recPairs, List.forall_mem_cons, List.not_mem_nil, false_imp_iff, implies_true, and_true]
  norm_num [RecWF, recBranch]

/-- **The radiative (Verner) fit is strictly positive** for every tracked metal ion and every
`T > 0`. -/
theorem verner_rate_pos : ∀ p ∈ recPairs, ∀ T : ℝ, 0 < T → 0 < recVerner p.1 p.2 T :=
  fun p hp _ hT => recVerner_pos (rec_table_wellformed p hp) hT

/-- **Every recombination rate is strictly positive up to 1e5 K**: all 14 tracked ions, the total
rate the code returns (radiative + dielectronic, `* 1e-6`, `max(0, ·)`), for every `0 < T ≤ 1e5 K`.
For `N_p2`, `O_n`, `O_p1` the dielectronic polynomial is negative below 700 K / 400 K / 60 K; there
the negative term is bounded by `exp(-f/x) ≤ k! (x/f)^k` and the radiative fit from below by rational
certificates (`Lemmas/RecombBounds.lean`), above the cut the polynomial is non-negative. -/
theorem rate_pos_upto_1e5 (ion : Ion) (T : ℝ) (h0 : 0 < T) (h1 : T ≤ 1e5) : 0 < recombinationRate ion T := by
  apply recombinationRate_pos
  have hv : ∀ z n, (z, n) ∈ recPairs → 0 < recVerner z n T := fun z n h => verner_rate_pos (z, n) h T h0
  have hd : ∀ i, i ∈ dielNonnegIons → 0 ≤ dielectronic i T := fun i hi => dielectronic_nonneg i hi T h0 h1
  cases ion
  case H_n => simp only [rateCgs]; exact vfFit_pos (by norm_num) (by norm_num) (by norm_num) h0
  case He_n => simp only [rateCgs]; exact vfFit_pos (by norm_num) (by norm_num) (by norm_num) h0
  case N_p2 => exact rateCgs_pos_N_p2 T h0 h1
  case O_n => exact rateCgs_pos_O_n T h0 h1
  case O_p1 => exact rateCgs_pos_O_p1 T h0 h1
  case Ne_p1 =>
    simp only [rateCgs, recPairOf]
    exact add_pos_of_pos_of_nonneg (hv _ _ (by decide)) (dielectronic_nonneg_Ne_p1 T h0 h1)
  case Ne_n => simp only [rateCgs]; exact hv _ _ (by decide)
  all_goals
    simp only [rateCgs, recPairOf]
    exact add_pos_of_pos_of_nonneg (hv _ _ (by decide)) (hd _ (by decide))

example : 0 < recombinationRate .N_p2 (300 : ℝ) := rate_pos_upto_1e5 .N_p2 300 (by norm_num) (by norm_num)

/-! ## `Utilities::locate` -/

/-- **`locate` is never out of bounds and brackets `x`**, for EVERY table size `n ≥ 2`
(induction over the bisection), every table and every `x`:
* the index is at most `n - 2` (so `xarr[index + 1]` is always a valid read) — no sortedness needed;
* if `xarr 0 < x ≤ xarr (n-1)` then `xarr index < x ≤ xarr (index+1)` — no sortedness needed;
* if moreover the table is sorted, `index` is THE last entry below `x`;
* sorted table, `x ≤ xarr 0` ⇒ 0;  `x > xarr (n-1)` ⇒ `n - 2`. -/
theorem locate_spec {α : Type} [LinearOrder α] (x : α) (xarr : ℕ → α) (n : ℕ) (hn : 2 ≤ n) :
    locate x xarr n + 2 ≤ n ∧
    (xarr 0 < x → x ≤ xarr (n - 1) → xarr (locate x xarr n) < x ∧ x ≤ xarr (locate x xarr n + 1)) ∧
    ((∀ i j, i ≤ j → j < n → xarr i ≤ xarr j) →
      (xarr 0 < x → x ≤ xarr (n - 1) →
        (∀ i, i ≤ locate x xarr n → xarr i < x) ∧ (∀ i, locate x xarr n < i → i < n → x ≤ xarr i)) ∧
      (x ≤ xarr 0 → locate x xarr n = 0) ∧
      (xarr (n - 1) < x → locate x xarr n = n - 2)) :=
  ⟨locate_add_two_le x xarr n hn, locate_bracket x xarr n hn,
   fun hs => ⟨locate_sorted x xarr n hn hs, locate_eq_zero_of_le x xarr n hn hs, locate_eq_of_gt_last x xarr n hn hs⟩⟩

example : locate (3 / 2 : ℚ) (fun i => (i : ℚ)) 4 = 1 := by decide +kernel

/-! ## samplers -/

/-- **Planck sampler in range**: cumulative table sorted is not even needed — for a random number
`u` with `cdf 0 < u ≤ cdf (n-1)` (i.e. `u ∈ (0, 1]`) that is not below the floor of the first bin
(`logcdf 0 = -10`, i.e. `u ≥ 1e-10`), log tables consistent with the linear ones and increasing
frequencies, the sampled frequency lies in `[10^logfreq 0, 10^logfreq (n-1)] · 3.288465385e15 Hz`. -/
theorem sample_in_range_planck (u : ℝ) (cdf logcdf logfreq : ℕ → ℝ) (n : ℕ) (hn : 2 ≤ n)
    (hpos : ∀ i, 1 ≤ i → i < n → 0 < cdf i)
    (hlog : ∀ i, 1 ≤ i → i < n → logcdf i = Real.log (cdf i) / Real.log 10)
    (hfloor : logcdf 0 ≤ Real.log u / Real.log 10) (hfirst : logcdf 0 < logcdf 1)
    (hf : ∀ i j, i ≤ j → j < n → logfreq i ≤ logfreq j)
    (hu : 0 < u) (h0 : cdf 0 < u) (h1 : u ≤ cdf (n - 1)) :
    (10 : ℝ) ^ logfreq 0 * 3.288465385e15 ≤ planckSample u cdf logcdf logfreq n ∧
    planckSample u cdf logcdf logfreq n ≤ (10 : ℝ) ^ logfreq (n - 1) * 3.288465385e15 :=
  planckSample_mem u cdf logcdf logfreq n hn hpos hlog hfloor hfirst hf hu h0 h1

example : (10 : ℝ) ^ (((0 : ℕ) : ℝ)) * 3.288465385e15 ≤
    planckSample 1 (fun i => (i : ℝ)) (fun i => if i = 0 then -10 else 0) (fun i => (i : ℝ)) 2 := by
  refine (sample_in_range_planck 1 (fun i => (i : ℝ)) (fun i => if i = 0 then -10 else 0) (fun i => (i : ℝ)) 2
    le_rfl ?_ ?_ ?_ ?_ ?_ ?_ ?_ ?_).1
  · intro i h1 h2; have : i = 1 := by omega
    subst this; norm_num
  · intro i h1 h2; have : i = 1 := by omega
    subst this; norm_num
  · norm_num
  · norm_num
  · intro i j hij _; exact_mod_cast hij
  · norm_num
  · norm_num
  · norm_num

/-- **The tables the Planck constructor builds are well formed, for EVERY temperature** `T > 0`
(model `Model/Planck.lean` of `PlanckPhotonSourceSpectrum.cpp` 53-104, any table size
`2 ≤ N ≤ 10⁸`): the cumulative table starts at 0, ends at 1, is sorted and positive from entry 1
on; the logarithmic table is `log₁₀` of it with floor `-10` strictly below its second entry (the
first bin holds at least `1/(32 (N-1))` of the photons); the log-frequency table is sorted from
`0 = log₁₀ 1` to `log₁₀ 4`.  These are all the hypotheses of `sample_in_range_planck`. -/
theorem planck_tables_wellformed (hP kB T : ℝ) (N : ℕ) (hh : 0 < hP) (hk : 0 < kB) (hT : 0 < T)
    (hN : 2 ≤ N) (hNb : N ≤ 100000000) :
    pCdf rc hP kB T N 0 = 0 ∧ pCdf rc hP kB T N (N - 1) = 1 ∧
    (∀ i j, i ≤ j → pCdf rc hP kB T N i ≤ pCdf rc hP kB T N j) ∧
    (∀ i, 1 ≤ i → 0 < pCdf rc hP kB T N i) ∧
    (∀ i, 1 ≤ i → pLogCdf rc hP kB T N i = Real.log (pCdf rc hP kB T N i) / Real.log 10) ∧
    pLogCdf rc hP kB T N 0 = -10 ∧ pLogCdf rc hP kB T N 0 < pLogCdf rc hP kB T N 1 ∧
    (∀ i j, i ≤ j → pLogFreq rc N i ≤ pLogFreq rc N j) ∧
    (10 : ℝ) ^ pLogFreq rc N 0 = 1 ∧ (10 : ℝ) ^ pLogFreq rc N (N - 1) = 4 :=
  ⟨pCdf_zero, pCdf_last hh hk hT hN, fun _ _ h => pCdf_mono hh hk hT hN h, fun _ hi => pCdf_pos hh hk hT hN hi,
   fun _ hi => pLogCdf_of_pos hi, pLogCdf_zero, pLogCdf_first hh hk hT hN hNb, fun _ _ h => pLogFreq_mono hN h,
   by rw [pLogFreq_zero, Real.rpow_zero], pLogFreq_last hN⟩

/-- the linear-time tabulation the driver runs against the real constructor IS the model's table,
entry by entry, in every arithmetic (in particular at `Float`) -/
theorem planck_fast_tables_are_model {α : Type} [Add α] [Sub α] [Mul α] [Div α] [Neg α] [LT α] [LE α]
    [DecidableLT α] [DecidableLE α] [OfScientific α] [ArithFns α]
    (ofNat : ℕ → α) (hP kB T : α) (N i : ℕ) (hi : i ≤ N - 1) :
    pCdfFast (pCumArr ofNat hP kB T N (N - 1)) N i = pCdf ofNat hP kB T N i ∧
    pLogCdfFast (pCumArr ofNat hP kB T N (N - 1)) N i = pLogCdf ofNat hP kB T N i :=
  ⟨pCdfFast_eq ofNat hP kB T N i hi, pLogCdfFast_eq ofNat hP kB T N i hi⟩

/-- **A Planck source of ANY temperature only emits ionizing photons inside its range**: with the
tables the constructor builds (no hypothesis on them any more), for every `T > 0` and every random
number `1e-10 ≤ u ≤ 1` the sampled frequency lies in `[1, 4] × 3.288465385e15 Hz`. -/
theorem planck_spectrum_in_range (hP kB T : ℝ) (N : ℕ) (hh : 0 < hP) (hk : 0 < kB) (hT : 0 < T)
    (hN : 2 ≤ N) (hNb : N ≤ 100000000) (u : ℝ) (hu0 : 1e-10 ≤ u) (hu1 : u ≤ 1) :
    (3.288465385e15 : ℝ) ≤ planckSample u (pCdf rc hP kB T N) (pLogCdf rc hP kB T N) (pLogFreq rc N) N ∧
    planckSample u (pCdf rc hP kB T N) (pLogCdf rc hP kB T N) (pLogFreq rc N) N ≤ 4 * 3.288465385e15 := by
  obtain ⟨c0, c1, cm, cp, cl, l0, lf, fm, f0, f1⟩ := planck_tables_wellformed hP kB T N hh hk hT hN hNb
  have hupos : (0 : ℝ) < u := lt_of_lt_of_le (by norm_num) hu0
  have := sample_in_range_planck u (pCdf rc hP kB T N) (pLogCdf rc hP kB T N) (pLogFreq rc N) N hN
    (fun i hi _ => cp i hi) (fun i hi _ => cl i hi) (by rw [l0]; exact neg_ten_le_log10 hu0) lf
    (fun i j hij _ => fm i j hij) hupos (by rw [c0]; exact hupos) (by rw [c1]; exact hu1)
  rw [f0, f1, one_mul] at this
  exact this

example : (3.288465385e15 : ℝ) ≤
    planckSample (1 / 2) (pCdf rc 6.62607004e-34 1.38064852e-23 4e4 1000)
      (pLogCdf rc 6.62607004e-34 1.38064852e-23 4e4 1000) (pLogFreq rc 1000) 1000 :=
  (planck_spectrum_in_range 6.62607004e-34 1.38064852e-23 4e4 1000 (by norm_num) (by norm_num) (by norm_num)
    (by norm_num) (by norm_num) (1 / 2) (by norm_num) (by norm_num)).1

/-- **A photon frequency given in a parameter file**: what `to_SI<QUANTITY_FREQUENCY>` returns for
the notations of a spectrum parameter is `value·unit` for a frequency, `E/h` for an energy and
`c/λ` for a wavelength; hence all notations of one physical value (same kind: equal `value·unit`;
a wavelength `λ` and the energy `h c/λ`) denote one and the same frequency. -/
theorem notations_of_one_value_agree :
    (∀ (u : FUnit) (v : ℝ), frequencyOf u v =
      match u.kind with
      | .frequency => v * u.scale
      | .energy => v * u.scale / planck
      | .length => lightspeed / (v * u.scale)) ∧
    (∀ (u₁ u₂ : FUnit) (v₁ v₂ : ℝ), u₁.kind = u₂.kind → v₁ * u₁.scale = v₂ * u₂.scale →
      frequencyOf u₁ v₁ = frequencyOf u₂ v₂) ∧
    (∀ lam : ℝ, 0 < lam → frequencyOf .m lam = frequencyOf .J (planck * lightspeed / lam)) := by
  have one : (1.0 : ℝ) = 1 := by norm_num
  have hform : ∀ (u : FUnit) (v : ℝ), frequencyOf u v =
      match u.kind with
      | .frequency => v * u.scale
      | .energy => v * u.scale / planck
      | .length => lightspeed / (v * u.scale) := by
    intro u v
    unfold frequencyOf
    cases u.kind <;> simp only [one] <;> ring
  refine ⟨hform, ?_, ?_⟩
  · intro u₁ u₂ v₁ v₂ hk h
    rw [hform, hform, hk]
    cases u₂.kind <;> simp only [h]
  · intro lam hl
    rw [hform, hform]
    have hp : (planck : ℝ) ≠ 0 := by unfold planck; norm_num
    simp only [FUnit.kind, FUnit.scale, one]
    field_simp

example : frequencyOf .angstrom (700 : ℝ) = frequencyOf .cm (7e-6 : ℝ) :=
  notations_of_one_value_agree.2.1 .angstrom .cm 700 7e-6 rfl (by simp only [FUnit.scale]; norm_num)

/-- **Linear samplers in range** (helium two-photon continuum, masked spectrum): for
`cdf 0 < u ≤ cdf (n-1)` the frequency lies in `[freq 0, freq (n-1)]`. -/
theorem sample_in_range_linear (u : ℝ) (freq cdf : ℕ → ℝ) (n : ℕ) (hn : 2 ≤ n)
    (hf : ∀ i j, i ≤ j → j < n → freq i ≤ freq j) (h0 : cdf 0 < u) (h1 : u ≤ cdf (n - 1)) :
    freq 0 ≤ linearSample u freq cdf n ∧ linearSample u freq cdf n ≤ freq (n - 1) :=
  linearSample_mem u freq cdf n hn hf h0 h1

example : (0 : ℝ) ≤ linearSample (1 / 2) (fun i => (i : ℝ)) (fun i => (i : ℝ) / 2) 3 :=
  (sample_in_range_linear (1 / 2) (fun i => (i : ℝ)) (fun i => (i : ℝ) / 2) 3 (by norm_num)
    (fun i j hij _ => by exact_mod_cast hij) (by norm_num) (by norm_num)).1 |> fun h => by simpa using h

/-- **Lyman continuum samplers in range** (hydrogen and helium; after the temperature clamp of
commit 93322ae): for EVERY cell temperature and EVERY random number the frequency lies inside the
frequency table — no hypothesis on `u`, `T` or the cumulative tables. -/
theorem sample_in_range_lyman (u T : ℝ) (ttab : ℕ → ℝ) (nT : ℕ) (freq : ℕ → ℝ) (cdf : ℕ → ℕ → ℝ) (nF : ℕ)
    (hnT : 2 ≤ nT) (hnF : 2 ≤ nF) (ht : ∀ i, i + 1 < nT → ttab i < ttab (i + 1))
    (hf : ∀ i j, i ≤ j → j < nF → freq i ≤ freq j) :
    freq 0 ≤ lymanSample u T ttab nT freq cdf nF ∧ lymanSample u T ttab nT freq cdf nF ≤ freq (nF - 1) :=
  lymanSample_mem u T ttab nT freq cdf nF hnT hnF ht hf

example (u T : ℝ) : (0 : ℝ) ≤ lymanSample u T (fun i => (i : ℝ)) 3 (fun i => (i : ℝ)) (fun _ i => (i : ℝ) / 3) 4 := by
  have := (sample_in_range_lyman u T (fun i => (i : ℝ)) 3 (fun i => (i : ℝ)) (fun _ i => (i : ℝ) / 3) 4
    (by norm_num) (by norm_num) (fun i _ => by push_cast; linarith) (fun i j hij _ => by exact_mod_cast hij)).1
  simpa using this

/-- **Uniform and monochromatic spectra in range**. -/
theorem sample_in_range_uniform_mono (u f : ℝ) (h0 : 0 ≤ u) (h1 : u < 1) :
    ((3.289e15 : ℝ) ≤ uniformSample u ∧ uniformSample u < 4 * 3.289e15) ∧ monoSample f u = f :=
  ⟨uniformSample_mem u h0 h1, rfl⟩

/-- **Following the cumulative distribution, linear samplers**: the two-photon and masked samplers
are the exact inverse of the piecewise-linear cumulative distribution through the table points
(so a uniform `u` yields exactly that distribution). -/
theorem sample_follows_table_cdf_linear (u : ℝ) (freq cdf : ℕ → ℝ) (n : ℕ) (hn : 2 ≤ n)
    (hf : ∀ i, i + 1 < n → freq i < freq (i + 1)) (h0 : cdf 0 < u) (h1 : u ≤ cdf (n - 1)) :
    let i := locate u cdf n
    cdf i + (linearSample u freq cdf n - freq i) / (freq (i + 1) - freq i) * (cdf (i + 1) - cdf i) = u :=
  linearSample_inverts u freq cdf n hn hf h0 h1

/-- **Following the cumulative distribution, Planck sampler**: the sampler is the exact inverse of
the table's cumulative distribution interpolated linearly in log–log (with the floor `logcdf 0`
as first point): at the returned frequency `ν = 10^L · 3.288465385e15`, `log₁₀ F_table(ν) = log₁₀ u`. -/
theorem sample_follows_table_cdf_planck (u : ℝ) (cdf logcdf logfreq : ℕ → ℝ) (n : ℕ) (hn : 2 ≤ n)
    (hpos : ∀ i, 1 ≤ i → i < n → 0 < cdf i)
    (hlog : ∀ i, 1 ≤ i → i < n → logcdf i = Real.log (cdf i) / Real.log 10)
    (hfirst : logcdf 0 < logcdf 1) (hf : ∀ i, i + 1 < n → logfreq i < logfreq (i + 1))
    (hu : 0 < u) (h0 : cdf 0 < u) (h1 : u ≤ cdf (n - 1)) :
    planckSample u cdf logcdf logfreq n = (10 : ℝ) ^ planckLogFreq u cdf logcdf logfreq n * 3.288465385e15 ∧
    (let i := locate u cdf n
     logcdf i + (planckLogFreq u cdf logcdf logfreq n - logfreq i) / (logfreq (i + 1) - logfreq i) *
       (logcdf (i + 1) - logcdf i) = Real.log u / Real.log 10) :=
  ⟨planckSample_eq u cdf logcdf logfreq n,
   planckLogFreq_inverts u cdf logcdf logfreq n hn hpos hlog hfirst hf hu h0 h1⟩

/-- **Following the cumulative distribution, Lyman continua — PARTIAL** (exact description of what
the formula computes, which is NOT the inverse of one cumulative distribution): the returned
frequency is `(1-t)·Q_i(u) + t·Q_{i+1}(u)`, `t ∈ [0,1]` the position of the clamped temperature
between the bracketing table temperatures, `Q_k(u)` the LOWER EDGE of the frequency bin of table `k`
that contains `u` (`cdf_k j < u ≤ cdf_k (j+1)`).  Missing for "follows the distribution": (a) no
interpolation inside the frequency bin (the sample is a bin edge, so the distribution is only
matched at the resolution of one bin, 1/999 of the range), (b) a mix of quantiles of two
temperatures is not the quantile of an interpolated distribution.  Both are searched. -/
theorem sample_follows_table_cdf_lyman_partial (u T : ℝ) (ttab : ℕ → ℝ) (nT : ℕ) (freq : ℕ → ℝ)
    (cdf : ℕ → ℕ → ℝ) (nF : ℕ) (hnT : 2 ≤ nT) (hnF : 2 ≤ nF) (ht : ∀ i, i + 1 < nT → ttab i < ttab (i + 1)) :
    let Tc := clampT T ttab nT
    let iT := locate Tc ttab nT
    let t := (Tc - ttab iT) / (ttab (iT + 1) - ttab iT)
    (0 ≤ t ∧ t ≤ 1 ∧
      lymanSample u T ttab nT freq cdf nF =
        (1 - t) * freq (locate u (cdf iT) nF) + t * freq (locate u (cdf (iT + 1)) nF)) ∧
    (∀ k, cdf k 0 < u → u ≤ cdf k (nF - 1) →
      cdf k (locate u (cdf k) nF) < u ∧ u ≤ cdf k (locate u (cdf k) nF + 1)) :=
  ⟨lymanSample_quantile_mix u T ttab nT freq cdf nF hnT ht,
   fun k h0 h1 => locate_bracket u (cdf k) nF hnF h0 h1⟩

example : True := by
  have := sample_follows_table_cdf_linear (1 / 2) (fun i => (i : ℝ)) (fun i => (i : ℝ) / 2) 3 (by norm_num)
    (fun i _ => by push_cast; linarith) (by norm_num) (by norm_num)
  trivial

example : True := by
  have := sample_follows_table_cdf_planck 1 (fun i => (i : ℝ)) (fun i => if i = 0 then -10 else 0) (fun i => (i : ℝ)) 2
    le_rfl (fun i h1 h2 => by have : i = 1 := by omega
                              subst this; norm_num)
    (fun i h1 h2 => by have : i = 1 := by omega
                       subst this; norm_num)
    (by norm_num) (fun i _ => by push_cast; linarith) (by norm_num) (by norm_num) (by norm_num)
  trivial

example (u T : ℝ) : True := by
  have := sample_follows_table_cdf_lyman_partial u T (fun i => (i : ℝ)) 3 (fun i => (i : ℝ)) (fun _ i => (i : ℝ) / 3) 4
    (by norm_num) (by norm_num) (fun i _ => by push_cast; linarith)
  trivial

end CMacVerif.C18
