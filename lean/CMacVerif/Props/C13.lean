import CMacVerif.Lemmas.RanluxStream
import CMacVerif.Lemmas.RanluxSeed
/-!
# C13 — the random stream is RANLUX (ranlxd2); same seed, same stream

Property theorems only.  Model: `CMacVerif/Model/Ranlux.lean` (every `double` of
`RandomGenerator` as the integer `k` of `k * 2^-48`; `R` = rounding of a double operation,
`exact` = none).  Lemmas: `Lemmas/Ranlux*.lean`.

Vocabulary: `Inv s` — twelve entries in `[0, 2^48)`, carry 0 or 1, indices in range,
`jr = ir_old + 7 (mod 12)`, luxury 397;  `RExact R` — `R v = v` for `|v| < 2^49`;
`swb x0 n` — textbook subtract-with-borrow sequence;  `ranluxSpec` — every 397 values the
first 12 are delivered;  `effSeed` — `0 ↦ 1`, then the low 31 bits.
-/
namespace CMacVerif.Ranlux

/-! ## the unrolled refill is 397 single steps -/

/-- the unrolled block of `increment_state` is twelve steps of the recurrence (positions
0,…,11 with partner 7,…,6), for every rounding that is exact below 2^49 -/
theorem block_is_twelve_steps (R : Rnd) (hR : RExact R) (x : Array Int) (c : Int) (o p : Nat)
    (hx : Bnd x) (hc : Cok c) :
    (⟨(block R x c).1, (block R x c).2, 0, 7, o, p⟩ : State)
      = iter singleStep 12 ⟨x, c, 0, 7, o, p⟩ := by
  rw [block_eq R hR x c hx hc, iter12]

/-- `increment_state()` (three loops, unrolled block) = `_pr` single steps of the textbook
recurrence, for every luxury value `_pr ≥ 11` and every read position -/
theorem unrolled_refines_single_any_luxury (R : Rnd) (hR : RExact R) (s : State)
    (hx : Bnd s.x) (hc : Cok s.carry) (hi : s.ir < 12) (hj : s.jr = (s.ir + 7) % 12)
    (hp : 11 ≤ s.pr) :
    incrementState R s = { iter singleStep s.pr s with irOld := (iter singleStep s.pr s).ir } :=
  incrementState_eq R hR s hx hc hi hj hp

/-- in every state in which the generator calls it, `increment_state()` is 397 single steps -/
theorem unrolled_refines_single (R : Rnd) (hR : RExact R) (s : State) (h : Inv s)
    (e : s.ir = s.irOld) :
    incrementState R s = { iter singleStep 397 s with irOld := (iter singleStep 397 s).ir } :=
  refill_eq R hR s h e

/-- fuel of the model loops is never exhausted: the first loop stops because `ir` reached 0 -/
theorem loop1_fuel (R : Rnd) (hR : RExact R) (s : State) (h : Inv s) :
    (loop1 R 12 s.x s.carry s.ir s.jr 0).2.2.1 = 0 := by
  have hj : s.jr < 12 := by rw [h.jr]; omega
  rw [loop1_spec R hR s.irOld s.pr 12 s.x s.carry s.ir s.jr 0 ⟨h.bnd, h.cok, h.ir, hj⟩ (by omega)]
  rw [iter_ir _ _ h.ir]
  have := h.ir
  dsimp only
  omega

/-! ## every reachable state is bounded; every output is in [0, 1) -/

/-- `set_seed` establishes the invariant, for every seed value -/
theorem seed_inv (seed : Int) : Inv (seedState exact seed) :=
  ⟨seedState_bnd seed, Or.inl rfl, by show (11 : Nat) < 12; omega, by show (0 : Nat) < 12; omega, rfl, rfl⟩

/-- every state reachable from any seed by any number of draws has all entries in `[0, 2^48)`
and carry 0 or 1 -/
theorem state_bounded (seed : Int) (n : Nat) : Inv (after exact (seedState exact seed) n) :=
  after_inv _ (seed_inv seed) n

/-- every output `k * 2^-48` of every stream has `0 ≤ k < 2^48` -/
theorem next_lt_one (seed : Int) (n : Nat) : 0 ≤ stream seed n ∧ stream seed n < B :=
  next_val _ (state_bounded seed n)

/-- … i.e. the returned double lies in `[0, 1)`, and `< 1` by at least `2^-48` -/
theorem output_in_unit_interval (seed : Int) (n : Nat) :
    (0 : ℚ) ≤ (stream seed n : ℚ) / 2 ^ 48 ∧ (stream seed n : ℚ) / 2 ^ 48 ≤ 1 - 1 / 2 ^ 48 := by
  obtain ⟨h0, h1⟩ := next_lt_one seed n
  rw [B_val] at h1
  have h1' : stream seed n ≤ 281474976710655 := by omega
  have a : (0 : ℚ) ≤ (stream seed n : ℚ) := by exact_mod_cast h0
  have b : (stream seed n : ℚ) ≤ 281474976710655 := by exact_mod_cast h1'
  constructor
  · exact div_nonneg a (by positivity)
  · rw [div_le_iff₀ (by positivity)]; norm_num; linarith

/-- Exactly 0 is NOT excluded by the invariant that bounds the outputs: there is a well-formed
state (all entries 0) whose every later output is 0.  Whether a seeded stream ever returns
exactly 0 (`-log(u) = +∞`) is not decided here; it can never return a negative value or 1. -/
theorem zero_not_excluded_by_invariant :
    ∃ s : State, Inv s ∧ ∀ n, draw exact s n = 0 := by
  have hr : ∀ i, rd (Array.replicate 12 (0 : Int)) i = 0 := by
    intro i; simp [rd, Array.getD]
  have hb : Bnd (Array.replicate 12 (0 : Int)) :=
    ⟨by simp, fun i _ => by rw [hr i, B_val]; omega⟩
  refine ⟨⟨Array.replicate 12 0, 0, 11, 7, 0, 397⟩,
    ⟨hb, Or.inl rfl, by decide, by decide, rfl, rfl⟩, ?_⟩
  intro n
  rw [draw_spec _ hb rfl rfl rfl rfl rfl n, ranluxSpec]
  dsimp only
  -- the textbook sequence started from zeros is zero
  have hs : ∀ m, swb (fun i => rd (Array.replicate 12 (0 : Int)) i) m = (0, 0) := by
    intro m
    induction m using Nat.strong_induction_on with
    | _ m ih =>
      by_cases h : m < 12
      · rw [swb_lt _ _ h, hr]
      · rw [swb_ge _ _ (by omega), ih (m - 5) (by omega), ih (m - 12) (by omega),
          ih (m - 1) (by omega)]
        simp
  rw [hs]

end CMacVerif.Ranlux
