import CMacVerif.Lemmas.RanluxStream
import CMacVerif.Lemmas.RanluxSeed
import CMacVerif.Lemmas.RanluxLcg
import CMacVerif.Lemmas.RanluxSplit
import CMacVerif.Lemmas.RanluxUse
import CMacVerif.Lemmas.RanluxCtx
/-!
# C13 — the random stream is RANLUX (ranlxd2); same seed, same stream

Property theorems only.  Model: `CMacVerif/Model/Ranlux.lean` (every `double` of
`RandomGenerator` as the integer `k` of `k * 2^-48`; `R` = rounding of a double operation,
`exact` = none).  Lemmas: `Lemmas/Ranlux*.lean`.

Vocabulary: `Inv s` — twelve entries in `[0, 2^48)`, carry 0 or 1, indices in range,
`jr = ir_old + 7 (mod 12)`, luxury 397;  `RExact R` — `R v = v` for `|v| < 2^49`;
`swb x0 n` — textbook subtract-with-borrow sequence;  `ranluxSpec` — every 397 values the
first 12 are delivered;  `effSeed` — `0 ↦ 1`, then the low 31 bits.
-/
namespace CMacVerif.Ranlux

/-! ## the unrolled refill is 397 single steps -/

/-- the unrolled block of `increment_state` is twelve steps of the recurrence (positions
0,…,11 with partner 7,…,6), for every rounding that is exact below 2^49 -/
theorem block_is_twelve_steps (R : Rnd) (hR : RExact R) (x : Array Int) (c : Int) (o p : Nat)
    (hx : Bnd x) (hc : Cok c) :
    (⟨(block R x c).1, (block R x c).2, 0, 7, o, p⟩ : State)
      = iter singleStep 12 ⟨x, c, 0, 7, o, p⟩ := by
  rw [block_eq R hR x c hx hc, iter12]

/-- `increment_state()` (three loops, unrolled block) = `_pr` single steps of the textbook
recurrence, for every luxury value `_pr ≥ 11` and every read position -/
theorem unrolled_refines_single_any_luxury (R : Rnd) (hR : RExact R) (s : State)
    (hx : Bnd s.x) (hc : Cok s.carry) (hi : s.ir < 12) (hj : s.jr = (s.ir + 7) % 12)
    (hp : 11 ≤ s.pr) :
    incrementState R s = { iter singleStep s.pr s with irOld := (iter singleStep s.pr s).ir } :=
  incrementState_eq R hR s hx hc hi hj hp

/-- in every state in which the generator calls it, `increment_state()` is 397 single steps -/
theorem unrolled_refines_single (R : Rnd) (hR : RExact R) (s : State) (h : Inv s)
    (e : s.ir = s.irOld) :
    incrementState R s = { iter singleStep 397 s with irOld := (iter singleStep 397 s).ir } :=
  refill_eq R hR s h e

/-- fuel of the model loops is never exhausted: the first loop stops because `ir` reached 0 -/
theorem loop1_fuel (R : Rnd) (hR : RExact R) (s : State) (h : Inv s) :
    (loop1 R 12 s.x s.carry s.ir s.jr 0).2.2.1 = 0 := by
  have hj : s.jr < 12 := by rw [h.jr]; omega
  rw [loop1_spec R hR s.irOld s.pr 12 s.x s.carry s.ir s.jr 0 ⟨h.bnd, h.cok, h.ir, hj⟩ (by omega)]
  rw [iter_ir _ _ h.ir]
  have := h.ir
  dsimp only
  omega

/-! ## every reachable state is bounded; every output is in [0, 1) -/

/-- `set_seed` establishes the invariant, for every seed value -/
theorem seed_inv (seed : Int) : Inv (seedState exact seed) :=
  ⟨seedState_bnd seed, Or.inl rfl, by show (11 : Nat) < 12; omega, by show (0 : Nat) < 12; omega, rfl, rfl⟩

/-- every state reachable from any seed by any number of draws has all entries in `[0, 2^48)`
and carry 0 or 1 -/
theorem state_bounded (seed : Int) (n : Nat) : Inv (after exact (seedState exact seed) n) :=
  after_inv _ (seed_inv seed) n

/-- every output `k * 2^-48` of every stream has `0 ≤ k < 2^48` -/
theorem next_lt_one (seed : Int) (n : Nat) : 0 ≤ stream seed n ∧ stream seed n < B :=
  next_val _ (state_bounded seed n)

/-- … i.e. the returned double lies in `[0, 1)`, and `< 1` by at least `2^-48` -/
theorem output_in_unit_interval (seed : Int) (n : Nat) :
    (0 : ℚ) ≤ (stream seed n : ℚ) / 2 ^ 48 ∧ (stream seed n : ℚ) / 2 ^ 48 ≤ 1 - 1 / 2 ^ 48 := by
  obtain ⟨h0, h1⟩ := next_lt_one seed n
  rw [B_val] at h1
  have h1' : stream seed n ≤ 281474976710655 := by omega
  have a : (0 : ℚ) ≤ (stream seed n : ℚ) := by exact_mod_cast h0
  have b : (stream seed n : ℚ) ≤ 281474976710655 := by exact_mod_cast h1'
  constructor
  · exact div_nonneg a (by positivity)
  · rw [div_le_iff₀ (by positivity)]; norm_num; linarith

/-- Exactly 0 is NOT excluded by the invariant that bounds the outputs: there is a well-formed
state (all entries 0) whose every later output is 0.  Whether a seeded stream ever returns
exactly 0 (`-log(u) = +∞`) is not decided here; it can never return a negative value or 1. -/
theorem zero_not_excluded_by_invariant :
    ∃ s : State, Inv s ∧ ∀ n, draw exact s n = 0 := by
  have hr : ∀ i, rd (Array.replicate 12 (0 : Int)) i = 0 := by
    intro i; simp [rd, Array.getD]
  have hb : Bnd (Array.replicate 12 (0 : Int)) :=
    ⟨by simp, fun i _ => by rw [hr i, B_val]; omega⟩
  refine ⟨⟨Array.replicate 12 0, 0, 11, 7, 0, 397⟩,
    ⟨hb, Or.inl rfl, by decide, by decide, rfl, rfl⟩, ?_⟩
  intro n
  rw [draw_spec _ hb rfl rfl rfl rfl rfl n, ranluxSpec]
  dsimp only
  -- the textbook sequence started from zeros is zero
  have hs : ∀ m, swb (fun i => rd (Array.replicate 12 (0 : Int)) i) m = (0, 0) := by
    intro m
    induction m using Nat.strong_induction_on with
    | _ m ih =>
      by_cases h : m < 12
      · rw [swb_lt _ _ h, hr]
      · rw [swb_ge _ _ (by omega), ih (m - 5) (by omega), ih (m - 12) (by omega),
          ih (m - 1) (by omega)]
        simp
  rw [hs]

/-! ## the double arithmetic is exact (justifies the integer model) -/

/-- Every double operation of seeding, refill and draw produces an integer multiple of 2^-48
of magnitude below 2^49 · 2^-48: whatever the rounding `R` does outside that range, as long as
it is exact inside it (IEEE binary64 is exact up to 2^53), the generator started with `R` is in
the same state after every number of draws and returns the same values as the unrounded one. -/
theorem doubles_exact (R : Rnd) (hR : RExact R) (seed : Int) (n : Nat) :
    after R (seedState R seed) n = after exact (seedState exact seed) n
    ∧ draw R (seedState R seed) n = stream seed n := by
  have hs := seedState_R R hR seed
  have ha := after_R R hR _ (seed_inv seed) n
  refine ⟨by rw [hs, ha], ?_⟩
  unfold stream draw
  rw [hs, ha, next_R R hR _ (state_bounded seed n)]

/-- the same for a single refill from any well-formed state -/
theorem doubles_exact_refill (R : Rnd) (hR : RExact R) (s : State) (h : Inv s) :
    next R s = next exact s := next_R R hR s h

/-! ## seeding -/

/-- seed 0 is seed 1 -/
theorem seed_zero_is_one (R : Rnd) : seedState R 0 = seedState R 1 := rfl

theorem seed_zero_stream (n : Nat) : stream 0 n = stream 1 n := rfl

/-- only the low 31 bits of the (non-zero) seed matter -/
theorem seed_mod (a b : Int) (h : effSeed a = effSeed b) : seedState exact a = seedState exact b := by
  have ha := seedState_x exact exact_RExact a
  have hb := seedState_x exact exact_RExact b
  have e : ∀ s, seedState exact s = { seedState exact s with x := (seedState exact s).x } :=
    fun _ => rfl
  rw [e a, e b, ha, hb, h]
  rfl

/-- the twelve state words after seeding are consecutive 48 bit groups of the complemented
output of the shift register `b(n) = b(n-31) xor b(n-13)` started from the seed bits -/
theorem seed_words (seed : Int) (p : Nat) (hp : p < 12) :
    rd (seedState exact seed).x p = pre (effSeed seed) (48 * p) 48 :=
  seedState_rd seed p hp

/-- seeding is injective on `[1, 2^31)`: already the first state word determines the seed (its
leading 31 bits are the complemented seed bits, least significant first) -/
theorem seed_injective (a b : Int) (ha : 1 ≤ a) (ha' : a < 2147483648) (hb : 1 ≤ b)
    (hb' : b < 2147483648)
    (h : rd (seedState exact a).x 0 = rd (seedState exact b).x 0) : a = b := by
  rw [seedState_rd a 0 (by omega), seedState_rd b 0 (by omega)] at h
  have := word0_inj _ _ (effSeed_lt a) (effSeed_lt b) h
  rw [effSeed_of_range a ha ha', effSeed_of_range b hb hb'] at this
  omega

theorem seed_injective_state (a b : Int) (ha : 1 ≤ a) (ha' : a < 2147483648) (hb : 1 ≤ b)
    (hb' : b < 2147483648) (h : seedState exact a = seedState exact b) : a = b :=
  seed_injective a b ha ha' hb hb' (by rw [h])

/-! ## restart -/

/-- a generator written to a restart file and read back is the same generator -/
theorem restore_dump (s : State) (h : s.x.size = 12) : restore (dump s) = some s := by
  obtain ⟨x, c, ir, jr, o, p⟩ := s
  dsimp only at h
  have hx : x = #[rd x 0, rd x 1, rd x 2, rd x 3, rd x 4, rd x 5, rd x 6, rd x 7, rd x 8,
      rd x 9, rd x 10, rd x 11] := by
    apply Array.ext (by simp [h])
    intro i h1 h2
    have h3 : i < 12 := by omega
    rcases i with _ | _ | _ | _ | _ | _ | _ | _ | _ | _ | _ | _ | i <;>
      first | (exfalso; omega) | (simp [rd, Array.getD, h])
  simp only [dump, List.range, List.range.loop, List.map, List.cons_append, List.nil_append,
    restore]
  rw [← hx]

/-- … in every reachable state, and the stream continues identically -/
theorem restore_continues (seed : Int) (n : Nat) :
    restore (dump (after exact (seedState exact seed) n))
      = some (after exact (seedState exact seed) n) :=
  restore_dump _ (state_bounded seed n).bnd.1

theorem stream_after_restore (seed : Int) (n m : Nat) :
    (restore (dump (after exact (seedState exact seed) n))).map (fun r => draw exact r m)
      = some (stream seed (n + m)) := by
  rw [restore_continues, Option.map_some]
  congr 1
  unfold stream draw
  congr 2
  induction m with
  | zero => rfl
  | succ m ih => rw [after, ih]; rfl

/-! ## the stream is RANLUX -/

/-- for every seed and every position: the `n`-th returned value is the textbook
subtract-with-borrow sequence (base 2^48, lags 12 and 5, started from the seed words, no
borrow) at index `397 * (n / 12 + 1) + n % 12`: luxury level 397, twelve values delivered per
397, the first 397 skipped -/
theorem stream_is_spec (seed : Int) (n : Nat) :
    stream seed n = ranluxSpec (fun p => rd (seedState exact seed).x p) n :=
  draw_spec _ (seedState_bnd seed) rfl rfl rfl rfl rfl n

/-- same seed ⇒ same stream, by construction (the model is a function); stated for
completeness: equal effective seeds give equal streams -/
theorem same_seed_same_stream (a b : Int) (h : effSeed a = effSeed b) (n : Nat) :
    stream a n = stream b n := by
  unfold stream; rw [seed_mod a b h]

/-! ## injectivity of the step; different seeds give different streams -/

/-- The single step is NOT injective on raw states: an entry and the incoming carry are only
seen through their sum, so two well-formed states that differ in (entry, carry) merge. -/
theorem singleStep_not_injective :
    ∃ s s' : State, Inv s ∧ Inv s' ∧ s ≠ s' ∧ singleStep s = singleStep s' := by
  have hb : ∀ v : Int, 0 ≤ v → v < B → Bnd (wr (Array.replicate 12 (0 : Int)) 0 v) := by
    intro v h0 h1
    exact bnd_wr _ _ _ ⟨by simp, fun i _ => by simp [rd, Array.getD, B_val]⟩ h0 h1
  refine ⟨⟨wr (Array.replicate 12 0) 0 5, 0, 0, 7, 0, 397⟩,
          ⟨wr (Array.replicate 12 0) 0 4, 1, 0, 7, 0, 397⟩,
          ⟨hb 5 (by omega) (by rw [B_val]; omega), Or.inl rfl, by decide, by decide, rfl, rfl⟩,
          ⟨hb 4 (by omega) (by rw [B_val]; omega), Or.inr rfl, by decide, by decide, rfl, rfl⟩,
          by decide, by decide⟩

/-- It is injective as soon as the incoming carry is known (the step loses exactly the
information "entry + carry" ↦ (entry, carry)). -/
theorem singleStep_injective_same_carry (s s' : State)
    (hs : s.x.size = 12) (hs' : s'.x.size = 12) (hi : s.ir < 12) (hi' : s'.ir < 12)
    (hj : s.jr = (s.ir + 7) % 12) (hj' : s'.jr = (s'.ir + 7) % 12)
    (hc : s.carry = s'.carry) (h : singleStep s = singleStep s') : s = s' := by
  obtain ⟨x, c, ir, jr, o, p⟩ := s
  obtain ⟨x', c', ir', jr', o', p'⟩ := s'
  dsimp only at hs hs' hi hi' hj hj' hc
  subst hc
  have e1 : (ir + 1) % 12 = (ir' + 1) % 12 := congrArg State.ir h
  have e2 : o = o' := congrArg State.irOld h
  have e3 : p = p' := congrArg State.pr h
  have ei : ir = ir' := by omega
  subst ei e2 e3
  have ej : jr = jr' := by omega
  subst ej
  have hx : (sb exact x c ir jr).1 = (sb exact x' c ir jr).1 := congrArg State.x h
  have hcc : (sb exact x c ir jr).2 = (sb exact x' c ir jr).2 := congrArg State.carry h
  have hne : ir ≠ jr := by omega
  have hsz : ir < x.size := by omega
  have hsz' : ir < x'.size := by omega
  have key : ∀ q, q < 12 → rd x q = rd x' q := by
    -- unchanged positions first
    have other : ∀ q, q ≠ ir → rd x q = rd x' q := by
      intro q hq
      have := congrArg (fun a => rd a q) hx
      rw [sb_exact, sb_exact] at this
      split at this <;> split at this <;>
        simpa [rd_wr_ne _ _ _ _ (Ne.symm hq)] using this
    intro q _
    by_cases hq : q = ir
    · subst hq
      have hjr := other jr (Ne.symm hne)
      have v := congrArg (fun a => rd a q) hx
      rw [sb_exact, sb_exact] at v hcc
      rw [hjr] at v hcc
      by_cases a : rd x' jr - rd x q - c < 0 <;> by_cases b : rd x' jr - rd x' q - c < 0
      · simp only [a, b, if_true, rd_wr_eq _ _ _ hsz, rd_wr_eq _ _ _ hsz'] at v; omega
      · simp only [a, b, if_true, if_false] at hcc; omega
      · simp only [a, b, if_true, if_false] at hcc; omega
      · simp only [a, b, if_false, rd_wr_eq _ _ _ hsz, rd_wr_eq _ _ _ hsz'] at v; omega
    · exact other q hq
  have : x = x' := arr_ext x x' hs hs' key
  subst this
  rfl

/-- What replaces injectivity: the recurrence is a linear congruential generator.  The residue
`Zf` of a window and its borrow satisfies `Zf t = b^n · Zf (t+n)  (mod b^12 − b^5 + 1)` — `n`
steps multiply the residue by the (invertible) `b^-n`, so no information modulo `MM` is lost;
states with the same residue merge (`singleStep_not_injective`). -/
theorem swb_is_lcg (x0 : Nat → Int) (t n : Nat) :
    ∃ q : Int, Zf x0 t = B ^ n * Zf x0 (t + n) + MM * q := Z_iter x0 t n

/-- Different seeds give different streams: for any two seeds whose effective 31 bit seeds differ the
streams differ within the first 24 draws.  (Proof: equal first two delivered windows force
equal borrows because `b^397 ≢ ±1 (mod MM)`; then the seed arrays have the same residue, both
lie in `[0, MM)`, the only other array with that residue would need a zero first word, which
the shift register cannot produce; so the first words agree and `seed_injective` applies.) -/
theorem streams_differ_eff (a b : Int) (hab : effSeed a ≠ effSeed b) :
    ∃ n, n < 24 ∧ stream a n ≠ stream b n := by
  by_contra hne
  have heq : ∀ n, n < 24 → stream a n = stream b n := by
    intro n hn
    by_contra h
    exact hne ⟨n, hn, h⟩
  apply hab
  apply word0_inj _ _ (effSeed_lt a) (effSeed_lt b)
  rw [← seedState_rd a 0 (by omega), ← seedState_rd b 0 (by omega)]
  have bnd : ∀ s : Int, ∀ k, k < 12 →
      0 ≤ rd (seedState exact s).x k ∧ rd (seedState exact s).x k < B :=
    fun s k hk => (seedState_bnd s).2 k hk
  have nz : ∀ s : Int, rd (seedState exact s).x 0 ≠ 0 := by
    intro s; rw [seedState_rd s 0 (by omega)]; exact pre48_ne_zero _ _
  refine first_word_eq (fun p => rd (seedState exact a).x p) (fun p => rd (seedState exact b).x p)
    (bnd a) (bnd b) (nz a) (nz b) ?_ ?_
  · intro j hj
    have := heq j (by omega)
    rw [stream_is_spec, stream_is_spec, ranluxSpec, ranluxSpec] at this
    rw [show 397 * (j / 12 + 1) + j % 12 = 397 + j by omega] at this
    exact this
  · intro j hj
    have := heq (12 + j) (by omega)
    rw [stream_is_spec, stream_is_spec, ranluxSpec, ranluxSpec] at this
    rw [show 397 * ((12 + j) / 12 + 1) + (12 + j) % 12 = 794 + j by omega] at this
    exact this

/-- … in particular for any two different seeds in `[1, 2^31)` -/
theorem streams_differ (a b : Int) (ha : 1 ≤ a) (ha' : a < 2147483648) (hb : 1 ≤ b)
    (hb' : b < 2147483648) (hab : a ≠ b) : ∃ n, n < 24 ∧ stream a n ≠ stream b n := by
  apply streams_differ_eff
  rw [effSeed_of_range a ha ha', effSeed_of_range b hb hb']
  omega

/-! ## the consumer of a locally constructed generator: the photon packet split -/

/-- the split of `DistributedPhotonSource` hands out exactly `N` packets (quotas `q ≤ N` in
total, every source over `c ≥ 1` copies, leftovers to valid source indices) … -/
theorem split_sum (N : Nat) (src : List (Nat × Nat)) (idx : Nat → Nat)
    (hc : ∀ p ∈ src, 0 < p.2) (hq : (src.map Prod.fst).sum ≤ N) (hi : ∀ i, idx i < src.length) :
    (split N src idx).sum = N ∧ (split N src idx).length = (src.map Prod.snd).sum := by
  have b := splitBase_spec src [] [] hc (by simp)
  unfold split
  generalize splitBase src [] [] = r at b
  obtain ⟨tot, ov⟩ := r
  obtain ⟨b1, b2, b3, b4⟩ := b
  dsimp only at b1 b2 b3 b4 ⊢
  have l := leftovers_spec ov idx (by intro i; rw [b3]; simpa using hi i)
    (N - (src.map Prod.fst).sum) 0 tot b4
  rw [l.1, l.2, b1, b2]
  simp
  omega

/-- … and is a function of `(N, quotas, copies)` and of the stream of a generator seeded with the
constant default seed inside the constructor: the leftover `i` goes to the source computed from
draw number `i` of `stream 42`, counted from 0 in EVERY construction.  Two constructions from
the same inputs give the same split (there is no hidden state; a `static` generator would make
`idx` depend on the number of earlier constructions — the harness constructs twice and
compares). -/
theorem split_fresh_generator (N : Nat) (src : List (Nat × Nat)) (toIdx : Int → Nat) (k : Nat) :
    split N src (fun i => toIdx (stream defaultSeed i))
      = split N src (fun i => toIdx (draw exact (seedState exact 42) (0 + i))) ∧
    -- a generator that has already been used `k` times would read the stream from position k
    (fun i => draw exact (after exact (seedState exact 42) k) i)
      = (fun i => stream defaultSeed (k + i)) := by
  refine ⟨by simp only [Nat.zero_add]; rfl, ?_⟩
  funext i
  unfold stream draw defaultSeed
  congr 2
  induction i with
  | zero => rfl
  | succ i ih => rw [after, ih]; rfl

example : (split 10 [(1, 1), (2, 2), (5, 1)] (fun i => i % 3)).sum = 10 := by decide

/-! ## consumers at run level: integers, per-thread seeds, emission -/

/-- `get_random_integer()` from EVERY well-formed state (not only sampled ones) returns the
leading 31 bits of the draw: a value in `[0, 2^31)` (the header comment says `[0, 2^31]`) -/
theorem random_integer_range (s : State) (h : Inv s) :
    0 ≤ (nextInt exact s).1 ∧ (nextInt exact s).1 < 2147483648
    ∧ (nextInt exact s).1 = (next exact s).1 / 131072 := by
  obtain ⟨h0, h1⟩ := next_val s h
  rw [(nextInt_val exact s).1, B_val]
  rw [B_val] at h1
  omega

/-- the seed a restarted RHD run continues with (`get_random_integer()` of a generator seeded
with the previous seed) is again a seed of the domain `[0, 2^31)` of the theorems above -/
theorem restart_seed_in_domain (seed : Int) (n : Nat) :
    0 ≤ (nextInt exact (after exact (seedState exact seed) n)).1
    ∧ (nextInt exact (after exact (seedState exact seed) n)).1 < 2147483648 :=
  let h := random_integer_range _ (state_bounded seed n); ⟨h.1, h.2.1⟩

/-- threads of one run: with a seed `≥ 1` (and `seed + n ≤ 2^31`) any two threads have streams
that differ within their first 24 draws -/
theorem thread_streams_differ (seed : Int) (n i j : Nat) (hs : 1 ≤ seed)
    (hn : seed + n ≤ 2147483648) (hi : i < n) (hj : j < n) (hij : i ≠ j) :
    ∃ m, m < 24 ∧ stream (threadSeed seed i) m ≠ stream (threadSeed seed j) m := by
  unfold threadSeed
  apply streams_differ <;> omega

/-- in general two threads share a stream exactly when their effective seeds coincide … -/
theorem thread_streams_equal_iff (seed : Int) (i j : Nat) :
    (∀ m, stream (threadSeed seed i) m = stream (threadSeed seed j) m)
      ↔ effSeed (threadSeed seed i) = effSeed (threadSeed seed j) := by
  constructor
  · intro h
    by_contra hne
    obtain ⟨m, _, hm⟩ := streams_differ_eff _ _ hne
    exact hm (h m)
  · intro h m; exact same_seed_same_stream _ _ h m

/-- … which DOES happen inside the documented seed domain: with `random seed: 0` threads 0 and 1
get seeds 0 and 1, and seed 0 is an alias of seed 1 — both threads draw the same stream. -/
theorem thread_seed_collision (m : Nat) :
    stream (threadSeed 0 0) m = stream (threadSeed 0 1) m := rfl

/-- the only collisions among fewer than 2^31 - 1 consecutive thread seeds are of this kind: some
thread gets seed 0 and the next one seed 1 -/
theorem thread_collision_only_at_zero (seed : Int) (i j : Nat) (hij : i < j)
    (hj : (j : Int) < 2147483647)
    (h : effSeed (threadSeed seed i) = effSeed (threadSeed seed j)) :
    threadSeed seed i = 0 ∧ j = i + 1 := by
  unfold effSeed threadSeed at *
  split at h <;> split at h <;> omega

/-- emission, over the reals, for every value `u ∈ [0,1)` a generator can return:
the `z` component is in `[-1, 1)` and the direction is a unit vector -/
theorem emit_direction_unit (u1 u2 : ℝ) (h0 : 0 ≤ u1) (h1 : u1 < 1) :
    let d := emitDirection u1 u2
    d.1 * d.1 + d.2.1 * d.2.1 + d.2.2 * d.2.2 = 1 ∧ -1 ≤ d.2.2 ∧ d.2.2 < 1 := by
  rw [emitDirection_real]
  dsimp only
  have hnn : 0 ≤ 1 - (2 * u1 - 1) * (2 * u1 - 1) := by nlinarith
  rw [max_eq_left hnn]
  have hs := Real.mul_self_sqrt hnn
  have ht := Real.cos_sq_add_sin_sq (2 * Real.pi * u2)
  refine ⟨?_, by linarith, by linarith⟩
  generalize Real.sqrt (1 - (2 * u1 - 1) * (2 * u1 - 1)) = r at hs
  generalize Real.cos (2 * Real.pi * u2) = c at ht
  generalize Real.sin (2 * Real.pi * u2) = sn at ht
  nlinarith [hs, ht]

/-- the target optical depth `-log(u)` is strictly positive for every `u ∈ (0,1)`; at `u = 0`
(not excluded, see `zero_not_excluded_by_invariant`) the C++ gives `+∞`, never `≤ 0`
(evaluated on the real code by the harness) -/
theorem emit_tau_pos (u : ℝ) (h0 : 0 < u) (h1 : u < 1) : 0 < emitTau u := by
  rw [emitTau_real]; linarith [Real.log_neg h0 h1]

/-- … in particular for every non-zero value of every stream -/
theorem stream_tau_pos (seed : Int) (n : Nat) (hz : stream seed n ≠ 0) :
    0 < emitTau ((stream seed n : ℝ) / 2 ^ 48) := by
  obtain ⟨h0, h1⟩ := next_lt_one seed n
  rw [B_val] at h1
  have hp : 0 < stream seed n := by omega
  have a : (0 : ℝ) < (stream seed n : ℝ) := by exact_mod_cast hp
  have b : (stream seed n : ℝ) < 281474976710656 := by exact_mod_cast h1
  apply emit_tau_pos
  · positivity
  · rw [div_lt_one (by positivity)]; norm_num; exact b

example : ∃ seed : Int, ∃ n : Nat, 1 ≤ seed ∧ seed + n ≤ 2147483648 ∧ 2 ≤ n := ⟨42, 8, by decide, by decide, by decide⟩
example : (0 : ℝ) ≤ 0.25 ∧ (0.25 : ℝ) < 1 := by norm_num

/-! ## ownership of the streams: positions are handed out once -/

/-- In the driver loop (one vector of generators owned by the driver, every task draws from the
generator of the thread that executes it, by reference) no (thread, stream position) pair is
handed out twice — whatever the tasks, their order, their contexts, and however many draws each
takes depending on the values it sees. -/
theorem positions_handed_out_once (ops : List Op) (g : Nat → State) (p : Nat → Nat) :
    (runOps ops g p).Nodup := runOps_nodup ops g p

/-- … and every thread receives the CONTIGUOUS positions `p t, p t + 1, …` of its own stream, in
order: a second task / context / iteration continues where the first stopped. -/
theorem positions_contiguous (ops : List Op) (g : Nat → State) (p : Nat → Nat) (t : Nat) :
    ((runOps ops g p).filter (fun q => q.1 = t)).map Prod.snd
      = List.range' (p t) (usedBy t ops g) := runOps_contiguous ops g p t

/-- the value at position `a + b` of a stream is what a consumer sees as its `b`-th draw from
the generator left behind by `a` earlier draws -/
theorem draw_after (s : State) (a b : Nat) : draw exact (after exact s a) b = draw exact s (a + b) := by
  unfold draw; rw [after_add]

/-- the two modelled consumers leave the caller's generator exactly as many draws further as
`runOps` books for them: `(3 + extra) * n` for a source task of `n` packets, one per packet plus
three per re-emitted packet for a re-emission task -/
theorem consumers_advance_exactly (extra n m : Nat) (thr : Int) (s : State) :
    (sourceLoop extra n s).2 = after exact s ((sourceOp 0 extra n).draws s)
    ∧ (reemitLoop thr m s).2.2 = after exact s ((reemitOp 0 thr m).draws s)
    ∧ (reemitOp 0 thr m).draws s = m + 3 * (reemitLoop thr m s).2.1.length :=
  ⟨(sourceLoop_state extra n s).1, (reemitLoop_state thr m s).1, (reemitLoop_state thr m s).2⟩

example : runOps [sourceOp 0 1 2, reemitOp 1 5 3, sourceOp 0 1 1] (fun _ => seedState exact 42)
    (fun _ => 0) ≠ [] := by
  simp [runOps, sourceOp]

/-! ## non-vacuity -/

example : RExact exact := exact_RExact
example : ∃ s, Inv s ∧ s.ir = s.irOld :=
  ⟨{ seedState exact 42 with ir := 0 }, ⟨(seed_inv 42).bnd, (seed_inv 42).cok, by decide,
    by decide, rfl, rfl⟩, rfl⟩
example : ∃ a b : Int, 1 ≤ a ∧ a < 2147483648 ∧ 1 ≤ b ∧ b < 2147483648 ∧ a ≠ b :=
  ⟨1, 2, by decide, by decide, by decide, by decide, by decide⟩

end CMacVerif.Ranlux
