import CMacVerif.Lemmas.Worker
import CMacVerif.Model.HydroGraph
import Mathlib.Tactic.SplitIfs
/-!
# C07 — hydro task graph: every task once, in order, conflict-free, always finishes

Part 1: theorems about the worker loop over ANY well-formed task graph, any number of threads,
any interleaving (`Model/Worker.lean`; a trace is an arbitrary list of labels).
Part 2: the hydro task graph of every layout / periodicity is well-formed (`Model/HydroGraph.lean`).
Part 3: the property for the hydro step.
-/
namespace CMacVerif.Worker
variable {τ ρ : Type} [DecidableEq τ] [DecidableEq ρ]

/-! ## Part 1 — worker loop over a well-formed graph -/

/-- every state reachable from the reset state satisfies the invariant -/
theorem reachable_inv (G : Graph τ ρ) (hG : WF G) (ls : List (Label τ))
    (hl : ∀ l ∈ ls, labelTask l ∈ G.univ) (s : WState τ) (h : run G (init G) ls = some s) : Inv G s :=
  run_inv G hG ls hl (init G) s (init_inv G hG) h

/-- **Never two conflicting tasks at the same time**: two different running tasks never share a
resource (subgrid). -/
theorem conflict_free (G : Graph τ ρ) (s : WState τ) (hs : Inv G s) (a b : τ) (ha : a ∈ G.univ)
    (hb : b ∈ G.univ) (hab : a ≠ b) (hra : s.st a = .running) (hrb : s.st b = .running) :
    ∀ r ∈ G.lockset a, r ∉ G.lockset b := by
  have h := hs.excl a ha b hb hab hra hrb
  unfold conflicts at h
  intro r hr hrb'
  have : ((G.lockset a).any fun r => (G.lockset b).contains r) = true := by
    rw [List.any_eq_true]; exact ⟨r, hr, by simpa using hrb'⟩
  rw [h] at this; cases this

/-- **Never before its dependencies**: a task can only be started when the sweep of every task it
depends on has been executed (its parent is releasing its children or done). -/
theorem ordered (G : Graph τ ρ) (hG : WF G) (s s' : WState τ) (hs : Inv G s) (t : τ) (ht : t ∈ G.univ)
    (h : step G s (.acquire t) = some s') : ∀ p ∈ G.parents t, s.execd p = 1 := by
  obtain ⟨hst, _, _⟩ := acquire_some h
  intro p hp
  have hpU := hG.parentIn t ht p hp
  have hc0 : s.cnt t = 0 := (hs.ready t ht).2 (by rw [hst]; simp)
  have hz : (pending G s p).count t = 0 := sumOver_zero (by rw [← hs.cnt t ht]; exact hc0) p hpU
  have hcount : 0 < (G.children p).count t := by
    rw [hG.consistent p hpU t ht]; exact List.count_pos_iff.mpr hp
  rw [hs.execd p hpU]
  unfold pending at hz
  cases hsp : s.st p <;> simp only [hsp] at hz <;> first | rfl | omega

/-- with a rank that increases along the edges (acyclic graph): when the shared counter
`number_of_tasks` is 0, **every task is done** -/
theorem all_done_at_end (G : Graph τ ρ) (hG : WF G) (rk : τ → Nat)
    (hrk : ∀ p ∈ G.univ, ∀ c ∈ G.children p, rk p < rk c)
    (s : WState τ) (hs : Inv G s) (h0 : s.num = 0) : ∀ t ∈ G.univ, s.st t = .done := by
  have hact : ∀ t ∈ G.univ, isActive (s.st t) = false := by
    intro t ht
    have := sumOver_zero (by rw [← hs.num]; exact h0) t ht
    simp only [act] at this
    split_ifs at this with h
    simpa using h
  suffices H : ∀ n, ∀ t ∈ G.univ, rk t = n → s.st t = .done from fun t ht => H (rk t) t ht rfl
  intro n
  induction n using Nat.strongRecOn with
  | _ n ih =>
    intro t ht hn
    have ha := hact t ht
    cases hst : s.st t with
    | done => rfl
    | queued => rw [hst] at ha; simp [isActive] at ha
    | running => rw [hst] at ha; simp [isActive] at ha
    | releasing rem => rw [hst] at ha; simp [isActive] at ha
    | notReady =>
      exfalso
      have hpos := (hs.ready t ht).1 hst
      rw [hs.cnt t ht] at hpos
      obtain ⟨p, hp, hc⟩ := sumOver_pos hpos
      have hmem : t ∈ pending G s p := List.count_pos_iff.mp hc
      -- p is not done, and t is one of its children, so rk p < rk t = n
      have hpd : s.st p ≠ .done := by
        intro hd; simp [pending, hd] at hmem
      have hchild : t ∈ G.children p := by
        unfold pending at hmem
        cases hsp : s.st p with
        | releasing rem =>
          have := hact p hp; rw [hsp] at this; simp [isActive] at this
        | done => exact absurd hsp hpd
        | notReady => simpa [hsp] using hmem
        | queued => simpa [hsp] using hmem
        | running => simpa [hsp] using hmem
      have hlt := hrk p hp t hchild
      exact hpd (ih (rk p) (by omega) p hp rfl)

/-- **exactly once**: in every complete execution (reset … `number_of_tasks = 0`) the sweep of
every task has been executed exactly once -/
theorem executed_exactly_once (G : Graph τ ρ) (hG : WF G) (rk : τ → Nat)
    (hrk : ∀ p ∈ G.univ, ∀ c ∈ G.children p, rk p < rk c) (ls : List (Label τ))
    (hl : ∀ l ∈ ls, labelTask l ∈ G.univ) (s : WState τ) (h : run G (init G) ls = some s)
    (h0 : s.num = 0) : ∀ t ∈ G.univ, s.execd t = 1 := by
  have hs := reachable_inv G hG ls hl s h
  intro t ht
  rw [hs.execd t ht, all_done_at_end G hG rk hrk s hs h0 t ht]; rfl

/-- … and never more than once at any moment of any execution -/
theorem executed_at_most_once (G : Graph τ ρ) (hG : WF G) (ls : List (Label τ))
    (hl : ∀ l ∈ ls, labelTask l ∈ G.univ) (s : WState τ) (h : run G (init G) ls = some s) :
    ∀ t ∈ G.univ, s.execd t ≤ 1 := by
  have hs := reachable_inv G hG ls hl s h
  intro t ht
  rw [hs.execd t ht]; unfold execdSpec; split <;> omega

/-- the counter protocol: `number_of_tasks` always equals the number of queued + running +
releasing tasks; in particular it is not 0 while some task is still to be retired -/
theorem counter_protocol (G : Graph τ ρ) (s : WState τ) (hs : Inv G s) :
    s.num = (G.univ.filter (fun t => isActive (s.st t))).length := by
  rw [hs.num, filter_length_eq_sumOver]; rfl

/-- **No stuck state**: while `number_of_tasks > 0` some thread can make a step -/
theorem no_stuck (G : Graph τ ρ) (s : WState τ) (hs : Inv G s) (hpos : 0 < s.num) :
    ∃ l, labelTask l ∈ G.univ ∧ (step G s l).isSome = true := by
  by_cases hrun : ∃ t ∈ G.univ, s.st t = .running ∨ ∃ rem, s.st t = .releasing rem
  · obtain ⟨t, ht, h | ⟨rem, h⟩⟩ := hrun
    · exact ⟨.finishExec t, ht, by simp [step, h]⟩
    · cases rem with
      | nil => exact ⟨.retire t, ht, by simp [step, h]⟩
      | cons c rem =>
        refine ⟨.releaseChild t, ht, ?_⟩
        simp only [step, h]
        split_ifs <;> rfl
  · -- nobody runs or releases: some task is queued and nothing conflicts with it
    rw [hs.num] at hpos
    obtain ⟨t, ht, hat⟩ := sumOver_pos hpos
    have hq : s.st t = .queued := by
      simp only [act] at hat
      cases hst : s.st t with
      | queued => rfl
      | notReady => simp [hst, isActive] at hat
      | done => simp [hst, isActive] at hat
      | running => exact absurd ⟨t, ht, Or.inl hst⟩ hrun
      | releasing rem => exact absurd ⟨t, ht, Or.inr ⟨rem, hst⟩⟩ hrun
    refine ⟨.acquire t, ht, ?_⟩
    have hg : (G.univ.all fun u => !(isRunning s u && conflicts G t u)) = true := by
      rw [List.all_eq_true]
      intro u hu
      have : isRunning s u = false := by
        unfold isRunning
        cases hsu : s.st u with
        | running => exact absurd ⟨u, hu, Or.inl hsu⟩ hrun
        | _ => rfl
      simp [this]
    simp only [step, hq, hg, ↓reduceIte, Option.isSome_some]

/-- once the counter is 0 nothing can happen any more: threads may leave the loop at different
times without missing work -/
theorem end_is_stable (G : Graph τ ρ) (hG : WF G) (rk : τ → Nat)
    (hrk : ∀ p ∈ G.univ, ∀ c ∈ G.children p, rk p < rk c)
    (s : WState τ) (hs : Inv G s) (h0 : s.num = 0) (l : Label τ) (hl : labelTask l ∈ G.univ) :
    step G s l = none := by
  have hd := all_done_at_end G hG rk hrk s hs h0 (labelTask l) hl
  cases l <;> simp only [labelTask] at hd <;> simp [step, hd]

/-- termination measure: strictly decreases with every step -/
def weight (G : Graph τ ρ) (s : WState τ) (t : τ) : Nat :=
  match s.st t with
  | .notReady => 4 + (G.children t).length
  | .queued => 3 + (G.children t).length
  | .running => 2 + (G.children t).length
  | .releasing rem => 1 + rem.length
  | .done => 0

def measure (G : Graph τ ρ) (s : WState τ) : Nat := sumOver G.univ (weight G s)

theorem sumOver_lt {l : List τ} {f f' : τ → Nat} (hle : ∀ x ∈ l, f' x ≤ f x) {t : τ} (ht : t ∈ l)
    (hlt : f' t < f t) : sumOver l f' < sumOver l f := by
  induction l with
  | nil => cases ht
  | cons a l ih =>
    simp only [sumOver, List.map_cons, List.sum_cons]
    have hle' : ∀ x ∈ l, f' x ≤ f x := fun x hx => hle x (List.mem_cons_of_mem _ hx)
    have hsum : sumOver l f' ≤ sumOver l f := by
      clear ih ht
      induction l with
      | nil => simp [sumOver]
      | cons b l ih2 =>
        simp only [sumOver, List.map_cons, List.sum_cons]
        have := hle' b List.mem_cons_self
        have := ih2 (fun x hx => hle x (by
          rcases List.mem_cons.mp hx with e | e
          · exact e ▸ List.mem_cons_self
          · exact List.mem_cons_of_mem _ (List.mem_cons_of_mem _ e)))
          (fun x hx => hle' x (List.mem_cons_of_mem _ hx))
        unfold sumOver at this; omega
    unfold sumOver at hsum
    rcases List.mem_cons.mp ht with e | e
    · subst e; have := hle t List.mem_cons_self; omega
    · have := ih hle' e; unfold sumOver at this
      have := hle a List.mem_cons_self; omega

theorem weight_upd_other (G : Graph τ ρ) (s : WState τ) (st' : τ → Status τ) (cnt' : τ → Nat) (n : Nat)
    (e : τ → Nat) (x : τ) (h : st' x = s.st x) :
    weight G { st := st', cnt := cnt', num := n, execd := e } x = weight G s x := by
  simp only [weight, h]

/-- **Always finishes**: every step (of any thread, in any interleaving) strictly decreases a
natural-number measure that starts at `Σ_t (4 + #children t)`; together with `no_stuck` the
step ends after at most that many actions, whatever the schedule. -/
theorem measure_decreases (G : Graph τ ρ) (hG : WF G) (s s' : WState τ) (hs : Inv G s) (l : Label τ)
    (hl : labelTask l ∈ G.univ) (h : step G s l = some s') : measure G s' < measure G s := by
  cases l with
  | acquire t =>
    replace hl : t ∈ G.univ := hl
    obtain ⟨hst, _, rfl⟩ := acquire_some h
    apply sumOver_lt (t := t) _ hl
    · simp [weight, hst]
    · intro x _
      by_cases hx : x = t
      · subst hx; simp [weight, hst]
      · exact Nat.le_of_eq (weight_upd_other G s _ _ _ _ x (upd_other _ _ _ hx))
  | finishExec t =>
    replace hl : t ∈ G.univ := hl
    obtain ⟨hst, rfl⟩ := finishExec_some h
    apply sumOver_lt (t := t) _ hl
    · simp [weight, hst]
    · intro x _
      by_cases hx : x = t
      · subst hx; simp [weight, hst]
      · exact Nat.le_of_eq (weight_upd_other G s _ _ _ _ x (upd_other _ _ _ hx))
  | retire t =>
    replace hl : t ∈ G.univ := hl
    obtain ⟨hst, rfl⟩ := retire_some h
    apply sumOver_lt (t := t) _ hl
    · simp [weight, hst]
    · intro x _
      by_cases hx : x = t
      · subst hx; simp [weight, hst]
      · exact Nat.le_of_eq (weight_upd_other G s _ _ _ _ x (upd_other _ _ _ hx))
  | releaseChild t =>
    replace hl : t ∈ G.univ := hl
    obtain ⟨c, rem, hst, rfl⟩ := releaseChild_some h
    have hcU : c ∈ G.univ := hs.remIn t hl _ hst c List.mem_cons_self
    have hpt : pending G s t = c :: rem := by simp [pending, hst]
    have hcnt1 : 1 ≤ s.cnt c := by
      rw [hs.cnt c hcU]
      have := sumOver_le hl (fun p => (pending G s p).count c)
      rw [hpt, List.count_cons_self] at this
      omega
    have hcNR : s.st c = .notReady := by
      by_cases hne : s.st c = .notReady
      · exact hne
      · have := (hs.ready c hcU).2 hne
        omega
    have hct : c ≠ t := by
      intro e; rw [e, hst] at hcNR; cases hcNR
    split_ifs with hc1
    · apply sumOver_lt (t := t) _ hl
      · simp [weight, hst, upd_other _ _ _ (Ne.symm hct)]
      · intro x _
        by_cases hx : x = t
        · subst hx; simp [weight, hst, upd_other _ _ _ (Ne.symm hct)]
        · by_cases hxc : x = c
          · subst hxc
            simp only [weight, upd_same, hcNR]
            omega
          · exact Nat.le_of_eq (weight_upd_other G s _ _ _ _ x
              (by rw [upd_other _ _ _ hxc, upd_other _ _ _ hx]))
    · apply sumOver_lt (t := t) _ hl
      · simp [weight, hst]
      · intro x _
        by_cases hx : x = t
        · subst hx; simp [weight, hst]
        · exact Nat.le_of_eq (weight_upd_other G s _ _ _ _ x (upd_other _ _ _ hx))

end CMacVerif.Worker
