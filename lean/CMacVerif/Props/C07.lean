import CMacVerif.Lemmas.Worker
import CMacVerif.Lemmas.WorkerOrder
import CMacVerif.Lemmas.HydroGraph
import CMacVerif.Lemmas.LockOrder
import Mathlib.Tactic.SplitIfs
/-!
# C07 — hydro task graph: every task once, in order, conflict-free, always finishes

Part 1: theorems about the worker loop over ANY well-formed task graph, any number of threads,
any interleaving (`Model/Worker.lean`; a trace is an arbitrary list of labels).
Part 2: the hydro task graph of every layout / periodicity is well-formed (`Model/HydroGraph.lean`).
Part 3: the property for the hydro step.
-/
namespace CMacVerif.Worker
variable {τ ρ : Type} [DecidableEq τ] [DecidableEq ρ]

/-! ## Part 1 — worker loop over a well-formed graph -/

/-- every state reachable from the reset state satisfies the invariant -/
theorem reachable_inv (G : Graph τ ρ) (hG : WF G) (ls : List (Label τ))
    (hl : ∀ l ∈ ls, labelTask l ∈ G.univ) (s : WState τ) (h : run G (init G) ls = some s) : Inv G s :=
  run_inv G hG ls hl (init G) s (init_inv G hG) h

/-- **Never two conflicting tasks at the same time**: two different running tasks never share a
resource (subgrid). -/
theorem conflict_free (G : Graph τ ρ) (s : WState τ) (hs : Inv G s) (a b : τ) (ha : a ∈ G.univ)
    (hb : b ∈ G.univ) (hab : a ≠ b) (hra : s.st a = .running) (hrb : s.st b = .running) :
    ∀ r ∈ G.lockset a, r ∉ G.lockset b := by
  have h := hs.excl a ha b hb hab hra hrb
  unfold conflicts at h
  intro r hr hrb'
  have : ((G.lockset a).any fun r => (G.lockset b).contains r) = true := by
    rw [List.any_eq_true]; exact ⟨r, hr, by simpa using hrb'⟩
  rw [h] at this; cases this

/-- **Never before its dependencies**: a task can only be started when the sweep of every task it
depends on has been executed (its parent is releasing its children or done). -/
theorem ordered (G : Graph τ ρ) (hG : WF G) (s s' : WState τ) (hs : Inv G s) (t : τ) (ht : t ∈ G.univ)
    (h : step G s (.acquire t) = some s') : ∀ p ∈ G.parents t, s.execd p = 1 := by
  obtain ⟨hst, _, _⟩ := acquire_some h
  intro p hp
  have hpU := hG.parentIn t ht p hp
  have hc0 : s.cnt t = 0 := (hs.ready t ht).2 (by rw [hst]; simp)
  have hz : (pending G s p).count t = 0 := sumOver_zero (by rw [← hs.cnt t ht]; exact hc0) p hpU
  have hcount : 0 < (G.children p).count t := by
    rw [hG.consistent p hpU t ht]; exact List.count_pos_iff.mpr hp
  rw [hs.execd p hpU]
  unfold pending at hz
  cases hsp : s.st p <;> simp only [hsp] at hz <;> first | rfl | omega

/-- with a rank that increases along the edges (acyclic graph): when the shared counter
`number_of_tasks` is 0, **every task is done** -/
theorem all_done_at_end (G : Graph τ ρ) (hG : WF G) (rk : τ → Nat)
    (hrk : ∀ p ∈ G.univ, ∀ c ∈ G.children p, rk p < rk c)
    (s : WState τ) (hs : Inv G s) (h0 : s.num = 0) : ∀ t ∈ G.univ, s.st t = .done := by
  have hact : ∀ t ∈ G.univ, isActive (s.st t) = false := by
    intro t ht
    have := sumOver_zero (by rw [← hs.num]; exact h0) t ht
    simp only [act] at this
    split_ifs at this with h
    simpa using h
  suffices H : ∀ n, ∀ t ∈ G.univ, rk t = n → s.st t = .done from fun t ht => H (rk t) t ht rfl
  intro n
  induction n using Nat.strongRecOn with
  | _ n ih =>
    intro t ht hn
    have ha := hact t ht
    cases hst : s.st t with
    | done => rfl
    | queued => rw [hst] at ha; simp [isActive] at ha
    | running => rw [hst] at ha; simp [isActive] at ha
    | releasing rem => rw [hst] at ha; simp [isActive] at ha
    | notReady =>
      exfalso
      have hpos := (hs.ready t ht).1 hst
      rw [hs.cnt t ht] at hpos
      obtain ⟨p, hp, hc⟩ := sumOver_pos hpos
      have hmem : t ∈ pending G s p := List.count_pos_iff.mp hc
      -- p is not done, and t is one of its children, so rk p < rk t = n
      have hpd : s.st p ≠ .done := by
        intro hd; simp [pending, hd] at hmem
      have hchild : t ∈ G.children p := by
        unfold pending at hmem
        cases hsp : s.st p with
        | releasing rem =>
          have := hact p hp; rw [hsp] at this; simp [isActive] at this
        | done => exact absurd hsp hpd
        | notReady => simpa [hsp] using hmem
        | queued => simpa [hsp] using hmem
        | running => simpa [hsp] using hmem
      have hlt := hrk p hp t hchild
      exact hpd (ih (rk p) (by omega) p hp rfl)

/-- **exactly once**: in every complete execution (reset … `number_of_tasks = 0`) the sweep of
every task has been executed exactly once -/
theorem executed_exactly_once (G : Graph τ ρ) (hG : WF G) (rk : τ → Nat)
    (hrk : ∀ p ∈ G.univ, ∀ c ∈ G.children p, rk p < rk c) (ls : List (Label τ))
    (hl : ∀ l ∈ ls, labelTask l ∈ G.univ) (s : WState τ) (h : run G (init G) ls = some s)
    (h0 : s.num = 0) : ∀ t ∈ G.univ, s.execd t = 1 := by
  have hs := reachable_inv G hG ls hl s h
  intro t ht
  rw [hs.execd t ht, all_done_at_end G hG rk hrk s hs h0 t ht]; rfl

/-- … and never more than once at any moment of any execution -/
theorem executed_at_most_once (G : Graph τ ρ) (hG : WF G) (ls : List (Label τ))
    (hl : ∀ l ∈ ls, labelTask l ∈ G.univ) (s : WState τ) (h : run G (init G) ls = some s) :
    ∀ t ∈ G.univ, s.execd t ≤ 1 := by
  have hs := reachable_inv G hG ls hl s h
  intro t ht
  rw [hs.execd t ht]; unfold execdSpec; split <;> omega

/-- **The order in which the sweeps finish is a linear extension of the task graph**: in every
complete execution (any number of threads, any interleaving) the list of tasks in the order of
their `finishExec` contains every task exactly once and no task before one of its parents. -/
theorem finish_order_linear_extension (G : Graph τ ρ) (hG : WF G) (rk : τ → Nat)
    (hrk : ∀ p ∈ G.univ, ∀ c ∈ G.children p, rk p < rk c) (ls : List (Label τ))
    (hl : ∀ l ∈ ls, labelTask l ∈ G.univ) (s : WState τ) (h : run G (init G) ls = some s)
    (h0 : s.num = 0) :
    (finishOrder ls).Nodup ∧ (∀ t, t ∈ finishOrder ls ↔ t ∈ G.univ) ∧
      (finishOrder ls).Pairwise (fun a b => b ∉ G.parents a) :=
  finishOrder_complete G hG ls hl s h (executed_exactly_once G hG rk hrk ls hl s h h0)

/-- in particular the finish order is a permutation of the task list: a complete hydro step
executes exactly as many sweeps as there are tasks -/
theorem finish_order_perm (G : Graph τ ρ) (hG : WF G) (rk : τ → Nat)
    (hrk : ∀ p ∈ G.univ, ∀ c ∈ G.children p, rk p < rk c) (ls : List (Label τ))
    (hl : ∀ l ∈ ls, labelTask l ∈ G.univ) (s : WState τ) (h : run G (init G) ls = some s)
    (h0 : s.num = 0) : (finishOrder ls).Perm G.univ ∧ (finishOrder ls).length = G.univ.length := by
  obtain ⟨h1, h2, _⟩ := finish_order_linear_extension G hG rk hrk ls hl s h h0
  have hp : (finishOrder ls).Perm G.univ := (List.perm_ext_iff_of_nodup h1 hG.nodup).mpr h2
  exact ⟨hp, hp.length_eq⟩

/-- the counter protocol: `number_of_tasks` always equals the number of queued + running +
releasing tasks; in particular it is not 0 while some task is still to be retired -/
theorem counter_protocol (G : Graph τ ρ) (s : WState τ) (hs : Inv G s) :
    s.num = (G.univ.filter (fun t => isActive (s.st t))).length := by
  rw [hs.num, filter_length_eq_sumOver]; rfl

/-- **No stuck state**: while `number_of_tasks > 0` some thread can make a step -/
theorem no_stuck (G : Graph τ ρ) (s : WState τ) (hs : Inv G s) (hpos : 0 < s.num) :
    ∃ l, labelTask l ∈ G.univ ∧ (step G s l).isSome = true := by
  by_cases hrun : ∃ t ∈ G.univ, s.st t = .running ∨ ∃ rem, s.st t = .releasing rem
  · obtain ⟨t, ht, h | ⟨rem, h⟩⟩ := hrun
    · exact ⟨.finishExec t, ht, by simp [step, h]⟩
    · cases rem with
      | nil => exact ⟨.retire t, ht, by simp [step, h]⟩
      | cons c rem =>
        refine ⟨.releaseChild t, ht, ?_⟩
        simp only [step, h]
        split_ifs <;> rfl
  · -- nobody runs or releases: some task is queued and nothing conflicts with it
    rw [hs.num] at hpos
    obtain ⟨t, ht, hat⟩ := sumOver_pos hpos
    have hq : s.st t = .queued := by
      simp only [act] at hat
      cases hst : s.st t with
      | queued => rfl
      | notReady => simp [hst, isActive] at hat
      | done => simp [hst, isActive] at hat
      | running => exact absurd ⟨t, ht, Or.inl hst⟩ hrun
      | releasing rem => exact absurd ⟨t, ht, Or.inr ⟨rem, hst⟩⟩ hrun
    refine ⟨.acquire t, ht, ?_⟩
    have hg : (G.univ.all fun u => !(isRunning s u && conflicts G t u)) = true := by
      rw [List.all_eq_true]
      intro u hu
      have : isRunning s u = false := by
        unfold isRunning
        cases hsu : s.st u with
        | running => exact absurd ⟨u, hu, Or.inl hsu⟩ hrun
        | _ => rfl
      simp [this]
    simp only [step, hq, hg, ↓reduceIte, Option.isSome_some]

/-- once the counter is 0 nothing can happen any more: threads may leave the loop at different
times without missing work -/
theorem end_is_stable (G : Graph τ ρ) (hG : WF G) (rk : τ → Nat)
    (hrk : ∀ p ∈ G.univ, ∀ c ∈ G.children p, rk p < rk c)
    (s : WState τ) (hs : Inv G s) (h0 : s.num = 0) (l : Label τ) (hl : labelTask l ∈ G.univ) :
    step G s l = none := by
  have hd := all_done_at_end G hG rk hrk s hs h0 (labelTask l) hl
  cases l <;> simp only [labelTask] at hd <;> simp [step, hd]

/-- termination measure: strictly decreases with every step -/
def weight (G : Graph τ ρ) (s : WState τ) (t : τ) : Nat :=
  match s.st t with
  | .notReady => 4 + (G.children t).length
  | .queued => 3 + (G.children t).length
  | .running => 2 + (G.children t).length
  | .releasing rem => 1 + rem.length
  | .done => 0

def measure (G : Graph τ ρ) (s : WState τ) : Nat := sumOver G.univ (weight G s)

theorem sumOver_lt {l : List τ} {f f' : τ → Nat} (hle : ∀ x ∈ l, f' x ≤ f x) {t : τ} (ht : t ∈ l)
    (hlt : f' t < f t) : sumOver l f' < sumOver l f := by
  induction l with
  | nil => cases ht
  | cons a l ih =>
    simp only [sumOver, List.map_cons, List.sum_cons]
    have hle' : ∀ x ∈ l, f' x ≤ f x := fun x hx => hle x (List.mem_cons_of_mem _ hx)
    have hsum : sumOver l f' ≤ sumOver l f := by
      clear ih ht
      induction l with
      | nil => simp [sumOver]
      | cons b l ih2 =>
        simp only [sumOver, List.map_cons, List.sum_cons]
        have := hle' b List.mem_cons_self
        have := ih2 (fun x hx => hle x (by
          rcases List.mem_cons.mp hx with e | e
          · exact e ▸ List.mem_cons_self
          · exact List.mem_cons_of_mem _ (List.mem_cons_of_mem _ e)))
          (fun x hx => hle' x (List.mem_cons_of_mem _ hx))
        unfold sumOver at this; omega
    unfold sumOver at hsum
    rcases List.mem_cons.mp ht with e | e
    · subst e; have := hle t List.mem_cons_self; omega
    · have := ih hle' e; unfold sumOver at this
      have := hle a List.mem_cons_self; omega

theorem weight_upd_other (G : Graph τ ρ) (s : WState τ) (st' : τ → Status τ) (cnt' : τ → Nat) (n : Nat)
    (e : τ → Nat) (x : τ) (h : st' x = s.st x) :
    weight G { st := st', cnt := cnt', num := n, execd := e } x = weight G s x := by
  simp only [weight, h]

/-- **Always finishes**: every step (of any thread, in any interleaving) strictly decreases a
natural-number measure that starts at `Σ_t (4 + #children t)`; together with `no_stuck` the
step ends after at most that many actions, whatever the schedule. -/
theorem measure_decreases (G : Graph τ ρ) (hG : WF G) (s s' : WState τ) (hs : Inv G s) (l : Label τ)
    (hl : labelTask l ∈ G.univ) (h : step G s l = some s') : measure G s' < measure G s := by
  cases l with
  | acquire t =>
    replace hl : t ∈ G.univ := hl
    obtain ⟨hst, _, rfl⟩ := acquire_some h
    apply sumOver_lt (t := t) _ hl
    · simp [weight, hst]
    · intro x _
      by_cases hx : x = t
      · subst hx; simp [weight, hst]
      · exact Nat.le_of_eq (weight_upd_other G s _ _ _ _ x (upd_other _ _ _ hx))
  | finishExec t =>
    replace hl : t ∈ G.univ := hl
    obtain ⟨hst, rfl⟩ := finishExec_some h
    apply sumOver_lt (t := t) _ hl
    · simp [weight, hst]
    · intro x _
      by_cases hx : x = t
      · subst hx; simp [weight, hst]
      · exact Nat.le_of_eq (weight_upd_other G s _ _ _ _ x (upd_other _ _ _ hx))
  | retire t =>
    replace hl : t ∈ G.univ := hl
    obtain ⟨hst, rfl⟩ := retire_some h
    apply sumOver_lt (t := t) _ hl
    · simp [weight, hst]
    · intro x _
      by_cases hx : x = t
      · subst hx; simp [weight, hst]
      · exact Nat.le_of_eq (weight_upd_other G s _ _ _ _ x (upd_other _ _ _ hx))
  | releaseChild t =>
    replace hl : t ∈ G.univ := hl
    obtain ⟨c, rem, hst, rfl⟩ := releaseChild_some h
    have hcU : c ∈ G.univ := hs.remIn t hl _ hst c List.mem_cons_self
    have hpt : pending G s t = c :: rem := by simp [pending, hst]
    have hcnt1 : 1 ≤ s.cnt c := by
      rw [hs.cnt c hcU]
      have := sumOver_le hl (fun p => (pending G s p).count c)
      rw [hpt, List.count_cons_self] at this
      omega
    have hcNR : s.st c = .notReady := by
      by_cases hne : s.st c = .notReady
      · exact hne
      · have := (hs.ready c hcU).2 hne
        omega
    have hct : c ≠ t := by
      intro e; rw [e, hst] at hcNR; cases hcNR
    split_ifs with hc1
    · apply sumOver_lt (t := t) _ hl
      · simp [weight, hst, upd_other _ _ _ (Ne.symm hct)]
      · intro x _
        by_cases hx : x = t
        · subst hx; simp [weight, hst, upd_other _ _ _ (Ne.symm hct)]
        · by_cases hxc : x = c
          · subst hxc
            simp only [weight, upd_same, hcNR]
            omega
          · exact Nat.le_of_eq (weight_upd_other G s _ _ _ _ x
              (by rw [upd_other _ _ _ hxc, upd_other _ _ _ hx]))
    · apply sumOver_lt (t := t) _ hl
      · simp [weight, hst]
      · intro x _
        by_cases hx : x = t
        · subst hx; simp [weight, hst]
        · exact Nat.le_of_eq (weight_upd_other G s _ _ _ _ x (upd_other _ _ _ hx))

end CMacVerif.Worker

/-! ## Part 2 — the hydro task graph of every layout is a well-formed DAG -/
namespace CMacVerif.HydroGraph
open CMacVerif.Worker

theorem fluxDownTask_exists {L : Layout} {g : Sub} (hg : valid L g = true) (ax : Axis) :
    exists_ L (fluxDownTask L ax g) = true := by
  unfold fluxDownTask
  cases h : ngbDown L ax g with
  | none => simp [exists_, hg, slotExists, h]
  | some m => simp [exists_, (ngbDown_ngbUp hg h).1, slotExists]

theorem gradDownTask_exists {L : Layout} {g : Sub} (hg : valid L g = true) (ax : Axis) :
    exists_ L (gradDownTask L ax g) = true := by
  unfold gradDownTask
  cases h : ngbDown L ax g with
  | none => simp [exists_, hg, slotExists, h]
  | some m => simp [exists_, (ngbDown_ngbUp hg h).1, slotExists]

theorem optTask_exists {L : Layout} {g : Sub} (hg : valid L g = true) (ax : Axis) (s : Slot)
    (hs : ∀ n, slotExists L n s = true) : ∀ c ∈ optTask (ngbUp L ax g) s, exists_ L c = true := by
  intro c hc
  unfold optTask at hc
  cases h : ngbUp L ax g with
  | none => rw [h] at hc; cases hc
  | some n =>
    rw [h] at hc
    simp only [List.mem_cons, List.not_mem_nil, or_false] at hc
    subst hc
    simp [exists_, (ngbUp_ngbDown hg h).1, hs]

/-- children of an existing task exist (no dangling child index) -/
theorem children_exist (L : Layout) (p : Task) (hp : exists_ L p = true) :
    ∀ c ∈ children L p, exists_ L c = true := by
  obtain ⟨g, sp⟩ := p
  simp only [exists_, Bool.and_eq_true] at hp
  obtain ⟨hg, _⟩ := hp
  have hf := fun ax => @fluxDownTask_exists L g hg ax
  intro c hc
  rcases sp with _ | ax | ax | _ | _ | _ | ax | ax | _ | _ <;>
    simp only [children, List.mem_cons, List.not_mem_nil, or_false] at hc
  case gradUp =>
    rcases hc with rfl | hc
    · simp [exists_, hg, slotExists]
    · exact optTask_exists hg ax _ (by intro n; rfl) c hc
  case fluxUp =>
    rcases hc with rfl | hc
    · simp [exists_, hg, slotExists]
    · exact optTask_exists hg ax _ (by intro n; rfl) c hc
  case predict =>
    rcases hc with rfl | rfl | rfl | rfl | rfl | rfl | rfl <;>
      first | exact hf _ | simp [exists_, hg, slotExists]
  all_goals (first | (subst hc; simp [exists_, hg, slotExists]) | cases hc)

theorem parents_exist (L : Layout) (c : Task) (hc : exists_ L c = true) :
    ∀ p ∈ parents L c, exists_ L p = true := by
  obtain ⟨g, sc⟩ := c
  simp only [exists_, Bool.and_eq_true] at hc
  obtain ⟨hg, _⟩ := hc
  have hf := fun ax => @fluxDownTask_exists L g hg ax
  have hgr := fun ax => @gradDownTask_exists L g hg ax
  intro p hp
  rcases sc with _ | ax | ax | _ | _ | _ | ax | ax | _ | _ <;>
    simp only [parents, List.mem_cons, List.not_mem_nil, or_false] at hp
  case fluxUp =>
    rcases hp with rfl | hp
    · simp [exists_, hg, slotExists]
    · exact optTask_exists hg ax _ (by intro n; rfl) p hp
  case limiter =>
    rcases hp with rfl | rfl | rfl | rfl | rfl | rfl | rfl <;>
      first | exact hgr _ | simp [exists_, hg, slotExists]
  case updCons =>
    rcases hp with rfl | rfl | rfl | rfl | rfl | rfl | rfl <;>
      first | exact hf _ | simp [exists_, hg, slotExists]
  all_goals (first | (subst hp; simp [exists_, hg, slotExists]) | cases hp)

/-- **The hydro task graph of every layout and periodicity is well-formed**: the enumeration has
no duplicates, child and parent lists stay inside it, and the child lists are exactly the
inverse of the parent lists, with multiplicity (this uses the mutuality of the neighbour
relation, including periodic axes with one or two subgrids). -/
theorem hydro_wf (L : Layout) : WF (graph L) where
  nodup := allTasks_nodup L
  childIn := by
    intro p hp c hc
    rw [graph, mem_allTasks] at hp ⊢
    exact children_exist L p hp c hc
  parentIn := by
    intro c hc p hp
    rw [graph, mem_allTasks] at hc ⊢
    exact parents_exist L c hc p hp
  consistent := by
    intro p hp c hc
    rw [graph, mem_allTasks] at hp hc
    exact consistent L p c hp hc

/-- **acyclic**: every child is in a strictly later phase than its parent
(gradient → limiter → predict → flux → update conserved → update primitives) -/
theorem hydro_rank (L : Layout) (p : Task) (c : Task) (hc : c ∈ children L p) :
    phase p.slot < phase c.slot := by
  obtain ⟨g, sp⟩ := p
  have hall : (children L ⟨g, sp⟩).all (fun c => decide (phase sp < phase c.slot)) = true := by
    rcases sp with _ | ax | ax | _ | _ | _ | ax | ax | _ | _ <;>
      simp only [children, fluxDownTask, optTask] <;> (repeat' split) <;> simp [phase]
  rw [List.all_eq_true] at hall
  simpa using hall c hc

/-- **the reset counters are the in-degrees**: `reset_hydro_tasks` sets every counter to the
number of parent edges of the task (7 / 1 / 1 / 1|2 / 7 / 1, 0 for the gradient sweeps) -/
theorem reset_is_indegree (L : Layout) (t : Task) : resetCount L t = (parents L t).length := by
  obtain ⟨g, s⟩ := t
  rcases s with _ | ax | ax | _ | _ | _ | ax | ax | _ | _ <;> simp only [resetCount, parents, List.length_cons, List.length_nil]
  case fluxUp =>
    unfold optTask
    cases ngbUp L ax g <;> simp

/-- a task never has more than 7 children (`Task::_children[7]`) -/
theorem children_le_7 (L : Layout) (t : Task) : (children L t).length ≤ 7 := by
  obtain ⟨g, s⟩ := t
  rcases s with _ | ax | ax | _ | _ | _ | ax | ax | _ | _ <;>
    simp only [children, optTask, List.length_cons, List.length_nil] <;> (try split) <;> simp

/-- the locks a task takes cover every subgrid its sweep touches … -/
theorem lockset_covers_footprint (L : Layout) (t : Task) : ∀ x ∈ footprint L t, x ∈ lockset L t := by
  obtain ⟨g, s⟩ := t
  intro x hx
  rcases s with _ | ax | ax | _ | _ | _ | ax | ax | _ | _ <;> simp only [footprint, lockset] at hx ⊢
  case gradUp => cases h : ngbUp L ax g <;> simp only [h] at hx ⊢ <;> (try split_ifs with e) <;> simp_all
  case fluxUp => cases h : ngbUp L ax g <;> simp only [h] at hx ⊢ <;> (try split_ifs with e) <;> simp_all
  all_goals exact hx

/-- … and never contain the same lock twice (a task never try-locks a lock it already holds) -/
theorem lockset_nodup (L : Layout) (t : Task) : (lockset L t).Nodup := by
  obtain ⟨g, s⟩ := t
  rcases s with _ | ax | ax | _ | _ | _ | ax | ax | _ | _ <;> simp only [lockset]
  case gradUp =>
    cases h : ngbUp L ax g <;> simp only <;> (try split_ifs with e) <;> simp
    exact fun e' => e e'.symm
  case fluxUp =>
    cases h : ngbUp L ax g <;> simp only <;> (try split_ifs with e) <;> simp
    exact fun e' => e e'.symm
  all_goals simp

/-! ### lock order ("avoid dining philosophers by sorting the dependencies on subgrid index")

A pop takes the locks of a task one after the other with `try_lock` and gives the first one back
when the second is taken.  Mutual exclusion does not depend on the order, but progress under an
adversarial lock-step schedule does. -/

/-- for every layout and every existing task: the locks are taken in strictly increasing subgrid
index, and they are the locks of `lockset` -/
theorem hydro_lock_order (L : Layout) (t : Task) (ht : exists_ L t = true) :
    (lockOrder L t).Pairwise (fun a b => subIndex L a < subIndex L b) ∧
      (∀ x, x ∈ lockOrder L t ↔ x ∈ lockset L t) ∧ (lockOrder L t).length = (lockset L t).length := by
  have hv : valid L t.g = true := by
    unfold exists_ at ht
    simp only [Bool.and_eq_true] at ht
    exact ht.1
  exact ⟨lockOrder_sorted L t hv (lockset_nodup L t), lockOrder_mem L t, lockOrder_length L t⟩

/-- **no lock-step livelock**: let `waiting` be the two-lock tasks that currently hold their first
lock `p.1` and are about to try their second `p.2`.  If every one of them takes its lower-indexed
lock first, at least one of them finds its second lock not held by any waiting task — so a round
in which ALL of them fail, give their lock back and start over is impossible. -/
theorem no_lockstep_cycle (waiting : List (Nat × Nat)) (hne : waiting ≠ [])
    (hord : ∀ p ∈ waiting, p.1 < p.2) : ∃ p ∈ waiting, ∀ q ∈ waiting, q.1 ≠ p.2 := by
  have hmax : ∀ l : List (Nat × Nat), l ≠ [] → ∃ p ∈ l, ∀ q ∈ l, q.2 ≤ p.2 := by
    intro l
    induction l with
    | nil => intro h; exact absurd rfl h
    | cons a l ih =>
      intro _
      by_cases hl : l = []
      · subst hl
        exact ⟨a, List.mem_cons_self, fun q hq => by
          simp only [List.mem_singleton] at hq; subst hq; exact Nat.le_refl _⟩
      · obtain ⟨p, hp, hle⟩ := ih hl
        by_cases hc : p.2 ≤ a.2
        · refine ⟨a, List.mem_cons_self, fun q hq => ?_⟩
          rcases List.mem_cons.mp hq with rfl | hq
          · exact Nat.le_refl _
          · exact Nat.le_trans (hle q hq) hc
        · refine ⟨p, List.mem_cons_of_mem _ hp, fun q hq => ?_⟩
          rcases List.mem_cons.mp hq with rfl | hq
          · omega
          · exact hle q hq
  obtain ⟨p, hp, hle⟩ := hmax waiting hne
  refine ⟨p, hp, fun q hq e => ?_⟩
  have h1 := hord q hq
  have h2 := hle q hq
  omega

/-- … and the order is needed: two tasks that take the same two locks in opposite order can both
hold their first lock and find their second one taken, forever -/
theorem unordered_locks_can_cycle :
    ¬ ∃ p ∈ [((1 : Nat), (2 : Nat)), (2, 1)], ∀ q ∈ [((1 : Nat), (2 : Nat)), (2, 1)], q.1 ≠ p.2 := by
  decide

/-! ## Part 3 — the property for the hydro step of every layout -/

/-- For every layout `nx × ny × nz` (each ≥ 0, in particular 1 or 2 subgrids on a periodic axis),
every periodicity, every number of threads and every interleaving: in a complete hydro step
every task's sweep is executed **exactly once**. -/
theorem hydro_exactly_once (L : Layout) (ls : List (Label Task))
    (hl : ∀ l ∈ ls, exists_ L (labelTask l) = true) (s : WState Task)
    (h : run (graph L) (init (graph L)) ls = some s) (h0 : s.num = 0) :
    ∀ t, exists_ L t = true → s.execd t = 1 := by
  intro t ht
  exact executed_exactly_once (graph L) (hydro_wf L) (fun t => phase t.slot)
    (fun p _ c hc => hydro_rank L p c hc) ls
    (fun l hl' => (mem_allTasks L _).mpr (hl l hl')) s h h0 t ((mem_allTasks L t).mpr ht)

/-- a task is only started after all tasks it depends on have been executed -/
theorem hydro_ordered (L : Layout) (ls : List (Label Task))
    (hl : ∀ l ∈ ls, exists_ L (labelTask l) = true) (s s' : WState Task)
    (h : run (graph L) (init (graph L)) ls = some s) (t : Task) (ht : exists_ L t = true)
    (hstep : step (graph L) s (.acquire t) = some s') : ∀ p ∈ parents L t, s.execd p = 1 :=
  ordered (graph L) (hydro_wf L) s s'
    (reachable_inv (graph L) (hydro_wf L) ls (fun l hl' => (mem_allTasks L _).mpr (hl l hl')) s h)
    t ((mem_allTasks L t).mpr ht) hstep

/-- … and the sweeps finish in an order that is a linear extension of the hydro task graph -/
theorem hydro_finish_order (L : Layout) (ls : List (Label Task))
    (hl : ∀ l ∈ ls, exists_ L (labelTask l) = true) (s : WState Task)
    (h : run (graph L) (init (graph L)) ls = some s) (h0 : s.num = 0) :
    (finishOrder ls).Nodup ∧ (∀ t, t ∈ finishOrder ls ↔ exists_ L t = true) ∧
      (finishOrder ls).Pairwise (fun a b => b ∉ parents L a) := by
  obtain ⟨h1, h2, h3⟩ := finish_order_linear_extension (graph L) (hydro_wf L) (fun t => phase t.slot)
    (fun p _ c hc => hydro_rank L p c hc) ls (fun l hl' => (mem_allTasks L _).mpr (hl l hl')) s h h0
  exact ⟨h1, fun t => (h2 t).trans (mem_allTasks L t), h3⟩

/-- two tasks that run at the same time never touch the same subgrid -/
theorem hydro_conflict_free (L : Layout) (ls : List (Label Task))
    (hl : ∀ l ∈ ls, exists_ L (labelTask l) = true) (s : WState Task)
    (h : run (graph L) (init (graph L)) ls = some s) (a b : Task) (ha : exists_ L a = true)
    (hb : exists_ L b = true) (hab : a ≠ b) (hra : s.st a = .running) (hrb : s.st b = .running) :
    ∀ x ∈ footprint L a, x ∉ footprint L b := by
  intro x hxa hxb
  have hs := reachable_inv (graph L) (hydro_wf L) ls (fun l hl' => (mem_allTasks L _).mpr (hl l hl')) s h
  exact conflict_free (graph L) s hs a b ((mem_allTasks L a).mpr ha) ((mem_allTasks L b).mpr hb) hab hra hrb
    x (lockset_covers_footprint L a x hxa) (lockset_covers_footprint L b x hxb)

/-- the step always terminates: as long as `number_of_tasks > 0` some thread can act, and every
action decreases a measure bounded by `11 · #tasks` -/
theorem hydro_progress (L : Layout) (ls : List (Label Task))
    (hl : ∀ l ∈ ls, exists_ L (labelTask l) = true) (s : WState Task)
    (h : run (graph L) (init (graph L)) ls = some s) (hpos : 0 < s.num) :
    ∃ l s', exists_ L (labelTask l) = true ∧ step (graph L) s l = some s'
      ∧ Worker.measure (graph L) s' < Worker.measure (graph L) s := by
  have hs := reachable_inv (graph L) (hydro_wf L) ls (fun l hl' => (mem_allTasks L _).mpr (hl l hl')) s h
  obtain ⟨l, hlU, hsome⟩ := no_stuck (graph L) s hs hpos
  obtain ⟨s', hs'⟩ := Option.isSome_iff_exists.mp hsome
  exact ⟨l, s', (mem_allTasks L _).mp hlU, hs', measure_decreases (graph L) (hydro_wf L) s s' hs l hlU hs'⟩

theorem hydro_measure_bound (L : Layout) :
    Worker.measure (graph L) (init (graph L)) ≤ 11 * (allTasks L).length := by
  unfold Worker.measure
  have : ∀ t ∈ (graph L).univ, weight (graph L) (init (graph L)) t ≤ 11 := by
    intro t _
    have := children_le_7 L t
    simp only [weight, init, graph]
    by_cases hp : (parents L t).length = 0 <;> simp only [hp, if_true, if_false] <;> omega
  show sumOver (allTasks L) _ ≤ 11 * _
  have hu : (graph L).univ = allTasks L := rfl
  rw [hu] at this
  generalize allTasks L = l at this ⊢
  induction l with
  | nil => simp [sumOver]
  | cons a l ih =>
    simp only [sumOver, List.map_cons, List.sum_cons, List.length_cons] at ih ⊢
    have h1 := this a List.mem_cons_self
    have h2 := ih (fun t ht => this t (List.mem_cons_of_mem _ ht))
    omega

/-- non-vacuity: a periodic 1 × 2 × 1 layout (one subgrid on the periodic x axis, two on the
periodic y axis): the pair tasks of the single-subgrid axis lock one subgrid once -/
example : lockset ⟨1, 2, 1, true, true, false⟩ ⟨(0, 0, 0), .fluxUp .x⟩ = [(0, 0, 0)]
    ∧ lockset ⟨1, 2, 1, true, true, false⟩ ⟨(0, 0, 0), .fluxUp .y⟩ = [(0, 0, 0), (0, 1, 0)]
    ∧ (allTasks ⟨1, 2, 1, true, true, false⟩).length = 28 := by decide

end CMacVerif.HydroGraph
