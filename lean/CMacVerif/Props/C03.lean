import CMacVerif.Lemmas.SubgridLayout
import CMacVerif.Lemmas.SplitInvariance
import CMacVerif.Lemmas.SplitCopies
import Mathlib.Algebra.Order.Field.Rat
import Mathlib.Tactic.NormNum
import Mathlib.Tactic.FieldSimp
import Mathlib.Tactic.NormNum.OfScientific
import Mathlib.Algebra.Field.Basic
import Mathlib.Algebra.Group.Basic
import Mathlib.Algebra.Group.Pi.Basic
/-!
# C03 — ray tracing does not depend on the subgrid split

Property theorems only.  Models: `CMacVerif/Gen/TravelDirections.lean` (regenerated from the headers on
every run), `Model/SubgridLayout.lean`, `Model/Handover.lean`; helper lemmas: `Lemmas/SubgridLayout.lean`.

Directions are numbers `d < 27` (`TravelDirection`), sign patterns of a travel direction are numbers
`s < 27` with `s = 9 (sx+1) + 3 (sy+1) + (sz+1)`.  A layout `L` has `nx ny nz` subgrids of `mx my mz` cells
and periodicity flags; all layout theorems hold for every `L` with at least one cell per subgrid (the
number of subgrids per axis is unbounded; a subgrid index `s < L.size` forces `nx, ny, nz ≥ 1`).
-/
open CMacVerif.SubgridLayout CMacVerif.Handover CMacVerif.Gen.TravelDirections
namespace CMacVerif.C03

/-! ## 1. the 27-direction tables (by evaluation of the generated tables) -/

/-- `output_to_input_direction` is an involution on the 27 directions … -/
theorem outToIn_involution : ∀ d, d < 27 → outToInDir d < 27 ∧ outToInDir (outToInDir d) = d := by decide

/-- … whose only fixed point is `INSIDE` -/
theorem outToIn_fixes_only_inside : ∀ d, d < 27 → (outToInDir d = d ↔ d = 0) := by decide

/-- what can leave through `o` can enter through `output_to_input_direction(o)`, and nothing else: the two
compatibility functions agree for all 27 sign patterns and all 27 directions -/
theorem compat_in_out : ∀ s, s < 27 → ∀ o, o < 27 → compatInAt s (outToInDir o) = compatOutAt s o := by decide

/-- sign pattern number → the three signs -/
def signOf (s : Nat) : Int × Int × Int := (((s / 9 : Nat) : Int) - 1, (((s / 3) % 3 : Nat) : Int) - 1, ((s % 3 : Nat) : Int) - 1)

/-- a travel direction with sign `sg` on an axis can cross the wall with offset `a` on that axis -/
def axisCompatible (a sg : Int) : Bool := a == 0 || a == sg

/-- `is_compatible_output_direction` is exactly "every wall named by the direction is approached" and
`is_compatible_input_direction` "every wall named by the direction is left behind" -/
theorem compat_is_sign_condition : ∀ s, s < 27 → ∀ d, d < 27 →
    compatOutAt s d = (axisCompatible (offsetOf d).1 (signOf s).1 && axisCompatible (offsetOf d).2.1 (signOf s).2.1
        && axisCompatible (offsetOf d).2.2 (signOf s).2.2)
    ∧ compatInAt s d = (axisCompatible (offsetOf d).1 (-(signOf s).1) && axisCompatible (offsetOf d).2.1 (-(signOf s).2.1)
        && axisCompatible (offsetOf d).2.2 (-(signOf s).2.2)) := by decide

/-- every direction has an offset in {-1,0,1}³, `INSIDE` has offset 0, and `output_to_input_direction`
negates the offset -/
theorem offset_outToIn : ∀ d, d < 27 → offsetOf d ∈ loopOffsets ∧ (offsetOf d = (0, 0, 0) ↔ d = 0) ∧
    offsetOf (outToInDir d) = (-(offsetOf d).1, -(offsetOf d).2.1, -(offsetOf d).2.2) := by decide

/-- the offsets read off the code (`exitDir`: which index class `get_output_direction` maps to which label) are
the offsets the label NAMES document (P = upper limit, N = lower limit; table `namedOffset`) -/
theorem offset_matches_names : ∀ d, d < 27 → offsetOf d = namedOffset.getD d (2, 2, 2) := by decide

/-- the mask table of `get_output_direction` is the inverse of the offset: the mask built from the offset of
`d` is mapped to `d`, and every valid mask is the mask of the offset of its direction (all other masks are
rejected with `-1`) -/
theorem mask_inverse_offset :
    (∀ d, d < 27 → maskDir (maskOfOffset (offsetOf d)) = (d : Int)) ∧
    (∀ m, m < 64 → maskDir m = -1 ∨ ((maskDir m).toNat < 27 ∧ maskOfOffset (offsetOf (maskDir m).toNat) = m)) ∧
    (∀ o ∈ loopOffsets, offsetOf (dirOfOffset o) = o) := by decide

/-- class number 9(a+1)+3(b+1)+(c+1) → offset -/
def offsetOfClass (c : Nat) : Int × Int × Int := signOf c

/-- the real `DensitySubGrid::get_output_direction`, evaluated on representatives of the 27 index classes,
is the mask construction of the model followed by the mask table -/
theorem exitDir_is_mask_of_class : ∀ c, c < 27 → exitDirAt c = maskDir (maskOfOffset (offsetOfClass c)) := by decide

/-- `update_photon_position` pins exactly the coordinates the offset of the input direction names, to the
wall it names, and `get_{x,y,z}_index` fix the start index on exactly the same axes -/
theorem pins_agree_with_offset : ∀ d, d < 27 → ∀ ax, ax < 3 →
    pinAt d ax = clsOfOffset (comp (offsetOf d) ax) ∧ idxClassAt d ax = clsOfOffset (comp (offsetOf d) ax) := by decide

/-! ## 2. neighbour wiring of `create_subgrid`, all layouts -/

/-- subgrid index ↔ grid position is a bijection between `[0, nx·ny·nz)` and the box of positions -/
theorem gridPosition_bijection (L : Layout) :
    (∀ s, s < L.size → (gridPosition L s).1 < L.nx ∧ (gridPosition L s).2.1 < L.ny ∧ (gridPosition L s).2.2 < L.nz
      ∧ indexOf L (gridPosition L s).1 (gridPosition L s).2.1 (gridPosition L s).2.2 = s) ∧
    (∀ x y z, x < L.nx → y < L.ny → z < L.nz → indexOf L x y z < L.size ∧ gridPosition L (indexOf L x y z) = (x, y, z)) :=
  ⟨fun s hs => ⟨(gridPosition_lt L s hs).1, (gridPosition_lt L s hs).2.1, (gridPosition_lt L s hs).2.2,
      indexOf_gridPosition L s⟩,
   fun x y z hx hy hz => ⟨indexOf_lt L x y z hx hy hz, gridPosition_indexOf L x y z hy hz⟩⟩

/-- **neighbour_geometric.**  For every layout, periodicity, subgrid `s` and direction `d`, the entry `d` of
the neighbour table built by `create_subgrid` is the subgrid at `pos s + offset d`, each coordinate taken
modulo the number of subgrids on a periodic axis, and `NEIGHBOUR_OUTSIDE` when a coordinate falls outside on
a non-periodic axis (`geomNeighbour`, `geomAxis`). -/
theorem neighbour_geometric (L : Layout) (hx : 0 < L.mx) (hy : 0 < L.my) (hz : 0 < L.mz)
    (s d : Nat) (hs : s < L.size) (hd : d < 27) :
    ngb L s d = geomNeighbour L s d := by
  rw [ngb_eq_ngbAt L hx hy hz s d hd, ngbAt_geom L s d hs hd]

/-- `geomAxis` spelled out -/
theorem geomAxis_spec (p : Bool) (n : Nat) (c : Int) (x : Nat) :
    geomAxis p n c = some x ↔
      ((0 ≤ c ∧ c < n ∧ (x : Int) = c) ∨ (¬(0 ≤ c ∧ c < (n : Int)) ∧ p = true ∧ x = (c % (n : Int)).toNat)) := by
  unfold geomAxis
  by_cases h : 0 ≤ c ∧ c < (n : Int)
  · rw [if_pos h]
    constructor
    · intro e; injection e with e; left; exact ⟨h.1, h.2, by omega⟩
    · rintro (⟨_, _, e⟩ | ⟨hn, _⟩)
      · congr 1; omega
      · exact absurd h hn
  · rw [if_neg h]
    cases p
    · simp only [Bool.false_eq_true, ↓reduceIte, false_and, and_false, or_false, reduceCtorEq, false_iff, not_and]
      intro h1 h2; exact absurd ⟨h1, h2⟩ h
    · simp only [↓reduceIte, Option.some.injEq, true_and]
      constructor
      · intro e; right; exact ⟨h, e.symm⟩
      · rintro (⟨h1, h2, _⟩ | ⟨_, e⟩)
        · exact absurd ⟨h1, h2⟩ h
        · exact e.symm

/-- **neighbour_mutual.**  Whenever subgrid `s` has a neighbour `t` in direction `d`, `t` is a subgrid of the
layout and its neighbour in direction `output_to_input_direction(d)` is `s` — for every layout, including 1
and 2 subgrids on a periodic axis (where several directions lead to the same neighbour). -/
theorem neighbour_mutual (L : Layout) (hx : 0 < L.mx) (hy : 0 < L.my) (hz : 0 < L.mz)
    (s d t : Nat) (hs : s < L.size) (hd : d < 27) (h : ngb L s d = some t) :
    t < L.size ∧ ngb L t (outToInDir d) = some s := by
  rw [ngb_eq_ngbAt L hx hy hz s d hd] at h
  have hm := ngbAt_mutual L s hs _ (offsetOf_small d hd) t h
  refine ⟨hm.1, ?_⟩
  rw [ngb_eq_ngbAt L hx hy hz t _ (outToIn_lt d hd), SubgridLayout.offset_outToIn d hd]
  exact hm.2

/-- the neighbour table has 27 entries and entry `INSIDE` is the subgrid itself -/
theorem neighbour_table_shape (L : Layout) (hx : 0 < L.mx) (hy : 0 < L.my) (hz : 0 < L.mz) (s : Nat) (hs : s < L.size) :
    (createSubgrid L s).length = 27 ∧ ngb L s 0 = some s := by
  refine ⟨createSubgrid_length L hx hy hz s, ?_⟩
  rw [ngb_eq_ngbAt L hx hy hz s 0 (by decide)]
  have e : offsetOf 0 = (0, 0, 0) := by decide
  obtain ⟨h1, h2, h3⟩ := gridPosition_lt L s hs
  rw [e]; unfold ngbAt
  have ax : ∀ p n i, i < n → axisStep p n i 0 = some i := by
    intro p n i hi
    rcases p with _ | _
    · rw [axisStep_false, if_pos (by omega)]; simp
    · rw [axisStep_true, if_neg (by omega), if_neg (by omega)]; simp
  simp only [ax _ _ _ h1, ax _ _ _ h2, ax _ _ _ h3, combine, indexOf_gridPosition]

/-- `get_neighbours` (used to smooth the copy levels) lists exactly the face neighbours of the neighbour table,
in the order x-, x+, y-, y+, z-, z+ -/
theorem getNeighbours_faces (L : Layout) (hx : 0 < L.mx) (hy : 0 < L.my) (hz : 0 < L.mz) (s : Nat) (hs : s < L.size) :
    getNeighbours L s = [22, 21, 24, 23, 26, 25].filterMap (ngb L s) ∧
    dirNames.getD 22 "" = "FACE_X_N" ∧ dirNames.getD 21 "" = "FACE_X_P" ∧ dirNames.getD 24 "" = "FACE_Y_N"
      ∧ dirNames.getD 23 "" = "FACE_Y_P" ∧ dirNames.getD 26 "" = "FACE_Z_N" ∧ dirNames.getD 25 "" = "FACE_Z_P" :=
  ⟨getNeighbours_faces_aux L hx hy hz s hs, by decide⟩

/-- non-vacuity / the degenerate layouts: one subgrid on a periodic axis is its own neighbour in both
directions, two subgrids are each other's neighbour in both directions, and mutuality still holds -/
example : let L : Layout := ⟨1, 2, 3, 1, 1, 1, true, true, false⟩
    ngb L 0 21 = some 0 ∧ ngb L 0 22 = some 0 ∧ ngb L 0 23 = some 3 ∧ ngb L 0 24 = some 3 ∧ ngb L 0 26 = none
      ∧ ngb L 3 (outToInDir 23) = some 0 := by decide

/-! ## 3. copies -/

/-- number of subgrids after `create_copies`, and the shape of `_copies` / `_originals` -/
theorem copies_counts (L : Layout) (prev levels : List Nat) (hlen : levels.length = L.size) :
    let C := createCopies L prev levels
    C.rows.length = L.size + ((levels.map fun l => 2 ^ l - 1).sum) ∧ C.originals.length = C.rows.length - L.size
      ∧ C.copies.length = L.size := by
  simp only []
  rw [createCopies_rows_length, createCopies_originals, createCopies_copies, buildCopies_length]
  unfold buildOriginals
  rw [buildBlocks_length]
  have e : pre levels levels.length = (levels.map fun l => 2 ^ l - 1).sum := by
    unfold pre; rw [List.take_length]; rfl
  rw [e]; exact ⟨rfl, by omega, hlen⟩

/-- **copies_wiring.**  For every layout, every assignment of copy levels and every previous content of
`_copies`: take the `k`-th copy (1 ≤ k < 2^level) of an original `s`.  Its table entry `INSIDE` is the copy
itself.  In every other direction `d`: if the original has no neighbour, neither has the copy; if the
original's neighbour is `t`, the copy's neighbour is member `c` of the family of `t` (`c = 0` the original `t`
itself, `c ≥ 1` its `c`-th copy) with `c < 2^level t`; that index is a valid subgrid index and the subgrid
there belongs to the original `t` (`_originals`). -/
theorem copies_wiring (L : Layout) (hx : 0 < L.mx) (hy : 0 < L.my) (hz : 0 < L.mz)
    (prev levels : List Nat) (hlen : levels.length = L.size)
    (s k d : Nat) (hs : s < L.size) (hk1 : 1 ≤ k) (hk : k < 2 ^ levels.getD s 0) (hd : d < 27) :
    let C := createCopies L prev levels
    let copy := member C.copies s k
    let e := (C.rows.getD copy []).getD d none
    copy < C.rows.length ∧ originalOf C copy = s ∧
    (d = 0 → e = some copy) ∧
    (d ≠ 0 → ngb L s d = none → e = none) ∧
    (d ≠ 0 → ∀ t, ngb L s d = some t →
      ∃ c, c < 2 ^ levels.getD t 0 ∧ e = some (member C.copies t c) ∧ member C.copies t c < C.rows.length
        ∧ originalOf C (member C.copies t c) = t) := by
  simp only []
  have hk' : k < nCopies (levels.getD s 0) := hk
  rw [row_member L prev levels hlen s k hs hk1 hk', copyRow_getD _ _ _ _ _ _ hd]
  refine ⟨?_, originalOf_member L prev levels hlen s k hs hk', ?_, ?_, ?_⟩
  · rw [createCopies_rows_length, createCopies_copies]
    exact member_lt _ prev levels s k (by omega) hk1 hk'
  · intro h0; subst h0
    simp only [copyEntry, ↓reduceIte, member]
    rw [if_neg (by omega)]
  · intro h0 hn
    simp only [copyEntry, h0, ↓reduceIte, hn]
  · intro h0 t ht
    have htl : t < L.size := ngb_lt L hx hy hz s d t hs hd ht
    obtain ⟨c, hc, he⟩ := copyEntry_spec levels (createCopies L prev levels).copies (ngb L) s k d t h0 ht hk1 hk'
    refine ⟨c, hc, he, ?_, originalOf_member L prev levels hlen t c htl hc⟩
    rw [createCopies_rows_length]
    by_cases hc0 : c = 0
    · subst hc0; simp only [member, ↓reduceIte]; omega
    · rw [createCopies_copies]
      exact member_lt _ prev levels t c (by omega) (by omega) hc

/-- **copies_wiring, onto part.**  When the neighbour `t` has at most as many copies as `s`, every member of
the family of `t` (the original and each copy) is the neighbour of some member of the family of `s`: no copy
of `t` is left without incoming packets from that side. -/
theorem copies_wiring_onto (L : Layout) (levels copies : List Nat) (s d t : Nat)
    (hd : d ≠ 0) (ht : ngb L s d = some t) (hle : levels.getD t 0 ≤ levels.getD s 0)
    (c : Nat) (hc : c < 2 ^ levels.getD t 0) :
    ∃ k, k < 2 ^ levels.getD s 0 ∧ familyNgb L levels copies s k d = some (member copies t c) :=
  copyEntry_onto L levels copies s d t hd ht hle c hc

/-- `familyNgb` is the table entry (ties the onto statement to the tables the code builds) -/
theorem familyNgb_is_table_entry (L : Layout) (prev levels : List Nat) (hlen : levels.length = L.size)
    (s k d : Nat) (hs : s < L.size) (hk : k < 2 ^ levels.getD s 0) (hd : d < 27) :
    let C := createCopies L prev levels
    (C.rows.getD (member C.copies s k) []).getD d none = familyNgb L levels C.copies s k d := by
  simp only []
  by_cases h0 : k = 0
  · subst h0
    simp only [member, ↓reduceIte, familyNgb]
    rw [row_original L prev levels s hs]; rfl
  · rw [row_member L prev levels hlen s k hs (by omega) hk, copyRow_getD _ _ _ _ _ _ hd]
    simp only [familyNgb, h0, ↓reduceIte]

/-- the originals keep their tables -/
theorem copies_leave_originals (L : Layout) (prev levels : List Nat) (s : Nat) (hs : s < L.size) :
    (createCopies L prev levels).rows.getD s [] = createSubgrid L s := row_original L prev levels s hs

/-- non-vacuity of `copies_wiring`: the pinned test's assignment (levels 1 and 2 on neighbouring subgrids
of a 4x4x8 layout) -/
example : let L : Layout := ⟨2, 1, 2, 1, 1, 1, false, false, true⟩
    let C := createCopies L (List.replicate 4 noCopy) [1, 2, 0, 0]
    C.copies = [4, 5, noCopy, noCopy] ∧ C.originals = [0, 1, 1, 1] ∧ C.rows.length = 8
      ∧ (C.rows.getD 4 []).getD 25 none = some 5 ∧ (C.rows.getD 6 []).getD 26 none = some 4 := by decide

/-! ## 4. folding the copies back -/

/-- **fold_once.**  `update_original_counters` (and `update_copy_properties`, the same walk) calls
`update_intensities(original, copy)` for exactly the pairs (`_originals[c - n]`, `c`), `c` running once
through all copies `n ≤ c < size` — every copy exactly once, under its own original, no original subgrid as
a copy.  Holds after `create_copies` and after any number of `update_copies` (`prev`: entries of `_copies`
left behind by an earlier assignment are old vector sizes, hence `≥ n`). -/
theorem fold_once (L : Layout) (prev levels : List Nat) (hlen : levels.length = L.size)
    (hprev : ∀ p ∈ prev, p = noCopy ∨ L.size ≤ p)
    (hbound : L.size + ((levels.map fun l => 2 ^ l - 1).sum) < noCopy) :
    let C := createCopies L prev levels
    foldVisits C = C.originals.zip (List.range' L.size C.originals.length) ∧
    (foldVisits C).map Prod.snd = List.range' L.size (C.rows.length - L.size) ∧
    (∀ v ∈ foldVisits C, originalOf C v.2 = v.1 ∧ v.1 < L.size ∧ L.size ≤ v.2 ∧ v.2 < C.rows.length) := by
  simp only []
  have hcounts := copies_counts L prev levels hlen
  simp only [] at hcounts
  have hmain : foldVisits (createCopies L prev levels)
      = (createCopies L prev levels).originals.zip (List.range' L.size (createCopies L prev levels).originals.length) := by
    unfold foldVisits
    rw [createCopies_copies, buildCopies_length, hlen, createCopies_originals]
    have h := foldVisitsFrom_spec L.size levels [] 0 prev (by simp) hprev (by
      simp only [List.length_nil, Nat.add_zero]
      have := hcounts.2.1; rw [hcounts.1, createCopies_originals] at this; omega)
    simpa using h
  refine ⟨hmain, ?_, ?_⟩
  · rw [hmain, List.map_snd_zip (by simp), hcounts.2.1]
  · intro v hv
    rw [hmain] at hv
    obtain ⟨i, hi, hv1, hv2⟩ : ∃ i, i < (createCopies L prev levels).originals.length
        ∧ v.1 = (createCopies L prev levels).originals.getD i 0 ∧ v.2 = L.size + i := by
      obtain ⟨i, hi, he⟩ := List.getElem_of_mem hv
      simp only [List.length_zip, List.length_range', Nat.min_self] at hi
      refine ⟨i, hi, ?_, ?_⟩
      · rw [← he]; simp [List.getD_eq_getElem?_getD, hi]
      · rw [← he]; simp [List.getElem_range']
    have hlt : v.1 < L.size := by
      rw [hv1, createCopies_originals, List.getD_eq_getElem?_getD]
      rw [createCopies_originals] at hi
      have hmem : (buildOriginals 0 levels)[i] ∈ buildOriginals 0 levels := List.getElem_mem hi
      have := buildOriginals_lt 0 levels _ hmem
      simp only [hi, List.getElem?_eq_getElem, Option.getD_some]
      omega
    refine ⟨?_, hlt, by omega, by rw [hcounts.1]; have := hcounts.2.1; rw [hcounts.1] at this; omega⟩
    unfold originalOf
    rw [createCopies_copies, buildCopies_length, hlen, if_neg (by omega), hv2, hv1]
    congr 1; omega

/-- non-vacuity of `fold_once`, including entries of `_copies` left behind by an earlier assignment -/
example : let L : Layout := ⟨2, 1, 2, 1, 1, 1, false, false, true⟩
    foldVisits (createCopies L [4, 5, noCopy, noCopy] [0, 0, 2, 1]) = [(2, 4), (2, 5), (2, 6), (3, 7)] := by decide


/-- **fold_once over any history.**  The hypothesis of `fold_once` about entries of `_copies` left behind is
not an assumption: after the constructor and ANY sequence of level assignments (`create_copies` once,
`update_copies` afterwards) every entry of `_copies` is `0xffffffff` or an old vector size `≥ n`
(`copiesAfter_inv`), so the fold visits every copy of the newest assignment exactly once under its own
original. -/
theorem fold_once_history (L : Layout) (hist : List (List Nat)) (levels : List Nat) (hlen : levels.length = L.size)
    (hbound : L.size + ((levels.map fun l => 2 ^ l - 1).sum) < noCopy) :
    let C := createCopies L (copiesAfter L hist) levels
    C.copies = copiesAfter L (hist ++ [levels]) ∧
    foldVisits C = C.originals.zip (List.range' L.size C.originals.length) ∧
    (foldVisits C).map Prod.snd = List.range' L.size (C.rows.length - L.size) ∧
    (∀ v ∈ foldVisits C, originalOf C v.2 = v.1 ∧ v.1 < L.size ∧ L.size ≤ v.2 ∧ v.2 < C.rows.length) := by
  refine ⟨?_, fold_once L (copiesAfter L hist) levels hlen (copiesAfter_inv L hist) hbound⟩
  simp [copiesAfter, createCopies_copies]

/-- **fold_cells.**  Cell level of "folding duplicates back adds every contribution exactly once".  Every
subgrid holds one counter per cell (`mx·my·mz` of them).  After `update_original_counters` (the fold walk with
`update_intensities`, whose loop runs over `_number_of_cells[3] * _number_of_cells[0]` cells) cell `j` of the
original `s` holds its own counter plus the counter of cell `j` of each of its copies — the copies of `s` are
the subgrids `n + k` with `_originals[k] = s`, each taken once — for EVERY cell `j` of the subgrid, and the
copies are unchanged. -/
theorem fold_cells (L : Layout) (prev levels : List Nat) (hlen : levels.length = L.size)
    (hprev : ∀ p ∈ prev, p = noCopy ∨ L.size ≤ p)
    (hbound : L.size + ((levels.map fun l => 2 ^ l - 1).sum) < noCopy)
    (cells : List (List Nat)) (hcl : cells.length = (createCopies L prev levels).rows.length)
    (hM : ∀ i, i < cells.length → (cells.getD i []).length = L.mx * L.my * L.mz) :
    let C := createCopies L prev levels
    (∀ s, s < L.size → ∀ j, j < L.mx * L.my * L.mz →
      ((foldCells L C cells).getD s []).getD j 0
        = (cells.getD s []).getD j 0
          + (((C.originals.zip (List.range' L.size C.originals.length)).filter (fun v => v.1 = s)).map
              (fun v => (cells.getD v.2 []).getD j 0)).sum) ∧
    (∀ i, L.size ≤ i → (foldCells L C cells).getD i [] = cells.getD i []) := by
  intro C
  show _ ∧ _
  simp only [C]
  obtain ⟨hmain, _, hvis⟩ := fold_once L prev levels hlen hprev hbound
  try simp only [] at hmain hvis
  have hcounts := copies_counts L prev levels hlen
  try simp only [] at hcounts
  have hN : L.size ≤ cells.length := by rw [hcl, hcounts.1]; omega
  have hgen := foldl_visits L L.size (foldVisits (createCopies L prev levels)) cells hN
    (fun v hv => ⟨(hvis v hv).2.1, (hvis v hv).2.2.1⟩)
  have htot : L.totNcell = L.mx * L.my * L.mz := by unfold Layout.totNcell; ring
  constructor
  · intro s hs j hj
    unfold foldCells
    rw [hgen s, if_pos hs, foldl_updateIntensities_getD L _ _ j (by rw [hM s (by omega)]; exact hj) (by rw [htot]; exact hj),
      List.map_map, hmain]
    rfl
  · intro i hi
    unfold foldCells
    rw [hgen i, if_neg (by omega)]

/-- **push_cells.**  "Push the new state to the copies": after `update_copy_properties` (the same walk with
`update_neutral_fractions`) every copy holds, in EVERY cell, the state of its own original, and the originals
are unchanged. -/
theorem push_cells (L : Layout) (prev levels : List Nat) (hlen : levels.length = L.size)
    (hprev : ∀ p ∈ prev, p = noCopy ∨ L.size ≤ p)
    (hbound : L.size + ((levels.map fun l => 2 ^ l - 1).sum) < noCopy)
    (cells : List (List Nat)) (hcl : cells.length = (createCopies L prev levels).rows.length)
    (hM : ∀ i, i < cells.length → (cells.getD i []).length = L.mx * L.my * L.mz) :
    let C := createCopies L prev levels
    (∀ i, L.size ≤ i → i < C.rows.length → (pushCells L C cells).getD i [] = cells.getD (originalOf C i) []) ∧
    (∀ s, s < L.size → (pushCells L C cells).getD s [] = cells.getD s []) := by
  intro C
  show _ ∧ _
  simp only [C]
  obtain ⟨hmain, hsnd, hvis⟩ := fold_once L prev levels hlen hprev hbound
  try simp only [] at hmain hsnd hvis
  have htot : L.totNcell = L.mx * L.my * L.mz := by unfold Layout.totNcell; ring
  have hnd : ((foldVisits (createCopies L prev levels)).map Prod.snd).Nodup := by
    rw [hsnd]; exact List.nodup_range' ..
  obtain ⟨h1, h2⟩ := foldl_push L L.size (foldVisits (createCopies L prev levels)) cells
    (fun v hv => ⟨(hvis v hv).2.1, (hvis v hv).2.2.1, by rw [hcl]; exact (hvis v hv).2.2.2⟩) hnd
  constructor
  · intro i hi hlt
    have hmem : i ∈ (foldVisits (createCopies L prev levels)).map Prod.snd := by
      rw [hsnd, List.mem_range']; exact ⟨i - L.size, by omega, by omega⟩
    obtain ⟨v, hv, rfl⟩ := List.mem_map.mp hmem
    have hvv := hvis v hv
    unfold pushCells
    rw [h1 v hv, hvv.1, updateNeutralFractions_eq L _ _ (by rw [hM _ (by rw [hcl]; exact hvv.2.2.2), htot])
      (by rw [hM _ (by rw [hcl]; omega), htot])]
  · intro s hs
    unfold pushCells
    exact h2 s (fun v hv h => by have := (hvis v hv).2.2.1; omega)

/-- non-vacuity of `fold_cells` / `push_cells`: 2x1x2 subgrids of 1x2x1 cells, levels 0 0 2 1 -/
example : let L : Layout := ⟨2, 1, 2, 1, 2, 1, false, false, true⟩
    let C := createCopies L (List.replicate 4 noCopy) [0, 0, 2, 1]
    foldCells L C [[1, 2], [3, 4], [5, 6], [7, 8], [10, 20], [30, 40], [50, 60], [70, 80]]
        = [[1, 2], [3, 4], [95, 126], [77, 88], [10, 20], [30, 40], [50, 60], [70, 80]]
    ∧ pushCells L C [[1, 2], [3, 4], [5, 6], [7, 8], [10, 20], [30, 40], [50, 60], [70, 80]]
        = [[1, 2], [3, 4], [5, 6], [7, 8], [5, 6], [5, 6], [5, 6], [7, 8]] := by decide


/-! ## 5. the hand-over -/

section position
variable {K : Type} [Field K] [CharZero K]

/-- **handover_position.**  Box anchor `A`, subgrid sides `S`, cell sizes `hc = S / m` (componentwise).  A
packet leaves subgrid `s` through `d` into `t = get_neighbour(d)`, sitting on every wall it crosses
(`hexit`; on the other axes anywhere).  Let `P` be its position.  What `interact` in `t` starts from —
`P - anchor t`, then `update_photon_position(output_to_input_direction(d))`, seen in absolute coordinates
— is `P` again on every axis, up to one whole box length `n·S` on an axis that is periodic and wrapped. -/
theorem handover_position (L : Layout) (hx : 0 < L.mx) (hy : 0 < L.my) (hz : 0 < L.mz)
    (s d t : Nat) (hs : s < L.size) (hd : d < 27) (h : ngb L s d = some t)
    (A S hc loc : K × K × K)
    (hcell : ∀ ax, ax < 3 → compK hc ax = compK S ax / (axM L ax : K))
    (hexit : ∀ ax, ax < 3 → (comp (offsetOf d) ax = 1 → compK loc ax = (axM L ax : K) * compK hc ax)
        ∧ (comp (offsetOf d) ax = -1 → compK loc ax = 0))
    (ax : Nat) (hax : ax < 3) :
    let anchor := fun (u : Nat) (b : Nat) => compK A b + (posAx (gridPosition L u) b : K) * compK S b
    let P := fun b => anchor s b + compK loc b
    let rel : K × K × K := (P 0 - anchor t 0, P 1 - anchor t 1, P 2 - anchor t 2)
    let Q := anchor t ax + compK (updatePosition (outToInDir d) ((L.mx : K), (L.my : K), (L.mz : K)) hc rel) ax
    ∃ w : Int, (w = 0 ∨ (axP L ax = true ∧ (w = 1 ∨ w = -1))) ∧ Q = P ax + (w : K) * ((axN L ax : K) * compK S ax) := by
  intro anchor P rel Q
  have hstep := ngb_axis L hx hy hz s d t hd h ax hax
  have hi := posAx_lt L s hs ax hax
  have hm := axM_pos L hx hy hz ax
  have ha := comp_small d hd ax
  have hcls : pinAt (outToInDir d) ax = clsOfOffset (-(comp (offsetOf d) ax)) := by
    rw [(classes_agree_with_offset _ (outToIn_lt d hd) ax hax).1, comp_outToIn d hd]
  have hmain := handover_position_axis (axP L ax) (axN L ax) (axM L ax) (posAx (gridPosition L s) ax)
    (posAx (gridPosition L t) ax) (comp (offsetOf d) ax) (compK A ax) (compK S ax) (compK hc ax) (compK loc ax)
    hi hm (hcell ax hax) ha (hexit ax hax) hstep
  have hQ : Q = P ax + (((posAx (gridPosition L t) ax : Int) - ((posAx (gridPosition L s) ax : Int) + comp (offsetOf d) ax) : Int) : K)
      * compK S ax := by
    have e1 : compK ((L.mx : K), (L.my : K), (L.mz : K)) ax = (axM L ax : K) := by
      rcases (by omega : ax = 0 ∨ ax = 1 ∨ ax = 2) with rfl | rfl | rfl <;> rfl
    have e2 : compK rel ax = P ax - anchor t ax := by
      rcases (by omega : ax = 0 ∨ ax = 1 ∨ ax = 2) with rfl | rfl | rfl <;> rfl
    show anchor t ax + compK (updatePosition _ _ _ _) ax = _
    rw [compK_updatePosition _ _ _ _ ax hax, hcls, e1, e2]
    exact hmain
  rcases wrap_amount (axP L ax) (axN L ax) _ _ _ hi ha hstep with hw | ⟨hp, hw | hw⟩
  · exact ⟨0, Or.inl rfl, by rw [hQ, hw]; simp⟩
  · exact ⟨1, Or.inr ⟨hp, Or.inl rfl⟩, by rw [hQ, hw]; push_cast; ring⟩
  · exact ⟨-1, Or.inr ⟨hp, Or.inr rfl⟩, by rw [hQ, hw]; push_cast; ring⟩
end position

/-- **handover_cell.**  The march in subgrid `s` stepped to the local cell index `idx` (each component in
`[-1, m]`, i.e. at most one cell outside).  `d = get_output_direction(idx)` is a direction whose offset is the
exit class of `idx`.  If `s` has a neighbour `t` in that direction, the cell in which the march restarts
there (`get_start_index` with input direction `output_to_input_direction(d)`; on an axis that is not crossed
the computed index is the current one) is, on every axis, the cell `(pos s)·m + idx` of the undivided grid —
wrapped to the other end on a periodic axis (`wrapAxis` on the undivided grid is what the single-block run
does) and inside the undivided grid.  If there is no neighbour, the index is outside the undivided grid on
a non-periodic axis: the packet leaves the box in both runs. -/
theorem handover_cell (L : Layout) (hx : 0 < L.mx) (hy : 0 < L.my) (hz : 0 < L.mz)
    (s : Nat) (hs : s < L.size) (idx : Int × Int × Int)
    (hidx : ∀ ax, ax < 3 → -1 ≤ comp idx ax ∧ comp idx ax ≤ (axM L ax : Int)) :
    let d := (outputDirection L.cells idx).toNat
    d < 27 ∧ (∀ ax, ax < 3 → comp (offsetOf d) ax = exitClass (axM L ax) (comp idx ax)) ∧
    (∀ t, ngb L s d = some t → ∀ ax, ax < 3 →
      let g := (posAx (gridPosition L s) ax : Int) * (axM L ax : Int) + comp idx ax
      (posAx (gridPosition L t) ax : Int) * (axM L ax : Int) + comp (startIndex (outToInDir d) L.cells idx) ax
          = wrapAxis (axP L ax) (axN L ax * axM L ax) g
        ∧ 0 ≤ wrapAxis (axP L ax) (axN L ax * axM L ax) g
        ∧ wrapAxis (axP L ax) (axN L ax * axM L ax) g < ((axN L ax * axM L ax : Nat) : Int)) ∧
    (ngb L s d = none → ∃ ax, ax < 3 ∧ axP L ax = false ∧
      ((posAx (gridPosition L s) ax : Int) * (axM L ax : Int) + comp idx ax < 0
        ∨ ((axN L ax * axM L ax : Nat) : Int) ≤ (posAx (gridPosition L s) ax : Int) * (axM L ax : Int) + comp idx ax)) := by
  intro d
  set o : Int × Int × Int := (exitClass L.mx idx.1, exitClass L.my idx.2.1, exitClass L.mz idx.2.2) with ho
  have homem : o ∈ loopOffsets := small_mem_loopOffsets _ _ _ (exitClass_small _ _) (exitClass_small _ _) (exitClass_small _ _)
  have hd_eq : d = dirOfOffset o := by
    show (outputDirection L.cells idx).toNat = _
    rw [outputDirection_exitClass L.cells hx hy hz idx]
    show (maskDir (maskOfOffset o)).toNat = _
    rw [maskDir_offset_nonneg o homem]; simp
  have hd : d < 27 := by rw [hd_eq]; exact dirOfOffset_lt o homem
  have hoff : offsetOf d = o := by rw [hd_eq]; exact offsetOf_dirOfOffset o homem
  have hcomp : ∀ ax, ax < 3 → comp (offsetOf d) ax = exitClass (axM L ax) (comp idx ax) := by
    intro ax hax; rw [hoff]
    rcases (by omega : ax = 0 ∨ ax = 1 ∨ ax = 2) with rfl | rfl | rfl <;> rfl
  have hstart : ∀ ax, ax < 3 → comp (startIndex (outToInDir d) L.cells idx) ax
      = startIndexAxis (clsOfOffset (-(exitClass (axM L ax) (comp idx ax)))) (axM L ax) (comp idx ax) := by
    intro ax hax
    have e : comp (startIndex (outToInDir d) L.cells idx) ax
        = startIndexAxis (idxClassAt (outToInDir d) ax) (axM L ax) (comp idx ax) := by
      rcases (by omega : ax = 0 ∨ ax = 1 ∨ ax = 2) with rfl | rfl | rfl <;> rfl
    rw [e, (classes_agree_with_offset _ (outToIn_lt d hd) ax hax).2, comp_outToIn d hd, hcomp ax hax]
  refine ⟨hd, hcomp, ?_, ?_⟩
  · intro t ht ax hax g
    have hstep := ngb_axis L hx hy hz s d t hd ht ax hax
    rw [hcomp ax hax] at hstep
    have := (handover_cell_axis (axP L ax) (axN L ax) (axM L ax) (posAx (gridPosition L s) ax) (comp idx ax)
      (posAx_lt L s hs ax hax) (axM_pos L hx hy hz ax) (hidx ax hax)).1 _ hstep
    rw [hstart ax hax]
    exact this
  · intro hn
    rcases ngb_none_axes L hx hy hz s d hd hn with h1 | h1 | h1
    · refine ⟨0, by decide, ?_⟩
      have e := hcomp 0 (by decide)
      simp only [comp] at e
      rw [e] at h1
      exact (handover_cell_axis L.px L.nx L.mx _ idx.1 (gridPosition_lt L s hs).1 hx (hidx 0 (by decide))).2 h1
    · refine ⟨1, by decide, ?_⟩
      have e := hcomp 1 (by decide)
      simp only [comp] at e
      rw [e] at h1
      exact (handover_cell_axis L.py L.ny L.my _ idx.2.1 (gridPosition_lt L s hs).2.1 hy (hidx 1 (by decide))).2 h1
    · refine ⟨2, by decide, ?_⟩
      have e := hcomp 2 (by decide)
      simp only [comp] at e
      rw [e] at h1
      exact (handover_cell_axis L.pz L.nz L.mz _ idx.2.2 (gridPosition_lt L s hs).2.2 hz (hidx 2 (by decide))).2 h1

/-- non-vacuity of `handover_cell`: leaving the last subgrid of a periodic axis of two subgrids through the
upper x face and the lower y edge -/
example : let L : Layout := ⟨2, 2, 1, 3, 3, 3, true, false, false⟩
    (outputDirection L.cells (3, -1, 1)).toNat = 18 ∧ ngb L 3 18 = some 0
      ∧ startIndex (outToInDir 18) L.cells (3, -1, 1) = (0, 2, 1) := by decide


/-! ## 6. split invariance -/

section split
variable {P σ δ M O : Type} [AddCommMonoid M]

/-- the same grid as a single block -/
def wholeLayout (L : Layout) : Layout := ⟨1, 1, 1, L.nx * L.mx, L.ny * L.my, L.nz * L.mz, L.px, L.py, L.pz⟩

/-- What a ray-march model (C02, `Model/RayMarch.lean`) has to provide for every layout: one cell step of
`interact` in subgrid `s`, the re-entry computation, the contribution of a deposit to the per-cell totals,
where a packet `pk` (absolute position, direction, optical depth) starts, and what is observed at the end
(absorbed / escaped, final position, remaining optical depth). -/
structure MarchModel (P σ δ M O : Type) where
  localStep : Layout → Nat → σ → LocalStep σ δ
  enter : Layout → Nat → Nat → σ → σ
  val : Layout → Nat → δ → M
  start : Layout → P → ChainState σ
  outcome : Layout → ChainState σ → O

def MarchModel.step (mm : MarchModel P σ δ M O) (L : Layout) : ChainState σ → Option (M × ChainState σ) :=
  splitStep L (mm.localStep L) (mm.enter L) (mm.val L)

/-- split invariance for one layout: whenever the chained run through the subgrids of `L` is over within
`f` steps, so is the run through the same grid as one block, with the same per-cell totals and the same
observed outcome -/
def SplitInvariantOn (mm : MarchModel P σ δ M O) (L : Layout) : Prop :=
  ∀ (pk : P) (f : Nat), Halts (mm.step L) f (mm.start L pk) →
    Halts (mm.step (wholeLayout L)) f (mm.start (wholeLayout L) pk) ∧
    (runSum (mm.step L) f (mm.start L pk)).1 = (runSum (mm.step (wholeLayout L)) f (mm.start (wholeLayout L) pk)).1 ∧
    mm.outcome L (runSum (mm.step L) f (mm.start L pk)).2
      = mm.outcome (wholeLayout L) (runSum (mm.step (wholeLayout L)) f (mm.start (wholeLayout L) pk)).2

/-- **split_invariance — abstract statement** (for any march model; proved for C02's model in section 7,
`split_invariance`, in the corrected form "whenever both runs are over": the undivided run can need MORE
steps than the split run, so "over within the same `f`" as written in `SplitInvariantOn` is too strong).  For the ray-march model of C02 (exact
arithmetic) and every layout with at least one cell per subgrid, chained subgrid marches give the same
per-cell totals, absorption/escape decision and final position as the march over the undivided grid.
(Totals, not deposit lists: after re-entering exactly on a cell wall while moving in the negative direction
the split run makes one extra deposit of length zero.) -/
def SplitInvariance (mm : MarchModel P σ δ M O) : Prop :=
  ∀ L : Layout, 0 < L.mx → 0 < L.my → 0 < L.mz → 0 < L.size → SplitInvariantOn mm L

/-- **split_invariance_partial.**  Split invariance for the layout `L` follows from the single-step
commutation hypothesis `StepCommutes` for a state correspondence `R` that holds initially and determines the
observed outcome.  The hypothesis is what the ray-march model has to discharge: a cell step in a subgrid is
the cell step of the undivided grid under the index embedding (its discrete and exact-arithmetic content at
a hand-over is `handover_cell` and `handover_position`, the wiring facts are `neighbour_geometric` /
`neighbour_mutual`), or deposits nothing. -/
theorem split_invariance_partial (mm : MarchModel P σ δ M O) (L : Layout)
    (R : ChainState σ → ChainState σ → Prop)
    (hstep : StepCommutes (mm.step L) (mm.step (wholeLayout L)) R)
    (hstart : ∀ pk, R (mm.start L pk) (mm.start (wholeLayout L) pk))
    (hout : ∀ a b, R a b → mm.outcome L a = mm.outcome (wholeLayout L) b) :
    SplitInvariantOn mm L := by
  intro pk f hh
  obtain ⟨h1, h2, h3⟩ := sim_totals (mm.step L) (mm.step (wholeLayout L)) R hstep f _ _ (hstart pk) hh
  exact ⟨h3, h1, hout _ _ h2⟩

theorem split_invariance_of_step_commutes (mm : MarchModel P σ δ M O)
    (h : ∀ L : Layout, 0 < L.mx → 0 < L.my → 0 < L.mz → 0 < L.size →
      ∃ R, StepCommutes (mm.step L) (mm.step (wholeLayout L)) R ∧ (∀ pk, R (mm.start L pk) (mm.start (wholeLayout L) pk))
        ∧ (∀ a b, R a b → mm.outcome L a = mm.outcome (wholeLayout L) b)) :
    SplitInvariance mm := by
  intro L hx hy hz hs
  obtain ⟨R, h1, h2, h3⟩ := h L hx hy hz hs
  exact split_invariance_partial mm L R h1 h2 h3

/-- the chained run stops exactly in the states "absorbed" and "escaped" -/
theorem splitStep_none_iff (L : Layout) (localStep : Nat → σ → LocalStep σ δ) (enter : Nat → Nat → σ → σ)
    (val : Nat → δ → M) (x : ChainState σ) :
    splitStep L localStep enter val x = none ↔ ∀ s st, x ≠ .inGrid s st := by
  unfold splitStep
  cases x with
  | inGrid s st =>
    simp only [chainStep, ne_eq, Option.map_eq_none_iff]
    constructor
    · intro h; exfalso
      cases hl : localStep s st with
      | move dep st' => simp [hl] at h
      | absorbed dep st' => simp [hl] at h
      | exit dep d st' => cases hn : ngb L s d <;> simp [hl, hn] at h
    · intro h; exact absurd rfl (h s st)
  | absorbedIn s st => simp [chainStep]
  | escaped s d st => simp [chainStep]
end split

/-- non-vacuity of `split_invariance_partial`: the hypotheses are satisfiable — a toy march that crosses `k`
cells depositing 1 in each and is then absorbed, on a layout of two subgrids, with equality as correspondence -/
example : ∃ (mm : MarchModel Nat Nat Nat Nat Nat) (L : Layout) (R : ChainState Nat → ChainState Nat → Prop),
    StepCommutes (mm.step L) (mm.step (wholeLayout L)) R ∧ (∀ pk, R (mm.start L pk) (mm.start (wholeLayout L) pk))
      ∧ (∀ a b, R a b → mm.outcome L a = mm.outcome (wholeLayout L) b)
      ∧ (runSum (mm.step L) 10 (mm.start L 3)).1 = 4 := by
  refine ⟨⟨fun _ _ st => if st = 0 then .absorbed 1 st else .move 1 (st - 1), fun _ _ _ st => st, fun _ _ d => d,
            fun _ pk => .inGrid 0 pk, fun _ _ => 0⟩,
          ⟨2, 1, 1, 1, 1, 1, false, false, false⟩, Eq, ?_, fun _ => rfl, fun _ _ _ => rfl, by decide⟩
  have hfun : ∀ x : ChainState Nat,
      splitStep (⟨2, 1, 1, 1, 1, 1, false, false, false⟩ : Layout)
          (fun _ st => if st = 0 then LocalStep.absorbed (1 : Nat) st else .move 1 (st - 1)) (fun _ _ st => st) (fun _ d => d) x
        = splitStep (wholeLayout ⟨2, 1, 1, 1, 1, 1, false, false, false⟩)
          (fun _ st => if st = 0 then LocalStep.absorbed (1 : Nat) st else .move 1 (st - 1)) (fun _ _ st => st) (fun _ d => d) x := by
    intro x
    cases x with
    | inGrid s st => unfold splitStep chainStep; by_cases h : st = 0 <;> simp [h]
    | absorbedIn s st => rfl
    | escaped s d st => rfl
  constructor
  · intro a b hR ha; subst hR
    exact (hfun a).symm.trans ha
  · intro a b m a' hR ha; subst hR
    exact Or.inl ⟨a', (hfun a).symm.trans ha, rfl⟩


/-! ## 7. split invariance for C02's ray march (full theorem) -/

section full
set_option linter.unusedSectionVars false
open CMacVerif.RayMarch CMacVerif.Split
variable {K : Type} [Field K] [LinearOrder K] [IsStrictOrderedRing K]

/-- the `MarchModel` of section 6 filled in with C02's model of `DensitySubGrid::interact`
(`Model/RayMarch.lean`): one loop pass `step` in the block of subgrid `s`, re-entry `initSt`, deposits = the
path length at the global cell, start = `get_subgrid(position)` + `initSt … INSIDE` -/
def rayModel (g : Geom K) (field : Int × Int × Int → Cell K) :
    MarchModel (Photon K) (Photon K × St K) (Visit K) (Int × Int × Int → K) Unit where
  localStep := localStep g field
  enter := enterStep g
  val := valOf
  start := fun L pk => startOf g L pk
  outcome := fun _ _ => ()

theorem rayModel_step (g : Geom K) (field : Int × Int × Int → Cell K) (L : Layout) :
    (rayModel g field).step L = aStep g field L := rfl

theorem wholeLayout_eq (L : Layout) : wholeLayout L = whole L := rfl

/-- the cell step of the chained run in subgrid `s` IS C02's `step` on the block `create_subgrid` builds
(cell size `h`, anchor = box anchor + offset of the subgrid), which in exact arithmetic is C02's `mkBlock`
of that anchor with side `m·h` -/
theorem blockOf_is_mkBlock (g : Geom K) (L : Layout) (s : Nat) (hm : ∀ a, 0 < (mV L).get a) (a : Ax) :
    (blockOf g L s).cs.get a
        = (mkBlock (blockOf g L s).anchor (V3.of fun a => ((mV L).get a : K) * g.h.get a) (mV L)).cs.get a
    ∧ (blockOf g L s).inv.get a
        = (mkBlock (blockOf g L s).anchor (V3.of fun a => ((mV L).get a : K) * g.h.get a) (mV L)).inv.get a := by
  have hmK : ((mV L).get a : K) ≠ 0 := by exact_mod_cast (hm a).ne'
  simp only [blockOf, mkBlock, V3.get_of, ofNat_eq]
  constructor
  · field_simp
  · by_cases hh : g.h.get a = 0
    · simp [hh]
    · field_simp

/-- **split_invariance (full theorem).**  Exact arithmetic over any linearly ordered field.  For every
layout `L` (any number of subgrids and cells per subgrid, any periodicity), any cell contents with
non-negative opacity, every packet that starts inside the box with a non-zero direction (`Ok`: C02's
standing assumptions incl. the `DBL_MAX` sentinel condition; `StartInside`): whenever the chained run
through the subgrids of `L` — C02's loop pass `step` and entry code `initSt` in every subgrid, C03's
hand-over through `get_neighbour` / `output_to_input_direction` — and the run through the same grid as ONE
block are both over, they have deposited the same total path length in every cell of the grid and ended
the same way (both absorbed or both escaped, same remaining optical depth, same point — up to whole box
lengths on periodic axes).  This includes the zero-length extra deposits the split run makes after an index
was recomputed on a cell wall (`Split.step_stutter`); the single-step commutation hypothesis of
`split_invariance_partial` is discharged by `Split.step_commutes`. -/
theorem split_invariance (g : Geom K) (L : Layout) (field : Int × Int × Int → Cell K) (pk : Photon K)
    (hok : Ok g L field pk) (hn : ∀ a, 0 < (nV L).get a) (hs : StartInside g L pk) (f f' : Nat)
    (hA : Halts ((rayModel g field).step L) f ((rayModel g field).start L pk))
    (hB : Halts ((rayModel g field).step (wholeLayout L)) f' ((rayModel g field).start (wholeLayout L) pk)) :
    (runSum ((rayModel g field).step L) f ((rayModel g field).start L pk)).1
        = (runSum ((rayModel g field).step (wholeLayout L)) f' ((rayModel g field).start (wholeLayout L) pk)).1
    ∧ FinalAgree (envOf g L field pk) (runSum ((rayModel g field).step L) f ((rayModel g field).start L pk)).2
        (runSum ((rayModel g field).step (wholeLayout L)) f' ((rayModel g field).start (wholeLayout L) pk)).2 :=
  Split.split_invariance hok hn hs f f' hA hB

/-- **split_invariance with termination transfer.**  Same assumptions.  If the chained run through the
subgrids of `L` is over within `f` steps, then the run through the same grid as one block is over as well —
after some `f'` steps, in general a different number: the undivided run can need more steps, e.g. one
zero-length pass after its own periodic wrap where the split run pinned the coordinate — and both have the
same per-cell totals and the same end.  (Uses that the chained run makes at most two zero-length passes in
a row: `Split.rank`, `Split.step_stutter`.) -/
theorem split_invariance_halts (g : Geom K) (L : Layout) (field : Int × Int × Int → Cell K) (pk : Photon K)
    (hok : Ok g L field pk) (hn : ∀ a, 0 < (nV L).get a) (hs : StartInside g L pk) (f : Nat)
    (hA : Halts ((rayModel g field).step L) f ((rayModel g field).start L pk)) :
    ∃ f', Halts ((rayModel g field).step (wholeLayout L)) f' ((rayModel g field).start (wholeLayout L) pk)
      ∧ (runSum ((rayModel g field).step L) f ((rayModel g field).start L pk)).1
          = (runSum ((rayModel g field).step (wholeLayout L)) f' ((rayModel g field).start (wholeLayout L) pk)).1
      ∧ FinalAgree (envOf g L field pk) (runSum ((rayModel g field).step L) f ((rayModel g field).start L pk)).2
          (runSum ((rayModel g field).step (wholeLayout L)) f' ((rayModel g field).start (wholeLayout L) pk)).2 :=
  Split.split_invariance_halts hok hn hs f hA

/-- **split_invariance_copies.**  The duplicate clause of the property for the march itself.  Assumptions of
`split_invariance`; any assignment of copy levels (`create_copies`, or `update_copies` on any previous
`_copies`), every copy holding the cell contents of its original (`push_cells`), the packet starting in ANY
member `k0 < 2^level` of the family of its start subgrid.  The chained run follows the neighbour tables of
`create_copies` through originals and copies (`Split.aStepC`; by `copies_wiring` every step stays in the family
of the geometric neighbour) and deposits in whatever copy it is; the totals count each deposit for the cell of
the ORIGINAL, which is what the counters hold after `update_original_counters` (`fold_cells`).  If that run is
over, the run through the same grid as one block is over as well, with the same per-cell totals and the same
end.  (Proof: relabelling copies by their originals maps the run, step by step and deposit by deposit, onto the
run through the originals alone — `Split.copies_square`.) -/
theorem split_invariance_copies (g : Geom K) (L : Layout) (field : Int × Int × Int → Cell K) (pk : Photon K)
    (hok : Ok g L field pk) (hn : ∀ a, 0 < (nV L).get a) (hs : StartInside g L pk)
    (prev levels : List Nat) (hlen : levels.length = L.size) (k0 : Nat)
    (hk0 : k0 < 2 ^ levels.getD (subgridOf g L pk.pos) 0) (f : Nat)
    (hA : Halts (aStepC g field L (createCopies L prev levels)) f (startOfC g L (createCopies L prev levels) pk k0)) :
    ∃ f', Halts ((rayModel g field).step (wholeLayout L)) f' ((rayModel g field).start (wholeLayout L) pk)
      ∧ (runSum (aStepC g field L (createCopies L prev levels)) f (startOfC g L (createCopies L prev levels) pk k0)).1
          = (runSum ((rayModel g field).step (wholeLayout L)) f' ((rayModel g field).start (wholeLayout L) pk)).1
      ∧ FinalAgree (envOf g L field pk)
          (proj (createCopies L prev levels)
            (runSum (aStepC g field L (createCopies L prev levels)) f (startOfC g L (createCopies L prev levels) pk k0)).2)
          (runSum ((rayModel g field).step (wholeLayout L)) f' ((rayModel g field).start (wholeLayout L) pk)).2 :=
  Split.split_invariance_copies hok hn hs prev levels hlen k0 hk0 f hA

/-- the commutation hypothesis of `split_invariance_partial`, discharged for C02's march against the
reference run on the unfolded lattice (one-sided: every pass of the chained run is a pass of the reference
run with the same deposit, or deposits nothing) -/
theorem step_commutes_rayModel (g : Geom K) (L : Layout) (field : Int × Int × Int → Cell K) (pk : Photon K)
    (hok : Ok g L field pk) :
    StepCommutes ((rayModel g field).step L) (cstep (envOf g L field pk)) (Split.R g (envOf g L field pk) L) :=
  Split.step_commutes hok

/-- every estimator a visit adds to a cell is a fixed multiple of its path length (C02, `visit`), so equal
path totals per cell give equal mean-intensity and heating totals per cell -/
theorem estimators_are_path_multiples (ph : Photon K) (i : V3 Int) (ac : Int) (dist : K) :
    (visit ph i ac dist).jH = dist * ph.sigH * ph.w ∧ (visit ph i ac dist).jHe = dist * ph.sigHe * ph.w
      ∧ (visit ph i ac dist).jX = dist * ph.sigX * ph.w
      ∧ (visit ph i ac dist).hH = dist * ph.sigH * ph.w * (ph.nu - 3.288e15)
      ∧ (visit ph i ac dist).hHe = dist * ph.sigHe * ph.w * (ph.nu - 5.948e15) := ⟨rfl, rfl, rfl, rfl, rfl⟩

end full

/-! non-vacuity of `split_invariance`: two one-cell subgrids against one two-cell block over ℚ; the
hypotheses hold, both runs are over after 3 resp. 2 steps, escaped, with path 1/2 and 1 in the two cells -/
section example_full
open CMacVerif.RayMarch CMacVerif.Split

def exL : Layout := ⟨2, 1, 1, 1, 1, 1, false, false, false⟩
def exG : Geom ℚ := ⟨⟨0, 0, 0⟩, ⟨1, 1, 1⟩⟩
def exF : Int × Int × Int → Cell ℚ := fun _ => ⟨1, 1, 0⟩
def exPk : Photon ℚ :=
  { pos := ⟨1 / 2, 1 / 2, 1 / 2⟩, dir := ⟨1, 0, 0⟩, tau := 10, sigH := 1, sigHe := 0, sigX := 0, w := 1, nu := 4 }

example : Ok exG exL exF exPk ∧ StartInside exG exL exPk := by
  refine ⟨⟨?_, ?_, ⟨.x, by decide +kernel⟩, ?_, ?_, by decide +kernel⟩, ⟨?_, ?_, ?_⟩⟩
  · intro a; cases a <;> decide +kernel
  · intro a; cases a <;> decide +kernel
  · intro a ha
    cases a
    · show (1 : ℚ) < dblMax * |(1 : ℚ)|
      unfold dblMax; norm_num
    · exact absurd rfl ha
    · exact absurd rfl ha
  · intro k; unfold kappa exF; norm_num [exPk]
  · intro a; cases a <;> decide +kernel
  · intro a; cases a <;> decide +kernel
  · intro a; cases a <;> decide +kernel

set_option maxRecDepth 100000 in
example :
    (aStep exG exF exL (runSum (aStep exG exF exL) 3 (startOf exG exL exPk)).2).isNone = true
    ∧ (aStep exG exF (whole exL) (runSum (aStep exG exF (whole exL)) 2 (startOf exG (whole exL) exPk)).2).isNone = true
    ∧ (runSum (aStep exG exF exL) 3 (startOf exG exL exPk)).1 (0, 0, 0) = 1 / 2
    ∧ (runSum (aStep exG exF exL) 3 (startOf exG exL exPk)).1 (1, 0, 0) = 1
    ∧ (runSum (aStep exG exF (whole exL)) 2 (startOf exG (whole exL) exPk)).1 (0, 0, 0) = 1 / 2
    ∧ (runSum (aStep exG exF (whole exL)) 2 (startOf exG (whole exL) exPk)).1 (1, 0, 0) = 1 := by
  decide +kernel

/-- non-vacuity of `split_invariance_copies`: the same grid with subgrid 0 duplicated once and subgrid 1 three
times, the packet starts in the copy of subgrid 0 and continues in a copy of subgrid 1 -/
example :
    let C := createCopies exL (List.replicate 2 noCopy) [1, 2]
    (aStepC exG exF exL C (runSum (aStepC exG exF exL C) 3 (startOfC exG exL C exPk 1)).2).isNone = true
    ∧ (runSum (aStepC exG exF exL C) 3 (startOfC exG exL C exPk 1)).1 (0, 0, 0) = 1 / 2
    ∧ (runSum (aStepC exG exF exL C) 3 (startOfC exG exL C exPk 1)).1 (1, 0, 0) = 1
    ∧ (match (runSum (aStepC exG exF exL C) 1 (startOfC exG exL C exPk 1)).2 with
        | .inGrid i _ => i
        | _ => 99) = 3 := by
  decide +kernel

end example_full

end CMacVerif.C03
