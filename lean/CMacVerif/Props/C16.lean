import CMacVerif.Lemmas.Morton
import CMacVerif.Lemmas.ShellsRange
import CMacVerif.Lemmas.Buckets
import CMacVerif.Lemmas.BucketsGeom
import CMacVerif.Lemmas.BucketsBuild
import CMacVerif.Lemmas.AMRGrid
import CMacVerif.Lemmas.CartesianRay
import CMacVerif.Lemmas.CartesianSeg
import CMacVerif.Lemmas.CartesianChord
import CMacVerif.Lemmas.AMRNgbs
import CMacVerif.Lemmas.Octree
import CMacVerif.Lemmas.OctreeFuel
/-!
# C16 — every position maps to exactly one cell; grid traversal conserves path

Property theorems only.  Models: `Model/Morton.lean`, `Model/Shells.lean`, `Model/AMRTree.lean`,
`Model/Cartesian.lean`, `Model/Buckets.lean`, `Model/AMRTraverse.lean`, `Model/Octree.lean` (numeric parts generic, instantiated at `ℝ` here).
Voronoi grids are not covered (C15, not applicable).
-/
namespace CMacVerif

/-! ## Morton keys (`MortonKeyGenerator::get_key`) -/
namespace Morton

/-- the loop of `get_key` computes the bit interleaving, and the interleaving is injective on
21-bit coordinates (a left inverse exists) -/
theorem morton_injective (x y z x' y' z' : Nat)
    (hx : x < 2 ^ 21) (hy : y < 2 ^ 21) (hz : z < 2 ^ 21)
    (hx' : x' < 2 ^ 21) (hy' : y' < 2 ^ 21) (hz' : z' < 2 ^ 21)
    (h : mortonKey x y z = mortonKey x' y' z') : x = x' ∧ y = y' ∧ z = z' := by
  rw [mortonKey_eq, mortonKey_eq] at h
  have h1 := unspread_spread 21 x y z
  have h2 := unspread_spread 21 x' y' z'
  rw [h, h2] at h1
  simp only [Prod.mk.injEq] at h1
  rw [Nat.mod_eq_of_lt hx, Nat.mod_eq_of_lt hy, Nat.mod_eq_of_lt hz, Nat.mod_eq_of_lt hx',
    Nat.mod_eq_of_lt hy', Nat.mod_eq_of_lt hz'] at h1
  omega

/-- the key is a 63-bit number -/
theorem morton_key_lt (x y z : Nat) : mortonKey x y z < 2 ^ 63 := by
  rw [mortonKey_eq]; exact lt_of_lt_of_eq (spread_lt 21 x y z) (by norm_num)

/-- the key is strictly monotone in every coordinate separately (the other two fixed) -/
theorem morton_monotone (x x' y y' z z' : Nat)
    (hx' : x' < 2 ^ 21) (hy' : y' < 2 ^ 21) (hz' : z' < 2 ^ 21) :
    (x < x' → mortonKey x y z < mortonKey x' y z) ∧
    (y < y' → mortonKey x y z < mortonKey x y' z) ∧
    (z < z' → mortonKey x y z < mortonKey x y z') := by
  simp only [mortonKey_eq]
  exact ⟨fun h => spread_strict_x 21 x x' y z h hx', fun h => spread_strict_y 21 x y y' z h hy',
    fun h => spread_strict_z 21 x y z z' h hz'⟩

/-- de-interleaving the key gives back the coordinates -/
theorem morton_roundtrip (x y z : Nat) (hx : x < 2 ^ 21) (hy : y < 2 ^ 21) (hz : z < 2 ^ 21) :
    unspread 21 (mortonKey x y z) = (x, y, z) := by
  rw [mortonKey_eq, unspread_spread, Nat.mod_eq_of_lt hx, Nat.mod_eq_of_lt hy, Nat.mod_eq_of_lt hz]

example : mortonKey 1 0 0 = 4 ∧ mortonKey 0 1 0 = 2 ∧ mortonKey 0 0 1 = 1 ∧
    mortonKey 2097151 2097151 2097151 = 2 ^ 63 - 1 := by decide

end Morton

/-! ## Shell enumeration of the bucket search (`increase_indices`, `set_max_range`) -/
namespace Shells

/-- `increase_indices`, iterated from the anchor block, visits every integer offset exactly
once; the level it reports is the max-norm of the offset (so level `L` yields exactly the
offsets of max-norm `L`, each once); levels never decrease. -/
theorem shells_exactly_once :
    (∀ x y z : Int, ∃! n : Nat, ((iter n).rx, (iter n).ry, (iter n).rz) = (x, y, z)) ∧
    (∀ n : Nat, (iter n).level = maxNorm (iter n).rx (iter n).ry (iter n).rz) ∧
    (∀ m n : Nat, m ≤ n → (iter m).level ≤ (iter n).level) := by
  refine ⟨?_, fun n => (good_iter n).symm, fun m n h => level_mono h⟩
  intro x y z
  obtain ⟨n, hn⟩ := iter_surjective ⟨x, y, z, maxNorm x y z⟩ rfl
  refine ⟨n, by show ((iter n).rx, (iter n).ry, (iter n).rz) = (x, y, z); rw [hn], ?_⟩
  intro n' hn'
  apply iter_injective
  have hg := good_iter n'
  unfold Good at hg
  simp only [Prod.mk.injEq] at hn'
  rw [hn]
  cases hi : iter n' with
  | mk a b c d =>
    rw [hi] at hn' hg; simp only at hn' hg
    obtain ⟨rfl, rfl, rfl⟩ := hn'
    rw [hg]

/-- level by level: the states produced with level `L` are exactly the offsets of max-norm `L` -/
theorem shell_level_iff (x y z L : Int) : (∃ n, iter n = ⟨x, y, z, L⟩) ↔ maxNorm x y z = L := by
  constructor
  · rintro ⟨n, hn⟩; have := good_iter n; rw [hn] at this; exact this
  · intro h; exact iter_surjective _ h

/-- the traversal is strictly increasing in the order (level, then lexicographic offset) -/
theorem shells_ordered (m n : Nat) (h : m < n) : Lt (iter m) (iter n) := iter_strictMono h

/-- `set_max_range` on a cubic bucket grid (`PointLocations` always builds `ncell_1D³`):
the returned offset lies inside the grid, is visited by the traversal, and every block inside
the grid is visited no later; the returned level is its level. -/
theorem max_range_is_last (ax ay az s : Int)
    (hx : 0 ≤ ax ∧ ax < s) (hy : 0 ≤ ay ∧ ay < s) (hz : 0 ≤ az ∧ az < s) :
    Inside ax ay az s s s (setMaxRange ax ay az s s s) ∧
    ∃ N : Nat, iter N = setMaxRange ax ay az s s s ∧
      ∀ n : Nat, Inside ax ay az s s s (iter n) → n ≤ N :=
  max_range_is_last_aux ax ay az s hx hy hz

/-- the statement needs the cubic grid: for a 5×1×3 grid and anchor (2,0,2) the C++ rule returns
(2,0,-2), but the block (2,0,0) lies inside the grid and comes later in the traversal -/
example : setMaxRange 2 0 2 5 1 3 = ⟨2, 0, -2, 2⟩ ∧ Inside 2 0 2 5 1 3 ⟨2, 0, 0, 2⟩ ∧
    Good ⟨2, 0, 0, 2⟩ ∧ Lt (setMaxRange 2 0 2 5 1 3) ⟨2, 0, 0, 2⟩ := by
  refine ⟨by decide, by unfold Inside; decide, by unfold Good maxNorm; decide, by unfold Lt; decide⟩

example : setMaxRange 6 9 9 10 10 10 = ⟨3, 0, -9, 9⟩ := by decide

/-- `increase_range`: from a block inside the grid that is not the last one, the skipping loop
stops (for every sufficiently large fuel) on the next block of the traversal that lies inside
the grid; the level grows by at most one. -/
theorem increase_range_next (ax ay az s : Int)
    (hx : 0 ≤ ax ∧ ax < s) (hy : 0 ≤ ay ∧ ay < s) (hz : 0 ≤ az ∧ az < s) (k : Nat)
    (hne : ¬ ((iter k).rx = (setMaxRange ax ay az s s s).rx ∧ (iter k).ry = (setMaxRange ax ay az s s s).ry
      ∧ (iter k).rz = (setMaxRange ax ay az s s s).rz))
    (hk : Inside ax ay az s s s (iter k)) :
    ∃ k' : Nat, k < k' ∧ Inside ax ay az s s s (iter k') ∧
      (∀ j, k < j → j < k' → ¬ Inside ax ay az s s s (iter j)) ∧
      (iter k').level ≤ (iter k).level + 1 ∧
      ∀ fuel, k' - k ≤ fuel →
        increaseRange ax ay az s s s (setMaxRange ax ay az s s s) fuel (iter k) = .next (iter k') :=
  increase_range_next_aux ax ay az s hx hy hz k hne hk

/-- on the last block `increase_range` returns false -/
theorem increase_range_end (ax ay az s : Int) (fuel : Nat) :
    increaseRange ax ay az s s s (setMaxRange ax ay az s s s) fuel (setMaxRange ax ay az s s s) = .atEnd := by
  unfold increaseRange; simp

end Shells
/-! ## AMR grid (`AMRGridCell`, `AMRGrid`) -/
namespace AMR
open CMacVerif.GridNum

/-- trees reachable from a freshly created block (`create_all_cells`) by refining leaves -/
inductive Reachable : Tree → Prop
  | full (n : Nat) : Reachable (full n)
  | refine (t : Tree) (π : List Nat) : Reachable t → π ∈ leafPaths t →
      Reachable (refine t (encodeKey π)).1

/-- key ↔ (level, path of child positions) is a bijection: a path of child indices is recovered
from its key; a number whose highest bit is a level marker (bit 3·level) is the key of its
decoded path; the 64-bit key splits into block indices (10 bits each) and the cell key -/
theorem amr_key_roundtrip :
    (∀ π : List Nat, (∀ i ∈ π, i < 8) → decodeKey (encodeKey π) = π ∧
        8 ^ π.length ≤ encodeKey π ∧ encodeKey π < 2 * 8 ^ π.length) ∧
    (∀ level k : Nat, 8 ^ level ≤ k → k < 2 * 8 ^ level →
        encodeKey (decodeKey k) = k ∧ ∀ i ∈ decodeKey k, i < 8) ∧
    (∀ ix iy iz cell : Nat, ix < 1024 → iy < 1024 → iz < 1024 → cell < 2 ^ 32 →
        blockOfKey (gridKey ix iy iz cell) = (ix, iy, iz) ∧ cellOfKey (gridKey ix iy iz cell) = cell ∧
        gridKey ix iy iz cell < 2 ^ 62) :=
  ⟨fun π h => ⟨decode_encode π h, encodeKey_bounds π h⟩,
   fun level k h1 h2 => ⟨encode_decode level k h1 h2, decodeKey_lt8 k⟩,
   fun ix iy iz cell => gridKey_roundtrip ix iy iz cell⟩

/-- `get_first_key` / `get_next_key` inside one block: for EVERY tree (in particular every tree
reachable by refinements) of depth ≤ 10 the loop `key = first; while (key != MAX) key = next(key)`
visits exactly the keys of the leaves, each once, in Morton order. -/
theorem amr_enumeration (t : Tree) (hd : depth t ≤ 10) (fuel : Nat) (hf : numLeaves t < fuel) :
    enumerate (fun k => nextKey t k 0) maxKey fuel (firstKey t 0) = leafKeys t 0 0 ∧
    leafKeys t 0 0 = (leafPaths t).map encodeKey ∧ (leafPaths t).Nodup ∧ (leafKeys t 0 0).Nodup ∧
    (leafKeys t 0 0).length = numLeaves t := by
  obtain ⟨hh, hc⟩ := nextKey_chain t 0 0 (by norm_num) (by omega)
  have hne : ∀ k ∈ leafKeys t 0 0, k ≠ maxKey := by
    intro k hk; have := leafKeys_lt t 0 0 k hk (by norm_num) (by omega); unfold maxKey; omega
  obtain ⟨k0, r, hks, he⟩ := enumerate_chain hc hne fuel (by rw [leafKeys_length]; exact hf)
  rw [hks] at hh; simp at hh
  refine ⟨?_, leafKeys_block t, leafPaths_nodup t, leafKeys_nodup t, leafKeys_length t⟩
  rw [← hh, he]

theorem amr_enumeration_reachable (t : Tree) (_ : Reachable t) (hd : depth t ≤ 10) :
    enumerate (fun k => nextKey t k 0) maxKey (numLeaves t + 1) (firstKey t 0) = leafKeys t 0 0 :=
  (amr_enumeration t hd _ (Nat.lt_succ_self _)).1

/-- refining a leaf replaces it by eight leaves: key of the first child, the refined cell, count -/
theorem amr_refine (t : Tree) (π : List Nat) (h : π ∈ leafPaths t) :
    (refine t (encodeKey π)).2 = encodeKey (π ++ [0]) ∧
    subtree (refine t (encodeKey π)).1 (encodeKey π) = some (.node fun _ => .leaf) ∧
    numLeaves (refine t (encodeKey π)).1 = numLeaves t + 7 := refine_spec t π h

/-- whole grid: `AMRGrid::get_first_key` / `get_next_key` visit every leaf of every block exactly
once (blocks in x, y, z order), for any number of blocks ≤ 1024 per axis and any trees of
depth ≤ 10 in the blocks. -/
theorem amr_enumeration_grid (g : Grid) (hg : g.WF) (fuel : Nat) (hf : (gridKeys g).length < fuel) :
    enumerate (gridNextKey g) maxKey64 fuel (gridFirstKey g) = gridKeys g ∧ (gridKeys g).Nodup := by
  obtain ⟨hc, hh⟩ := gridKeys_chain g hg
  have hne : ∀ k ∈ gridKeys g, k ≠ maxKey64 := by
    intro k hk; have := gridKeys_lt g hg k hk; unfold maxKey64; omega
  obtain ⟨k0, r, hks, he⟩ := enumerate_chain hc hne fuel hf
  rw [hks] at hh; simp at hh
  exact ⟨by rw [← hh, he], gridKeys_nodup g hg⟩

/-- leaf volumes sum to the volume of the cell / of the whole box -/
theorem amr_volumes_sum (t : Tree) (b : Box3 ℝ) (g : Grid) (hx : 0 < g.nx) (hy : 0 < g.ny) (hz : 0 < g.nz) :
    volSum t b = volume b ∧ gridVolSum g b = volume b :=
  ⟨volSum_eq t b, gridVolSum_eq g b hx hy hz⟩

/-- descent by position (`get_key(position)`, `get_cell(position)`), exact arithmetic: for a
position in the half-open box the clamps are inactive, the descent ends in a leaf of
the block whose box contains the position, the returned key is that leaf's key, and no other
leaf of any block contains the position. -/
theorem amr_contains (g : Grid) (b : Box3 ℝ) (p : V3 ℝ) (hx : 0 < g.nx) (hy : 0 < g.ny) (hz : 0 < g.nz)
    (hb : PosBox b) (hp : InBox b p) :
    let ix := blockIndex g.nx p.x b.ax b.sx
    let iy := blockIndex g.ny p.y b.ay b.sy
    let iz := blockIndex g.nz p.z b.az b.sz
    ix < g.nx ∧ iy < g.ny ∧ iz < g.nz ∧
    InBox (gridLocate g b p).2 p ∧
    (∃ π ∈ leafPaths (g.block ix iy iz), (gridLocate g b p).1 = gridKey ix iy iz (encodeKey π) ∧
      (gridLocate g b p).2 = boxOfPath (blockBox g b ix iy iz) π) ∧
    (∀ jx jy jz : Nat, ∀ π ∈ leafPaths (g.block jx jy jz), InBox (boxOfPath (blockBox g b jx jy jz) π) p →
      (gridLocate g b p).1 = gridKey jx jy jz (encodeKey π)) :=
  amr_contains_aux g b p hx hy hz hb hp

/-- the look-up is total, for EVERY numeric type (`Float` included), every box and every position,
with no assumption on the position or on rounding: `get_key(position)` / `get_cell(position)`
return the key of a leaf of the grid (the clamped block and child indices, fix 2fae05a, never
leave the arrays) -/
theorem amr_locate_total {α : Type} [Add α] [Sub α] [Mul α] [Div α] [OfScientific α] [GridNum.Trunc α] [OfInt α]
    (g : Grid) (hx : 0 < g.nx) (hy : 0 < g.ny) (hz : 0 < g.nz) (b : Box3 α) (p : V3 α) :
    (gridLocate g b p).1 ∈ gridKeys g ∧
    blockIndex g.nx p.x b.ax b.sx < g.nx ∧ blockIndex g.ny p.y b.ay b.sy < g.ny ∧
    blockIndex g.nz p.z b.az b.sz < g.nz :=
  ⟨gridLocate_mem g hx hy hz b p, blockIndex_lt g.nx hx _ _ _, blockIndex_lt g.ny hy _ _ _,
    blockIndex_lt g.nz hz _ _ _⟩

/-- non-vacuity: a 3×1×2 grid of once-refined blocks is well-formed, a point inside it exists -/
example : (Grid.mk' 3 1 2 1).WF :=
  ⟨by decide, by decide, by decide, by decide, by decide, by decide, fun _ _ _ => by show depth (full 1) ≤ 10; decide⟩

example : InBox (⟨0, 0, 0, 1, 1, 1⟩ : Box3 ℝ) ⟨0.5, 0, 0.25⟩ ∧ PosBox (⟨0, 0, 0, 1, 1, 1⟩ : Box3 ℝ) := by
  unfold InBox PosBox; norm_num

example : leafKeys (full 1) 0 0 = [8, 9, 10, 11, 12, 13, 14, 15] := by decide

end AMR

/-! ## Cartesian grid (`CartesianDensityGrid`) -/
namespace Cartesian
open CMacVerif.GridNum

/-- index in range -/
def InRange (n i : I3) : Prop := 0 ≤ i.x ∧ i.x < n.x ∧ 0 ≤ i.y ∧ i.y < n.y ∧ 0 ≤ i.z ∧ i.z < n.z

/-- every position of the half-open box lies in exactly one cell, the one `get_cell_indices`
returns; its long index is in range and converts back (`get_indices`) -/
theorem cartesian_unique_cell (box : Box3 ℝ) (n : I3) (px py pz : Bool) (p : V3 ℝ)
    (hnx : 0 < n.x) (hny : 0 < n.y) (hnz : 0 < n.z) (hb : PosBox box) (hp : InBox box p) :
    let g := mkGrid box n px py pz
    InRange n (cellIndices g p) ∧ InBox (cellBox g (cellIndices g p)) p ∧
    (∀ j : I3, InBox (cellBox g j) p → j = cellIndices g p) ∧
    indicesOf n (longIndex n (cellIndices g p)) = cellIndices g p ∧
    0 ≤ longIndex n (cellIndices g p) ∧ longIndex n (cellIndices g p) < n.x * n.y * n.z := by
  intro g
  obtain ⟨hx1, hx2, hy1, hy2, hz1, hz2⟩ := hp
  obtain ⟨sx, sy, sz⟩ := hb
  obtain ⟨ax0, ax1, ax2, ax3⟩ := axis_index n.x hnx box.ax box.sx p.x sx hx1 hx2
  obtain ⟨ay0, ay1, ay2, ay3⟩ := axis_index n.y hny box.ay box.sy p.y sy hy1 hy2
  obtain ⟨az0, az1, az2, az3⟩ := axis_index n.z hnz box.az box.sz p.z sz hz1 hz2
  -- in exact arithmetic the clamp of the top index never fires for a position of the box
  have hraw : cellIndices g p = rawIndices g p := by
    have ex : clampTop n.x (rawIndices g p).x p.x (box.ax + box.sx) = (rawIndices g p).x :=
      clampTop_inactive _ _ _ _ ax1
    have ey : clampTop n.y (rawIndices g p).y p.y (box.ay + box.sy) = (rawIndices g p).y :=
      clampTop_inactive _ _ _ _ ay1
    have ez : clampTop n.z (rawIndices g p).z p.z (box.az + box.sz) = (rawIndices g p).z :=
      clampTop_inactive _ _ _ _ az1
    show (⟨clampTop n.x (rawIndices g p).x p.x (box.ax + box.sx), clampTop n.y (rawIndices g p).y p.y (box.ay + box.sy),
      clampTop n.z (rawIndices g p).z p.z (box.az + box.sz)⟩ : I3) = rawIndices g p
    rw [ex, ey, ez]
  rw [hraw]
  have hr : InRange n (rawIndices g p) := ⟨ax0, ax1, ay0, ay1, az0, az1⟩
  have hin : InBox (cellBox g (rawIndices g p)) p := ⟨ax2, ax3, ay2, ay3, az2, az3⟩
  refine ⟨hr, hin, ?_, longIndex_roundtrip n _ hny hnz ⟨ay0, ay1⟩ ⟨az0, az1⟩,
    longIndex_range n _ ⟨ax0, ax1⟩ ⟨ay0, ay1⟩ ⟨az0, az1⟩⟩
  intro j hj
  obtain ⟨j1, j2, j3, j4, j5, j6⟩ := hj
  simp only [cellBox, g, mkGrid, ofInt_real] at j1 j2 j3 j4 j5 j6 ax2 ax3 ay2 ay3 az2 az3
  have ex := axis_unique n.x hnx box.ax box.sx p.x sx j.x _ j1 j2 ax2 ax3
  have ey := axis_unique n.y hny box.ay box.sy p.y sy j.y _ j3 j4 ay2 ay3
  have ez := axis_unique n.z hnz box.az box.sz p.z sz j.z _ j5 j6 az2 az3
  cases j with
  | mk a b c =>
    simp only at ex ey ez
    show (⟨a, b, c⟩ : I3) = ⟨_, _, _⟩
    rw [ex, ey, ez]; rfl

/-- rounding-robust form (every numeric type, `Float` included, no assumption on how the product
`(p - anchor) * inverse_cellside` was rounded): if the truncated raw indices lie in `[0, ncell]` and
the position is not above the top faces, `get_cell_indices` returns the indices of an existing
cell.  (In doubles the raw index of a position of the box is at most `ncell`: the product is at
most `ncell (1 + 3·2⁻⁵³)`.) -/
theorem cartesian_index_robust {α : Type} [Add α] [Sub α] [Mul α] [Div α] [Neg α] [LT α] [LE α] [DecidableLT α]
    [DecidableLE α] [OfScientific α] [GridNum.Trunc α] [OfInt α] (g : Grid α) (p : V3 α)
    (hnx : 0 < g.n.x) (hny : 0 < g.n.y) (hnz : 0 < g.n.z)
    (hx : 0 ≤ (rawIndices g p).x ∧ (rawIndices g p).x ≤ g.n.x ∧ p.x ≤ g.box.ax + g.box.sx)
    (hy : 0 ≤ (rawIndices g p).y ∧ (rawIndices g p).y ≤ g.n.y ∧ p.y ≤ g.box.ay + g.box.sy)
    (hz : 0 ≤ (rawIndices g p).z ∧ (rawIndices g p).z ≤ g.n.z ∧ p.z ≤ g.box.az + g.box.sz) :
    InRange g.n (cellIndices g p) := by
  obtain ⟨a1, a2⟩ := clampTop_range g.n.x _ p.x _ hnx hx.1 hx.2.1 hx.2.2
  obtain ⟨b1, b2⟩ := clampTop_range g.n.y _ p.y _ hny hy.1 hy.2.1 hy.2.2
  obtain ⟨c1, c2⟩ := clampTop_range g.n.z _ p.z _ hnz hz.1 hz.2.1 hz.2.2
  exact ⟨a1, a2, b1, b2, c1, c2⟩

/-- all cells have the same volume and the volumes of the `nx·ny·nz` cells sum to the box volume -/
theorem cartesian_volumes (box : Box3 ℝ) (n : I3) (px py pz : Bool)
    (hnx : 0 < n.x) (hny : 0 < n.y) (hnz : 0 < n.z) :
    let g := mkGrid box n px py pz
    ((List.range (n.x * n.y * n.z).toNat).map (fun _ => cellVolume g)).sum = box.sx * box.sy * box.sz := by
  intro g
  have hx : (n.x : ℝ) ≠ 0 := by exact_mod_cast hnx.ne'
  have hy : (n.y : ℝ) ≠ 0 := by exact_mod_cast hny.ne'
  have hz : (n.z : ℝ) ≠ 0 := by exact_mod_cast hnz.ne'
  have hpos : 0 ≤ n.x * n.y * n.z := (Int.mul_pos (Int.mul_pos hnx hny) hnz).le
  simp only [List.map_const', List.sum_replicate, List.length_range, nsmul_eq_mul, cellVolume, g, mkGrid,
    ofInt_real]
  have : (((n.x * n.y * n.z).toNat : Nat) : ℝ) = (n.x : ℝ) * n.y * n.z := by
    have := Int.toNat_of_nonneg hpos
    calc (((n.x * n.y * n.z).toNat : Nat) : ℝ) = (((n.x * n.y * n.z).toNat : Int) : ℝ) := by norm_cast
      _ = ((n.x * n.y * n.z : Int) : ℝ) := by rw [this]
      _ = _ := by push_cast; ring
  rw [this]; field_simp

/-- neighbour relations are mutual: if `B` is the neighbour of `A` across a face (also through a
periodic boundary), `A` is the neighbour of `B` across the opposite face; neighbours are cells of
the grid -/
theorem cartesian_neighbours_mutual (g : Grid ℝ) (i : I3) (hi : InRange g.n i) (up : Bool) (v : Int) :
    (ngbAxis g.px g.n.x i.x up = some v → InRange g.n ⟨v, i.y, i.z⟩ ∧ ngbAxis g.px g.n.x v (!up) = some i.x) ∧
    (ngbAxis g.py g.n.y i.y up = some v → InRange g.n ⟨i.x, v, i.z⟩ ∧ ngbAxis g.py g.n.y v (!up) = some i.y) ∧
    (ngbAxis g.pz g.n.z i.z up = some v → InRange g.n ⟨i.x, i.y, v⟩ ∧ ngbAxis g.pz g.n.z v (!up) = some i.z) := by
  obtain ⟨a1, a2, b1, b2, c1, c2⟩ := hi
  refine ⟨fun h => ?_, fun h => ?_, fun h => ?_⟩
  · obtain ⟨h1, h2, h3⟩ := ngbAxis_mutual g.px g.n.x i.x v up ⟨a1, a2⟩ h
    exact ⟨⟨h1, h2, b1, b2, c1, c2⟩, h3⟩
  · obtain ⟨h1, h2, h3⟩ := ngbAxis_mutual g.py g.n.y i.y v up ⟨b1, b2⟩ h
    exact ⟨⟨a1, a2, h1, h2, c1, c2⟩, h3⟩
  · obtain ⟨h1, h2, h3⟩ := ngbAxis_mutual g.pz g.n.z i.z v up ⟨c1, c2⟩ h
    exact ⟨⟨a1, a2, b1, b2, h1, h2⟩, h3⟩

/-- the six entries of `get_neighbours` are these per-axis neighbours, as long indices -/
theorem cartesian_neighbours_list (g : Grid ℝ) (i : I3) :
    neighbours g i =
      [ (ngbAxis g.px g.n.x i.x false).map (fun v => longIndex g.n ⟨v, i.y, i.z⟩),
        (ngbAxis g.px g.n.x i.x true).map (fun v => longIndex g.n ⟨v, i.y, i.z⟩),
        (ngbAxis g.py g.n.y i.y false).map (fun v => longIndex g.n ⟨i.x, v, i.z⟩),
        (ngbAxis g.py g.n.y i.y true).map (fun v => longIndex g.n ⟨i.x, v, i.z⟩),
        (ngbAxis g.pz g.n.z i.z false).map (fun v => longIndex g.n ⟨i.x, i.y, v⟩),
        (ngbAxis g.pz g.n.z i.z true).map (fun v => longIndex g.n ⟨i.x, i.y, v⟩) ] := rfl

/-- `interact`, for every grid, medium, start, direction, target optical depth and every number
of loop iterations (`fuel`):
* Σ path · direction = displacement, up to whole box lengths on periodic axes only;
and, when the loop has ended (`finished`):
* the photon is reported absorbed (a cell is returned) exactly when the final cell index lies
  inside the grid;
* absorbed ⇒ the optical depth used up, Σ κ·path, equals the target exactly;
* escaped ⇒ the optical depth used up is target − remaining with remaining ≥ 0. -/
theorem cartesian_path_sum (big : ℝ) (g : Grid ℝ) (m : Medium ℝ) (p d inv : V3 ℝ) (tau : ℝ) (fuel : Nat)
    (hnx : 0 < g.n.x) (hny : 0 < g.n.y) (hnz : 0 < g.n.z) (htau : 0 < tau) :
    let r := interact big g m p d inv tau fuel
    (∃ wx wy wz : Int,
      r.pos.x = p.x + d.x * pathSum r.path + wx * g.box.sx ∧ (g.px = false → wx = 0) ∧
      r.pos.y = p.y + d.y * pathSum r.path + wy * g.box.sy ∧ (g.py = false → wy = 0) ∧
      r.pos.z = p.z + d.z * pathSum r.path + wz * g.box.sz ∧ (g.pz = false → wz = 0)) ∧
    (r.finished = true →
      (r.cell.isSome ↔ gridFlag g (loop big g m d inv fuel ⟨p, cellIndices g p, tau, [], none, 0.0⟩).1.idx = true) ∧
      (r.cell.isSome → tauSum m r.path = tau ∧ r.od ≤ 0) ∧
      (r.cell = none → 0 ≤ r.od ∧ tauSum m r.path = tau - r.od)) := by
  intro r
  set st0 : St ℝ := ⟨p, cellIndices g p, tau, [], none, 0.0⟩ with hst0
  have hp0 : PathInv g p d st0 :=
    ⟨by simp [hst0, pathSum, zero_lit], ⟨0, by simp [hst0, zero_lit], fun _ => rfl⟩,
      ⟨0, by simp [hst0, zero_lit], fun _ => rfl⟩, ⟨0, by simp [hst0, zero_lit], fun _ => rfl⟩⟩
  have ht0 : TauInv g m tau st0 :=
    ⟨fun _ => by simp [hst0, tauSum], fun h => absurd htau (not_lt.mpr (le_of_lt h)), by simp [hst0]⟩
  obtain ⟨hs, ⟨wx, hx1, hx2⟩, ⟨wy, hy1, hy2⟩, ⟨wz, hz1, hz2⟩⟩ := loop_pathInv big g m p d inv fuel st0 hp0
  have hr : r = Result.mk (loop big g m d inv fuel st0).1.pos
      (if (isInside g (loop big g m d inv fuel st0).1.idx (loop big g m d inv fuel st0).1.pos).1
        then (loop big g m d inv fuel st0).1.last else none)
      (loop big g m d inv fuel st0).1.path (loop big g m d inv fuel st0).1.od
      (loop big g m d inv fuel st0).2 (loop big g m d inv fuel st0).1.path.length := rfl
  refine ⟨⟨wx, wy, wz, ?_, hx2, ?_, hy2, ?_, hz2⟩, ?_⟩
  · rw [hr]; simp only; rw [hx1, hs]
  · rw [hr]; simp only; rw [hy1, hs]
  · rw [hr]; simp only; rw [hz1, hs]
  · intro hfin
    rw [hr] at hfin; simp only at hfin
    obtain ⟨se, hse, hti, hex⟩ := loop_exit big g m tau d inv hnx hny hnz fuel st0 ht0 hfin
    have hidx : (loop big g m d inv fuel st0).1.idx = gridIdx g se.idx := by
      rw [hse]; exact (isInside_flag g se.idx se.pos).2
    have hflag : gridFlag g (loop big g m d inv fuel st0).1.idx = gridFlag g se.idx := by
      rw [hidx]; exact (grid_idem g se.idx hnx hny hnz).2
    have hpath : (loop big g m d inv fuel st0).1.path = se.path := by rw [hse]; rfl
    have hod : (loop big g m d inv fuel st0).1.od = se.od := by rw [hse]; rfl
    have hlast : (loop big g m d inv fuel st0).1.last = se.last := by rw [hse]; rfl
    have hcell : r.cell = if gridFlag g se.idx = true then se.last else none := by
      rw [hr]; simp only; rw [(isInside_flag g _ _).1, hflag, hlast]
    obtain ⟨t1, t2, t3⟩ := hti
    -- inside at exit ⇒ the optical depth is used up ⇒ at least one cell was traversed
    have hins : gridFlag g se.idx = true → se.od ≤ 0 ∧ se.last.isSome ∧ tauSum m se.path = tau := by
      intro hf
      have hle : se.od ≤ 0 := by
        by_contra hcon; exact hex ⟨hf, lt_of_not_ge hcon⟩
      have hsum : tauSum m se.path = tau := by
        rcases lt_or_eq_of_le hle with h | h
        · exact (t2 h).1
        · have := t1 (by rw [h]); rw [h] at this; linarith
      refine ⟨hle, ?_, hsum⟩
      cases hl : se.last with
      | some c => rfl
      | none =>
        have := t3.1 hl
        rw [this] at hsum; simp [tauSum] at hsum; linarith
    refine ⟨?_, ?_, ?_⟩
    · rw [hcell, hflag]
      constructor
      · intro h; by_contra hf; rw [if_neg hf] at h; simp at h
      · intro hf; rw [if_pos hf]; exact (hins hf).2.1
    · intro h
      rw [hcell] at h
      have hf : gridFlag g se.idx = true := by
        by_contra hf; rw [if_neg hf] at h; simp at h
      obtain ⟨a, _, c⟩ := hins hf
      rw [hr]; simp only; rw [hpath, hod]; exact ⟨c, a⟩
    · intro h
      rw [hcell] at h
      have hf : ¬ gridFlag g se.idx = true := by
        intro hf; rw [if_pos hf] at h; have := (hins hf).2.1; rw [h] at this; simp at this
      have hnn : 0 ≤ se.od := by
        by_contra hcon; exact hf (t2 (lt_of_not_ge hcon)).2.1
      rw [hr]; simp only; rw [hpath, hod]
      exact ⟨hnn, by have := t1 hnn; linarith⟩

/-- non-vacuity: a 3×5×7 grid over the unit box, a point inside -/
example : PosBox (⟨0, 0, 0, 1, 1, 1⟩ : Box3 ℝ) ∧ InBox (⟨0, 0, 0, 1, 1, 1⟩ : Box3 ℝ) ⟨0.5, 0.25, 0⟩ ∧
    InRange ⟨3, 5, 7⟩ ⟨1, 1, 0⟩ := by
  unfold PosBox InBox InRange; norm_num

/-- `get_wall_intersection` in exact arithmetic: from a point of the closed cell along a non-zero
direction (inverse direction = 1/direction, `DBL_MAX` above every wall distance): the distance is
≥ 0, the returned point lies in the closed cell, an index offset +1/−1 on an axis means the point
lies on the upper/lower wall of that axis and the photon moves that way; some offset is non-zero -/
theorem cartesian_wall_intersection (big : ℝ) (o d inv : V3 ℝ) (cell : Box3 ℝ) (ho : ClosedIn cell o)
    (hix : d.x ≠ 0 → inv.x = 1 / d.x) (hiy : d.y ≠ 0 → inv.y = 1 / d.y) (hiz : d.z ≠ 0 → inv.z = 1 / d.z)
    (hd : d.x ≠ 0 ∨ d.y ≠ 0 ∨ d.z ≠ 0)
    (hbx : d.x ≠ 0 → wallDist big o.x d.x inv.x cell.ax (cell.ax + cell.sx) < big)
    (hby : d.y ≠ 0 → wallDist big o.y d.y inv.y cell.ay (cell.ay + cell.sy) < big)
    (hbz : d.z ≠ 0 → wallDist big o.z d.z inv.z cell.az (cell.az + cell.sz) < big) :
    let w := wallIntersection big o d inv cell
    0 ≤ w.2.2 ∧ ClosedIn cell w.1 ∧
    (w.2.1.x = 1 → 0 < d.x ∧ w.1.x = cell.ax + cell.sx) ∧ (w.2.1.x = -1 → d.x < 0 ∧ w.1.x = cell.ax) ∧
    (w.2.1.y = 1 → 0 < d.y ∧ w.1.y = cell.ay + cell.sy) ∧ (w.2.1.y = -1 → d.y < 0 ∧ w.1.y = cell.ay) ∧
    (w.2.1.z = 1 → 0 < d.z ∧ w.1.z = cell.az + cell.sz) ∧ (w.2.1.z = -1 → d.z < 0 ∧ w.1.z = cell.az) ∧
    (w.2.1.x ≠ 0 ∨ w.2.1.y ≠ 0 ∨ w.2.1.z ≠ 0) :=
  wallIntersection_spec big o d inv cell ho hix hiy hiz hd hbx hby hbz

/-- the traversal stays geometric: for a grid as the constructor builds it, a start in the
half-open box and a ray satisfying `RayOK`, after ANY number of loop iterations every recorded
path length is ≥ 0 and credited to a cell of the grid; the photon position always lies in the
closed box of its current cell (through wall crossings, edge/corner crossings and periodic
wraps), in particular an absorbed photon ends inside the box, in the closed cell it is in. -/
theorem cartesian_segments (big : ℝ) (box : Box3 ℝ) (n : I3) (px py pz : Bool) (m : Medium ℝ) (p d inv : V3 ℝ)
    (tau : ℝ) (fuel : Nat) (hnx : 0 < n.x) (hny : 0 < n.y) (hnz : 0 < n.z) (hb : PosBox box) (hp : InBox box p)
    (hr : RayOK big (mkGrid box n px py pz) d inv) :
    let g := mkGrid box n px py pz
    let r := interact big g m p d inv tau fuel
    (∀ e ∈ r.path, 0 ≤ e.2 ∧ 0 ≤ e.1 ∧ e.1 < n.x * n.y * n.z) ∧
    (r.finished = true → r.cell.isSome →
      ∃ i : I3, InRange n i ∧ ClosedIn (cellBox g i) r.pos ∧ ClosedIn box r.pos) := by
  intro g r
  have hg : GridOK g := ⟨hnx, hny, hnz, hb.1, hb.2.1, hb.2.2, by simp [g, mkGrid, ofInt_real],
    by simp [g, mkGrid, ofInt_real], by simp [g, mkGrid, ofInt_real]⟩
  obtain ⟨hrange, hin, _, _, _, _⟩ := cartesian_unique_cell box n px py pz p hnx hny hnz hb hp
  set st0 : St ℝ := ⟨p, cellIndices g p, tau, [], none, 0.0⟩ with hst0
  have h0 : SegInv g st0 := by
    refine ⟨?_, ?_, by simp [hst0]⟩
    · obtain ⟨a1, a2, a3, a4, a5, a6⟩ := hin
      exact ⟨a1, a2.le, a3, a4.le, a5, a6.le⟩
    · have hrange' : InRange n (cellIndices g p) := hrange
      obtain ⟨a1, a2, a3, a4, a5, a6⟩ := hrange'
      show Near g.n (cellIndices g p)
      have hn : g.n = n := rfl
      rw [hn]; unfold Near; omega
  obtain ⟨hpath, hexit⟩ := loop_seg big g hg m d inv hr fuel st0 h0
  refine ⟨hpath, ?_⟩
  intro hfin hcell
  have hfin' : (loop big g m d inv fuel st0).2 = true := hfin
  obtain ⟨se, hse, hseg⟩ := hexit hfin'
  -- absorbed: the final index is inside the grid
  have hflag : (isInside g (loop big g m d inv fuel st0).1.idx (loop big g m d inv fuel st0).1.pos).1 = true := by
    by_contra hcon
    have : r.cell = none := by
      show (if (isInside g (loop big g m d inv fuel st0).1.idx (loop big g m d inv fuel st0).1.pos).1 = true
        then (loop big g m d inv fuel st0).1.last else none) = none
      rw [if_neg hcon]
    rw [this] at hcell; simp at hcell
  have hfl : gridFlag g se.idx = true := by
    rw [(isInside_flag g _ _).1, hse] at hflag
    have : (wrapSt g se).idx = gridIdx g se.idx := (isInside_flag g se.idx se.pos).2
    rw [this, (grid_idem g se.idx hnx hny hnz).2] at hflag
    exact hflag
  obtain ⟨hs, hrng⟩ := wrap_seg g hg se hseg hfl
  refine ⟨(wrapSt g se).idx, ?_, ?_, ?_⟩
  · obtain ⟨a1, a2, a3, a4, a5, a6⟩ := hrng; exact ⟨a1, a2, a3, a4, a5, a6⟩
  · show ClosedIn (cellBox g (wrapSt g se).idx) (loop big g m d inv fuel st0).1.pos
    rw [hse]; exact hs.inCell
  · -- a closed cell of the grid lies in the closed box
    show ClosedIn box (loop big g m d inv fuel st0).1.pos
    rw [hse]
    obtain ⟨c1, c2, c3, c4, c5, c6⟩ := hs.inCell
    obtain ⟨a1, a2, a3, a4, a5, a6⟩ := hrng
    simp only [cellBox, ofInt_real, hg.csx, hg.csy, hg.csz] at c1 c2 c3 c4 c5 c6
    have hx' : (0 : ℝ) < (n.x : ℝ) := by exact_mod_cast hnx
    have hy' : (0 : ℝ) < (n.y : ℝ) := by exact_mod_cast hny
    have hz' : (0 : ℝ) < (n.z : ℝ) := by exact_mod_cast hnz
    have key : ∀ (a S v : ℝ) (nn i : Int), 0 < S → (0 : ℝ) < (nn : ℝ) → 0 ≤ i → i < nn →
        a + S / (nn : ℝ) * (i : ℝ) ≤ v → v ≤ a + S / (nn : ℝ) * (i : ℝ) + S / (nn : ℝ) → a ≤ v ∧ v ≤ a + S := by
      intro a S v nn i hS hn hi0 hi1 l1 l2
      have hcs : 0 < S / (nn : ℝ) := div_pos hS hn
      have hi0' : (0 : ℝ) ≤ (i : ℝ) := by exact_mod_cast hi0
      have hi1' : (i : ℝ) + 1 ≤ (nn : ℝ) := by exact_mod_cast hi1
      have e : S / (nn : ℝ) * (nn : ℝ) = S := by field_simp
      constructor
      · have := mul_nonneg hcs.le hi0'; linarith
      · have := mul_le_mul_of_nonneg_left hi1' hcs.le; nlinarith
    have kx := key box.ax box.sx _ n.x _ hb.1 hx' a1 a2 c1 c2
    have ky := key box.ay box.sy _ n.y _ hb.2.1 hy' a3 a4 c3 c4
    have kz := key box.az box.sz _ n.z _ hb.2.2 hz' a5 a6 c5 c6
    exact ⟨kx.1, kx.2, ky.1, ky.2, kz.1, kz.2⟩

/-- non-vacuity: a ray along +x in a 2×2×2 grid over the unit box, `big = 10` -/
example : RayOK 10 (mkGrid (⟨0, 0, 0, 1, 1, 1⟩ : Box3 ℝ) ⟨2, 2, 2⟩ false false false) ⟨1, 0, 0⟩ ⟨1, 0, 0⟩ := by
  refine ⟨fun _ => by norm_num, fun h => absurd rfl h, fun h => absurd rfl h, Or.inl (by norm_num), ?_⟩
  intro i o ho
  refine ⟨fun _ => ?_, fun h => absurd rfl h, fun h => absurd rfl h⟩
  obtain ⟨h1, _⟩ := ho
  simp only [cellBox, mkGrid, ofInt_real, wallDist, zero_lit] at h1 ⊢
  norm_num at h1 ⊢
  linarith

/-- both ways the drivers give a photon a direction — the constructor and `set_direction`
(re-emission, scattering) — cache the componentwise inverse of that direction, so the `inv = 1/d`
hypotheses of `RayOK` hold for every photon `interact` is called with, and `interactPhoton` is
`interact` on that pair -/
theorem photon_inverse_direction (old : PhotonDir ℝ) (d : V3 ℝ) :
    (∀ ph : PhotonDir ℝ, ph = PhotonDir.new d ∨ ph = old.setDirection d →
      ph.dir = d ∧ ph.inv.x = 1 / d.x ∧ ph.inv.y = 1 / d.y ∧ ph.inv.z = 1 / d.z) ∧
    (∀ (big : ℝ) (g : Grid ℝ) (m : Medium ℝ) (p : V3 ℝ) (ph : PhotonDir ℝ) (tau : ℝ) (fuel : Nat),
      interactPhoton big g m p ph tau fuel = interact big g m p ph.dir ph.inv tau fuel) := by
  refine ⟨?_, fun _ _ _ _ _ _ _ => rfl⟩
  rintro ph (rfl | rfl) <;> simp only [PhotonDir.new, PhotonDir.setDirection] <;> norm_num

/-- the deposits ARE the chords.  For a grid as the constructor builds it, a start in the
half-open box and a ray satisfying `RayOK`, after any number of loop iterations: the deposit
`(c, ds)` made after the deposits `older` covers the line parameters `[T, T + ds]`, `T = Σ older`;
there is a cell `i` of the grid with long index `c` and an image `σ` of the line (whole box lengths
on periodic axes only, `σ = 0` without periodicity) such that
* the whole interval lies in the closed chord of cell `i` (the deposit is part of the chord), and
* wherever on that interval (any image of) the line is in the OPEN box of a cell `j`, that cell is
  `i` and the image is `σ` (no part of the open chord of another cell is credited to `c`).
Together with `cartesian_path_sum` (the intervals tile `[0, S]`): the parameter set credited to a
cell lies between its open and its closed chord, i.e. equals the chord up to the end points. -/
theorem cartesian_deposits_are_chords (big : ℝ) (box : Box3 ℝ) (n : I3) (px py pz : Bool) (m : Medium ℝ)
    (p d inv : V3 ℝ) (tau : ℝ) (fuel : Nat) (hnx : 0 < n.x) (hny : 0 < n.y) (hnz : 0 < n.z) (hb : PosBox box)
    (hp : InBox box p) (hr : RayOK big (mkGrid box n px py pz) d inv) :
    let g := mkGrid box n px py pz
    let r := interact big g m p d inv tau fuel
    ∀ (newer older : List (Int × ℝ)) (c : Int) (ds : ℝ), r.path = newer ++ (c, ds) :: older →
      0 ≤ ds ∧ ∃ (i : I3) (σ : V3 ℝ), InRange' g.n i ∧ longIndex g.n i = c ∧ Lattice g σ ∧
        (∀ t, pathSum older ≤ t → t ≤ pathSum older + ds → ClosedChord (cellBox g i) p d σ t) ∧
        (∀ (t : ℝ) (j : I3) (σ' : V3 ℝ), pathSum older ≤ t → t ≤ pathSum older + ds → InRange' g.n j →
          Lattice g σ' → OpenChord (cellBox g j) p d σ' t → j = i ∧ σ' = σ) := by
  intro g r newer older c ds hpath
  have hg : GridOK g := ⟨hnx, hny, hnz, hb.1, hb.2.1, hb.2.2, by simp [g, mkGrid, ofInt_real],
    by simp [g, mkGrid, ofInt_real], by simp [g, mkGrid, ofInt_real]⟩
  obtain ⟨hrange, hin, _, _, _, _⟩ := cartesian_unique_cell box n px py pz p hnx hny hnz hb hp
  set st0 : St ℝ := ⟨p, cellIndices g p, tau, [], none, 0.0⟩ with hst0
  have h0 : SegInv g st0 := by
    refine ⟨?_, ?_, by simp [hst0]⟩
    · obtain ⟨a1, a2, a3, a4, a5, a6⟩ := hin
      exact ⟨a1, a2.le, a3, a4.le, a5, a6.le⟩
    · have hrange' : InRange n (cellIndices g p) := hrange
      obtain ⟨a1, a2, a3, a4, a5, a6⟩ := hrange'
      show Near g.n (cellIndices g p)
      have hn : g.n = n := rfl
      rw [hn]; unfold Near; omega
  have hc0 : ChordInv g d p st0 := by
    refine ⟨h0, trivial, ⟨0, 0, 0⟩, lattice_zero g, ?_⟩
    show p = lineAt p (pathSum []) d ⟨0, 0, 0⟩
    simp [lineAt, pathSum]
  have hch : Chords g d p r.path := loop_chord big g hg m d inv p hr fuel st0 hc0
  rw [hpath] at hch
  obtain ⟨hds, ⟨i, σ, hi, hli, hσ, hc1, hc2⟩, _⟩ := chords_split g d p newer (c, ds) older hch
  refine ⟨hds, i, σ, hi, hli, hσ, ?_, ?_⟩
  · intro t ht0 ht1
    exact closed_convex _ p d σ _ _ t hc1 hc2 ht0 ht1
  · intro t j σ' ht0 ht1 hj hσ' ho
    exact cells_unique g hg p d σ σ' t i j hi hj hσ hσ' (closed_convex _ p d σ _ _ t hc1 hc2 ht0 ht1) ho

end Cartesian

/-! ## Bucket-grid nearest neighbour (`PointLocations::get_closest_neighbour`) -/
namespace Buckets
open CMacVerif.GridNum CMacVerif.Shells

/-- `get_closest_neighbour` returns the brute-force nearest neighbour, in exact arithmetic, for
every bucket grid, point set and query.  Proved from `shells_exactly_once` /
`max_range_is_last` / `increase_range_next` (every bucket inside the grid is reached, level by
level) under the hypotheses named here:
* `hanchor`: the anchor cell computed for the query lies inside the (cubic) grid;
* `hcover` (the covered-radius bound the code uses to stop): a point stored in a bucket whose
  offset from the anchor cell has max-norm ≥ L is at squared distance ≥ `get_max_radius2()` as
  computed after the widenings for the levels `< L`;
* `hfuelR` / `he`: the fuel of the two loops of the model did not run out.
`_partial`: `hcover` is assumed, not derived from the bucket assignment of the constructor. -/
theorem nearest_is_bruteforce_partial (g : BGrid ℝ) (p : V3 ℝ) (fuelR fuel : Nat)
    (hanchor : (0 ≤ anchorIndex p.x g.anchor.x g.cs.x ∧ anchorIndex p.x g.anchor.x g.cs.x < g.n) ∧
      (0 ≤ anchorIndex p.y g.anchor.y g.cs.y ∧ anchorIndex p.y g.anchor.y g.cs.y < g.n) ∧
      (0 ≤ anchorIndex p.z g.anchor.z g.cs.z ∧ anchorIndex p.z g.anchor.z g.cs.z < g.n))
    (hfuelR : ∀ k, Inside (anchorIndex p.x g.anchor.x g.cs.x) (anchorIndex p.y g.anchor.y g.cs.y)
      (anchorIndex p.z g.anchor.z g.cs.z) g.n g.n g.n (iter k) → k ≤ fuelR)
    (hcover : ∀ (L k q : Nat), 1 ≤ L →
      Inside (anchorIndex p.x g.anchor.x g.cs.x) (anchorIndex p.y g.anchor.y g.cs.y)
        (anchorIndex p.z g.anchor.z g.cs.z) g.n g.n g.n (iter k) → (L : Int) ≤ (iter k).level →
      q ∈ bucketAt g (anchorIndex p.x g.anchor.x g.cs.x) (anchorIndex p.y g.anchor.y g.cs.y)
        (anchorIndex p.z g.anchor.z g.cs.z) (iter k) →
      maxRadius2 (boundsAt g p (anchorIndex p.x g.anchor.x g.cs.x) (anchorIndex p.y g.anchor.y g.cs.y)
        (anchorIndex p.z g.anchor.z g.cs.z) L) ≤ d2 g p q)
    (he : (closest g p fuelR fuel).2 ≠ .fuel) :
    let r := (closest g p fuelR fuel).1.best
    let pts := AllPts g (anchorIndex p.x g.anchor.x g.cs.x) (anchorIndex p.y g.anchor.y g.cs.y)
      (anchorIndex p.z g.anchor.z g.cs.z)
    -- no point at all, or the returned index is a stored point at minimal distance
    (r.r2 < 0 ∧ ∀ q, ¬ pts q) ∨
    (pts r.idx ∧ r.r2 = dist2 (g.pos r.idx) p ∧ ∀ q, pts q → dist2 (g.pos r.idx) p ≤ dist2 (g.pos q) p) := by
  intro r pts
  set ax := anchorIndex p.x g.anchor.x g.cs.x
  set ay := anchorIndex p.y g.anchor.y g.cs.y
  set az := anchorIndex p.z g.anchor.z g.cs.z
  have hin0 : Inside ax ay az g.n g.n g.n (iter 0) := by
    unfold Inside; simp only [iter, start]; omega
  have hb0 : BestOf g p (Visited g ax ay az 0) (scan g p (g.bucket ax ay az) ⟨-1.0, 0⟩) := by
    have h0 : BestOf g p (fun _ => False) (⟨-1.0, 0⟩ : Best ℝ) := Or.inl ⟨by norm_num, fun _ h => h⟩
    refine BestOf_congr g p _ _ _ (fun q => ?_) (scan_best g p (g.bucket ax ay az) _ _ h0)
    constructor
    · rintro (h | h)
      · exact absurd h id
      · exact ⟨0, le_refl _, hin0, by simpa [bucketAt, iter, start] using h⟩
    · rintro ⟨k, hk, _, hq⟩
      have : k = 0 := by omega
      subst this
      exact Or.inr (by simpa [bucketAt, iter, start] using hq)
  have := searchLoop_correct g p ax ay az hanchor.1 hanchor.2.1 hanchor.2.2 fuelR hfuelR hcover fuel 0
    ⟨start, initBounds g ax ay az p, scan g p (g.bucket ax ay az) ⟨-1.0, 0⟩, 1⟩ rfl hin0 rfl hb0
    (closest g p fuelR fuel).1 (closest g p fuelR fuel).2 rfl he
  rcases this with ⟨h1, h2⟩ | ⟨_, h2, h3, h4⟩
  · exact Or.inl ⟨h1, h2⟩
  · refine Or.inr ⟨h2, h3, fun q hq => ?_⟩
    have := h4 q hq
    rw [h3] at this
    exact this

/-- the covered-radius bound is a theorem when every stored point lies in the cell of its
bucket and the query lies in its anchor cell (`Geo`): `hcover` of
`nearest_is_bruteforce_partial` can be discharged -/
theorem nearest_covered_radius_bound (g : BGrid ℝ) (p : V3 ℝ) (ax ay az : Int) (hg : Geo g p ax ay az)
    (L k q : Nat) (hL : 1 ≤ L) (hin : Inside ax ay az g.n g.n g.n (iter k)) (hlev : (L : Int) ≤ (iter k).level)
    (hq : q ∈ bucketAt g ax ay az (iter k)) :
    maxRadius2 (boundsAt g p ax ay az L) ≤ d2 g p q :=
  cover_bound g p ax ay az hg L k q hL hin hlev hq

/-- hence: the search returns the brute-force nearest neighbour whenever the points lie in their
buckets and the query in its anchor cell (exact arithmetic; fuel of the model loops not
exhausted) -/
theorem nearest_is_bruteforce (g : BGrid ℝ) (p : V3 ℝ) (fuelR fuel : Nat)
    (hg : Geo g p (anchorIndex p.x g.anchor.x g.cs.x) (anchorIndex p.y g.anchor.y g.cs.y)
      (anchorIndex p.z g.anchor.z g.cs.z))
    (hfuelR : ∀ k, Inside (anchorIndex p.x g.anchor.x g.cs.x) (anchorIndex p.y g.anchor.y g.cs.y)
      (anchorIndex p.z g.anchor.z g.cs.z) g.n g.n g.n (iter k) → k ≤ fuelR)
    (he : (closest g p fuelR fuel).2 ≠ .fuel) :
    let r := (closest g p fuelR fuel).1.best
    let pts := AllPts g (anchorIndex p.x g.anchor.x g.cs.x) (anchorIndex p.y g.anchor.y g.cs.y)
      (anchorIndex p.z g.anchor.z g.cs.z)
    (r.r2 < 0 ∧ ∀ q, ¬ pts q) ∨
    (pts r.idx ∧ r.r2 = dist2 (g.pos r.idx) p ∧ ∀ q, pts q → dist2 (g.pos r.idx) p ≤ dist2 (g.pos q) p) :=
  nearest_is_bruteforce_partial g p fuelR fuel ⟨hg.hax, hg.hay, hg.haz⟩ hfuelR
    (fun L k q hL hin hlev hq => cover_bound g p _ _ _ hg L k q hL hin hlev hq) he

/-- non-vacuity: a one-bucket grid over the unit box with one stored point satisfies `Geo` -/
example : Geo (⟨⟨0, 0, 0⟩, ⟨1, 1, 1⟩, 1, fun ix iy iz => if ix = 0 ∧ iy = 0 ∧ iz = 0 then [0] else [],
      fun _ => ⟨0.25, 0.5, 0.75⟩⟩ : BGrid ℝ) ⟨0.3, 0.3, 0.3⟩ 0 0 0 := by
  refine ⟨by norm_num, by norm_num, by norm_num, by norm_num, by norm_num, by norm_num,
    by norm_num, by norm_num, by norm_num, ?_⟩
  intro ix iy iz q hq
  simp only at hq
  split_ifs at hq with h
  · obtain ⟨rfl, rfl, rfl⟩ := h; norm_num
  · simp at hq

/-- for the grid the constructor builds (explicit box, `bucketsFrom`: position `i` is pushed to
the bucket with its three truncated indices): with all positions and the query in the half-open
box, `Geo` is a theorem, the buckets hold exactly the indices `< npts`, and `get_closest_neighbour`
returns the brute-force nearest neighbour of ALL positions.  The only remaining hypotheses are the
fuel bounds of the two model loops (an exhausted fuel is printed by the run). -/
theorem nearest_is_bruteforce_built (n : Int) (a s : V3 ℝ) (pos : Nat → V3 ℝ) (npts : Nat) (p : V3 ℝ)
    (fuelR fuel : Nat) (hn : 0 < n) (hb : PosBox (boxOf a s))
    (hpts : ∀ i < npts, InBox (boxOf a s) (pos i)) (hp : InBox (boxOf a s) p)
    (hfuelR : ∀ k, Inside (anchorIndex p.x (build n a s pos npts).anchor.x (build n a s pos npts).cs.x)
      (anchorIndex p.y (build n a s pos npts).anchor.y (build n a s pos npts).cs.y)
      (anchorIndex p.z (build n a s pos npts).anchor.z (build n a s pos npts).cs.z) n n n (iter k) → k ≤ fuelR)
    (he : (closest (build n a s pos npts) p fuelR fuel).2 ≠ .fuel) :
    let r := (closest (build n a s pos npts) p fuelR fuel).1.best
    (r.r2 < 0 ∧ npts = 0) ∨
    (r.idx < npts ∧ r.r2 = dist2 (pos r.idx) p ∧ ∀ q < npts, dist2 (pos r.idx) p ≤ dist2 (pos q) p) := by
  intro r
  have hg := build_geo n a s pos npts p hn hb hpts hp
  have hall := build_allPts n a s pos npts
    (anchorIndex p.x (build n a s pos npts).anchor.x (build n a s pos npts).cs.x)
    (anchorIndex p.y (build n a s pos npts).anchor.y (build n a s pos npts).cs.y)
    (anchorIndex p.z (build n a s pos npts).anchor.z (build n a s pos npts).cs.z) hn hb hpts
  rcases nearest_is_bruteforce (build n a s pos npts) p fuelR fuel hg hfuelR he with ⟨h1, h2⟩ | ⟨h1, h2, h3⟩
  · left
    refine ⟨h1, ?_⟩
    by_contra hne
    exact h2 0 ((hall 0).mpr (Nat.pos_of_ne_zero hne))
  · right
    exact ⟨(hall _).mp h1, h2, fun q hq => h3 q ((hall q).mpr hq)⟩

/-- non-vacuity: two positions and a query in the unit box, a 2³ bucket grid -/
example : PosBox (boxOf (⟨0, 0, 0⟩ : V3 ℝ) ⟨1, 1, 1⟩) ∧
    (∀ i < 2, InBox (boxOf (⟨0, 0, 0⟩ : V3 ℝ) ⟨1, 1, 1⟩)
      ((fun i => if i = 0 then (⟨0.25, 0.25, 0.25⟩ : V3 ℝ) else ⟨0.75, 0.5, 0.5⟩) i)) ∧
    InBox (boxOf (⟨0, 0, 0⟩ : V3 ℝ) ⟨1, 1, 1⟩) ⟨0.3, 0.3, 0.3⟩ := by
  refine ⟨⟨by norm_num [boxOf], by norm_num [boxOf], by norm_num [boxOf]⟩, ?_, by norm_num [InBox, boxOf]⟩
  intro i hi
  have : i = 0 ∨ i = 1 := by omega
  rcases this with rfl | rfl <;> norm_num [InBox, boxOf]

end Buckets

/-! ## Photon traversal of the AMR grid (`AMRDensityGrid::interact`, `get_wall_intersection`) -/
namespace AMRT
open CMacVerif.GridNum CMacVerif.AMR

/-- The hypotheses of the geometric theorems (what the code needs):
* `wf`, `box`, `start`: a well-formed grid (any trees of depth ≤ 10 in the blocks — no 2:1 balance
  between neighbouring leaves is needed: a coarser neighbour is always a leaf), a box with
  positive sides, a start position in the half-open box;
* `dir`: the direction is not the zero vector;
* `narrow`: no leaf spans the whole box along a periodic axis (a single cell across a periodic
  axis is its own neighbour: the code then never wraps the position and spins with `ds = 0`);
* `big`: `DBL_MAX` exceeds every wall distance that occurs. -/
structure RayHyp (big : ℝ) (G : AGrid ℝ) (p d : V3 ℝ) : Prop where
  wf : G.g.WF
  box : PosBox G.box
  start : InBox G.box p
  dir : ∃ a, a < 3 ∧ vget d a ≠ 0
  narrow : ∀ r, cellAt G.g r = some .leaf → ∀ a, a < 3 → per G a = true → bsd (refBox G r) a < bsd G.box a
  big : ∀ r o, cellAt G.g r = some .leaf → Closed (refBox G r) o → ∀ a, a < 3 → vget d a ≠ 0 →
    wp big (refBox G r) o d a < big

theorem RayHyp.ok {big : ℝ} {G : AGrid ℝ} {p d : V3 ℝ} (h : RayHyp big G p d) : TravOK big G d :=
  travOK_of big G d h.box h.wf.nx_pos h.wf.ny_pos h.wf.nz_pos h.dir h.narrow h.big

/-- the state the loop of `interact` starts from satisfies the traversal invariant -/
theorem start_inv {big : ℝ} {G : AGrid ℝ} {p d : V3 ℝ} (h : RayHyp big G p d) (tau : ℝ) (htau : 0 ≤ tau) :
    TravInv G p d ⟨p, some (locate G p), tau, [], none⟩ ∧ AllGood G d ([] : List (Ref × ℝ)) := by
  obtain ⟨l1, l2, l3, l4⟩ := locate_spec G h.wf h.box p h.start
  refine ⟨⟨?_, fun hn => absurd htau (not_le.mpr hn), fun hne => absurd rfl hne, ?_⟩, fun e he => by simp at he⟩
  · intro r hr; simp only [Option.some.injEq] at hr; subst hr; exact ⟨l1, l2, l3, l4⟩
  · refine ⟨0, le_refl _, by simp [pathSum], fun a _ => ⟨0, by simp, fun _ => rfl⟩⟩

/-- Σ path · d/|d| = displacement, up to whole box lengths on periodic axes only; every path length
is ≥ 0.  For every tree (hence every tree reachable by refinements), every photon, every number of
loop iterations. -/
theorem amr_path_sum (big : ℝ) (G : AGrid ℝ) (m : Medium ℝ) (p d : V3 ℝ) (tau : ℝ) (fuel : Nat)
    (h : RayHyp big G p d) (htau : 0 ≤ tau) :
    let r := interact big G m p d tau fuel
    (∀ a, a < 3 → ∃ w : Int, vget r.pos a = vget p a + vget d a * (pathSum r.path / Real.sqrt (dnorm2 d))
      + w * bsd G.box a ∧ (per G a = false → w = 0)) ∧
    ∀ e ∈ r.path, 0 ≤ e.2 := by
  intro r
  obtain ⟨hi, hg⟩ := start_inv h tau htau
  obtain ⟨hinv, hgood⟩ := loop_trav big G m p d h.ok fuel _ hi hg
  have hN : 0 < Real.sqrt (dnorm2 d) := Real.sqrt_pos.mpr (dnorm2_pos d h.dir)
  obtain ⟨T, _, hsum, hpos⟩ := hinv.disp
  refine ⟨fun a ha => ?_, fun e he => ?_⟩
  · obtain ⟨w, hw, hw0⟩ := hpos a ha
    refine ⟨w, ?_, hw0⟩
    have hT : pathSum (loop big G m d fuel ⟨p, some (locate G p), tau, [], none⟩).1.path / Real.sqrt (dnorm2 d) = T := by
      rw [hsum]; field_simp
    show vget (loop big G m d fuel ⟨p, some (locate G p), tau, [], none⟩).1.pos a = _
    rw [hw]
    show _ = vget p a + vget d a * (pathSum (loop big G m d fuel ⟨p, some (locate G p), tau, [], none⟩).1.path
      / Real.sqrt (dnorm2 d)) + _
    rw [hT]
  · obtain ⟨o, _, _, l, hl, hlen, _⟩ := hgood e he
    rw [hlen]; exact mul_nonneg hl hN.le

/-- optical depth accounting (no geometric hypothesis needed): absorbed ⇒ Σ κ·path = τ exactly;
escaped ⇒ τ − Σ κ·path = remaining ≥ 0 -/
theorem amr_tau_account (big : ℝ) (G : AGrid ℝ) (m : Medium ℝ) (p d : V3 ℝ) (tau : ℝ) (fuel : Nat)
    (htau : 0 < tau) :
    let r := interact big G m p d tau fuel
    r.finished = true →
      (r.cell.isSome → tauSum m r.path = tau ∧ r.od ≤ 0) ∧
      (r.cell = none → 0 ≤ r.od ∧ tauSum m r.path = tau - r.od) := by
  intro r hfin
  have h0 : TauInv m tau (⟨p, some (locate G p), tau, [], none⟩ : St ℝ) :=
    ⟨fun _ => by simp [tauSum], fun hn => absurd htau (not_lt.mpr hn.le), by simp⟩
  obtain ⟨hinv, hexit⟩ := loop_tau big G m tau d fuel _ h0 hfin
  set st := (loop big G m d fuel ⟨p, some (locate G p), tau, [], none⟩).1 with hst
  have hcell : r.cell = match st.cur with | none => none | some _ => st.last := rfl
  have hpath : r.path = st.path := rfl
  have hod : r.od = st.od := rfl
  rw [hcell, hpath, hod]
  -- with a cell still current at exit the optical depth is used up
  have hused : st.cur.isSome → st.od ≤ 0 ∧ tauSum m st.path = tau := by
    intro hc
    have hle : st.od ≤ 0 := by
      rcases hexit with h | h
      · rw [h] at hc; simp at hc
      · exact h
    refine ⟨hle, ?_⟩
    rcases lt_or_eq_of_le hle with h | h
    · exact (hinv.neg h).1
    · have := hinv.nonneg (by rw [h]); rw [h] at this; linarith
  cases hc : st.cur with
  | none =>
    refine ⟨fun h => by simp at h, fun _ => ?_⟩
    have hnn : 0 ≤ st.od := by
      by_contra hcon
      have := (hinv.neg (lt_of_not_ge hcon)).2
      rw [hc] at this; simp at this
    exact ⟨hnn, by have := hinv.nonneg hnn; linarith⟩
  | some c =>
    obtain ⟨hle, hsum⟩ := hused (by rw [hc]; rfl)
    refine ⟨fun _ => ⟨hsum, hle⟩, fun hl => ?_⟩
    -- no cell was traversed although the optical depth is used up: impossible for τ > 0
    have hp := hinv.last.mp hl
    rw [hp] at hsum; simp [tauSum] at hsum; linarith

/-- the returned cell contains the final position (the statement that failed before d8e5613):
an absorbed photon (optical depth exceeded inside a cell, `od < 0`) ends in the closed box of the
leaf that is returned; in every case the final position lies in the closed box of the current
leaf of the grid -/
theorem amr_absorbed_cell_contains_end (big : ℝ) (G : AGrid ℝ) (m : Medium ℝ) (p d : V3 ℝ) (tau : ℝ) (fuel : Nat)
    (h : RayHyp big G p d) (htau : 0 ≤ tau) :
    let r := interact big G m p d tau fuel
    ∀ c, r.cell = some c →
      (∃ cur, cellAt G.g cur = some .leaf ∧ InGrid G cur ∧ Closed (refBox G cur) r.pos ∧ (r.od < 0 → cur = c)) := by
  intro r c hc
  obtain ⟨hi, hg⟩ := start_inv h tau htau
  obtain ⟨hinv, _⟩ := loop_trav big G m p d h.ok fuel _ hi hg
  set st := (loop big G m d fuel ⟨p, some (locate G p), tau, [], none⟩).1 with hst
  have hcell : r.cell = match st.cur with | none => none | some _ => st.last := rfl
  rw [hcell] at hc
  cases hcur : st.cur with
  | none => rw [hcur] at hc; simp at hc
  | some cur =>
    rw [hcur] at hc
    simp only at hc
    obtain ⟨l1, l2, _, l4⟩ := hinv.cur cur hcur
    refine ⟨cur, l1, l2, l4, fun hneg => ?_⟩
    have := hinv.negod hneg
    rw [hcur, hc] at this
    exact Option.some.inj this

/-- every deposit goes to the leaf that contains the segment (the statement that failed before
39f0cc7): each recorded `(cell, length)` is a forward segment of that length, starting at a point
of the closed box of the leaf `cell` and staying inside it -/
theorem amr_segments_in_cells (big : ℝ) (G : AGrid ℝ) (m : Medium ℝ) (p d : V3 ℝ) (tau : ℝ) (fuel : Nat)
    (h : RayHyp big G p d) (htau : 0 ≤ tau) :
    ∀ e ∈ (interact big G m p d tau fuel).path, ∃ o, GoodDeposit G d o e.1 e.2 := by
  obtain ⟨hi, hg⟩ := start_inv h tau htau
  exact (loop_trav big G m p d h.ok fuel _ hi hg).2

/-- the neighbour pointers built by `set_ngbs` are geometric for every leaf of every grid -/
theorem amr_neighbours_geometric (G : AGrid ℝ) (hb : PosBox G.box) (hx : 0 < G.g.nx) (hy : 0 < G.g.ny)
    (hz : 0 < G.g.nz)
    (hnarrow : ∀ r', cellAt G.g r' = some .leaf → ∀ a, a < 3 → per G a = true → bsd (refBox G r') a < bsd G.box a)
    (r : Ref) (hleaf : cellAt G.g r = some .leaf) (hg : InGrid G r) : NgbGeo G r :=
  ngb_geo G hb hx hy hz hnarrow r hleaf hg

/-- non-vacuity: two unrefined blocks over the box [0,2]×[0,1]×[0,1], open boundaries, a photon at
(0.5, 0.5, 0.5) moving along +x, `big = 10` -/
example : RayHyp 10 (⟨⟨2, 1, 1, fun _ _ _ => .leaf⟩, ⟨0, 0, 0, 2, 1, 1⟩, false, false, false⟩ : AGrid ℝ)
    ⟨0.5, 0.5, 0.5⟩ ⟨1, 0, 0⟩ := by
  refine ⟨⟨by decide, by decide, by decide, by decide, by decide, by decide, fun _ _ _ => by show depth Tree.leaf ≤ 10; decide⟩,
    by unfold PosBox; norm_num, by unfold InBox; norm_num, ⟨0, by decide, by simp [vget]⟩,
    fun r _ a _ hp => by simp [per] at hp, ?_⟩
  intro r o hleaf ho a ha hne
  have ha' : a = 0 ∨ a = 1 ∨ a = 2 := by omega
  rcases ha' with rfl | rfl | rfl
  · -- the only moving axis: the distance to the upper wall is at most the side of the block
    have hpath : r.path = [] := by
      unfold cellAt at hleaf
      cases hp : r.path with
      | nil => rfl
      | cons i rest => rw [hp] at hleaf; simp [treeAt] at hleaf
    have h0 := ho 0 (by decide)
    simp only [refBox, hpath, boxOfPath, blockBox, ofNat_real, blo, bsd, vget] at h0 ⊢
    simp only [wp, wallParam, zero_lit, refBox, hpath, boxOfPath, blockBox, ofNat_real, blo, bsd, vget]
    norm_num at h0 ⊢
    linarith
  · simp [vget] at hne
  · simp [vget] at hne

end AMRT

/-! ## Octree (`Octree::get_ngbs`, `get_ngbs_sphere`) -/
namespace Oct
open CMacVerif.GridNum

/-- under the covering hypotheses of the tree boxes (below every node the box distance is a lower
bound of the distances of the stored points and the node variable an upper bound of their
variables) the pruned search returns exactly the brute-force answer over the stored points, in
traversal order.  `pd`/`bd` are arbitrary: this covers the periodic distances as well, *given*
the hypotheses. -/
theorem octree_search_is_bruteforce (pd : Nat → ℝ) (bd : Box3 ℝ → ℝ) (h : Nat → ℝ) (radius : Option ℝ)
    (hr : ∀ r, radius = some r → 0 ≤ r) (t : OT ℝ) (hc : Covered pd bd h t) :
    searchRoot pd bd h radius t = (leavesOf t).filter (fun i => decide (pd i ≤ limOf h radius i)) :=
  searchRoot_eq_filter pd bd h radius hr t hc

/-- non-periodic tree as built by the constructor (`add_position` for 1 … n-1, then
`set_auxiliaries(max)`), positions in the half-open box, any number of positions (a one-position
tree has a leaf as root: the walks start at the root itself, `get_first_node`): the covering
hypotheses hold, hence a stored index is returned iff the centre lies within its smoothing length
(+ radius), and only indices `< n` are returned.  Partial: "stored" — that every index `< n` is
stored needs the positions to separate within the 64 levels of the model's recursion fuel (the
code recurses without bound; equal positions never separate). -/
theorem octree_build_search_partial (pos : Nat → V3 ℝ) (n : Nat) (box : Box3 ℝ) (h : Nat → ℝ) (c : V3 ℝ)
    (radius : Option ℝ) (hr : ∀ r, radius = some r → 0 ≤ r) (hb : PosBox box)
    (hin : ∀ i < n, InBox box (pos i)) (i : Nat) :
    (i ∈ searchRoot (fun i => dist (pos i) c) (fun b => boxDist b c) h radius (build pos n box h) ↔
      i ∈ leavesOf (build pos n box h) ∧ dist (pos i) c ≤ limOf h radius i) ∧
    (i ∈ leavesOf (build pos n box h) → i < n) := by
  obtain ⟨hc, hlt⟩ := build_spec pos n box h c hb hin
  refine ⟨?_, hlt i⟩
  rw [searchRoot_eq_filter _ _ h radius hr _ hc, List.mem_filter, decide_eq_true_eq]

/-- the one-position tree: the stored point is returned iff it is within range (the statement
that failed before the fix of `get_first_node`) -/
theorem octree_single_position (pos : Nat → V3 ℝ) (box : Box3 ℝ) (h : Nat → ℝ) (c : V3 ℝ)
    (radius : Option ℝ) :
    searchRoot (fun i => dist (pos i) c) (fun b => boxDist b c) h radius (build pos 1 box h) =
      if dist (pos 0) c ≤ limOf h radius 0 then [0] else [] := by
  cases radius <;> rfl

/-- the full statement for separated positions: if no two positions are closer than `2⁻⁶²` box
sides on all three axes (`¬ Close box 62`), `add_position` never descends deeper than 63 levels,
every index is stored (`build_all_stored`), and the pruned searches return exactly the brute-force
answer over ALL positions -/
theorem octree_build_search (pos : Nat → V3 ℝ) (n : Nat) (box : Box3 ℝ) (h : Nat → ℝ) (c : V3 ℝ)
    (radius : Option ℝ) (hr : ∀ r, radius = some r → 0 ≤ r) (hb : PosBox box)
    (hin : ∀ i < n, InBox box (pos i))
    (sep : ∀ i j, i < n → j < n → i ≠ j → ¬ Close box 62 (pos i) (pos j)) (i : Nat) :
    i ∈ searchRoot (fun i => dist (pos i) c) (fun b => boxDist b c) h radius (build pos n box h) ↔
      i < n ∧ dist (pos i) c ≤ limOf h radius i := by
  obtain ⟨h1, h2⟩ := octree_build_search_partial pos n box h c radius hr hb hin i
  rw [h1]
  constructor
  · rintro ⟨a, b⟩; exact ⟨h2 a, b⟩
  · rintro ⟨a, b⟩; exact ⟨build_all_stored pos n box h hb hin sep i a, b⟩

/-- the separation hypothesis is satisfiable: two positions half a box apart -/
example : ∀ i j, i < 2 → j < 2 → i ≠ j → ¬ Close (⟨0, 0, 0, 1, 1, 1⟩ : Box3 ℝ) 62
    ((fun i => if i = 0 then (⟨0.25, 0.25, 0.25⟩ : V3 ℝ) else ⟨0.75, 0.5, 0.5⟩) i)
    ((fun i => if i = 0 then (⟨0.25, 0.25, 0.25⟩ : V3 ℝ) else ⟨0.75, 0.5, 0.5⟩) j) := by
  intro i j hi hj hne hc
  have hp : (1 / 2 : ℝ) ^ 62 ≤ 1 / 4 := by
    have : (1 / 2 : ℝ) ^ 62 ≤ (1 / 2 : ℝ) ^ 2 := pow_le_pow_of_le_one (by norm_num) (by norm_num) (by norm_num)
    linarith [this, (by norm_num : (1 / 2 : ℝ) ^ 2 = 1 / 4)]
  have hi' : i = 0 ∨ i = 1 := by omega
  have hj' : j = 0 ∨ j = 1 := by omega
  obtain ⟨hx, _, _⟩ := hc
  rcases hi' with rfl | rfl <;> rcases hj' with rfl | rfl
  · exact hne rfl
  · norm_num at hx <;> (rw [abs_lt] at hx; linarith [hx.1])
  · norm_num at hx <;> (rw [abs_lt] at hx; linarith [hx.2])
  · exact hne rfl

/-- `add_position` never loses a stored index and adds at most the new one -/
theorem octree_add_position_leaves (pos : Nat → V3 ℝ) (index fuel : Nat) (t : OT ℝ) (box : Box3 ℝ) (i : Nat) :
    (i ∈ leavesOf (addPos pos index fuel t box) → i ∈ leavesOf t ∨ i = index) ∧
    (i ∈ leavesOf t → i ∈ leavesOf (addPos pos index fuel t box)) :=
  addPos_leaves pos index fuel t box i

/-- the hypotheses are satisfiable: two positions in the unit box -/
example : PosBox (⟨0, 0, 0, 1, 1, 1⟩ : Box3 ℝ) ∧
    (∀ i < 2, InBox (⟨0, 0, 0, 1, 1, 1⟩ : Box3 ℝ) ((fun i => if i = 0 then ⟨0.25, 0.25, 0.25⟩ else ⟨0.75, 0.5, 0.5⟩) i)) := by
  refine ⟨⟨by norm_num, by norm_num, by norm_num⟩, ?_⟩
  intro i hi
  have : i = 0 ∨ i = 1 := by omega
  rcases this with rfl | rfl <;> simp only [InBox] <;> norm_num

end Oct

end CMacVerif
