import CMacVerif.Lemmas.HLLC
import CMacVerif.Lemmas.ExactFlux
/-!
# C05 — Riemann fluxes respect the symmetries of the Euler equations

Property theorems only.  Models: `Model/HLLC.lean` (`HLLCRiemannSolver::solve_for_flux`),
`Model/RiemannVacuum.lean` (vacuum branches of `ExactRiemannSolver`), instantiated at `ℝ` with
the `DBL_MIN` guards set to 0 (`tiny = 0`) and `std::isinf(1/x)` true only at `x = 0` (`ovf = 0`).
`g` is the adiabatic index handed to the constructors; the code clamps it to
`G = max(g, 1.00000001) > 1`, so no hypothesis on `g` is needed unless stated.
-/
namespace CMacVerif.C05
open CMacVerif CMacVerif.RiemannVacuum CMacVerif.HLLC

/-- `HLLCRiemannSolver(g).solve_for_flux(ρL, uL, PL, ρR, uR, PR, ·, ·, ·, n, vface)` over `ℝ` -/
noncomputable abbrev hllc (g rhoL : ℝ) (uL : V3 ℝ) (PL rhoR : ℝ) (uR : V3 ℝ) (PR : ℝ)
    (n vf : V3 ℝ) : Flux ℝ :=
  solveForFlux 0 0 g rhoL uL PL rhoR uR PR n vf

/-- sound speed as the HLLC code computes it -/
noncomputable def sound (g rho P : ℝ) : ℝ := Real.sqrt (effGamma g * P * (1.0 / (rho + 0)))

/-- the wave-speed estimates the code computes on its HLLC path for these inputs -/
noncomputable def hllcWaves (g rhoL : ℝ) (uL : V3 ℝ) (PL rhoR : ℝ) (uR : V3 ℝ) (PR : ℝ)
    (n vf : V3 ℝ) : Waves ℝ :=
  let f := faceFrame uL uR n vf
  waves 0 (effGamma g) rhoL f.vL PL (1.0 / (PL + 0)) (sound g rhoL PL) rhoR f.vR PR
    (1.0 / (PR + 0)) (sound g rhoR PR) (f.vR - f.vL) (sound g rhoL PL + sound g rhoR PR)

/-- the inputs for which `solve_for_flux` takes its HLLC path: no vacuum state, and the states
do not separate fast enough to generate vacuum -/
def OnHLLCPath (g rhoL : ℝ) (uL : V3 ℝ) (PL rhoR : ℝ) (uR : V3 ℝ) (PR : ℝ) (n vf : V3 ℝ) : Prop :=
  0 < rhoL ∧ 0 < PL ∧ 0 < rhoR ∧ 0 < PR ∧
    (faceFrame uL uR n vf).vR - (faceFrame uL uR n vf).vL
      < tdgm1 (effGamma g) * (sound g rhoL PL + sound g rhoR PR)

/-! ## Galilean covariance -/

/-- **hllc_galilean.**  Adding one velocity `w` to both states and to the face leaves the mass
flux unchanged and transforms momentum and energy flux by the boost formulas
`p' = p + m w`, `E' = E + w·p + ½|w|² m` (`Flux.boost`), in every regime (vacuum included),
for all inputs. -/
theorem hllc_galilean (g rhoL PL rhoR PR : ℝ) (uL uR n vf w : V3 ℝ) :
    hllc g rhoL (uL.add w) PL rhoR (uR.add w) PR n (vf.add w)
      = (hllc g rhoL uL PL rhoR uR PR n vf).boost w := by
  unfold hllc solveForFlux
  simp only [faceFrame_boost]
  split_ifs
  · exact zeroFlux_boost ..
  · exact vacuumFlux_boost ..
  · exact mainFlux_boost ..

/-! ## Mirror antisymmetry -/

/-- **hllc_mirror.**  Exchanging the two states and reversing the normal negates all five flux
components, for all `ρ, P ≥ 0` (vacuum on either side and vacuum generation included), all
velocities, normals and face velocities — provided that on the HLLC path the contact estimate is
non-zero or the outer wave estimates straddle the face (`h0`: `S* ≠ 0 ∨ S_L < 0 < S_R`).  The
hypothesis excludes exactly the set `S* = 0 ∧ (S_L ≥ 0 ∨ S_R ≤ 0)` (contact estimate exactly at
rest *outside* the fan of the outer estimates: unordered wave speeds), on which the code is not
antisymmetric: `hllc_mirror_fails_for_fast_symmetric_collision` below; recorded finding
`hllc:mirror-at-sstar-zero-unordered-speeds`. -/
theorem hllc_mirror (g rhoL PL rhoR PR : ℝ) (uL uR n vf : V3 ℝ)
    (hrL : 0 ≤ rhoL) (hPL : 0 ≤ PL) (hrR : 0 ≤ rhoR) (hPR : 0 ≤ PR)
    (h0' : OnHLLCPath g rhoL uL PL rhoR uR PR n vf →
      (hllcWaves g rhoL uL PL rhoR uR PR n vf).Sstar ≠ 0 ∨
        ((hllcWaves g rhoL uL PL rhoR uR PR n vf).SLmvL + (faceFrame uL uR n vf).vL < 0 ∧
         0 < (hllcWaves g rhoL uL PL rhoR uR PR n vf).SRmvR + (faceFrame uL uR n vf).vR)) :
    (hllc g rhoR uR PR rhoL uL PL n.neg vf).NegOf (hllc g rhoL uL PL rhoR uR PR n vf) := by
  have h0 : OnHLLCPath g rhoL uL PL rhoR uR PR n vf →
      (hllcWaves g rhoL uL PL rhoR uR PR n vf).Sstar = 0 →
        (hllcWaves g rhoL uL PL rhoR uR PR n vf).SLmvL + (faceFrame uL uR n vf).vL < 0 ∧
        0 < (hllcWaves g rhoL uL PL rhoR uR PR n vf).SRmvR + (faceFrame uL uR n vf).vR := by
    intro hp hz
    rcases h0' hp with h | h
    · exact absurd hz h
    · exact h
  clear h0'
  have hG := effGamma_gt_one g
  unfold hllcWaves OnHLLCPath sound at h0
  unfold hllc solveForFlux
  simp only [faceFrame_mirror]
  have hvL := isVacuum_iff rhoL PL
  have hvR := isVacuum_iff rhoR PR
  simp only [add_zero] at *
  generalize isVacuum 0 rhoL rhoL PL PL = vacL at *
  generalize isVacuum 0 rhoR rhoR PR PR = vacR at *
  have posL : vacL = false → 0 < rhoL ∧ 0 < PL := by
    intro h
    have : ¬ (rhoL = 0 ∨ PL = 0) := by rw [← hvL, h]; decide
    push Not at this
    exact ⟨lt_of_le_of_ne hrL (Ne.symm this.1), lt_of_le_of_ne hPL (Ne.symm this.2)⟩
  have posR : vacR = false → 0 < rhoR ∧ 0 < PR := by
    intro h
    have : ¬ (rhoR = 0 ∨ PR = 0) := by rw [← hvR, h]; decide
    push Not at this
    exact ⟨lt_of_le_of_ne hrR (Ne.symm this.1), lt_of_le_of_ne hPR (Ne.symm this.2)⟩
  have saL : vacL = false → 0 < Real.sqrt (effGamma g * PL * (1.0 / rhoL)) := by
    intro h; have := sqrt_sound_pos hG (posL h).1 (posL h).2; rwa [add_zero] at this
  have saR : vacR = false → 0 < Real.sqrt (effGamma g * PR * (1.0 / rhoR)) := by
    intro h; have := sqrt_sound_pos hG (posR h).1 (posR h).2; rwa [add_zero] at this
  simp only [sqrt_real]
  cases vacL <;> cases vacR
  · -- no vacuum state
    simp only [Bool.and_self, Bool.false_eq_true, if_false, Bool.or_self, Bool.false_or,
      decide_eq_true_eq, FaceFrame.mirror, neg_sub_neg]
    rw [add_comm (Real.sqrt (effGamma g * PR * (1.0 / rhoR)))]
    by_cases hgen : tdgm1 (effGamma g) * (√(effGamma g * PL * (1.0 / rhoL)) + √(effGamma g * PR * (1.0 / rhoR)))
        ≤ (faceFrame uL uR n vf).vR - (faceFrame uL uR n vf).vL
    · rw [if_pos hgen, if_pos hgen]
      exact vacuumFlux_mirror hG _ _ _ _ _ _ false false _ n vf rfl saL saR
        (fun _ _ => by linarith)
    · rw [if_neg hgen, if_neg hgen]
      obtain ⟨pL1, pL2⟩ := posL rfl
      obtain ⟨pR1, pR2⟩ := posR rfl
      have wl := waves_SLmvL_neg (G := effGamma g) (rL := rhoL) (vL := (faceFrame uL uR n vf).vL)
        (rR := rhoR) (vR := (faceFrame uL uR n vf).vR) (PR := PR) (PRi := 1.0 / PR)
        (aR := √(effGamma g * PR * (1.0 / rhoR)))
        (vdiff := (faceFrame uL uR n vf).vR - (faceFrame uL uR n vf).vL)
        (abar := √(effGamma g * PL * (1.0 / rhoL)) + √(effGamma g * PR * (1.0 / rhoR)))
        hG pL2 (saL rfl)
      have wr := waves_SRmvR_pos (G := effGamma g) (rL := rhoL) (vL := (faceFrame uL uR n vf).vL)
        (PL := PL) (PLi := 1.0 / PL) (aL := √(effGamma g * PL * (1.0 / rhoL)))
        (rR := rhoR) (vR := (faceFrame uL uR n vf).vR)
        (vdiff := (faceFrame uL uR n vf).vR - (faceFrame uL uR n vf).vL)
        (abar := √(effGamma g * PL * (1.0 / rhoL)) + √(effGamma g * PR * (1.0 / rhoR)))
        hG pR2 (saR rfl)
      simp only [add_zero] at wl wr
      refine mainFlux_mirror _ _ _ _ _ _ _ _ _ _ _ _ _ _ n vf ?_ ?_ pL1 pR1 wl wr ?_
      · rw [lit1]; field_simp
      · rw [lit1]; field_simp
      · exact h0 ⟨pL1, pL2, pR1, pR2, not_le.mp hgen⟩
  · simp only [Bool.and_true, Bool.and_false, Bool.false_eq_true, if_false, Bool.or_true,
      Bool.true_or, Bool.or_false, if_true]
    exact vacuumFlux_mirror hG _ _ _ _ _ _ false true _ n vf rfl (fun h => saL h)
      (fun h => absurd h (by decide)) (fun _ h => absurd h (by decide))
  · simp only [Bool.and_true, Bool.and_false, Bool.false_eq_true, if_false, Bool.or_true,
      Bool.true_or, Bool.or_false, if_true]
    exact vacuumFlux_mirror hG _ _ _ _ _ _ true false _ n vf rfl (fun h => absurd h (by decide))
      (fun h => saR h) (fun h => absurd h (by decide))
  · simp only [Bool.and_self, if_true]
    exact zeroFlux_neg ..

/-! ## Identical states -/

/-- analytic Euler flux of the state `(ρ, u, P)` through a face with normal `n` moving with
`vface`: `(ρ v, ρ v u' + P n, (½ρ|u'|² + P/(γ-1) + P) v)` with `u' = u - vface`, `v = u'·n`,
transformed to the fixed frame -/
noncomputable def eulerFlux (g rho : ℝ) (u : V3 ℝ) (P : ℝ) (n vf : V3 ℝ) : Flux ℝ :=
  let uf := u.sub vf
  let v := uf.dot n
  (⟨rho * v, (uf.smul (rho * v)).add (n.smul P),
    (1 / 2 * rho * uf.norm2 + P / (effGamma g - 1) + P) * v, 0⟩ : Flux ℝ).boost vf

/-- **hllc_identical.**  Two identical non-vacuum states give the analytic Euler flux of that
state, for every velocity (sub- or supersonic), normal and face velocity. -/
theorem hllc_identical (g rho P : ℝ) (u n vf : V3 ℝ) (hr : 0 < rho) (hP : 0 < P) :
    (hllc g rho u P rho u P n vf).Same (eulerFlux g rho u P n vf) := by
  have hG := effGamma_gt_one g
  have ha := sqrt_sound_pos hG hr hP
  have nv : isVacuum 0 rho rho P P = false := by
    have := isVacuum_iff rho P
    cases h : isVacuum 0 rho rho P P
    · rfl
    · rcases this.mp h with h | h
      · exact absurd h hr.ne'
      · exact absurd h hP.ne'
  unfold hllc solveForFlux eulerFlux
  simp only [add_zero] at ha ⊢
  simp only [nv, Bool.and_self, Bool.false_eq_true, if_false, Bool.or_self, Bool.false_or,
    decide_eq_true_eq, sqrt_real]
  have ht := tdgm1_pos hG
  have hno : ¬ tdgm1 (effGamma g) * (√(effGamma g * P * (1.0 / rho)) + √(effGamma g * P * (1.0 / rho)))
      ≤ (faceFrame u u n vf).vR - (faceFrame u u n vf).vL := by
    have : (faceFrame u u n vf).vR - (faceFrame u u n vf).vL = 0 := by
      unfold faceFrame; simp
    rw [this]; nlinarith
  rw [if_neg hno]
  have hf : faceFrame u u n vf = ⟨u.sub vf, u.sub vf, (u.sub vf).dot n, (u.sub vf).dot n⟩ := rfl
  rw [hf]
  obtain ⟨e1, e2, e3⟩ := mainFlux_identical (G := effGamma g) (1.0 / rho) (1.0 / P) (u.sub vf)
    ((u.sub vf).dot n) n vf hr hP ha
  unfold Flux.Same
  rw [e1, e2, e3, deboost_eq_boost]
  unfold plainFlux Flux.boost gm1inv
  simp only [lit1, lit05]
  have h1 : effGamma g - 1 ≠ 0 := by intro h; linarith
  refine ⟨trivial, trivial, ?_⟩
  field_simp
  ring

/-! ## Vacuum -/

/-- **vacuum_same_as_exact.**  In every vacuum regime (left state vacuum, right state vacuum,
both, or vacuum generated between two receding gases) — i.e. whenever the exact solver's `solve`
takes one of its vacuum exits — the HLLC solver returns exactly the flux that
`ExactRiemannSolver::solve_for_flux` assembles from the exact solver's sampled state.
No hypothesis on the inputs. -/
theorem vacuum_same_as_exact (g rhoL PL rhoR PR : ℝ) (uL uR n vf : V3 ℝ) (F : Flux ℝ)
    (h : solveForFluxIfVacuum 0 g rhoL uL PL rhoR uR PR n vf = some F) :
    (hllc g rhoL uL PL rhoR uR PR n vf).Same F := by
  unfold solveForFluxIfVacuum solveIfVacuum at h
  unfold hllc solveForFlux
  simp only [add_zero, soundSpeed, sqrt_real, lit0] at h ⊢
  generalize isVacuum 0 rhoL rhoL PL PL = vacL at *
  generalize isVacuum 0 rhoR rhoR PR PR = vacR at *
  cases vacL <;> cases vacR
  · simp only [Bool.and_self, Bool.false_eq_true, if_false, Bool.or_self, Bool.false_or,
      decide_eq_true_eq] at h ⊢
    rw [← mul_add] at h
    split_ifs at h ⊢ with hc
    simp only [Option.some.injEq] at h
    rw [← h]
    unfold vacuumFlux
    rw [vacuumSample_eq _ _ _ _ _ _ _ _ _ _ _ rfl]
    exact ⟨rfl, rfl, rfl⟩
  · simp only [Bool.and_true, Bool.false_eq_true, if_false, Bool.or_true,
      Bool.true_or, if_true, Option.some.injEq] at h ⊢
    rw [← h]
    unfold vacuumFlux
    rw [vacuumSample_eq _ _ _ _ _ _ _ _ _ _ _ rfl]
    unfold solveVacuum
    simp only [Bool.and_true, Bool.false_eq_true, if_false, if_true]
    try exact ⟨rfl, rfl, rfl⟩
  · simp only [Bool.and_false, Bool.false_eq_true, if_false,
      Bool.true_or, Bool.or_false, if_true, Option.some.injEq] at h ⊢
    rw [← h]
    unfold vacuumFlux
    rw [vacuumSample_eq _ _ _ _ _ _ _ _ _ _ _ rfl]
    unfold solveVacuum
    simp only [Bool.and_false, Bool.false_eq_true, if_false, if_true]
    try exact ⟨rfl, rfl, rfl⟩
  · simp only [Bool.and_self, Bool.or_self, if_true, Option.some.injEq] at h ⊢
    rw [← h]
    simp [solveVacuum, fluxFromSample, vacuumState, Flux.Same, lit0]

/-- **vacuum_sample_physical.**  Every state returned by a vacuum exit of
`ExactRiemannSolver::solve`, at every sampling speed `x/t = dxdt`, has `ρ ≥ 0` and `P ≥ 0`
(given `ρ, P ≥ 0` on input; all velocities, all `g`).  The same samplers at `x/t = 0` are the
ones the HLLC solver uses (`vacuumSample_eq`, `vacuum_same_as_exact`). -/
theorem vacuum_sample_physical (g rhoL uL PL rhoR uR PR dxdt : ℝ) (s : Sample ℝ)
    (hrL : 0 ≤ rhoL) (hPL : 0 ≤ PL) (hrR : 0 ≤ rhoR) (hPR : 0 ≤ PR)
    (h : solveIfVacuum 0 g rhoL uL PL rhoR uR PR dxdt = some s) : 0 ≤ s.rho ∧ 0 ≤ s.P :=
  solveIfVacuum_physical hrL hPL hrR hPR h

/-- the state the HLLC solver samples on its vacuum path is physical as well -/
theorem hllc_vacuum_sample_physical (g rhoL vL PL aL rhoR vR PR aR : ℝ) (vacL vacR : Bool)
    (hrL : 0 ≤ rhoL) (hPL : 0 ≤ PL) (hrR : 0 ≤ rhoR) (hPR : 0 ≤ PR) :
    0 ≤ (vacuumSample (effGamma g) rhoL vL PL aL vacL rhoR vR PR aR vacR).rho ∧
      0 ≤ (vacuumSample (effGamma g) rhoL vL PL aL vacL rhoR vR PR aR vacR).P := by
  have hG := effGamma_gt_one g
  unfold vacuumSample
  rw [HLLC.sampleRightVacuum_eq, HLLC.sampleLeftVacuum_eq, HLLC.sampleVacuumGeneration_eq]
  split_ifs
  · exact sampleRightVacuum_physical hG hrL hPL
  · exact sampleLeftVacuum_physical hG hrR hPR
  · exact sampleVacuumGeneration_physical hG hrL hPL hrR hPR

/-- **vacuum_galilean.**  Boosting both gases and the sampling speed by `w` leaves the sampled
density and pressure unchanged and shifts the sampled velocity by `w` (`Sample.boost`; the
vacuum state keeps its conventional velocity 0), in every vacuum regime, for all inputs. -/
theorem vacuum_galilean (g rhoL uL PL rhoR uR PR dxdt w : ℝ) :
    solveIfVacuum 0 g rhoL (uL + w) PL rhoR (uR + w) PR (dxdt + w)
      = (solveIfVacuum 0 g rhoL uL PL rhoR uR PR dxdt).map (Sample.boost w) :=
  solveIfVacuum_galilean ..

/-- **vacuum_fan_continuous.**  The rarefaction fan next to vacuum joins the undisturbed gas at
its head (`x/t = u ∓ a`) and reaches `ρ = P = 0` at its tail (`x/t = u ± 2a/(γ-1)`), on both
sides (the statements that failed before fix 44e3aa0). -/
theorem vacuum_fan_continuous (g rho u P a : ℝ) (ha : a ≠ 0) (tag : Nat) :
    RiemannVacuum.leftFan (effGamma g) rho u P a (u - a) tag = ⟨rho, u, P, -1, tag⟩ ∧
    RiemannVacuum.rightFan (effGamma g) rho u P a (u + a) tag = ⟨rho, u, P, 1, tag⟩ ∧
    (RiemannVacuum.leftFan (effGamma g) rho u P a (u + tdgm1 (effGamma g) * a) tag).rho = 0 ∧
    (RiemannVacuum.leftFan (effGamma g) rho u P a (u + tdgm1 (effGamma g) * a) tag).P = 0 ∧
    (RiemannVacuum.rightFan (effGamma g) rho u P a (u - tdgm1 (effGamma g) * a) tag).rho = 0 ∧
    (RiemannVacuum.rightFan (effGamma g) rho u P a (u - tdgm1 (effGamma g) * a) tag).P = 0 := by
  have hG := effGamma_gt_one g
  exact ⟨leftFan_head hG rho u P a ha tag, rightFan_head hG rho u P a ha tag,
    (leftFan_tail hG rho u P a ha tag).1, (leftFan_tail hG rho u P a ha tag).2,
    (rightFan_tail hG rho u P a ha tag).1, (rightFan_tail hG rho u P a ha tag).2⟩

/-! ## Textbook HLLC -/

/-- Toro's wave-speed estimates for these inputs (in the frame of the face) -/
noncomputable def toroSpeeds (g rhoL : ℝ) (uL : V3 ℝ) (PL rhoR : ℝ) (uR : V3 ℝ) (PR : ℝ)
    (n vf : V3 ℝ) : Toro.Speeds :=
  Toro.speeds (effGamma g) rhoL ((uL.sub vf).dot n) PL rhoR ((uR.sub vf).dot n) PR

/-- Toro's HLLC flux `F_K + S_K (U*_K - U_K)` / `F_K` (see `HLLC.Toro`) evaluated in the frame
of the face and transformed to the fixed frame -/
noncomputable def toroFlux (g rhoL : ℝ) (uL : V3 ℝ) (PL rhoR : ℝ) (uR : V3 ℝ) (PR : ℝ)
    (n vf : V3 ℝ) : Flux ℝ :=
  let T := Toro.flux (effGamma g) rhoL (uL.sub vf) PL rhoR (uR.sub vf) PR n
  (⟨T.1, T.2.1, T.2.2, 0⟩ : Flux ℝ).boost vf

theorem not_vacuum {rho P : ℝ} (hr : 0 < rho) (hP : 0 < P) : isVacuum 0 rho rho P P = false := by
  have := isVacuum_iff rho P
  cases h : isVacuum 0 rho rho P P
  · rfl
  · rcases this.mp h with h | h
    · exact absurd h hr.ne'
    · exact absurd h hP.ne'

/-- **hllc_textbook.**  On the HLLC path, whenever the wave-speed estimates are ordered
(`S_L ≤ S* ≤ S_R`), all five components of the flux the code returns equal Toro's HLLC flux
built from the star states `U*_K` (momentum and energy included: this is the statement that
failed before fix ed44d42). -/
theorem hllc_textbook (g rhoL PL rhoR PR : ℝ) (uL uR n vf : V3 ℝ)
    (hpath : OnHLLCPath g rhoL uL PL rhoR uR PR n vf)
    (h1 : (toroSpeeds g rhoL uL PL rhoR uR PR n vf).SL ≤ (toroSpeeds g rhoL uL PL rhoR uR PR n vf).Sstar)
    (h2 : (toroSpeeds g rhoL uL PL rhoR uR PR n vf).Sstar ≤ (toroSpeeds g rhoL uL PL rhoR uR PR n vf).SR) :
    (hllc g rhoL uL PL rhoR uR PR n vf).Same (toroFlux g rhoL uL PL rhoR uR PR n vf) := by
  have hG := effGamma_gt_one g
  obtain ⟨pL1, pL2, pR1, pR2, hgen⟩ := hpath
  unfold sound at hgen
  unfold toroSpeeds at h1 h2
  unfold hllc solveForFlux toroFlux
  simp only [add_zero] at hgen ⊢
  simp only [not_vacuum pL1 pL2, not_vacuum pR1 pR2, Bool.and_self, Bool.false_eq_true, if_false,
    Bool.or_self, Bool.false_or, decide_eq_true_eq, sqrt_real]
  rw [if_neg (not_le.mpr hgen)]
  have hf : faceFrame uL uR n vf = ⟨uL.sub vf, uR.sub vf, (uL.sub vf).dot n, (uR.sub vf).dot n⟩ := rfl
  rw [hf, ← deboost_eq_boost]
  have := mainFlux_eq_toro (G := effGamma g) rhoL PL rhoR PR (uL.sub vf) (uR.sub vf) n vf hG
    pL1.ne' pR1.ne' h1 h2
  simp only [add_zero] at this
  exact this

/-! ## No jump where a wave changes direction -/

/-- **hllc_continuous_switch.**  The formulas on the two sides of each switch of the HLLC path
agree on the switch: (a) at `S_K = 0` (`K = L, R`; `SK` is the relative speed `S_K - v_K`) the
corrected flux `F*_K` equals the upwind flux `F_K`; (b) at `S* = 0` (the code's contact estimate
`sStar`, outer waves not at rest, non-degenerate denominator) the left star flux equals the
right star flux. -/
theorem hllc_continuous_switch :
    (∀ (G rho : ℝ) (uf : V3 ℝ) (v P ri SK Ss : ℝ) (n : V3 ℝ), SK + v = 0 →
        starFlux G rho uf v P ri SK Ss n = plainFlux G rho uf v P ri n) ∧
    (∀ (G rL : ℝ) (ufL : V3 ℝ) (vL PL SL rR : ℝ) (ufR : V3 ℝ) (vR PR SR : ℝ) (n : V3 ℝ),
        0 < rL → 0 < rR → SL + vL ≠ 0 → SR + vR ≠ 0 → SL < 0 → 0 < SR →
        sStar 0 rL vL PL SL rR vR PR SR = 0 →
        starFlux G rL ufL vL PL (1.0 / (rL + 0)) SL 0 n
          = starFlux G rR ufR vR PR (1.0 / (rR + 0)) SR 0 n) := by
  constructor
  · intro G rho uf v P ri SK Ss n h
    unfold starFlux starCorrection
    simp only [h, zero_mul, add_zero]
    refine Prod.ext rfl (Prod.ext ?_ rfl)
    ext <;> simp [V3.add, V3.smul]
  · intro G rL ufL vL PL SL rR ufR vR PR SR n hrL hrR h1 h2 h3 h4 h0
    refine starFlux_agree_at_zero G rL ufL vL PL _ SL rR ufR vR PR _ SR n ?_ ?_ h1 h2 h3.ne h4.ne' ?_ h0
    · rw [lit1, add_zero]; field_simp
    · rw [lit1, add_zero]; field_simp
    · nlinarith

/-- On the HLLC path, a contact estimate exactly at rest between outer wave estimates that
straddle the face carries no mass, and the energy flux is the work done on the moving face,
`E = vface · p` (`= 0` for a face at rest) — whatever the two states are. -/
theorem hllc_contact_at_rest (g rhoL PL rhoR PR : ℝ) (uL uR n vf : V3 ℝ)
    (hpath : OnHLLCPath g rhoL uL PL rhoR uR PR n vf)
    (hS : (hllcWaves g rhoL uL PL rhoR uR PR n vf).Sstar = 0)
    (hSL : (hllcWaves g rhoL uL PL rhoR uR PR n vf).SLmvL + (faceFrame uL uR n vf).vL < 0) :
    (hllc g rhoL uL PL rhoR uR PR n vf).m = 0 ∧
      (hllc g rhoL uL PL rhoR uR PR n vf).e = vf.dot (hllc g rhoL uL PL rhoR uR PR n vf).p := by
  have hG := effGamma_gt_one g
  obtain ⟨pL1, pL2, pR1, pR2, hgen⟩ := hpath
  unfold hllcWaves at hS hSL
  unfold sound at hgen hS hSL
  unfold hllc solveForFlux
  simp only [add_zero] at hgen hS hSL ⊢
  simp only [not_vacuum pL1 pL2, not_vacuum pR1 pR2, Bool.and_self, Bool.false_eq_true, if_false,
    Bool.or_self, Bool.false_or, decide_eq_true_eq, sqrt_real]
  rw [if_neg (not_le.mpr hgen)]
  have saL := sqrt_sound_pos hG pL1 pL2
  have wl := waves_SLmvL_neg (G := effGamma g) (rL := rhoL) (vL := (faceFrame uL uR n vf).vL)
    (rR := rhoR) (vR := (faceFrame uL uR n vf).vR) (PR := PR) (PRi := 1.0 / PR)
    (aR := √(effGamma g * PR * (1.0 / rhoR)))
    (vdiff := (faceFrame uL uR n vf).vR - (faceFrame uL uR n vf).vL)
    (abar := √(effGamma g * PL * (1.0 / rhoL)) + √(effGamma g * PR * (1.0 / rhoR)))
    hG pL2 saL
  simp only [add_zero] at wl
  refine mainFlux_contact_at_rest _ _ _ _ _ _ _ _ _ _ _ _ _ _ n vf ?_ hS wl.ne hSL
  rw [lit1]; field_simp

/-! ## Mirror-image states (reflecting wall) -/

/-- velocity of the mirror image of a gas moving with `u`, with respect to a face with unit
normal `n` that moves with `vface` -/
noncomputable def mirrorVelocity (u n vf : V3 ℝ) : V3 ℝ := u.sub (n.smul (2 * (u.sub vf).dot n))

/-- **mirror_no_exchange.**  A state and its mirror image (same `ρ, P`, normal velocity
relative to the face reversed) approaching each other with less than 1.5 sound speeds — or
receding at any speed, vacuum generation included — exchange no mass, and no energy beyond the
work done on the moving face (`E = vface·p`; `E = 0` for a face at rest).
Any `g`, any unit normal, any face velocity, any tangential velocity. -/
theorem mirror_no_exchange (g rho P : ℝ) (uL n vf : V3 ℝ) (hr : 0 < rho) (hP : 0 < P)
    (hn : n.norm2 = 1) (hv : (uL.sub vf).dot n < 3 / 2 * sound g rho P) :
    (hllc g rho uL P rho (mirrorVelocity uL n vf) P n vf).m = 0 ∧
    (hllc g rho uL P rho (mirrorVelocity uL n vf) P n vf).e
      = vf.dot (hllc g rho uL P rho (mirrorVelocity uL n vf) P n vf).p := by
  have hG := effGamma_gt_one g
  have ha := sqrt_sound_pos hG hr hP
  have hvR : ((mirrorVelocity uL n vf).sub vf).dot n = -((uL.sub vf).dot n) := by
    unfold mirrorVelocity
    simp only [V3.sub, V3.smul, V3.dot, V3.norm2] at hn ⊢
    linear_combination (-2 * ((uL.x - vf.x) * n.x + (uL.y - vf.y) * n.y + (uL.z - vf.z) * n.z)) * hn
  have hf : faceFrame uL (mirrorVelocity uL n vf) n vf
      = ⟨uL.sub vf, (mirrorVelocity uL n vf).sub vf, (uL.sub vf).dot n, -((uL.sub vf).dot n)⟩ := by
    unfold faceFrame; simp only [hvR]
  have ha2 : √(effGamma g * P * (1.0 / (rho + 0))) * √(effGamma g * P * (1.0 / (rho + 0)))
      = effGamma g * P * (1 / rho) := by
    rw [Real.mul_self_sqrt (by rw [lit1, add_zero]; positivity), lit1, add_zero]
  unfold sound at hv
  unfold hllc solveForFlux
  simp only [add_zero] at ha ha2 hv ⊢
  simp only [not_vacuum hr hP, Bool.and_self, Bool.false_eq_true, if_false,
    Bool.or_self, Bool.false_or, decide_eq_true_eq, sqrt_real, hf]
  split_ifs with hgen
  · exact vacuumFlux_mirror_states _ _ n vf hG ha hgen
  · have := mainFlux_mirror_states (G := effGamma g) (uL.sub vf) ((mirrorVelocity uL n vf).sub vf)
      n vf hG hr hP ha ha2 hv
    simp only [add_zero] at this
    exact this

/-! ## The unconditional mirror statement fails for the code (defect) -/

/-- Two identical gases (`γ = 2, ρ = 2, P = 1`, sound speed 1) colliding head-on at Mach 2, seen
with the normal pointing either way (`s = ±1`): the code returns the mass flux `+4` in both
orientations (the contact estimate is exactly 0 and `S_L = v - a q = 0` is not negative, so the
plain upwind flux of whichever state is called "left" is returned). -/
theorem fast_collision_mass_flux (s : ℝ) (hs : s = 1 ∨ s = -1) :
    (hllc 2 2 ⟨2 * s, 0, 0⟩ 1 2 ⟨-2 * s, 0, 0⟩ 1 ⟨s, 0, 0⟩ ⟨0, 0, 0⟩).m = 4 := by
  have hG : effGamma (2:ℝ) = 2 := effGamma_eq 2 (by norm_num)
  have hs2 : s * s = 1 := by rcases hs with h | h <;> rw [h] <;> norm_num
  have hsq : √((2:ℝ) * 1 * (1.0 / 2)) = 1 := by
    rw [lit1]; norm_num
  have hf : faceFrame (⟨2 * s, 0, 0⟩ : V3 ℝ) ⟨-2 * s, 0, 0⟩ ⟨s, 0, 0⟩ ⟨0, 0, 0⟩
      = ⟨⟨2 * s, 0, 0⟩, ⟨-2 * s, 0, 0⟩, 2, -2⟩ := by
    unfold faceFrame
    simp only [V3.sub, V3.dot, sub_zero, mul_zero, add_zero]
    congr 1 <;> nlinarith
  unfold hllc solveForFlux
  simp only [add_zero, hG, hf, sqrt_real, hsq]
  rw [not_vacuum (by norm_num) (by norm_num)]
  simp only [Bool.and_self, Bool.false_eq_true, if_false, Bool.or_self, Bool.false_or, decide_eq_true_eq]
  have ht : tdgm1 (2:ℝ) = 2 := by unfold tdgm1; rw [lit2, lit1]; norm_num
  rw [if_neg (by rw [ht]; norm_num)]
  have e1 : (-2 : ℝ) - 2 = -2 - 2 := rfl
  have := mainFlux_mirror_fast (G := 2) (rho := 2) (P := 1) (a := 1) (v := 2) (1.0 / 2) (1.0 / 1)
    ⟨2 * s, 0, 0⟩ ⟨-2 * s, 0, 0⟩ ⟨s, 0, 0⟩ ⟨0, 0, 0⟩ ?_
  · rw [this]; norm_num
  · rw [pstar_mirror (by norm_num) (by norm_num) (by norm_num) (by norm_num)]
    unfold qFac gp1d2g
    rw [if_pos (by norm_num)]
    simp only [sqrt_real, lit1, lit05]
    have : (1:ℝ) + 1 / 2 * (2 + 1) / 2 * ((1 + 2 * 2 * 1) * (1 / 1) - 1) = 2 ^ 2 := by norm_num
    rw [this, Real.sqrt_sq (by norm_num)]
    norm_num


/-- **`hllc_mirror` without `h0` is false**: admissible inputs (positive `ρ, P`, `γ = 2`, unit
normal, face at rest) for which exchanging the states and reversing the normal does *not* negate
the flux.  Exactly mirror-symmetric states closing faster than `a·q` (Mach ≳ 1.62…2 depending on
`γ`) make `S* = 0` and `S_L ≥ 0`; see the finding reported with the check. -/
theorem hllc_mirror_fails_for_fast_symmetric_collision :
    ∃ (g rhoL PL rhoR PR : ℝ) (uL uR n vf : V3 ℝ),
      0 < rhoL ∧ 0 < PL ∧ 0 < rhoR ∧ 0 < PR ∧ 1 < g ∧ g ≤ 2 ∧ n.norm2 = 1 ∧
      ¬ (hllc g rhoR uR PR rhoL uL PL n.neg vf).NegOf (hllc g rhoL uL PL rhoR uR PR n vf) := by
  refine ⟨2, 2, 1, 2, 1, ⟨2, 0, 0⟩, ⟨-2, 0, 0⟩, ⟨1, 0, 0⟩, ⟨0, 0, 0⟩, by norm_num, by norm_num,
    by norm_num, by norm_num, by norm_num, by norm_num, by norm_num [V3.norm2], ?_⟩
  intro h
  have h1 := fast_collision_mass_flux 1 (Or.inl rfl)
  have h2 := fast_collision_mass_flux (-1) (Or.inr rfl)
  have e1 : (⟨2 * (1:ℝ), 0, 0⟩ : V3 ℝ) = ⟨2, 0, 0⟩ := by norm_num
  have e2 : (⟨-2 * (1:ℝ), 0, 0⟩ : V3 ℝ) = ⟨-2, 0, 0⟩ := by norm_num
  have e3 : (⟨2 * (-1:ℝ), 0, 0⟩ : V3 ℝ) = ⟨-2, 0, 0⟩ := by norm_num
  have e4 : (⟨-2 * (-1:ℝ), 0, 0⟩ : V3 ℝ) = ⟨2, 0, 0⟩ := by norm_num
  have e5 : (⟨1, 0, 0⟩ : V3 ℝ).neg = ⟨-1, 0, 0⟩ := by simp [V3.neg]
  rw [e1, e2] at h1
  rw [e3, e4] at h2
  rw [e5] at h
  have := h.1
  rw [h1, h2] at this
  norm_num at this

/-! ## The exact solver (complete `ExactRiemannSolver::solve_for_flux`, iterative path included)

`ExactFlux.solve1D` is `ExactRiemannSolver::solve` (C11's model: vacuum exits, Newton/Brent root
finding with fuel `nf`/`bf`, shock/rarefaction samplers); `ExactFlux.solveForFlux` wraps it with
the frame change and the flux assembly.  Everything below holds for every fuel, i.e. for whatever
pressure the root finder returns: the symmetries do not depend on its convergence. -/

/-- **exact_galilean.**  `ExactRiemannSolver::solve`, every regime, every sampling speed:
boosting both gases and `x/t` by `w` leaves flag, density and pressure unchanged and shifts the
sampled velocity by `w` (the vacuum state keeps its conventional velocity 0).  No hypotheses. -/
theorem exact_galilean (g : ℝ) (nf bf : ℕ) (rhoL uL PL rhoR uR PR dxdt w : ℝ) :
    ExactFlux.solve1D 0 g nf bf rhoL (uL + w) PL rhoR (uR + w) PR (dxdt + w)
      = (ExactFlux.solve1D 0 g nf bf rhoL uL PL rhoR uR PR dxdt).boost w :=
  ExactFlux.solve1D_galilean ..

/-- **exact_flux_galilean.**  `ExactRiemannSolver::solve_for_flux`: a common boost of both states
and the face transforms the flux by the boost formulas (`Flux.boost`).  No hypotheses. -/
theorem exact_flux_galilean (g : ℝ) (nf bf : ℕ) (rhoL PL rhoR PR : ℝ) (uL uR n vf w : V3 ℝ) :
    ExactFlux.solveForFlux 0 g nf bf rhoL (uL.add w) PL rhoR (uR.add w) PR n (vf.add w)
      = (ExactFlux.solveForFlux 0 g nf bf rhoL uL PL rhoR uR PR n vf).boost w :=
  ExactFlux.solveForFlux_boost ..

/-- **exact_mirror.**  `ExactRiemannSolver::solve`, every regime: exchanging the states, reversing
both velocities and the sampling speed gives the mirror image (same `ρ`, `P`, reversed velocity,
negated flag) — at every sampling speed that does not sit exactly on the contact, on the tail of
a fan next to the star region, or on both fronts of a generated vacuum (`MirrorTieFree`; at the
contact the solution is two-valued, so the statement cannot hold there). -/
theorem exact_mirror (g : ℝ) (nf bf : ℕ) (rhoL uL PL rhoR uR PR dxdt : ℝ)
    (ht : ExactFlux.MirrorTieFree g nf bf rhoL uL PL rhoR uR PR dxdt) :
    (ExactFlux.solve1D 0 g nf bf rhoR (-uR) PR rhoL (-uL) PL (-dxdt)).MirrorOf
      (ExactFlux.solve1D 0 g nf bf rhoL uL PL rhoR uR PR dxdt) :=
  ExactFlux.solve1D_mirror g nf bf rhoL uL PL rhoR uR PR dxdt ht

/-- **exact_flux_mirror** (`_partial`: off the ties).  `ExactRiemannSolver::solve_for_flux`:
exchanging the states and reversing the normal negates all five flux components, when `x/t = 0`
is tie-free in the frame of the face.  Missing: the ties, in particular `u* = 0` (exactly
mirror-symmetric states), where the flux is still antisymmetric provided the star region is
sampled on both sides — which depends on how far the root finder has converged (C11). -/
theorem exact_flux_mirror_partial (g : ℝ) (nf bf : ℕ) (rhoL PL rhoR PR : ℝ) (uL uR n vf : V3 ℝ)
    (ht : ExactFlux.MirrorTieFree g nf bf rhoL (faceFrame uL uR n vf).vL PL rhoR
      (faceFrame uL uR n vf).vR PR 0) :
    (ExactFlux.solveForFlux 0 g nf bf rhoR uR PR rhoL uL PL n.neg vf).NegOf
      (ExactFlux.solveForFlux 0 g nf bf rhoL uL PL rhoR uR PR n vf) :=
  ExactFlux.solveForFlux_mirror g nf bf rhoL PL rhoR PR uL uR n vf ht

/-- **exact_identical.**  Two identical non-vacuum states: `solve` returns that state at every
sampling speed (the initial guess `P` is already a root, so no iteration happens), and
`solve_for_flux` returns the analytic Euler flux — for every fuel. -/
theorem exact_identical (g : ℝ) (nf bf : ℕ) (rho P : ℝ) (u n vf : V3 ℝ) (hr : 0 < rho) (hP : 0 < P) :
    (∀ v d : ℝ, (ExactFlux.solve1D 0 g nf bf rho v P rho v P d).rho = rho ∧
      (ExactFlux.solve1D 0 g nf bf rho v P rho v P d).u = v ∧
      (ExactFlux.solve1D 0 g nf bf rho v P rho v P d).P = P) ∧
    (ExactFlux.solveForFlux 0 g nf bf rho u P rho u P n vf).Same (eulerFlux g rho u P n vf) := by
  refine ⟨fun v d => ?_, ?_⟩
  · obtain ⟨a, b, c, _⟩ := ExactFlux.solve1D_identical g nf bf (rho := rho) (P := P) v d hr hP
    exact ⟨a, b, c⟩
  · have hG := effGamma_gt_one g
    have hf : faceFrame u u n vf = ⟨u.sub vf, u.sub vf, (u.sub vf).dot n, (u.sub vf).dot n⟩ := rfl
    obtain ⟨a, b, c, d⟩ := ExactFlux.solve1D_identical g nf bf (rho := rho) (P := P)
      ((u.sub vf).dot n) 0 hr hP
    unfold ExactFlux.solveForFlux ExactFlux.fluxWith eulerFlux
    simp only [hf, lit0]
    generalize ExactFlux.solve1D 0 g nf bf rho ((u.sub vf).dot n) P rho ((u.sub vf).dot n) P 0 = s at *
    have hz : ∀ p : V3 ℝ, p.add (n.smul ((u.sub vf).dot n - (u.sub vf).dot n)) = p := by
      intro p; ext <;> simp [V3.add, V3.smul]
    unfold fluxFromSample
    rcases d with d | d
    · simp only [d, a, b, c, hz]
      simp only [show ((1 : Int) ≠ 0) = True by decide, show ((1 : Int) = -1) = False by decide,
        if_true, if_false, lit1, if_pos hG, deboost_eq_boost]
      unfold Flux.Same Flux.boost gm1inv
      simp only [lit1, lit05]
      refine ⟨trivial, trivial, ?_⟩
      have : effGamma g - 1 ≠ 0 := by intro h; linarith
      field_simp
    · simp only [d, a, b, c, hz]
      simp only [show ((-1 : Int) ≠ 0) = True by decide, if_true, lit1, if_pos hG, deboost_eq_boost]
      unfold Flux.Same Flux.boost gm1inv
      simp only [lit1, lit05]
      refine ⟨trivial, trivial, ?_⟩
      have : effGamma g - 1 ≠ 0 := by intro h; linarith
      field_simp

/-- **vacuum_same_as_exact, complete model.**  In every vacuum regime the HLLC flux equals the
flux of the complete exact solver (`vacuum_same_as_exact` composed with `solveForFlux_vacuum`). -/
theorem vacuum_same_as_exact_full (g : ℝ) (nf bf : ℕ) (rhoL PL rhoR PR : ℝ) (uL uR n vf : V3 ℝ)
    (h : (solveForFluxIfVacuum 0 g rhoL uL PL rhoR uR PR n vf).isSome = true) :
    (hllc g rhoL uL PL rhoR uR PR n vf).Same
      (ExactFlux.solveForFlux 0 g nf bf rhoL uL PL rhoR uR PR n vf) := by
  obtain ⟨F, hF⟩ := Option.isSome_iff_exists.mp h
  obtain ⟨a1, a2, a3⟩ := vacuum_same_as_exact g rhoL PL rhoR PR uL uR n vf F hF
  obtain ⟨b1, b2, b3⟩ := ExactFlux.solveForFlux_vacuum g nf bf rhoL PL rhoR PR uL uR n vf F hF
  exact ⟨a1.trans b1.symm, a2.trans b2.symm, a3.trans b3.symm⟩

/-- **exact_mirror_no_exchange** (`_partial`: hypothesis `hstar`).  Mirror-image states through
the exact solver, any closing or receding speed, any fuel: the star velocity is *exactly* zero
(`star_mirror_states`: the root finder's result cancels out), so whenever the state sampled on the
face is the star state (`hstar`; not vacuum), no mass crosses and the energy flux is the work on
the moving face.  Missing: `hstar` itself — that the outer waves computed from the returned `P*`
leave the face on their own sides — which needs the accuracy of the root finder (C11); the check
measures it on every run (evidence `exact_mirror_star_region`). -/
theorem exact_mirror_no_exchange_partial (g : ℝ) (nf bf : ℕ) (rho P : ℝ) (uL n vf : V3 ℝ)
    (hn : n.norm2 = 1)
    (hstar : (ExactFlux.solve1D 0 g nf bf rho ((uL.sub vf).dot n) P rho (-((uL.sub vf).dot n)) P 0).flag ≠ 0 ∧
      (ExactFlux.solve1D 0 g nf bf rho ((uL.sub vf).dot n) P rho (-((uL.sub vf).dot n)) P 0).u
        = (CMacVerif.ExactRiemann.star (CMacVerif.ExactRiemann.mkConsts g) nf bf rho
            ((uL.sub vf).dot n) P rho (-((uL.sub vf).dot n)) P).ustar) :
    (ExactFlux.solveForFlux 0 g nf bf rho uL P rho (mirrorVelocity uL n vf) P n vf).m = 0 ∧
    (ExactFlux.solveForFlux 0 g nf bf rho uL P rho (mirrorVelocity uL n vf) P n vf).e
      = vf.dot (ExactFlux.solveForFlux 0 g nf bf rho uL P rho (mirrorVelocity uL n vf) P n vf).p := by
  have hvR : ((mirrorVelocity uL n vf).sub vf).dot n = -((uL.sub vf).dot n) := by
    unfold mirrorVelocity
    simp only [V3.sub, V3.smul, V3.dot, V3.norm2] at hn ⊢
    linear_combination (-2 * ((uL.x - vf.x) * n.x + (uL.y - vf.y) * n.y + (uL.z - vf.z) * n.z)) * hn
  have hf : faceFrame uL (mirrorVelocity uL n vf) n vf
      = ⟨uL.sub vf, (mirrorVelocity uL n vf).sub vf, (uL.sub vf).dot n, -((uL.sub vf).dot n)⟩ := by
    unfold faceFrame; simp only [hvR]
  obtain ⟨h1, h2⟩ := hstar
  rw [ExactFlux.star_mirror_states] at h2
  unfold ExactFlux.solveForFlux ExactFlux.fluxWith
  simp only [hf, lit0]
  exact ExactFlux.fluxFromSample_at_rest _ _ _ n vf hn h2 h1 rfl hvR.symm

/-! ## Non-vacuity of the hypotheses -/

theorem sound_2_2_1 : sound 2 2 1 = 1 := by
  unfold sound
  rw [effGamma_eq 2 (by norm_num), lit1]; norm_num

/-- the counterexample lies in the set excluded by `h0` of `hllc_mirror`: it is on the HLLC path
with contact estimate exactly zero (and `S_L = 2 - 1·2 = 0`, not negative) -/
example : (hllcWaves 2 2 ⟨2, 0, 0⟩ 1 2 ⟨-2, 0, 0⟩ 1 ⟨1, 0, 0⟩ ⟨0, 0, 0⟩).Sstar = 0 := by
  have hf : faceFrame (⟨2, 0, 0⟩ : V3 ℝ) ⟨-2, 0, 0⟩ ⟨1, 0, 0⟩ ⟨0, 0, 0⟩
      = ⟨⟨2, 0, 0⟩, ⟨-2, 0, 0⟩, 2, -2⟩ := by
    unfold faceFrame
    simp only [V3.sub, V3.dot, sub_zero, mul_zero, add_zero, mul_one]
  unfold hllcWaves
  simp only [hf, sound_2_2_1]
  exact (waves_mirror_states (effGamma 2) 2 1 1 2 (1.0 / (1 + 0))).2.2

/-- two equal gases at rest (`γ = 2, ρ = 2, P = 1`): on the HLLC path, contact estimate exactly
zero, outer estimates `∓1` — satisfies `OnHLLCPath` and the hypothesis `h0` of `hllc_mirror`,
`hS`/`hSL` of `hllc_contact_at_rest` -/
example : OnHLLCPath 2 2 ⟨0, 0, 0⟩ 1 2 ⟨0, 0, 0⟩ 1 ⟨1, 0, 0⟩ ⟨0, 0, 0⟩ ∧
    (hllcWaves 2 2 ⟨0, 0, 0⟩ 1 2 ⟨0, 0, 0⟩ 1 ⟨1, 0, 0⟩ ⟨0, 0, 0⟩).Sstar = 0 ∧
    (hllcWaves 2 2 ⟨0, 0, 0⟩ 1 2 ⟨0, 0, 0⟩ 1 ⟨1, 0, 0⟩ ⟨0, 0, 0⟩).SLmvL
      + (faceFrame (⟨0, 0, 0⟩ : V3 ℝ) ⟨0, 0, 0⟩ ⟨1, 0, 0⟩ ⟨0, 0, 0⟩).vL < 0 ∧
    0 < (hllcWaves 2 2 ⟨0, 0, 0⟩ 1 2 ⟨0, 0, 0⟩ 1 ⟨1, 0, 0⟩ ⟨0, 0, 0⟩).SRmvR
      + (faceFrame (⟨0, 0, 0⟩ : V3 ℝ) ⟨0, 0, 0⟩ ⟨1, 0, 0⟩ ⟨0, 0, 0⟩).vR := by
  have hf : faceFrame (⟨0, 0, 0⟩ : V3 ℝ) ⟨0, 0, 0⟩ ⟨1, 0, 0⟩ ⟨0, 0, 0⟩ = ⟨⟨0, 0, 0⟩, ⟨0, 0, 0⟩, 0, 0⟩ := by
    unfold faceFrame; simp [V3.sub, V3.dot]
  have ht : tdgm1 (effGamma (2:ℝ)) = 2 := by
    rw [effGamma_eq 2 (by norm_num)]; unfold tdgm1; rw [lit2, lit1]; norm_num
  obtain ⟨w1, w2, w3⟩ := waves_identical (G := effGamma 2) (rho := 2) (v := 0) (P := 1) (a := 1)
    (1.0 / (1 + 0)) (by norm_num) (by norm_num) (by norm_num)
  unfold OnHLLCPath hllcWaves
  simp only [hf, sound_2_2_1, ht]
  rw [show (0:ℝ) - 0 = 0 - 0 from rfl] at *
  refine ⟨⟨by norm_num, by norm_num, by norm_num, by norm_num, by norm_num⟩, ?_, ?_, ?_⟩
  · exact w3
  · rw [w1]; norm_num
  · rw [w2]; norm_num

/-- the same input has ordered Toro wave speeds `-1 ≤ 0 ≤ 1` (hypotheses of `hllc_textbook`) -/
example : (toroSpeeds 2 2 ⟨0, 0, 0⟩ 1 2 ⟨0, 0, 0⟩ 1 ⟨1, 0, 0⟩ ⟨0, 0, 0⟩).SL
      ≤ (toroSpeeds 2 2 ⟨0, 0, 0⟩ 1 2 ⟨0, 0, 0⟩ 1 ⟨1, 0, 0⟩ ⟨0, 0, 0⟩).Sstar ∧
    (toroSpeeds 2 2 ⟨0, 0, 0⟩ 1 2 ⟨0, 0, 0⟩ 1 ⟨1, 0, 0⟩ ⟨0, 0, 0⟩).Sstar
      ≤ (toroSpeeds 2 2 ⟨0, 0, 0⟩ 1 2 ⟨0, 0, 0⟩ 1 ⟨1, 0, 0⟩ ⟨0, 0, 0⟩).SR := by
  have ha : Toro.a 2 2 1 = 1 := by unfold Toro.a; norm_num
  unfold toroSpeeds Toro.speeds
  rw [effGamma_eq 2 (by norm_num)]
  simp only [V3.sub, V3.dot, ha, Toro.pstar, Toro.q, Toro.contact]
  norm_num

/-- hypotheses of `mirror_no_exchange`: a gas hitting a wall at Mach 1 -/
example : (0:ℝ) < 2 ∧ (0:ℝ) < 1 ∧ (⟨1, 0, 0⟩ : V3 ℝ).norm2 = 1 ∧
    ((⟨1, 0, 0⟩ : V3 ℝ).sub ⟨0, 0, 0⟩).dot ⟨1, 0, 0⟩ < 3 / 2 * sound 2 2 1 := by
  rw [sound_2_2_1]
  refine ⟨by norm_num, by norm_num, ?_, ?_⟩ <;> norm_num [V3.norm2, V3.sub, V3.dot]

/-- the hypothesis of `vacuum_same_as_exact` / `vacuum_sample_physical` is satisfiable: a gas
next to vacuum takes a vacuum exit -/
example : (solveIfVacuum (0:ℝ) 2 2 0 1 0 0 0 0).isSome = true ∧
    (solveForFluxIfVacuum (0:ℝ) 2 2 ⟨0, 0, 0⟩ 1 0 ⟨0, 0, 0⟩ 0 ⟨1, 0, 0⟩ ⟨0, 0, 0⟩).isSome = true := by
  have hv : isVacuum 0 (0:ℝ) 0 0 0 = true := (isVacuum_iff 0 0).mpr (Or.inl rfl)
  constructor
  · unfold solveIfVacuum
    simp [hv]
  · unfold solveForFluxIfVacuum solveIfVacuum
    simp [hv]


/-- the hypothesis of `exact_mirror` / `exact_flux_mirror_partial` is satisfiable: two equal gases
(`γ = 2, ρ = 2, P = 1`, sound speed 1) moving with `u`: contact at `u`, fan tails at `u ± 1`;
every other sampling speed is tie-free (e.g. `x/t = 0` for `u = 1/2`) -/
example (nf bf : ℕ) (u d : ℝ) (h1 : d ≠ u) (h2 : d ≠ u + 1) (h3 : d ≠ u - 1) :
    ExactFlux.MirrorTieFree 2 nf bf 2 u 1 2 u 1 d := by
  have hG : effGamma (2:ℝ) = 2 := effGamma_eq 2 (by norm_num)
  have hcg : (CMacVerif.ExactRiemann.mkConsts (2:ℝ)).gamma = 2 := hG
  have ha : soundSpeed (effGamma (2:ℝ)) (1.0 / 2) 1 = 1 := by
    unfold soundSpeed; rw [hG, lit1]; norm_num
  have ha' : CMacVerif.ExactRiemann.soundspeed (CMacVerif.ExactRiemann.mkConsts (2:ℝ)) (1.0 / 2) 1 = 1 := by
    unfold CMacVerif.ExactRiemann.soundspeed; rw [hcg, lit1]; norm_num
  have ht : tdgm1 (effGamma (2:ℝ)) = 2 := by rw [hG]; unfold tdgm1; rw [lit2, lit1]; norm_num
  obtain ⟨hp, hu⟩ := ExactFlux.star_identical (CMacVerif.ExactRiemann.mkConsts 2) nf bf (rho := 2) (P := 1) u (by norm_num)
  have haR : (CMacVerif.ExactRiemann.star (CMacVerif.ExactRiemann.mkConsts 2) nf bf 2 u 1 2 u 1).aR = 1 := ha'
  have haL : (CMacVerif.ExactRiemann.star (CMacVerif.ExactRiemann.mkConsts 2) nf bf 2 u 1 2 u 1).aL = 1 := ha'
  unfold ExactFlux.MirrorTieFree
  rw [hp, hu, haR, haL, ha, ht]
  have h11 : (1:ℝ) * (1.0 / 1) = 1 := by rw [lit1]; norm_num
  refine ⟨fun h => absurd h (by norm_num), h1, ?_, ?_⟩
  · unfold CMacVerif.ExactRiemann.tailR; simp only [h11, CMacVerif.ExactRiemann.pow_real_eq, Real.one_rpow, mul_one]; exact h2
  · unfold CMacVerif.ExactRiemann.tailL; simp only [h11, CMacVerif.ExactRiemann.pow_real_eq, Real.one_rpow, mul_one]; exact h3

/-- the hypothesis `hstar` of `exact_mirror_no_exchange_partial` is satisfiable (two equal gases at
rest against the face: the sampled state is the star state, velocity 0) -/
example (nf bf : ℕ) :
    (ExactFlux.solve1D (0:ℝ) 2 nf bf 2 0 1 2 (-0) 1 0).flag ≠ 0 ∧
    (ExactFlux.solve1D (0:ℝ) 2 nf bf 2 0 1 2 (-0) 1 0).u
      = (CMacVerif.ExactRiemann.star (CMacVerif.ExactRiemann.mkConsts (2:ℝ)) nf bf 2 0 1 2 (-0) 1).ustar := by
  rw [neg_zero]
  obtain ⟨_, hu, _, hf⟩ := ExactFlux.solve1D_identical (2:ℝ) nf bf (rho := 2) (P := 1) 0 0
    (by norm_num) (by norm_num)
  obtain ⟨_, hs⟩ := ExactFlux.star_identical (CMacVerif.ExactRiemann.mkConsts (2:ℝ)) nf bf
    (rho := 2) (P := 1) 0 (by norm_num)
  refine ⟨?_, by rw [hu, hs]⟩
  rcases hf with h | h <;> rw [h] <;> decide

end CMacVerif.C05
