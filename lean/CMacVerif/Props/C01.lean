import CMacVerif.Lemmas.PhotonStart
import Mathlib.Logic.ExistsUnique
/-!
# C01 — every photon packet launched in a task-based photoionization iteration terminates exactly
once; nothing is left behind

Model: `CMacVerif/Model/PhotonProtocol.lean` (`Photon.step`: one label per committed task action,
physics outcome universally quantified; `Photon.lstep`: the worker loop of the threads).
All statements are about EVERY execution: an arbitrary list of labels (any interleaving, any number
of simultaneously running tasks / threads, any subgrid layout `cfg.ngb`, any source mix, re-emission
on or off, any packet number), started from the state at the beginning of an iteration.
-/
namespace CMacVerif.Photon
open CMacVerif.Worker (sumOver sumOver_congr sumOver_le)

/-! ## DistributedPhotonSource: the split of the requested number is exact -/

/-- `split_total`: after the constructor the per-copy totals add up to the requested number N, for
every list of sources (⌊N·wᵢ⌋, number of subgrid copies ≥ 1) with Σ⌊N·wᵢ⌋ ≤ N and whatever the
random overhead indices are -/
theorem split_total (N : Nat) (srcs : List (Nat × Nat)) (picks : List Nat) (hne : srcs ≠ [])
    (hcopies : ∀ p ∈ srcs, 0 < p.2) (hsum : sumFst srcs ≤ N) (hpicks : picks.length = N - sumFst srcs) :
    (splitTotals srcs picks).sum = N := by
  obtain ⟨h1, h2, _, h4⟩ := splitLoop_spec srcs [] [] hcopies (by intro o ho; cases ho)
  have hpos : 0 < (splitLoop srcs ([], [])).1.length := by
    cases srcs with
    | nil => exact absurd rfl hne
    | cons p rest =>
      obtain ⟨a, c⟩ := p
      have hc : 0 < c := hcopies (a, c) List.mem_cons_self
      simp only [splitLoop, List.nil_append, List.length_nil, Nat.zero_add]
      have := (splitLoop_spec rest (perCopy a c) [a % c] (fun q hq => hcopies q (List.mem_cons_of_mem _ hq))
        (by intro o ho; simp at ho; subst ho; rw [perCopy_length]; exact Nat.mod_lt _ hc)).2.2.2
      rw [perCopy_length] at this; omega
  unfold splitTotals
  rw [applyPicks_sum _ picks _ hpos h2, h1, hpicks]
  simp; omega

/-- `batches_total`: the batches `get_photon_batch(i, PHOTONBUFFER_SIZE)` hands out for a source copy
add up to its total and each has between 1 and PHOTONBUFFER_SIZE packets -/
theorem batches_total (total : Nat) :
    (batches BUFSZ (total + 1) total).sum = total ∧ ∀ b ∈ batches BUFSZ (total + 1) total, 1 ≤ b ∧ b ≤ BUFSZ :=
  batches_spec BUFSZ (by decide) (total + 1) total (by omega)

/-! ## Conservation -/

/-- `conservation`: in every reachable state the requested number equals terminated packets + packets
not yet handed out by the sources + packets of queued/running source tasks + packets in the photon
buffers in use + packets in the thread-local continuous-source buffers -/
theorem conservation {cfg : Cfg} {srcIds : Nat → List Nat} {contIds : List Nat} (h0 : Start cfg srcIds contIds)
    {ls : List Label} {s : State} (hrun : run cfg (init srcIds contIds) ls = some s) :
    cfg.N = s.done.length
      + sumOver (List.range cfg.nsrc) (fun i => (s.srcLeft i).length) + s.contPool.length
      + sumOver (List.range cfg.taskCap) (fun t => taskPackets (s.tasks t))
      + sumOver (List.range cfg.bufCap) (fun b => bufLen s.pool b)
      + sumOver (pairsU cfg) (fun k => (s.cont k).length) := by
  have hr := reachable h0 hrun
  have := hr.wt (fun _ => 1)
  rw [start_total h0, weight_one] at this
  have e : sumOver (List.range cfg.taskCap) (fun t => taskW (fun _ => 1) (s.tasks t))
      = sumOver (List.range cfg.taskCap) (fun t => taskPackets (s.tasks t)) :=
    sumOver_congr (fun t _ => taskPackets_eq _)
  rw [e] at this
  exact this.symm

/-- the done counter never exceeds the requested number -/
theorem done_le_requested {cfg : Cfg} {srcIds : Nat → List Nat} {contIds : List Nat} (h0 : Start cfg srcIds contIds)
    {ls : List Label} {s : State} (hrun : run cfg (init srcIds contIds) ls = some s) : s.done.length ≤ cfg.N := by
  have := conservation h0 hrun; omega

/-! ## Ownership -/

/-- `ownership`: every buffer in use is referenced by exactly one task or is the active buffer of
exactly one (subgrid, direction) -- never both, never two; references only point to buffers in use; a
buffer that a task refers to holds between 1 and PHOTONBUFFER_SIZE packets, an active buffer between 1
and PHOTONBUFFER_SIZE − 1 and belongs to a direction that has a neighbour -/
theorem ownership {cfg : Cfg} {srcIds : Nat → List Nat} {contIds : List Nat} (h0 : Start cfg srcIds contIds)
    {ls : List Label} {s : State} (hrun : run cfg (init srcIds contIds) ls = some s) :
    (∀ b buf, s.pool b = some buf → b < cfg.bufCap ∧ ∃! r, refBuf s r = some b) ∧
    (∀ t b, refBuf s (.task t) = some b →
        ∃ buf, s.pool b = some buf ∧ 1 ≤ buf.ids.length ∧ buf.ids.length ≤ BUFSZ) ∧
    (∀ g i b, s.active g i = some b →
        ∃ buf, s.pool b = some buf ∧ 1 ≤ buf.ids.length ∧ buf.ids.length < BUFSZ ∧ (cfg.ngb g i).isSome = true) := by
  have ho := (reachable h0 hrun).inv.own
  refine ⟨?_, ?_, ?_⟩
  · intro b buf hb
    obtain ⟨hc, r, hr⟩ := ho.owned b buf hb
    exact ⟨hc, r, hr, fun r' hr' => ho.uniq r' r b hr' hr⟩
  · intro t b hr
    obtain ⟨buf, hb, hok⟩ := ho.live _ _ hr
    exact ⟨buf, hb, List.length_pos_iff.mpr hok.1, hok.2⟩
  · intro g i b hr
    obtain ⟨buf, hb, hok⟩ := ho.live (.act g i) b hr
    exact ⟨buf, hb, List.length_pos_iff.mpr hok.1, hok.2.1, hok.2.2⟩

/-! ## Exactly once -/

/-- `exactly_once`: no packet is ever terminated twice, and once as many packets are terminated as
were requested every requested packet is terminated exactly once (and nothing else is) -/
theorem exactly_once {cfg : Cfg} {srcIds : Nat → List Nat} {contIds : List Nat} (h0 : Start cfg srcIds contIds)
    {ls : List Label} {s : State} (hrun : run cfg (init srcIds contIds) ls = some s) :
    (∀ p, s.done.count p ≤ 1) ∧
    (s.done.length = cfg.N → ∀ p, s.done.count p = if p < cfg.N then 1 else 0) := by
  have hr := reachable h0 hrun
  have hw : ∀ p, wsum (fun x => if x = p then 1 else 0) s.done + restWeight cfg (fun x => if x = p then 1 else 0) s
      = if p < cfg.N then 1 else 0 := by
    intro p
    rw [← weight_split, hr.wt, start_weight h0, wsum_count, count_range]
  refine ⟨?_, ?_⟩
  · intro p
    have := hw p
    rw [wsum_count] at this
    split_ifs at this <;> omega
  · intro hd p
    have h1 := hw p
    rw [wsum_count] at h1
    have h2 := hr.wt (fun _ => 1)
    rw [start_total h0, weight_split, wsum_one] at h2
    have h3 := restWeight_mono cfg (fun x => if x = p then 1 else 0) (fun _ => 1) (by intro x; split_ifs <;> omega) s
    omega

/-! ## Termination detection is sound -/

/-- `termination_sound`: when the run flag is cleared all requested packets are terminated, no photon
buffer is in use, no subgrid has an active buffer, the sources and the continuous-source buffers are
empty and the only tasks that can still exist carry no packets (flush tasks and a continuous source
task between its last packet and its counter update -- see `nothing_left_behind` for those) -/
theorem termination_sound {cfg : Cfg} {srcIds : Nat → List Nat} {contIds : List Nat} (h0 : Start cfg srcIds contIds)
    {ls : List Label} {s : State} (hrun : run cfg (init srcIds contIds) ls = some s) (hflag : s.run = false) :
    s.done.length = cfg.N ∧ AllDone cfg s := by
  have hr := reachable h0 hrun
  have hd := hr.flag hflag
  rw [start_total h0] at hd
  exact ⟨hd, reach_allDone hr (by rw [start_total h0]; exact hd)⟩

/-- once all requested packets are terminated (in particular after the flag was cleared) no task that
carries packets or refers to a buffer exists: only flush tasks and finishing continuous source tasks.
Without a continuous source (`contIds = []`, the radiation-hydrodynamics loop) there is no such task,
so a thread can never obtain a task after the flag was cleared. -/
theorem after_termination_only_packet_free_tasks {cfg : Cfg} {srcIds : Nat → List Nat} {contIds : List Nat}
    (h0 : Start cfg srcIds contIds) {ls : List Label} {s : State} (hrun : run cfg (init srcIds contIds) ls = some s)
    (hd : s.done.length = cfg.N) :
    ∀ t tk, s.tasks t = some tk → (∃ c, tk.kind = .flush c) ∨ (∃ c n, tk.kind = .contSource c n [] ∧ tk.st = .running) :=
  (reach_allDone (reachable h0 hrun) (by rw [start_total h0]; exact hd)).tasks

/-! ## The cached largest buffer; no stuck state -/

/-- `premature_safe`: the cached (index, size) of the largest active buffer of a subgrid always
describes a real active buffer of that size, and no active buffer of the subgrid is larger; so a
premature launch never reads a missing buffer (`_buffers[NEIGHBOUR_OUTSIDE]`) and every subgrid that
has an active buffer has a non-zero cached size (it will be launched prematurely) -/
theorem premature_safe {cfg : Cfg} {srcIds : Nat → List Nat} {contIds : List Nat} (h0 : Start cfg srcIds contIds)
    {ls : List Label} {s : State} (hrun : run cfg (init srcIds contIds) ls = some s) (g : Nat) :
    ((s.largest g).1 ≠ NDIR → ∃ a buf, s.active g (s.largest g).1 = some a ∧ s.pool a = some buf ∧
        buf.ids.length = (s.largest g).2 ∧ 0 < (s.largest g).2) ∧
    (∀ d a, s.active g d = some a → (s.largest g).1 ≠ NDIR ∧ bufLen s.pool a ≤ (s.largest g).2) := by
  have hi := (reachable h0 hrun).inv
  have hc := (cache_run ls _ s (init_inv cfg srcIds contIds) (cache_init srcIds contIds) hrun).ok g
  refine ⟨?_, ?_⟩
  · intro hne
    obtain ⟨a, ha, hl⟩ := hc.some hne
    obtain ⟨buf, hb, hok⟩ := hi.own.live (.act g _) a ha
    simp only [bufLen, hb] at hl
    exact ⟨a, buf, ha, hb, hl, by rw [← hl]; exact List.length_pos_iff.mpr hok.1⟩
  · intro d a ha
    have hb := hc.bound d a ha
    obtain ⟨buf, hp, hok⟩ := hi.own.live (.act g d) a ha
    have : 1 ≤ bufLen s.pool a := by simp only [bufLen, hp]; exact List.length_pos_iff.mpr hok.1
    refine ⟨?_, hb⟩
    intro e; have := hc.none e; omega

/-- `no_stuck`: as long as not all requested packets are terminated some label is enabled (a task can
be taken or committed, a source batch launched, or a premature launch is possible), provided the buffer
pool and the task table are not exhausted (two free buffers, `nblocks + 1` free task slots) and the grid
has at least one subgrid / one continuous block. Termination itself (with re-emission: with probability
one) is not claimed. -/
theorem no_stuck {cfg : Cfg} {srcIds : Nat → List Nat} {contIds : List Nat} (h0 : Start cfg srcIds contIds)
    {ls : List Label} {s : State} (hrun : run cfg (init srcIds contIds) ls = some s)
    (hcap : FreeCap cfg s) (hnorig : 0 < cfg.norig) (hnb : 0 < cfg.nblocks) (hlt : s.done.length < cfg.N) :
    ∃ l, (step cfg s l).isSome = true := by
  have hr := reachable h0 hrun
  have hcache := cache_run ls _ s (init_inv cfg srcIds contIds) (cache_init srcIds contIds) hrun
  have hcont := contInv_run ls _ s (init_inv cfg srcIds contIds) (contInv_init cfg srcIds contIds) hrun
  apply no_stuck_of hr.inv hcache hcont hcap hnorig hnb
  have := hr.wt (fun _ => 1)
  rw [start_total h0, weight_split, wsum_one] at this
  omega

/-- the continuous-source counter is exact, the buffers are flushed only when it is zero, and once
nothing will be sourced any more every non-empty thread-local buffer has a flush task -/
theorem continuous_bookkeeping {cfg : Cfg} {srcIds : Nat → List Nat} {contIds : List Nat}
    {ls : List Label} {s : State} (hrun : run cfg (init srcIds contIds) ls = some s) : ContInv cfg s :=
  contInv_run ls _ s (init_inv cfg srcIds contIds) (contInv_init cfg srcIds contIds) hrun

/-! ## The worker loop: nothing is left behind -/

/-- a task that was taken from a queue is held by exactly one thread, which executes it or is about to;
conversely a thread only holds running tasks.  Holds for the fixed loop condition
`while (global_run_flag || current_index != NO_TASK)` with any sources, and for the old condition
`while (global_run_flag)` (radiation-hydrodynamics loop) without a continuous source -/
theorem running_task_has_live_holder {cfg : Cfg} {srcIds : Nat → List Nat} {contIds : List Nat}
    (h0 : Start cfg srcIds contIds) (hloop : cfg.loopFixed = true ∨ contIds = [])
    {ls : List LLabel} {s : LState} (hrun : lrun cfg (linit srcIds contIds) ls = some s) :
    (∀ t k, s.p.tasks t = some ⟨k, .running⟩ → ∃ i, s.th i = .exec t ∨ s.th i = .top (some t)) ∧
    (∀ i t, s.th i = .exec t ∨ s.th i = .top (some t) →
      (∃ k, s.p.tasks t = some ⟨k, .running⟩) ∧ ∀ j, s.th j = .exec t ∨ s.th j = .top (some t) → j = i) := by
  obtain ⟨hi, ho⟩ := loop_reachable h0 hloop hrun
  refine ⟨hi.holder, ?_⟩
  intro i t hit
  have hheld : ∀ j, s.th j = .exec t ∨ s.th j = .top (some t) → held (s.th j) = some t := by
    intro j hj; rcases hj with e | e <;> (rw [e]; rfl)
  obtain ⟨h1, h2⟩ := ho.own i t (hheld i hit)
  exact ⟨h1, fun j hj => h2 j (hheld j hj)⟩

/-- `termination_two_reads_sound`: the termination test of the worker loop reads `_buffers->is_empty()`
and `num_photon_done` at two different moments (labels `checkEmpty`, `checkYes`; other threads act in
between).  Whenever the flag is cleared nevertheless all requested packets are terminated and no buffer,
active buffer, source or continuous-buffer content exists (the stale first read cannot do harm) -/
theorem termination_two_reads_sound {cfg : Cfg} {srcIds : Nat → List Nat} {contIds : List Nat}
    (h0 : Start cfg srcIds contIds) (hloop : cfg.loopFixed = true ∨ contIds = [])
    {ls : List LLabel} {s : LState} (hrun : lrun cfg (linit srcIds contIds) ls = some s) (hflag : s.p.run = false) :
    s.p.done.length = cfg.N ∧ AllDone cfg s.p := by
  have hr := (loop_reachable h0 hloop hrun).1.reach
  have hd := hr.flag hflag
  exact ⟨by rw [start_total h0] at hd; exact hd, reach_allDone hr hd⟩

/-- `no_exit_with_task`: a thread never leaves the loop holding a task -- for the fixed loop by the loop
condition itself, for the old condition `while (global_run_flag)` because without a continuous source no
task exists any more once the flag is cleared -/
theorem no_exit_with_task {cfg : Cfg} {srcIds : Nat → List Nat} {contIds : List Nat}
    (h0 : Start cfg srcIds contIds) (hloop : cfg.loopFixed = true ∨ contIds = [])
    {ls : List LLabel} {s s' : LState} (hrun : lrun cfg (linit srcIds contIds) ls = some s)
    {i : Nat} (hstep : lstep cfg s (.topExit i) = some s') : s.th i = .top none := by
  obtain ⟨hi, ho⟩ := loop_reachable h0 hloop hrun
  simp only [lstep] at hstep
  split at hstep
  · assumption
  · rename_i t hth
    split_ifs at hstep with hc
    exfalso
    have hf : cfg.loopFixed = false := by
      cases hfx : cfg.loopFixed with
      | true => rw [hfx] at hc; simp at hc
      | false => rfl
    have hr : s.p.run = false := by
      cases hrx : s.p.run with
      | true => rw [hrx] at hc; simp at hc
      | false => rfl
    obtain ⟨k, hk⟩ := (ho.own i t (by rw [hth]; rfl)).1
    have had := reach_allDone hi.reach (hi.reach.flag hr)
    have hs := (ho.nocont hf).2 t
    rw [hk] at hs
    rcases had.tasks t _ hk with ⟨c, hc'⟩ | ⟨c, n, hc', _⟩
    · simp only at hc'; subst hc'; simp at hs
    · simp only at hc'; subst hc'; simp at hs
  · cases hstep

/-- `nothing_left_behind`: when every thread has left the loop (threads that never started count as
not started), all requested packets are terminated exactly once and NOTHING is left for the next
iteration: no task in the task table (so no queue entry and no held lock either), no photon buffer in
use, no active buffer, nothing in the sources or in the continuous-source buffers -/
theorem nothing_left_behind {cfg : Cfg} {srcIds : Nat → List Nat} {contIds : List Nat} (h0 : Start cfg srcIds contIds)
    (hloop : cfg.loopFixed = true ∨ contIds = [])
    {ls : List LLabel} {s : LState} (hrun : lrun cfg (linit srcIds contIds) ls = some s)
    (hall : ∀ i, s.th i = .exited ∨ s.th i = .start) (hex : ∃ i, s.th i = .exited) :
    s.p.done.length = cfg.N ∧ (∀ p, s.p.done.count p = if p < cfg.N then 1 else 0) ∧
    (∀ t, s.p.tasks t = none) ∧ (∀ b, s.p.pool b = none) ∧ (∀ g i, s.p.active g i = none) ∧
    (∀ k, s.p.cont k = []) ∧ (∀ i, i < cfg.nsrc → s.p.srcLeft i = []) ∧ s.p.contPool = [] := by
  have hi := (loop_reachable h0 hloop hrun).1
  obtain ⟨i0, hi0⟩ := hex
  have hflag := hi.exitFlag i0 hi0
  have hd := hi.reach.flag hflag
  have hdN : s.p.done.length = cfg.N := by rw [start_total h0] at hd; exact hd
  have had := reach_allDone hi.reach hd
  have hno : ∀ j, ¬ Obliged (s.th j) := by
    intro j hj
    rcases hall j with e | e <;> (rw [e] at hj; rcases hj with ⟨u, hj⟩ | hj | ⟨u, hj⟩ <;> cases hj)
  have hw : ∀ p, wsum (fun x => if x = p then 1 else 0) s.p.done + restWeight cfg (fun x => if x = p then 1 else 0) s.p
      = if p < cfg.N then 1 else 0 := by
    intro p
    rw [← weight_split, hi.reach.wt, start_weight h0, wsum_count, count_range]
  refine ⟨hdN, ?_, ?_, had.pool, had.active, had.cont, had.src, had.contPool⟩
  · intro p
    have h1 := hw p
    rw [wsum_count] at h1
    have h2 := hi.reach.wt (fun _ => 1)
    rw [start_total h0, weight_split, wsum_one] at h2
    have h3 := restWeight_mono cfg (fun x => if x = p then 1 else 0) (fun _ => 1) (by intro x; split_ifs <;> omega) s.p
    omega
  · intro t
    cases ht : s.p.tasks t with
    | none => rfl
    | some tk =>
      exfalso
      cases tk with
      | mk k st =>
        cases st with
        | running =>
          obtain ⟨j, hj⟩ := hi.holder t k ht
          exact hno j (by rcases hj with hj | hj; exact Or.inl ⟨t, hj⟩; exact Or.inr (Or.inr ⟨t, hj⟩))
        | pending =>
          obtain ⟨j, hj, _⟩ := hi.owner t k ht
          exact hno j (Or.inr (Or.inl hj))
        | queued =>
          rcases had.tasks t _ ht with ⟨c, hc⟩ | ⟨c, n, _, hst⟩
          · simp only at hc; subst hc
            obtain ⟨j, hj⟩ := hi.oblig t c ht
            exact hno j hj
          · cases hst

/-! ## The task space at the start of the next iteration (with and without `--task-plot`) -/

/-- `next_iteration_starts_clean`: after the task reset `_tasks->clear()` no slot of the task space is in
use, in both life-cycle modes (tasks released when executed / `--task-plot`: nothing released during the
iteration), whatever the photon loop left -/
theorem next_iteration_starts_clean (plot : Bool) (executed : Nat → Bool) (s : State) (t : Nat) :
    spaceClear (lockedAtLoopEnd plot executed s) t = false := rfl

/-- without `--task-plot` the worker loop itself leaves no slot locked (so even the cheaper
`clear_fast` would do) ... -/
theorem loop_end_clean_without_plot {cfg : Cfg} {srcIds : Nat → List Nat} {contIds : List Nat} (h0 : Start cfg srcIds contIds)
    (hloop : cfg.loopFixed = true ∨ contIds = []) {ls : List LLabel} {s : LState} (hrun : lrun cfg (linit srcIds contIds) ls = some s)
    (hall : ∀ i, s.th i = .exited ∨ s.th i = .start) (hex : ∃ i, s.th i = .exited) (executed : Nat → Bool) (t : Nat) :
    spaceClearFast (lockedAtLoopEnd false executed s.p) t = false := by
  have := (nothing_left_behind h0 hloop hrun hall hex).2.2.1 t
  simp [spaceClearFast, lockedAtLoopEnd, this]

/-- ... but with `--task-plot` `clear_fast` leaves every executed task locked for the next iteration:
the full reset is necessary there -/
theorem clear_fast_leaks_with_plot (executed : Nat → Bool) (s : State) (t : Nat) (ht : executed t = true) :
    spaceClearFast (lockedAtLoopEnd true executed s) t = true := by
  simp [spaceClearFast, lockedAtLoopEnd, ht]

/-! ## The old loop condition with a continuous source loses a task (the defect fixed by f78e960) -/

/-- one subgrid, no neighbours, a continuous source with one packet, two blocks, loop `while (global_run_flag)` -/
def oldCfg : Cfg :=
  { N := 1, nsrc := 0, srcSub := fun _ => 0, norig := 1, nblocks := 2, ngb := fun _ _ => none, o2i := fun i => i,
    reemission := false, bufCap := 2, taskCap := 5, loopFixed := false }

/-- thread 0 executes everything; thread 1 takes the (packet-free) flush task of block 1 in the else branch
of the termination test, then finds the flag cleared at the loop test -/
def oldRun : List LLabel :=
  [.main (.launchCont 0), .startPoll 0 (some 0), .topGo 0, .startPoll 1 none, .topPoll 1 none,
   .work 0 (.contGen 0 0 1), .work 0 (.contFinish 0 [1, 2]), .innerPoll 0 (some 1), .work 0 (.flushOne 1 0 0 3),
   .checkNo 1 (some 2), .work 0 (.flushFinish 1), .innerPoll 0 (some 3), .work 0 (.execTraverse 3 [1] []),
   .innerPoll 0 none, .checkEmpty 0, .checkYes 0, .topExit 0, .topExit 1]

/-- `old_loop_loses_flush_task`: with the old loop condition and a continuous source there is an execution
in which both threads have left the loop, all packets are terminated, and the flush task of block 1 is
still locked by a thread that is gone (never executed, its lock never released) -/
theorem old_loop_loses_flush_task :
    ((lrun oldCfg (linit (fun _ => []) [0]) oldRun).map fun s => (s.th 0, s.th 1, s.p.done, s.p.tasks 2))
      = some (.exited, .exited, [0], some ⟨.flush 1, .running⟩) := by decide

/-- the same schedule is impossible with the fixed loop condition: thread 1 cannot leave -/
example : lrun { oldCfg with loopFixed := true } (linit (fun _ => []) [0]) oldRun = none := by decide

/-! ## Non-vacuity: a complete small iteration (re-emission and a premature launch included) -/

/-- one subgrid without neighbours (direction INSIDE only), one source with 3 packets, re-emission on -/
def exCfg : Cfg :=
  { N := 3, nsrc := 1, srcSub := fun _ => 0, norig := 1, nblocks := 1,
    ngb := fun g i => if g = 0 ∧ i = 0 then some 0 else none, o2i := fun i => i, reemission := true,
    bufCap := 4, taskCap := 6 }

def exRun : List Label :=
  [.launchBatch 0 0, .acquire 0, .execSource 0 0 1, .enqueue 1, .acquire 1,
   -- packets 0 and 1 are absorbed (direction INSIDE, kept for re-emission), packet 2 leaves the box
   .execTraverse 1 [0, 0, 1] [⟨1, 2, 2⟩],
   -- the half-filled internal buffer is launched prematurely as a re-emission task
   .premature 0 2, .acquire 2,
   -- packet 0 is re-emitted, packet 1 is not
   .execReemit 2 [true, false] 3, .enqueue 3, .acquire 3,
   .execTraverse 3 [1] [], .checkTermination]

example : Start exCfg (fun _ => [0, 1, 2]) [] := by
  show ([0, 1, 2] ++ [] : List Nat).Perm [0, 1, 2]
  exact List.Perm.refl _

example : (run exCfg (init (fun _ => [0, 1, 2]) []) exRun).isSome = true := by decide

example : ((run exCfg (init (fun _ => [0, 1, 2]) []) exRun).map fun s => (s.done, s.run)) = some ([2, 1, 0], false) := by
  decide

/-- the same iteration executed by two threads that both run through the worker loop and leave it -/
def exLoopRun : List LLabel :=
  [.main (.launchBatch 0 0), .startPoll 0 (some 0), .startPoll 1 none, .topGo 0, .work 0 (.execSource 0 0 1), .enq 0 1,
   .innerPoll 0 (some 1), .work 0 (.execTraverse 1 [0, 0, 1] [⟨1, 2, 2⟩]), .innerPoll 0 none,
   .prem 1 0 2, .topPoll 1 (some 2), .work 1 (.execReemit 2 [true, false] 3), .enq 1 3, .innerPoll 1 (some 3),
   .work 1 (.execTraverse 3 [1] []), .innerPoll 1 none, .checkEmpty 1, .checkYes 1, .topExit 1, .checkEmpty 0, .checkYes 0, .topExit 0]

example : ((lrun exCfg (linit (fun _ => [0, 1, 2]) []) exLoopRun).map fun s => (s.th 0, s.th 1, s.p.done, s.p.run))
    = some (.exited, .exited, [2, 1, 0], false) := by decide

/-- thread 1 reads `is_empty()` (true) before anything has started and reads the done counter only after
thread 0 has processed the whole iteration: the flag is cleared on a stale first read -/
def exStaleRun : List LLabel :=
  [.main (.launchBatch 0 0), .startPoll 1 none, .topPoll 1 none, .checkEmpty 1,
   .startPoll 0 (some 0), .topGo 0, .work 0 (.execSource 0 0 1), .enq 0 1, .innerPoll 0 (some 1),
   .work 0 (.execTraverse 1 [0, 0, 1] [⟨1, 2, 2⟩]), .innerPoll 0 none, .checkNo 0 none, .prem 0 0 2, .topPoll 0 (some 2),
   .work 0 (.execReemit 2 [true, false] 3), .enq 0 3, .innerPoll 0 (some 3), .work 0 (.execTraverse 3 [1] []),
   .innerPoll 0 none, .checkYes 1, .topExit 1, .checkEmpty 0, .checkYes 0, .topExit 0]

example : ((lrun exCfg (linit (fun _ => [0, 1, 2]) []) exStaleRun).map fun s => (s.th 0, s.th 1, s.p.done, s.p.run))
    = some (.exited, .exited, [2, 1, 0], false) := by decide

/-- the capacity hypothesis of `no_stuck` is satisfiable (start of the example iteration) -/
example : FreeCap exCfg (init (fun _ => [0, 1, 2]) []) :=
  ⟨⟨0, 1, by decide, by decide, rfl, by decide, rfl⟩, ⟨[0, 1], rfl, by decide, by intro t ht; exact ⟨by simp at ht; rcases ht with e | e <;> (subst e; decide), rfl⟩⟩⟩

end CMacVerif.Photon
