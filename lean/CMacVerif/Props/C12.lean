import CMacVerif.Lemmas.Lifecycle
import CMacVerif.Gen.Lifecycle
/-!
# C12 — complete runs end normally without invalid memory use (partial)

What is proved here is the *mechanism* "constructors initialise every owned pointer, destructors
delete conditionally" for the owners of optional components.  Model:
`CMacVerif/Model/Lifecycle.lean`; the descriptions of the four owners are regenerated from
/repo's sources on every run (`CMacVerif/Gen/Lifecycle.lean`).

* `ctor_dtor_safe`, `ctor_initialises`, `no_null_use`: generic, for EVERY description that
  passes the decidable check (`wf`, `wfInit`, `wfNull`) and EVERY option vector;
* one instantiation per generated description, the check discharged by `decide`;
* the description of `LiveOutputManager` as it was before /repo commit 4acd754 is not safe.

Everything else the property C12 speaks about (out-of-bounds, use after free and uninitialised
*data* elsewhere, exit status of whole runs) is NOT proved: it is searched by whole runs of the
real binary (exit status; AddressSanitizer/UBSan in the thorough tier).
-/
namespace CMacVerif.Lifecycle
open CMacVerif.Gen.Lifecycle

def noExempt : Nat → Bool := fun _ => false
def allExempt : Nat → Bool := fun _ => true

/-! ## generic theorems -/

/-- abstract value of field `f` after the whole program, and what it promises -/
theorem rel_final (st : Stmt) (known : Known) (env : Env) (hk : Consistent known env) (f : Nat) :
    Rel f (exec env st St.init) (aexecF known f st AV.init) :=
  sound known env hk f st St.init AV.init (rel_init f)

theorem checkField_of_wf {known : Known} {exempt : Nat → Bool} {st : Stmt}
    (h : wf known exempt st = true) (f : Nat) : checkField known exempt st f = true := by
  by_cases hf : f < st.bound
  · exact (List.all_eq_true.mp h) f (List.mem_range.mpr hf)
  · have := aexecF_unmentioned known f st AV.init (by omega)
    simp only [checkField]
    rw [this]
    simp [AV.init]

/-- **`dtor (ctor opts)` frees only owned pointers, each once, reads no uninitialised field and
leaves nothing owned**: for every program that passes the decidable check `wf` and every option
vector compatible with the assumptions: no double free, no free or test of an uninitialised
pointer, no use after free (`noBad`); no allocation is overwritten while owned and none is still
owned at the end, except through exempted fields (`noLeak`). -/
theorem ctor_dtor_safe (st : Stmt) (known : Known) (exempt : Nat → Bool)
    (h : wf known exempt st = true) (env : Env) (hk : Consistent known env) :
    (exec env st St.init).noBad ∧ (exec env st St.init).noLeak exempt := by
  refine ⟨?_, ?_, ?_⟩
  · intro e he
    have hr := rel_final st known env hk e.field
    have hc := checkField_of_wf h e.field
    simp only [checkField, Bool.and_eq_true, Bool.not_eq_true'] at hc
    exact hr.bad hc.1 e he rfl
  · intro e he hex
    have hr := rel_final st known env hk e.field
    have hc := checkField_of_wf h e.field
    simp only [checkField, Bool.and_eq_true, Bool.not_eq_true', hex, Bool.false_or] at hc
    exact hr.leak hc.2.1 e he rfl
  · intro f hex
    have hr := rel_final st known env hk f
    have hc := checkField_of_wf h f
    simp only [checkField, Bool.and_eq_true, Bool.not_eq_true', hex, Bool.false_or] at hc
    have hk' := hr.kind
    cases hp : (exec env st St.init).ptr f <;> simp [hp, PState.kindIn, PState.isOwned, hc.2.2] at hk' ⊢

/-- **the constructor initialises every field**: after a constructor that passes `wfInit`, no
declared pointer field is uninitialised, whatever the options. -/
theorem ctor_initialises (ctor : Stmt) (known : Known) (n : Nat) (h : wfInit known ctor n = true)
    (env : Env) (hk : Consistent known env) :
    ∀ f, f < n → ((exec env ctor St.init).ptr f).isUninit = false := by
  intro f hf
  have hc := (List.all_eq_true.mp h) f (List.mem_range.mpr hf)
  simp only [Bool.and_eq_true, Bool.not_eq_true'] at hc
  have hr := (rel_final ctor known env hk f).kind
  cases hp : (exec env ctor St.init).ptr f <;> simp [hp, PState.kindIn, PState.isUninit, hc.2] at hr ⊢

/-- no null pointer is dereferenced by a program that passes `wfNull` -/
theorem no_null_use (st : Stmt) (known : Known) (h : wfNull known st = true) (env : Env)
    (hk : Consistent known env) : (exec env st St.init).noNullUse := by
  intro e he
  have hr := rel_final st known env hk e.field
  by_cases hf : e.field < st.bound
  · have hc := (List.all_eq_true.mp h) e.field (List.mem_range.mpr hf)
    simp only [Bool.not_eq_true'] at hc
    exact hr.nul hc e he rfl
  · have := aexecF_unmentioned known e.field st AV.init (by omega)
    rw [this] at hr
    exact hr.nul rfl e he rfl

/-- **each allocation is freed at most once, only allocations are freed, and in a run without
leak every allocation is freed exactly once** — for every program and every option vector (the
log distinguishes `free` of a live allocation from `dfree`, which `noBad` excludes). -/
theorem frees_exactly_once (st : Stmt) (env : Env) :
    (∀ f k, (exec env st St.init).log.count (Event.free f k) ≤ 1) ∧
    (∀ f k, Event.free f k ∈ (exec env st St.init).log → Event.alloc f k ∈ (exec env st St.init).log) ∧
    ((exec env st St.init).noLeak noExempt →
      ∀ f k, Event.alloc f k ∈ (exec env st St.init).log →
        (exec env st St.init).log.count (Event.free f k) = 1) := by
  have hi := logInv_exec env st St.init logInv_init
  refine ⟨hi.once, hi.freeAlloc, ?_⟩
  intro hl f k hm
  rcases hi.fate f k hm with h1 | h1 | h1
  · have := hl.2 f rfl
    simp [h1, PState.isOwned] at this
  · exact h1
  · have := hl.1 _ h1 rfl
    simp [Event.isLost] at this

/-- assumptions given as a list of (option, value) pairs -/
theorem consistent_ofList (l : List (Nat × Bool)) (env : Env) (h : ∀ p ∈ l, env p.1 = p.2) :
    Consistent (Known.ofList l) env := by
  intro o b hb
  unfold Known.ofList at hb
  split at hb
  · rename_i p hp
    have hm := List.mem_of_find?_eq_some hp
    have hq := List.find?_some hp
    simp only [beq_iff_eq] at hq
    simp only [Option.some.injEq] at hb
    rw [← hq, ← hb]; exact h p hm
  · simp at hb


/-! ## LiveOutputManager (src/LiveOutputManager.hpp) -/

/-- for every setting of `enabled` and of the four output switches: the destructor deletes
exactly the calculators the constructor created, tests no uninitialised pointer, leaks nothing -/
theorem liveOutputManager_safe (env : Env) :
    (liveOutputManager.run env).noBad ∧ (liveOutputManager.run env).noLeak noExempt :=
  ctor_dtor_safe _ Known.none noExempt (by decide) env (consistent_none env)

theorem liveOutputManager_initialised (env : Env) :
    ∀ f, f < liveOutputManager.fields.length → ((liveOutputManager.afterCtor env).ptr f).isUninit = false :=
  ctor_initialises _ Known.none _ (by decide) env (consistent_none env)

/-- non-vacuity: with everything switched on, four allocations and four frees, in order -/
example : (liveOutputManager.run (fun _ => true)).log =
    [.alloc 0 0, .alloc 1 1, .alloc 2 2, .alloc 3 3, .free 0 0, .free 1 1, .free 2 2, .free 3 3] := by
  decide
/-- non-vacuity: with the defaults (disabled) nothing is allocated or freed -/
example : (liveOutputManager.run (fun _ => false)).log = [] := by decide

/-- `LiveOutputManager` as it was before /repo commit 4acd754 (kept by hand, independent of the
generated description): the initialiser of `_surface_density_ionized_calculator` (field 1) is
missing.  Options 0..3 = the four output switches, 4 = `enabled`. -/
def liveOutputManagerBefore4acd754 : ClassDesc where
  name := "LiveOutputManager@4acd754^"
  fields := ["_surface_density_calculator", "_surface_density_ionized_calculator",
    "_density_PDF_calculator", "_velocity_PDF_calculator"]
  opts := ["output_surface_density", "output_ionized_surface_density", "output_density_PDF",
    "output_velocity_PDF", "_enabled"]
  ctor := Stmt.ofList [.setNull 0, .setNull 2, .setNull 3,
    .ite (.opt 4) (Stmt.ofList [.ite (.opt 0) (.setNew 0) .skip, .ite (.opt 1) (.setNew 1) .skip,
      .ite (.opt 2) (.setNew 2) .skip, .ite (.opt 3) (.setNew 3) .skip]) .skip]
  dtor := Stmt.ofList [.ite (.nonNull 0) (.del 0) .skip, .ite (.nonNull 1) (.del 1) .skip,
    .ite (.nonNull 2) (.del 2) .skip, .ite (.nonNull 3) (.del 3) .skip]

/-- option vector given by the list of its first values -/
def envOf (l : List Bool) : Env := fun o => l.getD o false

/-- the defect fixed in 4acd754: whenever the ionized surface density output is off (the default:
`enabled` false or the switch itself false) the destructor tests and deletes an uninitialised
pointer — for every value of the other switches -/
theorem liveOutputManager_before_fix_unsafe :
    ∀ b0 b1 b2 b3 b4 : Bool, (b4 = false ∨ b1 = false) →
      Event.wild 1 ∈ (liveOutputManagerBefore4acd754.run (envOf [b0, b1, b2, b3, b4])).log := by
  decide

/-- and the check `wf` rejects that description, as it rejects the generated one with the
initialiser dropped -/
example : wf Known.none noExempt liveOutputManagerBefore4acd754.prog = false := by decide
example : wf Known.none noExempt
    (Stmt.seq (liveOutputManager.ctor.dropInit 1) liveOutputManager.dtor) = false := by decide

/-! ## TrackerManager (src/TrackerManager.hpp) -/

/-- every tracker created by the constructor is deleted once by the destructor (vector fields
stand for a representative element; `_multi_trackers` has no element between constructor and
destructor — it is filled by `add_trackers`, which is not modelled) -/
theorem trackerManager_safe (env : Env) :
    (trackerManager.run env).noBad ∧ (trackerManager.run env).noLeak noExempt :=
  ctor_dtor_safe _ Known.none noExempt (by decide) env (consistent_none env)

theorem trackerManager_no_null_use (env : Env) : (trackerManager.run env).noNullUse :=
  no_null_use _ Known.none (by decide) env (consistent_none env)

example : (trackerManager.run (fun _ => true)).log = [.alloc 0 0, .free 0 0, .delNull 1] ∨
    (trackerManager.run (fun _ => true)).log = [.alloc 0 0, .free 0 0] := by decide

/-! ## TaskBasedIonizationSimulation (src/TaskBasedIonizationSimulation.{hpp,cpp}) -/

/-- for every combination of optional components (sources, spectra, diffuse field, trackers,
zero luminosities): constructor + destructor free every allocation exactly once, read no
uninitialised member, leak nothing -/
theorem taskBasedIonizationSimulation_safe (env : Env) :
    (taskBasedIonizationSimulation.run env).noBad ∧
    (taskBasedIonizationSimulation.run env).noLeak noExempt :=
  ctor_dtor_safe _ Known.none noExempt (by decide) env (consistent_none env)

theorem taskBasedIonizationSimulation_initialised (env : Env) :
    ∀ f, f < taskBasedIonizationSimulation.fields.length →
      ((taskBasedIonizationSimulation.afterCtor env).ptr f).isUninit = false :=
  ctor_initialises _ Known.none _ (by decide) env (consistent_none env)

/-- the parameter file gives the continuous source a spectrum (not `type: None`) -/
def tbisAssumptions : List (String × Bool) :=
  [("_continuous_photon_source_spectrum:=PhotonSourceSpectrumFactory::generate", true)]

/-- under that assumption constructor and destructor dereference no null pointer -/
theorem taskBasedIonizationSimulation_no_null_use (env : Env)
    (h : ∀ p ∈ tbisAssumptions, env (idxOf taskBasedIonizationSimulation.opts p.1) = p.2) :
    (taskBasedIonizationSimulation.run env).noNullUse :=
  no_null_use _ (taskBasedIonizationSimulation.knownNames tbisAssumptions) (by decide) env
    (consistent_ofList _ env (by
      intro p hp
      simp only [List.mem_map] at hp
      obtain ⟨q, hq, rfl⟩ := hp
      exact h q hq))

example : ∃ env : Env, ∀ p ∈ tbisAssumptions, env (idxOf taskBasedIonizationSimulation.opts p.1) = p.2 :=
  ⟨fun _ => true, by decide⟩

/-! ## TaskBasedRadiationHydrodynamicsSimulation::do_simulation (pointer locals) -/

/-- for every run mode (fresh / restart / dry run) and every combination of optional components:
no pointer local is deleted twice, deleted or tested before it is initialised, or used after it
was deleted -/
theorem rhdSimulation_no_invalid_free (env : Env) : (rhdSimulation.run env).noBad :=
  (ctor_dtor_safe _ Known.none allExempt (by decide +kernel) env (consistent_none env)).1

def rhdNotDryRun : List (String × Bool) := [("parser.get_value<bool>(\"dry-run\")", false)]

/-- a complete (not dry) run deletes everything it allocated exactly once — EXCEPT the `TimeLine`,
which is allocated and never deleted (a leak of one small object at process exit; see
`rhdSimulation_timeline_leaked`).  The dry run returns early and frees nothing. -/
theorem rhdSimulation_no_leak_except_timeline (env : Env)
    (h : ∀ p ∈ rhdNotDryRun, env (idxOf rhdSimulation.opts p.1) = p.2) :
    (rhdSimulation.run env).noLeak (rhdSimulation.exemptNames ["timeline"]) :=
  (ctor_dtor_safe _ (rhdSimulation.knownNames rhdNotDryRun) _ (by decide +kernel) env
    (consistent_ofList _ env (by
      intro p hp
      simp only [List.mem_map] at hp
      obtain ⟨q, hq, rfl⟩ := hp
      exact h q hq))).2

/-- the exemption is needed: in every complete run the `TimeLine` is still owned at the end -/
theorem rhdSimulation_timeline_leaked (env : Env)
    (h : ∀ p ∈ rhdNotDryRun, env (idxOf rhdSimulation.opts p.1) = p.2) :
    ((rhdSimulation.run env).ptr (idxOf rhdSimulation.fields "timeline")).isOwned = true := by
  have hk : Consistent (rhdSimulation.knownNames rhdNotDryRun) env :=
    consistent_ofList _ env (by
      intro p hp
      simp only [List.mem_map] at hp
      obtain ⟨q, hq, rfl⟩ := hp
      exact h q hq)
  have hr := (rel_final rhdSimulation.prog _ env hk (idxOf rhdSimulation.fields "timeline")).kind
  have ha : aexecF (rhdSimulation.knownNames rhdNotDryRun) (idxOf rhdSimulation.fields "timeline")
      rhdSimulation.prog AV.init = ⟨false, false, true, false, false, false, false⟩ := by decide +kernel
  rw [ha] at hr
  unfold ClassDesc.run
  cases hp : (exec env rhdSimulation.prog St.init).ptr (idxOf rhdSimulation.fields "timeline") <;>
    simp [hp, PState.kindIn, PState.isOwned] at hr ⊢

/-- the parameter file names a density function, a source distribution and a source spectrum
(none of them `type: None`) and the run is not a dry run -/
def rhdAssumptions : List (String × Bool) :=
  [("density_function:=DensityFunctionFactory::generate", true),
   ("sourcedistribution:=PhotonSourceDistributionFactory::generate", true),
   ("spectrum:=PhotonSourceSpectrumFactory::generate", true)]

/-- under these assumptions no null pointer local is dereferenced -/
theorem rhdSimulation_no_null_use (env : Env)
    (h : ∀ p ∈ rhdAssumptions, env (idxOf rhdSimulation.opts p.1) = p.2) :
    (rhdSimulation.run env).noNullUse :=
  no_null_use _ (rhdSimulation.knownNames rhdAssumptions) (by decide +kernel) env
    (consistent_ofList _ env (by
      intro p hp
      simp only [List.mem_map] at hp
      obtain ⟨q, hq, rfl⟩ := hp
      exact h q hq))

example : ∃ env : Env, (∀ p ∈ rhdAssumptions, env (idxOf rhdSimulation.opts p.1) = p.2) ∧
    (∀ p ∈ rhdNotDryRun, env (idxOf rhdSimulation.opts p.1) = p.2) :=
  ⟨fun o => o != idxOf rhdSimulation.opts "parser.get_value<bool>(\"dry-run\")", by decide +kernel⟩

/-- the assumption on the source distribution is needed: with `PhotonSourceDistribution: type:
None` (a documented value, natural for `do radiation: false`) a fresh run dereferences the null
`sourcedistribution` (`sourcedistribution->get_total_luminosity()` when the
`TemperatureCalculator` is built) — reproduced on the real binary: SIGSEGV. -/
theorem rhdSimulation_null_source_distribution_is_dereferenced :
    ∃ env : Env, Event.nullUse (idxOf rhdSimulation.fields "sourcedistribution") ∈
      (rhdSimulation.run env).log :=
  ⟨fun o => o == idxOf rhdSimulation.opts "density_function:=DensityFunctionFactory::generate", by decide +kernel⟩

/-! ## the random photon source distributions: `std::ofstream *_output_file`, two constructors each
(the normal one and the restart constructor; /repo commit d5ef870 made the restart constructors
initialise the pointer) -/

theorem uniformRandomPSD_safe (env : Env) :
    (uniformRandomPSD.run env).noBad ∧ (uniformRandomPSD.run env).noLeak noExempt ∧
    (uniformRandomPSD.run env).noNullUse :=
  ⟨(ctor_dtor_safe _ Known.none noExempt (by decide) env (consistent_none env)).1,
   (ctor_dtor_safe _ Known.none noExempt (by decide) env (consistent_none env)).2,
   no_null_use _ Known.none (by decide) env (consistent_none env)⟩

theorem uniformRandomPSDRestart_safe (env : Env) :
    (uniformRandomPSDRestart.run env).noBad ∧ (uniformRandomPSDRestart.run env).noLeak noExempt ∧
    (uniformRandomPSDRestart.run env).noNullUse :=
  ⟨(ctor_dtor_safe _ Known.none noExempt (by decide) env (consistent_none env)).1,
   (ctor_dtor_safe _ Known.none noExempt (by decide) env (consistent_none env)).2,
   no_null_use _ Known.none (by decide) env (consistent_none env)⟩

theorem caproniPSD_safe (env : Env) :
    (caproniPSD.run env).noBad ∧ (caproniPSD.run env).noLeak noExempt ∧
    (caproniPSD.run env).noNullUse :=
  ⟨(ctor_dtor_safe _ Known.none noExempt (by decide) env (consistent_none env)).1,
   (ctor_dtor_safe _ Known.none noExempt (by decide) env (consistent_none env)).2,
   no_null_use _ Known.none (by decide) env (consistent_none env)⟩

theorem caproniPSDRestart_safe (env : Env) :
    (caproniPSDRestart.run env).noBad ∧ (caproniPSDRestart.run env).noLeak noExempt ∧
    (caproniPSDRestart.run env).noNullUse :=
  ⟨(ctor_dtor_safe _ Known.none noExempt (by decide) env (consistent_none env)).1,
   (ctor_dtor_safe _ Known.none noExempt (by decide) env (consistent_none env)).2,
   no_null_use _ Known.none (by decide) env (consistent_none env)⟩

/-- `DiscPatchPhotonSourceDistribution` has no destructor body: nothing invalid can happen, but
the output stream is never deleted (see `discPatchPSD_output_file_leaked`) -/
theorem discPatchPSD_no_invalid_free (env : Env) :
    (discPatchPSD.run env).noBad ∧ (discPatchPSD.run env).noNullUse ∧
    (discPatchPSDRestart.run env).noBad ∧ (discPatchPSDRestart.run env).noNullUse :=
  ⟨(ctor_dtor_safe _ Known.none allExempt (by decide) env (consistent_none env)).1,
   no_null_use _ Known.none (by decide) env (consistent_none env),
   (ctor_dtor_safe _ Known.none allExempt (by decide) env (consistent_none env)).1,
   no_null_use _ Known.none (by decide) env (consistent_none env)⟩

/-- with the source output switched on, `DiscPatchPhotonSourceDistribution` leaks its
`std::ofstream` (both constructors): the stream is never closed or deleted -/
theorem discPatchPSD_output_file_leaked :
    (∃ env : Env, ((discPatchPSD.run env).ptr 0).isOwned = true) ∧
    (∃ env : Env, ((discPatchPSDRestart.run env).ptr 0).isOwned = true) :=
  ⟨⟨fun _ => true, by decide⟩, ⟨fun _ => true, by decide⟩⟩

/-- every constructor of the three classes initialises `_output_file` -/
theorem randomPSD_initialised (env : Env) :
    ((uniformRandomPSD.afterCtor env).ptr 0).isUninit = false ∧
    ((uniformRandomPSDRestart.afterCtor env).ptr 0).isUninit = false ∧
    ((discPatchPSD.afterCtor env).ptr 0).isUninit = false ∧
    ((discPatchPSDRestart.afterCtor env).ptr 0).isUninit = false ∧
    ((caproniPSD.afterCtor env).ptr 0).isUninit = false ∧
    ((caproniPSDRestart.afterCtor env).ptr 0).isUninit = false :=
  ⟨ctor_initialises _ Known.none 1 (by decide) env (consistent_none env) 0 (by decide),
   ctor_initialises _ Known.none 1 (by decide) env (consistent_none env) 0 (by decide),
   ctor_initialises _ Known.none 1 (by decide) env (consistent_none env) 0 (by decide),
   ctor_initialises _ Known.none 1 (by decide) env (consistent_none env) 0 (by decide),
   ctor_initialises _ Known.none 1 (by decide) env (consistent_none env) 0 (by decide),
   ctor_initialises _ Known.none 1 (by decide) env (consistent_none env) 0 (by decide)⟩

/-- the restart constructor as it was before d5ef870 (kept by hand): `_output_file` is only set
when the restart file says there was an output file -/
def randomPSDRestartBeforeD5ef870 : ClassDesc where
  name := "UniformRandomPhotonSourceDistribution(RestartReader&)@d5ef870^"
  fields := ["_output_file"]
  opts := ["has_output"]
  ctor := .ite (.opt 0) (.setNew 0) .skip
  dtor := .ite (.nonNull 0) (.seq (.use 0) (.del 0)) .skip

/-- the defect fixed in d5ef870: restarting a run without source output makes the destructor
test, close and delete an uninitialised pointer -/
theorem randomPSD_restart_before_fix_unsafe :
    Event.wild 0 ∈ (randomPSDRestartBeforeD5ef870.run (envOf [false])).log ∧
    wf Known.none noExempt randomPSDRestartBeforeD5ef870.prog = false ∧
    wfInit Known.none randomPSDRestartBeforeD5ef870.ctor 1 = false := by decide

end CMacVerif.Lifecycle
