import CMacVerif.Model.HydroSweeps
import CMacVerif.Model.HydroUpdate
/-!
# One hydro step of the whole grid (C04, C10)

`Grid σ` = one state per cell (global coordinates).  `applyOp` is one call made by a sweep: a pair
interaction updates first the left then the right cell *of the current grid*, so that
`left_state` and `right_state` may be the same object (periodic axis with a single cell), exactly
as the C++ references alias.  What a call does with the two cell states is a parameter (`Phys`):
`gradPhys` (`do_gradient_calculation`) and `fluxPhys` (`do_flux_calculation`) instantiate it with
the cell-level functions of `Model/HydroUpdate.lean`.

`hydroStep` runs the phases in the order `execute_task` runs them for one subgrid (C07 shows that
the task graph enforces this order between neighbouring subgrids):
gradient sweeps → slope limiter → half-step prediction → flux sweeps → conserved update →
primitive update.  Slope limiter and prediction are parameters of `hydroStep` (per-cell maps that can only
write the gradients resp. the primitives); `hydroStepCode` plugs in the models of
`apply_slope_limiter` and `predict_primitive_variables` (`Model/HydroUpdate.lean`).

`layoutOps L c` is the list of calls of all sweeps of all subgrids of a layout; `gridOps G` the
calls of the plain sequential sweep over the undivided grid.  Core Lean only.
-/
namespace CMacVerif.HydroStep
open CMacVerif CMacVerif.RiemannVacuum CMacVerif.HydroGraph CMacVerif.HydroSweeps
  CMacVerif.HydroUpdate

abbrev Cell := Nat × Nat × Nat
abbrev Grid (σ : Type) := Cell → σ

/-- one call made by a sweep: a pair interaction along `ax` (left cell, right cell) or a ghost
interaction of `cell` at its upper / lower box boundary -/
inductive Op where
  | pair (ax : Axis) (l r : Cell)
  | ghost (ax : Axis) (up : Bool) (cell : Cell)
deriving DecidableEq, Repr

/-- what one kind of sweep (gradient or flux) does with the cell states -/
structure Phys (σ κ : Type) where
  /-- the quantity exchanged across a face (`dwdx` and the primitives / the limited flux) -/
  contrib : Axis → σ → σ → κ
  /-- the same against the ghost cell of a box boundary -/
  ghostContrib : Axis → Bool → σ → κ
  /-- update of the left cell (also the only cell of a ghost interaction) -/
  addLeft : Axis → σ → κ → σ
  /-- update of the right cell -/
  addRight : Axis → σ → κ → σ

def gupd {σ : Type} (s : Grid σ) (x : Cell) (v : σ) : Grid σ := fun y => if y = x then v else s y

def applyOp {σ κ : Type} (P : Phys σ κ) (s : Grid σ) : Op → Grid σ
  | .pair ax l r =>
    let k := P.contrib ax (s l) (s r)
    let s1 := gupd s l (P.addLeft ax (s l) k)
    gupd s1 r (P.addRight ax (s1 r) k)
  | .ghost ax up x => gupd s x (P.addLeft ax (s x) (P.ghostContrib ax up (s x)))

/-- a sweep phase: the calls in the order given -/
def runOps {σ κ : Type} (P : Phys σ κ) (s : Grid σ) (ops : List Op) : Grid σ :=
  ops.foldl (applyOp P) s

/-- a per-cell task on every cell -/
def mapCells {σ : Type} (f : σ → σ) (s : Grid σ) : Grid σ := fun x => f (s x)

section
variable {α : Type} [Add α] [Sub α] [Mul α] [Div α] [Neg α] [LT α] [LE α]
  [DecidableLT α] [DecidableLE α] [OfScientific α] [ArithFns α]

/-- geometry and parameters of a run: cell sizes, inverse sizes, face areas per axis, inverse cell
volume, time step, `DBL_MIN`, `DBL_MAX`, `_max_velocity`, overflow threshold of `isinf(1/x)` -/
structure Params (α : Type) where
  tiny : α
  dmax : α
  ovf : α
  g : α
  vmax : α
  dx : Axis → α
  dxinv : Axis → α
  area : Axis → α
  invVol : α
  dt : α
  /-- the boundary condition on the upper (`true`) / lower side of each non-periodic axis
  (`HydroBoundaryManager`) -/
  bc : Axis → Bool → Boundary

/-- the gradient sweeps (`do_gradient_calculation`, `do_ghost_gradient_calculation` with the
boundary condition `pr.bc` of that side); the contribution is `(dwdx, primitives seen by the left cell, … by the right
cell)` -/
def gradPhys (pr : Params α) : Phys (HV α) (Q α × Q α × Q α) where
  contrib ax L R := (dwdx L.prim R.prim (pr.dxinv ax), R.prim, L.prim)
  ghostContrib ax up L :=
    let dxinv := if up then pr.dxinv ax else -(pr.dxinv ax)
    let Wr := ghostGradientRight (pr.bc ax up) ax (orientation dxinv) L.prim
    (dwdx L.prim Wr dxinv, Wr, Wr)
  addLeft ax h k := gradAddLeft ax h k.1 k.2.1
  addRight ax h k := gradSubRight ax h k.1 k.2.2

/-- the flux sweeps (`do_flux_calculation`, `do_ghost_flux_calculation` with the boundary
condition `pr.bc` of that side); the contribution is the limited flux `F`: `left -= F`, `right += F` -/
def fluxPhys (flux : FluxFn α) (pr : Params α) : Phys (HV α) (Q α) where
  contrib ax L R := faceFlux flux pr.tiny pr.g ax L R (pr.dx ax) (pr.area ax) pr.dt
  ghostContrib ax up L :=
    ghostFaceFluxB (pr.bc ax up) flux pr.tiny pr.g ax L (if up then pr.dx ax else -(pr.dx ax))
      (pr.area ax) pr.dt
  addLeft _ h k := { h with dcons := h.dcons.sub k }
  addRight _ h k := { h with dcons := h.dcons.add k }

/-- the state after the flux sweeps of a step (before the conserved variables are updated) -/
def hydroStepFlux (flux : FluxFn α) (pr : Params α) (limiter : HV α → Grad α)
    (predict : HV α → Q α) (gradOps fluxOps : List Op) (s : Grid (HV α)) : Grid (HV α) :=
  let s := runOps (gradPhys pr) s gradOps
  let s := mapCells (fun h => { h with grad := limiter h }) s
  let s := mapCells (fun h => { h with prim := predict h }) s
  runOps (fluxPhys flux pr) s fluxOps

/-- one hydro step for given lists of gradient and flux calls -/
def hydroStep (flux : FluxFn α) (pr : Params α) (limiter : HV α → Grad α)
    (predict : HV α → Q α) (gradOps fluxOps : List Op) (s : Grid (HV α)) : Grid (HV α) :=
  let s := hydroStepFlux flux pr limiter predict gradOps fluxOps s
  let s := mapCells (fun h => updateConserved pr.dmax h pr.dt) s
  mapCells (fun h => { h with prim := setPrimitive pr.g pr.vmax pr.ovf pr.invVol h.cons }) s

/-- the slope limiter task of the code: `apply_slope_limiter` with the cell sizes `_cell_size` -/
def codeLimiter (pr : Params α) (h : HV α) : Grad α :=
  applySlopeLimiter pr.dmax h ⟨pr.dx .x, pr.dx .y, pr.dx .z⟩

/-- the prediction task of the code: `predict_primitive_variables(hydro, 0.5 * timestep)` -/
def codePredict (pr : Params α) (h : HV α) : Q α :=
  predictPrimitive pr.g pr.ovf h.prim h.grad h.acc (0.5 * pr.dt)

/-- one hydro step with the slope limiter and the prediction of the code -/
def hydroStepCode (flux : FluxFn α) (pr : Params α) (gradOps fluxOps : List Op)
    (s : Grid (HV α)) : Grid (HV α) :=
  hydroStep flux pr (codeLimiter pr) (codePredict pr) gradOps fluxOps s

end

def axes : List Axis := [.x, .y, .z]

/-- all calls of one kind (gradient or flux) that the tasks of a layout make in one step, subgrid
by subgrid as in `HydroSweeps.allFaces` / `allGhosts` -/
def layoutOps (L : Layout) (c : Cells) : List Op :=
  axes.flatMap fun ax =>
    (allFaces L c ax).map (fun f => Op.pair ax f.1 f.2) ++
      (allGhosts L c ax true).map (Op.ghost ax true) ++
      (allGhosts L c ax false).map (Op.ghost ax false)

/-- the calls of the sequential sweep over an undivided grid `G` of cells -/
def gridOps (G : Layout) : List Op :=
  axes.flatMap fun ax =>
    (gridFaces G ax).map (fun f => Op.pair ax f.1 f.2) ++
      (gridGhosts G ax true).map (Op.ghost ax true) ++
      (gridGhosts G ax false).map (Op.ghost ax false)

end CMacVerif.HydroStep
