/-
Model of `Unit` (src/Unit.hpp) and `UnitConverter` (src/UnitConverter.hpp), generic over the
number type: `Float` in the driver (same operations in the same order as the C++, compared bit
for bit), `Rat` for the exact run and for the theorems.  The unit table itself is generated on
every check (`Gen/Units.lean`, by calling the real `get_single_unit`).

`get_unit` is split as in the C++: a character scanner (`scanUnits`: skip to a letter, read up to
' ' or '^', read the exponent) producing tokens, and the grammar on tokens (`getUnitToks`:
first unit, `^=`, then `*=` for each further unit).  Errors (`cmac_error`, `std::stoi` throwing)
are `none`.

Core Lean only.
-/
import CMacVerif.Gen.Units
namespace CMacVerif.Units
open CMacVerif.Gen.Units

abbrev Str := List Char

/-- how a table value enters the number type -/
class OfDbl (α : Type) where
  ofDbl : Dbl → α

instance : OfDbl Float := ⟨fun d => Float.ofBits d.bits.toUInt64⟩
instance : OfDbl Rat := ⟨fun d => (d.num : Rat) / (d.den : Rat)⟩

structure Unit (α : Type) where
  value : α
  length : Int
  time : Int
  mass : Int
  temperature : Int
  current : Int
  angle : Int
deriving Repr

section
variable {α : Type} [Mul α] [Div α] [OfScientific α] [OfDbl α]

namespace Unit

/-- `operator*=` -/
def mul (a b : Unit α) : Unit α :=
  ⟨a.value * b.value, a.length + b.length, a.time + b.time, a.mass + b.mass,
   a.temperature + b.temperature, a.current + b.current, a.angle + b.angle⟩

/-- `operator/=` -/
def div (a b : Unit α) : Unit α :=
  ⟨a.value / b.value, a.length - b.length, a.time - b.time, a.mass - b.mass,
   a.temperature - b.temperature, a.current - b.current, a.angle - b.angle⟩

/-- `n` times `acc *= v` -/
def mulLoop (v : α) : Nat → α → α
  | 0, acc => acc
  | n + 1, acc => mulLoop v n (acc * v)

/-- `n` times `acc /= v` -/
def divLoop (v : α) : Nat → α → α
  | 0, acc => acc
  | n + 1, acc => divLoop v n (acc / v)

/-- the value computed by `operator^=`:
`power == 0`: `_value = 1.`;
`power > 0`: `i = 1; while (i < power) { _value *= value; ++i; }`;
`power < 0`: `_value = 1.; i = 0; while (i < -power) { _value /= value; ++i; }` -/
def powValue (v : α) (p : Int) : α :=
  if p = 0 then 1.0
  else if p > 0 then mulLoop v (p.toNat - 1) v
  else divLoop v (-p).toNat 1.0

/-- `operator^=` -/
def pow (u : Unit α) (p : Int) : Unit α :=
  ⟨powValue u.value p, u.length * p, u.time * p, u.mass * p, u.temperature * p, u.current * p,
   u.angle * p⟩

/-- `is_same_quantity` -/
def sameQuantity (a b : Unit α) : Bool :=
  a.length == b.length && a.time == b.time && a.mass == b.mass && a.temperature == b.temperature &&
  a.current == b.current && a.angle == b.angle

end Unit

def ofEntry (e : Entry) : Unit α :=
  ⟨OfDbl.ofDbl e.val, e.length, e.time, e.mass, e.temperature, e.current, e.angle⟩

def lookup (name : Str) : List Entry → Option Entry
  | [] => none
  | e :: r => if name = e.name then some e else lookup name r

/-- `get_single_unit` (`none` = "Unknown unit") -/
def getSingleUnit (name : Str) : Option (Unit α) := (lookup name table).map ofEntry

/-! ### scanner of `get_unit` -/

structure Tok where
  name : Str
  pow : Option Int
deriving Repr, DecidableEq

/-- `isalpha` in the C locale -/
def isAlpha (c : Char) : Bool := ('a' ≤ c && c ≤ 'z') || ('A' ≤ c && c ≤ 'Z')
/-- `isdigit` -/
def isDigit (c : Char) : Bool := '0' ≤ c && c ≤ '9'
/-- `isspace` in the C locale (skipped by `std::stoi`) -/
def isSpace (c : Char) : Bool := c = ' ' || c = '\t' || c = '\n' || c = '\r' || c.toNat = 11 || c.toNat = 12

def digitsVal : List Char → Nat → Nat
  | [], acc => acc
  | c :: s, acc => digitsVal s (10 * acc + (c.toNat - '0'.toNat))

/-- `std::stoi` (no overflow check: the generator keeps exponents small): leading white space,
optional sign, at least one digit, stops at the first non-digit; `none` = `std::invalid_argument` -/
def stoi (s : Str) : Option Int :=
  let s := s.dropWhile isSpace
  let (neg, s) := match s with
    | '-' :: r => (true, r)
    | '+' :: r => (false, r)
    | _ => (false, s)
  let ds := s.takeWhile isDigit
  if ds.isEmpty then none
  else
    let n : Int := digitsVal ds 0
    some (if neg then -n else n)

/-- the scanning loop of `get_unit` from position `pos2` on: `some []` when only non-letters
remain.  `fuel` bounds the number of units (one per character at most). -/
def scanLoop : Nat → Str → Option (List Tok)
  | 0, _ => some []
  | fuel + 1, s =>
    match s.dropWhile (fun c => !isAlpha c) with
    | [] => some []
    | c :: r =>
      -- pos2 = pos1 + 1; while (name[pos2] != ' ' && name[pos2] != '^') ++pos2;
      let nm := c :: r.takeWhile (fun c => c ≠ ' ' && c ≠ '^')
      let r := r.dropWhile (fun c => c ≠ ' ' && c ≠ '^')
      match r with
      | '^' :: r2 =>
        -- ++pos2; pos1 = pos2; ++pos2; while (isdigit || '+' || '-') ++pos2;
        match r2 with
        | [] => none          -- std::stoi("") throws
        | f :: r3 =>
          let ps := f :: r3.takeWhile (fun c => isDigit c || c = '+' || c = '-')
          let r4 := r3.dropWhile (fun c => isDigit c || c = '+' || c = '-')
          match stoi ps with
          | none => none
          | some p => (scanLoop fuel r4).map (⟨nm, some p⟩ :: ·)
      | _ => (scanLoop fuel r).map (⟨nm, none⟩ :: ·)

/-- tokens of a unit string; `none`: "Empty unit provided!" or a malformed exponent -/
def scanUnits (s : Str) : Option (List Tok) :=
  match scanLoop (s.length + 1) s with
  | some [] => none
  | r => r

/-! ### grammar on tokens -/

/-- `get_single_unit(name)` followed by `^= power` when an exponent was given -/
def evalTok (t : Tok) : Option (Unit α) :=
  match getSingleUnit t.name, t.pow with
  | none, _ => none
  | some u, none => some u
  | some u, some p => some (u.pow p)

/-- `unit *= unit2` for every further token, left to right -/
def mulToks (u : Unit α) : List Tok → Option (Unit α)
  | [] => some u
  | t :: ts => match evalTok t with
    | none => none
    | some u2 => mulToks (u.mul u2) ts

def getUnitToks : List Tok → Option (Unit α)
  | [] => none
  | t :: ts => match evalTok t with
    | none => none
    | some u => mulToks u ts

/-- `get_unit` -/
def getUnit (s : Str) : Option (Unit α) :=
  match scanUnits s with
  | none => none
  | some ts => getUnitToks ts

def nth? {β : Type} : List β → Nat → Option β
  | [], _ => none
  | a :: _, 0 => some a
  | _ :: l, i + 1 => nth? l i

/-- `get_SI_unit(quantity)` -/
def getSIUnit (q : Nat) : Option (Unit α) :=
  match nth? siNames q with
  | none => none
  | some n => getUnit n

/-! ### conversions -/

/-- the two rows of `try_conversion`: (A, B, A_in_B_fac, A_in_B_pow) —
energy → frequency with `1/h`, power 1; length → frequency with `c`, power −1 -/
def crossTable : List (Nat × Nat × α × Int) :=
  [(qEnergy, qFrequency, (1.0 : α) / OfDbl.ofDbl planck, 1),
   (qLength, qFrequency, OfDbl.ofDbl lightspeed, -1)]

/-- `try_conversion` for one row; `none` = this row does not apply -/
def tryRow (value : α) (ufrom uto : Unit α) (row : Nat × Nat × α × Int) : Option (Option α) :=
  match row with
  | (qa, qb, fac, pw) =>
    match (getSIUnit qa : Option (Unit α)), (getSIUnit qb : Option (Unit α)) with
    | some ua, some ub =>
      if ufrom.sameQuantity ua && uto.sameQuantity ub then
        let fval := (1.0 : α) * ufrom.value
        let tval := (1.0 : α) * uto.value
        let sfac := value * fval
        let sval := if pw > 0 then Unit.mulLoop sfac (pw.toNat - 1) sfac
                    else Unit.divLoop sfac (-pw).toNat 1.0
        some (some (sval * fac / tval))
      else if ufrom.sameQuantity ub && uto.sameQuantity ua then
        let fval := (1.0 : α) * ufrom.value
        let tval := (1.0 : α) * uto.value
        let sval := value * fval / fac
        if pw = 1 then some (some (sval / tval))
        else if pw = -1 then some (some ((1.0 : α) / sval / tval))
        else some none          -- std::pow branch: not reachable with the rows above
      else none
    | _, _ => some none

/-- `try_conversion` (`none` = "No known conversion") -/
def tryConversion (value : α) (ufrom uto : Unit α) : Option α :=
  let rec go : List (Nat × Nat × α × Int) → Option α
    | [] => none
    | row :: rest => match tryRow value ufrom uto row with
      | some r => r
      | none => go rest
  go crossTable

/-- `to_SI<q>(value, unit)` -/
def toSI (q : Nat) (value : α) (unit : Str) : Option α :=
  match (getSIUnit q : Option (Unit α)), (getUnit unit : Option (Unit α)) with
  | some si, some u =>
    if !si.sameQuantity u then tryConversion value u si
    else some (value * u.value)
  | _, _ => none

/-- `to_unit<q>(value, unit)` -/
def toUnit (q : Nat) (value : α) (unit : Str) : Option α :=
  match (getSIUnit q : Option (Unit α)), (getUnit unit : Option (Unit α)) with
  | some si, some u =>
    if !si.sameQuantity u then tryConversion value si u
    else some (value / u.value)
  | _, _ => none

/-- `convert(value, unit_from, unit_to)` -/
def convert (value : α) (ufrom uto : Str) : Option α :=
  match (getUnit ufrom : Option (Unit α)), (getUnit uto : Option (Unit α)) with
  | some f, some t =>
    if !t.sameQuantity f then tryConversion value f t
    else some (value * (f.div t).value)
  | _, _ => none

end
end CMacVerif.Units
