import CMacVerif.Model.HydroGraph
/-!
# Which cell pairs the hydro sweeps of a subgrid visit (src/HydroDensitySubGrid.hpp)

Integer part of the C04 / C10 model.  For a subgrid with `_number_of_cells = (cx, cy, cz)`:

* `innerIdx`  — `inner_flux_sweep` (295-340) and `inner_gradient_sweep` (568-616): three loop
  nests, `index000 = ix * _number_of_cells[3] + iy * _number_of_cells[2] + iz` and the index of the
  next cell along the axis,
* `outerIdx`  — `outer_flux_sweep` (351-456) and `outer_gradient_sweep` (626-727): the
  `switch (direction)` table (`start_index_left`, `row_increment`, `row_length`,
  `column_increment`, `column_length`) and
  `index = start + ic * column_increment + ir * row_increment`,
* `ghostIdx`  — `outer_ghost_flux_sweep` (468-560) and `outer_ghost_gradient_sweep` (739-832).

The flux and the gradient sweeps have the same loop bounds and index formulas (checked against the
code by the per-call log of hook H3: both kinds are compared with these lists).

Every list exists at two levels: *index level* (what the C++ computes: one-dimensional cell
indices inside a subgrid; this is what the driver prints) and *coordinate level* (`Loc = (ix, iy,
iz)`, used by the theorems); `Lemmas/HydroSweeps.lean` proves that the index level is the image of
the coordinate level under `lidx`.  `gcell` places a subgrid cell in the global grid; the global
grid of cells is itself described by a `HydroGraph.Layout` (`cellGrid`: `nx*cx × ny*cy × nz*cz`
cells, same periodicity), so `HydroGraph.ngbUp` is also the "next cell" function of the global
grid.  Core Lean only.
-/
namespace CMacVerif.HydroSweeps
open CMacVerif.HydroGraph

/-- `_number_of_cells[0..2]` of every subgrid (`_number_of_cells[3] = cy * cz`) -/
structure Cells where
  cx : Nat
  cy : Nat
  cz : Nat
deriving Repr, DecidableEq

/-- cell coordinates, inside a subgrid `(ix, iy, iz)` or in the global grid `(X, Y, Z)`;
`HydroGraph.coord` / `setCoord` work on them -/
abbrev Loc := Nat × Nat × Nat

def clen (c : Cells) : Axis → Nat | .x => c.cx | .y => c.cy | .z => c.cz

/-- `index = ix * _number_of_cells[3] + iy * _number_of_cells[2] + iz` (DensitySubGrid.hpp:172) -/
def lidx (c : Cells) (p : Loc) : Nat := p.1 * (c.cy * c.cz) + p.2.1 * c.cz + p.2.2

/-- `DensitySubGrid::get_three_index` (DensitySubGrid.hpp:221-226) -/
def threeIndex (c : Cells) (i : Nat) : Loc :=
  let ix := i / (c.cy * c.cz)
  let iy := (i - ix * (c.cy * c.cz)) / c.cz
  (ix, iy, i - ix * (c.cy * c.cz) - iy * c.cz)

def validLoc (c : Cells) (p : Loc) : Bool := p.1 < c.cx && p.2.1 < c.cy && p.2.2 < c.cz

/-! ### inner sweeps -/

/-- loop bound of index `ax'` in the loop nest for direction `ax`: `_number_of_cells[ax'] - 1`
for the swept axis, `_number_of_cells[ax']` otherwise -/
def innerBound (c : Cells) (ax ax' : Axis) : Nat := if ax' = ax then clen c ax' - 1 else clen c ax'

/-- the loop nest of direction `ax`: `(index000, index100 | index010 | index001)` as coordinates -/
def innerLoc (c : Cells) (ax : Axis) : List (Loc × Loc) :=
  (List.range (innerBound c ax .x)).flatMap fun ix =>
    (List.range (innerBound c ax .y)).flatMap fun iy =>
      (List.range (innerBound c ax .z)).map fun iz =>
        ((ix, iy, iz), setCoord (ix, iy, iz) ax (coord (ix, iy, iz) ax + 1))

/-- the same loop nest with the index expressions of the code -/
def innerIdx (c : Cells) (ax : Axis) : List (Nat × Nat) :=
  let n2 := c.cz
  let n3 := c.cy * c.cz
  (List.range (innerBound c ax .x)).flatMap fun ix =>
    (List.range (innerBound c ax .y)).flatMap fun iy =>
      (List.range (innerBound c ax .z)).map fun iz =>
        (ix * n3 + iy * n2 + iz,
          match ax with
          | .x => (ix + 1) * n3 + iy * n2 + iz
          | .y => ix * n3 + (iy + 1) * n2 + iz
          | .z => ix * n3 + iy * n2 + iz + 1)

/-! ### sweeps over a face of the subgrid -/

/-- the variables set by the `switch (direction)` of the outer sweeps -/
structure Geom where
  startLeft : Nat
  rowInc : Nat
  rowLen : Nat
  colInc : Nat
  colLen : Nat
deriving Repr

/-- `TRAVELDIRECTION_FACE_{X,Y,Z}_P` (and `_N` of the pair sweeps, which only exchanges the roles
of the two subgrids; `make_hydro_tasks` never creates a pair task with an `_N` direction) -/
def outerGeom (c : Cells) : Axis → Geom
  | .x => ⟨(c.cx - 1) * (c.cy * c.cz), 1, c.cz, c.cz, c.cy⟩
  | .y => ⟨(c.cy - 1) * c.cz, 1, c.cz, c.cy * c.cz, c.cx⟩
  | .z => ⟨c.cz - 1, c.cz, c.cy, c.cy * c.cz, c.cx⟩

/-- `(index_left, index_right)` of `outer_flux_sweep` / `outer_gradient_sweep`: `index_left` in the
subgrid below the face, `index_right` (with `start_index_right = 0`) in the one above -/
def outerIdx (c : Cells) (ax : Axis) : List (Nat × Nat) :=
  let g := outerGeom c ax
  (List.range g.colLen).flatMap fun ic =>
    (List.range g.rowLen).map fun ir =>
      (g.startLeft + ic * g.colInc + ir * g.rowInc, 0 + ic * g.colInc + ir * g.rowInc)

/-- `index_left` of the ghost sweeps: `start_index_left` as in `outerGeom` for the `_P` side,
`0` for the `_N` side -/
def ghostIdx (c : Cells) (ax : Axis) (up : Bool) : List Nat :=
  let g := outerGeom c ax
  let start := if up then g.startLeft else 0
  (List.range g.colLen).flatMap fun ic =>
    (List.range g.rowLen).map fun ir => start + ic * g.colInc + ir * g.rowInc

/-- the two running indices `(ic, ir)` of a face sweep as a cell of the subgrid whose coordinate
along `ax` is `v` -/
def faceLoc (ax : Axis) (v ic ir : Nat) : Loc :=
  match ax with
  | .x => (v, ic, ir)
  | .y => (ic, v, ir)
  | .z => (ic, ir, v)

def faceLocs (c : Cells) (ax : Axis) (v : Nat) : List Loc :=
  let g := outerGeom c ax
  (List.range g.colLen).flatMap fun ic => (List.range g.rowLen).map fun ir => faceLoc ax v ic ir

/-- coordinate level of `outerIdx`: last layer of the lower subgrid, first layer of the upper -/
def outerLoc (c : Cells) (ax : Axis) : List (Loc × Loc) :=
  let g := outerGeom c ax
  (List.range g.colLen).flatMap fun ic =>
    (List.range g.rowLen).map fun ir => (faceLoc ax (clen c ax - 1) ic ir, faceLoc ax 0 ic ir)

/-- coordinate level of `ghostIdx` -/
def ghostLoc (c : Cells) (ax : Axis) (up : Bool) : List Loc :=
  faceLocs c ax (if up then clen c ax - 1 else 0)

/-! ### the global grid of cells -/

/-- the global cell grid as a "layout" of `nx*cx × ny*cy × nz*cz` cells -/
def cellGrid (L : Layout) (c : Cells) : Layout :=
  ⟨L.nx * c.cx, L.ny * c.cy, L.nz * c.cz, L.px, L.py, L.pz⟩

/-- global coordinates of cell `p` of subgrid `g` -/
def gcell (c : Cells) (g : Sub) (p : Loc) : Loc :=
  (g.1 * c.cx + p.1, g.2.1 * c.cy + p.2.1, g.2.2 * c.cz + p.2.2)

/-- index of a subgrid in `DensitySubGridCreator` (`ix * ny * nz + iy * nz + iz`) -/
def subIndex (L : Layout) (g : Sub) : Nat := g.1 * (L.ny * L.nz) + g.2.1 * L.nz + g.2.2

/-- index of a cell in global cell order (x slowest) -/
def gidx (L : Layout) (c : Cells) (X : Loc) : Nat :=
  X.1 * ((L.ny * c.cy) * (L.nz * c.cz)) + X.2.1 * (L.nz * c.cz) + X.2.2

/-- one pair interaction: the cell whose state is the *left* argument of
`do_flux_calculation` / `do_gradient_calculation`, the *right* one, both in global coordinates -/
abbrev Face := Loc × Loc

/-- all pair interactions along `ax` that the tasks of subgrid `g` perform: its internal sweep
and the pair sweep with the neighbour above (slot 10/12/14 resp. 1/3/5, if that neighbour exists;
for a periodic axis with one subgrid the neighbour is `g` itself) -/
def subFaces (L : Layout) (c : Cells) (ax : Axis) (g : Sub) : List Face :=
  (innerLoc c ax).map (fun pq => (gcell c g pq.1, gcell c g pq.2)) ++
    match ngbUp L ax g with
    | some n => (outerLoc c ax).map (fun pq => (gcell c g pq.1, gcell c n pq.2))
    | none => []

/-- all ghost interactions of subgrid `g` at its `up`/down side along `ax` (boundary tasks exist
only where there is no neighbour) -/
def subGhosts (L : Layout) (c : Cells) (ax : Axis) (up : Bool) (g : Sub) : List Loc :=
  if (if up then ngbUp L ax g else ngbDown L ax g).isNone then (ghostLoc c ax up).map (gcell c g)
  else []

/-- everything the flux (or gradient) tasks of a whole layout do along `ax`, subgrid by subgrid -/
def allFaces (L : Layout) (c : Cells) (ax : Axis) : List Face :=
  (allSubs L).flatMap (subFaces L c ax)

def allGhosts (L : Layout) (c : Cells) (ax : Axis) (up : Bool) : List Loc :=
  (allSubs L).flatMap (subGhosts L c ax up)

/-- the faces of a grid of cells `G` along `ax` in plain cell order: every cell with its next
cell along the axis (periodic wrap), i.e. the sequential sweep over an undivided grid -/
def gridFaces (G : Layout) (ax : Axis) : List Face :=
  (allSubs G).filterMap fun X => (ngbUp G ax X).map fun Y => (X, Y)

/-- the cells of `G` that have a box boundary at their `up`/down side along `ax` -/
def gridGhosts (G : Layout) (ax : Axis) (up : Bool) : List Loc :=
  (allSubs G).filter fun X => (if up then ngbUp G ax X else ngbDown G ax X).isNone

end CMacVerif.HydroSweeps
