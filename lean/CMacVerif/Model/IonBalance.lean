import CMacVerif.Arith
/-!
# Ionization and thermal balance of one cell (C06), statement by statement

Mirrors, in the order of the C++ statements,

* `IonizationStateCalculator::compute_ionization_state_hydrogen`   (IonizationStateCalculator.cpp 835-856) → `h0Core`, `h0Hydrogen`
* `IonizationStateCalculator::compute_ionization_states_metals`    (352-530) → `ratio1/2/3/CT`, `chain2/3`, `metalFractions`
* `IonizationStateCalculator::compute_ionization_states_hydrogen_helium` (678-786) →
  `hHeCoef`, `hHeInit`, `pHots`, `chOf`, `heNew`, `hNew`, `hHeIterate`, `hHeCond`, `hHeLoop`, `hHeSolve`
* `IonizationStateCalculator::calculate_ionization_state` (one cell, 70-301) → `cellMetals`, `ionCell`
* `TemperatureCalculator::calculate_temperature` (one cell, TemperatureCalculator.cpp 567-931) →
  `expOf`, `newT`, `clampLow`, `clampHigh`, `tempStep`, `tempLoop`, `temperatureCell`
  with `compute_cooling_and_heating_balance` as an *uninterpreted function parameter* `bal`.

Generic over the standard operator classes (DESIGN §2.1): the same definitions run at `Float`
in the driver and are reasoned about at `ℝ` in `Props/C06.lean`.  Core Lean only.

C++ idioms: `x != 0.` / `if (x)` is `nz x` (true for NaN, like the C++), `x == y` is `feq x y`
(false for NaN); `cmac_assert` is compiled out (`HAVE_ASSERTIONS` undefined) and is not modelled;
`cmac_error` (abort) is the `abort` flag.
-/
namespace CMacVerif.IonBalance
open CMacVerif

section
variable {α : Type} [Add α] [Sub α] [Mul α] [Div α] [Neg α] [LT α] [LE α]
  [DecidableLT α] [DecidableLE α] [OfScientific α] [ArithFns α]

/-- C++ `x == y` on doubles -/
@[inline] def feq (x y : α) : Prop := x ≤ y ∧ y ≤ x
instance (x y : α) : Decidable (feq x y) := by unfold feq; exact inferInstance
/-- C++ `x != 0.` (also the truth value of `if (x)`): true for NaN -/
@[inline] def nz (x : α) : Prop := ¬ (x ≤ 0.0 ∧ 0.0 ≤ x)
instance (x : α) : Decidable (nz x) := by unfold nz; exact inferInstance

/-! ## hydrogen only: closed form (835-856) -/

/-- lines 840-852 as a function of `aa = 0.5 * jH / (nH * alphaH)`; the `Nat` is the branch tag -/
def h0CoreB (aa : α) : α × Nat :=
  let bb := 2.0 / aa
  if bb < 1.0e-10 then
    (amax 1.0e-14 (0.25 * bb), 1)
  else
    let cc := ArithFns.sqrt (bb + 1.0)
    (amax 1.0e-14 (bb / ((1.0 + cc) * (1.0 + cc))), 2)

def h0Core (aa : α) : α := (h0CoreB aa).1

/-- `compute_ionization_state_hydrogen(alphaH, jH, nH)` with branch tag (0: neutral shortcut) -/
def h0HydrogenB (alphaH jH nH : α) : α × Nat :=
  if 0.0 < jH ∧ 0.0 < nH then
    h0CoreB (0.5 * jH / (nH * alphaH))
  else (1.0, 0)

def h0Hydrogen (alphaH jH nH : α) : α := (h0HydrogenB alphaH jH nH).1

/-! ## metals (352-530) -/

/-- `C21`, `Ne21`:  `j / (ne * alpha)` -/
def ratio1 (j ne a : α) : α := j / (ne * a)
/-- `S21`:  `j / (ne * alpha + nh0 * ctrH)` -/
def ratio2 (j ne a nh0 rH : α) : α := j / (ne * a + nh0 * rH)
/-- `C32, N32, N43, O32, Ne32, S32, S43`:  `j / (ne * alpha + nh0 * ctrH + nhe0 * ctrHe)` -/
def ratio3 (j ne a nh0 rH nhe0 rHe : α) : α := j / (ne * a + nh0 * rH + nhe0 * rHe)
/-- `N21`, `O21`:  `(j + nhp * ctiH) / (ne * alpha + nh0 * ctrH)` -/
def ratioCT (j nhp iH ne a nh0 rH : α) : α := (j + nhp * iH) / (ne * a + nh0 * rH)

structure Frac2 (α : Type) where
  f1 : α
  f2 : α

structure Frac3 (α : Type) where
  f1 : α
  f2 : α
  f3 : α

/-- two tracked stages:  `X31 = X32 * X21; sum_inv = 1 / (1 + X21 + X31)` -/
def chain2 (c21 c32 : α) : Frac2 α :=
  let c31 := c32 * c21
  let sinv := 1.0 / (1.0 + c21 + c31)
  ⟨c21 * sinv, c31 * sinv⟩

/-- three tracked stages:  `X31 = X32 * X21; X41 = X43 * X31; sum_inv = 1 / (1 + X21 + X31 + X41)` -/
def chain3 (c21 c32 c43 : α) : Frac3 α :=
  let c31 := c32 * c21
  let c41 := c43 * c31
  let sinv := 1.0 / (1.0 + c21 + c31 + c41)
  ⟨c21 * sinv, c31 * sinv, c41 * sinv⟩

/-- everything `compute_ionization_states_metals` reads: the 12 normalised intensity integrals,
the densities, the 12 radiative recombination rates at `T`, and the charge-transfer rates at
`T4` (`r…H`/`r…He`: recombination with H / He, `i…H`: ionization by H⁺) -/
structure MetalIn (α : Type) where
  jCp1 : α
  jCp2 : α
  jNn : α
  jNp1 : α
  jNp2 : α
  jOn : α
  jOp1 : α
  jNen : α
  jNep1 : α
  jSp1 : α
  jSp2 : α
  jSp3 : α
  ne : α
  nh0 : α
  nhe0 : α
  nhp : α
  aCp1 : α
  aCp2 : α
  aNn : α
  aNp1 : α
  aNp2 : α
  aOn : α
  aOp1 : α
  aNen : α
  aNep1 : α
  aSp1 : α
  aSp2 : α
  aSp3 : α
  rCp2H : α
  rCp2He : α
  iNnH : α
  rNnH : α
  rNp1H : α
  rNp1He : α
  rNp2H : α
  rNp2He : α
  iOnH : α
  rOnH : α
  rOp1H : α
  rOp1He : α
  rNep1H : α
  rNep1He : α
  rSp1H : α
  rSp2H : α
  rSp2He : α
  rSp3H : α
  rSp3He : α

/-- the twelve ionic fractions set by `compute_ionization_states_metals`, per element -/
structure MetalOut (α : Type) where
  c : Frac2 α
  n : Frac3 α
  o : Frac2 α
  ne : Frac2 α
  s : Frac3 α

def carbon (m : MetalIn α) : Frac2 α :=
  chain2 (ratio1 m.jCp1 m.ne m.aCp1) (ratio3 m.jCp2 m.ne m.aCp2 m.nh0 m.rCp2H m.nhe0 m.rCp2He)

def nitrogen (m : MetalIn α) : Frac3 α :=
  chain3 (ratioCT m.jNn m.nhp m.iNnH m.ne m.aNn m.nh0 m.rNnH)
    (ratio3 m.jNp1 m.ne m.aNp1 m.nh0 m.rNp1H m.nhe0 m.rNp1He)
    (ratio3 m.jNp2 m.ne m.aNp2 m.nh0 m.rNp2H m.nhe0 m.rNp2He)

def oxygen (m : MetalIn α) : Frac2 α :=
  chain2 (ratioCT m.jOn m.nhp m.iOnH m.ne m.aOn m.nh0 m.rOnH)
    (ratio3 m.jOp1 m.ne m.aOp1 m.nh0 m.rOp1H m.nhe0 m.rOp1He)

def neon (m : MetalIn α) : Frac2 α :=
  chain2 (ratio1 m.jNen m.ne m.aNen) (ratio3 m.jNep1 m.ne m.aNep1 m.nh0 m.rNep1H m.nhe0 m.rNep1He)

def sulphur (m : MetalIn α) : Frac3 α :=
  chain3 (ratio2 m.jSp1 m.ne m.aSp1 m.nh0 m.rSp1H)
    (ratio3 m.jSp2 m.ne m.aSp2 m.nh0 m.rSp2H m.nhe0 m.rSp2He)
    (ratio3 m.jSp3 m.ne m.aSp3 m.nh0 m.rSp3H m.nhe0 m.rSp3He)

/-- `compute_ionization_states_metals` -/
def metalFractions (m : MetalIn α) : MetalOut α :=
  ⟨carbon m, nitrogen m, oxygen m, neon m, sulphur m⟩

/-! ## coupled hydrogen / helium iteration (678-786) -/

/-- loop-invariant coefficients (701-709) -/
structure HHeCoef (α : Type) where
  ch1 : α
  ch2 : α
  che : α
  aHe : α
  T : α

/-- loop variables `h0, he0, h0old, he0old` -/
structure HHeState (α : Type) where
  h0 : α
  he0 : α
  h0old : α
  he0old : α

/-- lines 701-709 -/
def hHeCoef (alphaH alphaHe jH jHe nH aHe T : α) : HHeCoef α :=
  let alpha_e_2sP := 4.17e-20 * ArithFns.pow (T * 1.0e-4) (-0.861)
  let ch1 := alphaH * nH / jH
  let ch2 := aHe * alpha_e_2sP * nH / jH
  let che := if 0.0 < jHe then alphaHe * nH / jHe else 0.0
  ⟨ch1, ch2, che, aHe, T⟩

/-- initial guesses (712-726) -/
def hHeInit (c : HHeCoef α) : HHeState α :=
  let h0old := 0.99 * (1.0 - ArithFns.exp (-0.5 / c.ch1))
  let h0 := 0.9 * h0old
  let he0old := if 0.0 < c.che then amin (0.5 / c.che) 1.0 else 1.0
  ⟨h0, 0.0, h0old, he0old⟩

/-- line 738 -/
def pHots (T he0old h0old : α) : α :=
  1.0 / (1.0 + 77.0 * he0old / ArithFns.sqrt T / h0old)

/-- line 741 (`ch2` already contains one factor `AHe`; the code multiplies by `AHe` again) -/
def chOf (ch1 ch2 aHe he0old h0old pH : α) : α :=
  ch1 - ch2 * aHe * (1.0 - he0old) * pH / (1.0 - h0old)

/-- lines 744-763; `h0` is the hydrogen fraction of the previous iteration; tag 0: `che == 0`,
1: first-order expansion, 2: exact root -/
def heNewB (che aHe h0 : α) : α × Nat :=
  if nz che then
    let bhe := (1.0 + 2.0 * aHe - h0) * che + 1.0
    let che_bhe := che / bhe
    let opAHeh0 := 1.0 + aHe - h0
    let t1he := 4.0 * aHe * opAHeh0 * che_bhe * che_bhe
    if t1he < 1.0e-3 then
      (opAHeh0 * che_bhe, 1)
    else
      -- exact root, then `he0 = std::min(1., he0)`
      (amin 1.0 ((bhe - ArithFns.sqrt (bhe * bhe - 4.0 * aHe * opAHeh0 * che * che)) / (2.0 * aHe * che)), 2)
  else (1.0, 0)

def heNew (che aHe h0 : α) : α := (heNewB che aHe h0).1

/-- lines 765-775; tag 1: first-order expansion, 2: exact root -/
def hNewB (ch aHe he0 : α) : α × Nat :=
  let b := ch * (2.0 + aHe - he0 * aHe) + 1.0
  let ch_b := ch / b
  let opAHeh0AHe := 1.0 + aHe - he0 * aHe
  let t1 := 4.0 * ch_b * ch_b * opAHeh0AHe
  if t1 < 1.0e-3 then
    (ch_b * opAHeh0AHe, 1)
  else
    ((b - ArithFns.sqrt (b * b - 4.0 * ch * ch * opAHeh0AHe)) / (2.0 * ch), 2)

def hNew (ch aHe he0 : α) : α := (hNewB ch aHe he0).1

/-- lines 732-736: `he0old = (he0 > 0.) ? he0 : 0.` -/
def he0oldOf (he0 : α) : α := if 0.0 < he0 then he0 else 0.0

/-- the `ch` of one loop body (738-741) -/
def chIter (c : HHeCoef α) (s : HHeState α) : α :=
  let h0old := s.h0
  let he0old := he0oldOf s.he0
  chOf c.ch1 c.ch2 c.aHe he0old h0old (pHots c.T he0old h0old)

/-- one body of the `while` loop (730-781); `niter` is the counter *after* `++niter` -/
def hHeIterate (c : HHeCoef α) (niter : Nat) (s : HHeState α) : HHeState α :=
  let h0old := s.h0
  let he0old := he0oldOf s.he0
  let ch := chIter c s
  let he0 := heNew c.che c.aHe s.h0
  let h0 := hNew ch c.aHe he0
  if niter > 10 then
    ⟨0.5 * (h0 + h0old), 0.5 * (he0 + he0old), h0old, he0old⟩
  else
    ⟨h0, he0, h0old, he0old⟩

/-- loop condition (728-729) -/
def hHeCond (s : HHeState α) : Prop :=
  1.0e-4 * s.h0old < ArithFns.abs (s.h0 - s.h0old) ∧
    1.0e-4 * s.he0old < ArithFns.abs (s.he0 - s.he0old)
instance (s : HHeState α) : Decidable (hHeCond s) := by unfold hHeCond; exact inferInstance

/-- result of the H/He solve; `abort` stands for `cmac_error("Too many iterations …")`;
`niter` = number of completed loop bodies; `offDom` = true iff some executed body started
outside the hypotheses of `hHe_iterate_range_partial` (`bodyOff`) -/
structure HHeOut (α : Type) where
  h0 : α
  he0 : α
  abort : Bool
  niter : Nat
  offDom : Bool

/-- the premise of `hHe_iterate_range_partial`, evaluated for the body about to run: `true` iff
NOT (`0 < h0old < 1` and `ch ≥ 0`).  Computed by the `Float` run on every case (instrumentation,
does not influence the result). -/
def bodyOff (c : HHeCoef α) (s : HHeState α) : Bool :=
  !(decide (0.0 < s.h0 ∧ s.h0 < 1.0 ∧ 0.0 ≤ chIter c s))

/-- the `while` loop: `fuel` more bodies are allowed; when the condition still holds with no
fuel left the C++ executes body 21 and then aborts -/
def hHeLoop (c : HHeCoef α) : Nat → Nat → Bool → HHeState α → HHeOut α
  | 0, niter, cn, s =>
    if hHeCond s then ⟨s.h0, s.he0, true, niter, cn⟩ else ⟨s.h0, s.he0, false, niter, cn⟩
  | fuel + 1, niter, cn, s =>
    if hHeCond s then
      hHeLoop c fuel (niter + 1) (cn || bodyOff c s) (hHeIterate c (niter + 1) s)
    else ⟨s.h0, s.he0, false, niter, cn⟩

/-- `compute_ionization_states_hydrogen_helium` -/
def hHeSolve (alphaH alphaHe jH jHe nH aHe T : α) : HHeOut α :=
  if jH < 1.0e-20 then ⟨1.0, 1.0, false, 0, false⟩
  else
    let c := hHeCoef alphaH alphaHe jH jHe nH aHe T
    hHeLoop c 20 0 false (hHeInit c)

/-! ## one cell of `IonizationStateCalculator::calculate_ionization_state` (70-301) -/

/-- the rate part of `MetalIn` plus the 12 intensity integrals come in `m`; this function
fills in the densities (132-137, 177-182) -/
def withDensities (m : MetalIn α) (ntot aHe h0 he0 : α) : MetalIn α :=
  { m with
    nhp := ntot * (1.0 - h0)
    ne := ntot * (1.0 - h0 + aHe * (1.0 - he0))
    nh0 := ntot * h0
    nhe0 := ntot * he0 * aHe }

def constMetals (cn nn on nen sn : α) : MetalOut α :=
  ⟨⟨cn, 0.0⟩, ⟨nn, 0.0, 0.0⟩, ⟨on, 0.0⟩, ⟨nen, 0.0⟩, ⟨sn, 0.0, 0.0⟩⟩

/-- lines 183-214: the metal balance is only evaluated with free electrons (`ne > 0.`);
otherwise the coolants are set neutral like in the zero-intensity branch -/
def cellMetals (m : MetalIn α) (ntot aHe h0 he0 : α) : MetalOut α :=
  let md := withDensities m ntot aHe h0 he0
  if 0.0 < md.ne then metalFractions md else constMetals 0.0 1.0 1.0 1.0 0.0

structure IonCellOut (α : Type) where
  h0 : α
  he0 : α
  met : MetalOut α
  abort : Bool
  /-- 0 vacuum, 1 neutral (jH = 0), 2 hydrogen only (AHe = 0), 3 H/He iteration -/
  tag : Nat

/-- `calculate_ionization_state(jfac, hfac, vars)`: `jH, jHe` already normalised, `m` holds the
normalised metal integrals and the rates at `T` -/
def ionCell (jH jHe ntot aHe alphaH alphaHe T : α) (m : MetalIn α) : IonCellOut α :=
  if 0.0 < jH ∧ 0.0 < ntot then
    if nz aHe then
      let r := hHeSolve alphaH alphaHe jH jHe ntot aHe T
      ⟨r.h0, r.he0, cellMetals m ntot aHe r.h0 r.he0, r.abort, 3⟩
    else
      let h0 := h0Hydrogen alphaH jH ntot
      ⟨h0, 0.0, cellMetals m ntot aHe h0 0.0, false, 2⟩
  else if 0.0 < ntot then
    ⟨1.0, 1.0, constMetals 0.0 1.0 1.0 1.0 0.0, false, 1⟩
  else
    ⟨0.0, 0.0, constMetals 0.0 0.0 0.0 0.0 0.0, false, 0⟩

/-! ## temperature iteration (TemperatureCalculator.cpp 567-931) -/

/-- what one call of `compute_cooling_and_heating_balance` returns; `met` is whatever it left in
the ionic fractions of the coolants (uninterpreted payload) -/
structure Bal (α : Type) (M : Type) where
  h0 : α
  he0 : α
  gain : α
  loss : α
  met : M

/-- loop variables of `calculate_temperature` -/
structure TState (α : Type) (M : Type) where
  T0 : α
  h0 : α
  he0 : α
  gain0 : α
  loss0 : α
  met : M

/-- `expgain` / `exploss` (757-792) -/
def expOf (g1 g2 : α) : α :=
  if 0.0 < g2 then
    if 0.0 < g1 then ArithFns.log (g1 / g2) else -99.0
  else
    if 0.0 < g1 then 99.0 else 0.0

/-- `static const double logtt = std::log(1.1 / 0.9)` -/
def logtt : α := ArithFns.log (1.1 / 0.9)

/-- lines 793-800 -/
def newT (T0 T1 gain0 loss0 expdiff : α) : α :=
  if 0.0 < gain0 ∧ nz expdiff then
    T0 * ArithFns.pow (loss0 / gain0) (logtt / expdiff)
  else T1

/-- lines 802-810 -/
def clampLow {M : Type} (tmin : α) (s : TState α M) : TState α M :=
  if s.T0 < tmin then { s with T0 := 500.0, h0 := 1.0, he0 := 1.0, gain0 := 1.0, loss0 := 1.0 }
  else s

/-- lines 812-821 -/
def clampHigh {M : Type} (s : TState α M) : TState α M :=
  if 1.0e10 < s.T0 then
    { s with T0 := 1.0e10, h0 := 1.0e-10, he0 := 1.0e-10, gain0 := 1.0, loss0 := 1.0 }
  else s

/-- one body of the `while` loop (732-821): three balance evaluations at `1.1 T0`, `0.9 T0`, `T0` -/
def tempStep {M : Type} (bal : α → Bal α M) (tmin : α) (s : TState α M) : TState α M :=
  let T1 := 1.1 * s.T0
  let b1 := bal T1
  let T2 := 0.9 * s.T0
  let b2 := bal T2
  let b0 := bal s.T0
  let expgain := expOf b1.gain b2.gain
  let exploss := expOf b1.loss b2.loss
  let expdiff := expgain - exploss
  let T0' := newT s.T0 T1 b0.gain b0.loss expdiff
  clampHigh (clampLow tmin ⟨T0', b0.h0, b0.he0, b0.gain, b0.loss, b0.met⟩)

/-- loop condition (730): `std::abs(gain0 - loss0) > eps * gain0` -/
def tempCond {M : Type} (eps : α) (s : TState α M) : Prop :=
  eps * s.gain0 < ArithFns.abs (s.gain0 - s.loss0)
instance {M : Type} (eps : α) (s : TState α M) : Decidable (tempCond eps s) := by
  unfold tempCond; exact inferInstance

/-- the `while` loop; the fuel is `_maximum_number_of_iterations - niter`; returns the number of
bodies executed as well -/
def tempLoop {M : Type} (bal : α → Bal α M) (eps tmin : α) : Nat → Nat → TState α M → TState α M × Nat
  | 0, k, s => (s, k)
  | n + 1, k, s =>
    if tempCond eps s then tempLoop bal eps tmin n (k + 1) (tempStep bal tmin s) else (s, k)

/-- inputs of `calculate_temperature` for one cell -/
structure TempIn (α : Type) (M : Type) where
  /-- `jfac` -/
  jfac : α
  /-- un-normalised mean intensity of H -/
  meanH : α
  /-- un-normalised mean intensity of He -/
  meanHe : α
  /-- number density -/
  n : α
  /-- stored temperature -/
  Told : α
  /-- He abundance -/
  aHe : α
  /-- `_crfac` -/
  crfac : α
  /-- cosmic ray factor of the cell -/
  crcell : α
  /-- `_crlim` -/
  crlim : α
  /-- `_epsilon_convergence` -/
  eps : α
  /-- `_minimum_ionized_temperature` -/
  tmin : α
  /-- `_maximum_number_of_iterations` -/
  maxit : Nat
  /-- `alpha_H(8000 K)` (only read when cosmic ray heating is active) -/
  alphaH8 : α
  /-- `alpha_He(8000 K)` -/
  alphaHe8 : α
  /-- coolant fractions stored in the cell before the call -/
  met0 : M

structure TempOut (α : Type) (M : Type) where
  T : α
  h0 : α
  he0 : α
  /-- coolant fractions were overwritten with zeros -/
  metZero : Bool
  met : M
  abort : Bool
  /-- 0: no radiation / vacuum, 1: cosmic-ray neutral shortcut, 2: loop -/
  tag : Nat
  /-- loop bodies executed -/
  niter : Nat

/-- effective cosmic ray factor (625-628) -/
def crfacEff (crfac crcell : α) : α :=
  let c := crfac * crcell
  if c < 0.0 then crfac else c

/-- everything after the loop (833-917) -/
def tempFinish {M : Type} (i : TempIn α M) (s : TState α M) (k : Nat) : TempOut α M :=
  let T := amin 30000.0 s.T0
  let h0 := if feq i.meanH 0.0 then 1.0 else s.h0
  let he0 := if feq i.meanHe 0.0 then 1.0 else s.he0
  let z := decide (feq h0 1.0) || decide (h0 ≤ 1.0e-10)
  ⟨T, h0, he0, z, s.met, false, 2, k⟩

/-- initial guess (700-704): the stored temperature if above 4000 K, else 8000 K -/
def tempInit (Told : α) : α := if Told ≤ 4000.0 then 8000.0 else Told

/-- the iteration and what follows it (700-917) -/
def tempMain {M : Type} (bal : α → Bal α M) (i : TempIn α M) : TempOut α M :=
  let r := tempLoop bal i.eps i.tmin i.maxit 0 ⟨tempInit i.Told, 0.0, 0.0, 1.0, 0.0, i.met0⟩
  tempFinish i r.1 r.2

/-- the H/He solve at 8000 K that decides whether cosmic ray heating applies (633-654) -/
def crPre {M : Type} (i : TempIn α M) (crfac jH jHe : α) : HHeOut α :=
  if 0.0 < crfac then hHeSolve i.alphaH8 i.alphaHe8 jH jHe i.n i.aHe 8000.0
  else ⟨0.0, 0.0, false, 0, false⟩

/-- `calculate_temperature(vars, jfac, hfac, midpoint)`; `bal crfac T` is
`compute_cooling_and_heating_balance` at temperature `T` with the effective cosmic ray factor -/
def temperatureCell {M : Type} (bal : α → α → Bal α M) (i : TempIn α M) : TempOut α M :=
  let jH := i.jfac * i.meanH
  let jHe := i.jfac * i.meanHe
  if (feq jH 0.0 ∧ feq jHe 0.0) ∨ feq i.n 0.0 then
    ⟨500.0, 1.0, 1.0, true, i.met0, false, 0, 0⟩
  else
    let crfac := crfacEff i.crfac i.crcell
    let pre := crPre i crfac jH jHe
    if pre.abort then ⟨i.Told, pre.h0, pre.he0, false, i.met0, true, 1, 0⟩
    else if 0.0 < crfac ∧ i.crlim < pre.h0 then
      ⟨500.0, 1.0, 1.0, true, i.met0, false, 1, 0⟩
    else
      tempMain (bal crfac) i


/-! ## normalisation of the intensity counters in the drivers

`TaskBasedIonizationSimulation::run` (temperature / ionization step) and
`TaskBasedRadiationHydrodynamicsSimulation` divide every metal and helium counter by the
abundance of its element before the balance is evaluated:
`if (abundance > 0.) J = J / abundance;` (the statement text is tied by `tools/props/c06.py`). -/

/-- one counter: `if (abundance > 0.) { J = J / abundance; }` -/
def normalise (J A : α) : α := if 0.0 < A then J / A else J

/-! ## the subgrid-level wrappers (normalisation by luminosity, total weight and cell volume)

`IonizationStateCalculator::calculate_ionization_state(totweight, subgrid)` (IonizationStateCalculator.cpp
567-578) and `TemperatureCalculator::calculate_temperature(loop, totweight, subgrid)`
(TemperatureCalculator.cpp 980-1001) hand `jfac / V` and `hfac / V` to the cell-level kernels, with
`jfac = luminosity / totweight`, `hfac = jfac * h_Planck` and `V` the cell volume of the subgrid
(`DensitySubGrid::iterator::get_volume`, cell sizes `box[3+i] / ncell[i]` from the constructor). -/

/-- `_cell_size[0] * _cell_size[1] * _cell_size[2]` with `_cell_size[i] = side[i] / ncell[i]` -/
def cellVolume (sx sy sz nx ny nz : α) : α := sx / nx * (sy / ny) * (sz / nz)

/-- `jfac = _luminosity / totweight` -/
def jfacOf (L tw : α) : α := L / tw
/-- `hfac = jfac * PHYSICALCONSTANT_PLANCK` -/
def hfacOf (L tw : α) : α := jfacOf L tw * 6.626070040e-34
/-- first argument of the cell-level kernels: `jfac / cellit.get_volume()` -/
def jfacCell (L tw V : α) : α := jfacOf L tw / V
/-- second argument: `hfac / cellit.get_volume()` -/
def hfacCell (L tw V : α) : α := hfacOf L tw / V

/-- the two copies of the luminosity a `TemperatureCalculator` holds (its own and the one of the
embedded `IonizationStateCalculator`) -/
structure Lums (α : Type) where
  temp : α
  ion : α

/-- `TemperatureCalculator::update_luminosity` (TemperatureCalculator.hpp 150-153) -/
def updateLuminosity (L : α) (_ : Lums α) : Lums α := ⟨L, L⟩

/-- which luminosity `calculate_temperature(loop, totweight, subgrid)` normalises with:
the temperature branch uses its own copy, the ionization-only branch the embedded calculator's -/
def lumUsed (doTemp : Bool) (loop minIter : Nat) (l : Lums α) : α :=
  if doTemp && decide (minIter < loop) then l.temp else l.ion

/-! ## `TemperatureCalculator::compute_cooling_and_heating_balance` (TemperatureCalculator.cpp 207-501)

Everything of the balance function except `LineCoolingData::get_cooling`, which stays an
uninterpreted function parameter `lineCool T ne abund`; the recombination and charge-transfer
rates at `T` are inputs (`BalRates`). -/

/-- `std::cbrt` (not in `ArithFns`) -/
class HasCbrt (α : Type) where
  cbrt : α → α

/-- inputs that do not depend on the temperature (`j`, `h` already normalised) -/
structure BalParams (α : Type) where
  n : α
  jH : α
  jHe : α
  hH : α
  hHe : α
  aHe : α
  aC : α
  aN : α
  aO : α
  aNe : α
  aS : α
  pah : α
  crfac : α
  crscale : α
  z : α

/-- rates at the temperature of the evaluation; `m` also carries the 12 normalised metal
intensity integrals (its density fields are overwritten) -/
structure BalRates (α : Type) where
  alphaH : α
  alphaHe : α
  m : MetalIn α

/-- the abundances handed to `LineCoolingData::get_cooling` (357-419) -/
structure Abund (α : Type) where
  cII : α
  cIII : α
  nI : α
  nII : α
  nIII : α
  oI : α
  oII : α
  oIII : α
  neII : α
  neIII : α
  sII : α
  sIII : α
  sIV : α

/-- lines 363-418 -/
def abundOf (p : BalParams α) (f : MetalOut α) : Abund α :=
  { cII := p.aC * (1.0 - f.c.f1 - f.c.f2)
    cIII := p.aC * f.c.f1
    nI := p.aN * (1.0 - f.n.f1 - f.n.f2 - f.n.f3)
    nII := p.aN * f.n.f1
    nIII := p.aN * f.n.f2
    oI := p.aO * (1.0 - f.o.f1 - f.o.f2)
    oII := p.aO * f.o.f1
    oIII := p.aO * f.o.f2
    neII := p.aNe * f.ne.f1
    neIII := p.aNe * f.ne.f2
    sII := p.aS * (1.0 - f.s.f1 - f.s.f2 - f.s.f3)
    sIII := p.aS * f.s.f1
    sIV := p.aS * f.s.f2 }

/-- heating (288-332) given the H/He solution and the electron density -/
def gainOf (p : BalParams α) (T h0 he0 ne nenhep : α) : α :=
  let T4 := T * 1.0e-4
  let sqrtT := ArithFns.sqrt T
  let gain := p.n * (p.hH * h0 + p.hHe * p.aHe * he0)
  let alpha_e_2sP := 4.17e-20 * ArithFns.pow T4 (-0.861)
  let pH := 1.0 / (1.0 + 77.0 * he0 / (sqrtT * h0))
  let gain := gain + pH * 1.21765423e-18 * alpha_e_2sP * nenhep
  let gain := gain + 1.5e-37 * p.n * ne * p.pah
  let heatcr :=
    if 0.0 < p.crfac then
      let hc := p.crfac * 1.2e-25 / ArithFns.sqrt ne
      if 0.0 < p.crscale then hc * ArithFns.exp (-(ArithFns.abs p.z) / p.crscale) else hc
    else 0.0
  gain + heatcr

variable [HasCbrt α]

/-- cooling (463-496) given the line cooling `lc = get_cooling(T, ne, abund)` -/
def lossOf (p : BalParams α) (T lc nenhp nenhep : α) : α :=
  let sqrtT := ArithFns.sqrt T
  let logT := ArithFns.log T
  let loss := lc * p.n
  let c := 5.5 - logT
  let gff := 1.1 + 0.34 * ArithFns.exp (-c * c / 3.0)
  let loss := loss + 1.42e-40 * gff * sqrtT * (nenhp + nenhep)
  let lhp := 2.85e-40 * nenhp * sqrtT * (5.914 - 0.5 * logT + 0.01184 * HasCbrt.cbrt T)
  let lhep := 1.55e-39 * nenhep * ArithFns.pow T 0.3647
  loss + (lhp + lhep)

/-- result of one balance evaluation: the `Bal` the iteration reads, the abort flag of the
H/He solve, and the arguments handed to the line cooling routine -/
structure BalOut (α : Type) where
  bal : Bal α (MetalOut α)
  abort : Bool
  /-- the H/He solve left the checked premise of `hHe_solve_range_checked` -/
  offDom : Bool
  ne : α
  abund : Abund α

/-- `compute_cooling_and_heating_balance` at temperature `T` -/
def balModel (p : BalParams α) (r : BalRates α) (lineCool : α → α → Abund α → α) (T : α) :
    BalOut α :=
  let hhe := hHeSolve r.alphaH r.alphaHe p.jH p.jHe p.n p.aHe T
  let h0 := hhe.h0
  let he0 := hhe.he0
  let ne := p.n * (1.0 - h0 + p.aHe * (1.0 - he0))
  let nhp := p.n * (1.0 - h0)
  let nhep := (1.0 - he0) * p.n * p.aHe
  let nenhp := ne * nhp
  let nenhep := ne * nhep
  let gain := gainOf p T h0 he0 ne nenhep
  -- the metals are evaluated WITHOUT the `ne > 0` guard of calculate_ionization_state (343-345)
  let met := metalFractions (withDensities r.m p.n p.aHe h0 he0)
  let ab := abundOf p met
  let loss := lossOf p T (lineCool T ne ab) nenhp nenhep
  ⟨⟨h0, he0, amax gain 0.0, amax loss 0.0, met⟩, hhe.abort, hhe.offDom, ne, ab⟩

end
end CMacVerif.IonBalance
