import CMacVerif.Arith
import CMacVerif.Gen.Verner
/-!
# C18 — model of `VernerCrossSections` (`/repo/src/VernerCrossSections.cpp`)

Core Lean only; generic over the arithmetic (DESIGN §2.1): instantiated at `Float` in
`Driver/C18.lean` and at `ℝ` in `Props/C18.lean`.  Statement order follows the C++:

* `prepA`, `prepB`      — the conversions of the constructor (lines 93-100, 125-131),
* `noutOf`, `nintOf`, `einnOf` — shell bookkeeping of `get_cross_section_verner` (188-210),
* `xsBranch`            — which `return` is taken (180-216),
* `fitA`, `fitB`        — the two fitting formulae (217-243),
* `crossSection`        — the sum over shells of `get_cross_section` (259-322; the list of shells
                          per ion: specification `ionShellsSpec`; the C++ switch is `Gen.Verner.ionShells`).
-/
namespace CMacVerif.Verner
open CMacVerif CMacVerif.Gen.Verner

/-- stored form of a `verner_A.dat` line (`_data_A[iZ][iN][in][...]`) -/
structure PrepA (α : Type) where
  Plconst : α
  E_th : α
  E_0_inv : α
  sigma_0 : α
  one_over_y_a : α
  P : α
  y_w_squared : α

/-- stored form of a `verner_B.dat` line (`_data_B[iZ][iN][...]`) -/
structure PrepB (α : Type) where
  E_0_inv : α
  sigma_0 : α
  one_over_y_a : α
  P : α
  y_w_squared : α
  y_0 : α
  y_1_squared : α

/-- the return statement `get_cross_section_verner` takes -/
inductive XsBranch
  | below    -- e < E_th                                   → 0
  | gtNout   -- shell above the outer shell                → 0
  | gap      -- intermediate shell below the inner edge    → 0
  | fitA     -- Verner & Yakovlev (1995) inner-shell fit
  | fitB     -- Verner et al. (1996) outer-shell fit
  deriving DecidableEq, Repr

def XsBranch.tag : XsBranch → String
  | .below => "below" | .gtNout => "gtNout" | .gap => "gap" | .fitA => "fitA" | .fitB => "fitB"

/-- `uint_fast32_t nout` (lines 188-195) -/
def noutOf (nz ne : Nat) : Nat :=
  if nz = ne + 1 ∧ (nz = 20 ∨ nz = 21 ∨ nz = 22 ∨ nz = 25 ∨ nz = 26) then 7
  else if nz = ne ∧ nz > 18 then 7
  else (dataC ne).2

/-- `uint_fast32_t nint` (line 200) -/
def nintOf (ne : Nat) : Nat := (dataC ne).1

section
variable {α : Type} [Add α] [Sub α] [Mul α] [Div α] [Neg α] [LT α] [LE α]
  [DecidableLT α] [DecidableLE α] [OfScientific α] [ArithFns α]

/-- `eV_to_Hz` (lines 53-55) -/
def eVtoHz : α := electronvolt / planck

/-- constructor, lines 94-100 -/
def prepA (r : RawA α) : PrepA α :=
  { Plconst := 0.5 * r.P - 5.5 - r.l
    E_th := r.E_th * eVtoHz
    E_0_inv := 1.0 / (r.E_0 * eVtoHz)
    sigma_0 := 1.0e-22 * r.sigma_0
    one_over_y_a := 1.0 / r.y_a
    P := r.P
    y_w_squared := r.y_w * r.y_w }

/-- constructor, lines 125-131 -/
def prepB (r : RawB α) : PrepB α :=
  { E_0_inv := 1.0 / (r.E_0 * eVtoHz)
    sigma_0 := 1.0e-22 * r.sigma_0
    one_over_y_a := 1.0 / r.y_a
    P := r.P
    y_w_squared := r.y_w * r.y_w
    y_0 := r.y_0
    y_1_squared := r.y_1 * r.y_1 }

/-- `double einn` (lines 201-210) -/
def einnOf (nz ne : Nat) : α :=
  if nz = 15 ∨ nz = 17 ∨ nz = 19 ∨ (nz > 20 ∧ nz ≠ 26) then 0.0
  else if ne < 3 then 1.0e30
  else (prepA (dataA (α := α) nz ne (nintOf ne))).E_th

/-- which return statement is reached (lines 180, 196, 212, 216) -/
def xsBranch (nz ne is : Nat) (e : α) : XsBranch :=
  if e < (prepA (dataA (α := α) nz ne is)).E_th then .below
  else if is > noutOf nz ne then .gtNout
  else if is < noutOf nz ne ∧ is > nintOf ne ∧ e < einnOf (α := α) nz ne then .gap
  else if is ≤ nintOf ne ∨ e ≥ einnOf (α := α) nz ne then .fitA
  else .fitB

/-- lines 217-228 -/
def fitA (p : PrepA α) (e : α) : α :=
  let y := e * p.E_0_inv
  let ym1 := y - 1.0
  let Fy := (ym1 * ym1 + p.y_w_squared) * ArithFns.pow y p.Plconst *
    ArithFns.pow (1.0 + ArithFns.sqrt (y * p.one_over_y_a)) (-p.P)
  p.sigma_0 * Fy

/-- lines 230-243 -/
def fitB (p : PrepB α) (e : α) : α :=
  let x := e * p.E_0_inv - p.y_0
  let y := ArithFns.sqrt (x * x + p.y_1_squared)
  let xm1 := x - 1.0
  let Fy := (xm1 * xm1 + p.y_w_squared) * ArithFns.pow y (0.5 * p.P - 5.5) *
    ArithFns.pow (1.0 + ArithFns.sqrt (y * p.one_over_y_a)) (-p.P)
  p.sigma_0 * Fy

/-- `VernerCrossSections::get_cross_section_verner(nz, ne, is, e)` -/
def crossSectionVerner (nz ne is : Nat) (e : α) : α :=
  match xsBranch nz ne is e with
  | .below => 0.0
  | .gtNout => 0.0
  | .gap => 0.0
  | .fitA => fitA (prepA (dataA nz ne is)) e
  | .fitB => fitB (prepB (dataB nz ne)) e

/-- `a + b + …` left to right -/
def sumLeft : List α → α
  | [] => 0.0
  | x :: xs => xs.foldl (· + ·) x

/-- the photoionization cross section of a tracked ion: sum of the published shell fits the
specification `ionShellsSpec` lists (this is what the driver runs against
`VernerCrossSections::get_cross_section(ion, energy)`) -/
def crossSection (ion : Ion) (e : α) : α :=
  sumLeft ((ionShellsSpec ion).map fun s => crossSectionVerner s.1 s.2.1 s.2.2 e)

/-- `VernerCrossSections::get_cross_section(ion, energy)` with the shell list as coded in the
switch of the C++ (`Gen.Verner.ionShells`, regenerated on every run) -/
def crossSectionCoded (ion : Ion) (e : α) : α :=
  sumLeft ((ionShells ion).map fun s => crossSectionVerner s.1 s.2.1 s.2.2 e)

/-- position of an ion's value in the argument list of the `FixedValueCrossSections` constructor
(`cross_section_H_n, cross_section_He_n, cross_section_C_p1, …, cross_section_S_p3`) -/
def Ion.argIndex : Ion → Nat
  | .H_n => 0 | .He_n => 1 | .C_p1 => 2 | .C_p2 => 3 | .N_n => 4 | .N_p1 => 5 | .N_p2 => 6
  | .O_n => 7 | .O_p1 => 8 | .Ne_n => 9 | .Ne_p1 => 10 | .S_p1 => 11 | .S_p2 => 12 | .S_p3 => 13

/-- `FixedValueCrossSections::get_cross_section(ion, energy)` of an object constructed with the
argument list `args`: the value given for that ion, whatever the energy -/
def fixedCrossSection (args : List α) (ion : Ion) (_e : α) : α := args.getD ion.argIndex 0.0

end
end CMacVerif.Verner
