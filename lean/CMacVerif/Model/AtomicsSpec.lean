import CMacVerif.Model.Atomics
/-
Abstract lock-level specification against which the single-atomic-operation model
(`Model/Atomics.lean`) is shown to be a refinement (C08, `pop_is_atomic_acquire`).

It is the lock part of the task-level models used by C07 (`Model/Worker.lean`: `acquire t`,
`finishExec t`) and C01: a task is *acquired* atomically — taken out of a queue together with
all the locks it declares, allowed only if no running task declares one of these locks — and
later *finished* (its locks are given back).  States are multisets, represented by their
counting functions.

Also here: the projection of a concrete execution to abstract labels (`lab`): the linearisation
point of a pop is the atomic operation that takes the LAST lock of the task; `finish` is the
first unlock of `unlock_dependency` (or the call itself, if the task declares no lock).
-/
namespace CMacVerif.Atomics

/-- resources a task declares (`_dependency[0..1]`, after the duplicate rule of
`set_extra_dependency`; nothing is locked when `_dependency[0]` is null) -/
def lockset (cfg : Cfg) (t : Nat) : List Nat :=
  match cfg.deps t with
  | (some a, some b) => [a, b]
  | (some a, none) => [a]
  | (none, _) => []

/-- two tasks conflict if their declared lock sets share a resource (= `Worker.conflicts`) -/
def conflict (cfg : Cfg) (a b : Nat) : Bool :=
  (lockset cfg a).any (fun r => (lockset cfg b).contains r)

namespace Spec

inductive Label where
  | add (q t : Nat)        -- task index t put into queue q
  | acquire (q t : Nat)    -- t taken out of queue q with all its locks (Worker: `acquire t`)
  | take (t : Nat)         -- all locks of t taken by a direct `lock_dependency` (no queue)
  | finish (t : Nat)       -- locks of t given back (Worker: `finishExec t`)
deriving DecidableEq, Repr

/-- multiset of running tasks, multiset of queued tasks per queue -/
structure AState where
  run : Nat → Nat
  queue : Nat → Nat → Nat

def one (p : Prop) [Decidable p] : Nat := if p then 1 else 0

/-- the guard of Worker's `acquire`: no running task shares a lock with `t` -/
def Free (cfg : Cfg) (a : AState) (t : Nat) : Prop := ∀ u, 1 ≤ a.run u → conflict cfg t u = false

/-- one abstract transition -/
def Step (cfg : Cfg) (a : AState) (l : Label) (a' : AState) : Prop :=
  match l with
  | .add q t =>
    (∀ x, a'.run x = a.run x) ∧
    (∀ q' x, a'.queue q' x = a.queue q' x + one (q' = q ∧ x = t))
  | .acquire q t =>
    1 ≤ a.queue q t ∧ Free cfg a t ∧
    (∀ x, a'.run x = a.run x + one (x = t)) ∧
    (∀ q' x, a'.queue q' x + one (q' = q ∧ x = t) = a.queue q' x)
  | .take t =>
    Free cfg a t ∧
    (∀ x, a'.run x = a.run x + one (x = t)) ∧
    (∀ q' x, a'.queue q' x = a.queue q' x)
  | .finish t =>
    1 ≤ a.run t ∧
    (∀ x, a'.run x + one (x = t) = a.run x) ∧
    (∀ q' x, a'.queue q' x = a.queue q' x)

/-- same multisets -/
def Same (a b : AState) : Prop := (∀ x, a.run x = b.run x) ∧ (∀ q x, a.queue q x = b.queue q x)

/-- an abstract execution (stuttering allowed between the labels) -/
inductive Exec (cfg : Cfg) : AState → List Label → AState → Prop where
  | done {a b : AState} : Same a b → Exec cfg a [] b
  | stutter {a b c : AState} {ls : List Label} : Same a b → Exec cfg b ls c → Exec cfg a ls c
  | step {a b c : AState} {l : Label} {ls : List Label} : Step cfg a l b → Exec cfg b ls c → Exec cfg a (l :: ls) c

end Spec

open Spec in
/-- `lock_dependency` returns true in context `c` -/
def acqLabel (c : Ctx) (t : Nat) : Label :=
  match c with
  | .alone => .take t
  | .pop q _ => .acquire q t

open Spec in
/-- the abstract label of the next transition of a thread (`none` = stuttering step) -/
def lab (cfg : Cfg) (m : Mem) (th : Thread) : Option Label :=
  match th.pc with
  | .tlStart c t => match (cfg.deps t).1 with
    | none => some (acqLabel c t)
    | some _ => none
  | .tl0 c t => match cfg.deps t with
    | (some a, none) => if m.locks (.dep a) then none else some (acqLabel c t)
    | (some _, some _) => none
    | (none, _) => some (acqLabel c t)
  | .tl1 c t => match cfg.deps t with
    | (some _, some b) => if m.locks (.dep b) then none else some (acqLabel c t)
    | (some _, none) => some (acqLabel c t)
    | (none, _) => some (acqLabel c t)
  | .tuStart t => match cfg.deps t with
    | (none, _) => some (.finish t)
    | _ => none
  | .tu1 t => match cfg.deps t with
    | (some _, none) => none
    | _ => some (.finish t)
  | .tu0 t => if (cfg.deps t).2 = none then some (.finish t) else none
  | .addBody q t _ => some (.add q t)
  | _ => none

open Spec in
/-- projection of a concrete execution to the abstract labels -/
def trace (cfg : Cfg) : State → List Nat → List Label
  | _, [] => []
  | s, tid :: rest =>
    match s.threads[tid]? with
    | none => trace cfg s rest
    | some th =>
      match lab cfg s.mem th with
      | none => trace cfg (step cfg s tid) rest
      | some l => l :: trace cfg (step cfg s tid) rest

end CMacVerif.Atomics
