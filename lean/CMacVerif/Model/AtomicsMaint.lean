import CMacVerif.Model.Atomics
/-
Maintenance calls of `ThreadSafeVector` (src/ThreadSafeVector.hpp: "This method is not meant to be
thread safe"): `clear`, `clear_fast` (= `MemorySpace::reset`), `clear_after`, `get_free_elements`.
They are called between parallel phases only.  That is the premise under which they are modelled:
they are NOT transitions of a thread (`step`), but operations on a *quiescent* state (every thread
idle); the slots released in bulk are nobody's afterwards, whoever took them.

An execution with maintenance is a sequence of phases: programs are loaded into the idle threads
(`reload`), a schedule runs (`run`), a maintenance call is applied (`maint`), and so on.
-/
namespace CMacVerif.Atomics

inductive Maint where
  | clear                          -- ThreadSafeVector::clear()
  | clearFast                      -- ThreadSafeVector::clear_fast()
  | clearAfter (k : Nat)           -- ThreadSafeVector::clear_after(k)
  | getFreeElements (tid n : Nat)  -- ThreadSafeVector::get_free_elements(n), called by thread `tid`
deriving DecidableEq, Repr

/-- the shared memory after the call, statement by statement -/
def maintMem (cfg : Cfg) (m : Mem) : Maint → Mem
  | .clear =>
    -- for (i < _size) _locks[i].unlock(); _number_taken.set(0); _current_index.set(0);
    -- delete[] _vector; _vector = new T[_size]; _max_number_taken.set(0); _total_number_taken.set(0);
    { m with flags := fun i => if i < cfg.size then false else m.flags i,
             taken := 0, cur := 0,
             count := fun i => if i < cfg.size then 0 else m.count i,
             maxTaken := 0, totalTaken := 0 }
  | .clearFast =>
    -- (assert _number_taken == 0, compiled out)  _current_index.set(0); max/total .set(0)
    { m with cur := 0, maxTaken := 0, totalTaken := 0 }
  | .clearAfter k =>
    -- for (offset <= i < _size) { _locks[i].unlock(); _vector[i] = T(); }
    -- _number_taken.set(offset); _current_index.set(offset); max/total .set(offset)
    { m with flags := fun i => if k ≤ i ∧ i < cfg.size then false else m.flags i,
             count := fun i => if k ≤ i ∧ i < cfg.size then 0 else m.count i,
             taken := k, cur := k, maxTaken := k, totalTaken := k }
  | .getFreeElements _ n =>
    -- for (i < size) _locks[i].lock(); _current_index.set(size); _number_taken.set(size);
    -- _max_number_taken.max(_number_taken.value()); _total_number_taken.pre_add(size);
    { m with flags := fun i => if i < n then true else m.flags i,
             cur := n, taken := n,
             maxTaken := if (n : Int) < m.maxTaken then m.maxTaken else n,
             totalTaken := m.totalTaken + n }

/-- who holds what afterwards: bulk-released slots are nobody's (whoever took them); a block
obtained with `get_free_elements` belongs to the caller -/
def maintThreads (l : List Thread) : Maint → List Thread
  | .clear => l.map fun th => { th with owned := [] }
  | .clearFast => l
  | .clearAfter off => l.map fun th => { th with owned := th.owned.filter (· < off) }
  | .getFreeElements tid n =>
    match l[tid]? with
    | some th => l.set tid { th with owned := (List.range n).reverse ++ th.owned }
    | none => l

/-- a maintenance call applied to a (quiescent) state -/
def maint (cfg : Cfg) (s : State) (op : Maint) : State :=
  { mem := maintMem cfg s.mem op, threads := maintThreads s.threads op }

/-- every thread is between two calls -/
def Quiescent (s : State) : Prop := ∀ th ∈ s.threads, th.pc = .idle

def reloadL : List Thread → List (List Cmd) → List Thread
  | [], _ => []
  | th :: l, [] => { th with prog := [] } :: reloadL l []
  | th :: l, p :: ps => { th with prog := p } :: reloadL l ps

/-- the next parallel phase: new programs for the (idle) threads -/
def reload (s : State) (progs : List (List Cmd)) : State := { s with threads := reloadL s.threads progs }

/-- the pool is as after construction: nothing taken, nothing held -/
def FreshPool (cfg : Cfg) (s : State) : Prop :=
  (∀ i, i < cfg.size → s.mem.flags i = false) ∧ s.mem.taken = 0 ∧ s.mem.cur = 0 ∧
  ∀ th ∈ s.threads, th.owned = []

end CMacVerif.Atomics
