/-
Model of `TimeLine` (src/TimeLine.hpp): integer power-of-two time line.

Integers are `Nat`; `Props/C19.lean` proves that every reachable value is ≤ 2^63, so the
`uint64_t` reading of the C++ is faithful (no wrap-around happens).  The only floating point
operation that influences control flow is the comparison
`to_physical_time_interval(ts) > requested`, i.e. `A * (double)ts > r` with `A = interval / 2^63`
and `ts` a power of two: both the division and the product are exact in binary floating point
(barring underflow), so the comparison is the exact one.  It enters the model as a predicate
`gt : Nat → Bool` (`gt ts` ⇔ physical size of `ts` exceeds the request).
-/
namespace CMacVerif.TimeLine

/-- `TIMELINE_MAX_INTEGER_TIMELINE_SIZE` -/
def maxT : Nat := 2 ^ 63

structure TL where
  minStep : Nat
  maxStep : Nat
  cur     : Nat
deriving Repr, DecidableEq

/-- `while (phys(ts) > x) ts >>= 1;`  (the C++ loop spins forever at `ts = 0` when
`gt 0`; the model stops there — every theorem assumes `gt 0 = false`, i.e. a request ≥ 0). -/
def roundDown (gt : Nat → Bool) (ts : Nat) : Nat :=
  if h : ts = 0 then 0
  else if gt ts then roundDown gt (ts / 2) else ts
termination_by ts
decreasing_by omega

/-- `while (left % ts > 0) ts >>= 1;`  only called with `ts ≥ 1`; `ts = 1` always exits. -/
def fit (left ts : Nat) : Nat :=
  if h : ts ≤ 1 then ts
  else if left % ts > 0 then fit left (ts / 2) else ts
termination_by ts
decreasing_by omega

/-- Constructor.  `minPos`/`maxPos`: the `> 0` tests on the two settings; `gtMin`/`gtMax`:
`phys(ts) > minimum_timestep` resp. `maximum_timestep`. -/
def mk (minPos : Bool) (gtMin : Nat → Bool) (maxPos : Bool) (gtMax : Nat → Bool) : TL :=
  let mn := if minPos then max 1 (roundDown gtMin maxT) else 1
  let mx := if maxPos then max mn (roundDown gtMax maxT) else maxT
  { minStep := mn, maxStep := mx, cur := 0 }

inductive Outcome where
  | tooSmall        -- integer step became 0: absolute limit
  | belowMin        -- step would be below the configured minimum
  | stepped (more : Bool)
deriving Repr, DecidableEq

/-- `advance`: returns new state, the integer step finally considered, and the outcome. -/
def advance (s : TL) (gt : Nat → Bool) : TL × Nat × Outcome :=
  let ts0 := roundDown gt s.maxStep
  if ts0 = 0 then (s, 0, .tooSmall)
  else
    let left := maxT - s.cur
    let ts := fit left ts0
    if ts < s.minStep then (s, ts, .belowMin)
    else
      let cur' := s.cur + ts
      ({ s with cur := cur' }, ts, .stepped (decide (cur' < maxT)))

/-- run a history of requests; stops at the first `false` return like the callers do. -/
def run (s : TL) : List (Nat → Bool) → TL × List Nat
  | [] => (s, [])
  | g :: gs =>
    match advance s g with
    | (s', ts, .stepped true) => let (sf, l) := run s' gs; (sf, ts :: l)
    | (s', ts, .stepped false) => (s', [ts])
    | (s', _, _) => (s', [])

/-- restart dump / restore of the integer part (the two doubles are copied verbatim) -/
def dump (s : TL) : List Nat := [s.minStep, s.maxStep, s.cur]
def restore : List Nat → Option TL
  | [a, b, c] => some ⟨a, b, c⟩
  | _ => none

end CMacVerif.TimeLine
