import CMacVerif.Model.HydroStep
/-!
# What each hydro task does to the grid (`execute_task`,
# src/TaskBasedRadiationHydrodynamicsSimulation.cpp:650-700)

`execTask` maps a task of C07's graph (`HydroGraph.Task` = subgrid + one of the 18 slots) to the
state transformer of its sweep: the internal / pair / boundary gradient and flux sweeps are the
calls of `Model/HydroSweeps.lean` in the order of the loops, the four per-cell tasks are maps over
the cells of the task's subgrid.  `runSchedule` executes a list of tasks one after the other (a
serialisation of a parallel run: C07 proves that tasks running at the same time never touch the
same subgrid, and each task is executed exactly once).  Core Lean only.
-/
namespace CMacVerif.HydroTasks
open CMacVerif CMacVerif.RiemannVacuum CMacVerif.HydroGraph CMacVerif.HydroSweeps
  CMacVerif.HydroUpdate CMacVerif.HydroStep

/-- is global cell `X` one of the cells of subgrid `g`? -/
def inSub (c : Cells) (g : Sub) (X : Cell) : Bool :=
  g.1 * c.cx ≤ X.1 && X.1 < g.1 * c.cx + c.cx && g.2.1 * c.cy ≤ X.2.1 && X.2.1 < g.2.1 * c.cy + c.cy
    && g.2.2 * c.cz ≤ X.2.2 && X.2.2 < g.2.2 * c.cz + c.cz

/-- a per-cell task of subgrid `g` -/
def mapSub {σ : Type} (c : Cells) (g : Sub) (f : σ → σ) (s : Grid σ) : Grid σ :=
  fun x => if inSub c g x then f (s x) else s x

/-- the calls of an internal sweep (three loop nests) -/
def innerOps (c : Cells) (g : Sub) : List Op :=
  axes.flatMap fun ax => (innerLoc c ax).map fun pq => Op.pair ax (gcell c g pq.1) (gcell c g pq.2)

/-- the calls of the sweep in slot 1/3/5 resp. 10/12/14: pair sweep with the neighbour above, or
boundary sweep if there is none -/
def upOps (L : Layout) (c : Cells) (ax : Axis) (g : Sub) : List Op :=
  match ngbUp L ax g with
  | some n => (outerLoc c ax).map fun pq => Op.pair ax (gcell c g pq.1) (gcell c n pq.2)
  | none => (ghostLoc c ax true).map fun p => Op.ghost ax true (gcell c g p)

/-- the calls of the boundary sweep in slot 2/4/6 resp. 11/13/15 -/
def downOps (c : Cells) (ax : Axis) (g : Sub) : List Op :=
  (ghostLoc c ax false).map fun p => Op.ghost ax false (gcell c g p)

section
variable {α : Type} [Add α] [Sub α] [Mul α] [Div α] [Neg α] [LT α] [LE α]
  [DecidableLT α] [DecidableLE α] [OfScientific α] [ArithFns α]

/-- `execute_task` -/
def execTask (flux : FluxFn α) (pr : Params α) (limiter : HV α → Grad α) (predict : HV α → Q α)
    (L : Layout) (c : Cells) (t : Task) (s : Grid (HV α)) : Grid (HV α) :=
  match t.slot with
  | .gradInt => runOps (gradPhys pr) s (innerOps c t.g)
  | .gradUp ax => runOps (gradPhys pr) s (upOps L c ax t.g)
  | .gradDown ax => runOps (gradPhys pr) s (downOps c ax t.g)
  | .limiter => mapSub c t.g (fun h => { h with grad := limiter h }) s
  | .predict => mapSub c t.g (fun h => { h with prim := predict h }) s
  | .fluxInt => runOps (fluxPhys flux pr) s (innerOps c t.g)
  | .fluxUp ax => runOps (fluxPhys flux pr) s (upOps L c ax t.g)
  | .fluxDown ax => runOps (fluxPhys flux pr) s (downOps c ax t.g)
  | .updCons => mapSub c t.g (fun h => updateConserved pr.dmax h pr.dt) s
  | .updPrim =>
    mapSub c t.g (fun h => { h with prim := setPrimitive pr.g pr.vmax pr.ovf pr.invVol h.cons }) s

/-- the tasks of a step executed in the order `sched` -/
def runSchedule (flux : FluxFn α) (pr : Params α) (limiter : HV α → Grad α) (predict : HV α → Q α)
    (L : Layout) (c : Cells) (sched : List Task) (s : Grid (HV α)) : Grid (HV α) :=
  sched.foldl (fun s t => execTask flux pr limiter predict L c t s) s

end

/-- two tasks touch a common subgrid -/
def conflict (L : Layout) (a b : Task) : Prop := ∃ h, h ∈ footprint L a ∧ h ∈ footprint L b

/-- the data dependences of a step: `a` must run before `b` when they touch a common subgrid and
`a` belongs to an earlier phase (gradients < limiter < prediction < fluxes < conserved < primitive
update) -/
def mustPrecede (L : Layout) (a b : Task) : Prop := phase a.slot < phase b.slot ∧ conflict L a b

/-- an execution order that respects the data dependences -/
def Respects (L : Layout) (sched : List Task) : Prop :=
  sched.Pairwise fun a b => ¬ mustPrecede L b a

/-- a linear extension of C07's task graph: every existing task exactly once, no task before one
of its parents -/
structure LinExt (L : Layout) (sched : List Task) : Prop where
  nodup : sched.Nodup
  all : ∀ t, t ∈ sched ↔ exists_ L t = true
  order : sched.Pairwise fun a b => b ∉ parents L a


/-! ### one thread

With a single thread the worker loop has no concurrency left: it pops a task from its queue, runs
it, releases the children, and pops the next one.  `pick` stands for the queue discipline (which of
the ready tasks `TaskQueue::get_task` returns: any function of the list of ready tasks). -/

/-- the tasks that can be started after `done`: not yet executed, all parents executed -/
def ready (L : Layout) (done : List Task) : List Task :=
  (allTasks L).filter fun t => decide (t ∉ done) && (parents L t).all (fun p => decide (p ∈ done))

/-- the order in which one thread executes the tasks (at most `n` more tasks after `done`) -/
def oneThreadOrder (L : Layout) (pick : List Task → Option Task) : Nat → List Task → List Task
  | 0, done => done
  | n + 1, done =>
    match pick (ready L done) with
    | some t => oneThreadOrder L pick n (done ++ [t])
    | none => done

end CMacVerif.HydroTasks
