/-
Numeric front end shared by the C16 grid models (Cartesian, AMR, Morton, bucket search).

The geometric code converts doubles to integers by the C++ conversion (truncation toward
zero) and integers to doubles.  Generic numeric models only need these two extra operations on
top of the standard operator classes; they are classes so that the same definition runs at
`Float` (drivers), at `Rat` (exact) and at `ℝ` (theorems, instances in `Lemmas/GridNum.lean`).
Core Lean only.
-/
namespace CMacVerif.GridNum

/-- C++ conversion `double → (u)int_fast32_t`: truncation toward zero (in-range values) -/
class Trunc (α : Type) where
  toInt : α → Int

/-- conversion to an unsigned type of a value that is `≥ 0` (negative input: UB in C++, 0 here) -/
def Trunc.toNat {α : Type} [Trunc α] (x : α) : Nat := (Trunc.toInt x).toNat

/-- C++ conversion integer → `double` (exact for the small integers that occur) -/
class OfInt (α : Type) where
  ofInt : Int → α

def OfInt.ofNat {α : Type} [OfInt α] (n : Nat) : α := OfInt.ofInt (n : Int)

instance : Trunc Float := ⟨fun x => x.toInt64.toInt⟩
instance : OfInt Float := ⟨Float.ofInt⟩

instance : Trunc Rat := ⟨fun x => if 0 ≤ x then x.floor else -((-x).floor)⟩
instance : OfInt Rat := ⟨fun i => (i : Rat)⟩

/-- axis-aligned box: anchor and sides (`Box<>`) -/
structure Box3 (α : Type) where
  ax : α
  ay : α
  az : α
  sx : α
  sy : α
  sz : α

/-- a point / vector (`CoordinateVector<>`) -/
structure V3 (α : Type) where
  x : α
  y : α
  z : α

end CMacVerif.GridNum
