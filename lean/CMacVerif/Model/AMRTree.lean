import CMacVerif.Model.GridNum
/-
Model of the AMR grid: `AMRGridCell` (src/AMRGridCell.hpp) and `AMRGrid` (src/AMRGrid.hpp).

A cell is a leaf (`_values != nullptr`) or has eight children (`refine`, `create_all_cells`
always create all eight, so every tree reachable from a block by refinements is a value of
`Tree`).  Keys are modelled on `Nat` with the arithmetic of the C++ written out
(`x >> k` = `x / 2^k`, `x << k` = `x * 2^k`, `x & 7` = `x % 8`, `x & 0x3ff` = `x % 1024`);
`Props/C16.lean` shows all values stay below 2^32 / 2^64 for depth ≤ 10 and ≤ 1024 blocks per
axis, so the fixed-width reading is faithful.  The geometric descent is generic numeric code;
block and child indices are clamped as in the code (fix 2fae05a), so the descent is total.
Core Lean only.
-/
namespace CMacVerif.AMR
open CMacVerif.GridNum

inductive Tree where
  | leaf : Tree
  | node : (Fin 8 → Tree) → Tree

/-- `_children[i]` (index reduced mod 8 to stay total) -/
def kid (c : Fin 8 → Tree) (i : Nat) : Tree := c ⟨i % 8, Nat.mod_lt _ (by decide)⟩

/-- `AMRGRIDCELL_MAXKEY` -/
def maxKey : Nat := 0xffffffff
/-- `AMRGRID_MAXKEY` -/
def maxKey64 : Nat := 0xffffffffffffffff

/-- maximal depth below this cell -/
def depth : Tree → Nat
  | .leaf => 0
  | .node c => 1 + max (max (max (depth (c 0)) (depth (c 1))) (max (depth (c 2)) (depth (c 3))))
      (max (max (depth (c 4)) (depth (c 5))) (max (depth (c 6)) (depth (c 7))))

/-- `get_number_of_cells` -/
def numLeaves : Tree → Nat
  | .leaf => 1
  | .node c => numLeaves (c 0) + numLeaves (c 1) + numLeaves (c 2) + numLeaves (c 3)
      + numLeaves (c 4) + numLeaves (c 5) + numLeaves (c 6) + numLeaves (c 7)

/-- `create_all_cells(current_level, level)`: full tree with `n = level - current_level` levels -/
def full : Nat → Tree
  | 0 => .leaf
  | n + 1 => .node (fun _ => full n)

/-- `get_first_key(level)` -/
def firstKey : Tree → Nat → Nat
  | .leaf, level => 1 * 2 ^ (3 * level)                 -- 1 << (3 * level)
  | .node c, level => firstKey (c 0) (level + 1)

/-- `get_next_key(key, level)` -/
def nextKey : Tree → Nat → Nat → Nat
  | .leaf, _, _ => maxKey
  | .node c, key, level =>
    let cell := (key / 2 ^ (3 * level)) % 8               -- (key >> (3 * level)) & 7
    let nk := nextKey (c ⟨cell, Nat.mod_lt _ (by decide)⟩) key (level + 1)
    if nk = maxKey then
      if cell = 7 then maxKey
      else
        -- first key of the next child + the part of the key above this cell + the child bits
        firstKey (kid c (cell + 1)) (level + 1)
          + (key - (key / 2 ^ (3 * level)) * 2 ^ (3 * level)) + (cell + 1) * 2 ^ (3 * level)
    else nk

/-- `operator[](key)`: the subtree addressed by a key (`none`: the C++ raises "Cell does not
exist") -/
def subtree : Tree → Nat → Option Tree
  | .leaf, key => if key = 1 then some .leaf else none
  | .node c, key =>
    if key = 1 then some (.node c)
    else subtree (c ⟨key % 8, Nat.mod_lt _ (by decide)⟩) (key / 8)     -- cell = key & 7; key >>= 3

/-- `refine(key)`: returns the new tree and the key of the first new child (as seen from this
cell).  `key = 1`: the cell gets eight leaf children. -/
def refine : Tree → Nat → Tree × Nat
  | .leaf, key => if key = 1 then (.node (fun _ => .leaf), 8) else (.leaf, 0)   -- else: "Cell does not exist!"
  | .node c, key =>
    if key = 1 then (.node (fun _ => .leaf), 8)
    else
      let cell := key % 8
      let r := refine (c ⟨key % 8, Nat.mod_lt _ (by decide)⟩) (key / 8)
      (.node (fun i => if i.val = cell then r.1 else c i), r.2 * 8 + cell)   -- (newcell << 3) + cell

/-- the leaf keys below a cell in Morton order (specification of the enumeration); `pre` are
the key bits of the ancestors, `level` the level of this cell -/
def leafKeys : Tree → Nat → Nat → List Nat
  | .leaf, level, pre => [pre + 2 ^ (3 * level)]
  | .node c, level, pre =>
    leafKeys (c 0) (level + 1) (pre + 0 * 2 ^ (3 * level)) ++ leafKeys (c 1) (level + 1) (pre + 1 * 2 ^ (3 * level))
    ++ leafKeys (c 2) (level + 1) (pre + 2 * 2 ^ (3 * level)) ++ leafKeys (c 3) (level + 1) (pre + 3 * 2 ^ (3 * level))
    ++ leafKeys (c 4) (level + 1) (pre + 4 * 2 ^ (3 * level)) ++ leafKeys (c 5) (level + 1) (pre + 5 * 2 ^ (3 * level))
    ++ leafKeys (c 6) (level + 1) (pre + 6 * 2 ^ (3 * level)) ++ leafKeys (c 7) (level + 1) (pre + 7 * 2 ^ (3 * level))

/-- paths (child indices from the block downwards) of the leaves, in the same order -/
def leafPaths : Tree → List (List Nat)
  | .leaf => [[]]
  | .node c =>
    (leafPaths (c 0)).map (0 :: ·) ++ (leafPaths (c 1)).map (1 :: ·) ++ (leafPaths (c 2)).map (2 :: ·)
    ++ (leafPaths (c 3)).map (3 :: ·) ++ (leafPaths (c 4)).map (4 :: ·) ++ (leafPaths (c 5)).map (5 :: ·)
    ++ (leafPaths (c 6)).map (6 :: ·) ++ (leafPaths (c 7)).map (7 :: ·)

/-- key of a path: three bits per level, lowest bits = first step, then the level marker -/
def encodeKey : List Nat → Nat
  | [] => 1
  | i :: r => i + 8 * encodeKey r

/-- path of a key (`operator[]`: `key == 1` stop; `cell = key & 7; key >>= 3`) -/
def decodeKey (key : Nat) : List Nat :=
  if h : key ≤ 1 then [] else (key % 8) :: decodeKey (key / 8)
termination_by key
decreasing_by omega

/-- the enumeration loop `key = first; while (key != MAX) { visit; key = next(key) }` -/
def enumerate (next : Nat → Nat) (stop : Nat) : Nat → Nat → List Nat
  | 0, _ => []
  | fuel + 1, key => if key = stop then [] else key :: enumerate next stop fuel (next key)

/-! ### geometric descent (generic numeric code) -/
section
variable {α : Type} [Add α] [Sub α] [Mul α] [Div α] [OfScientific α] [Trunc α] [OfInt α]

/-- `uint_fast8_t ix = 2 * (position.x() - box.get_anchor().x()) / box.get_sides().x();`
followed by `ix = std::min< uint_fast8_t >(ix, 1);` (round off: a position on the upper wall of
the cell is in the upper child) -/
def childIndex (p a s : α) : Nat := min (Trunc.toNat (2.0 * (p - a) / s)) 1

/-- `box.get_sides() *= 0.5; box.get_anchor()[i] += ix * box.get_sides()[i];` -/
def childBox (b : Box3 α) (ix iy iz : Nat) : Box3 α :=
  let sx := b.sx * 0.5
  let sy := b.sy * 0.5
  let sz := b.sz * 0.5
  ⟨b.ax + OfInt.ofNat ix * sx, b.ay + OfInt.ofNat iy * sy, b.az + OfInt.ofNat iz * sz, sx, sy, sz⟩

/-- `AMRGridCell::get_key(level, position, box)`: key of the leaf containing the position and
the box the descent ends with (`get_cell` performs the same descent) -/
def descend : Tree → Nat → V3 α → Box3 α → Nat × Box3 α
  | .leaf, level, _, box => (1 * 2 ^ (3 * level), box)
  | .node c, level, p, box =>
    let ix := childIndex p.x box.ax box.sx
    let iy := childIndex p.y box.ay box.sy
    let iz := childIndex p.z box.az box.sz
    let cell := 4 * ix + 2 * iy + iz
    let r := descend (c ⟨cell % 8, Nat.mod_lt _ (by decide)⟩) (level + 1) p (childBox box ix iy iz)
    (cell * 2 ^ (3 * level) + r.1, r.2)

/-- box of the leaf reached by a path of child indices (what `refine`/`create_all_cells` store
in `_box`: `ix = (i & 4) >> 2`, `iy = (i & 2) >> 1`, `iz = i & 1`) -/
def boxOfPath (b : Box3 α) : List Nat → Box3 α
  | [] => b
  | i :: r => boxOfPath (childBox b (i / 4 % 2) (i / 2 % 2) (i % 2)) r

/-- `get_volume` -/
def volume (b : Box3 α) : α := b.sx * b.sy * b.sz

/-- sum of the leaf volumes below a cell with box `b` -/
def volSum : Tree → Box3 α → α
  | .leaf, b => volume b
  | .node c, b =>
    volSum (c 0) (childBox b 0 0 0) + volSum (c 1) (childBox b 0 0 1) + volSum (c 2) (childBox b 0 1 0)
    + volSum (c 3) (childBox b 0 1 1) + volSum (c 4) (childBox b 1 0 0) + volSum (c 5) (childBox b 1 0 1)
    + volSum (c 6) (childBox b 1 1 0) + volSum (c 7) (childBox b 1 1 1)
end

/-! ### the grid of top level blocks (`AMRGrid`) -/

structure Grid where
  nx : Nat
  ny : Nat
  nz : Nat
  block : Nat → Nat → Nat → Tree

/-- `(ix << 20) + (iy << 10) + iz`, then `(block << 32) + cell` -/
def gridKey (ix iy iz cell : Nat) : Nat := (ix * 2 ^ 20 + iy * 2 ^ 10 + iz) * 2 ^ 32 + cell

/-- `get_block`: `block = key >> 32; ix = (block & 0x3ff00000) >> 20; …` -/
def blockOfKey (key : Nat) : Nat × Nat × Nat :=
  let block := key / 2 ^ 32
  ((block / 2 ^ 20) % 1024, (block / 2 ^ 10) % 1024, block % 1024)

/-- `get_cell_key` -/
def cellOfKey (key : Nat) : Nat := key % 2 ^ 32

/-- `AMRGrid::get_first_key` -/
def gridFirstKey (g : Grid) : Nat := firstKey (g.block 0 0 0) 0

/-- `AMRGrid::get_next_key` -/
def gridNextKey (g : Grid) (key : Nat) : Nat :=
  let (ix, iy, iz) := blockOfKey key
  let cell := cellOfKey key
  let nextCell := nextKey (g.block ix iy iz) cell 0
  if nextCell = maxKey then
    -- ++iz; if (iz == nz) { iz = 0; ++iy; if (iy == ny) { iy = 0; ++ix; if (ix == nx) return MAX } }
    let iz1 := iz + 1
    if iz1 = g.nz then
      let iy1 := iy + 1
      if iy1 = g.ny then
        let ix1 := ix + 1
        if ix1 = g.nx then maxKey64
        else gridKey ix1 0 0 (firstKey (g.block ix1 0 0) 0)
      else gridKey ix iy1 0 (firstKey (g.block ix iy1 0) 0)
    else gridKey ix iy iz1 (firstKey (g.block ix iy iz1) 0)
  else gridKey ix iy iz nextCell

/-- `AMRGrid::refine_cell(key)` -/
def gridRefine (g : Grid) (key : Nat) : Grid × Nat :=
  let (ix, iy, iz) := blockOfKey key
  let r := refine (g.block ix iy iz) (cellOfKey key)
  ({ g with block := fun a b c => if a = ix ∧ b = iy ∧ c = iz then r.1 else g.block a b c },
    (key / 2 ^ 32) * 2 ^ 32 + r.2)

/-- `AMRGrid(box, ncell)` followed by `create_all_cells(level)` -/
def Grid.mk' (nx ny nz level : Nat) : Grid := ⟨nx, ny, nz, fun _ _ _ => full level⟩

section
variable {α : Type} [Add α] [Sub α] [Mul α] [Div α] [OfScientific α] [Trunc α] [OfInt α]

/-- `ix = _ncell.x() * (position.x() - _box.get_anchor().x()) / _box.get_sides().x();` followed by
`ix = std::min(ix, _ncell.x() - 1);` (round off can assign a position on the upper wall of a
block to the next block; the last block has no next block) -/
def blockIndex (n : Nat) (p a s : α) : Nat := min (Trunc.toNat ((OfInt.ofNat n : α) * (p - a) / s)) (n - 1)

/-- box of the block: `sides = box.sides / ncell; anchor = box.anchor + ix * sides` -/
def blockBox (g : Grid) (b : Box3 α) (ix iy iz : Nat) : Box3 α :=
  let sx := b.sx / OfInt.ofNat g.nx
  let sy := b.sy / OfInt.ofNat g.ny
  let sz := b.sz / OfInt.ofNat g.nz
  ⟨b.ax + OfInt.ofNat ix * sx, b.ay + OfInt.ofNat iy * sy, b.az + OfInt.ofNat iz * sz, sx, sy, sz⟩

/-- `AMRGrid::get_key(position)` (and `get_cell`): 64-bit key of the leaf containing the
position, with the box the descent ends in -/
def gridLocate (g : Grid) (b : Box3 α) (p : V3 α) : Nat × Box3 α :=
  let ix := blockIndex g.nx p.x b.ax b.sx
  let iy := blockIndex g.ny p.y b.ay b.sy
  let iz := blockIndex g.nz p.z b.az b.sz
  let r := descend (g.block ix iy iz) 0 p (blockBox g b ix iy iz)
  (gridKey ix iy iz r.1, r.2)

/-- the loop of `AMRGrid::get_key(level, position)`: `n` levels still to do at `ilevel` -/
def keyLoop : Nat → Nat → V3 α → Box3 α → Nat → Nat
  | 0, _, _, _, cell => cell
  | n + 1, ilevel, p, box, cell =>
    let ix := childIndex p.x box.ax box.sx
    let iy := childIndex p.y box.ay box.sy
    let iz := childIndex p.z box.az box.sz
    -- cell += ((ix << 2) + (iy << 1) + iz) << (3 * ilevel);
    keyLoop n (ilevel + 1) p (childBox box ix iy iz) (cell + (ix * 4 + iy * 2 + iz) * 2 ^ (3 * ilevel))

/-- `AMRGrid::get_key(level, position)`: key of the (possibly virtual) cell on `level` that
contains the position; does not look at the tree -/
def gridKeyAtLevel (g : Grid) (b : Box3 α) (level : Nat) (p : V3 α) : Nat :=
  let ix := blockIndex g.nx p.x b.ax b.sx
  let iy := blockIndex g.ny p.y b.ay b.sy
  let iz := blockIndex g.nz p.z b.az b.sz
  let cell := keyLoop level 0 p (blockBox g b ix iy iz) 0
  gridKey ix iy iz (cell + 1 * 2 ^ (3 * level))
end

end CMacVerif.AMR
