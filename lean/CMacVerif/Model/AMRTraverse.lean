import CMacVerif.Model.AMRTree
import CMacVerif.Arith
/-
Model of the photon traversal of `AMRDensityGrid` (src/AMRDensityGrid.hpp:
`get_wall_intersection` 466-624, `interact` 650-705) on the `AMRTree` model of the grid,
including the neighbour pointers `_ngbs` built by `AMRGrid::set_ngbs` (AMRGrid.hpp 467-524)
and `AMRGridCell::set_ngbs` (AMRGridCell.hpp 563-645) and the descent
`AMRGridCell::get_child(position)` (523-532).

A cell is referred to by its block indices and the path of child indices from the block
(`Ref`); the stored `_box` of a cell is `boxOfPath (blockBox …) path` (the constructors compute
it with exactly these operations).  Numeric code generic (`ArithFns.sqrt` for the one square
root of `get_wall_intersection`).  Core Lean only.
-/
namespace CMacVerif.AMRT
open CMacVerif.GridNum CMacVerif.AMR

/-- `AMRNgbPosition` -/
inductive Face where
  | left | right | front | back | bottom | top
deriving Repr, DecidableEq

def Face.axis : Face → Nat
  | .left | .right => 0
  | .front | .back => 1
  | .bottom | .top => 2

def Face.up : Face → Bool
  | .right | .back | .top => true
  | _ => false

/-- a cell of the hierarchy: block indices and child indices from the block downwards -/
structure Ref where
  bx : Nat
  by' : Nat
  bz : Nat
  path : List Nat
deriving Repr, DecidableEq

def Ref.snoc (r : Ref) (c : Nat) : Ref := { r with path := r.path ++ [c] }

/-- the subtree a path leads to -/
def treeAt : Tree → List Nat → Option Tree
  | t, [] => some t
  | .leaf, _ :: _ => none
  | .node c, i :: r => treeAt (c ⟨i % 8, Nat.mod_lt _ (by decide)⟩) r

def cellAt (g : Grid) (r : Ref) : Option Tree := treeAt (g.block r.bx r.by' r.bz) r.path

/-- `is_single_cell()` -/
def isSingle (g : Grid) (r : Ref) : Bool :=
  match cellAt g r with
  | some .leaf => true
  | _ => false

/-- the grid with its geometry and periodicity flags -/
structure AGrid (α : Type) where
  g : Grid
  box : Box3 α
  px : Bool
  py : Bool
  pz : Bool

/-- bit of a child index on an axis: `cell = 4 ix + 2 iy + iz` -/
def childBit (c axis : Nat) : Nat := if axis = 0 then c / 4 % 2 else if axis = 1 then c / 2 % 2 else c % 2

/-- the child index with the bit of one axis replaced -/
def setBit (c axis b : Nat) : Nat :=
  if axis = 0 then 4 * b + c % 4 else if axis = 1 then 4 * (c / 4 % 2) + 2 * b + c % 2 else 2 * (c / 2 % 4) + b

/-- `AMRGrid::set_ngbs`: neighbours of a top level block (periodic wrap, or none at an open
boundary) -/
def topNgb (g : Grid) (px py pz : Bool) (bx by' bz : Nat) (f : Face) : Option Ref :=
  match f with
  | .left => if bx > 0 then some ⟨bx - 1, by', bz, []⟩ else if px then some ⟨g.nx - 1, by', bz, []⟩ else none
  | .right => if bx < g.nx - 1 then some ⟨bx + 1, by', bz, []⟩ else if px then some ⟨0, by', bz, []⟩ else none
  | .front => if by' > 0 then some ⟨bx, by' - 1, bz, []⟩ else if py then some ⟨bx, g.ny - 1, bz, []⟩ else none
  | .back => if by' < g.ny - 1 then some ⟨bx, by' + 1, bz, []⟩ else if py then some ⟨bx, 0, bz, []⟩ else none
  | .bottom => if bz > 0 then some ⟨bx, by', bz - 1, []⟩ else if pz then some ⟨bx, by', g.nz - 1, []⟩ else none
  | .top => if bz < g.nz - 1 then some ⟨bx, by', bz + 1, []⟩ else if pz then some ⟨bx, by', 0, []⟩ else none

/-- `AMRGridCell::set_ngbs`, one child: the neighbour across face `f` of child `c` of the cell
`parent` whose own neighbours are `pn`.  Inside the parent it is the sibling; across the parent's
face it is `get_child_safe(neighbour of the parent, mirrored child)`: the neighbour itself when
it is a single cell (or missing), its child otherwise. -/
def childNgb (g : Grid) (parent : Ref) (pn : Face → Option Ref) (c : Nat) (f : Face) : Option Ref :=
  let b := childBit c f.axis
  if (b = 0 ∧ f.up = true) ∨ (b = 1 ∧ f.up = false) then some (parent.snoc (setBit c f.axis (1 - b)))
  else match pn f with
    | none => none
    | some n => if isSingle g n then some n else some (n.snoc (setBit c f.axis (1 - b)))

/-- the recursion of `set_ngbs` along the path to a cell -/
def ngbsAlong (g : Grid) : List Nat → Ref → (Face → Option Ref) → (Face → Option Ref)
  | [], _, pn => pn
  | c :: rest, cur, pn => ngbsAlong g rest (cur.snoc c) (fun f => childNgb g cur pn c f)

/-- `cell->get_ngb(position)` after `set_ngbs(periodic)` -/
def ngb (g : Grid) (px py pz : Bool) (r : Ref) (f : Face) : Option Ref :=
  ngbsAlong g r.path ⟨r.bx, r.by', r.bz, []⟩ (topNgb g px py pz r.bx r.by' r.bz) f

section
variable {α : Type} [Add α] [Sub α] [Mul α] [Div α] [Neg α] [LT α] [LE α] [DecidableLT α]
  [DecidableLE α] [OfScientific α] [Trunc α] [OfInt α] [ArithFns α]

/-- `get_geometry()`: the stored `_box` of a cell -/
def refBox (G : AGrid α) (r : Ref) : Box3 α := boxOfPath (blockBox G.g G.box r.bx r.by' r.bz) r.path

/-- `get_child(position)` repeated until a single cell is reached:
`ix = position.x() > _box.anchor.x() + 0.5 * _box.sides.x()` -/
def descendChild : Tree → Ref → Box3 α → V3 α → Ref
  | .leaf, r, _, _ => r
  | .node c, r, b, p =>
    let ix := if p.x > b.ax + 0.5 * b.sx then 1 else 0
    let iy := if p.y > b.ay + 0.5 * b.sy then 1 else 0
    let iz := if p.z > b.az + 0.5 * b.sz then 1 else 0
    let k := 4 * ix + 2 * iy + iz
    descendChild (c ⟨k % 8, Nat.mod_lt _ (by decide)⟩) (r.snoc k) (childBox b ix iy iz) p

/-- `(a - b).norm2()` -/
def norm2Diff (a b : V3 α) : α :=
  (a.x - b.x) * (a.x - b.x) + (a.y - b.y) * (a.y - b.y) + (a.z - b.z) * (a.z - b.z)

/-- distance parameter to the wall of one axis (lines 484-494) -/
def wallParam (big o d bottom top : α) : α :=
  if d > 0.0 then (top - o) / d else if d < 0.0 then (bottom - o) / d else big

/-- `photon_origin + l * photon_direction` -/
def along (o d : V3 α) (l : α) : V3 α := ⟨o.x + d.x * l, o.y + d.y * l, o.z + d.z * l⟩

/-- which wall is hit: 0 = x, 1 = y, 2 = z (lines 530-585, including the tie rules) -/
def chooseAxis (dx dy dz : α) : Nat :=
  if dx < dy ∧ dx < dz then 0
  else if dy < dx ∧ dy < dz then 1
  else if dz < dx ∧ dz < dy then 2
  else if (¬ dx < dy ∧ ¬ dy < dx) ∨ (¬ dx < dz ∧ ¬ dz < dx) then 0 else 1

/-- result of `get_wall_intersection` -/
structure Hit (α : Type) where
  wall : V3 α
  ds : α
  axis : Nat
  up : Bool
  next : Option Ref
  corr : V3 α

def faceOf (axis : Nat) (up : Bool) : Face :=
  if axis = 0 then (if up then .right else .left)
  else if axis = 1 then (if up then .back else .front) else (if up then .top else .bottom)

/-- one component of `periodic_correction` (lines 591-617): the neighbour's anchor on the wrong
side of this cell's anchor means the photon crosses the periodic boundary -/
def periodicCorr (per : Bool) (chosen : Bool) (up : Bool) (nAnchor cellBottom side : α) : α :=
  if per ∧ chosen then
    (if up ∧ nAnchor < cellBottom then -side else if ¬ up ∧ nAnchor > cellBottom then side else 0.0)
  else 0.0

/-- `get_wall_intersection(photon_origin, photon_direction, box, cell, ds, periodic_correction)` -/
def wallIntersection (big : α) (G : AGrid α) (o d : V3 α) (r : Ref) : Hit α :=
  let box := refBox G r
  let lx := wallParam big o.x d.x box.ax (box.ax + box.sx)
  let nextx := along o d lx
  let dx := norm2Diff nextx o
  let ly := wallParam big o.y d.y box.ay (box.ay + box.sy)
  let nexty := along o d ly
  let dy := norm2Diff nexty o
  let lz := wallParam big o.z d.z box.az (box.az + box.sz)
  let nextz := along o d lz
  let dz := norm2Diff nextz o
  let axis := chooseAxis dx dy dz
  let wall := if axis = 0 then nextx else if axis = 1 then nexty else nextz
  let d2 := if axis = 0 then dx else if axis = 1 then dy else dz
  let dc := if axis = 0 then d.x else if axis = 1 then d.y else d.z
  -- `next_direction[axis] < 0. ? LEFT : RIGHT` (next_direction is -1, 0 or 1)
  let up := ¬ (dc < 0.0)
  let ds := ArithFns.sqrt d2
  match ngb G.g G.px G.py G.pz r (faceOf axis up) with
  | none => ⟨wall, ds, axis, up, none, ⟨0.0, 0.0, 0.0⟩⟩
  | some n =>
    let nb := refBox G n
    -- next_direction has a non-zero component on the chosen axis only, and only when the
    -- direction component is not zero
    let moving := dc > 0.0 ∨ dc < 0.0
    let corr : V3 α :=
      ⟨periodicCorr G.px (axis = 0 ∧ moving) up nb.ax box.ax G.box.sx,
       periodicCorr G.py (axis = 1 ∧ moving) up nb.ay box.ay G.box.sy,
       periodicCorr G.pz (axis = 2 ∧ moving) up nb.az box.az G.box.sz⟩
    let target : V3 α := ⟨wall.x + corr.x, wall.y + corr.y, wall.z + corr.z⟩
    let leaf := match cellAt G.g n with
      | some t => descendChild t n nb target
      | none => n
    ⟨wall, ds, axis, up, some leaf, corr⟩

/-- per cell data the loop reads, by 64-bit key of the cell -/
structure Medium (α : Type) where
  sigH : α
  dens : Nat → α
  xH : Nat → α

def keyOf (r : Ref) : Nat := gridKey r.bx r.by' r.bz (encodeKey r.path)

/-- `get_optical_depth` (no helium contribution: `cross_section_He_corr = 0`, `x_He = 0`) -/
def opticalDepth (m : Medium α) (k : Nat) (ds : α) : α := ds * m.dens k * (m.sigH * m.xH k + 0.0 * 0.0)

structure St (α : Type) where
  pos : V3 α
  cur : Option Ref
  od : α
  path : List (Ref × α)
  last : Option Ref

/-- loop body of `interact` (lines 660-690) for `current_cell = r` -/
def body (big : α) (G : AGrid α) (m : Medium α) (d : V3 α) (st : St α) (r : Ref) : St α :=
  let h := wallIntersection big G st.pos d r
  let tau := opticalDepth m (keyOf r) h.ds
  let od := st.od - tau
  if od < 0.0 then
    let scorr := h.ds * od / tau
    let pos : V3 α := ⟨st.pos.x + (h.wall.x - st.pos.x) * (h.ds + scorr) / h.ds,
      st.pos.y + (h.wall.y - st.pos.y) * (h.ds + scorr) / h.ds,
      st.pos.z + (h.wall.z - st.pos.z) * (h.ds + scorr) / h.ds⟩
    -- current_cell = old_cell (fix d8e5613)
    { pos := pos, cur := some r, od := od, path := (r, h.ds + scorr) :: st.path, last := some r }
  else
    { pos := ⟨h.wall.x + h.corr.x, h.wall.y + h.corr.y, h.wall.z + h.corr.z⟩, cur := h.next, od := od,
      path := (r, h.ds) :: st.path, last := some r }

/-- `while (current_cell != nullptr && optical_depth > 0.)` -/
def loop (big : α) (G : AGrid α) (m : Medium α) (d : V3 α) : Nat → St α → St α × Bool
  | 0, st => (st, false)
  | fuel + 1, st =>
    match st.cur with
    | none => (st, true)
    | some r => if st.od > 0.0 then loop big G m d fuel (body big G m d st r) else (st, true)

/-- the leaf containing a position (`get_cell_index`), as a `Ref` -/
def locate (G : AGrid α) (p : V3 α) : Ref :=
  let k := (gridLocate G.g G.box p).1
  let b := blockOfKey k
  ⟨b.1, b.2.1, b.2.2, decodeKey (cellOfKey k)⟩

structure Result (α : Type) where
  pos : V3 α
  cell : Option Ref
  path : List (Ref × α)
  od : α
  finished : Bool

/-- `interact(photon, optical_depth)` -/
def interact (big : α) (G : AGrid α) (m : Medium α) (p d : V3 α) (tau : α) (fuel : Nat) : Result α :=
  let r := loop big G m d fuel ⟨p, some (locate G p), tau, [], none⟩
  let st := r.1
  -- if (current_cell == nullptr) last_cell = end();
  { pos := st.pos, cell := match st.cur with | none => none | some _ => st.last, path := st.path, od := st.od,
    finished := r.2 }
end

end CMacVerif.AMRT
