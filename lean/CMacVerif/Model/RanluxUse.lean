import CMacVerif.Model.Ranlux
import CMacVerif.Arith
/-
Model of the run-level consumers of `RandomGenerator` that the property talks about:

* `get_random_integer()` (src/RandomGenerator.hpp:232) — also the seed a restarted RHD run
  continues with (TaskBasedRadiationHydrodynamicsSimulation.cpp: `random_seed =
  restart_generator.get_random_integer()`),
* the per-thread seeding loop of the task based drivers
  (`_random_generators[ithread].set_seed(random_seed + ithread)`),
* the emission block of SourceDiscretePhotonTaskContext / PhotonReemitTaskContext:
  isotropic direction from two draws, target optical depth `-log(u)` from a third.
-/
namespace CMacVerif.Ranlux

/-! ### `get_random_integer` -/

/-- `return get_uniform_random_double() * 2147483648.0;`  The product with 2^31 is exact (power
of two): the double is `k * 2^-17`; the conversion to `int_fast32_t` truncates: `k / 2^17`
(`k ≥ 0`).  In units of 2^-48 the product is `u * 2^31`; truncation to an integer divides by
2^48. -/
def nextInt (R : Rnd) (s : State) : Int × State :=
  let (u, s') := next R s
  (u * 2147483648 / B, s')

/-! ### per-thread seeds -/

/-- `random_seed + ithread` (both task based drivers) -/
def threadSeed (randomSeed : Int) (ithread : Nat) : Int := randomSeed + ithread

/-- the generators of a run with `n` threads -/
def threadStates (randomSeed : Int) (n : Nat) : List State :=
  (List.range n).map (fun i => seedState exact (threadSeed randomSeed i))

/-! ### emission: direction and target optical depth -/

/-- `std::cos`, `std::sin` and the constant `M_PI` -/
class TrigFns (α : Type) where
  cos : α → α
  sin : α → α
  pi : α

section
variable {α : Type} [Add α] [Sub α] [Mul α] [Neg α] [LT α] [DecidableLT α] [OfScientific α]
  [ArithFns α] [TrigFns α]

/-- ```
const double cost = 2. * u1 - 1.;
const double phi = 2. * M_PI * u2;
const double sint = std::sqrt(std::max(1. - cost * cost, 0.));
const double cosp = std::cos(phi);
const double sinp = std::sin(phi);
const CoordinateVector<> direction(sint * cosp, sint * sinp, cost);
``` -/
def emitDirection (u1 u2 : α) : α × α × α :=
  let cost := 2.0 * u1 - 1.0
  let phi := 2.0 * TrigFns.pi * u2
  let sint := ArithFns.sqrt (amax (1.0 - cost * cost) 0.0)
  let cosp := TrigFns.cos phi
  let sinp := TrigFns.sin phi
  (sint * cosp, sint * sinp, cost)

/-- `-std::log(u3)` -/
def emitTau (u3 : α) : α := -(ArithFns.log u3)

end

end CMacVerif.Ranlux
