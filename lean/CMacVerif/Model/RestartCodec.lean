/-
Model of the restart file format (src/RestartWriter.hpp, src/RestartReader.hpp) and of the way the
`write_restart_file` / restart-constructor pairs use it.

* `Prim`   : the primitive kinds of `RestartWriter::write` / `RestartReader::read`
             (fixed-width integers little endian, doubles as their 8 bytes, `bool` as one byte,
             `std::string` = size_t size + bytes, `std::map<string,string>` = size + pairs, and opaque
             trivially copyable structs (timeval, streampos) as raw bytes).
* `Sch`    : a schema = what one `write_restart_file` body writes / one restart constructor reads, in
             code order.  Loops whose bound is a compile-time literal are unrolled by the translator;
             the remaining loops (`rep`) have a count that is an expression (`CExp`) of integer items
             written/read EARLIER (De Bruijn index into the stack of integer items that are in scope),
             of external options (mask / turbulence switched on) or a test of an earlier string item
             (the `typeid` tag of the factories).  `if (has_output) {…}` is a loop with count 0/1.
* `Val`    : the value tree that a schema carries;  `encode` = the writer, `decode` = the reader
             (with the reader's own evaluation of the loop counts from what it has read so far,
             the `> 0` of the bool reader, the `char*` round trip of the string reader that stops at the
             first NUL, and the `map[key] = value` insertion of the map reader).
* `DExpr`  : expression trees for the fields that are NOT stored but recomputed by a constructor.
* `Sim`    : abstract stop/restart model used by `continuation_identical_partial`.

Bytes are natural numbers (< 256 for everything `encode` produces).  Core Lean only.
-/
namespace CMacVerif.RestartCodec

abbrev Bytes := List Nat

/-! ### primitive kinds -/

inductive Prim where
  | int (w : Nat)     -- integer of w bytes (signedness does not matter for the bytes)
  | f64               -- double: its 64-bit pattern, 8 bytes
  | bool              -- uint_least8_t 0/1; the reader tests `> 0`
  | str               -- size_t size, then the bytes; reader goes through a NUL-terminated char*
  | smap              -- size_t n, then n × (key string, value string); reader inserts into a std::map
  | raw (w : Nat)     -- w opaque bytes (struct timeval, std::streampos)
deriving DecidableEq, Repr

inductive PV where
  | nat (n : Nat)
  | bytes (b : Bytes)
  | smap (m : List (Bytes × Bytes))
deriving DecidableEq, Repr

/-! ### little-endian integers -/

def leBytes : Nat → Nat → Bytes
  | 0, _ => []
  | w + 1, n => (n % 256) :: leBytes w (n / 256)

def ofLE : Bytes → Nat
  | [] => 0
  | b :: t => b + 256 * ofLE t

/-- read exactly `n` bytes (walks only `n` cells); `none` = short file -/
def takeN : Nat → Bytes → Option (Bytes × Bytes)
  | 0, l => some ([], l)
  | _ + 1, [] => none
  | n + 1, b :: t => match takeN n t with
    | some (a, r) => some (b :: a, r)
    | none => none

/-! ### strings and maps -/

/-- lexicographic order on unsigned bytes = `std::string::operator<` (std::map key order) -/
def ltBytes : Bytes → Bytes → Bool
  | [], [] => false
  | [], _ :: _ => true
  | _ :: _, [] => false
  | a :: as, b :: bs => if a < b then true else if b < a then false else ltBytes as bs

/-- `map[k] = v` on the sorted association list that models a `std::map` -/
def mapInsert (k v : Bytes) : List (Bytes × Bytes) → List (Bytes × Bytes)
  | [] => [(k, v)]
  | (k', v') :: t =>
    if ltBytes k k' then (k, v) :: (k', v') :: t
    else if k = k' then (k, v) :: t
    else (k', v') :: mapInsert k v t

def encStr (b : Bytes) : Bytes := leBytes 8 b.length ++ b

/-- `read<std::string>`: size, `size` bytes into a char buffer, `std::string(c_string)` -/
def decStr (bs : Bytes) : Option (Bytes × Bytes) :=
  match takeN 8 bs with
  | none => none
  | some (sz, r) => match takeN (ofLE sz) r with
    | none => none
    | some (a, r') => some (a.takeWhile (fun x => x != 0), r')

def encPairs : List (Bytes × Bytes) → Bytes
  | [] => []
  | (k, v) :: t => encStr k ++ encStr v ++ encPairs t

def decPairs : Nat → Bytes → List (Bytes × Bytes) → Option (List (Bytes × Bytes) × Bytes)
  | 0, bs, acc => some (acc, bs)
  | n + 1, bs, acc => match decStr bs with
    | none => none
    | some (k, b1) => match decStr b1 with
      | none => none
      | some (v, b2) => decPairs n b2 (mapInsert k v acc)

def validStr (b : Bytes) : Bool := decide (b.length < 2 ^ 64) && b.all (fun x => x != 0)

def allKeysLt (k : Bytes) : List (Bytes × Bytes) → Bool
  | [] => true
  | (k', _) :: t => ltBytes k k' && allKeysLt k t

/-- strictly increasing keys (what iterating a `std::map` yields) -/
def sortedKeys : List (Bytes × Bytes) → Bool
  | [] => true
  | (k, _) :: t => allKeysLt k t && sortedKeys t

def validPairs : List (Bytes × Bytes) → Bool
  | [] => true
  | (k, v) :: t => validStr k && validStr v && validPairs t

/-! ### primitive encode / decode -/

def encodePV : Prim → PV → Bytes
  | .int w, .nat n => leBytes w n
  | .f64, .nat n => leBytes 8 n
  | .bool, .nat n => [if n = 0 then 0 else 1]
  | .str, .bytes b => encStr b
  | .raw _, .bytes b => b
  | .smap, .smap m => leBytes 8 m.length ++ encPairs m
  | _, _ => []

def decodePV : Prim → Bytes → Option (PV × Bytes)
  | .int w, bs => match takeN w bs with
    | some (a, r) => some (.nat (ofLE a), r)
    | none => none
  | .f64, bs => match takeN 8 bs with
    | some (a, r) => some (.nat (ofLE a), r)
    | none => none
  | .bool, bs => match takeN 1 bs with
    | some (a, r) => some (.nat (if ofLE a > 0 then 1 else 0), r)
    | none => none
  | .str, bs => match decStr bs with
    | some (a, r) => some (.bytes a, r)
    | none => none
  | .raw w, bs => match takeN w bs with
    | some (a, r) => some (.bytes a, r)
    | none => none
  | .smap, bs => match takeN 8 bs with
    | none => none
    | some (sz, r) => match decPairs (ofLE sz) r [] with
      | some (m, r') => some (.smap m, r')
      | none => none

/-- the values a C++ object of that kind can hold -/
def confPV : Prim → PV → Bool
  | .int w, .nat n => decide (n < 256 ^ w)
  | .f64, .nat n => decide (n < 256 ^ 8)
  | .bool, .nat n => decide (n ≤ 1)
  | .str, .bytes b => validStr b
  | .raw w, .bytes b => decide (b.length = w)
  | .smap, .smap m => decide (m.length < 256 ^ 8) && validPairs m && sortedKeys m
  | _, _ => false

/-! ### count expressions and environments -/

inductive CExp where
  | lit (n : Nat)
  | var (k : Nat)                    -- k-th most recent integer/bool item in scope (0 = last)
  | mul (a b : CExp)
  | ext (i : Nat)                    -- external option i (0/1)
  | tagIs (k : Nat) (t : Bytes)      -- 1 if the k-th most recent string item equals t, else 0
deriving DecidableEq, Repr

structure Env where
  ints : List Nat := []
  strs : List Bytes := []
  opts : List Nat := []
deriving DecidableEq, Repr

def Env.push (e : Env) : Prim → PV → Env
  | .int _, .nat n => { e with ints := n :: e.ints }
  | .bool, .nat n => { e with ints := n :: e.ints }
  | .str, .bytes b => { e with strs := b :: e.strs }
  | _, _ => e

def CExp.eval (e : Env) : CExp → Nat
  | .lit n => n
  | .var k => e.ints.getD k 0
  | .mul a b => a.eval e * b.eval e
  | .ext i => e.opts.getD i 0
  | .tagIs k t => if e.strs.getD k [] = t then 1 else 0

/-! ### schemas, values, encode, decode -/

inductive Sch where
  | done
  | prim (p : Prim) (rest : Sch)
  | rep (c : CExp) (body : Sch) (rest : Sch)
deriving DecidableEq, Repr

inductive Val where
  | done
  | prim (v : PV) (rest : Val)
  | rep (its : Val) (rest : Val)     -- `its` is a chain of `cons` ended by `nil`
  | nil
  | cons (one : Val) (more : Val)
deriving DecidableEq, Repr

def encodeIts (f : Val → Bytes) : Val → Bytes
  | .cons one more => f one ++ encodeIts f more
  | _ => []

/-- the writer: what `write_restart_file` produces for the value tree `v` -/
def encode : Sch → Val → Bytes
  | .prim p rest, .prim v vr => encodePV p v ++ encode rest vr
  | .rep _ body rest, .rep its vr => encodeIts (encode body) its ++ encode rest vr
  | _, _ => []

def decodeIts (f : Bytes → Option (Val × Bytes)) : Nat → Bytes → Option (Val × Bytes)
  | 0, bs => some (.nil, bs)
  | n + 1, bs => match f bs with
    | none => none
    | some (one, b1) => match decodeIts f n b1 with
      | none => none
      | some (more, b2) => some (.cons one more, b2)

/-- the reader: the restart constructor; loop counts are evaluated from what was read so far -/
def decode : Sch → Env → Bytes → Option (Val × Bytes)
  | .done, _, bs => some (.done, bs)
  | .prim p rest, env, bs => match decodePV p bs with
    | none => none
    | some (v, b1) => match decode rest (env.push p v) b1 with
      | none => none
      | some (vr, b2) => some (.prim v vr, b2)
  | .rep c body rest, env, bs => match decodeIts (decode body env) (c.eval env) bs with
    | none => none
    | some (its, b1) => match decode rest env b1 with
      | none => none
      | some (vr, b2) => some (.rep its vr, b2)

def confIts (f : Val → Bool) : Nat → Val → Bool
  | 0, .nil => true
  | n + 1, .cons one more => f one && confIts f n more
  | _, _ => false

/-- `v` is a state the writer can be in: shapes follow the schema, every item is a value of its C++
type, every data-dependent loop runs as often as ITS OWN count expression says -/
def conf : Sch → Env → Val → Bool
  | .done, _, .done => true
  | .prim p rest, env, .prim v vr => confPV p v && conf rest (env.push p v) vr
  | .rep c body rest, env, .rep its vr => confIts (conf body env) (c.eval env) its && conf rest env vr
  | _, _, _ => false

/-! ### the size log of `-DRESTARTWRITER_INFO` / `-DRESTARTREADER_INFO` -/

def infoStr : List String := ["8", "string"]

def infoPV : Prim → PV → List String
  | .int w, _ => [toString w]
  | .f64, _ => ["8"]
  | .bool, _ => ["1", "bool"]
  | .str, _ => infoStr
  | .raw w, _ => [toString w]
  | .smap, .smap m => "8" :: (m.foldr (fun _ acc => infoStr ++ infoStr ++ acc) ["map"])
  | .smap, _ => ["8", "map"]

def infoIts (f : Val → List String) : Val → List String
  | .cons one more => f one ++ infoIts f more
  | _ => []

def info : Sch → Val → List String
  | .prim p rest, .prim v vr => infoPV p v ++ info rest vr
  | .rep _ body rest, .rep its vr => infoIts (info body) its ++ info rest vr
  | _, _ => []

/-- number of primitive items in a value tree -/
def leaves : Val → Nat
  | .prim _ vr => 1 + leaves vr
  | .rep its vr => leaves its + leaves vr
  | .cons one more => leaves one + leaves more
  | _ => 0

/-! ### derived (not stored) fields -/

inductive DExpr where
  | lit (s : String)                       -- numeric literal or named constant, verbatim
  | field (name : String) (idx : Nat)      -- stored member (array element idx, 0 for scalars)
  | other (s : String)                     -- anything that is not a stored member (constructor argument …)
  | neg (a : DExpr)
  | add (a b : DExpr)
  | sub (a b : DExpr)
  | mul (a b : DExpr)
  | div (a b : DExpr)
deriving DecidableEq, Repr

/-- evaluation under ANY interpretation of the operations (IEEE doubles, reals, …) -/
def DExpr.eval {α : Type} (litv : String → α) (fld : String → Nat → α) (oth : String → α)
    (neg : α → α) (add sub mul div : α → α → α) : DExpr → α
  | .lit s => litv s
  | .field n i => fld n i
  | .other s => oth s
  | .neg a => neg (a.eval litv fld oth neg add sub mul div)
  | .add a b => add (a.eval litv fld oth neg add sub mul div) (b.eval litv fld oth neg add sub mul div)
  | .sub a b => sub (a.eval litv fld oth neg add sub mul div) (b.eval litv fld oth neg add sub mul div)
  | .mul a b => mul (a.eval litv fld oth neg add sub mul div) (b.eval litv fld oth neg add sub mul div)
  | .div a b => div (a.eval litv fld oth neg add sub mul div) (b.eval litv fld oth neg add sub mul div)

def DExpr.storedOnly : DExpr → Bool
  | .lit _ => true
  | .field _ _ => true
  | .other _ => false
  | .neg a => a.storedOnly
  | .add a b => a.storedOnly && b.storedOnly
  | .sub a b => a.storedOnly && b.storedOnly
  | .mul a b => a.storedOnly && b.storedOnly
  | .div a b => a.storedOnly && b.storedOnly

/-- an assignment `a[ci*i + cj*j + c0] = value` inside `for i < ni·n  for j < nj` (limiter resets) -/
structure AffAssign where
  ci : Nat
  cj : Nat
  c0 : Nat
  ni : Nat      -- the i loop runs to ni * (number of cells)
  nj : Nat      -- the j loop runs to nj (1 = no inner loop)
  value : DExpr
deriving DecidableEq, Repr

/-! ### transient fields of a hydro subgrid: hand model of the sweeps of one step

`_primitive_variable_limiters` (10 doubles per cell) is the only per-cell array a hydro step uses that
is not in the restart file.  `DMAX` stands for `DBL_MAX`. -/

inductive Lim where
  | pmax      -- +DBL_MAX  (even index: running minimum starts at +max)
  | nmax      -- -DBL_MAX
  | val (bits : Nat)
deriving DecidableEq, Repr

/-- the array after the loop of the restart constructor / of the constructor:
`for i < 5n: a[2i] = DBL_MAX; a[2i+1] = -DBL_MAX` -/
def limCtor (idx : Nat) : Lim := if idx % 2 = 0 then .pmax else .nmax

/-- one cell's reset inside `update_conserved_variables`: `for j < 5: a[10i+2j] = DBL_MAX; a[10i+2j+1] = -DBL_MAX` -/
def resetCell (a : Nat → Lim) (i : Nat) : Nat → Lim := fun idx =>
  if 10 * i ≤ idx ∧ idx < 10 * i + 10 then (if (idx - 10 * i) % 2 = 0 then .pmax else .nmax) else a idx

def resetCells (a : Nat → Lim) : Nat → (Nat → Lim)
  | 0 => a
  | n + 1 => resetCell (resetCells a n) n

/-- the operations of one hydro step that touch the limiter array of a subgrid with `n` cells -/
inductive LimOp where
  | gradientSweep (f : Nat → Lim)     -- internal / neighbour gradient sweeps: arbitrary new contents
  | slopeLimit                        -- reads only
  | predict                           -- reads nothing of it
  | fluxSweep                         -- does not touch it
  | updateConserved                   -- resets all n cells
  | updatePrimitives                  -- does not touch it

def limStep (n : Nat) (a : Nat → Lim) : LimOp → (Nat → Lim)
  | .gradientSweep f => f
  | .updateConserved => resetCells a n
  | _ => a

def limRun (n : Nat) (a : Nat → Lim) (ops : List LimOp) : Nat → Lim := ops.foldl (limStep n) a

def isGradient : LimOp → Bool
  | .gradientSweep _ => true
  | _ => false

/-! ### classification of the data members (generated table `Gen.RestartSchemas.members`) -/

inductive MKind where
  | stored          -- written by write_restart_file, assigned from the reader
  | storedVia       -- written through an expression of the member, re-created from it
  | storedDerived   -- array: some elements written, the others assigned an expression of written ones
  | derived         -- the restart constructor assigns an expression of stored members / a literal
  | transient       -- fixed value at every dump point / set before every use
  | rebuilt         -- built from the stored parameter file / the command line by the same code on both paths
  | excluded        -- excluded by the property statement (wall-clock, re-seeded photon stream) or pure diagnostics
  | alias           -- other name of stored members
  | unclassified    -- may be lost by a restart
deriving DecidableEq, Repr

structure Member where
  cls : String
  name : String
  kind : MKind
deriving DecidableEq, Repr

/-- the restart file determines the member -/
def MKind.fromDump : MKind → Bool
  | .stored | .storedVia | .storedDerived | .alias => true
  | _ => false

/-- the restart constructor / the common construction code gives the member a fixed value -/
def MKind.fixed : MKind → Bool
  | .transient | .rebuilt => true
  | _ => false

/-- the restart claims to reproduce the member -/
def MKind.claimed : MKind → Bool
  | .excluded | .unclassified => false
  | _ => true

/-- a process state = value of every member (members are numbered by their position in the table) -/
abbrev MState (α : Type) := Nat → α

/-- what is in the dump: the members the file determines (everything else blanked) -/
def dumpView {α : Type} (kind : Nat → MKind) (blank : α) (s : MState α) : MState α :=
  fun m => if (kind m).fromDump then s m else blank

/-- the state the restart path builds from a dump: stored members from the file, derived ones by their
expression `D m` of the dump, all others the value `T0 m` the constructors give them -/
def restoreView {α : Type} (kind : Nat → MKind) (D : Nat → MState α → α) (T0 : MState α) (dump : MState α) : MState α :=
  fun m => match kind m with
    | .derived => D m dump
    | k => if k.fromDump then dump m else T0 m

/-! ### abstract stop / restart model -/

/-- state of a run = what is in the dump, what a constructor derives from it, what is neither -/
structure Sim (σ δ τ : Type) where
  stored : σ
  derived : δ
  transient : τ

/-- `n` steps of a deterministic step function -/
def run {S : Type} (step : S → S) : Nat → S → S
  | 0, s => s
  | n + 1, s => run step n (step s)

end CMacVerif.RestartCodec
