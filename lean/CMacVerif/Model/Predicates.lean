import CMacVerif.Arith
/-!
Model of `src/ExactGeometricTests.hpp` (exact and adaptive `orient3d` / `insphere`), in code
order.  Core Lean only.

* `mantissa` = `get_mantissa`: the low 52 bits of the IEEE-754 bit pattern (the bit field
  `parts.mantissa : 52`); exponent and sign are ignored by the code and by the model.
* The exact routines are written ONCE, generic over the integer type `ι` (`Add`, `Sub`, `Mul`),
  statement by statement as in the C++.  They are instantiated at
  - `FW w` : sign-magnitude integers whose magnitude is truncated to `w` bits after every
    operation (Boost `cpp_int_backend<w, w, signed_magnitude, unchecked, void>`; `int256_t`
    is the case `w = 256`, `int_insphere` is `w = 278`) — this is what the driver runs and
    what the adaptive routines fall back to, and
  - `Int` : the unbounded integers the theorems talk about (`Props/C17.lean` proves that
    both instantiations agree for all mantissas: no intermediate overflows).
* The floating-point filters are written ONCE, generic over the arithmetic `α`
  (`CMacVerif/Arith.lean` scheme).  The driver instantiates `α := Float`; the theorems
  instantiate `α := Rnd fl` (real numbers with an arbitrary rounding function `fl` applied after
  every operation, `Lemmas/Predicates.lean`).  The fallback needs the mantissas of the very
  same coordinates: `mant : α → Int` (`Float`: low 52 bits of the pattern).
-/
namespace CMacVerif.Predicates

/-- a `CoordinateVector<>` -/
structure V3 (α : Type) where
  x : α
  y : α
  z : α

def V3.map {α β : Type} (f : α → β) (p : V3 α) : V3 β := ⟨f p.x, f p.y, f p.z⟩

/-- `get_mantissa`: bit field `mantissa : 52` of the 64-bit pattern -/
def mantissa (bits : Nat) : Int := Int.ofNat (bits % 2 ^ 52)

/-- the `if (result > 0) 1 else if (result < 0) -1 else 0` tail of both exact routines -/
def sgn (r : Int) : Int := if 0 < r then 1 else if r < 0 then -1 else 0

/-! ### fixed-width sign-magnitude integers (Boost `cpp_int`, unchecked) -/

/-- magnitude truncated to `w` bits, sign kept -/
def wrapSM (w : Nat) (x : Int) : Int :=
  if x < 0 then -((-x) % (2 : Int) ^ w) else x % (2 : Int) ^ w

structure FW (w : Nat) where
  v : Int

namespace FW
variable {w : Nat}
def ofInt (w : Nat) (x : Int) : FW w := ⟨wrapSM w x⟩
instance : Add (FW w) := ⟨fun a b => ⟨wrapSM w (a.v + b.v)⟩⟩
instance : Sub (FW w) := ⟨fun a b => ⟨wrapSM w (a.v - b.v)⟩⟩
instance : Mul (FW w) := ⟨fun a b => ⟨wrapSM w (a.v * b.v)⟩⟩
end FW

/-- widths of `int_orient3d` (= `int256_t`) and `int_insphere` in the source -/
def orientBits : Nat := 256
def insphereBits : Nat := 278

/-! ### exact routines (generic integer type) -/
section Exact
variable {ι : Type} [Add ι] [Sub ι] [Mul ι]

/-- `orient3d_exact`, lines 133-182: the value `result` (arguments are the mantissas) -/
def orientExactVal (a b c d : V3 ι) : ι :=
  let adx := a.x - d.x
  let ady := a.y - d.y
  let adz := a.z - d.z
  let bdx := b.x - d.x
  let bdy := b.y - d.y
  let bdz := b.z - d.z
  let cdx := c.x - d.x
  let cdy := c.y - d.y
  let cdz := c.z - d.z
  let bdxcdy := bdx * cdy
  let cdxbdy := cdx * bdy
  let cdxady := cdx * ady
  let adxcdy := adx * cdy
  let adxbdy := adx * bdy
  let bdxady := bdx * ady
  adz * (bdxcdy - cdxbdy) + bdz * (cdxady - adxcdy) + cdz * (adxbdy - bdxady)

/-- `p.x * q.y - q.x * p.y` (the six 2x2 minors `ab, bc, cd, da, ac, bd` of `insphere_exact`) -/
def minor2 (p q : V3 ι) : ι := p.x * q.y - q.x * p.y

/-- `pex * pex + pey * pey + pez * pez` -/
def nrm2 (p : V3 ι) : ι := p.x * p.x + p.y * p.y + p.z * p.z

/-- the twelve differences, six 2x2 minors, four 3x3 minors and four squared norms of
`insphere_exact` (lines 302-340) -/
structure InsphereParts (ι : Type) where
  abc : ι
  bcd : ι
  cda : ι
  dab : ι
  aenrm2 : ι
  benrm2 : ι
  cenrm2 : ι
  denrm2 : ι

def insphereParts (ae be ce de : V3 ι) : InsphereParts ι :=
  let ab := minor2 ae be
  let bc := minor2 be ce
  let cd := minor2 ce de
  let da := minor2 de ae
  let ac := minor2 ae ce
  let bd := minor2 be de
  { abc := ae.z * bc - be.z * ac + ce.z * ab
    bcd := be.z * cd - ce.z * bd + de.z * bc
    cda := ce.z * da + de.z * ac + ae.z * cd
    dab := de.z * ab + ae.z * bd + be.z * da
    aenrm2 := nrm2 ae
    benrm2 := nrm2 be
    cenrm2 := nrm2 ce
    denrm2 := nrm2 de }

/-- `denrm2 * abc - cenrm2 * dab + benrm2 * cda - aenrm2 * bcd` (line 344) -/
def insphereCombine (p : InsphereParts ι) : ι :=
  p.denrm2 * p.abc - p.cenrm2 * p.dab + p.benrm2 * p.cda - p.aenrm2 * p.bcd

def vsub (p q : V3 ι) : V3 ι := ⟨p.x - q.x, p.y - q.y, p.z - q.z⟩

/-- `insphere_exact`, lines 280-345: the value `result` -/
def insphereExactVal (a b c d e : V3 ι) : ι :=
  insphereCombine (insphereParts (vsub a e) (vsub b e) (vsub c e) (vsub d e))

end Exact

/-- conversion `uint64_t` mantissa → fixed-width integer -/
def toFW (w : Nat) (p : V3 Int) : V3 (FW w) := p.map (FW.ofInt w)

/-- `orient3d_exact` on the mantissas, 256-bit arithmetic -/
def orient3dExact (a b c d : V3 Int) : Int :=
  sgn (orientExactVal (toFW orientBits a) (toFW orientBits b) (toFW orientBits c)
    (toFW orientBits d)).v

/-- `insphere_exact` on the mantissas, 278-bit arithmetic -/
def insphereExact (a b c d e : V3 Int) : Int :=
  sgn (insphereExactVal (toFW insphereBits a) (toFW insphereBits b) (toFW insphereBits c)
    (toFW insphereBits d) (toFW insphereBits e)).v

/-! ### floating-point filters (generic arithmetic) -/
section Filter
variable {α : Type} [Add α] [Sub α] [Mul α] [Neg α] [LT α] [DecidableLT α] [OfScientific α]
  [ArithFns α]

/-- what the floating-point part of an adaptive routine computes -/
structure FiltOut (α : Type) where
  result : α
  errbound : α

/-- the three-way decision at the end of both adaptive routines; `0` = undecided (fall back) -/
def filterSign (f : FiltOut α) : Int :=
  if f.result < -f.errbound then -1 else if f.errbound < f.result then 1 else 0

/-- `orient3d_adaptive` after the three vector differences (lines 230-246) -/
def orientCore (ad bd cd : V3 α) : FiltOut α :=
  let bdxcdy := bd.x * cd.y
  let cdxbdy := cd.x * bd.y
  let cdxady := cd.x * ad.y
  let adxcdy := ad.x * cd.y
  let adxbdy := ad.x * bd.y
  let bdxady := bd.x * ad.y
  let errbound :=
    1.0e-10 * ((ArithFns.abs bdxcdy + ArithFns.abs cdxbdy) * ArithFns.abs ad.z +
               (ArithFns.abs cdxady + ArithFns.abs adxcdy) * ArithFns.abs bd.z +
               (ArithFns.abs adxbdy + ArithFns.abs bdxady) * ArithFns.abs cd.z)
  let result := ad.z * (bdxcdy - cdxbdy) + bd.z * (cdxady - adxcdy) + cd.z * (adxbdy - bdxady)
  ⟨result, errbound⟩

/-- floating-point part of `orient3d_adaptive` (lines 226-246) -/
def orientFilter (a b c d : V3 α) : FiltOut α :=
  orientCore (vsub a d) (vsub b d) (vsub c d)

/-- `orient3d_adaptive` -/
def orient3dAdaptive (mant : α → Int) (a b c d : V3 α) : Int :=
  let s := filterSign (orientFilter a b c d)
  if s = 0 then orient3dExact (a.map mant) (b.map mant) (c.map mant) (d.map mant) else s

/-- the two products and their difference: `pxqy = p.x*q.y; qxpy = q.x*p.y; pq = pxqy - qxpy`
(lines 393-410, six times) -/
structure Prod2 (α : Type) where
  pq : α
  qp : α
  det : α

def prod2 (p q : V3 α) : Prod2 α :=
  let pq := p.x * q.y
  let qp := q.x * p.y
  ⟨pq, qp, pq - qp⟩

/-- `(|m.pq| + |m.qp|) * |z|`, one term of the in-sphere error bound -/
def ebTerm (first second z : α) : α :=
  (ArithFns.abs first + ArithFns.abs second) * ArithFns.abs z

/-- `insphere_adaptive` after the four vector differences (lines 393-456) -/
def insphereCore (ae be ce de : V3 α) : FiltOut α :=
  let ab := prod2 ae be      -- aexbey, bexaey
  let bc := prod2 be ce      -- bexcey, cexbey
  let cd := prod2 ce de      -- cexdey, dexcey
  let da := prod2 de ae      -- dexaey, aexdey
  let ac := prod2 ae ce      -- aexcey, cexaey
  let bd := prod2 be de      -- bexdey, dexbey
  let abc := ae.z * bc.det - be.z * ac.det + ce.z * ab.det
  let bcd := be.z * cd.det - ce.z * bd.det + de.z * bc.det
  let cda := ce.z * da.det + de.z * ac.det + ae.z * cd.det
  let dab := de.z * ab.det + ae.z * bd.det + be.z * da.det
  let aenrm2 := nrm2 ae
  let benrm2 := nrm2 be
  let cenrm2 := nrm2 ce
  let denrm2 := nrm2 de
  let errbound :=
    1.0e-10 * ((ebTerm cd.pq cd.qp be.z + ebTerm bd.qp bd.pq ce.z + ebTerm bc.pq bc.qp de.z) * aenrm2 +
               (ebTerm da.pq da.qp ce.z + ebTerm ac.pq ac.qp de.z + ebTerm cd.pq cd.qp ae.z) * benrm2 +
               (ebTerm ab.pq ab.qp de.z + ebTerm bd.pq bd.qp ae.z + ebTerm da.pq da.qp be.z) * cenrm2 +
               (ebTerm bc.pq bc.qp ae.z + ebTerm ac.qp ac.pq be.z + ebTerm ab.pq ab.qp ce.z) * denrm2)
  let result := (denrm2 * abc - cenrm2 * dab) + (benrm2 * cda - aenrm2 * bcd)
  ⟨result, errbound⟩

/-- floating-point part of `insphere_adaptive` (lines 388-456) -/
def insphereFilter (a b c d e : V3 α) : FiltOut α :=
  insphereCore (vsub a e) (vsub b e) (vsub c e) (vsub d e)

/-- `insphere_adaptive` -/
def insphereAdaptive (mant : α → Int) (a b c d e : V3 α) : Int :=
  let s := filterSign (insphereFilter a b c d e)
  if s = 0 then
    insphereExact (a.map mant) (b.map mant) (c.map mant) (d.map mant) (e.map mant)
  else s

end Filter

/-! ### rescaling of the simulation box into [1,2) (`NewVoronoiBox` constructor and
`NewVoronoiGrid` constructor, `NewVoronoiGrid.cpp:136-200`) -/
section Rescale
variable {α : Type} [Add α] [Sub α] [Mul α] [Div α] [LT α] [DecidableLT α] [OfScientific α]

/-- the four vertices of the large all-encompassing tetrahedron (`NewVoronoiBox(box)`) -/
structure Tetra (α : Type) where
  v0 : V3 α
  v1 : V3 α
  v2 : V3 α
  v3 : V3 α

/-- `NewVoronoiBox::NewVoronoiBox(const Box<> box)` -/
def boxTetra (anchor sides : V3 α) : Tetra α :=
  let maxSide := amax (amax sides.x sides.y) sides.z
  { v0 := ⟨anchor.x - sides.x, anchor.y - sides.y, anchor.z - sides.z⟩
    v1 := ⟨anchor.x - sides.x + 9.0 * maxSide, anchor.y - sides.y, anchor.z - sides.z⟩
    v2 := ⟨anchor.x - sides.x, anchor.y - sides.y + 9.0 * maxSide, anchor.z - sides.z⟩
    v3 := ⟨anchor.x - sides.x, anchor.y - sides.y, anchor.z - sides.z + 9.0 * maxSide⟩ }

/-- `max_anchor -= min_anchor; max_anchor *= (1. + 4. * DBL_EPSILON)`: the padded extent of
EACH axis is the one of that axis (`k` = the constant `1 + 4 DBL_EPSILON`) -/
def paddedExtent (k : α) (t : Tetra α) : V3 α :=
  ⟨(t.v1.x - t.v0.x) * k, (t.v2.y - t.v0.y) * k, (t.v3.z - t.v0.z) * k⟩

/-- `1. + (x - min_anchor) / max_anchor`, one coordinate -/
def rescale1 (x mn ext : α) : α := 1.0 + (x - mn) / ext

/-- the same for a point, every axis with its own minimum and extent -/
def rescaleP (p mn ext : V3 α) : V3 α :=
  ⟨rescale1 p.x mn.x ext.x, rescale1 p.y mn.y ext.y, rescale1 p.z mn.z ext.z⟩

/-- what the `NewVoronoiGrid` constructor stores: rescaled box (bottom, top corner) and the
rescaled tetrahedron -/
structure Rescaled (α : Type) where
  bottom : V3 α
  top : V3 α
  tet : Tetra α
  mn : V3 α
  ext : V3 α

def rescaleBox (k : α) (anchor sides : V3 α) : Rescaled α :=
  let t := boxTetra anchor sides
  let mn := t.v0
  let ext := paddedExtent k t
  { bottom := rescaleP anchor mn ext
    top := rescaleP ⟨anchor.x + sides.x, anchor.y + sides.y, anchor.z + sides.z⟩ mn ext
    tet := ⟨rescaleP t.v0 mn ext, rescaleP t.v1 mn ext, rescaleP t.v2 mn ext, rescaleP t.v3 mn ext⟩
    mn := mn
    ext := ext }

/-- `NewVoronoiBox::get_wall_copy`: mirror image of a generator with respect to one of the six
walls of the box (`wall` = 0..5 for LEFT, RIGHT, FRONT, BACK, BOTTOM, TOP), lines 46-90 -/
def wallCopy (wall : Nat) (anchor sides p : V3 α) : V3 α :=
  match wall with
  | 0 => ⟨2.0 * anchor.x - p.x, p.y, p.z⟩
  | 1 => ⟨2.0 * (anchor.x + sides.x) - p.x, p.y, p.z⟩
  | 2 => ⟨p.x, 2.0 * anchor.y - p.y, p.z⟩
  | 3 => ⟨p.x, 2.0 * (anchor.y + sides.y) - p.y, p.z⟩
  | 4 => ⟨p.x, p.y, 2.0 * anchor.z - p.z⟩
  | _ => ⟨p.x, p.y, 2.0 * (anchor.z + sides.z) - p.z⟩

/-- the box the rescaled `NewVoronoiBox` is constructed with: anchor `bottom`, sides `top - bottom` -/
def rescaledSides (r : Rescaled α) : V3 α :=
  ⟨r.top.x - r.bottom.x, r.top.y - r.bottom.y, r.top.z - r.bottom.z⟩

end Rescale

end CMacVerif.Predicates
