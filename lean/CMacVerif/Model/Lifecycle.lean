/-
Model of the life cycle of the *owned pointer fields* of a C++ class (or of the pointer locals
of one long function): what the constructor does to them as a function of the Boolean options,
and what the destructor does afterwards.

A class is described by a small statement language (`Stmt`) that mirrors the C++ control flow
around the pointer fields; the descriptions of the real classes (`LiveOutputManager`,
`TrackerManager`, `TaskBasedIonizationSimulation`, the locals of
`TaskBasedRadiationHydrodynamicsSimulation::do_simulation`) are *generated* from /repo's
sources on every run (`CMacVerif/Gen/Lifecycle.lean`, tools/gen_c12_lifecycle.py).

Concrete semantics (`exec`): every field starts `uninit` (the harness poisons the storage with
0xAA, which is a non-null value, hence `uninit` tests as non-null); `new` gives the field a
fresh allocation number; `delete` of a null pointer does nothing (C++), of an owned pointer
frees it, of an already freed pointer frees the same allocation again (`dfree`), of an
uninitialised pointer frees garbage (`wild`).  Everything observable is appended to a log.

Abstract semantics (`aexecF`): a per-field analysis over the set of possible states, joining
both branches of every `if` on an option whose value is not fixed.  `wf` is the decidable
well-formedness condition: for every field, the analysis of `ctor; dtor` finds no possible bad
event, no lost allocation and no allocation alive at the end.  Soundness of the analysis
(`CMacVerif/Props/C12.lean`) turns `wf d = true` (checked by `decide` on the generated
descriptions) into a statement about *all* option vectors.

A `std::vector< T * >` field whose elements are all treated alike (resize, one `new` per element
in a loop over the whole vector, one `delete` per element in a loop over the whole vector) is
described as one field standing for a representative element.

Core Lean only.
-/
namespace CMacVerif.Lifecycle

inductive PState where
  | uninit
  | null
  | owned (k : Nat)
  | freed (k : Nat)
deriving DecidableEq, Repr

def PState.isOwned : PState → Bool
  | .owned _ => true
  | _ => false

def PState.isUninit : PState → Bool
  | .uninit => true
  | _ => false

inductive Cond where
  | opt (o : Nat)        -- a Boolean option / a fact about the environment, number `o`
  | nonNull (f : Nat)    -- `if (f)`, `f != nullptr`
  | isNull (f : Nat)     -- `if (!f)`, `f == nullptr`
deriving DecidableEq, Repr

inductive Stmt where
  | skip
  | setNull (f : Nat)    -- `f(nullptr)`, `f = nullptr;`, `T *f = nullptr;`, empty vector
  | setNew (f : Nat)     -- `f = new T(..);`
  | del (f : Nat)        -- `delete f;`
  | use (f : Nat)        -- `f->..`, `*f`
  | seq (a b : Stmt)
  | ite (c : Cond) (t e : Stmt)
deriving DecidableEq, Repr

inductive Event where
  | alloc (f k : Nat)
  | free (f k : Nat)          -- delete of a live allocation
  | delNull (f : Nat)         -- delete of a null pointer: no effect
  | dfree (f k : Nat)         -- BAD: allocation k freed again
  | wild (f : Nat)            -- BAD: uninitialised pointer read (tested, used or deleted)
  | nullUse (f : Nat)         -- NULL: null pointer dereferenced (a missing component is used)
  | danglingUse (f k : Nat)   -- BAD: freed pointer dereferenced
  | lost (f k : Nat)          -- LEAK: pointer overwritten while it owned allocation k
deriving DecidableEq, Repr

def Event.field : Event → Nat
  | .alloc f _ | .free f _ | .delNull f | .dfree f _ | .wild f | .nullUse f
  | .danglingUse f _ | .lost f _ => f

/-- invalid memory operation: double free, read of an uninitialised pointer, use after free -/
def Event.isBad : Event → Bool
  | .dfree _ _ | .wild _ | .danglingUse _ _ => true
  | _ => false

def Event.isNullUse : Event → Bool
  | .nullUse _ => true
  | _ => false

def Event.isLost : Event → Bool
  | .lost _ _ => true
  | _ => false

structure St where
  ptr : Nat → PState
  next : Nat
  log : List Event

def St.init : St := ⟨fun _ => .uninit, 0, []⟩

def St.logE (s : St) (e : Event) : St := { s with log := s.log ++ [e] }
def St.setPtr (s : St) (f : Nat) (p : PState) : St :=
  { s with ptr := fun g => if g = f then p else s.ptr g }

/-- events of overwriting field `f` (an owned pointer that is overwritten is lost) -/
def St.overwrite (s : St) (f : Nat) : St :=
  match s.ptr f with
  | .owned k => s.logE (.lost f k)
  | _ => s

abbrev Env := Nat → Bool

/-- evaluation of a condition; reading an uninitialised pointer is logged, the poison value is
non-null -/
def evalCond (env : Env) (c : Cond) (s : St) : St × Bool :=
  match c with
  | .opt o => (s, env o)
  | .nonNull f =>
    match s.ptr f with
    | .uninit => (s.logE (.wild f), true)
    | .null => (s, false)
    | _ => (s, true)
  | .isNull f =>
    match s.ptr f with
    | .uninit => (s.logE (.wild f), false)
    | .null => (s, true)
    | _ => (s, false)

def exec (env : Env) : Stmt → St → St
  | .skip, s => s
  | .setNull f, s => (s.overwrite f).setPtr f .null
  | .setNew f, s =>
    let s1 := s.overwrite f
    { (s1.setPtr f (.owned s1.next)) with next := s1.next + 1, log := s1.log ++ [.alloc f s1.next] }
  | .del f, s =>
    match s.ptr f with
    | .uninit => s.logE (.wild f)
    | .null => s.logE (.delNull f)
    | .owned k => (s.logE (.free f k)).setPtr f (.freed k)
    | .freed k => s.logE (.dfree f k)
  | .use f, s =>
    match s.ptr f with
    | .uninit => s.logE (.wild f)
    | .null => s.logE (.nullUse f)
    | .owned _ => s
    | .freed k => s.logE (.danglingUse f k)
  | .seq a b, s => exec env b (exec env a s)
  | .ite c t e, s =>
    let r := evalCond env c s
    if r.2 then exec env t r.1 else exec env e r.1

/-! ### the per-field analysis -/

/-- set of possible states of one field + "a bad event is possible" + "a lost allocation is
possible" + "a null dereference is possible" -/
structure AV where
  u : Bool
  n : Bool
  o : Bool
  fr : Bool
  bad : Bool
  leak : Bool
  nul : Bool
deriving DecidableEq, Repr

def AV.init : AV := ⟨true, false, false, false, false, false, false⟩
def AV.join (a b : AV) : AV :=
  ⟨a.u || b.u, a.n || b.n, a.o || b.o, a.fr || b.fr, a.bad || b.bad, a.leak || b.leak,
   a.nul || b.nul⟩
/-- no state is possible: this program point is unreachable (as far as this field can tell) -/
def AV.dead (a : AV) : Bool := !(a.u || a.n || a.o || a.fr)

def PState.kindIn (p : PState) (a : AV) : Bool :=
  match p with
  | .uninit => a.u
  | .null => a.n
  | .owned _ => a.o
  | .freed _ => a.fr

/-- what is known about the options (`none` = may be either) -/
abbrev Known := Nat → Option Bool

def Known.none : Known := fun _ => Option.none
def Known.ofList (l : List (Nat × Bool)) : Known := fun o =>
  match l.find? (fun p => p.1 == o) with
  | some p => some p.2
  | Option.none => Option.none

/-- the pointer test itself on field `f` (reads the pointer) -/
def AV.tested (a : AV) : AV := { a with bad := a.bad || a.u }
/-- branch where the pointer was found non-null (poison is non-null) -/
def AV.whenNonNull (a : AV) : AV := { a with n := false }
/-- branch where the pointer was found null -/
def AV.whenNull (a : AV) : AV := { a with u := false, o := false, fr := false }

def aexecF (known : Known) (f : Nat) : Stmt → AV → AV
  | .skip, a => a
  | .setNull g, a =>
    if g = f then (if a.dead then a else ⟨false, true, false, false, a.bad, a.leak || a.o, a.nul⟩) else a
  | .setNew g, a =>
    if g = f then (if a.dead then a else ⟨false, false, true, false, a.bad, a.leak || a.o, a.nul⟩) else a
  | .del g, a =>
    if g = f then (if a.dead then a else ⟨a.u, a.n, false, a.o || a.fr, a.bad || a.u || a.fr, a.leak, a.nul⟩)
    else a
  | .use g, a =>
    if g = f then (if a.dead then a else { a with bad := a.bad || a.u || a.fr, nul := a.nul || a.n }) else a
  | .seq x y, a => aexecF known f y (aexecF known f x a)
  | .ite c t e, a =>
    match c with
    | .opt o =>
      match known o with
      | some true => aexecF known f t a
      | some false => aexecF known f e a
      | Option.none => (aexecF known f t a).join (aexecF known f e a)
    | .nonNull g =>
      if g = f then
        (if a.dead then a else
          (aexecF known f t a.tested.whenNonNull).join (aexecF known f e a.tested.whenNull))
      else (aexecF known f t a).join (aexecF known f e a)
    | .isNull g =>
      if g = f then
        (if a.dead then a else
          (aexecF known f t a.tested.whenNull).join (aexecF known f e a.tested.whenNonNull))
      else (aexecF known f t a).join (aexecF known f e a)

/-- 1 + the largest field number mentioned -/
def Stmt.bound : Stmt → Nat
  | .skip => 0
  | .setNull f | .setNew f | .del f | .use f => f + 1
  | .seq a b => max a.bound b.bound
  | .ite (.opt _) t e => max t.bound e.bound
  | .ite (.nonNull f) t e | .ite (.isNull f) t e => max (f + 1) (max t.bound e.bound)

/-- field `f` of program `st`: no bad event possible; unless exempt, no allocation can be lost
or alive at the end -/
def checkField (known : Known) (exempt : Nat → Bool) (st : Stmt) (f : Nat) : Bool :=
  let a := aexecF known f st AV.init
  !a.bad && (exempt f || (!a.leak && !a.o))

/-- **the decidable well-formedness condition** -/
def wf (known : Known) (exempt : Nat → Bool) (st : Stmt) : Bool :=
  (List.range st.bound).all (checkField known exempt st)

/-- no null pointer can be dereferenced (given what is known about the options) -/
def wfNull (known : Known) (st : Stmt) : Bool :=
  (List.range st.bound).all (fun f => !(aexecF known f st AV.init).nul)

/-- after `st` (a constructor) none of the first `n` fields can still be uninitialised -/
def wfInit (known : Known) (st : Stmt) (n : Nat) : Bool :=
  (List.range n).all (fun f => let a := aexecF known f st AV.init; !a.bad && !a.u)

/-! ### class descriptions -/

structure ClassDesc where
  name : String
  fields : List String
  opts : List String
  ctor : Stmt
  dtor : Stmt
deriving Repr

def ClassDesc.prog (d : ClassDesc) : Stmt := .seq d.ctor d.dtor
def ClassDesc.run (d : ClassDesc) (env : Env) : St := exec env d.prog St.init
def ClassDesc.afterCtor (d : ClassDesc) (env : Env) : St := exec env d.ctor St.init

def idxOf (l : List String) (x : String) : Nat :=
  match l with
  | [] => 0
  | y :: r => if y = x then 0 else idxOf r x + 1

/-- exemption list given by field names -/
def ClassDesc.exemptNames (d : ClassDesc) (names : List String) : Nat → Bool :=
  fun f => (names.map (idxOf d.fields)).contains f
/-- option assumptions given by option names -/
def ClassDesc.knownNames (d : ClassDesc) (l : List (String × Bool)) : Known :=
  Known.ofList (l.map (fun p => (idxOf d.opts p.1, p.2)))

def Stmt.ofList : List Stmt → Stmt
  | [] => .skip
  | [a] => a
  | a :: r => .seq a (Stmt.ofList r)

/-- every top-level `setNull f` of a statement sequence removed (a dropped initialiser) -/
def Stmt.dropInit (f : Nat) : Stmt → Stmt
  | .seq a b => .seq (a.dropInit f) (b.dropInit f)
  | .setNull g => if g = f then .skip else .setNull g
  | s => s

/-! ### what the safety statement says about a finished run -/

/-- no invalid memory operation on the owned pointers -/
def St.noBad (s : St) : Prop := ∀ e ∈ s.log, e.isBad = false
/-- nothing leaked, except through the fields in `exempt` -/
def St.noLeak (s : St) (exempt : Nat → Bool) : Prop :=
  (∀ e ∈ s.log, exempt e.field = false → e.isLost = false) ∧
  (∀ f, exempt f = false → (s.ptr f).isOwned = false)

/-- no null pointer dereferenced -/
def St.noNullUse (s : St) : Prop := ∀ e ∈ s.log, e.isNullUse = false

def St.noBadB (s : St) : Bool := s.log.all (fun e => !e.isBad)
def St.noNullUseB (s : St) : Bool := s.log.all (fun e => !e.isNullUse)

end CMacVerif.Lifecycle
