/-
Model of the block traversal of the bucket grid of `PointLocations`
(src/PointLocations.hpp): `increase_indices` (294-320 = 592-618), `set_max_range`
(183-229 = 475-521), `is_inside` (330-341) and the skipping loop of `increase_range`
(349-363).  All quantities are `int_fast32_t` in the C++ and `Int` here (no value ever
exceeds the grid size, far below 2^31).  Core Lean only.
-/
namespace CMacVerif.Shells

/-- `(rx, ry, rz, level)` -/
structure Idx where
  rx : Int
  ry : Int
  rz : Int
  level : Int
deriving Repr, DecidableEq

/-- `std::abs` on `int_fast32_t` -/
def iabs (x : Int) : Int := if x < 0 then -x else x

/-- `increase_indices(rx, ry, rz, level)` statement by statement -/
def increaseIndices (s : Idx) : Idx :=
  if s.rz = s.level then
    -- rz = -level;
    if s.ry = s.level then
      -- ry = -level;
      if s.rx = s.level then
        -- ++level; rx = ry = rz = -level;
        ⟨-(s.level + 1), -(s.level + 1), -(s.level + 1), s.level + 1⟩
      else ⟨s.rx + 1, -s.level, -s.level, s.level⟩
    else ⟨s.rx, s.ry + 1, -s.level, s.level⟩
  else
    -- skip the combinations we already did on the previous level(s)
    if iabs s.rx < s.level ∧ iabs s.ry < s.level then ⟨s.rx, s.ry, s.level, s.level⟩
    else ⟨s.rx, s.ry, s.rz + 1, s.level⟩

/-- the iterator starts on the anchor block: `_range(0,0,0), _level(0)` -/
def start : Idx := ⟨0, 0, 0, 0⟩

/-- state after `n` calls of `increase_indices` -/
def iter : Nat → Idx
  | 0 => start
  | n + 1 => increaseIndices (iter n)

/-- `std::max` -/
def imax (a b : Int) : Int := if a < b then b else a

/-- the decision part of `set_max_range` (lines 212-228), on the values computed before -/
def maxRangeChoice (minrx minry minrz maxrx maxry maxrz maxlevx maxlevy maxlevz mlevel : Int) : Idx :=
  if -minrz > maxrz ∧ (maxlevz > maxlevx ∨ (maxlevz = maxlevx ∧ minrx = minrz))
      ∧ (maxlevz > maxlevy ∨ (maxlevz = maxlevy ∧ minry = minrz)) then
    ⟨maxrx, maxry, minrz, mlevel⟩
  else if -minry > maxry ∧ maxlevy > maxlevz
      ∧ (maxlevy > maxlevx ∨ (maxlevy = maxlevx ∧ minrx = minry)) then
    ⟨maxrx, minry, maxrz, mlevel⟩
  else if -minrx > maxrx ∧ maxlevx > maxlevy ∧ maxlevx > maxlevz then
    ⟨minrx, maxry, maxrz, mlevel⟩
  else ⟨maxrx, maxry, maxrz, mlevel⟩

/-- result of `set_max_range`: `(mx, my, mz, mlevel)` -/
def setMaxRange (ax ay az sx sy sz : Int) : Idx :=
  let minrx := -ax
  let minry := -ay
  let minrz := -az
  let maxrx := sx - ax - 1
  let maxry := sy - ay - 1
  let maxrz := sz - az - 1
  let maxlevx := imax (-minrx) maxrx
  let maxlevy := imax (-minry) maxry
  let maxlevz := imax (-minrz) maxrz
  let mlevel := imax (imax maxlevx maxlevy) maxlevz
  maxRangeChoice minrx minry minrz maxrx maxry maxrz maxlevx maxlevy maxlevz mlevel

/-- `is_inside(rx, ry, rz)` for anchor `a` and grid size `s` -/
def isInside (ax ay az sx sy sz : Int) (rx ry rz : Int) : Bool :=
  decide (ax + rx ≥ 0 ∧ ax + rx < sx ∧ ay + ry ≥ 0 ∧ ay + ry < sy ∧ az + rz ≥ 0 ∧ az + rz < sz)

/-- `increase_indices` once, then `while (!is_inside) increase_indices` (with fuel; the
theorem `skip_reaches_next` shows when the fuel suffices) -/
def skipOutside (ax ay az sx sy sz : Int) : Nat → Idx → Option Idx
  | 0, _ => none
  | fuel + 1, s =>
    if isInside ax ay az sx sy sz s.rx s.ry s.rz then some s
    else skipOutside ax ay az sx sy sz fuel (increaseIndices s)

/-- `increase_range()`: `none` = returned false (range = maxrange), otherwise the next block
inside the grid.  `fuelOut` = fuel ran out (cannot happen, see Props). -/
inductive RangeStep where
  | atEnd
  | next (s : Idx)
  | fuelOut
deriving Repr, DecidableEq

def increaseRange (ax ay az sx sy sz : Int) (mx : Idx) (fuel : Nat) (s : Idx) : RangeStep :=
  if s.rx = mx.rx ∧ s.ry = mx.ry ∧ s.rz = mx.rz then .atEnd
  else match skipOutside ax ay az sx sy sz fuel (increaseIndices s) with
    | some s' => .next s'
    | none => .fuelOut

end CMacVerif.Shells
