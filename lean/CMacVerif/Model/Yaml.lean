/-
Model of `YAMLDictionary` (src/YAMLDictionary.hpp): the line lexer (`is_comment_line`,
`is_empty_line`, `strip_comments_line`, `read_keyvaluepair`, `strip_whitespace_line`,
`is_indented_line`), the indentation-driven parser (constructor, lines 177-251) with its two
stacks `groupname` / `levels`, and the printer `print_contents` (lines 270-358) with its
`groupname` stack and the four loops exactly as written — including the loop
`for (j = i; j < groupname.size(); ++j) groupname.pop_back();` whose bound shrinks while it pops.

Strings are `List Char`; a `std::vector` is a `List` whose *last* element is `back()`
(`push_back x` = `· ++ [x]`, `pop_back`/`erase(end()-1)` = `dropLast`).  The `std::map` is a
list of pairs kept strictly sorted by `std::string::compare` order (`ltStr`), `operator[]=` is
`Dict.insert`.  Calls of `cmac_error` and undefined behaviour (`back()` / `erase` on an empty
vector) make the parser return `none`.

Core Lean only.
-/
namespace CMacVerif.Yaml

abbrev Str := List Char

/-! ## `std::string` order, `std::map<std::string,std::string>` -/

/-- `a.compare(b) < 0` (lexicographic on the character codes; a proper prefix is smaller) -/
def ltStr : Str → Str → Bool
  | [], [] => false
  | [], _ :: _ => true
  | _ :: _, [] => false
  | a :: as, b :: bs => if a = b then ltStr as bs else decide (a.toNat < b.toNat)

abbrev Dict := List (Str × Str)

/-- `_dictionary[k] = v` on the sorted list -/
def Dict.insert (k v : Str) : Dict → Dict
  | [] => [(k, v)]
  | (k', v') :: r =>
    if k = k' then (k, v) :: r
    else if ltStr k k' then (k, v) :: (k', v') :: r
    else (k', v') :: Dict.insert k v r

def Dict.find? (k : Str) : Dict → Option Str
  | [] => none
  | (k', v') :: r => if k = k' then some v' else Dict.find? k r

/-! ## lexer: one text line → token -/

/-- a line as the parser sees it: number of leading blanks, key, value (`[]` = no value, i.e.
a group header) -/
structure Line where
  indent : Nat
  key : Str
  value : Str
deriving DecidableEq, Repr

def isWs (c : Char) : Bool := c = ' ' || c = '\t'

/-- `is_comment_line` -/
def isCommentLine (l : Str) : Bool :=
  match l.dropWhile isWs with
  | [] => false
  | c :: _ => c = '#'

/-- `is_empty_line` -/
def isEmptyLine (l : Str) : Bool := (l.dropWhile isWs).isEmpty

/-- `strip_comments_line` -/
def stripComments (l : Str) : Str := l.takeWhile (fun c => c ≠ '#')

/-- `is_indented_line` -/
def indentOf (l : Str) : Nat :=
  if (l.dropWhile isWs).isEmpty then 0 else (l.takeWhile isWs).length

/-- `strip_whitespace_line` -/
def stripWs (l : Str) : Str := ((l.dropWhile isWs).reverse.dropWhile isWs).reverse

/-- `line.find(':')` and the two `substr` of `read_keyvaluepair` -/
def splitColon : Str → Option (Str × Str)
  | [] => none
  | c :: s =>
    if c = ':' then some ([], s)
    else match splitColon s with
      | none => none
      | some (k, v) => some (c :: k, v)

inductive Lexed where
  | skip            -- comment line or empty line
  | err             -- no ':' found (cmac_error)
  | line (l : Line)
deriving DecidableEq, Repr

def lexLine (raw : Str) : Lexed :=
  if !isCommentLine raw && !isEmptyLine raw then
    let l := stripComments raw
    match splitColon l with
    | none => .err
    | some (k, v) => .line ⟨indentOf l, stripWs k, stripWs v⟩
  else .skip

/-! ## parser -/

/-- `key = ""; for (g : groupname) key += g + ":"; key += name;` -/
def joinKey (gs : List Str) (name : Str) : Str := gs.foldr (fun g acc => g ++ ':' :: acc) name

structure PState where
  groupname : List Str := []
  levels : List Nat := []
  dict : Dict := []
deriving DecidableEq, Repr

/-- `while (indentation < levels.back()) { levels.erase(end-1); groupname.erase(end-1); }`;
`none` = `back()`/`erase` on an empty vector (undefined behaviour in the C++) -/
def popWhile (ind : Nat) (lv : List Nat) (gn : List Str) : Option (List Nat × List Str) :=
  match _h : lv.getLast? with
  | none => none
  | some b =>
    if ind < b then
      (if gn.isEmpty then none else popWhile ind lv.dropLast gn.dropLast)
    else some (lv, gn)
termination_by lv.length
decreasing_by
  cases lv with
  | nil => simp at _h
  | cons a l => simp [List.length_dropLast]

/-- `while (levels.size() > 0) { levels.erase(end-1); groupname.erase(end-1); }` -/
def clearBoth (lv : List Nat) (gn : List Str) : List Nat × List Str :=
  if _h : lv.length > 0 then clearBoth lv.dropLast gn.dropLast else (lv, gn)
termination_by lv.length
decreasing_by
  cases lv with
  | nil => simp at _h
  | cons a l => simp [List.length_dropLast]

/-- body of the `while (getline …)` loop for one non-comment, non-empty line -/
def parseLine (s : PState) (ln : Line) : Option PState :=
  if ln.indent > 0 then
    let r : Option (List Nat × List Str) :=
      match s.levels.getLast? with          -- `levels.size() > 0` ⇔ there is a `back()`
      | some b =>
        if ln.indent > b then some (s.levels ++ [ln.indent], s.groupname)
        else popWhile ln.indent s.levels s.groupname
      | none => some (s.levels ++ [ln.indent], s.groupname)
    match r with
    | none => none
    | some (lv, gn) =>
      if lv.length ≠ gn.length then none          -- "Line has a different indentation than expected"
      else if ln.value.isEmpty then some { groupname := gn ++ [ln.key], levels := lv, dict := s.dict }
      else some { groupname := gn, levels := lv, dict := s.dict.insert (joinKey gn ln.key) ln.value }
  else
    if s.groupname.length ≠ s.levels.length then none   -- "Wrong formatting!"
    else
      let (lv, gn) := clearBoth s.levels s.groupname
      if ln.value.isEmpty then some { groupname := gn ++ [ln.key], levels := lv, dict := s.dict }
      else some { groupname := gn, levels := lv, dict := s.dict.insert ln.key ln.value }

def parseLines (s : PState) : List Line → Option PState
  | [] => some s
  | l :: ls => match parseLine s l with
    | none => none
    | some s' => parseLines s' ls

/-- the constructor on tokens -/
def parse (ls : List Line) : Option Dict := (parseLines {} ls).map (·.dict)

/-- text lines → tokens (comment and empty lines dropped; `none` if a line has no ':') -/
def lexAll : List Str → Option (List Line)
  | [] => some []
  | raw :: rest =>
    match lexLine raw with
    | .skip => lexAll rest
    | .err => none
    | .line l => (lexAll rest).map (l :: ·)

/-- the constructor on text lines (as delivered by `getline`).  NB the C++ aborts at the first
bad line; the result `none` is the same whatever the order of detection. -/
def parseText (raw : List Str) : Option Dict :=
  match lexAll raw with
  | none => none
  | some ls => parse ls

/-! ## printer -/

/-- the `find(':')` loop of `print_contents`: (keygroups, `keyname.substr(spos)`) -/
def splitKey : Str → List Str × Str
  | [] => ([], [])
  | c :: s =>
    match splitKey s with
    | (gs, n) =>
      if c = ':' then ([] :: gs, n)
      else match gs with
        | [] => ([], c :: n)
        | g :: gs' => ((c :: g) :: gs', n)

/-- `i = 0; while (i < a.size() && a[i] == b[i]) ++i;` (with `b` at least as long as `a`; in
general: the length of the longest common prefix) -/
def lcp : List Str → List Str → Nat
  | a :: as, b :: bs => if a = b then lcp as bs + 1 else 0
  | _, _ => 0

/-- `for (size_t j = i; j < groupname.size(); ++j) groupname.pop_back();`
(the bound is re-evaluated: it shrinks while popping) -/
def popShrink (j : Nat) (g : List Str) : List Str :=
  if j < g.length then popShrink (j + 1) g.dropLast else g
termination_by g.length - j
decreasing_by
  simp only [List.length_dropLast]; omega

/-- `while (keygroups.size() < groupname.size()) groupname.erase(groupname.end() - 1);` -/
def truncTo (n : Nat) (g : List Str) : List Str :=
  if n < g.length then truncTo n g.dropLast else g
termination_by g.length
decreasing_by
  simp only [List.length_dropLast]; omega

/-- `for (size_t j = i; j < keygroups.size(); ++j) groupname.pop_back();` (fixed bound `n`) -/
def popFixed (j n : Nat) (g : List Str) : List Str :=
  if j < n then popFixed (j + 1) n g.dropLast else g
termination_by n - j

/-- `for (j = i; j < keygroups.size(); ++j) { groupname.push_back(keygroups[j]);
stream << indent << keygroups[j] << ":\n"; indent += "  "; }` over `ks = keygroups[i..]`:
(new stack, header lines, final indent) -/
def pushHeaders (indent : Nat) (g : List Str) : List Str → List Str × List Line × Nat
  | [] => (g, [], indent)
  | k :: ks =>
    match pushHeaders (indent + 2) (g ++ [k]) ks with
    | (g', ls, ind') => (g', ⟨indent, k, []⟩ :: ls, ind')

/-- one iteration of the loop over the map; `val` is the text printed after ": " -/
def printEntry (g : List Str) (key val : Str) : List Str × List Line :=
  match splitKey key with
  | (kg, name) =>
    if kg.length > g.length then
      let i := lcp g kg
      let g1 := popShrink i g
      match pushHeaders (2 * i) g1 (kg.drop i) with
      | (g2, hs, ind) => (g2, hs ++ [⟨ind, name, val⟩])
    else
      let g0 := truncTo kg.length g
      let i := lcp g0 kg
      let g1 := popFixed i kg.length g0
      match pushHeaders (2 * i) g1 (kg.drop i) with
      | (g2, hs, ind) => (g2, hs ++ [⟨ind, name, val⟩])

def printAll (g : List Str) : Dict → List Line
  | [] => []
  | (k, v) :: r =>
    match printEntry g k v with
    | (g', ls) => ls ++ printAll g' r

/-- `print_contents(stream, false)` as tokens -/
def print (d : Dict) : List Line := printAll [] d

/-- the text after ": " in `print_contents(stream, true)`:
`used_value << " # (" << it->second << ")"` -/
def valueNotUsed : Str := ['v', 'a', 'l', 'u', 'e', ' ', 'n', 'o', 't', ' ', 'u', 's', 'e', 'd']

/-- the value actually used for `k`, or "value not used" -/
def usedValue (used : Dict) (k : Str) : Str :=
  match used.find? k with
  | some u => u
  | none => valueNotUsed

def usedText (used : Dict) (k v : Str) : Str :=
  usedValue used k ++ ' ' :: '#' :: ' ' :: '(' :: (v ++ [')'])

/-- `print_contents(stream, true)` as tokens (value token = text up to the end of the line) -/
def printUsed (used d : Dict) : List Line := printAll [] (d.map fun kv => (kv.1, usedText used kv.1 kv.2))

/-- `stream << indent << name << ":\n"` resp. `stream << indent << name << ": " << value << "\n"`
(without the newline).  A header is a token without value; an entry with an *empty* value, which
the C++ would print as `name: ` with a trailing blank, cannot come out of the parser. -/
def renderLine (l : Line) : Str :=
  List.replicate l.indent ' ' ++ l.key ++ (if l.value.isEmpty then [':'] else ':' :: ' ' :: l.value)

def printText (d : Dict) : List Str := (print d).map renderLine
def printUsedText (used d : Dict) : List Str := (printUsed used d).map renderLine

end CMacVerif.Yaml
