import CMacVerif.Gen.TravelDirections
/-!
# Model of the subgrid layout bookkeeping (C03)

Mirrors, in code order, on `Nat`/`Int` only:

* `DensitySubGrid::get_output_direction` (src/DensitySubGrid.hpp ~699-727): the six comparisons, the
  mask, the (generated) mask table;
* `DensitySubGridCreator::get_grid_position`, `create_subgrid` (the 27-iteration neighbour loop with
  periodic wrap, ~314-396) and `get_neighbours` (~224-305);
* `DensitySubGridCreator::create_copies` / `update_copies` (~437-550): first loop (`_copies`,
  `_originals`), second loop (neighbours of the copies by level difference);
* `DensitySubGridCreator::update_original_counters` / `update_copy_properties` (~556-598): the index
  walk over `_originals`, and `iterator::get_copies` (~639-657).

The direction tables come from `CMacVerif/Gen/TravelDirections.lean`, which is regenerated from the
real headers on every run.  No Mathlib.
-/
namespace CMacVerif.SubgridLayout
open CMacVerif.Gen.TravelDirections

/-! ## accessors of the generated tables -/

def outToInDir (d : Nat) : Nat := outToIn.getD d 0
def offsetOf (d : Nat) : Int × Int × Int := offset.getD d (2, 2, 2)
/-- row index of the compatibility tables for a sign pattern in {-1,0,1}^3 -/
def signIndex (s : Int × Int × Int) : Nat := (9 * (s.1 + 1) + 3 * (s.2.1 + 1) + (s.2.2 + 1)).toNat
def compatOutAt (s d : Nat) : Bool := (compatOut.getD s []).getD d false
def compatInAt (s d : Nat) : Bool := (compatIn.getD s []).getD d false
def pinAt (d ax : Nat) : Nat := (pin.getD d []).getD ax 3
def idxClassAt (d ax : Nat) : Nat := (idxClass.getD d []).getD ax 3
def maskDir (mask : Nat) : Int := maskTable.getD mask (-1)
def exitDirAt (cls : Nat) : Int := exitDir.getD cls (-1)

/-- component of a triple -/
def comp (o : Int × Int × Int) (ax : Nat) : Int :=
  match ax with
  | 0 => o.1
  | 1 => o.2.1
  | _ => o.2.2

/-! ## `DensitySubGrid::get_output_direction` -/

def b2n (b : Bool) : Nat := if b then 1 else 0

/-- the 6-bit mask: `(x_high << 5) | (x_low << 4) | (y_high << 3) | (y_low << 2) | (z_high << 1) | z_low`
with `x_low = idx < 0`, `x_high = (idx / ncell) > 0` (C++ division truncates towards zero) -/
def maskOf (m : Nat × Nat × Nat) (idx : Int × Int × Int) : Nat :=
  let xLow := decide (idx.1 < 0)
  let xHigh := decide (Int.tdiv idx.1 m.1 > 0)
  let yLow := decide (idx.2.1 < 0)
  let yHigh := decide (Int.tdiv idx.2.1 m.2.1 > 0)
  let zLow := decide (idx.2.2 < 0)
  let zHigh := decide (Int.tdiv idx.2.2 m.2.2 > 0)
  32 * b2n xHigh + 16 * b2n xLow + 8 * b2n yHigh + 4 * b2n yLow + 2 * b2n zHigh + b2n zLow

/-- `DensitySubGrid::get_output_direction(three_index)`; `-1` = `cmac_error` -/
def outputDirection (m : Nat × Nat × Nat) (idx : Int × Int × Int) : Int := maskDir (maskOf m idx)

/-- mask of an offset in {-1,0,1}^3 (what `maskOf` gives for an index that far outside) -/
def maskOfOffset (o : Int × Int × Int) : Nat :=
  32 * b2n (decide (o.1 > 0)) + 16 * b2n (decide (o.1 < 0)) + 8 * b2n (decide (o.2.1 > 0))
    + 4 * b2n (decide (o.2.1 < 0)) + 2 * b2n (decide (o.2.2 > 0)) + b2n (decide (o.2.2 < 0))

/-- direction reached through the offset `o` -/
def dirOfOffset (o : Int × Int × Int) : Nat := (maskDir (maskOfOffset o)).toNat

/-! ## layout -/

structure Layout where
  /-- `_number_of_subgrids` -/
  nx : Nat
  ny : Nat
  nz : Nat
  /-- `_subgrid_number_of_cells` -/
  mx : Nat
  my : Nat
  mz : Nat
  /-- `_periodicity` -/
  px : Bool
  py : Bool
  pz : Bool
deriving Repr

/-- `number_of_original_subgrids()` -/
def Layout.size (L : Layout) : Nat := L.nx * L.ny * L.nz
def Layout.cells (L : Layout) : Nat × Nat × Nat := (L.mx, L.my, L.mz)

/-- `get_grid_position(index)` (same three statements open `create_subgrid`) -/
def gridPosition (L : Layout) (index : Nat) : Nat × Nat × Nat :=
  let ix := index / (L.ny * L.nz)
  let iy := (index - ix * L.ny * L.nz) / L.nz
  let iz := index - ix * L.ny * L.nz - iy * L.nz
  (ix, iy, iz)

/-- `cix * _number_of_subgrids[1] * _number_of_subgrids[2] + ciy * _number_of_subgrids[2] + ciz` -/
def indexOf (L : Layout) (x y z : Nat) : Nat := x * L.ny * L.nz + y * L.nz + z

/-- the periodic correction of one corrected index:
`if (periodic) { if (c < 0) c = n - 1; if (c >= n) c = 0; }` -/
def wrapAxis (p : Bool) (n : Nat) (c : Int) : Int :=
  if p then
    let c1 := if c < 0 then (n : Int) - 1 else c
    if c1 ≥ (n : Int) then 0 else c1
  else c

/-- one axis of the neighbour computation: corrected index if it points to a real subgrid -/
def axisStep (p : Bool) (n i : Nat) (a : Int) : Option Nat :=
  let w := wrapAxis p n ((i : Int) + a)
  if 0 ≤ w ∧ w < (n : Int) then some w.toNat else none

/-- the final test of the loop body (`if ((cix >= 0 && cix < n0) && (ciy …) && (ciz …))`) and the index of the
neighbour -/
def combine (L : Layout) : Option Nat → Option Nat → Option Nat → Option Nat
  | some x, some y, some z => some (indexOf L x y z)
  | _, _, _ => none

/-- body of the neighbour loop for the offset `(nix, niy, niz)`: index of the neighbouring subgrid, or
`none` when the corrected indices do not point to a real subgrid -/
def ngbAt (L : Layout) (index : Nat) (o : Int × Int × Int) : Option Nat :=
  let p := gridPosition L index
  combine L (axisStep L.px L.nx p.1 o.1) (axisStep L.py L.ny p.2.1 o.2.1) (axisStep L.pz L.nz p.2.2 o.2.2)

/-- the 27 offsets in the order of the three nested loops (`nix` outermost) -/
def loopOffsets : List (Int × Int × Int) :=
  [(-1 : Int), 0, 1].flatMap fun a => [(-1 : Int), 0, 1].flatMap fun b => [(-1 : Int), 0, 1].map fun c => (a, b, c)

/-- `create_subgrid(index)`: the `_ngbs` table (27 entries, `none` = `NEIGHBOUR_OUTSIDE`).  All entries
start as `NEIGHBOUR_OUTSIDE`; every loop iteration that finds a real subgrid stores it in the entry
`get_output_direction(nix*ncell_x, niy*ncell_y, niz*ncell_z)`. -/
def createSubgrid (L : Layout) (index : Nat) : List (Option Nat) :=
  loopOffsets.foldl (fun t o =>
      match ngbAt L index o with
      | some j => t.set (outputDirection L.cells (o.1 * L.mx, o.2.1 * L.my, o.2.2 * L.mz)).toNat (some j)
      | none => t)
    (List.replicate 27 none)

/-- `_subgrids[s]->get_neighbour(d)` after `create_subgrid` -/
def ngb (L : Layout) (s d : Nat) : Option Nat := (createSubgrid L s).getD d none

/-- `get_neighbours(index, neighbours)`: the (up to six) face neighbours in code order -/
def getNeighbours (L : Layout) (index : Nat) : List Nat :=
  let p := gridPosition L index
  let x := p.1; let y := p.2.1; let z := p.2.2
  let l : List Nat := []
  let l := if x > 0 then l ++ [(x - 1) * L.ny * L.nz + y * L.nz + z]
           else if L.px then l ++ [(L.nx - 1) * L.ny * L.nz + y * L.nz + z] else l
  let l := if x + 1 < L.nx then l ++ [(x + 1) * L.ny * L.nz + y * L.nz + z]
           else if L.px then l ++ [y * L.nz + z] else l
  let l := if y > 0 then l ++ [x * L.ny * L.nz + (y - 1) * L.nz + z]
           else if L.py then l ++ [x * L.ny * L.nz + (L.ny - 1) * L.nz + z] else l
  let l := if y + 1 < L.ny then l ++ [x * L.ny * L.nz + (y + 1) * L.nz + z]
           else if L.py then l ++ [x * L.ny * L.nz + z] else l
  let l := if z > 0 then l ++ [x * L.ny * L.nz + y * L.nz + z - 1]
           else if L.pz then l ++ [x * L.ny * L.nz + y * L.nz + L.nz - 1] else l
  let l := if z + 1 < L.nz then l ++ [x * L.ny * L.nz + y * L.nz + z + 1]
           else if L.pz then l ++ [x * L.ny * L.nz + y * L.nz] else l
  l

/-! ## copies -/

/-- `0xffffffff`: "no copies" in `_copies` -/
def noCopy : Nat := 4294967295

/-- `1 << level` -/
def nCopies (level : Nat) : Nat := 2 ^ level

/-- first loop of `create_copies`, the inner `for (j = 1; j < number_of_copies; ++j) push_back(…)`:
the list of everything pushed, `g i j` being what is pushed for copy `j` of subgrid `i`; `i` is the index
of the first subgrid of the (remaining) level list -/
def buildBlocks {β : Type} (g : Nat → Nat → β) : Nat → List Nat → List β
  | _, [] => []
  | i, l :: ls => (List.range' 1 (nCopies l - 1)).map (g i) ++ buildBlocks g (i + 1) ls

/-- `_originals` after the first loop (`_originals.push_back(i)`) -/
def buildOriginals (i : Nat) (levels : List Nat) : List Nat := buildBlocks (fun i _ => i) i levels

/-- first loop of `create_copies`, the `_copies[i] = _subgrids.size()` part: `size` is the current
`_subgrids.size()`, `prev` the previous content of `_copies` (all `0xffffffff` after the constructor;
`update_copies` does not reset it) -/
def buildCopies : Nat → List Nat → List Nat → List Nat
  | _, _, [] => []
  | size, prev, l :: ls =>
    (if nCopies l > 1 then size else prev.headD noCopy) :: buildCopies (size + (nCopies l - 1)) prev.tail ls

/-- entry `j` of the `_ngbs` table of copy number `k` (1 ≤ k < 2^level) of the original `i` — second
loop of `create_copies`.  `orig i j` is `_subgrids[i]->get_neighbour(j)`. -/
def copyEntry (levels copies : List Nat) (orig : Nat → Nat → Option Nat) (i k j : Nat) : Option Nat :=
  if j = 0 then some (copies.getD i 0 + k - 1)          -- self reference
  else
    match orig i j with
    | none => none                                       -- NEIGHBOUR_OUTSIDE for all copies
    | some t =>
      let level := levels.getD i 0
      let ngbLevel := levels.getD t 0
      if ngbLevel = level then
        some (copies.getD t 0 + k - 1)
      else if level > ngbLevel then
        let numberOfNgbCopies := 2 ^ (level - ngbLevel)
        let ngbIndex := k / numberOfNgbCopies
        if ngbIndex > 0 then some (copies.getD t 0 + ngbIndex - 1) else some t
      else
        let numberOfOwnCopies := 2 ^ (ngbLevel - level)
        some (copies.getD t 0 + (k - 1) * numberOfOwnCopies)

/-- state of the creator after `create_copies` / `update_copies` -/
structure Copies where
  /-- `_copies` -/
  copies : List Nat
  /-- `_originals` -/
  originals : List Nat
  /-- `_ngbs` of every subgrid: the originals, then the copies in creation order -/
  rows : List (List (Option Nat))

def copyRow (levels copies : List Nat) (orig : Nat → Nat → Option Nat) (i k : Nat) : List (Option Nat) :=
  (List.range 27).map (copyEntry levels copies orig i k)

/-- `create_copies(levels)` on a creator whose `_copies` currently holds `prev` -/
def createCopies (L : Layout) (prev levels : List Nat) : Copies :=
  let n := L.size
  let copies := buildCopies n prev levels
  let originals := buildOriginals 0 levels
  let origRows := (List.range n).map (createSubgrid L)
  let copyRows := buildBlocks (copyRow levels copies (ngb L)) 0 levels
  ⟨copies, originals, origRows ++ copyRows⟩

/-- `size_t` subtraction (wraps at 2^64) -/
def subWrap (a b : Nat) : Nat := if b ≤ a then a - b else a + 2 ^ 64 - b

/-- the `while (copy_index < _originals.size() && _originals[copy_index] == i) ++copy_index` walk:
the visited values of `copy_index` -/
def walk (originals : List Nat) (i start : Nat) : List Nat :=
  List.range' start ((originals.drop start).takeWhile (· == i)).length

/-- `update_original_counters()` (and `update_copy_properties()`, the same walk): the pairs
(original, subgrid index of the copy) on which `update_intensities` is called, in the order of a single
thread; `i0` = index of the first entry of the (remaining) `_copies` list -/
def foldVisitsFrom (n : Nat) (originals : List Nat) : Nat → List Nat → List (Nat × Nat)
  | _, [] => []
  | i, c :: cs =>
    (if c ≠ noCopy then (walk originals i (subWrap c n)).map (fun ci => (i, ci + n)) else [])
      ++ foldVisitsFrom n originals (i + 1) cs

def foldVisits (c : Copies) : List (Nat × Nat) := foldVisitsFrom c.copies.length c.originals 0 c.copies

/-- `iterator::get_copies()` of the original `i`: (first, beyond-last) subgrid index -/
def copyRange (c : Copies) (i : Nat) : Nat × Nat :=
  let n := c.copies.length
  let size := n + c.originals.length
  let first := c.copies.getD i 0
  if first = noCopy then (size, size)
  else if first < size then (first, first + (walk c.originals i (first - n)).length)
  else (first, first)

/-- original a subgrid index belongs to -/
def originalOf (c : Copies) (idx : Nat) : Nat :=
  if idx < c.copies.length then idx else c.originals.getD (idx - c.copies.length) 0

/-- member number `k` of the family of `t`: `k = 0` the original, `k ≥ 1` its k-th copy -/
def member (copies : List Nat) (t k : Nat) : Nat := if k = 0 then t else copies.getD t 0 + k - 1


/-! ## cell level: folding the counters of the copies, pushing the state to the copies

A subgrid is the list of its cells (local one-index order); `update_intensities` and
`update_neutral_fractions` (src/DensitySubGrid.hpp ~1059-1098) loop over
`tot_ncell = _number_of_cells[3] * _number_of_cells[0]` cells. -/

/-- `_number_of_cells[3] * _number_of_cells[0]` -/
def Layout.totNcell (L : Layout) : Nat := (L.my * L.mz) * L.mx

/-- `update_intensities(copy)`: `for (i < tot_ncell) cells[i] += copy.cells[i]` (cells beyond `tot_ncell` untouched) -/
def updateIntensities (L : Layout) (orig copy : List Nat) : List Nat :=
  (List.range orig.length).map fun i =>
    if i < L.totNcell then orig.getD i 0 + copy.getD i 0 else orig.getD i 0

/-- `update_original_counters()` on the cell counters of all subgrids: every visit of the fold walk adds the
copy's counters to its original's -/
def foldCells (L : Layout) (c : Copies) (cells : List (List Nat)) : List (List Nat) :=
  (foldVisits c).foldl (fun cs v => cs.set v.1 (updateIntensities L (cs.getD v.1 []) (cs.getD v.2 []))) cells

/-- `update_neutral_fractions(original)` on one state field of a copy: `for (i < tot_ncell) cells[i] = original.cells[i]` -/
def updateNeutralFractions (L : Layout) (copy orig : List Nat) : List Nat :=
  (List.range copy.length).map fun i => if i < L.totNcell then orig.getD i 0 else copy.getD i 0

/-- `update_copy_properties()`: the same walk, the state of the original is written into each copy -/
def pushCells (L : Layout) (c : Copies) (cells : List (List Nat)) : List (List Nat) :=
  (foldVisits c).foldl (fun cs v => cs.set v.2 (updateNeutralFractions L (cs.getD v.2 []) (cs.getD v.1 []))) cells

end CMacVerif.SubgridLayout
