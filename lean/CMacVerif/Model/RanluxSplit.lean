import CMacVerif.Model.Ranlux
/-
Model of the photon packet split in the `DistributedPhotonSource` constructor
(src/DistributedPhotonSource.hpp), the consumer of a locally constructed `RandomGenerator`.

Inputs: `N` packets; per source its quota `q = (size_t)(N * weight)` and the number `c ≥ 1` of
subgrid copies it is spread over; the leftover `N − Σ q` packets are handed out one by one to the
source number `idx i = (size_t)(u_i * number_of_sources)` where `u_0, u_1, …` are the draws of a
generator that is constructed INSIDE the constructor (`RandomGenerator random_generator;`, default
seed 42): the split is a function of (N, quotas, copies) only.
-/
namespace CMacVerif.Ranlux

/-- entries of one source with quota `q` over `c` copies: `q / c` each, the first `q % c` one more -/
def sourceEntries (q c : Nat) : List Nat :=
  (List.range c).map (fun i => q / c + if i < q % c then 1 else 0)

/-- the loop over the sources: `_total_number_of_photons` and the `overhead` index of every
source (`old_size + breakpoint`: the first copy that did not get an extra packet) -/
def splitBase : List (Nat × Nat) → List Nat → List Nat → List Nat × List Nat
  | [], tot, ov => (tot, ov)
  | (q, c) :: rest, tot, ov => splitBase rest (tot ++ sourceEntries q c) (ov ++ [tot.length + q % c])

/-- `++_total_number_of_photons[j]` -/
def bump (tot : List Nat) (j : Nat) : List Nat := tot.modify j (· + 1)

/-- the leftover loop: `for i < num_overhead: ++total[overhead[idx i]]` -/
def leftovers (ov : List Nat) (idx : Nat → Nat) : Nat → Nat → List Nat → List Nat
  | 0, _, tot => tot
  | n + 1, i, tot => leftovers ov idx n (i + 1) (bump tot (ov.getD (idx i) 0))

/-- the constructor's split; `idx i` is the source index computed from the `i`-th draw of a
FRESH default-seeded generator -/
def split (N : Nat) (src : List (Nat × Nat)) (idx : Nat → Nat) : List Nat :=
  let (tot, ov) := splitBase src [] []
  leftovers ov idx (N - (src.map Prod.fst).sum) 0 tot

/-- the seed of `RandomGenerator random_generator;` -/
def defaultSeed : Int := 42

end CMacVerif.Ranlux
