/-
Model of `RestartManager::get_restart_writer` (src/RestartManager.hpp) and of the file-system
operations one restart dump performs, in code order.

File system: total function from file names to optional content.  A content is the id `v` of
the dumped state plus a flag saying whether the write was completed (the file was closed).
The manager state is (`maxB`, `nb`, `nr`) = (`_maximum_number_of_backups`,
`_number_of_backups`, `_number_of_restarts`).

`start` is the start index of the shifting loop.  `startFixed` mirrors the current code
(`std::min(max - 1, nb)`); `startOld` mirrors the code before the "fix:" commit
(`std::min(max - 1, nb - 1)` on unsigned 64-bit integers), kept to state the defect.
-/
namespace CMacVerif.Rotation

inductive Name where
  | dump
  | back (i : Nat)
deriving DecidableEq, Repr

structure Content where
  v : Nat
  complete : Bool
deriving DecidableEq, Repr

abbrev FS := Name → Option Content

def FS.empty : FS := fun _ => none
def FS.set (fs : FS) (n : Name) (c : Option Content) : FS := fun m => if m = n then c else fs m

inductive Op where
  | rename (a b : Name)
  | openTrunc (f : Name)
  | write (f : Name) (v : Nat)     -- some bytes of state v written, file still open
  | close (f : Name) (v : Nat)     -- all bytes written, file closed
deriving DecidableEq, Repr

/-- one primitive operation; `none` = the code aborts (`cmac_error` on a failed rename) -/
def exec (fs : FS) : Op → Option FS
  | .rename a b => match fs a with
      | none => none
      | some c => some ((fs.set b (some c)).set a none)
  | .openTrunc f => some (fs.set f (some ⟨0, false⟩))
  | .write f v => some (fs.set f (some ⟨v, false⟩))
  | .close f v => some (fs.set f (some ⟨v, true⟩))

structure RM where
  maxB : Nat
  nb : Nat
  nr : Nat
deriving DecidableEq, Repr

def RM.fresh (maxB : Nat) : RM := ⟨maxB, 0, 0⟩

def startFixed (maxB nb : Nat) : Nat := min (maxB - 1) nb
/-- unsigned wrap-around of `nb - 1` at 64 bits -/
def startOld (maxB nb : Nat) : Nat := min (maxB - 1) ((nb + 2 ^ 64 - 1) % 2 ^ 64)

/-- `for (i = m; i > 0; --i) rename(back (i-1), back i)` -/
def shiftOps : Nat → List Op
  | 0 => []
  | m + 1 => .rename (.back m) (.back (m + 1)) :: shiftOps m

/-- operations of one dump of state `v`, and the manager afterwards -/
def dumpOps (start : Nat → Nat → Nat) (rm : RM) (v : Nat) : List Op × RM :=
  let pre : List Op :=
    if rm.maxB > 0 then
      shiftOps (start rm.maxB rm.nb) ++ (if rm.nr > 0 then [.rename .dump (.back 0)] else [])
    else []
  let nb' := if rm.maxB > 0 ∧ rm.nr > 0 ∧ rm.nb < rm.maxB then rm.nb + 1 else rm.nb
  (pre ++ [.openTrunc .dump, .write .dump v, .close .dump v], { rm with nb := nb', nr := rm.nr + 1 })

/-- run a list of operations, stopping at the first failure -/
def execAll (fs : FS) : List Op → Option FS
  | [] => some fs
  | o :: os => match exec fs o with
      | none => none
      | some fs' => execAll fs' os

/-- all states a crash can leave behind: the state after every prefix of the operations
(operations after a failing one are never reached) -/
def prefixes (fs : FS) : List Op → List FS
  | [] => [fs]
  | o :: os => fs :: (match exec fs o with
      | none => []
      | some fs' => prefixes fs' os)

/-- a complete dump `k` dumps in a row from an empty directory (states numbered 1..k) -/
def dumps (start : Nat → Nat → Nat) (maxB : Nat) : Nat → Option (FS × RM)
  | 0 => some (FS.empty, RM.fresh maxB)
  | k + 1 => match dumps start maxB k with
      | none => none
      | some (fs, rm) =>
        let (ops, rm') := dumpOps start rm (k + 1)
        (execAll fs ops).map (fun fs' => (fs', rm'))

/-- one event in the life of a run directory: a dump of state `v` that runs to its end, or the
process being stopped and started again with `--restart` (same files, fresh manager) -/
inductive HOp where
  | dump (v : Nat)
  | reboot
deriving DecidableEq, Repr

def hstep (st : FS × RM) : HOp → Option (FS × RM)
  | .dump v =>
    let (ops, rm') := dumpOps startFixed st.2 v
    (execAll st.1 ops).map (fun fs' => (fs', rm'))
  | .reboot => some (st.1, RM.fresh st.2.maxB)

/-- a whole history of dumps and restarts, stopping at the first aborted dump -/
def hrun (st : FS × RM) : List HOp → Option (FS × RM)
  | [] => some st
  | o :: os => match hstep st o with
      | none => none
      | some st' => hrun st' os

end CMacVerif.Rotation
