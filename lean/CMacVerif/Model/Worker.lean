/-
Generic model of the task-graph worker loop of the hydro step
(src/TaskBasedRadiationHydrodynamicsSimulation.cpp, "reset the hydro tasks ... while
(number_of_tasks.value() > 0)"), over an arbitrary task graph.

A task graph is given by `children` (the child lists `Task::_children`, with multiplicity),
`parents` (used only in statements), the resources a task locks (`lockset`) and a finite
enumeration `univ` of all tasks.  The worker state records for every task its status, the
counter `_number_of_unfinished_parents`, and the shared counter `number_of_tasks`.

One label = one atomic action of some thread; any number of threads: the model does not name
threads, a thread is "whoever currently runs / releases task t".
  acquire t      : pop t from a queue with all its locks taken      (TaskQueue::get_task)
  finishExec t   : the sweep is done, unlock_dependency()
  releaseChild t : next child c of t: decrement its counter; if 0: enqueue c, ++number_of_tasks
  retire t       : all children handled: --number_of_tasks
-/
namespace CMacVerif.Worker

inductive Status (τ : Type) where
  | notReady
  | queued
  | running
  | releasing (rem : List τ)
  | done
deriving DecidableEq, Repr

structure Graph (τ ρ : Type) where
  univ : List τ
  children : τ → List τ
  parents : τ → List τ
  lockset : τ → List ρ

structure WState (τ : Type) where
  st : τ → Status τ
  cnt : τ → Nat
  num : Nat
  /-- ghost: how often the task's sweep has been executed -/
  execd : τ → Nat

inductive Label (τ : Type) where
  | acquire (t : τ)
  | finishExec (t : τ)
  | releaseChild (t : τ)
  | retire (t : τ)
deriving DecidableEq, Repr

variable {τ ρ : Type} [DecidableEq τ] [DecidableEq ρ]

def upd {α : Type} (f : τ → α) (t : τ) (a : α) : τ → α := fun x => if x = t then a else f x

def isRunning (s : WState τ) (t : τ) : Bool := match s.st t with | .running => true | _ => false

def isActive (st : Status τ) : Bool :=
  match st with | .queued => true | .running => true | .releasing _ => true | _ => false

/-- two tasks conflict if their lock sets share a resource -/
def conflicts (G : Graph τ ρ) (a b : τ) : Bool := (G.lockset a).any (fun r => (G.lockset b).contains r)

/-- state after `reset_hydro_tasks` + the initial enqueue loop -/
def init (G : Graph τ ρ) : WState τ :=
  { st := fun t => if (G.parents t).length = 0 then .queued else .notReady
    cnt := fun t => (G.parents t).length
    num := (G.univ.filter (fun t => (G.parents t).length = 0)).length
    execd := fun _ => 0 }

def step (G : Graph τ ρ) (s : WState τ) : Label τ → Option (WState τ)
  | .acquire t =>
    match s.st t with
    | .queued =>
      if G.univ.all (fun u => !(isRunning s u && conflicts G t u)) then
        some { s with st := upd s.st t .running }
      else none
    | _ => none
  | .finishExec t =>
    match s.st t with
    | .running => some { s with st := upd s.st t (.releasing (G.children t)), execd := upd s.execd t (s.execd t + 1) }
    | _ => none
  | .releaseChild t =>
    match s.st t with
    | .releasing (c :: rem) =>
      let cnt' := upd s.cnt c (s.cnt c - 1)
      let st1 := upd s.st t (.releasing rem)
      if s.cnt c = 1 then
        some { s with st := upd st1 c .queued, cnt := cnt', num := s.num + 1 }
      else
        some { s with st := st1, cnt := cnt' }
    | _ => none
  | .retire t =>
    match s.st t with
    | .releasing [] => some { s with st := upd s.st t .done, num := s.num - 1 }
    | _ => none

/-- run a trace of labels; `none` if some label was not enabled -/
def run (G : Graph τ ρ) (s : WState τ) : List (Label τ) → Option (WState τ)
  | [] => some s
  | l :: ls => match step G s l with
    | none => none
    | some s' => run G s' ls

end CMacVerif.Worker
