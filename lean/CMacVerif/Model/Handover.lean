import CMacVerif.Model.SubgridLayout
/-!
# Model of the hand-over of a photon packet between subgrids (C03)

* `updatePosition`: `DensitySubGrid::update_photon_position` (src/DensitySubGrid.hpp ~248-365), generic
  arithmetic; which coordinate is pinned to which wall is read from the generated table `pin`.
* `startIndexAxis`: the three-way choice of `get_{x,y,z}_index` (~376-546) from the generated table `idxClass`.
* `chainStep`: the hand-over logic of `PhotonTraversalTaskContext::execute` (~139-184) around an abstract
  single step of `DensitySubGrid::interact`: the packet leaving subgrid `s` through `d` continues in
  `get_neighbour(d)` with input direction `output_to_input_direction(d)`, or has left the box.

No Mathlib.
-/
namespace CMacVerif.Handover
open CMacVerif.SubgridLayout

section numeric
variable {α : Type} [Mul α] [OfScientific α]

/-- one coordinate of `update_photon_position`: `cls` = 0 untouched, 1 `= 0.`, 2 `= _number_of_cells * _cell_size`
(`nF` is the cell count converted to floating point, as the C++ multiplication does) -/
def updatePosAxis (cls : Nat) (nF h x : α) : α :=
  match cls with
  | 0 => x
  | 1 => 0.0
  | 2 => nF * h
  | _ => x

/-- `update_photon_position(input_direction, position)` -/
def updatePosition (d : Nat) (nF h pos : α × α × α) : α × α × α :=
  (updatePosAxis (pinAt d 0) nF.1 h.1 pos.1,
   updatePosAxis (pinAt d 1) nF.2.1 h.2.1 pos.2.1,
   updatePosAxis (pinAt d 2) nF.2.2 h.2.2 pos.2.2)
end numeric

/-- `get_x_index` / `get_y_index` / `get_z_index`: `computed` stands for `(int) (x * _inv_cell_size)` -/
def startIndexAxis (cls m : Nat) (computed : Int) : Int :=
  match cls with
  | 0 => computed
  | 1 => 0
  | 2 => (m : Int) - 1
  | _ => -1

/-- `get_start_index` without the conversion to a single index -/
def startIndex (d : Nat) (m : Nat × Nat × Nat) (computed : Int × Int × Int) : Int × Int × Int :=
  (startIndexAxis (idxClassAt d 0) m.1 computed.1,
   startIndexAxis (idxClassAt d 1) m.2.1 computed.2.1,
   startIndexAxis (idxClassAt d 2) m.2.2 computed.2.2)

/-! ## chained traversal -/

/-- what one iteration of the `interact` loop (or its end) yields, seen from the outside:
`σ` = state of the march inside one subgrid, `δ` = one deposit (local cell, path length, …) -/
inductive LocalStep (σ δ : Type) where
  /-- the packet moved on to another cell of the same subgrid -/
  | move (dep : δ) (st : σ)
  /-- the target optical depth was reached in this subgrid (`TRAVELDIRECTION_INSIDE` is returned) -/
  | absorbed (dep : δ) (st : σ)
  /-- the packet stepped out of the subgrid through direction `d ≠ 0` (the value `interact` returns) -/
  | exit (dep : δ) (d : Nat) (st : σ)

/-- state of the chained traversal -/
inductive ChainState (σ : Type) where
  | inGrid (s : Nat) (st : σ)
  | absorbedIn (s : Nat) (st : σ)
  | escaped (s : Nat) (d : Nat) (st : σ)

/-- One step of the chained traversal through the subgrids of the layout `L`.
`localStep s st` is one cell step of `interact` in subgrid `s`; `enter t inDir st` is what the
beginning of `interact` in the neighbour does with the incoming packet (`position - _anchor`,
`update_photon_position`, `get_start_index`).  Returns the deposit (tagged with the subgrid) and the
next state, `none` when the traversal is over. -/
def chainStep {σ δ : Type} (L : Layout) (localStep : Nat → σ → LocalStep σ δ)
    (enter : Nat → Nat → σ → σ) : ChainState σ → Option (Option (Nat × δ) × ChainState σ)
  | .inGrid s st =>
    match localStep s st with
    | .move dep st' => some (some (s, dep), .inGrid s st')
    | .absorbed dep st' => some (some (s, dep), .absorbedIn s st')
    | .exit dep d st' =>
      match ngb L s d with
      | none => some (some (s, dep), .escaped s d st')            -- NEIGHBOUR_OUTSIDE: the packet left the box
      | some t => some (some (s, dep), .inGrid t (enter t (outToInDir d) st'))
  | .absorbedIn _ _ => none
  | .escaped _ _ _ => none


/-- the same chained traversal over an arbitrary neighbour table `nb i d` (`_subgrids[i]->get_neighbour(d)`):
with the tables of `create_copies` the indices range over originals AND copies -/
def chainStepN {σ δ : Type} (nb : Nat → Nat → Option Nat) (localStep : Nat → σ → LocalStep σ δ)
    (enter : Nat → Nat → σ → σ) : ChainState σ → Option (Option (Nat × δ) × ChainState σ)
  | .inGrid s st =>
    match localStep s st with
    | .move dep st' => some (some (s, dep), .inGrid s st')
    | .absorbed dep st' => some (some (s, dep), .absorbedIn s st')
    | .exit dep d st' =>
      match nb s d with
      | none => some (some (s, dep), .escaped s d st')
      | some t => some (some (s, dep), .inGrid t (enter t (outToInDir d) st'))
  | .absorbedIn _ _ => none
  | .escaped _ _ _ => none

end CMacVerif.Handover
