import CMacVerif.Model.RiemannVacuum
import CMacVerif.Model.HydroGraph
/-!
# The finite-volume update of the hydro step (src/Hydro.hpp, src/HydroDensitySubGrid.hpp,
# src/HydroBoundary.hpp), statement by statement

Generic arithmetic (DESIGN §2.1): the same definitions run at `Float` in `drv_c04` and are
reasoned about at `ℝ`.  The Riemann solver is a **parameter** (`FluxFn`): conservation holds for
any flux function; `Driver/C04.lean` and `reflective_no_mass_energy` plug in C05's model of
`HLLCRiemannSolver::solve_for_flux`.

* `limit`                  — `Hydro::limit` (108-151), the per-face slope limiter
* `reconstruct`            — `do_flux_calculation` 381-448 (= `do_ghost_flux_calculation` 565-632)
* `fluxFac`, `ghostFluxFac`— the flux limiter `FLUX_LIMITER = 2.` (470-523 / 654-685)
* `faceFlux`, `doFluxCalculation`           — 376-540
* `reflectiveRight`, `ghostFaceFlux`, `doGhostFluxCalculation` — 553-696 with
  `ReflectiveHydroBoundary::get_right_state_flux_variables`
* `doGradientCalculation`, `doGhostGradientCalculation` — 710-779
* `Boundary`, `ghostFluxRight`, `ghostGradientRight`, `ghostFaceFluxB`, `doGhostGradientCalculationB` —
  the reflective, inflow and outflow ghost states of HydroBoundary.hpp
* `slopeAlpha`, `applySlopeLimiter` — `Hydro::apply_slope_limiter` (782-851)
* `predictRaw`, `predictPrimitive`  — `Hydro::predict_primitive_variables` (860-933)
* `updateConserved`        — `HydroDensitySubGrid::update_conserved_variables` (153-201)
* `setPrimitive`           — `Hydro::set_primitive_variables` (265-326), adiabatic (`γ > 1`) branch
The grid level (`applyOp`, `hydroStep`) is in `Model/HydroStep.lean`.

`tiny` = `DBL_MIN`, `ovf` = threshold of `std::isinf(1/x)` (see `RiemannVacuum.lean`).
`SAFE_HYDRO_VARIABLES` and `FLUX_LIMITER` are defined in Hydro.hpp (lines 40, 43); the model
follows the `#ifdef` branches.  Core Lean only.
-/
namespace CMacVerif.HydroUpdate
open CMacVerif CMacVerif.RiemannVacuum
open CMacVerif.HydroGraph (Axis)

/-- five hydro quantities: (density, velocity, pressure) or (mass, momentum, total energy) -/
@[ext] structure Q (α : Type) where
  d : α
  v : V3 α
  e : α

/-- `_primitive_gradients[5]`, one `CoordinateVector` per primitive variable -/
@[ext] structure Grad (α : Type) where
  d : V3 α
  vx : V3 α
  vy : V3 α
  vz : V3 α
  e : V3 α

/-- the part of `HydroVariables` (+ the cell's 10 entries of `_primitive_variable_limiters`) that
the hydro step reads and writes -/
@[ext] structure HV (α : Type) where
  prim : Q α
  grad : Grad α
  /-- `limiters[2j]` (running minimum over the neighbours) -/
  lo : Q α
  /-- `limiters[2j+1]` (running maximum) -/
  hi : Q α
  cons : Q α
  dcons : Q α
  /-- gravitational acceleration -/
  acc : V3 α
  /-- `_energy_term` -/
  eterm : α

/-- `solve_for_flux(rhoL, uL, PL, rhoR, uR, PR, mflux, pflux, Eflux, normal)` -/
abbrev FluxFn (α : Type) := α → V3 α → α → α → V3 α → α → V3 α → Flux α

section
variable {α : Type} [Add α] [Sub α] [Mul α] [Div α] [Neg α] [LT α] [LE α]
  [DecidableLT α] [DecidableLE α] [OfScientific α] [ArithFns α]

namespace V3'
/-- `v[i]` -/
@[inline] def get (v : V3 α) : Axis → α | .x => v.x | .y => v.y | .z => v.z
/-- `v[i] = a` -/
@[inline] def set (v : V3 α) : Axis → α → V3 α
  | .x, a => ⟨a, v.y, v.z⟩ | .y, a => ⟨v.x, a, v.z⟩ | .z, a => ⟨v.x, v.y, a⟩
end V3'

namespace Q
@[inline] def add (a b : Q α) : Q α := ⟨a.d + b.d, a.v.add b.v, a.e + b.e⟩
@[inline] def sub (a b : Q α) : Q α := ⟨a.d - b.d, a.v.sub b.v, a.e - b.e⟩
@[inline] def zero : Q α := ⟨0.0, V3.zero, 0.0⟩
/-- componentwise `std::min` / `std::max` -/
@[inline] def min (a b : Q α) : Q α :=
  ⟨amin a.d b.d, ⟨amin a.v.x b.v.x, amin a.v.y b.v.y, amin a.v.z b.v.z⟩, amin a.e b.e⟩
@[inline] def max (a b : Q α) : Q α :=
  ⟨amax a.d b.d, ⟨amax a.v.x b.v.x, amax a.v.y b.v.y, amax a.v.z b.v.z⟩, amax a.e b.e⟩
end Q

namespace Grad
/-- the components `primitive_gradients(j)[i]`, `j = 0..4` -/
@[inline] def along (G : Grad α) (i : Axis) : Q α :=
  ⟨V3'.get G.d i, ⟨V3'.get G.vx i, V3'.get G.vy i, V3'.get G.vz i⟩, V3'.get G.e i⟩
/-- `primitive_gradients(j)[i] = q_j` -/
@[inline] def setAlong (G : Grad α) (i : Axis) (q : Q α) : Grad α :=
  ⟨V3'.set G.d i q.d, V3'.set G.vx i q.v.x, V3'.set G.vy i q.v.y, V3'.set G.vz i q.v.z,
    V3'.set G.e i q.e⟩
@[inline] def zero : Grad α := ⟨V3.zero, V3.zero, V3.zero, V3.zero, V3.zero⟩
end Grad

/-- `x == y` on doubles (false for NaN) -/
@[inline] def feq (x y : α) : Bool := decide (x ≤ y) && decide (y ≤ x)

/-! ### `Hydro::limit` -/

/-- lines 108-151 (`psi1 = 0.5`, `psi2 = 0.25`) -/
def limit (tiny phimid0 phiL phiR dnrm : α) : α :=
  let delta1 := 0.5 * ArithFns.abs (phiL - phiR)
  let delta2 := 0.25 * ArithFns.abs (phiL - phiR)
  let phimin := amin phiL phiR
  let phimax := amax phiL phiR
  let phibar := phiL + dnrm * (phiR - phiL)
  let phiplus :=
    if 0.0 < (phimax + delta1) * phimax then phimax + delta1
    else
      let absphimax := ArithFns.abs phimax
      phimax * absphimax / (absphimax + delta1 + tiny)
  let phiminus :=
    if 0.0 < (phimin - delta1) * phimin then phimin - delta1
    else
      let absphimin := ArithFns.abs phimin
      phimin * absphimin / (absphimin + delta1 + tiny)
  if feq phiL phiR then phiL
  else if phiL < phiR then amax phiminus (amin (phibar + delta2) phimid0)
  else amin phiplus (amax (phibar - delta2) phimid0)

/-! ### reconstruction at the face -/

/-- the two states handed to the Riemann solver -/
structure Recon (α : Type) where
  rhoL : α
  vL : V3 α
  PL : α
  rhoR : α
  vR : V3 α
  PR : α

/-- lines 381-448: extrapolate with the cell gradients along `i` (`gL`, `gR` are
`primitive_gradients(j)[i]`), limit per face, clamp densities and pressures at 0 -/
def reconstruct (tiny : α) (WL gL WR gR : Q α) (dx : α) : Recon α :=
  let halfdx := 0.5 * dx
  let rhoL := WL.d + halfdx * gL.d
  let vL : V3 α := ⟨WL.v.x + halfdx * gL.v.x, WL.v.y + halfdx * gL.v.y, WL.v.z + halfdx * gL.v.z⟩
  let PL := WL.e + halfdx * gL.e
  let rhoR := WR.d - halfdx * gR.d
  let vR : V3 α := ⟨WR.v.x - halfdx * gR.v.x, WR.v.y - halfdx * gR.v.y, WR.v.z - halfdx * gR.v.z⟩
  let PR := WR.e - halfdx * gR.e
  let rhoL := limit tiny rhoL WL.d WR.d 0.5
  let vL : V3 α := ⟨limit tiny vL.x WL.v.x WR.v.x 0.5, limit tiny vL.y WL.v.y WR.v.y 0.5,
    limit tiny vL.z WL.v.z WR.v.z 0.5⟩
  let PL := limit tiny PL WL.e WR.e 0.5
  let rhoR := limit tiny rhoR WR.d WL.d 0.5
  let vR : V3 α := ⟨limit tiny vR.x WR.v.x WL.v.x 0.5, limit tiny vR.y WR.v.y WL.v.y 0.5,
    limit tiny vR.z WR.v.z WL.v.z 0.5⟩
  let PR := limit tiny PR WR.e WL.e 0.5
  ⟨amax rhoL 0.0, vL, amax PL 0.0, amax rhoR 0.0, vR, amax PR 0.0⟩

/-- `normal[i] = s` on a zero vector -/
@[inline] def unitNormal (i : Axis) (s : α) : V3 α := V3'.set V3.zero i s

/-! ### the flux limiter -/

/-- lines 472-522 for a face between two cells.  `lim = FLUX_LIMITER`.  The last block tests the
**left** squared momentum `p2` against the right thermal momentum (line 514), as the code does;
the factor is one number applied to all five fluxes, so this does not affect conservation.
Second component: bit mask of the limiter conditions that fired (coverage only). -/
def fluxFac (g lim mflux : α) (pflux : V3 α) (Eflux dt : α) (L R : HV α) : α × Nat :=
  let absmflux := mflux * dt
  let c1 := decide (lim * L.cons.d < absmflux)
  let f := if c1 then lim * L.cons.d / absmflux else 1.0
  let c2 := decide (lim * R.cons.d < -absmflux)
  let f := if c2 then amin f (-lim * R.cons.d / absmflux) else f
  let absEflux := Eflux * dt
  let c3 := decide (1.0 < g) && decide (lim * L.cons.e < absEflux)
  let f := if c3 then amin f (lim * L.cons.e / absEflux) else f
  let c4 := decide (1.0 < g) && decide (lim * R.cons.e < -absEflux)
  let f := if c4 then amin f (-lim * R.cons.e / absEflux) else f
  let p2 := L.cons.v.norm2
  let m2 := L.cons.d * L.cons.d
  let pflux2 := pflux.norm2 * dt * dt
  let c5 := decide (g * m2 * L.prim.e < p2 * L.prim.d) && decide ((lim * lim) * p2 < pflux2)
  let f := if c5 then amin f (ArithFns.sqrt ((lim * lim) * p2 / pflux2)) else f
  let pn2 := R.cons.v.norm2
  let mn2 := R.cons.d * R.cons.d
  let c6 := decide (g * mn2 * R.prim.e < p2 * R.prim.d) && decide ((lim * lim) * pn2 < pflux2)
  let f := if c6 then amin f (ArithFns.sqrt ((lim * lim) * pn2 / pflux2)) else f
  (f, (if c1 then 1 else 0) + (if c2 then 2 else 0) + (if c3 then 4 else 0) + (if c4 then 8 else 0)
    + (if c5 then 16 else 0) + (if c6 then 32 else 0))

/-- lines 656-684 for a box boundary face: only the conditions of the real cell; the momentum
test uses `pflux.norm2() * dt` (one factor `dt`, line 679), as the code does -/
def ghostFluxFac (g lim mflux : α) (pflux : V3 α) (Eflux dt : α) (L : HV α) : α × Nat :=
  let absmflux := mflux * dt
  let c1 := decide (lim * L.cons.d < absmflux)
  let f := if c1 then lim * L.cons.d / absmflux else 1.0
  let absEflux := Eflux * dt
  let c3 := decide (1.0 < g) && decide (lim * L.cons.e < absEflux)
  let f := if c3 then amin f (lim * L.cons.e / absEflux) else f
  let p2 := L.cons.v.norm2
  let m2 := L.cons.d * L.cons.d
  let pflux2 := pflux.norm2 * dt
  let c5 := decide (g * m2 * L.prim.e < p2 * L.prim.d) && decide ((lim * lim) * p2 < pflux2)
  let f := if c5 then amin f (ArithFns.sqrt ((lim * lim) * p2 / pflux2)) else f
  (f, (if c1 then 1 else 0) + (if c3 then 4 else 0) + (if c5 then 16 else 0))

/-- `FLUX_LIMITER` -/
@[inline] def fluxLimiter : α := 2.0

/-! ### one face -/

/-- the flux of the Riemann solver times the face area (lines 450-468) -/
def rawFlux (flux : FluxFn α) (rc : Recon α) (normal : V3 α) (A : α) : Q α :=
  let F := flux rc.rhoL rc.vL rc.PL rc.rhoR rc.vR rc.PR normal
  ⟨F.m * A, ⟨F.p.x * A, F.p.y * A, F.p.z * A⟩, F.e * A⟩

/-- `q *= fluxfac` (lines 524-526) -/
@[inline] def scaleFlux (q : Q α) (fac : α) : Q α := ⟨q.d * fac, q.v.smul fac, q.e * fac⟩

/-- the limited flux through the face between `L` (below) and `R` (above) along `i`, and the
limiter mask.  Reads `prim`, `grad` and `cons` of the two cells only. -/
def faceFluxTag (flux : FluxFn α) (tiny g : α) (i : Axis) (L R : HV α) (dx A dt : α) : Q α × Nat :=
  let rc := reconstruct tiny L.prim (L.grad.along i) R.prim (R.grad.along i) dx
  let F := rawFlux flux rc (unitNormal i 1.0) A
  let fac := fluxFac g fluxLimiter F.d F.v F.e dt L R
  (scaleFlux F fac.1, fac.2)

def faceFlux (flux : FluxFn α) (tiny g : α) (i : Axis) (L R : HV α) (dx A dt : α) : Q α :=
  (faceFluxTag flux tiny g i L R dx A dt).1

/-- `Hydro::do_flux_calculation` on two distinct cells: `left.delta_conserved -= F`,
`right.delta_conserved += F` (lines 529-539) -/
def doFluxCalculation (flux : FluxFn α) (tiny g : α) (i : Axis) (L R : HV α) (dx A dt : α) :
    HV α × HV α :=
  let F := faceFlux flux tiny g i L R dx A dt
  ({ L with dcons := L.dcons.sub F }, { R with dcons := R.dcons.add F })

/-! ### a box boundary face with a reflective boundary -/

/-- `ReflectiveHydroBoundary::get_right_state_flux_variables` (HydroBoundary.hpp:216-248):
primitives and the gradient components along `i` of the ghost cell.  All five `[i]` components are
negated, then the one of the normal velocity is negated again. -/
def reflectiveRight (i : Axis) (W g : Q α) : Q α × Q α :=
  let Wr : Q α := ⟨W.d, V3'.set W.v i (-(V3'.get W.v i)), W.e⟩
  let gn : V3 α := ⟨-g.v.x, -g.v.y, -g.v.z⟩
  let gr : Q α := ⟨-g.d, V3'.set gn i (-(V3'.get gn i)), -g.e⟩
  (Wr, gr)

/-- `int_fast8_t orientation = 1 - 2 * std::signbit(dx)` -/
@[inline] def orientation (dx : α) : α := if dx < 0.0 then -1.0 else 1.0

/-- limited flux through a box boundary face (`dx < 0` for a `_N` face), lines 553-688 -/
def ghostFaceFluxTag (flux : FluxFn α) (tiny g : α) (i : Axis) (L : HV α) (dx A dt : α) :
    Q α × Nat :=
  let r := reflectiveRight i L.prim (L.grad.along i)
  let rc := reconstruct tiny L.prim (L.grad.along i) r.1 r.2 dx
  let F := rawFlux flux rc (unitNormal i (orientation dx)) A
  let fac := ghostFluxFac g fluxLimiter F.d F.v F.e dt L
  (scaleFlux F fac.1, fac.2)

def ghostFaceFlux (flux : FluxFn α) (tiny g : α) (i : Axis) (L : HV α) (dx A dt : α) : Q α :=
  (ghostFaceFluxTag flux tiny g i L dx A dt).1

/-- `Hydro::do_ghost_flux_calculation` with a reflective boundary -/
def doGhostFluxCalculation (flux : FluxFn α) (tiny g : α) (i : Axis) (L : HV α) (dx A dt : α) :
    HV α :=
  { L with dcons := L.dcons.sub (ghostFaceFlux flux tiny g i L dx A dt) }

/-! ### gradients -/

/-- `dwdx_j = 0.5 * (left.primitives(j) + right.primitives(j)) * dxinv` (lines 722-723) -/
def dwdx (WL WR : Q α) (dxinv : α) : Q α :=
  ⟨0.5 * (WL.d + WR.d) * dxinv,
    ⟨0.5 * (WL.v.x + WR.v.x) * dxinv, 0.5 * (WL.v.y + WR.v.y) * dxinv,
      0.5 * (WL.v.z + WR.v.z) * dxinv⟩,
    0.5 * (WL.e + WR.e) * dxinv⟩

/-- left cell of `do_gradient_calculation`: `grad(j)[i] += dwdx_j`, limiters updated with the
primitives `W` of the other cell (lines 729-733) -/
def gradAddLeft (i : Axis) (h : HV α) (k : Q α) (W : Q α) : HV α :=
  { h with grad := h.grad.setAlong i ((h.grad.along i).add k), lo := h.lo.min W, hi := h.hi.max W }

/-- right cell: `grad(j)[i] -= dwdx_j` (lines 730, 734-735) -/
def gradSubRight (i : Axis) (h : HV α) (k : Q α) (W : Q α) : HV α :=
  { h with grad := h.grad.setAlong i ((h.grad.along i).sub k), lo := h.lo.min W, hi := h.hi.max W }

/-- `Hydro::do_gradient_calculation` on two distinct cells -/
def doGradientCalculation (i : Axis) (L R : HV α) (dxinv : α) : HV α × HV α :=
  let k := dwdx L.prim R.prim dxinv
  (gradAddLeft i L k R.prim, gradSubRight i R k L.prim)

/-- `ReflectiveHydroBoundary::get_right_state_gradient_variables` (200-214) -/
def reflectiveRightGradient (i : Axis) (W : Q α) : Q α :=
  ⟨W.d, V3'.set W.v i (-(V3'.get W.v i)), W.e⟩

/-- `Hydro::do_ghost_gradient_calculation` (750-779), reflective boundary; `dxinv < 0` on a
`_N` face -/
def doGhostGradientCalculation (i : Axis) (L : HV α) (dxinv : α) : HV α :=
  let Wr := reflectiveRightGradient i L.prim
  gradAddLeft i L (dwdx L.prim Wr dxinv) Wr

/-! ### the other box boundaries (HydroBoundary.hpp) -/

/-- the boundary conditions of `HydroBoundaryManager` that are modelled (the Bondi boundary, an
analytic inflow profile that depends on the position, is not) -/
inductive Boundary where
  | reflective
  | inflow
  | outflow
deriving DecidableEq, Repr

/-- `get_right_state_flux_variables` of the three classes: primitives and gradient components along
`i` of the ghost cell.  `s` is the orientation (+1 upper, -1 lower side).
* `ReflectiveHydroBoundary` (216-248): `reflectiveRight`;
* `InflowHydroBoundary` (85-98): a copy of the cell;
* `OutflowHydroBoundary` (133-152): a copy, but when the gas moves INTO the box
  (`orientation * v_i < 0`) the normal velocity is reversed and its gradient set to zero. -/
def ghostFluxRight (b : Boundary) (i : Axis) (s : α) (W g : Q α) : Q α × Q α :=
  match b with
  | .reflective => reflectiveRight i W g
  | .inflow => (W, g)
  | .outflow =>
    if s * V3'.get W.v i < 0.0 then
      (⟨W.d, V3'.set W.v i (-(V3'.get W.v i)), W.e⟩, ⟨g.d, V3'.set g.v i 0.0, g.e⟩)
    else (W, g)

/-- `get_right_state_gradient_variables` of the three classes (69-82, 112-130, 200-214) -/
def ghostGradientRight (b : Boundary) (i : Axis) (s : α) (W : Q α) : Q α :=
  match b with
  | .reflective => reflectiveRightGradient i W
  | .inflow => W
  | .outflow =>
    if s * V3'.get W.v i < 0.0 then ⟨W.d, V3'.set W.v i (-(V3'.get W.v i)), W.e⟩ else W

/-- `do_ghost_flux_calculation` for any of the three boundaries -/
def ghostFaceFluxTagB (b : Boundary) (flux : FluxFn α) (tiny g : α) (i : Axis) (L : HV α)
    (dx A dt : α) : Q α × Nat :=
  let r := ghostFluxRight b i (orientation dx) L.prim (L.grad.along i)
  let rc := reconstruct tiny L.prim (L.grad.along i) r.1 r.2 dx
  let F := rawFlux flux rc (unitNormal i (orientation dx)) A
  let fac := ghostFluxFac g fluxLimiter F.d F.v F.e dt L
  (scaleFlux F fac.1, fac.2)

def ghostFaceFluxB (b : Boundary) (flux : FluxFn α) (tiny g : α) (i : Axis) (L : HV α)
    (dx A dt : α) : Q α :=
  (ghostFaceFluxTagB b flux tiny g i L dx A dt).1

def doGhostFluxCalculationB (b : Boundary) (flux : FluxFn α) (tiny g : α) (i : Axis) (L : HV α)
    (dx A dt : α) : HV α :=
  { L with dcons := L.dcons.sub (ghostFaceFluxB b flux tiny g i L dx A dt) }

/-- `do_ghost_gradient_calculation` for any of the three boundaries -/
def doGhostGradientCalculationB (b : Boundary) (i : Axis) (L : HV α) (dxinv : α) : HV α :=
  let Wr := ghostGradientRight b i (orientation dxinv) L.prim
  gradAddLeft i L (dwdx L.prim Wr dxinv) Wr

/-! ### `Hydro::apply_slope_limiter` (782-851) -/

/-- the factor `alpha` for one variable: `W` the cell value, `g` its gradient, `lo` / `hi` the
running minimum / maximum of the neighbour values collected by the gradient sweeps
(`Wlim[2i]`, `Wlim[2i+1]`), `dx` the three cell sizes (lines 807-832).  Second component: branch
(1 `dwmax == 0`, 2 `dwmin == 0`; +4 `alpha` negative, +8 `alpha` clipped at 1). -/
def slopeAlphaTag (dmax W : α) (g : V3 α) (lo hi : α) (dx : V3 α) : α × Nat :=
  let e0 := g.x * 0.5 * dx.x
  let e1 := g.y * 0.5 * dx.y
  let e2 := g.z * 0.5 * dx.z
  let dwmax := amax (W + e0) (W - e0)
  let dwmin := amin (W + e0) (W - e0)
  let dwmax := amax dwmax (W + e1)
  let dwmin := amin dwmin (W + e1)
  let dwmax := amax dwmax (W - e1)
  let dwmin := amin dwmin (W - e1)
  let dwmax := amax dwmax (W + e2)
  let dwmin := amin dwmin (W + e2)
  let dwmax := amax dwmax (W - e2)
  let dwmin := amin dwmin (W - e2)
  let dwmax := dwmax - W
  let dwmin := dwmin - W
  let z1 := feq dwmax 0.0
  let maxfac := if z1 then dmax else (hi - W) / dwmax
  let z2 := feq dwmin 0.0
  let minfac := if z2 then dmax else (lo - W) / dwmin
  let raw := 0.5 * amin maxfac minfac
  let alpha := amin 1.0 raw
  (alpha, (if z1 then 1 else 0) + (if z2 then 2 else 0) + (if alpha < 0.0 then 4 else 0)
    + (if raw < 1.0 then 0 else 8))

def slopeAlpha (dmax W : α) (g : V3 α) (lo hi : α) (dx : V3 α) : α :=
  (slopeAlphaTag dmax W g lo hi dx).1

/-- `state.primitive_gradients(i) *= alpha` for the five variables (line 833) -/
def applySlopeLimiter (dmax : α) (h : HV α) (dx : V3 α) : Grad α :=
  ⟨h.grad.d.smul (slopeAlpha dmax h.prim.d h.grad.d h.lo.d h.hi.d dx),
   h.grad.vx.smul (slopeAlpha dmax h.prim.v.x h.grad.vx h.lo.v.x h.hi.v.x dx),
   h.grad.vy.smul (slopeAlpha dmax h.prim.v.y h.grad.vy h.lo.v.y h.hi.v.y dx),
   h.grad.vz.smul (slopeAlpha dmax h.prim.v.z h.grad.vz h.lo.v.z h.hi.v.z dx),
   h.grad.e.smul (slopeAlpha dmax h.prim.e h.grad.e h.lo.e h.hi.e dx)⟩

/-! ### `Hydro::predict_primitive_variables` (860-933) -/

/-- the unclamped predicted density, velocity and pressure (lines 893-901) -/
def predictRaw (g : α) (W : Q α) (G : Grad α) (a : V3 α) (dt : α) : Q α :=
  let rho := W.d
  let rhoinv := 1.0 / rho
  let divv := G.vx.x + G.vy.y + G.vz.z
  let rhoNew := rho - dt * (rho * divv + W.v.x * G.d.x + W.v.y * G.d.y + W.v.z * G.d.z)
  let vNew : V3 α := ⟨W.v.x - dt * (W.v.x * divv + rhoinv * G.e.x - a.x),
    W.v.y - dt * (W.v.y * divv + rhoinv * G.e.y - a.y),
    W.v.z - dt * (W.v.z * divv + rhoinv * G.e.z - a.z)⟩
  let pNew := W.e - dt * (g * W.e * divv + W.v.x * G.e.x + W.v.y * G.e.y + W.v.z * G.e.z)
  ⟨rhoNew, vNew, pNew⟩

/-- `predict_primitive_variables`: nothing happens for an empty cell (`rho == 0` or `1/rho`
infinite); otherwise the prediction with density and pressure clamped at 0.  Tag: 0 empty,
1 reciprocal overflows, 2 predicted; +4 density clamped, +8 pressure clamped. -/
def predictPrimitiveTag (g ovf : α) (W : Q α) (G : Grad α) (a : V3 α) (dt : α) : Q α × Nat :=
  if feq W.d 0.0 then (W, 0)
  else if invOverflows ovf W.d then (W, 1)
  else
    let r := predictRaw g W G a dt
    (⟨amax r.d 0.0, r.v, amax r.e 0.0⟩,
      2 + (if r.d < 0.0 then 4 else 0) + (if r.e < 0.0 then 8 else 0))

def predictPrimitive (g ovf : α) (W : Q α) (G : Grad α) (a : V3 α) (dt : α) : Q α :=
  (predictPrimitiveTag g ovf W G a dt).1

/-! ### `Hydro::get_soundspeed`, `Hydro::get_timestep` (223-256, 1232-1243; `γ > 1`) -/

/-- `get_soundspeed`: `sqrt(γ P / ρ)`, `DBL_MIN` for an empty cell -/
def cellSoundSpeed (g tiny ovf : α) (W : Q α) : α :=
  if decide (0.0 < W.d) && decide (0.0 < W.e) then
    (if invOverflows ovf W.d then tiny else ArithFns.sqrt (g * W.e * (1.0 / W.d)))
  else tiny

/-- `get_timestep`: `R / (c_s + |v|)` with `R = cbrt(0.75 V / π)` the radius of the sphere with the
cell's volume — the only place where the cell geometry enters the time step.  `invPi` is `M_1_PI`,
`third` is `1/3` (`std::cbrt(x)` is modelled as `pow(x, 1/3)`; compared with tolerance at `Float`).
The simulation multiplies the minimum over all cells by the CFL factor (default 0.2). -/
def getTimestep (g tiny ovf invPi third : α) (W : Q α) (V : α) : α :=
  let cs := cellSoundSpeed g tiny ovf W
  let v := ArithFns.sqrt W.v.norm2
  let R := ArithFns.pow (0.75 * V * invPi) third
  R / (cs + v)

/-! ### per-cell updates -/

/-- `update_conserved_variables` for one cell (lines 158-199): gravity, energy term, flux
differences, reset of the accumulators, clamps of mass and energy at 0.  Second component: which
clamp fired (1 mass, 2 energy). -/
def updateConservedTag (dmax : α) (h : HV α) (dt : α) : HV α × Nat :=
  let a := h.acc
  let p := h.cons.v
  let mdt := h.cons.d * dt
  let px := h.cons.v.x + mdt * a.x
  let py := h.cons.v.y + mdt * a.y
  let pz := h.cons.v.z + mdt * a.z
  let e := h.cons.e + dt * p.dot a
  let e := e + h.eterm
  let m := h.cons.d + h.dcons.d * dt
  let px := px + h.dcons.v.x * dt
  let py := py + h.dcons.v.y * dt
  let pz := pz + h.dcons.v.z * dt
  let e := e + h.dcons.e * dt
  let ndmax := -dmax
  ({ h with
      cons := ⟨amax m 0.0, ⟨px, py, pz⟩, amax e 0.0⟩
      dcons := ⟨0.0, V3.zero, 0.0⟩
      grad := Grad.zero
      lo := ⟨dmax, ⟨dmax, dmax, dmax⟩, dmax⟩
      hi := ⟨ndmax, ⟨ndmax, ndmax, ndmax⟩, ndmax⟩
      eterm := 0.0 },
    (if m < 0.0 then 1 else 0) + (if e < 0.0 then 2 else 0))

def updateConserved (dmax : α) (h : HV α) (dt : α) : HV α := (updateConservedTag dmax h dt).1

/-- `Hydro::set_primitive_variables` for `γ > 1` (lines 269-325): primitives from the conserved
variables, velocity limiter `vmax = _max_velocity`, clamps of density and pressure at 0.
Second component: branch tag (0 zero mass, 1 mass too small to invert, 2 normal; +4 velocity
capped, +8 sound speed capped, +16 density clamped, +32 pressure clamped). -/
def setPrimitiveTag (g vmax ovf invVol : α) (U : Q α) : Q α × Nat :=
  if 0.0 < U.d then
    let inverseMass := 1.0 / U.d
    if invOverflows ovf U.d then (⟨0.0, V3.zero, 0.0⟩, 1)
    else
      let density := U.d * invVol
      let velocity := U.v.smul inverseMass
      let pressure := (g - 1.0) * invVol * (U.e - 0.5 * velocity.dot U.v)
      let vnrm := ArithFns.sqrt velocity.norm2
      let capv := decide (vmax < vnrm)
      let velocity := if capv then velocity.smul (vmax / vnrm) else velocity
      let cs := ArithFns.sqrt (g * pressure * (1.0 / density))
      let capc := decide (0.0 < density) && !(invOverflows ovf density) && decide (vmax < cs)
      let pressure := if capc then pressure * ((vmax / cs) * (vmax / cs)) else pressure
      (⟨amax density 0.0, velocity, amax pressure 0.0⟩,
        2 + (if capv then 4 else 0) + (if capc then 8 else 0) + (if density < 0.0 then 16 else 0)
          + (if pressure < 0.0 then 32 else 0))
  else (⟨0.0, V3.zero, 0.0⟩, 0)

def setPrimitive (g vmax ovf invVol : α) (U : Q α) : Q α := (setPrimitiveTag g vmax ovf invVol U).1

end

end CMacVerif.HydroUpdate
