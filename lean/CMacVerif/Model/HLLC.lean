import CMacVerif.Model.RiemannVacuum
/-!
# `HLLCRiemannSolver::solve_for_flux` (src/HLLCRiemannSolver.hpp), statement by statement

Stages (each a small function, in the order of the C++ statements):

* `sampleRightVacuum` / `sampleLeftVacuum` / `sampleVacuumGeneration` — the solver's *own* copies
  of the vacuum samplers (lines 83-227; no `dxdt`, written for `x/t = 0`),
* `vacuumFlux` — `solve_vacuum_flux` (257-320); its flux assembly (282-319) is textually the same
  expression tree as lines 1062-1100 of the exact solver (`_odgm1` ≡ `_gm1inv` = `1/(γ-1)`), so
  the shared definition `RiemannVacuum.fluxFromSample` is used for both,
* `pstarEst` (414-417), `qFac` (421-428), `sStar` (440-443), `sideFlux` (445-491, the two
  copy-pasted branches are one function with a side flag), `mainFlux`, `solveForFlux` (372-497).

`tiny` stands for `DBL_MIN` (the `Float` driver passes the real `DBL_MIN`, the theorems use
`tiny = 0`), `ovf` for the reciprocal-overflow threshold of `std::isinf(1/x)` (see
`RiemannVacuum.lean`; with `x = rho + DBL_MIN ≥ DBL_MIN` the test is never true for `rho ≥ 0`,
which the same formula reproduces at `Float`).  `g` is the constructor argument `gamma`.
Core Lean only.
-/
namespace CMacVerif.HLLC
open CMacVerif CMacVerif.RiemannVacuum

section
variable {α : Type} [Add α] [Sub α] [Mul α] [Div α] [Neg α] [LT α] [LE α]
  [DecidableLT α] [DecidableLE α] [OfScientific α] [ArithFns α]

/-! ### the solver's own vacuum samplers (sampled at `x/t = 0` in the face frame) -/

/-- lines 94-97 / 214-217 -/
def leftFan (G rhoL uL PL aL : α) (tag : Nat) : Sample α :=
  let base := amax 0.0 (tdgp1 G + gm1dgp1 G * uL / aL)
  let rhosol := rhoL * ArithFns.pow base (tdgm1 G)
  let usol := tdgp1 G * (aL + gm1d2 G * uL)
  let Psol := PL * ArithFns.pow base (tgdgm1 G)
  ⟨rhosol, usol, Psol, -1, tag⟩

/-- lines 139-142 / 198-201 -/
def rightFan (G rhoR uR PR aR : α) (tag : Nat) : Sample α :=
  let base := amax 0.0 (tdgp1 G - gm1dgp1 G * uR / aR)
  let rhosol := rhoR * ArithFns.pow base (tdgm1 G)
  let usol := tdgp1 G * (-aR + gm1d2 G * uR)
  let Psol := PR * ArithFns.pow base (tgdgm1 G)
  ⟨rhosol, usol, Psol, 1, tag⟩

/-- `sample_right_vacuum` (83-113); note the C++ returns -1 ("left state sampled") for the fan -/
def sampleRightVacuum (G rhoL uL PL aL : α) : Sample α :=
  if uL < aL then
    let SL := uL + tdgm1 G * aL
    if 0.0 < SL then leftFan G rhoL uL PL aL 12
    else vacuumState 13
  else ⟨rhoL, uL, PL, -1, 11⟩

/-- `sample_left_vacuum` (128-158) -/
def sampleLeftVacuum (G rhoR uR PR aR : α) : Sample α :=
  if -aR < uR then
    let SR := uR - tdgm1 G * aR
    if SR < 0.0 then rightFan G rhoR uR PR aR 22
    else vacuumState 23
  else ⟨rhoR, uR, PR, 1, 21⟩

/-- `sample_vacuum_generation` (178-227) -/
def sampleVacuumGeneration (G rhoL uL PL aL rhoR uR PR aR : α) : Sample α :=
  let SR := uR - tdgm1 G * aR
  let SL := uL + tdgm1 G * aL
  if 0.0 < SR ∧ SL < 0.0 then vacuumState 31
  else
    if SL < 0.0 then
      if -aR < uR then rightFan G rhoR uR PR aR 32
      else ⟨rhoR, uR, PR, 1, 33⟩
    else
      if uL < aL then leftFan G rhoL uL PL aL 34
      else ⟨rhoL, uL, PL, -1, 35⟩

/-- the sampler selection of `solve_vacuum_flux` (269-279) -/
def vacuumSample (G rhoL vL PL aL : α) (vacuumL : Bool) (rhoR vR PR aR : α) (vacuumR : Bool) :
    Sample α :=
  if vacuumR then sampleRightVacuum G rhoL vL PL aL
  else if vacuumL then sampleLeftVacuum G rhoR vR PR aR
  else sampleVacuumGeneration G rhoL vL PL aL rhoR vR PR aR

/-- `solve_vacuum_flux` (257-320) -/
def vacuumFlux (G rhoL PL aL : α) (vacuumL : Bool) (rhoR PR aR : α) (vacuumR : Bool)
    (f : FaceFrame α) (normal vface : V3 α) : Flux α :=
  fluxFromSample G (vacuumSample G rhoL f.vL PL aL vacuumL rhoR f.vR PR aR vacuumR) f normal vface

/-! ### the HLLC path -/

/-- STEP 1 (414-417): `pstar = max(0, pPVRS)`; second component: 1 when the clamp fired -/
def pstarEst (rhoL PL rhoR PR vdiff abar : α) : α × Nat :=
  let rhobar := rhoL + rhoR
  let Pbar := PL + PR
  let pPVRS := 0.5 * (Pbar - 0.25 * vdiff * rhobar * abar)
  (amax 0.0 pPVRS, if 0.0 < pPVRS then 0 else 1)

/-- STEP 2 (421-428): `q = 1; if (pstar > P) q = sqrt(1 + gp1d2g (pstar Pinv - 1))` -/
def qFac (G P Pinv pstar : α) : α :=
  if P < pstar then ArithFns.sqrt (1.0 + gp1d2g G * (pstar * Pinv - 1.0)) else 1.0

/-- the contact speed (440-443), written by the authors to be antisymmetric under L↔R -/
def sStar (tiny rhoL vL PL SLmvL rhoR vR PR SRmvR : α) : α :=
  let Pdiff := PR - PL
  let rhovSdiff := rhoL * vL * SLmvL - rhoR * vR * SRmvR
  let rhoSdiff := rhoL * SLmvL - rhoR * SRmvR
  (Pdiff + rhovSdiff) / (rhoSdiff + tiny)

/-- the wave-speed estimates: relative outer speeds and the contact speed -/
structure Waves (α : Type) where
  SLmvL : α
  SRmvR : α
  Sstar : α
  tag : Nat

/-- lines 414-443 -/
def waves (tiny G rhoL vL PL PLinv aL rhoR vR PR PRinv aR vdiff abar : α) : Waves α :=
  let pe := pstarEst rhoL PL rhoR PR vdiff abar
  let pstar := pe.1
  let qL := qFac G PL PLinv pstar
  let qR := qFac G PR PRinv pstar
  let SLmvL := -aL * qL
  let SRmvR := aR * qR
  let Sstar := sStar tiny rhoL vL PL SLmvL rhoR vR PR SRmvR
  ⟨SLmvL, SRmvR, Sstar,
    (if PL < pstar then 100 else 0) + (if PR < pstar then 200 else 0) + 400 * pe.2⟩

/-- upwind flux `F_K` in the face frame (446-453 / 469-476) -/
def plainFlux (G rho : α) (uface : V3 α) (v P rhoinv : α) (normal : V3 α) : α × V3 α × α :=
  let rhov := rho * v
  let v2 := uface.norm2
  let e := P * gm1inv G * rhoinv + 0.5 * v2
  (rhov, (uface.smul rhov).add (normal.smul P), rhov * e + P * v)

/-- star-region correction `S_K (U*_K - U_K)` (456-466 / 479-489), to be added to `plainFlux` -/
def starCorrection (tiny G rho : α) (uface : V3 α) (v P rhoinv SKmv Sstar : α) (normal : V3 α) :
    α × V3 α × α :=
  let v2 := uface.norm2
  let e := P * gm1inv G * rhoinv + 0.5 * v2
  let S := SKmv + v
  let starfac := SKmv / (S - Sstar) - 1.0
  let Srho := S * rho
  let Sstarmv := Sstar - v
  let Srhostarfac := Srho * starfac
  let SrhoSstarmv := Srho * (starfac + 1.0) * Sstarmv
  let SKmvinv := 1.0 / (SKmv + tiny)
  (Srhostarfac, (uface.smul Srhostarfac).add (normal.smul SrhoSstarmv),
    Srhostarfac * e + SrhoSstarmv * (Sstar + P * rhoinv * SKmvinv))

/-- one of the two branches of lines 445-491 in the face frame: `left = true` is the
`Sstar >= 0.` branch (state L, correction when `SL < 0.`), `left = false` the other one (state R,
correction when `SR > 0.`).  Third component of the result: 1 when the correction was applied. -/
def sideFlux (tiny G rho : α) (uface : V3 α) (v P rhoinv SKmv Sstar : α) (normal : V3 α)
    (left : Bool) : (α × V3 α × α) × Nat :=
  let F := plainFlux G rho uface v P rhoinv normal
  let S := SKmv + v
  if (if left then S < 0.0 else 0.0 < S) then
    let C := starCorrection tiny G rho uface v P rhoinv SKmv Sstar normal
    ((F.1 + C.1, F.2.1.add C.2.1, F.2.2 + C.2.2), 1)
  else (F, 0)

/-- bookkeeping: 0 when `S_L ≤ S* ≤ S_R`, 800 otherwise -/
def ordTag (SL Sstar SR : α) : Nat := if SL ≤ Sstar ∧ Sstar ≤ SR then 0 else 800

/-- lines 413-497: the non-vacuum path, from the face-frame quantities to the de-boosted flux -/
def mainFlux (tiny G rhoL PL rhoLinv PLinv aL rhoR PR rhoRinv PRinv aR vdiff abar : α)
    (f : FaceFrame α) (normal vface : V3 α) : Flux α :=
  let w := waves tiny G rhoL f.vL PL PLinv aL rhoR f.vR PR PRinv aR vdiff abar
  -- bookkeeping only: +800 when the wave-speed estimates are not ordered `S_L ≤ S* ≤ S_R`
  -- (the premise of `hllc_textbook`, measured on every run)
  let ord : Nat := ordTag (w.SLmvL + f.vL) w.Sstar (w.SRmvR + f.vR)
  if 0.0 ≤ w.Sstar then
    let r := sideFlux tiny G rhoL f.uLface f.vL PL rhoLinv w.SLmvL w.Sstar normal true
    deboost r.1.1 r.1.2.1 r.1.2.2 vface (41 + r.2 + w.tag + ord)
  else
    let r := sideFlux tiny G rhoR f.uRface f.vR PR rhoRinv w.SRmvR w.Sstar normal false
    deboost r.1.1 r.1.2.1 r.1.2.2 vface (43 + r.2 + w.tag + ord)

/-- `HLLCRiemannSolver::solve_for_flux` (355-497).  Branch ids: 0 both states vacuum; 11-13 /
21-23 / 31-35 vacuum samplers (see `RiemannVacuum`); 41 `F_L`, 42 `F*_L`, 43 `F_R`, 44 `F*_R`
(+100 left shock estimate, +200 right shock estimate, +400 pressure estimate clamped to 0,
+800 wave-speed estimates not ordered). -/
def solveForFlux (tiny ovf g rhoL : α) (uL : V3 α) (PL rhoR : α) (uR : V3 α) (PR : α)
    (normal vface : V3 α) : Flux α :=
  let G := effGamma g
  let rhoLinv := 1.0 / (rhoL + tiny)
  let rhoRinv := 1.0 / (rhoR + tiny)
  let PLinv := 1.0 / (PL + tiny)
  let PRinv := 1.0 / (PR + tiny)
  let vacuumL := isVacuum ovf rhoL (rhoL + tiny) PL (PL + tiny)
  let vacuumR := isVacuum ovf rhoR (rhoR + tiny) PR (PR + tiny)
  if vacuumL && vacuumR then ⟨0.0, V3.zero, 0.0, 0⟩
  else
    let f := faceFrame uL uR normal vface
    let aL := ArithFns.sqrt (G * PL * rhoLinv)
    let aR := ArithFns.sqrt (G * PR * rhoRinv)
    let vdiff := f.vR - f.vL
    let abar := aL + aR
    if vacuumL || vacuumR || decide (tdgm1 G * abar ≤ vdiff) then
      vacuumFlux G rhoL PL aL vacuumL rhoR PR aR vacuumR f normal vface
    else
      mainFlux tiny G rhoL PL rhoLinv PLinv aL rhoR PR rhoRinv PRinv aR vdiff abar f normal vface

end
end CMacVerif.HLLC
