import CMacVerif.Arith
import CMacVerif.Gen.Verner
/-!
# C18 — model of `VernerRecombinationRates` and `ChargeTransferRates`

Core Lean only, generic arithmetic.  `recVerner` mirrors `get_recombination_rate_verner`
(`VernerRecombinationRates.cpp` 116-147, table rows generated from `verner_rec_data.txt`; the
constructor's pre-inversion of `rnew[2]`, `rnew[3]` is `invNZ`).  `dielectronic` holds the
low-temperature dielectronic terms per ion exactly as coded (186-322), `recombinationRate` is
`get_recombination_rate` (157-333) including the final `* 1.e-6` and `std::max(0., rate)`.

`ctRecH`, `ctIonH`, `ctRecHe` mirror the three implemented functions of
`ChargeTransferRates.cpp` (argument: temperature in units of 10⁴ K).
-/
namespace CMacVerif.Verner
open CMacVerif CMacVerif.Gen.Verner

/-- branch of `get_recombination_rate_verner` (a function of (Z, N) only) -/
inductive RecBranch
  | rnew   -- Verner & Ferland (1996) formula (4)
  | fe     -- Arnaud & Raymond (1992) iron fit
  | rrec   -- power law
  deriving DecidableEq, Repr

def RecBranch.tag : RecBranch → String
  | .rnew => "rnew" | .fe => "fe" | .rrec => "rrec"

/-- lines 129-130, 138 -/
def recBranch (iz inn : Nat) : RecBranch :=
  if inn ≤ 3 ∨ inn = 11 ∨ (iz > 5 ∧ iz < 9) ∨ iz = 10 ∨ (iz = 26 ∧ inn > 11) then .rnew
  else if iz = 26 ∧ inn ≤ 13 then .fe
  else .rrec

section
variable {α : Type} [Add α] [Sub α] [Mul α] [Div α] [Neg α] [LT α] [LE α]
  [DecidableLT α] [DecidableLE α] [OfScientific α] [ArithFns α]

/-- constructor lines 95-100: `if (x != 0.) x = 1. / x` -/
def invNZ (x : α) : α := if x < 0.0 ∨ 0.0 < x then 1.0 / x else x

/-- lines 131-135 -/
def recNew (row : RecRow α) (T : α) : α :=
  let tt := ArithFns.sqrt (T * invNZ row.rnew2)
  row.rnew0 /
    (tt * ArithFns.pow (tt + 1.0) (1.0 - row.rnew1) *
      ArithFns.pow (1.0 + ArithFns.sqrt (T * invNZ row.rnew3)) (1.0 + row.rnew1))

/-- lines 137, 139-140 -/
def recFe (f : FeRow α) (T : α) : α :=
  let tt := T * 1.0e-4
  f.fe0 * ArithFns.pow tt (-f.fe1 - f.fe2 * ArithFns.log10 tt)

/-- lines 137, 142 -/
def recPow (row : RecRow α) (T : α) : α :=
  let tt := T * 1.0e-4
  row.rrec0 * ArithFns.pow tt (-row.rrec1)

/-- `get_recombination_rate_verner(iz, in, T)` (in cm³ s⁻¹) -/
def recVerner (iz inn : Nat) (T : α) : α :=
  match recBranch iz inn with
  | .rnew => recNew (recRow iz inn) T
  | .fe => recFe (feRow inn) T
  | .rrec => recPow (recRow iz inn) T

/-- Verner & Ferland (1996) formula (4) with literal coefficients (H I: 164-171, He I: 174-183) -/
def vfFit (a t1 t2 b1 b2 : α) (T : α) : α :=
  let T1 := T / t1
  let T2 := T / t2
  a / (ArithFns.sqrt T1 * ArithFns.pow (1.0 + ArithFns.sqrt T1) b1 *
    ArithFns.pow (1.0 + ArithFns.sqrt T2) b2)

/-- Nussbaumer & Storey (1983) formula (19) as coded with `T4_inv`:
`1.e-12 * (a * T4_inv + b + c * T4 + d * T4 * T4) * pow(T4, -1.5) * exp(-f * T4_inv)` -/
def nsFit (a b c d f : α) (T : α) : α :=
  let T4 := T * 1.0e-4
  let T4_inv := 1.0 / T4
  1.0e-12 * (a * T4_inv + b + c * T4 + d * T4 * T4) * ArithFns.pow T4 (-1.5) *
    ArithFns.exp (-f * T4_inv)

/-- the N⁺ variant (lines 215-218): no `1/T4` term, `exp(-0.4398 / T4)` -/
def nsFitN (b c d f : α) (T : α) : α :=
  let T4 := T * 1.0e-4
  1.0e-12 * (b + c * T4 - d * T4 * T4) * ArithFns.pow T4 (-1.5) * ArithFns.exp (-f / T4)

/-- the dielectronic term added to the radiative fit, per ion, as coded (cm³ s⁻¹) -/
def dielectronic (ion : Ion) (T : α) : α :=
  match ion with
  | .H_n => 0.0
  | .He_n => 0.0
  | .C_p1 => nsFit 1.8267 4.1012 4.8443 0.2261 0.5960 T
  | .C_p2 => nsFit 2.3196 10.7328 6.8830 (-0.1824) 0.4101 T
  | .N_n => nsFitN 0.6310 0.1990 0.0197 0.4398 T
  | .N_p1 => nsFit 0.0320 (-0.6624) 4.3191 0.0003 0.5946 T
  | .N_p2 => nsFit (-0.8806) 11.2406 30.7066 (-1.1721) 0.6127 T
  | .O_n => nsFit (-0.0001) 0.0001 0.0956 0.0193 0.4106 T
  | .O_p1 => nsFit (-0.0036) 0.7519 1.5252 (-0.0838) 0.2769 T
  | .Ne_n => 0.0
  | .Ne_p1 => nsFit 0.0129 (-0.1779) 0.9353 (-0.0682) 0.4156 T
  | .S_p1 =>
    let TeV := T / 1.16045221e4
    1.37e-9 * ArithFns.exp (-14.95 / TeV) * ArithFns.pow TeV (-1.5)
  | .S_p2 =>
    let TeV := T / 1.16045221e4
    let TeVinv := 1.0 / TeV
    (8.0729e-9 * ArithFns.exp (-17.56 * TeVinv) + 1.1012e-10 * ArithFns.exp (-7.07 * TeVinv)) *
      ArithFns.pow TeV (-1.5)
  | .S_p3 =>
    let Tinv := 1.0 / T
    (5.817e-7 * ArithFns.exp (-362.8 * Tinv) + 1.391e-6 * ArithFns.exp (-1058.0 * Tinv) +
      1.123e-5 * ArithFns.exp (-7160.0 * Tinv) + 1.521e-4 * ArithFns.exp (-3.26e4 * Tinv) +
      1.875e-3 * ArithFns.exp (-1.235e5 * Tinv) + 2.097e-2 * ArithFns.exp (-2.07e5 * Tinv)) *
      ArithFns.pow T (-1.5)

/-- (Z, N) of the radiative fit an ion uses (`none`: literal Verner & Ferland coefficients) -/
def recPairOf : Ion → Option (Nat × Nat)
  | .H_n => none | .He_n => none
  | .C_p1 => some (6, 5) | .C_p2 => some (6, 4)
  | .N_n => some (7, 7) | .N_p1 => some (7, 6) | .N_p2 => some (7, 5)
  | .O_n => some (8, 8) | .O_p1 => some (8, 7)
  | .Ne_n => some (10, 10) | .Ne_p1 => some (10, 9)
  | .S_p1 => some (16, 15) | .S_p2 => some (16, 14) | .S_p3 => some (16, 13)

/-- `rate` before the unit conversion (cm³ s⁻¹) -/
def rateCgs (ion : Ion) (T : α) : α :=
  match ion with
  | .H_n => vfFit 7.982e-11 3.148 7.036e5 0.252 1.748 T
  | .He_n => vfFit 3.294e-11 15.54 3.676e7 0.309 1.691 T
  | .Ne_n => recVerner 10 10 T
  | ion =>
    match recPairOf ion with
    | some (z, n) => recVerner z n T + dielectronic ion T
    | none => 0.0

/-- `VernerRecombinationRates::get_recombination_rate(ion, temperature)` (m³ s⁻¹):
`rate *= 1.e-6; return std::max(0., rate);` -/
def recombinationRate (ion : Ion) (T : α) : α :=
  amax 0.0 (rateCgs ion T * 1.0e-6)

/-! ## charge transfer (`ChargeTransferRates.cpp`), `T4` = temperature / 10⁴ K -/

/-- `std::min(std::max(temperature, lo), hi)` -/
def safeT (lo hi T4 : α) : α := amin (amax T4 lo) hi

/-- `c * pow(st, p) * (1. + a * exp(-b * st))` -/
def kfPlus (c p a b lo hi T4 : α) : α :=
  let st := safeT lo hi T4
  c * ArithFns.pow st p * (1.0 + a * ArithFns.exp (-b * st))

/-- `c * pow(st, p) * (1. - a * exp(-b * st))` -/
def kfMinus (c p a b lo hi T4 : α) : α :=
  let st := safeT lo hi T4
  c * ArithFns.pow st p * (1.0 - a * ArithFns.exp (-b * st))

/-- `get_charge_transfer_recombination_rate_H` (`H_n`: the C++ aborts with `cmac_error`; the
model returns 0 and the harness never calls it) -/
def ctRecH (ion : Ion) (T4 : α) : α :=
  match ion with
  | .H_n => 0.0
  | .He_n => kfPlus 7.47e-21 2.06 9.93 3.89 0.6 10.0 T4
  | .C_p1 => kfPlus 1.67e-19 2.79 304.74 4.07 0.5 5.0 T4
  | .C_p2 => kfPlus 3.25e-15 0.21 0.19 3.29 0.1 10.0 T4
  | .N_n => kfMinus 1.01e-18 (-0.29) 0.92 8.38 0.01 5.0 T4
  | .N_p1 => kfPlus 3.05e-16 0.6 2.65 0.93 0.1 10.0 T4
  | .N_p2 => kfMinus 4.54e-15 0.57 0.65 0.89 0.001 10.0 T4
  | .O_n => kfMinus 1.04e-15 3.15e-2 0.61 9.73 0.001 1.0 T4
  | .O_p1 => kfPlus 1.04e-15 0.27 2.02 5.92 0.01 10.0 T4
  | .Ne_n => 0.0
  | .Ne_p1 => 1.0e-20
  | .S_p1 => 1.0e-20
  | .S_p2 => kfPlus 2.29e-15 4.02e-2 1.59 6.06 0.1 3.0 T4
  | .S_p3 => kfPlus 6.44e-15 0.13 2.69 5.69 0.1 3.0 T4

/-- `get_charge_transfer_ionization_rate_H` -/
def ctIonH (ion : Ion) (T4 : α) : α :=
  match ion with
  | .N_n =>
    let st := safeT 0.01 5.0 T4
    4.55e-18 * ArithFns.pow st (-0.29) * (1.0 - 0.92 * ArithFns.exp (-8.38 * st)) *
      ArithFns.exp (-1.086 / st)
  | .O_n =>
    let st := safeT 0.001 1.0 T4
    7.4e-17 * ArithFns.pow st 0.47 * (1.0 + 24.37 * ArithFns.exp (-0.74 * st)) *
      ArithFns.exp (-0.023 / st)
  | _ => 0.0

/-- `get_charge_transfer_recombination_rate_He` (`He_n`: `cmac_error` in the C++) -/
def ctRecHe (ion : Ion) (T4 : α) : α :=
  match ion with
  | .C_p2 =>
    let st := safeT 0.1 3.0 T4
    4.6e-17 * st * st
  | .N_p1 => kfPlus 3.3e-16 0.29 1.3 4.5 0.1 3.0 T4
  | .N_p2 => 1.5e-16
  | .O_p1 =>
    let st := safeT 0.5 5.0 T4
    2.0e-16 * ArithFns.pow st 0.95
  | .Ne_p1 => 1.0e-20
  | .S_p2 =>
    let st := safeT 0.1 3.0 T4
    1.1e-15 * ArithFns.pow st 0.56
  | .S_p3 => kfPlus 7.6e-19 0.32 3.4 5.25 0.1 3.0 T4
  | _ => 0.0

end
end CMacVerif.Verner
