/-!
# C18 — record types shared by the generated tables (`Gen/Verner.lean`) and the models

Core Lean only.  The rows hold the numbers **as they stand in the shipped data files**
(`/repo/data/verner_{A,B,C}.dat`, `verner_rec_data.txt`); the conversions that the C++
constructors apply (unit conversion, pre-inversion, pre-multiplication) are part of the model
(`Model/Verner.lean`: `prepA`, `prepB`; `Model/Recomb.lean`: `prepRec`).
-/
namespace CMacVerif.Verner

/-- the ions `IonName` enumerates in the default configuration (no `ADDITIONAL_COOLANTS`);
`Gen.Verner.ionOfIndex` ties the constructors to the enum values of the C++ -/
inductive Ion
  | H_n | He_n | C_p1 | C_p2 | N_n | N_p1 | N_p2 | O_n | O_p1 | Ne_n | Ne_p1 | S_p1 | S_p2 | S_p3
  deriving DecidableEq, Repr, Inhabited

/-- **Specification of the shell sums** (independent of the C++ switch, which `Gen.Verner.ionShells`
mirrors): the valence-shell partial cross sections (Z, N, shell) whose sum is the photoionization
cross section of each tracked ion — shells are numbered 1s=1, 2s=2, 2p=3, 3s=4, 3p=5; Z is the
atomic number, N = Z − charge the number of electrons.  Outermost shell first; the next lower
subshell is included for the ions where it opens below the 54.4 eV limit of the spectra or
Verner's phfit2 sums it.  `Props.C18.coded_shells_are_spec` ties the C++ to this table. -/
def ionShellsSpec : Ion → List (Nat × Nat × Nat)
  | .H_n => [(1, 1, 1)]
  | .He_n => [(2, 2, 1)]
  | .C_p1 => [(6, 5, 3), (6, 5, 2)]
  | .C_p2 => [(6, 4, 2)]
  | .N_n => [(7, 7, 3), (7, 7, 2)]
  | .N_p1 => [(7, 6, 3), (7, 6, 2)]
  | .N_p2 => [(7, 5, 3)]
  | .O_n => [(8, 8, 3), (8, 8, 2)]
  | .O_p1 => [(8, 7, 3), (8, 7, 2)]
  | .Ne_n => [(10, 10, 3), (10, 10, 2)]
  | .Ne_p1 => [(10, 9, 3)]
  | .S_p1 => [(16, 15, 5), (16, 15, 4)]
  | .S_p2 => [(16, 14, 5), (16, 14, 4)]
  | .S_p3 => [(16, 13, 5)]

def allIons : List Ion :=
  [.H_n, .He_n, .C_p1, .C_p2, .N_n, .N_p1, .N_p2, .O_n, .O_p1, .Ne_n, .Ne_p1, .S_p1, .S_p2, .S_p3]

/-- every shell of the specification -/
def usedShellsSpec : List (Nat × Nat × Nat) := allIons.flatMap ionShellsSpec

/-- one line of `verner_A.dat` (Verner & Yakovlev 1995): `l` is the orbital quantum number of the
line, written as a number because the constructor uses it in `0.5 * P - 5.5 - l` -/
structure RawA (α : Type) where
  l : α
  E_th : α
  E_0 : α
  sigma_0 : α
  y_a : α
  P : α
  y_w : α

/-- one line of `verner_B.dat` (Verner, Ferland, Korista & Yakovlev 1996); `E_th`, `E_max` are in
the file but never stored by the constructor -/
structure RawB (α : Type) where
  E_0 : α
  sigma_0 : α
  y_a : α
  P : α
  y_w : α
  y_0 : α
  y_1 : α

/-- the six numbers `verner_rec_data.txt` holds for one (Z, N): `rrec[0..1]`, `rnew[0..3]` -/
structure RecRow (α : Type) where
  rrec0 : α
  rrec1 : α
  rnew0 : α
  rnew1 : α
  rnew2 : α
  rnew3 : α

/-- one column of the `fe` block of `verner_rec_data.txt` -/
structure FeRow (α : Type) where
  fe0 : α
  fe1 : α
  fe2 : α

end CMacVerif.Verner
