/-!
# C18 — record types shared by the generated tables (`Gen/Verner.lean`) and the models

Core Lean only.  The rows hold the numbers **as they stand in the shipped data files**
(`/repo/data/verner_{A,B,C}.dat`, `verner_rec_data.txt`); the conversions that the C++
constructors apply (unit conversion, pre-inversion, pre-multiplication) are part of the model
(`Model/Verner.lean`: `prepA`, `prepB`; `Model/Recomb.lean`: `prepRec`).
-/
namespace CMacVerif.Verner

/-- the ions `IonName` enumerates in the default configuration (no `ADDITIONAL_COOLANTS`);
`Gen.Verner.ionOfIndex` ties the constructors to the enum values of the C++ -/
inductive Ion
  | H_n | He_n | C_p1 | C_p2 | N_n | N_p1 | N_p2 | O_n | O_p1 | Ne_n | Ne_p1 | S_p1 | S_p2 | S_p3
  deriving DecidableEq, Repr, Inhabited

/-- one line of `verner_A.dat` (Verner & Yakovlev 1995): `l` is the orbital quantum number of the
line, written as a number because the constructor uses it in `0.5 * P - 5.5 - l` -/
structure RawA (α : Type) where
  l : α
  E_th : α
  E_0 : α
  sigma_0 : α
  y_a : α
  P : α
  y_w : α

/-- one line of `verner_B.dat` (Verner, Ferland, Korista & Yakovlev 1996); `E_th`, `E_max` are in
the file but never stored by the constructor -/
structure RawB (α : Type) where
  E_0 : α
  sigma_0 : α
  y_a : α
  P : α
  y_w : α
  y_0 : α
  y_1 : α

/-- the six numbers `verner_rec_data.txt` holds for one (Z, N): `rrec[0..1]`, `rnew[0..3]` -/
structure RecRow (α : Type) where
  rrec0 : α
  rrec1 : α
  rnew0 : α
  rnew1 : α
  rnew2 : α
  rnew3 : α

/-- one column of the `fe` block of `verner_rec_data.txt` -/
structure FeRow (α : Type) where
  fe0 : α
  fe1 : α
  fe2 : α

end CMacVerif.Verner
