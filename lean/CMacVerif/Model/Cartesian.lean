import CMacVerif.Model.GridNum
/-
Model of `CartesianDensityGrid` (src/CartesianDensityGrid.cpp/.hpp): index map
(`get_cell_indices` 152-161, `get_cell` 170-176, `get_long_index`/`get_indices`), `is_inside`
with the periodic wrap (187-227), `get_wall_intersection` (280-318), the `interact` loop
(375-452) and the neighbour table of `get_neighbours` (505-603).  Numeric code is generic
(standard operator classes + `Trunc`/`OfInt`), one statement of the C++ per `let`.
Core Lean only.
-/
namespace CMacVerif.Cartesian
open CMacVerif.GridNum

/-- integer cell indices (`CoordinateVector< int_fast32_t >`) -/
structure I3 where
  x : Int
  y : Int
  z : Int
deriving Repr, DecidableEq

/-- the grid: box, cell counts, periodicity flags, and the derived `_cellside`,
`_inverse_cellside` exactly as the constructor computes them -/
structure Grid (α : Type) where
  box : Box3 α
  n : I3
  px : Bool
  py : Bool
  pz : Bool
  cs : V3 α          -- _cellside = box.sides / ncell
  ics : V3 α         -- _inverse_cellside = 1. / _cellside

section
variable {α : Type} [Add α] [Sub α] [Mul α] [Div α] [Neg α] [LT α] [LE α] [DecidableLT α]
  [DecidableLE α] [OfScientific α] [Trunc α] [OfInt α]

/-- constructor (lines 80-86) -/
def mkGrid (box : Box3 α) (n : I3) (px py pz : Bool) : Grid α :=
  let csx := box.sx / OfInt.ofInt n.x
  let csy := box.sy / OfInt.ofInt n.y
  let csz := box.sz / OfInt.ofInt n.z
  { box := box, n := n, px := px, py := py, pz := pz,
    cs := ⟨csx, csy, csz⟩, ics := ⟨1.0 / csx, 1.0 / csy, 1.0 / csz⟩ }

/-- the plain index arithmetic of `get_cell_indices` (before the clamp) -/
def rawIndices (g : Grid α) (p : V3 α) : I3 :=
  ⟨Trunc.toInt ((p.x - g.box.ax) * g.ics.x), Trunc.toInt ((p.y - g.box.ay) * g.ics.y),
   Trunc.toInt ((p.z - g.box.az) * g.ics.z)⟩

/-- `if (ix == _ncell.x() && position.x() <= top_anchor.x()) { ix = _ncell.x() - 1; }`: round off can
push a position less than one ulp below an upper face of the box to index `_ncell` -/
def clampTop (n i : Int) (p top : α) : Int := if i = n ∧ p ≤ top then n - 1 else i

/-- `get_cell_indices` (with the clamp of fix d8603ab; `top_anchor = anchor + sides`) -/
def cellIndices (g : Grid α) (p : V3 α) : I3 :=
  let r := rawIndices g p
  ⟨clampTop g.n.x r.x p.x (g.box.ax + g.box.sx), clampTop g.n.y r.y p.y (g.box.ay + g.box.sy),
   clampTop g.n.z r.z p.z (g.box.az + g.box.sz)⟩

/-- `get_cell(index)`: `anchor + cellside * index`, sides = `_cellside` -/
def cellBox (g : Grid α) (i : I3) : Box3 α :=
  ⟨g.box.ax + g.cs.x * OfInt.ofInt i.x, g.box.ay + g.cs.y * OfInt.ofInt i.y,
   g.box.az + g.cs.z * OfInt.ofInt i.z, g.cs.x, g.cs.y, g.cs.z⟩

/-- `get_cell_volume` -/
def cellVolume (g : Grid α) : α := g.cs.x * g.cs.y * g.cs.z

/-- one axis of `is_inside`: returns (inside, index, position) -/
def insideAxis (periodic : Bool) (n : Int) (side : α) (i : Int) (p : α) : Bool × Int × α :=
  if !periodic then (decide (i ≥ 0 ∧ i < n), i, p)
  else
    -- if (index < 0) { index = n - 1; position += side; }
    let i1 := if i < 0 then n - 1 else i
    let p1 := if i < 0 then p + side else p
    -- if (index >= n) { index = 0; position -= side; }
    let i2 := if i1 ≥ n then (0 : Int) else i1
    let p2 := if i1 ≥ n then p1 - side else p1
    (true, i2, p2)

/-- `is_inside(index, position)` (both arguments are updated in place by the C++) -/
def isInside (g : Grid α) (i : I3) (p : V3 α) : Bool × I3 × V3 α :=
  let rx := insideAxis g.px g.n.x g.box.sx i.x p.x
  let ry := insideAxis g.py g.n.y g.box.sy i.y p.y
  let rz := insideAxis g.pz g.n.z g.box.sz i.z p.z
  (rx.1 && ry.1 && rz.1, ⟨rx.2.1, ry.2.1, rz.2.1⟩, ⟨rx.2.2, ry.2.2, rz.2.2⟩)

/-- `a == b` on doubles that are not NaN -/
def feq (a b : α) : Bool := !(decide (a < b)) && !(decide (b < a))

/-- `std::min(a, b)` = `(b < a) ? b : a` -/
def fmin (a b : α) : α := if b < a then b else a

/-- distance along the ray to the wall of one axis (`DBL_MAX` for a zero direction component) -/
def wallDist (big o d inv bottom top : α) : α :=
  if d > 0.0 then (top - o) * inv else if d < 0.0 then (bottom - o) * inv else big

/-- `next_index[i] = (dx == ds) ? ((direction > 0.) ? 1 : -1) : 0` -/
def nextIdx (dx ds d : α) : Int := if feq dx ds then (if d > 0.0 then 1 else -1) else 0

/-- `get_wall_intersection`: (next wall position, next index offsets, ds) -/
def wallIntersection (big : α) (o d inv : V3 α) (cell : Box3 α) : V3 α × I3 × α :=
  let topx := cell.ax + cell.sx
  let topy := cell.ay + cell.sy
  let topz := cell.az + cell.sz
  let dx := wallDist big o.x d.x inv.x cell.ax topx
  let dy := wallDist big o.y d.y inv.y cell.ay topy
  let dz := wallDist big o.z d.z inv.z cell.az topz
  let ds := fmin dx (fmin dy dz)
  (⟨o.x + d.x * ds, o.y + d.y * ds, o.z + d.z * ds⟩,
   ⟨nextIdx dx ds d.x, nextIdx dy ds d.y, nextIdx dz ds d.z⟩, ds)

/-- `get_long_index` -/
def longIndex (n : I3) (i : I3) : Int := i.x * (n.y * n.z) + i.y * n.z + i.z

/-- `get_indices(long_index)` -/
def indicesOf (n : I3) (l : Int) : I3 :=
  let ix := l / (n.y * n.z)
  let l1 := l - ix * n.y * n.z
  let iy := l1 / n.z
  let l2 := l1 - iy * n.z
  ⟨ix, iy, l2⟩

/-- the photon and the cell contents the loop reads -/
structure Medium (α : Type) where
  sigH : α                    -- photon.get_cross_section(ION_H_n)
  sigHe : α                   -- photon.get_cross_section_He_corr()
  dens : Int → α              -- number density of the cell with this long index
  xH : Int → α                -- neutral hydrogen fraction
  xHe : Int → α               -- neutral helium fraction

/-- `get_optical_depth(ds, cell, photon)` (HAS_HELIUM, no VARIABLE_ABUNDANCES) -/
def opticalDepth (m : Medium α) (c : Int) (ds : α) : α :=
  ds * m.dens c * (m.sigH * m.xH c + m.sigHe * m.xHe c)

/-- state of the `interact` loop -/
structure St (α : Type) where
  pos : V3 α
  idx : I3
  od : α                          -- optical_depth still to be used up
  path : List (Int × α)           -- (long index, ds) of every loop iteration, newest first
  last : Option Int               -- last_cell
  s : α                           -- S

/-- loop body (lines 392-434), entered with `pos`/`idx` already wrapped by `is_inside` -/
def body (big : α) (g : Grid α) (m : Medium α) (d inv : V3 α) (st : St α) : St α :=
  let cell := cellBox g st.idx
  let w := wallIntersection big st.pos d inv cell
  let wall := w.1
  let nidx := w.2.1
  let ds := w.2.2
  let c := longIndex g.n st.idx
  let tau := opticalDepth m c ds
  let od := st.od - tau
  if od < 0.0 then
    let scorr := ds * od / tau
    -- photon_origin += (next_wall - photon_origin) * (ds + Scorr) / ds;
    let pos : V3 α := ⟨st.pos.x + (wall.x - st.pos.x) * (ds + scorr) / ds,
      st.pos.y + (wall.y - st.pos.y) * (ds + scorr) / ds,
      st.pos.z + (wall.z - st.pos.z) * (ds + scorr) / ds⟩
    let ds' := ds + scorr
    { pos := pos, idx := st.idx, od := od, path := (c, ds') :: st.path, last := some c, s := st.s + ds' }
  else
    { pos := wall, idx := ⟨st.idx.x + nidx.x, st.idx.y + nidx.y, st.idx.z + nidx.z⟩, od := od,
      path := (c, ds) :: st.path, last := some c, s := st.s + ds }

/-- the state after the `is_inside` call of the loop condition (index and position wrapped) -/
def wrapSt (g : Grid α) (st : St α) : St α :=
  { st with idx := (isInside g st.idx st.pos).2.1, pos := (isInside g st.idx st.pos).2.2 }

/-- `while (is_inside(index, photon_origin) && optical_depth > 0.) { body }` with fuel;
returns the state at loop exit (after the last `is_inside` call, which may still wrap the
position) and whether the loop really ended -/
def loop (big : α) (g : Grid α) (m : Medium α) (d inv : V3 α) : Nat → St α → St α × Bool
  | 0, st => (st, false)
  | fuel + 1, st =>
    if (isInside g st.idx st.pos).1 && decide (st.od > 0.0) then
      loop big g m d inv fuel (body big g m d inv (wrapSt g st))
    else (wrapSt g st, true)

/-- result of `interact` -/
structure Result (α : Type) where
  pos : V3 α                     -- photon.get_position() afterwards
  cell : Option Int              -- long index of the returned iterator, `none` = end()
  path : List (Int × α)
  od : α
  finished : Bool
  ncell : Nat

/-- `interact(photon, optical_depth)` -/
def interact (big : α) (g : Grid α) (m : Medium α) (p d inv : V3 α) (tau : α) (fuel : Nat) : Result α :=
  let st0 : St α := ⟨p, cellIndices g p, tau, [], none, 0.0⟩
  let r := loop big g m d inv fuel st0
  let st := r.1
  -- if (!is_inside(index, photon_origin)) last_cell = end();
  { pos := st.pos, cell := if (isInside g st.idx st.pos).1 then st.last else none, path := st.path, od := st.od,
    finished := r.2, ncell := st.path.length }

/-! ### the photon's direction and its cached inverse (`Photon.hpp`)

`interact` reads `photon.get_direction()` and `photon.get_inverse_direction()`; the two ways the
drivers give a photon a direction are the constructor (primary photons) and `set_direction`
(`PhotonSource::reemit`, `DustScattering`, `DustPhotonShootJob`, the task based re-emission). -/

/-- direction and cached inverse direction of a `Photon` -/
structure PhotonDir (α : Type) where
  dir : V3 α
  inv : V3 α

/-- `Photon(position, direction, energy)`: `_inverse_direction(1./direction.x(), …)` -/
def PhotonDir.new (d : V3 α) : PhotonDir α := ⟨d, ⟨1.0 / d.x, 1.0 / d.y, 1.0 / d.z⟩⟩

/-- `set_direction(direction)`: `_inverse_direction[i] = 1. / direction[i]` -/
def PhotonDir.setDirection (_ph : PhotonDir α) (d : V3 α) : PhotonDir α := ⟨d, ⟨1.0 / d.x, 1.0 / d.y, 1.0 / d.z⟩⟩

/-- `interact(photon, optical_depth)` for a photon object -/
def interactPhoton (big : α) (g : Grid α) (m : Medium α) (p : V3 α) (ph : PhotonDir α) (tau : α) (fuel : Nat) : Result α :=
  interact big g m p ph.dir ph.inv tau fuel

/-! ### neighbours (`get_neighbours`) -/

/-- the neighbour across the low (`up = false`) / high face of one axis: `none` = `end()`
(reflective boundary) -/
def ngbAxis (periodic : Bool) (n i : Int) (up : Bool) : Option Int :=
  if !up then
    if i > 0 then some (i - 1) else if periodic then some (n - 1) else none
  else
    if i < n - 1 then some (i + 1) else if periodic then some 0 else none

/-- the six entries of `get_neighbours` in the order the C++ pushes them
(x low, x high, y low, y high, z low, z high), as long indices -/
def neighbours (g : Grid α) (i : I3) : List (Option Int) :=
  [ (ngbAxis g.px g.n.x i.x false).map (fun v => longIndex g.n ⟨v, i.y, i.z⟩),
    (ngbAxis g.px g.n.x i.x true).map (fun v => longIndex g.n ⟨v, i.y, i.z⟩),
    (ngbAxis g.py g.n.y i.y false).map (fun v => longIndex g.n ⟨i.x, v, i.z⟩),
    (ngbAxis g.py g.n.y i.y true).map (fun v => longIndex g.n ⟨i.x, v, i.z⟩),
    (ngbAxis g.pz g.n.z i.z false).map (fun v => longIndex g.n ⟨i.x, i.y, v⟩),
    (ngbAxis g.pz g.n.z i.z true).map (fun v => longIndex g.n ⟨i.x, i.y, v⟩) ]
end

end CMacVerif.Cartesian
