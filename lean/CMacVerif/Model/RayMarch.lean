import CMacVerif.Arith
import CMacVerif.Gen.TravelDirectionsC02
/-!
# Model of `DensitySubGrid::interact`, `propagate`, `compute_optical_depth`
(src/DensitySubGrid.hpp) — cell-by-cell ray march (C02)

Statement-by-statement mirror of `interact` (lines ~1137-1274) and of the helpers it calls:
`update_photon_position` (248-365), `get_{x,y,z}_index`/`get_start_index` (376-546, 634-685),
`is_inside`, `get_optical_depth` (HAS_HELIUM, no VARIABLE_ABUNDANCES), `update_intensity_counters`
(593-620), `get_one_index`, `get_output_direction` (699-727) with the mask table of
`TravelDirections::get_output_direction` (generated: `Gen/TravelDirectionsC02.lean`).

Generic over the standard operator classes (DESIGN §2.1), **sqrt-free**: only `+ - * /`, `<`, `≤`,
`==` and scientific literals.  Instantiated at `Float` (driver), `Rat` (exact run), and at any
linear ordered field (theorems, `Props/C02.lean`).

Conventions
* a vector is a strict 3-field structure `V3`; per-axis code is written once as a function of
  the axis `Ax` and assembled with `V3.of` (the C++ writes the three axes out by hand);
* cell indices are `Int` (the C++ `int_fast32_t` index leaves the range as `-1` or `n`);
* `(double) k` for a small non-negative integer `k` is `ofNat k` (repeated `+ 1.0`, exact in
  doubles); the C++ cast `double → int` of `x * inv_cell_size` (truncation; `x ≥ 0` on the
  domain) is `floorUpTo n x`, a search for the largest `k ≤ n` with `(double) k ≤ x` — it
  agrees with the cast for `0 ≤ x < n+1`; larger values give `n` instead of the cast, which makes
  no difference after the `std::min(index, n - 1)` of `get_{x,y,z}_index`;
* `DBL_MAX` is the literal `dblMax`.
-/
namespace CMacVerif.RayMarch
open CMacVerif.Gen

/-- coordinate axes (the C++ loops `idim = 0,1,2` or writes the three cases out) -/
inductive Ax where
  | x | y | z
deriving DecidableEq, Repr

structure V3 (β : Type) where
  x : β
  y : β
  z : β
deriving Repr

def V3.get {β : Type} (v : V3 β) : Ax → β
  | .x => v.x
  | .y => v.y
  | .z => v.z

def V3.of {β : Type} (f : Ax → β) : V3 β := ⟨f .x, f .y, f .z⟩

/-! ## generated tables (entry classification) -/

def triple (t : Nat × Nat × Nat) : Ax → Nat
  | .x => t.1
  | .y => t.2.1
  | .z => t.2.2

/-- `get_x_index` etc.: 0 = computed from the position, 1 = lower limit, 2 = upper limit -/
def idxKind (dir : Nat) (a : Ax) : Nat := triple (TDC02.idxKindTab.getD dir (3, 3, 3)) a
/-- `update_photon_position`: 0 = kept, 1 = set to 0, 2 = set to `n * cell_size` -/
def pinKind (dir : Nat) (a : Ax) : Nat := triple (TDC02.pinTab.getD dir (3, 3, 3)) a
/-- `TravelDirections::get_output_direction(mask)` -/
def maskDir (m : Nat) : Int := TDC02.maskTab.getD m (-1)

/-- column of the compatibility tables: sign pattern of a direction -/
def sgnCode (neg pos : Bool) : Nat := if pos then 2 else if neg then 0 else 1
def compatIn (dir : Nat) (sx sy sz : Nat) : Bool :=
  (TDC02.compatInTab.getD dir []).getD (9 * sx + 3 * sy + sz) false
def compatOut (dir : Nat) (sx sy sz : Nat) : Bool :=
  (TDC02.compatOutTab.getD dir []).getD (9 * sx + 3 * sy + sz) false

section
variable {α : Type} [Add α] [Sub α] [Mul α] [Div α] [LT α] [LE α] [BEq α]
  [DecidableLT α] [DecidableLE α] [OfScientific α]

/-- `DBL_MAX` -/
def dblMax : α := 1.7976931348623157e308

/-- `(double) k`, `k ≥ 0` small -/
def ofNat : Nat → α
  | 0 => 0.0
  | k + 1 => ofNat k + 1.0

/-- `(double) i` for an in-range (non-negative) index -/
def ofIdx (i : Int) : α := ofNat i.toNat

/-- `(int_fast32_t) x` for `0 ≤ x`, clamped at `n` -/
def floorUpTo : Nat → α → Nat
  | 0, _ => 0
  | k + 1, x => if (ofNat (k + 1) : α) ≤ x then k + 1 else floorUpTo k x

/-! ## data -/

/-- the members of `DensitySubGrid` the march reads -/
structure Block (α : Type) where
  anchor : V3 α
  cs : V3 α        -- `_cell_size`
  inv : V3 α       -- `_inv_cell_size`
  n : V3 Nat       -- `_number_of_cells[0..2]`

/-- constructor `DensitySubGrid(box, ncell)`: `_cell_size = box[3+i] / ncell[i]`,
`_inv_cell_size = ncell[i] / box[3+i]` -/
def mkBlock (anchor side : V3 α) (n : V3 Nat) : Block α :=
  { anchor := anchor
    cs := V3.of fun a => side.get a / ofNat (n.get a)
    inv := V3.of fun a => ofNat (n.get a) / side.get a
    n := n }

/-- what `interact` reads from the `PhotonPacket` (`sigX`: cross section of one further ion, the
mean-intensity loop runs over all ions with the same expression) -/
structure Photon (α : Type) where
  pos : V3 α
  dir : V3 α
  tau : α          -- target optical depth
  sigH : α
  sigHe : α
  sigX : α
  w : α            -- weight
  nu : α           -- energy (Hz)

/-- what `interact` reads from a cell's `IonizationVariables` -/
structure Cell (α : Type) where
  n : α            -- number density
  xH : α           -- neutral fraction of H
  xHe : α          -- neutral fraction of He

/-- one pass through `update_intensity_counters`: the cell and what is added to its counters -/
structure Visit (α : Type) where
  idx : V3 Int     -- three_index of the cell
  cell : Int       -- active_cell (one index)
  path : α         -- lmin handed to update_intensity_counters
  jH : α           -- increment of mean_intensity[ION_H_n]
  jHe : α          -- increment of mean_intensity[ION_He_n]
  jX : α           -- increment of mean_intensity[other ion]
  hH : α           -- increment of heating[HEATINGTERM_H]
  hHe : α          -- increment of heating[HEATINGTERM_He]

/-- loop state of `interact` -/
structure St (α : Type) where
  pos : V3 α       -- position relative to the anchor
  idx : V3 Int     -- three_index
  tauDone : α
  out : List (Visit α)   -- newest first

/-! ## entry: `update_photon_position`, `get_start_index` -/

/-- `_number_of_cells[a] * _cell_size[a]` -/
def top (b : Block α) (a : Ax) : α := ofNat (b.n.get a) * b.cs.get a

/-- `photon.get_position() - _anchor` -/
def relPos (b : Block α) (p : V3 α) : V3 α := V3.of fun a => p.get a - b.anchor.get a

def pinAxis (b : Block α) (inDir : Nat) (p : V3 α) (a : Ax) : α :=
  match pinKind inDir a with
  | 0 => p.get a
  | 1 => 0.0
  | _ => top b a

/-- `update_photon_position(input_direction, position)` -/
def pinPos (b : Block α) (inDir : Nat) (p : V3 α) : V3 α := V3.of (pinAxis b inDir p)

/-- `std::min(i, n - 1)` on `int_fast32_t` (`std::min(a, b)` = `(b < a) ? b : a`) -/
def clampIdx (i m : Int) : Int := if m < i then m else i

/-- `get_x_index` etc.; a computed index is clamped to the last cell
(`std::min(static_cast<int_fast32_t>(x * _inv_cell_size), _number_of_cells - 1)`): a position
exactly on the upper boundary of the box belongs to the last cell -/
def startIdxAxis (b : Block α) (inDir : Nat) (p : V3 α) (a : Ax) : Int :=
  match idxKind inDir a with
  | 0 => clampIdx (floorUpTo (b.n.get a) (p.get a * b.inv.get a) : Nat) ((b.n.get a : Int) - 1)
  | 1 => 0
  | _ => (b.n.get a : Int) - 1

/-- the index rule BEFORE the clamp was introduced (`return x * _inv_cell_size[0];`), kept to
state what the old code did with a start on the upper block boundary (`Props/C02.lean`,
`old_code_upper_boundary_index_outside`) -/
def startIdxAxisOld (b : Block α) (inDir : Nat) (p : V3 α) (a : Ax) : Int :=
  match idxKind inDir a with
  | 0 => (floorUpTo (b.n.get a) (p.get a * b.inv.get a) : Nat)
  | 1 => 0
  | _ => (b.n.get a : Int) - 1

/-- `get_start_index` (three_index part) -/
def startIdx (b : Block α) (inDir : Nat) (p : V3 α) : V3 Int := V3.of (startIdxAxis b inDir p)

/-- `get_one_index` -/
def oneIndex (n : V3 Nat) (i : V3 Int) : Int :=
  i.x * ((n.y : Int) * (n.z : Int)) + i.y * (n.z : Int) + i.z

/-- `is_inside(three_index)` -/
def inside (n : V3 Nat) (i : V3 Int) : Bool :=
  decide (i.x < (n.x : Int)) && decide (i.x ≥ 0) && decide (i.y < (n.y : Int)) && decide (i.y ≥ 0) &&
    decide (i.z < (n.z : Int)) && decide (i.z ≥ 0)

/-! ## one pass through the loop body -/

/-- `cell_low[a] = three_index[a] * _cell_size[a]` -/
def cellLo (b : Block α) (i : V3 Int) (a : Ax) : α := ofIdx (i.get a) * b.cs.get a
/-- `cell_high[a] = (three_index[a] + 1.) * _cell_size[a]` -/
def cellHi (b : Block α) (i : V3 Int) (a : Ax) : α := (ofIdx (i.get a) + 1.0) * b.cs.get a

/-- `inverse_direction = 1. / direction` -/
def invDir (d : V3 α) : V3 α := V3.of fun a => 1.0 / d.get a

/-- distance to the wall the packet is heading for along one axis (`l[idim]`) -/
def wallDist (d id lo hi p : α) : α :=
  if 0.0 < d then (hi - p) * id else if d < 0.0 then (lo - p) * id else dblMax

/-- `std::min(l[0], std::min(l[1], l[2]))` -/
def lmin3 (l : V3 α) : α := amin l.x (amin l.y l.z)

/-- `get_optical_depth(active_cell, distance, photon)` (HAS_HELIUM, fixed abundances) -/
def opticalDepth (c : Cell α) (ph : Photon α) (dist : α) : α :=
  dist * c.n * (ph.sigH * c.xH + ph.sigHe * c.xHe)

/-- everything the loop body computes before it branches on the target optical depth -/
structure Geo (α : Type) where
  lo : V3 α
  hi : V3 α
  l : V3 α
  lmin : α
  ac : Int
  tau : α
  td : α           -- tau_done after `tau_done += tau`

def geo (b : Block α) (cells : Nat → Cell α) (ph : Photon α) (s : St α) : Geo α :=
  let lo := V3.of (cellLo b s.idx)
  let hi := V3.of (cellHi b s.idx)
  let id := invDir ph.dir
  let l := V3.of fun a => wallDist (ph.dir.get a) (id.get a) (lo.get a) (hi.get a) (s.pos.get a)
  let lmin := lmin3 l
  let ac := oneIndex b.n s.idx
  let tau := opticalDepth (cells ac.toNat) ph lmin
  { lo := lo, hi := hi, l := l, lmin := lmin, ac := ac, tau := tau, td := s.tauDone + tau }

/-- `three_index[idim] += (direction[idim] > 0.) ? 1 : -1` when `l[idim] == lmin` -/
def bumpAxis (d l lmin : α) (i : Int) : Int :=
  if l == lmin then (if 0.0 < d then i + 1 else i - 1) else i

/-- `position[a] = (l[a] == lmin) ? ((direction[a] > 0.) ? cell_high[a] : cell_low[a])
                                  : position[a] + lmin * direction[a]` -/
def newPosAxis (d l lmin lo hi p : α) : α :=
  if l == lmin then (if 0.0 < d then hi else lo) else p + lmin * d

def newPos (ph : Photon α) (g : Geo α) (lmin : α) (p : V3 α) : V3 α :=
  V3.of fun a => newPosAxis (ph.dir.get a) (g.l.get a) lmin (g.lo.get a) (g.hi.get a) (p.get a)

/-- `update_intensity_counters(active_cell, distance, photon)` -/
def visit (ph : Photon α) (i : V3 Int) (ac : Int) (dist : α) : Visit α :=
  let jH := dist * ph.sigH * ph.w
  let jHe := dist * ph.sigHe * ph.w
  { idx := i, cell := ac, path := dist, jH := jH, jHe := jHe, jX := dist * ph.sigX * ph.w
    hH := jH * (ph.nu - 3.288e15), hHe := jHe * (ph.nu - 5.948e15) }

/-- branch `tau_done >= tau_target`: subtract the surplus from the path, keep the index -/
def stop (ph : Photon α) (s : St α) (g : Geo α) : St α :=
  let correction := (g.td - ph.tau) / g.tau
  let lmin := g.lmin * (1.0 - correction)
  { pos := newPos ph g lmin s.pos, idx := s.idx, tauDone := g.td
    out := visit ph s.idx g.ac lmin :: s.out }

/-- branch "photon leaves cell": bump every index whose wall distance equals `lmin` -/
def leave (ph : Photon α) (s : St α) (g : Geo α) : St α :=
  { pos := newPos ph g g.lmin s.pos
    idx := V3.of fun a => bumpAxis (ph.dir.get a) (g.l.get a) g.lmin (s.idx.get a)
    tauDone := g.td
    out := visit ph s.idx g.ac g.lmin :: s.out }

/-- loop body -/
def step (b : Block α) (cells : Nat → Cell α) (ph : Photon α) (s : St α) : St α :=
  let g := geo b cells ph s
  if ph.tau ≤ g.td then stop ph s g else leave ph s g

/-- `while (tau_done < tau_target && is_inside(three_index))`, with fuel; the flag tells whether
the loop ended by its own condition (`true`) or ran out of fuel (`false`, never happens:
theorem `fuel_sufficient`) -/
def march (b : Block α) (cells : Nat → Cell α) (ph : Photon α) : Nat → St α → St α × Bool
  | 0, s => (s, false)
  | f + 1, s =>
    if s.tauDone < ph.tau && inside b.n s.idx then march b cells ph f (step b cells ph s)
    else (s, true)

def fuel (n : V3 Nat) : Nat := n.x + n.y + n.z + 1

/-! ## exit: `get_output_direction` -/

def b2n (c : Bool) : Nat := if c then 1 else 0

/-- the six range checks combined into the 6 bit mask -/
def exitMask (n : V3 Nat) (i : V3 Int) : Nat :=
  let xl := decide (i.x < 0)
  let xh := decide (Int.tdiv i.x (n.x : Int) > 0)
  let yl := decide (i.y < 0)
  let yh := decide (Int.tdiv i.y (n.y : Int) > 0)
  let zl := decide (i.z < 0)
  let zh := decide (Int.tdiv i.z (n.z : Int) > 0)
  32 * b2n xh + 16 * b2n xl + 8 * b2n yh + 4 * b2n yl + 2 * b2n zh + b2n zl

def outputDirection (n : V3 Nat) (i : V3 Int) : Int := maskDir (exitMask n i)

/-- what `interact` leaves behind -/
structure Result (α : Type) where
  visits : List (Visit α)   -- in order of traversal
  pos : V3 α                -- `photon.get_position()` afterwards (absolute)
  tauLeft : α               -- `photon.get_target_optical_depth()` afterwards
  outDir : Int              -- return value
  finished : Bool           -- loop ended before the fuel ran out
  last : St α               -- final loop state (position relative to the anchor, index)

def initSt (b : Block α) (ph : Photon α) (inDir : Nat) : St α :=
  let p := pinPos b inDir (relPos b ph.pos)
  { pos := p, idx := startIdx b inDir p, tauDone := 0.0, out := [] }

/-- `DensitySubGrid::interact(photon, input_direction)` -/
def interact (b : Block α) (cells : Nat → Cell α) (ph : Photon α) (inDir : Nat) : Result α :=
  let r := march b cells ph (fuel b.n) (initSt b ph inDir)
  let s := r.1
  { visits := s.out.reverse
    pos := V3.of fun a => s.pos.get a + b.anchor.get a
    tauLeft := ph.tau - s.tauDone
    outDir := if ph.tau ≤ s.tauDone then (TDC02.dirInside : Int) else outputDirection b.n s.idx
    finished := r.2
    last := s }

/-! ## the counters of the cells (`IonizationVariables::increase_mean_intensity`,
`increase_heating`: `_mean_intensity[ion] += increment`, `_heating[name] += increment`) -/

/-- the counters of one cell that `update_intensity_counters` touches -/
structure Counters (α : Type) where
  jH : α           -- `_mean_intensity[ION_H_n]`
  jHe : α          -- `_mean_intensity[ION_He_n]`
  jX : α           -- `_mean_intensity[other ion]`
  hH : α           -- `_heating[HEATINGTERM_H]`
  hHe : α          -- `_heating[HEATINGTERM_He]`

/-- one call of `update_intensity_counters` on the counters of its cell -/
def Counters.add (c : Counters α) (v : Visit α) : Counters α :=
  { jH := c.jH + v.jH, jHe := c.jHe + v.jHe, jX := c.jX + v.jX, hH := c.hH + v.hH, hHe := c.hHe + v.hHe }

/-- the counters of all cells after the visits of a traversal, in order of traversal -/
def deposit (ctr : Nat → Counters α) (vs : List (Visit α)) : Nat → Counters α :=
  vs.foldl (fun m v => fun c => if c = v.cell.toNat then (m c).add v else m c) ctr

/-! ## the two other traversals of `DensitySubGrid`: `propagate`, `compute_optical_depth`

Both repeat the loop of `interact` verbatim, with two differences at entry and in the body:
neither calls `update_photon_position` (the position is used as handed over) and neither calls
`update_intensity_counters`; `compute_optical_depth` in addition has no optical depth test at
all: it walks the whole line through the block and ADDS the optical depth found to the packet. -/

/-- loop and result assembly of `interact`/`propagate` from a given loop-entry state -/
def traverse (b : Block α) (cells : Nat → Cell α) (ph : Photon α) (s0 : St α) : Result α :=
  let r := march b cells ph (fuel b.n) s0
  let s := r.1
  { visits := s.out.reverse
    pos := V3.of fun a => s.pos.get a + b.anchor.get a
    tauLeft := ph.tau - s.tauDone
    outDir := if ph.tau ≤ s.tauDone then (TDC02.dirInside : Int) else outputDirection b.n s.idx
    finished := r.2
    last := s }

/-- loop entry of `propagate` and `compute_optical_depth`: `position - _anchor` as it is (no
`update_photon_position`), `get_start_index` -/
def initStNoPin (b : Block α) (ph : Photon α) (inDir : Nat) : St α :=
  let p := relPos b ph.pos
  { pos := p, idx := startIdx b inDir p, tauDone := 0.0, out := [] }

/-- `DensitySubGrid::propagate(photon, input_direction)`.  The `visits` of the result are a ghost
record (cell and path of every pass): `propagate` itself touches no counter. -/
def propagate (b : Block α) (cells : Nat → Cell α) (ph : Photon α) (inDir : Nat) : Result α :=
  traverse b cells ph (initStNoPin b ph inDir)

/-- loop body of `compute_optical_depth`: always "photon leaves cell" -/
def stepFree (b : Block α) (cells : Nat → Cell α) (ph : Photon α) (s : St α) : St α :=
  leave ph s (geo b cells ph s)

/-- `while (is_inside(three_index))`, with fuel -/
def marchFree (b : Block α) (cells : Nat → Cell α) (ph : Photon α) : Nat → St α → St α × Bool
  | 0, s => (s, false)
  | f + 1, s =>
    if inside b.n s.idx then marchFree b cells ph f (stepFree b cells ph s) else (s, true)

/-- what `compute_optical_depth` leaves behind -/
structure CodResult (α : Type) where
  tau : α                   -- `photon.get_target_optical_depth()` afterwards (old value + tau_done)
  pos : V3 α                -- `photon.get_position()` afterwards (absolute)
  outDir : Int              -- return value
  finished : Bool
  last : St α               -- final loop state; `last.out` = ghost record of the passes

/-- `DensitySubGrid::compute_optical_depth(photon, input_direction)` -/
def computeOpticalDepth (b : Block α) (cells : Nat → Cell α) (ph : Photon α) (inDir : Nat) :
    CodResult α :=
  let r := marchFree b cells ph (fuel b.n) (initStNoPin b ph inDir)
  let s := r.1
  { tau := ph.tau + s.tauDone
    pos := V3.of fun a => s.pos.get a + b.anchor.get a
    outDir := outputDirection b.n s.idx
    finished := r.2
    last := s }

end
end CMacVerif.RayMarch
