import CMacVerif.Model.GridNum
import CMacVerif.Arith
/-
Model of `Octree` / `OctreeNode` (src/Octree.hpp, src/OctreeNode.hpp): construction
(`add_position` 93-147, root = position 0), `set_variable` with `max` (228-243) and the searches
`get_ngbs` / `get_ngbs_sphere` / `get_closest_ngb` (walks start at `get_first_node`), with the
distances of `Box` (`get_distance` 166-179, `periodic_distance` 114-160).

The child/sibling pointers set by `collapse` make the search loop a depth-first traversal of the
existing children in index order that skips a subtree when the opening criterion fails; the model
is that recursion.  Numeric code generic; core Lean only.
-/
namespace CMacVerif.Oct
open CMacVerif.GridNum

/-- a node: empty slot, leaf (index of the position), or internal node with its box, its
accumulated variable and eight child slots -/
inductive OT (α : Type) where
  | empty : OT α
  | leaf (idx : Nat) : OT α
  | node (box : Box3 α) (var : α) (kids : Fin 8 → OT α) : OT α

section
variable {α : Type} [Add α] [Sub α] [Mul α] [Div α] [Neg α] [LT α] [LE α] [DecidableLT α]
  [DecidableLE α] [OfScientific α] [Trunc α] [OfInt α] [ArithFns α]

/-- `uint_fast8_t ix = 2 * (p.x() - box.get_anchor().x()) / box.get_sides().x();` -/
def childIdx (p a s : α) : Nat := Trunc.toNat (2.0 * (p - a) / s)

def cellOf (p : V3 α) (b : Box3 α) : Nat :=
  4 * childIdx p.x b.ax b.sx + 2 * childIdx p.y b.ay b.sy + childIdx p.z b.az b.sz

/-- `box.get_sides() *= 0.5; box.get_anchor()[i] += ix * box.get_sides()[i];` -/
def subBox (b : Box3 α) (p : V3 α) : Box3 α :=
  let sx := b.sx * 0.5
  let sy := b.sy * 0.5
  let sz := b.sz * 0.5
  ⟨b.ax + OfInt.ofNat (childIdx p.x b.ax b.sx) * sx, b.ay + OfInt.ofNat (childIdx p.y b.ay b.sy) * sy,
   b.az + OfInt.ofNat (childIdx p.z b.az b.sz) * sz, sx, sy, sz⟩

def setKid (kids : Fin 8 → OT α) (k : Nat) (t : OT α) : Fin 8 → OT α :=
  fun i => if i.val = k % 8 then t else kids i

def getKid (kids : Fin 8 → OT α) (k : Nat) : OT α := kids ⟨k % 8, Nat.mod_lt _ (by decide)⟩

/-- `add_position(positions, index, box)` (fuel bounds the depth; variables are set later) -/
def addPos (pos : Nat → V3 α) (index : Nat) : Nat → OT α → Box3 α → OT α
  | 0, t, _ => t
  | fuel + 1, t, box =>
    -- a leaf first becomes a node holding its old position in a new child
    let (b, kids) : Box3 α × (Fin 8 → OT α) := match t with
      | .leaf old => (box, setKid (fun _ => .empty) (cellOf (pos old) box) (.leaf old))
      | .node b _ kids => (b, kids)
      | .empty => (box, fun _ => .empty)
    let k := cellOf (pos index) box
    match getKid kids k with
    | .empty => .node b 0.0 (setKid kids k (.leaf index))
    | child => .node b 0.0 (setKid kids k (addPos pos index fuel child (subBox box (pos index))))

/-- `std::max(a, b)` -/
def fmax (a b : α) : α := if a < b then b else a

/-- one step of the accumulation in `set_variable`: the first existing child initialises the
variable, the others are accumulated with `max` -/
def accStep (kids : Fin 8 → OT α) (r : Fin 8 → α) (a : Option α) (i : Fin 8) : Option α :=
  match kids i with
  | .empty => a
  | _ => match a with
    | none => some (r i)
    | some v => some (fmax v (r i))

def accGet (acc : Option α) : α := match acc with | some v => v | none => 0.0

/-- `set_variable(variables, max)`: returns the tree with the variables filled in -/
def setVar (h : Nat → α) : OT α → OT α × α
  | .empty => (.empty, 0.0)
  | .leaf i => (.leaf i, h i)
  | .node b _ kids =>
    let v := accGet ((List.finRange 8).foldl (accStep kids (fun i => (setVar h (kids i)).2)) none)
    (.node b v (fun i => (setVar h (kids i)).1), v)

/-- `(a - b).norm()` -/
def dist (a b : V3 α) : α :=
  ArithFns.sqrt ((a.x - b.x) * (a.x - b.x) + (a.y - b.y) * (a.y - b.y) + (a.z - b.z) * (a.z - b.z))

/-- one component of `Box::get_distance` -/
def boxDx (v a s : α) : α := if v ≥ a then (if v > a + s then v - a - s else 0.0) else v - a

/-- `Box::get_distance(v)` -/
def boxDist (b : Box3 α) (v : V3 α) : α :=
  let dx := boxDx v.x b.ax b.sx
  let dy := boxDx v.y b.ay b.sy
  let dz := boxDx v.z b.az b.sz
  ArithFns.sqrt (dx * dx + dy * dy + dz * dz)

def fmin (a b : α) : α := if b < a then b else a

/-- one component of `periodic_distance(a, b)` (vector version) -/
def perDx (c side : α) : α :=
  let c1 := if 2.0 * c < -side then c + side else c
  if 2.0 * c1 ≥ side then c1 - side else c1

def perDist (S : Box3 α) (a b : V3 α) : α :=
  let cx := perDx (a.x - b.x) S.sx
  let cy := perDx (a.y - b.y) S.sy
  let cz := perDx (a.z - b.z) S.sz
  ArithFns.sqrt (cx * cx + cy * cy + cz * cz)

/-- one component of `periodic_distance(box, v)` -/
def perBoxDx (v a s side : α) : α :=
  if v < a then fmin (a - v) (v - a - s + side)
  else if v > a + s then fmin (v - a - s) (a + side - v) else 0.0

def perBoxDist (S b : Box3 α) (v : V3 α) : α :=
  let dx := perBoxDx v.x b.ax b.sx S.sx
  let dy := perBoxDx v.y b.ay b.sy S.sy
  let dz := perBoxDx v.z b.az b.sz S.sz
  ArithFns.sqrt (dx * dx + dy * dy + dz * dz)

/-- the two searches with a radius (`get_ngbs` is radius 0 … the code adds no radius there):
`pd` = distance point–centre, `bd` = distance box–centre -/
def search (pd : Nat → α) (bd : Box3 α → α) (h : Nat → α) (radius : Option α) : OT α → List Nat
  | .empty => []
  | .leaf i =>
    let lim := match radius with | some r => h i + r | none => h i
    if pd i ≤ lim then [i] else []
  | .node b v kids =>
    let lim := match radius with | some r => v + r | none => v
    if bd b > lim then []
    else (List.finRange 8).foldl (fun acc i => acc ++ search pd bd h radius (kids i)) []

/-- the searches start with the first child of the root; a one-position tree has a leaf as root
and the walk starts (and ends) with the root itself (`get_first_node`) -/
def searchRoot (pd : Nat → α) (bd : Box3 α → α) (h : Nat → α) (radius : Option α) : OT α → List Nat
  | .node _ _ kids => (List.finRange 8).foldl (fun acc i => acc ++ search pd bd h radius (kids i)) []
  | t => search pd bd h radius t

/-- `get_closest_ngb`: depth first with the running minimum `(rmin, imin)` -/
def closest (pd : Nat → α) (bd : Box3 α → α) : OT α → α × Nat → α × Nat
  | .empty, s => s
  | .leaf i, s => if pd i ≤ s.1 then (pd i, i) else s
  | .node b _ kids, s =>
    if bd b > s.1 then s
    else (List.finRange 8).foldl (fun acc i => closest pd bd (kids i) acc) s

def closestRoot (pd : Nat → α) (bd : Box3 α → α) (big : α) : OT α → Nat
  | .node _ _ kids => ((List.finRange 8).foldl (fun acc i => closest pd bd (kids i) acc) (big, 0)).2
  | t => (closest pd bd t (big, 0)).2

/-- the constructor: root = position 0, then `add_position` for 1 … n-1, then the variables
(no positions: the walks of an empty tree start at `nullptr`) -/
def build (pos : Nat → V3 α) (n : Nat) (box : Box3 α) (h : Nat → α) : OT α :=
  if n = 0 then .empty else
  let t := (List.range (n - 1)).foldl (fun t i => addPos pos (i + 1) 64 t box) (.leaf 0)
  (setVar h t).1
end

end CMacVerif.Oct
