import CMacVerif.Model.ExactRiemann
/-!
# `ExactRiemannSolver::solve_for_flux` (src/ExactRiemannSolver.hpp lines 1020-1101), complete

The 1D solver `solve` (vacuum exits *and* the iterative Newton/Brent path with its samplers) is
the model of property C11, `ExactRiemann.solve` (read-only import); the frame change, the flux
assembly and the de-boost are the definitions of `Model/RiemannVacuum.lean`.  On inputs that take
a vacuum exit this is `RiemannVacuum.solveForFluxIfVacuum` (lemma `solveForFlux_vacuum`).

`fluxWith` is the same assembly around an *arbitrary* 1D solver: the flux-level symmetry theorems
are proved once for every 1D solver with the corresponding 1D symmetry (`Lemmas/ExactFlux.lean`).
Core Lean only.
-/
namespace CMacVerif.ExactFlux
open CMacVerif CMacVerif.RiemannVacuum

section
variable {α : Type} [Add α] [Sub α] [Mul α] [Div α] [Neg α] [LT α] [LE α]
  [DecidableLT α] [DecidableLE α] [OfScientific α] [ArithFns α]

/-- lines 1037-1100 around a 1D solver `S rhoL vL PL rhoR vR PR` (sampled at `x/t = 0`) -/
def fluxWith (G : α) (S : α → α → α → α → α → α → Sample α) (rhoL : α) (uL : V3 α) (PL rhoR : α)
    (uR : V3 α) (PR : α) (normal vface : V3 α) : Flux α :=
  let f := faceFrame uL uR normal vface
  fluxFromSample G (S rhoL f.vL PL rhoR f.vR PR) f normal vface

/-- `ExactRiemannSolver::solve` as a `Sample`: flag, `rhosol`, `usol`, `Psol` (and C11's branch id) -/
def solve1D (ovf g : α) (newtonFuel brentFuel : Nat) (rhoL uL PL rhoR uR PR dxdt : α) : Sample α :=
  let r := ExactRiemann.solve ovf g newtonFuel brentFuel rhoL uL PL rhoR uR PR dxdt
  ⟨r.2.1.rho, r.2.1.u, r.2.1.P, r.1, r.2.1.br⟩

/-- `ExactRiemannSolver(g).solve_for_flux(...)`; `newtonFuel`, `brentFuel` bound the two loops
(the C++ Newton loop has no counter, Brent's has `1e4`) -/
def solveForFlux (ovf g : α) (newtonFuel brentFuel : Nat) (rhoL : α) (uL : V3 α) (PL rhoR : α)
    (uR : V3 α) (PR : α) (normal vface : V3 α) : Flux α :=
  fluxWith (effGamma g)
    (fun rL vL pL rR vR pR => solve1D ovf g newtonFuel brentFuel rL vL pL rR vR pR 0.0)
    rhoL uL PL rhoR uR PR normal vface

/-- the same computation, returning also what `solve` returned (used by the driver, which prints
the flag next to the flux; `(solveForFluxS …).2 = solveForFlux …` by `rfl`) -/
def solveForFluxS (ovf g : α) (newtonFuel brentFuel : Nat) (rhoL : α) (uL : V3 α) (PL rhoR : α)
    (uR : V3 α) (PR : α) (normal vface : V3 α) : Sample α × Flux α :=
  let f := faceFrame uL uR normal vface
  let s := solve1D ovf g newtonFuel brentFuel rhoL f.vL PL rhoR f.vR PR 0.0
  (s, fluxFromSample (effGamma g) s f normal vface)

end
end CMacVerif.ExactFlux
