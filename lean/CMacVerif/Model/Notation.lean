import CMacVerif.Arith
import CMacVerif.Gen.Verner
/-!
# C18 — a photon frequency given in a parameter file (`frequency: 700. angstrom`)

Model of `UnitConverter::to_SI< QUANTITY_FREQUENCY >(value, unit)` for the units a spectrum
parameter can be written in (`UnitConverter.hpp`: `get_single_unit`, `to_SI`, and the two photon
conversions of `try_conversion`): a frequency unit is a plain scale, an energy is divided by `h`
(`value * unit * (1/h) / 1`), a wavelength is inverted and multiplied by `c`
(`1 / (value * unit) * c / 1`).  Core Lean only, generic arithmetic.
-/
namespace CMacVerif.Notation
open CMacVerif CMacVerif.Gen.Verner

/-- the notations the check drives -/
inductive FUnit
  | Hz | perSec | J | erg | eV | m | cm | km | angstrom
  deriving DecidableEq, Repr

def FUnit.ofString : String → Option FUnit
  | "Hz" => some .Hz | "s^-1" => some .perSec | "J" => some .J | "erg" => some .erg | "eV" => some .eV
  | "m" => some .m | "cm" => some .cm | "km" => some .km | "angstrom" => some .angstrom
  | _ => none

inductive Kind | frequency | energy | length
  deriving DecidableEq, Repr

def FUnit.kind : FUnit → Kind
  | .Hz => .frequency | .perSec => .frequency
  | .J => .energy | .erg => .energy | .eV => .energy
  | .m => .length | .cm => .length | .km => .length | .angstrom => .length

section
variable {α : Type} [Add α] [Sub α] [Mul α] [Div α] [Neg α] [LT α] [LE α]
  [DecidableLT α] [DecidableLE α] [OfScientific α] [ArithFns α]

/-- `_value` of `UnitConverter::get_single_unit(name)` -/
def FUnit.scale : FUnit → α
  | .Hz => 1.0 | .perSec => 1.0
  | .J => 1.0 | .erg => 1.0e-7 | .eV => electronvolt
  | .m => 1.0 | .cm => 0.01 | .km => 1000.0 | .angstrom => 1.0e-10

/-- PHYSICALCONSTANT_LIGHTSPEED -/
def lightspeed : α := 299792458.0

/-- `UnitConverter::to_SI< QUANTITY_FREQUENCY >(v, unit)` -/
def frequencyOf (u : FUnit) (v : α) : α :=
  match u.kind with
  | .frequency => v * u.scale
  | .energy => v * u.scale * (1.0 / planck) / 1.0
  | .length => 1.0 / (v * u.scale) * lightspeed / 1.0

end
end CMacVerif.Notation
