/-
C08 — shared scheduler containers at the granularity of single atomic operations.

Interleaving model (core Lean only) of
  * `AtomicValue<T>`           (src/AtomicValue.hpp)  — every member is ONE transition
  * `ThreadLock` (LOCK_ATOMIC) (src/ThreadLock.hpp)   — `lock` = CAS spin, `try_lock` = one CAS,
                                                        `unlock` = one CAS
  * `ThreadSafeVector<T>`      (src/ThreadSafeVector.hpp, THREADSAFEVECTOR_STATS on, assertions off)
        get_free_element, get_free_element_safe, free_element
  * `MemorySpace`              (src/MemorySpace.hpp)  get_free_buffer, free_buffer, add_photons
  * `Task`                     (src/Task.hpp)         lock_dependency, unlock_dependency,
                                                      set_dependency / set_extra_dependency
  * `TaskQueue`                (src/TaskQueue.hpp)    add_task, get_task, try_get_task, size
  * `LockFree::add`            (src/LockFree.hpp)     load + compare-exchange loop
  * the counter protocol of the hydro worker loop
    (src/TaskBasedRadiationHydrodynamicsSimulation.cpp, "reset the hydro tasks and add them to the
    queue" … `while (number_of_tasks.value() > 0)`): `seed` = `add_task; number_of_tasks.pre_increment()`
    of the initial loop, `setUnf` = `set_number_of_unfinished_parents`, `release` = the code after
    `unlock_dependency()`: for every child `decrement_number_of_unfinished_parents() == 0` ⇒
    `add_task(child); number_of_tasks.pre_increment()`, then `number_of_tasks.pre_decrement()`.

Semantics: sequentially consistent shared memory `Mem`; every thread has a program counter and
locals (`Thread`); `exec` performs ONE transition of one thread: exactly one `AtomicValue`
operation, or one piece of plain code (code executed under the queue lock, a plain read, the
dispatch of the next call).  `step s tid` lets thread `tid` move; an execution is a `List Nat` of
thread ids (`run`), of any length, over any number of threads.

Granularity notes (what one transition is)
  * the CAS retry loops are real loops in the model: a failed CAS leaves the program counter
    where the code would retry;
  * `AtomicValue::max` is modelled as its individual atomic operations: load; then the loop
    `compare_exchange(old, max(v, old))` — success: done / failure: reload `old`, recompute;
  * the plain code between two atomic operations is a separate *silent* transition
    (`PC.silent`), so the theorems also cover schedules in which another thread moves between
    the atomic operation and the plain code that follows it;
  * `TaskQueue`'s array + size are modelled as a `List Nat` (bottom first); the "close the gap"
    loop is `List.eraseIdx`.

The fields `addLog`, `popLog`, `inj`, `disc`, `lost`, `res` of a thread are ghost (history) variables.
-/
namespace CMacVerif.Atomics

/-- every `ThreadLock` of a scenario: resource locks (task dependencies, user locks) and the
lock inside every `TaskQueue` -/
inductive LockId where
  | dep (k : Nat)
  | queue (q : Nat)
deriving DecidableEq, Repr

/-- function update -/
def upd {α β : Type} [DecidableEq α] (f : α → β) (a : α) (b : β) : α → β :=
  fun x => if x = a then b else f x

/-- static part of a scenario -/
structure Cfg where
  /-- `ThreadSafeVector::_size` of the slot pool -/
  size : Nat
  /-- `PHOTONBUFFER_SIZE` -/
  cap : Nat
  /-- `Task::_dependency[0..1]` of every task index (`none` = `nullptr`) -/
  deps : Nat → Option Nat × Option Nat
  /-- `Task::_children` of every task index -/
  children : Nat → List Nat := fun _ => []
  /-- queue a released task is put into (queue of the thread that owns its subgrid) -/
  queueOf : Nat → Nat := fun _ => 0
  /-- number of task queues -/
  nq : Nat := 1

/-- `Task::set_dependency(d0)` followed by `Task::set_extra_dependency(d1)` (if `d1` is given):
a duplicate of the first dependency is ignored -/
def mkDeps (d0 d1 : Option Nat) : Option Nat × Option Nat :=
  (d0, if d1 = d0 then none else d1)

/-- the two setters of `Task` (src/Task.hpp), in the order in which a call site calls them -/
inductive SetOp where
  | dep (d : Nat)      -- Task::set_dependency(d):        _dependency[0] = d
  | extra (d : Nat)    -- Task::set_extra_dependency(d):  if (d != _dependency[0]) _dependency[1] = d
deriving DecidableEq, Repr

def applySet (t : Option Nat × Option Nat) : SetOp → Option Nat × Option Nat
  | .dep d => (some d, t.2)
  | .extra d => if some d = t.1 then t else (t.1, some d)

/-- `_dependency[0..1]` of a freshly constructed `Task` after a sequence of setter calls -/
def setupDeps (ops : List SetOp) : Option Nat × Option Nat := ops.foldl applySet (none, none)

/-- the calls a thread can make -/
inductive Cmd where
  | get                       -- ThreadSafeVector::get_free_element
  | getSafe                   -- ThreadSafeVector::get_free_element_safe = MemorySpace::get_free_buffer
  | free (j : Nat)            -- ThreadSafeVector::free_element(owned[j])
  | freeBuf (j : Nat)         -- MemorySpace::free_buffer(owned[j])
  | addPhotons (j n : Nat)    -- MemorySpace::add_photons(owned[j], buffer with n packets)
  | lock (k : Nat)            -- ThreadLock::lock
  | tryLock (k : Nat)         -- ThreadLock::try_lock
  | unlock (j : Nat)          -- ThreadLock::unlock(held[j])
  | lockTask (t : Nat)        -- Task::lock_dependency
  | unlockTask (j : Nat)      -- Task::unlock_dependency(tasks[j])
  | addTask (q t : Nat)       -- TaskQueue::add_task
  | getTask (q : Nat)         -- TaskQueue::get_task
  | tryGetTask (q : Nat)      -- TaskQueue::try_get_task
  | qsize (q : Nat)           -- TaskQueue::size (plain read)
  | inc (c : Nat)             -- AtomicValue::pre_increment
  | dec (c : Nat)             -- AtomicValue::pre_decrement
  | postInc (c : Nat)         -- AtomicValue::post_increment
  | preAdd (c : Nat) (v : Int)   -- AtomicValue::pre_add
  | postAdd (c : Nat) (v : Int)  -- AtomicValue::post_add
  | preSub (c : Nat) (v : Int)   -- AtomicValue::pre_subtract
  | load (c : Nat)            -- AtomicValue::value
  | await (c : Nat) (v : Int) -- while (counter.value() < v) {}   (phase barrier of a caller)
  | lfAdd (c : Nat) (v : Int) -- LockFree::add
  | setUnf (t : Nat) (v : Int) -- Task::set_number_of_unfinished_parents (reset_hydro_tasks)
  | seed (q t : Nat)          -- initial loop: queues[q]->add_task(t); number_of_tasks.pre_increment()
  | release                   -- worker loop, after unlock_dependency(): children, then pre_decrement
  | loadNum                   -- number_of_tasks.value()  (the loop condition)
  | maxC (c : Nat) (v : Int)  -- AtomicValue::max(v) on a free-standing maximum cell
  | loadMx (c : Nat)          -- AtomicValue::value() of a maximum cell
  | numActive                 -- ThreadSafeVector::get_number_of_active_elements / is_empty / size: _number_taken.value()
  | maintMark (code arg : Nat) -- place where the environment applies a maintenance call between phases
                              -- (Model/AtomicsMaint.lean); no transition of the thread itself
deriving DecidableEq, Repr

/-- value returned to the caller (logged, compared with the implementation) -/
inductive Res where
  | slot (i : Nat)
  | freed (i : Nat)
  | photons (out : Nat)
  | locked (k : Nat) (ok : Bool)
  | unlocked (k : Nat)
  | taskLocked (t : Nat) (ok : Bool)
  | taskUnlocked (t : Nat)
  | added (q t : Nat)
  | popped (q : Nat) (t : Option Nat)
  | qsize (q n : Nat)
  | val (c : Nat) (v : Int)
  | seeded (q t : Nat)
  | released (p : Nat) (n : Int)
  | num (v : Int)
  | maxed (c : Nat)
  | mxval (c : Nat) (v : Int)
  | active (v : Int)
  | maint (code arg : Nat)
  | skip
deriving DecidableEq, Repr

/-- where `Task::lock_dependency` was called from -/
inductive Ctx where
  | alone
  | pop (q i : Nat)     -- inside the scan of get_task / try_get_task, candidate position `i-1`
deriving DecidableEq, Repr

/-- what `add_task` is part of -/
inductive AddK where
  | plain                              -- a bare TaskQueue::add_task
  | seed                               -- initial loop of the hydro step: followed by ++number_of_tasks
  | rel (p : Nat) (rem : List Nat)     -- release of a child of finished task `p`, `rem` = children left
deriving DecidableEq, Repr

inductive PC where
  | idle
  -- ThreadSafeVector / MemorySpace; `r` = packets still to be placed (call from add_photons)
  | getCheck (r : Option Nat)              -- load  _number_taken
  | getInc (r : Option Nat)                -- post_increment _current_index
  | getCas (i : Nat) (r : Option Nat)      -- cas_lock _locks[i]
  | getCount (i : Nat) (r : Option Nat)    -- pre_increment _number_taken
  | getMax (i : Nat) (n : Int) (r : Option Nat)   -- _max_number_taken.max(n): old = load
  | getMaxCas (i : Nat) (n old : Int) (r : Option Nat)  -- … compare_exchange(old, max(n, old))
  | getTotal (i : Nat) (r : Option Nat)    -- pre_increment _total_number_taken
  | apFill (tgt n : Nat)                   -- plain: fill the target buffer
  | apPlace (i r : Nat)                    -- plain: remaining packets into the new buffer
  | crashed (r : Nat)                      -- add_photons found no free buffer (undefined behaviour)
  | freeReset (i : Nat)                    -- plain: PhotonBuffer::reset  (free_buffer wipes FIRST)
  | freeYield (i : Nat)                    -- plain: point between the wipe and the release (hook)
  | freeUnlock (i : Nat)                   -- cas_unlock _locks[i]
  | freeDec (i : Nat)                      -- pre_decrement _number_taken
  -- ThreadLock
  | lockSpin (k : Nat)
  | lockTry (k : Nat)
  | unlockL (k : Nat)
  -- Task::lock_dependency / unlock_dependency
  | tlStart (c : Ctx) (t : Nat)            -- plain: look at _dependency[0]
  | tl0 (c : Ctx) (t : Nat)                -- cas_lock dependency 0
  | tl1 (c : Ctx) (t : Nat)                -- cas_lock dependency 1
  | tlBack (c : Ctx) (t : Nat)             -- cas_unlock dependency 0 (roll back)
  | tuStart (t : Nat)                      -- plain: look at _dependency[0], _dependency[1]
  | tu1 (t : Nat)                          -- cas_unlock dependency 1
  | tu0 (t : Nat)                          -- cas_unlock dependency 0
  -- TaskQueue
  | addLock (q t : Nat) (k : AddK)         -- cas_lock queue lock (spin)
  | addBody (q t : Nat) (k : AddK)         -- plain, under the lock: store + ++size
  | addUnlock (q t : Nat) (k : AddK)       -- cas_unlock queue lock
  -- hydro worker loop counter protocol
  | numInc (q t : Nat) (k : AddK)          -- number_of_tasks.pre_increment() after add_task
  | relDec (p c : Nat) (rem : List Nat)    -- tasks[c].decrement_number_of_unfinished_parents()
  | retire (p : Nat)                       -- number_of_tasks.pre_decrement()
  | setUnf (t : Nat) (v : Int)             -- store
  | loadNum                                -- load
  -- AtomicValue::max on a free-standing cell
  | cMax (c : Nat) (v : Int)               -- old = load (first time, and the reload after a failed CAS)
  | cMaxCas (c : Nat) (v old : Int)        -- compare_exchange(old, max(v, old))
  | cLoadMx (c : Nat)                      -- load
  | loadTaken                              -- load _number_taken
  | popLock (q : Nat) (blocking : Bool)    -- cas_lock queue lock (spin / one attempt)
  | popInit (q : Nat)                      -- plain, under the lock: index = size
  | popScan (q i : Nat)                    -- plain, under the lock: loop test, read _queue[i-1]
  | popRemove (q j t : Nat)                -- plain, under the lock: task = _queue[j], close the gap
  | popUnlock (q : Nat) (r : Option Nat)   -- cas_unlock queue lock
  | qsz (q : Nat)                          -- plain read of _current_queue_size
  -- counters
  | cInc (c : Nat) | cDec (c : Nat) | cPostInc (c : Nat)
  | cPreAdd (c : Nat) (v : Int) | cPostAdd (c : Nat) (v : Int) | cPreSub (c : Nat) (v : Int)
  | cLoad (c : Nat)
  | cAwait (c : Nat) (v : Int)
  | lfLoad (c : Nat) (v : Int)             -- LockFree::add: old = *atom
  | lfCas (c : Nat) (v old : Int)          -- compare_exchange(old, old + v)
deriving DecidableEq, Repr

structure Thread where
  pc : PC := .idle
  prog : List Cmd := []
  /-- pool slots in the caller's hands -/
  owned : List Nat := []
  /-- resource locks taken with ThreadLock::lock / try_lock -/
  held : List Nat := []
  /-- tasks whose dependencies this thread holds (popped or lock_dependency succeeded) -/
  tasks : List Nat := []
  /-- tasks whose `unlock_dependency` completed and whose children are not yet released -/
  fin : List Nat := []
  /-- ghost: (queue, task) of every completed add_task body -/
  addLog : List (Nat × Nat) := []
  /-- ghost: (queue, task) of every task removed from a queue by this thread -/
  popLog : List (Nat × Nat) := []
  /-- ghost: packets handed to add_photons / thrown away by free_buffer -/
  inj : Nat := 0
  disc : Nat := 0
  /-- ghost: packets add_photons would silently drop because the target buffer already holds more
  than `PHOTONBUFFER_SIZE` packets (stays 0, see `no_photon_lost`) -/
  lost : Nat := 0
  /-- ghost: results, newest first -/
  res : List Res := []
deriving Repr

structure Mem where
  flags : Nat → Bool := fun _ => false     -- ThreadSafeVector::_locks
  cur : Nat := 0                           -- _current_index
  taken : Int := 0                         -- _number_taken
  maxTaken : Int := 0                      -- _max_number_taken
  totalTaken : Int := 0                    -- _total_number_taken
  count : Nat → Nat := fun _ => 0          -- PhotonBuffer::_actual_size of every slot
  locks : LockId → Bool := fun _ => false  -- ThreadLock::_lock
  items : Nat → List Nat := fun _ => []    -- TaskQueue::_queue[0 .. _current_queue_size)
  ctr : Nat → Int := fun _ => 0            -- free-standing AtomicValue counters
  unf : Nat → Int := fun _ => 0            -- Task::_number_of_unfinished_parents
  num : Int := 0                           -- number_of_tasks of the hydro worker loop
  mx : Nat → Int := fun _ => 0             -- free-standing AtomicValue cells updated with max()

structure State where
  mem : Mem := {}
  threads : List Thread := []

/-- return to the caller -/
def ret (th : Thread) (r : Res) : Thread := { th with pc := .idle, res := r :: th.res }

/-- `l[j mod |l|]` -/
def pick (l : List Nat) (j : Nat) : Option Nat := l[j % l.length]?

/-- first transition of a call: only locals change -/
def dispatch (cfg : Cfg) (th : Thread) : Cmd → Thread
  | .get => { th with pc := .getInc none }
  | .getSafe => { th with pc := .getCheck none }
  | .free j => match pick th.owned j with
    | some i => { th with pc := .freeUnlock i, owned := th.owned.erase i }
    | none => ret th .skip
  | .freeBuf j => match pick th.owned j with
    | some i => { th with pc := .freeReset i, owned := th.owned.erase i }
    | none => ret th .skip
  | .addPhotons j n => match pick th.owned j with
    | some i => { th with pc := .apFill i n }
    | none => ret th .skip
  | .lock k => { th with pc := .lockSpin k }
  | .tryLock k => { th with pc := .lockTry k }
  | .unlock j => match pick th.held j with
    | some k => { th with pc := .unlockL k, held := th.held.erase k }
    | none => ret th .skip
  | .lockTask t => { th with pc := .tlStart .alone t }
  | .unlockTask j => match pick th.tasks j with
    | some t => { th with pc := .tuStart t, tasks := th.tasks.erase t }
    | none => ret th .skip
  | .addTask q t => { th with pc := .addLock q t .plain }
  | .getTask q => { th with pc := .popLock q true }
  | .tryGetTask q => { th with pc := .popLock q false }
  | .qsize q => { th with pc := .qsz q }
  | .inc c => { th with pc := .cInc c }
  | .dec c => { th with pc := .cDec c }
  | .postInc c => { th with pc := .cPostInc c }
  | .preAdd c v => { th with pc := .cPreAdd c v }
  | .postAdd c v => { th with pc := .cPostAdd c v }
  | .preSub c v => { th with pc := .cPreSub c v }
  | .load c => { th with pc := .cLoad c }
  | .await c v => { th with pc := .cAwait c v }
  | .lfAdd c v => { th with pc := .lfLoad c v }
  | .setUnf t v => { th with pc := .setUnf t v }
  | .seed q t => { th with pc := .addLock q t .seed }
  | .release => match th.fin with
    | p :: rest => { th with pc := (match cfg.children p with | [] => .retire p | c :: r => .relDec p c r), fin := rest }
    | [] => ret th .skip
  | .loadNum => { th with pc := .loadNum }
  | .maxC c v => { th with pc := .cMax c v }
  | .loadMx c => { th with pc := .cLoadMx c }
  | .numActive => { th with pc := .loadTaken }
  | .maintMark _ _ => ret th .skip

/-- `lock_dependency` returned true -/
def tlSucc (c : Ctx) (t : Nat) (th : Thread) : Thread :=
  match c with
  | .alone => ret { th with tasks := t :: th.tasks } (.taskLocked t true)
  | .pop q i => { th with pc := .popRemove q (i - 1) t }

/-- `lock_dependency` returned false -/
def tlFail (c : Ctx) (t : Nat) (th : Thread) : Thread :=
  match c with
  | .alone => ret th (.taskLocked t false)
  | .pop q i => { th with pc := .popScan q (i - 1) }

/-- end of get_free_element(_safe): plain return, or continue add_photons -/
def getDone (th : Thread) (i : Nat) : Option Nat → Thread
  | none => ret { th with owned := i :: th.owned } (.slot i)
  | some r => { th with pc := .apPlace i r, owned := i :: th.owned }

/-- ONE transition of one thread -/
def exec (cfg : Cfg) (m : Mem) (th : Thread) : Mem × Thread :=
  match th.pc with
  | .idle => match th.prog with
    | [] => (m, th)
    | c :: rest => (m, dispatch cfg { th with prog := rest } c)
  -- ---------------------------------------------------------------- slot pool
  | .getCheck r =>
    -- if (_number_taken.value() < _size) … else return _size;
    if m.taken < (cfg.size : Int) then (m, { th with pc := .getInc r })
    else match r with
      | none => (m, ret th (.slot cfg.size))
      | some n => (m, { th with pc := .crashed n })
  | .getInc r =>
    -- index = _current_index.post_increment() % _size;
    ({ m with cur := m.cur + 1 }, { th with pc := .getCas (m.cur % cfg.size) r })
  | .getCas i r =>
    -- while (!_locks[index].lock()) { index = … }
    if m.flags i then (m, { th with pc := .getInc r })
    else ({ m with flags := upd m.flags i true }, { th with pc := .getCount i r })
  | .getCount i r =>
    -- number_taken = _number_taken.pre_increment();
    ({ m with taken := m.taken + 1 }, { th with pc := .getMax i (m.taken + 1) r })
  | .getMax i n r =>
    -- _max_number_taken.max(number_taken):  old_value = _value.load();  (also the reload)
    (m, { th with pc := .getMaxCas i n m.maxTaken r })
  | .getMaxCas i n old r =>
    -- new_value = std::max(value, old_value); while (!compare_exchange_strong(old_value, new_value)) { reload }
    if m.maxTaken = old then
      ({ m with maxTaken := if n < old then old else n }, { th with pc := .getTotal i r })
    else (m, { th with pc := .getMax i n r })
  | .getTotal i r =>
    -- _total_number_taken.pre_increment(); return index;
    ({ m with totalTaken := m.totalTaken + 1 }, getDone th i r)
  | .apFill tgt n =>
    -- while (target.size() < PHOTONBUFFER_SIZE && counter_in < size_in) copy one packet
    let moved := min n (cfg.cap - m.count tgt)
    let m' := { m with count := upd m.count tgt (m.count tgt + moved) }
    let th' := { th with inj := th.inj + n }
    if m.count tgt + moved = cfg.cap then (m', { th' with pc := .getCheck (some (n - moved)) })
    else (m', ret { th' with lost := th.lost + (n - moved) } (.photons tgt))
  | .apPlace i r =>
    -- while (counter_in < size_in) copy one packet into the new buffer; return index_out
    ({ m with count := upd m.count i (m.count i + r) }, ret th (.photons i))
  | .crashed _ => (m, th)
  | .freeReset i =>
    -- _memory_space[index].reset();
    ({ m with count := upd m.count i 0 }, { th with pc := .freeYield i, disc := th.disc + m.count i })
  | .freeYield i =>
    -- _memory_space.free_element(index);  (… then releases)
    (m, { th with pc := .freeUnlock i })
  | .freeUnlock i =>
    -- _locks[index].unlock();
    ({ m with flags := upd m.flags i false }, { th with pc := .freeDec i })
  | .freeDec i =>
    -- _number_taken.pre_decrement();
    ({ m with taken := m.taken - 1 }, ret th (.freed i))
  -- ---------------------------------------------------------------- ThreadLock
  | .lockSpin k =>
    if m.locks (.dep k) then (m, th)
    else ({ m with locks := upd m.locks (.dep k) true },
          ret { th with held := k :: th.held } (.locked k true))
  | .lockTry k =>
    if m.locks (.dep k) then (m, ret th (.locked k false))
    else ({ m with locks := upd m.locks (.dep k) true },
          ret { th with held := k :: th.held } (.locked k true))
  | .unlockL k =>
    ({ m with locks := upd m.locks (.dep k) false }, ret th (.unlocked k))
  -- ---------------------------------------------------------------- Task dependencies
  | .tlStart c t =>
    match (cfg.deps t).1 with
    | none => (m, tlSucc c t th)
    | some _ => (m, { th with pc := .tl0 c t })
  | .tl0 c t =>
    match cfg.deps t with
    | (some a, d1) =>
      if m.locks (.dep a) then (m, tlFail c t th)
      else match d1 with
        | some _ => ({ m with locks := upd m.locks (.dep a) true }, { th with pc := .tl1 c t })
        | none => ({ m with locks := upd m.locks (.dep a) true }, tlSucc c t th)
    | (none, _) => (m, tlSucc c t th)
  | .tl1 c t =>
    match cfg.deps t with
    | (some _, some b) =>
      if m.locks (.dep b) then (m, { th with pc := .tlBack c t })
      else ({ m with locks := upd m.locks (.dep b) true }, tlSucc c t th)
    | (some _, none) => (m, tlSucc c t th)
    | (none, _) => (m, tlSucc c t th)
  | .tlBack c t =>
    match cfg.deps t with
    | (some a, _) => ({ m with locks := upd m.locks (.dep a) false }, tlFail c t th)
    | (none, _) => (m, tlFail c t th)
  | .tuStart t =>
    -- if (_dependency[0] != nullptr) { if (_dependency[1] != nullptr) _dependency[1]->unlock(); …
    match cfg.deps t with
    | (some _, some _) => (m, { th with pc := .tu1 t })
    | (some _, none) => (m, { th with pc := .tu0 t })
    | (none, _) => (m, ret { th with fin := t :: th.fin } (.taskUnlocked t))
  | .tu1 t =>
    match cfg.deps t with
    | (some _, some b) => ({ m with locks := upd m.locks (.dep b) false }, { th with pc := .tu0 t })
    | (some _, none) => (m, { th with pc := .tu0 t })
    | (none, _) => (m, ret { th with fin := t :: th.fin } (.taskUnlocked t))
  | .tu0 t =>
    match cfg.deps t with
    | (some a, _) => ({ m with locks := upd m.locks (.dep a) false },
                      ret { th with fin := t :: th.fin } (.taskUnlocked t))
    | (none, _) => (m, ret { th with fin := t :: th.fin } (.taskUnlocked t))
  -- ---------------------------------------------------------------- TaskQueue
  | .addLock q t k =>
    if m.locks (.queue q) then (m, th)
    else ({ m with locks := upd m.locks (.queue q) true }, { th with pc := .addBody q t k })
  | .addBody q t k =>
    -- _queue[_current_queue_size] = task; ++_current_queue_size;
    ({ m with items := upd m.items q (m.items q ++ [t]) },
     { th with pc := .addUnlock q t k, addLog := (q, t) :: th.addLog })
  | .addUnlock q t k =>
    match k with
    | .plain => ({ m with locks := upd m.locks (.queue q) false }, ret th (.added q t))
    | _ => ({ m with locks := upd m.locks (.queue q) false }, { th with pc := .numInc q t k })
  -- ---------------------------------------------------------------- hydro worker loop counters
  | .numInc q t k =>
    -- number_of_tasks.pre_increment();
    match k with
    | .rel p rem => ({ m with num := m.num + 1 }, { th with pc := (match rem with | [] => .retire p | c :: r => .relDec p c r) })
    | _ => ({ m with num := m.num + 1 }, ret th (.seeded q t))
  | .relDec p c rem =>
    -- if (tasks[ichild].decrement_number_of_unfinished_parents() == 0) { add_task; ++number_of_tasks }
    if m.unf c - 1 = 0 then
      ({ m with unf := upd m.unf c (m.unf c - 1) }, { th with pc := .addLock (cfg.queueOf c) c (.rel p rem) })
    else ({ m with unf := upd m.unf c (m.unf c - 1) }, { th with pc := (match rem with | [] => .retire p | c :: r => .relDec p c r) })
  | .retire p =>
    -- number_of_tasks.pre_decrement();
    ({ m with num := m.num - 1 }, ret th (.released p (m.num - 1)))
  | .setUnf t v => ({ m with unf := upd m.unf t v }, ret th .skip)
  | .loadNum => (m, ret th (.num m.num))
  -- ---------------------------------------------------------------- AtomicValue::max
  | .cMax c v => (m, { th with pc := .cMaxCas c v (m.mx c) })
  | .cMaxCas c v old =>
    if m.mx c = old then
      ({ m with mx := upd m.mx c (if v < old then old else v) }, ret th (.maxed c))
    else (m, { th with pc := .cMax c v })
  | .cLoadMx c => (m, ret th (.mxval c (m.mx c)))
  | .loadTaken => (m, ret th (.active m.taken))
  | .popLock q blocking =>
    if m.locks (.queue q) then
      (if blocking then (m, th) else (m, ret th (.popped q none)))
    else ({ m with locks := upd m.locks (.queue q) true }, { th with pc := .popInit q })
  | .popInit q =>
    -- size_t index = _current_queue_size;
    (m, { th with pc := .popScan q (m.items q).length })
  | .popScan q i =>
    -- while (index > 0 && !tasks[_queue[index - 1]].lock_dependency()) --index;
    if i = 0 then (m, { th with pc := .popUnlock q none })
    else match (m.items q)[i - 1]? with
      | some t => (m, { th with pc := .tlStart (.pop q i) t })
      | none => (m, { th with pc := .popUnlock q none })
  | .popRemove q j t =>
    -- --index; --_current_queue_size; task = _queue[index]; shift the rest down
    match (m.items q)[j]? with
    | some t' =>
      ({ m with items := upd m.items q ((m.items q).eraseIdx j) },
       { th with pc := .popUnlock q (some t'), tasks := t :: th.tasks, popLog := (q, t') :: th.popLog })
    | none => (m, { th with pc := .popUnlock q none, tasks := t :: th.tasks })
  | .popUnlock q r =>
    ({ m with locks := upd m.locks (.queue q) false }, ret th (.popped q r))
  | .qsz q => (m, ret th (.qsize q (m.items q).length))
  -- ---------------------------------------------------------------- counters
  | .cInc c => ({ m with ctr := upd m.ctr c (m.ctr c + 1) }, ret th (.val c (m.ctr c + 1)))
  | .cDec c => ({ m with ctr := upd m.ctr c (m.ctr c - 1) }, ret th (.val c (m.ctr c - 1)))
  | .cPostInc c => ({ m with ctr := upd m.ctr c (m.ctr c + 1) }, ret th (.val c (m.ctr c)))
  | .cPreAdd c v => ({ m with ctr := upd m.ctr c (m.ctr c + v) }, ret th (.val c (m.ctr c + v)))
  | .cPostAdd c v => ({ m with ctr := upd m.ctr c (m.ctr c + v) }, ret th (.val c (m.ctr c)))
  | .cPreSub c v => ({ m with ctr := upd m.ctr c (m.ctr c - v) }, ret th (.val c (m.ctr c - v)))
  | .cLoad c => (m, ret th (.val c (m.ctr c)))
  | .cAwait c v => if m.ctr c < v then (m, th) else (m, ret th (.val c (m.ctr c)))
  | .lfLoad c v => (m, { th with pc := .lfCas c v (m.ctr c) })
  | .lfCas c v old =>
    -- while (!atom->compare_exchange_weak(old, old + b)) {}   (a failure reloads `old`)
    if m.ctr c = old then ({ m with ctr := upd m.ctr c (old + v) }, ret th (.val c (old + v)))
    else (m, { th with pc := .lfCas c v (m.ctr c) })

/-- thread `tid` performs one transition (a thread id outside the list does nothing) -/
def step (cfg : Cfg) (s : State) (tid : Nat) : State :=
  match s.threads[tid]? with
  | none => s
  | some th =>
    let r := exec cfg s.mem th
    { mem := r.1, threads := s.threads.set tid r.2 }

/-- an execution: any list of thread ids -/
def run (cfg : Cfg) (s : State) (sched : List Nat) : State := sched.foldl (step cfg) s

/-- all threads start idle with their program, memory zero-initialised -/
def init (progs : List (List Cmd)) : State :=
  { mem := {}, threads := progs.map fun p => { prog := p } }

/-- the next transition of the thread performs no `AtomicValue` operation -/
def Thread.silent (th : Thread) : Bool :=
  match th.pc with
  | .idle => !th.prog.isEmpty
  | .apFill _ _ | .apPlace _ _ | .freeReset _ | .freeYield _ | .tlStart _ _ | .tuStart _ | .addBody _ _ _ | .popInit _
  | .popScan _ _ | .popRemove _ _ _ | .qsz _ => true
  | _ => false

def Thread.finished (th : Thread) : Bool :=
  match th.pc with
  | .idle => th.prog.isEmpty
  | .crashed _ => true
  | _ => false

/-- run the silent transitions of thread `tid` (what the real thread does between two yields) -/
def settle (cfg : Cfg) : Nat → State → Nat → State
  | 0, s, _ => s
  | fuel + 1, s, tid =>
    match s.threads[tid]? with
    | some th => if th.silent then settle cfg fuel (step cfg s tid) tid else s
    | none => s

/-- what the baton scheduler does for one schedule entry: one atomic operation of `tid` and the
plain code up to its next atomic operation; a finished thread is skipped -/
def macroStep (cfg : Cfg) (fuel : Nat) (s : State) (tid : Nat) : State :=
  match s.threads[tid]? with
  | some th => if th.finished then s else settle cfg fuel (step cfg s tid) tid
  | none => s

end CMacVerif.Atomics
