/-
Model of `RandomGenerator` (src/RandomGenerator.hpp): the GSL `ranlxd2` generator.

Every `double` of the generator is an integer multiple of 2^-48.  The model stores the integer
`k` of the double `k * 2^-48` (type `Int`, because intermediate differences are negative);
indices and counters (`uint_fast32_t`, `int_fast32_t` loop counters) are `Nat`.

Every double operation of the C++ is written `R (a ∘ b)` where `R : Int → Int` is the rounding of
the result.  The compiled driver and all stream theorems use `R = exact` (no rounding);
`Props/C13.lean` (`doubles_exact`) proves that any `R` that is the identity on integers of
magnitude < 2^49 (IEEE doubles are exact up to 2^53) gives the same generator, which is what
justifies the integer reading of the double code.
-/
set_option linter.unusedVariables false

namespace CMacVerif.Ranlux

/-- the double `1.0` in units of 2^-48 (the C++ literal `1.0 / 281474976710656.0` is `1`) -/
def B : Int := 281474976710656

abbrev Rnd := Int → Int
/-- no rounding -/
def exact : Rnd := fun v => v

/-- `xdbl[i]` -/
@[inline] def rd (x : Array Int) (i : Nat) : Int := x.getD i 0
/-- `xdbl[i] = v` -/
@[inline] def wr (x : Array Int) (i : Nat) (v : Int) : Array Int := x.setIfInBounds i v

structure State where
  x     : Array Int   -- `_xdbl[12]`
  carry : Int         -- `_carry`
  ir    : Nat         -- `_ir`
  jr    : Nat         -- `_jr`
  irOld : Nat         -- `_ir_old`
  pr    : Nat         -- `_pr`
deriving DecidableEq, Repr

/-! ### `increment_state` -/

/-- body of the first and third loop (without the index updates):
```
y1 = xdbl[jr] - xdbl[ir];  y2 = y1 - carry;
if (y2 < 0) { carry = 2^-48; y2 += 1; } else { carry = 0; }
xdbl[ir] = y2;
``` -/
def sb (R : Rnd) (x : Array Int) (c : Int) (ir jr : Nat) : Array Int × Int :=
  let y1 := R (rd x jr - rd x ir)
  let y2 := R (y1 - c)
  if y2 < 0 then (wr x ir (R (y2 + B)), 1) else (wr x ir y2, 0)

/-- `for (k = 0; ir > 0; ++k) { body; ir = (ir + 1) % 12; jr = (jr + 1) % 12; }`
(fuel 12 is never exhausted: `Props.C13.loop1_fuel`) -/
def loop1 (R : Rnd) : Nat → Array Int → Int → Nat → Nat → Nat → Array Int × Int × Nat × Nat × Nat
  | 0, x, c, ir, jr, k => (x, c, ir, jr, k)
  | f + 1, x, c, ir, jr, k =>
    if ir > 0 then
      let (x, c) := sb R x c ir jr
      loop1 R f x c ((ir + 1) % 12) ((jr + 1) % 12) (k + 1)
    else (x, c, ir, jr, k)

/-- `ranlux_step(xdbl, x1, x2, i1, i2, i3)`; returns `(xdbl, x1, x2)`:
```
x1 = xdbl[i1] - xdbl[i2];
if (x2 < 0) { x1 -= 2^-48; x2 += 1; }
xdbl[i3] = x2;
``` -/
def rstep (R : Rnd) (x : Array Int) (x2 : Int) (i1 i2 i3 : Nat) : Array Int × Int × Int :=
  let x1 := R (rd x i1 - rd x i2)
  if x2 < 0 then
    let x1 := R (x1 - 1)
    let x2 := R (x2 + B)
    (wr x i3 x2, x1, x2)
  else (wr x i3 x2, x1, x2)

/-- body of the second loop: the unrolled block of 12 steps, exactly as written -/
def block (R : Rnd) (x : Array Int) (c : Int) : Array Int × Int :=
  let y1 := R (rd x 7 - rd x 0)
  let y1 := R (y1 - c)
  let (x, y2, y1) := rstep R x y1 8 1 0
  let (x, y3, y2) := rstep R x y2 9 2 1
  let (x, y1, y3) := rstep R x y3 10 3 2
  let (x, y2, y1) := rstep R x y1 11 4 3
  let (x, y3, y2) := rstep R x y2 0 5 4
  let (x, y1, y3) := rstep R x y3 1 6 5
  let (x, y2, y1) := rstep R x y1 2 7 6
  let (x, y3, y2) := rstep R x y2 3 8 7
  let (x, y1, y3) := rstep R x y3 4 9 8
  let (x, y2, y1) := rstep R x y1 5 10 9
  let (x, y3, _y2) := rstep R x y2 6 11 10
  if y3 < 0 then (wr x 11 (R (y3 + B)), 1) else (wr x 11 y3, 0)

/-- `kmax = _pr - 12; for (; k <= kmax; k += 12) block`  (`k <= pr - 12` on signed integers is
`k + 12 ≤ pr`); fuel `pr` is never exhausted -/
def loop2 (R : Rnd) (pr : Nat) : Nat → Array Int → Int → Nat → Array Int × Int × Nat
  | 0, x, c, k => (x, c, k)
  | f + 1, x, c, k =>
    if k + 12 ≤ pr then
      let (x, c) := block R x c
      loop2 R pr f x c (k + 12)
    else (x, c, k)

/-- `kmax = _pr; for (; k < kmax; ++k) { body; ir = (ir + 1) % 12; jr = (jr + 1) % 12; }` -/
def loop3 (R : Rnd) (pr : Nat) : Nat → Array Int → Int → Nat → Nat → Nat → Array Int × Int × Nat × Nat
  | 0, x, c, ir, jr, _ => (x, c, ir, jr)
  | f + 1, x, c, ir, jr, k =>
    if k < pr then
      let (x, c) := sb R x c ir jr
      loop3 R pr f x c ((ir + 1) % 12) ((jr + 1) % 12) (k + 1)
    else (x, c, ir, jr)

/-- `increment_state()` -/
def incrementState (R : Rnd) (s : State) : State :=
  let (x, c, ir, jr, k) := loop1 R 12 s.x s.carry s.ir s.jr 0
  let (x, c, k) := loop2 R s.pr s.pr x c k
  let (x, c, ir, jr) := loop3 R s.pr s.pr x c ir jr k
  { s with x := x, carry := c, ir := ir, jr := jr, irOld := ir }

/-- `get_uniform_random_double()`: returned double (units of 2^-48) and new state -/
def next (R : Rnd) (s : State) : Int × State :=
  let s1 := { s with ir := (s.ir + 1) % 12 }
  let s2 := if s1.ir = s1.irOld then incrementState R s1 else s1
  (rd s2.x s2.ir, s2)

/-! ### `set_seed` -/

/-- `for (k = 0; k < 31; ++k) { xbit[k] = i % 2; i /= 2; }` -/
def seedBits : Nat → Nat → List Nat
  | 0, _ => []
  | n + 1, i => (i % 2) :: seedBits n (i / 2)

structure Shift where
  xbit : Array Nat   -- `xbit[31]`
  ibit : Nat
  jbit : Nat
deriving Repr

/-- body of the `m` loop:
```
y = (double)((xbit[ibit] + 1) % 2);  x += x + y;
xbit[ibit] = (xbit[ibit] + xbit[jbit]) % 2;  ibit = (ibit + 1) % 31;  jbit = (jbit + 1) % 31;
``` -/
def seedBit (R : Rnd) (x : Int) (t : Shift) : Int × Shift :=
  let y : Int := (((t.xbit.getD t.ibit 0 + 1) % 2 : Nat) : Int)
  let x := R (x + R (x + y))
  let xb := t.xbit.setIfInBounds t.ibit ((t.xbit.getD t.ibit 0 + t.xbit.getD t.jbit 0) % 2)
  (x, { xbit := xb, ibit := (t.ibit + 1) % 31, jbit := (t.jbit + 1) % 31 })

/-- `for (m = 1; m <= 48; ++m) body` (called with 48) -/
def seedWord (R : Rnd) : Nat → Int → Shift → Int × Shift
  | 0, x, t => (x, t)
  | n + 1, x, t => let (x, t) := seedBit R x t; seedWord R n x t

/-- `for (k = 0; k < 12; ++k) { x = 0; m-loop; _xdbl[k] = 2^-48 * x; }` (called with `m = 48`
bits per word and 12 words); the product with a power of two is exact: in units of 2^-48 it is
`R x` -/
def seedWords (R : Rnd) (m : Nat) : Nat → Shift → List Int
  | 0, _ => []
  | n + 1, t => let (x, t) := seedWord R m 0 t; R x :: seedWords R m n t

/-- `set_seed(seed)` / the constructor.  `seed` is an `int_fast32_t` (64 bit signed here);
`seed & 0x7FFFFFFF` on two's complement is the non-negative remainder modulo 2^31. -/
def seedState (R : Rnd) (seed : Int) : State :=
  let seed := if seed = 0 then 1 else seed
  let i : Nat := (seed % 2147483648).toNat
  let t : Shift := { xbit := (seedBits 31 i).toArray, ibit := 0, jbit := 18 }
  { x := (seedWords R 48 12 t).toArray, carry := 0, ir := 11, jr := 7, irOld := 0, pr := 397 }

/-! ### restart file -/

/-- one value in the restart file: a `double` (units of 2^-48) or a `uint_fast32_t` -/
inductive Item where
  | d (v : Int)
  | u (n : Nat)
deriving DecidableEq, Repr

/-- `write_restart_file` -/
def dump (s : State) : List Item :=
  (List.range 12).map (fun i => Item.d (rd s.x i))
    ++ [Item.d s.carry, Item.u s.ir, Item.u s.jr, Item.u s.irOld, Item.u s.pr]

/-- the restart constructor: reads 12 doubles, the carry and four integers in this order -/
def restore : List Item → Option State
  | [.d x0, .d x1, .d x2, .d x3, .d x4, .d x5, .d x6, .d x7, .d x8, .d x9, .d x10, .d x11,
     .d c, .u ir, .u jr, .u io, .u pr] =>
    some { x := #[x0, x1, x2, x3, x4, x5, x6, x7, x8, x9, x10, x11], carry := c,
           ir := ir, jr := jr, irOld := io, pr := pr }
  | _ => none

/-! ### streams -/

/-- state after `n` draws -/
def after (R : Rnd) (s : State) : Nat → State
  | 0 => s
  | n + 1 => (next R (after R s n)).2

/-- the `n`-th value (n = 0, 1, …) returned by a generator in state `s` -/
def draw (R : Rnd) (s : State) (n : Nat) : Int := (next R (after R s n)).1

/-- the `n`-th value returned by `RandomGenerator(seed)` -/
def stream (seed : Int) (n : Nat) : Int := draw exact (seedState exact seed) n

/-! ### the textbook generator (specification) -/

/-- one step of the subtract-with-borrow recurrence on a whole state:
`x[ir] ← x[jr] − x[ir] − carry (mod 2^48)`, new carry = borrow, both indices advance -/
def singleStep (s : State) : State :=
  let (x, c) := sb exact s.x s.carry s.ir s.jr
  { s with x := x, carry := c, ir := (s.ir + 1) % 12, jr := (s.jr + 1) % 12 }

/-- `f` applied `n` times -/
def iter {α : Type} (f : α → α) : Nat → α → α
  | 0, a => a
  | n + 1, a => iter f n (f a)

/-- Textbook subtract-with-borrow sequence (Marsaglia–Zaman / Lüscher, base 2^48, lags 12 and 5)
started from the twelve values `x0 0 … x0 11` with no borrow: pair (X_n, borrow c_n),
`Δ_n = X_{n-5} − X_{n-12} − c_{n-1}`,  `X_n = Δ_n mod 2^48`,  `c_n = [Δ_n < 0]`. -/
def swb (x0 : Nat → Int) (n : Nat) : Int × Int :=
  if h : n < 12 then (x0 n, 0)
  else
    let d := (swb x0 (n - 5)).1 - (swb x0 (n - 12)).1 - (swb x0 (n - 1)).2
    if d < 0 then (d + B, 1) else (d, 0)
termination_by n
decreasing_by all_goals omega

/-- RANLUX with luxury level `p = 397`: of every 397 consecutive values of the recurrence the
first 12 are delivered (the first 397 values after the seed values are skipped) -/
def ranluxSpec (x0 : Nat → Int) (n : Nat) : Int := (swb x0 (397 * (n / 12 + 1) + n % 12)).1

end CMacVerif.Ranlux
