import CMacVerif.Model.GridNum
/-
Model of `MortonKeyGenerator::get_key` (src/MortonKeyGenerator.hpp:60-100).

The C++ maps every coordinate onto 21 bits,
  `bits[i] = (uint32_t)(0x001fffff * (c[i] - anchor[i]) / sides[i])`,
and then interleaves the bits, most significant bit first:

    key = 0; mask = 0x00100000;
    for (i = 21; i > 0; --i) {
      key <<= 3;
      ci = (((bits[0] & mask) > 0) << 2) | (((bits[1] & mask) > 0) << 1) | ((bits[2] & mask) > 0);
      key += ci;
      mask >>= 1;
    }

`interleaveFrom n key` is the state of that loop when `n` iterations are still to be done
(`mask = 2^(n-1)`); `bitAt v i` is `(v & 2^i) > 0`.  Core Lean only.
-/
namespace CMacVerif.Morton

/-- `(v & (1 << i)) > 0` as 0/1 -/
def bitAt (v i : Nat) : Nat := (v / 2 ^ i) % 2

/-- the 3-bit group added for mask `2^i`: `(x << 2) | (y << 1) | z` -/
def digit (bx by' bz : Nat) (i : Nat) : Nat := 4 * bitAt bx i + 2 * bitAt by' i + bitAt bz i

/-- the loop, `n` iterations left -/
def interleaveFrom : Nat → Nat → Nat → Nat → Nat → Nat
  | 0, key, _, _, _ => key
  | n + 1, key, bx, by', bz => interleaveFrom n (key * 8 + digit bx by' bz n) bx by' bz

/-- `get_key` on the three 21-bit integer coordinates -/
def mortonKey (bx by' bz : Nat) : Nat := interleaveFrom 21 0 bx by' bz

/-- the same interleaving written from the least significant group upwards (specification
used by the theorems; `interleaveFrom_eq` ties it to the loop) -/
def spread : Nat → Nat → Nat → Nat → Nat
  | 0, _, _, _ => 0
  | n + 1, x, y, z => (4 * (x % 2) + 2 * (y % 2) + z % 2) + 8 * spread n (x / 2) (y / 2) (z / 2)

/-- de-interleaving: the three coordinates of the lowest `n` groups of a key -/
def unspread : Nat → Nat → Nat × Nat × Nat
  | 0, _ => (0, 0, 0)
  | n + 1, k =>
    let (x, y, z) := unspread n (k / 8)
    ((k % 8) / 4 + 2 * x, ((k % 8) / 2) % 2 + 2 * y, k % 2 + 2 * z)

section
open CMacVerif.GridNum
variable {α : Type} [Sub α] [Mul α] [Div α] [OfScientific α] [Trunc α]
/-- `0x001fffff * (c - anchor) / side` truncated -/
def coordBits (c anchor side : α) : Nat := Trunc.toNat (2097151.0 * (c - anchor) / side)

/-- `get_key(position)` -/
def getKey (cx cy cz ax ay az sx sy sz : α) : Nat :=
  mortonKey (coordBits cx ax sx) (coordBits cy ay sy) (coordBits cz az sz)
end

end CMacVerif.Morton
