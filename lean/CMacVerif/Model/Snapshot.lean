/-
Index-level model of the HDF5 snapshot round trip of C20 (no model of HDF5 itself: a dataset is a
map position → value):

* `GadgetDensityGridWriter::write(DensitySubGridCreator<DensitySubGrid>&, …)` (src/
  GadgetDensityGridWriter.cpp ~511-630): subgrids in creator order, every subgrid streamed in
  blocks of `blocksize` cells, block `iblock` appended at `block_offset + iblock * blocksize`;
* the subgrid / cell numbering of `DensitySubGridCreator::create_subgrid` and
  `DensitySubGrid::get_three_index`;
* `BufferedCMacIonizeSnapshotDensityFunction` (same geometry, i.e. one old cell per new cell):
  `read_dataset_part(subgrid_index * size, size)`, the buffer fill loops and the stride arithmetic
  of `operator()`;
* `CMacIonizeSnapshotDensityFunction` (Cartesian): the loop that bins every file position by the
  coordinates stored at that position.

Positions in space enter only as integer cell coordinates: the floating point computations
`(p - anchor) / width * n` of the real code are NOT modelled (they are exercised by the `snap`/
`snapb` experiment on generated geometries).

Core Lean only.
-/
namespace CMacVerif.Snapshot

/-- `get_three_index` / the decoding at the top of `create_subgrid`:
`a = i / (n1*n2); b = (i - a*n1*n2) / n2; c = i - a*n1*n2 - b*n2` -/
def three (n1 n2 i : Nat) : Nat × Nat × Nat :=
  let a := i / (n1 * n2)
  let b := (i - a * (n1 * n2)) / n2
  (a, b, i - a * (n1 * n2) - b * n2)

/-- `a * n1 * n2 + b * n2 + c` (one-index of a subgrid, of a cell in a subgrid, of a cell of the
Cartesian grid of the reader) -/
def one (n1 n2 : Nat) (t : Nat × Nat × Nat) : Nat := t.1 * n1 * n2 + t.2.1 * n2 + t.2.2

/-- number of subgrids per dimension and number of cells of one subgrid per dimension -/
structure Layout where
  gx : Nat
  gy : Nat
  gz : Nat
  sx : Nat
  sy : Nat
  sz : Nat
deriving Repr, DecidableEq

namespace Layout
/-- cells in one subgrid -/
def N (L : Layout) : Nat := L.sx * L.sy * L.sz
/-- number of subgrids -/
def G (L : Layout) : Nat := L.gx * L.gy * L.gz
def nx (L : Layout) : Nat := L.gx * L.sx
def ny (L : Layout) : Nat := L.gy * L.sy
def nz (L : Layout) : Nat := L.gz * L.sz
end Layout

/-- integer coordinates in the whole grid of cell `ci` of subgrid `g`
(subgrid anchor = box anchor + subgrid index * subgrid side, cell midpoint = subgrid anchor +
(three_index + 0.5) * cell size) -/
def globalCell (L : Layout) (g ci : Nat) : Nat × Nat × Nat :=
  let s := three L.gy L.gz g
  let c := three L.sy L.sz ci
  (s.1 * L.sx + c.1, s.2.1 * L.sy + c.2.1, s.2.2 * L.sz + c.2.2)

/-! ## datasets and the writer -/

/-- a dataset: position → value (`none` = never written) -/
abbrev DS (α : Type) := Nat → Option α

/-- `HDF5Tools::append_dataset(group, name, offset, data)`: `data` (a vector of `len` values,
`data[i] = f i`) is written at positions `offset … offset + len - 1` -/
def append {α : Type} (ds : DS α) (offset len : Nat) (f : Nat → α) : DS α :=
  fun k => if offset ≤ k ∧ k < offset + len then some (f (k - offset)) else ds k

/-- one subgrid: `numblock = N / B + (N % B > 0)`; for `iblock < numblock`: `offset = iblock * B`,
`upper_limit = min(offset + B, N)`, the cells `offset … upper_limit - 1` are copied into a vector
(index `cell - offset`) which is appended at `block_offset + offset` -/
def writeSubgrid {α : Type} (B N : Nat) (vals : Nat → α) (blockOffset : Nat) (ds : DS α) : DS α :=
  let numblock := N / B + (if N % B > 0 then 1 else 0)
  (List.range numblock).foldl (fun ds iblock =>
    let offset := iblock * B
    let upper := min (offset + B) N
    append ds (blockOffset + offset) (upper - offset) (fun i => vals (offset + i))) ds

/-- the loop over the subgrids: `block_offset += number_of_cells` after each of them -/
def writeAll {α : Type} (B N G : Nat) (vals : Nat → Nat → α) : DS α × Nat :=
  (List.range G).foldl (fun (st : DS α × Nat) g =>
    (writeSubgrid B N (vals g) st.2 st.1, st.2 + N)) (fun _ => none, 0)

/-- the dataset the writer produces for a per-cell quantity `field` of a grid with layout `L` -/
def snapshot {α : Type} (B : Nat) (L : Layout) (field : Nat × Nat × Nat → α) : DS α :=
  (writeAll B L.N L.G (fun g ci => field (globalCell L g ci))).1

/-! ## arrays filled by computed index (buffer of the buffered reader, grid of the plain reader) -/

/-- `for (k : keys) arr[key k] = val k;` -/
def fill {α β : Type} (arr : Array (Option α)) (keys : List β) (key : β → Nat) (val : β → Option α) :
    Array (Option α) :=
  keys.foldl (fun a k => a.setIfInBounds (key k) (val k)) arr

def get {α : Type} (arr : Array (Option α)) (i : Nat) : Option α :=
  match arr[i]? with
  | some v => v
  | none => none

/-- the index triples of `for ix < a, for iy < b, for iz < c` in loop order -/
def triples (a b c : Nat) : List (Nat × Nat × Nat) :=
  (List.range a).flatMap fun ix => (List.range b).flatMap fun iy => (List.range c).map fun iz => (ix, iy, iz)

/-! ## buffered reader (same geometry: `_number_of_old_cells_per_new_cell_1D = 1`) -/

/-- `buffer_subgrid`: `read_dataset_part(subgrid_index * size, size)`, then for every cell of the
(mapped) subgrid `buffer[ix*ny*nz + iy*nz + iz] = data[(1*ix+0)*ny*nz + (1*iy+0)*nz + (1*iz+0)]` -/
def bufferSubgrid {α : Type} (L : Layout) (ds : DS α) (subgridIndex : Nat) : Array (Option α) :=
  let subgridOffset := subgridIndex * L.N
  let data : Nat → Option α := fun i => if i < L.N then ds (subgridOffset + i) else none
  fill (Array.replicate L.N none) (triples L.sx L.sy L.sz)
    (fun t => t.1 * L.sy * L.sz + t.2.1 * L.sz + t.2.2)
    (fun t => data ((1 * t.1 + 0) * L.sy * L.sz + (1 * t.2.1 + 0) * L.sz + (1 * t.2.2 + 0)))

/-- the index arithmetic of `operator()` for the cell with integer coordinates `(ix, iy, iz)`:
subgrid `six*gy*gz + siy*gz + siz` with `six = ix / sx …`, cell in the buffered subgrid
`cix*ny*nz + ciy*nz + ciz` with `cix = ix - six*sx …` -/
def bufferedIndex (L : Layout) (c : Nat × Nat × Nat) : Nat × Nat :=
  let six := c.1 / L.sx
  let siy := c.2.1 / L.sy
  let siz := c.2.2 / L.sz
  let subgridIndex := six * L.gy * L.gz + siy * L.gz + siz
  let cix := c.1 - six * L.sx
  let ciy := c.2.1 - siy * L.sy
  let ciz := c.2.2 - siz * L.sz
  (subgridIndex, cix * L.sy * L.sz + ciy * L.sz + ciz)

/-- `operator()`: the value held by the buffered subgrid at the computed index -/
def bufferedRead {α : Type} (L : Layout) (ds : DS α) (c : Nat × Nat × Nat) : Option α :=
  get (bufferSubgrid L ds (bufferedIndex L c).1) (bufferedIndex L c).2

/-! ## plain reader (Cartesian) -/

/-- the grid cell (one-index) the coordinates stored at file position `i` fall into -/
def plainKey (nx ny nz : Nat) (coords : DS (Nat × Nat × Nat)) (i : Nat) : Nat :=
  match coords i with
  | some c => one ny nz c
  | none => nx * ny * nz           -- nothing stored at that position: no cell

/-- `initialize`: `for (i < cell_midpoints.size()) grid[bin(cell_midpoints[i])] = values[i]`; the
grid `[ix][iy][iz]` is kept under its one-index -/
def plainGrid {α : Type} (nx ny nz total : Nat) (coords : DS (Nat × Nat × Nat)) (vals : DS α) :
    Array (Option α) :=
  fill (Array.replicate (nx * ny * nz) none) (List.range total) (plainKey nx ny nz coords) vals

/-- `operator()` -/
def plainRead {α : Type} (nx ny nz total : Nat) (coords : DS (Nat × Nat × Nat)) (vals : DS α)
    (c : Nat × Nat × Nat) : Option α :=
  get (plainGrid nx ny nz total coords vals) (one ny nz c)

/-! ## which quantities are stored, and the readers' fallbacks

A hydro snapshot can store the number density and/or the mass density, the temperature and/or the
pressure, and (optionally) the neutral fractions.  `encode` is `Hydro::ionization_to_hydro`
(ρ = m_p n, P = (k/m_p) ρ T / μ with μ = ½(1 + x_H); the velocity limiter `c_s > max_velocity`
is not active) followed by the writer's choice of datasets; `decodeBuffered` is the per-cell
conversion loop of `BufferedCMacIonizeSnapshotDensityFunction::buffer_subgrid`, `decodePlain` the
corresponding statements of `CMacIonizeSnapshotDensityFunction::initialize` (no `/Units` group).
Generic over the number type (Float in the driver, ℚ in the theorems). -/

/-- which datasets the writer was configured to produce -/
structure Combo where
  numberDensity : Bool
  density : Bool
  temperature : Bool
  pressure : Bool
  fractions : Bool
deriving Repr, DecidableEq

structure CellState (α : Type) where
  n : α
  T : α
  xH : α
deriving Repr

/-- one cell as stored in the file -/
structure Stored (α : Type) where
  numberDensity : Option α
  density : Option α
  temperature : Option α
  pressure : Option α
  xH : Option α
deriving Repr

section
variable {α : Type} [Add α] [Mul α] [Div α] [OfScientific α]

/-- `Hydro::ionization_to_hydro` + the datasets selected by `DensityGridWriterFields`;
`pcf = k / m_p` is `Hydro::_pressure_conversion_factor` -/
def encode (mp pcf : α) (c : Combo) (s : CellState α) : Stored α :=
  let density := mp * s.n
  let mu := 0.5 * (1.0 + s.xH)
  let pressure := pcf * density * s.T / mu
  { numberDensity := if c.numberDensity then some s.n else none
    density := if c.density then some density else none
    temperature := if c.temperature then some s.T else none
    pressure := if c.pressure then some pressure else none
    xH := if c.fractions then some s.xH else none }

/-- `BufferedCMacIonizeSnapshotDensityFunction::buffer_subgrid`: "NumberDensity" if the dataset
exists, else "Density"; "Temperature" if it exists, else "Pressure"; neutral fractions default to
`1.e-6`; then per cell FIRST `number_density /= m_p` (if the mass density was read) and THEN
`temperature *= mu / (number_density * k)` (if the pressure was read) -/
def decodeBuffered (mp k : α) (st : Stored α) : Option (CellState α) :=
  let xH := match st.xH with | some x => x | none => 1.0e-6
  let nd : Option (α × Bool) := match st.numberDensity, st.density with
    | some n, _ => some (n, true)
    | none, some r => some (r, false)
    | none, none => none
  let tp : Option (α × Bool) := match st.temperature, st.pressure with
    | some t, _ => some (t, true)
    | none, some p => some (p, false)
    | none, none => none
  match nd, tp with
  | some (d, readN), some (t, readT) =>
    let n := if readN then d else d / mp
    let T := if readT then t else
      let mu := 0.5 * (1.0 + xH)
      t * (mu / (n * k))
    some ⟨n, T, xH⟩
  | _, _ => none

/-- `CMacIonizeSnapshotDensityFunction::initialize` with its flags `use_density`, `use_pressure`:
the density unit becomes `1/m_p` when the mass density is read, the temperature is computed from
the RAW density times that unit, the density is scaled afterwards -/
def decodePlain (mp k : α) (useDensity usePressure : Bool) (st : Stored α) : Option (CellState α) :=
  let xH := match st.xH with | some x => x | none => 1.0e-6
  let nd : Option (α × α) := match st.numberDensity, useDensity with
    | some n, false => some (n, 1.0)
    | _, _ => match st.density with
      | some r => some (r, (1.0 : α) / mp)
      | none => none
  match nd with
  | none => none
  | some (raw, unitDensity) =>
    let T : Option α := match st.temperature, usePressure with
      | some t, false => some t
      | _, _ => match st.pressure with
        | some p =>
          let mu := 0.5 * (1.0 + xH)
          some (p * (mu / (raw * unitDensity * k * 1.0)))
        | none => none
    match T with
    | none => none
    | some T => some ⟨raw * unitDensity, T * 1.0, xH⟩

end

end CMacVerif.Snapshot
