import CMacVerif.Arith
import CMacVerif.Model.RiemannVacuum
/-!
Model of `ExactRiemannSolver` (`/repo/src/ExactRiemannSolver.hpp`), statement by statement, in the
generic arithmetic of DESIGN §2.1 (standard operator classes + `ArithFns`).  Core Lean only.

* `mkConsts`            – the constructor's derived constants (`_gp1d2g` …)
* `fb`, `f`, `fprimeb`, `fprime`, `gb`, `guessP`     – lines 97–242
* `brentInit`, `brentStep`, `brentLoop`, `solveBrent` – lines 265–356 (fuel = the `1e4` counter)
* `newtonLoop`, `findPstar`                           – lines 943–973 (the C++ `while` has no
  counter; the model takes a fuel argument and reports when it ran out)
* `ustarOf`                                            – line 985
* samplers (shock / rarefaction head, fan, tail; both sides) – lines 374–599 (the fan `base` is
  clamped at zero, `std::max(0., …)`, as in /repo since f5cb687)
* the vacuum regimes (lines 615–818 and the tests at the top of `solve`) are the definitions of
  `Model/RiemannVacuum.lean` (C05): `RiemannVacuum.solveIfVacuum`
* `solve`                                              – lines 866–1002

IEEE-only operations are expressed with the order relation so that the same term makes sense at
`Float` and at `ℝ`:  `FEq a b := a ≤ b ∧ b ≤ a` is IEEE `==` (false on NaN, `-0 == 0`),
`IsInf x := x ≤ x ∧ ¬ (x - x ≤ x - x)` is `std::isinf` (at `ℝ` it is provably false).
-/
namespace CMacVerif.ExactRiemann

section
variable {α : Type} [Add α] [Sub α] [Mul α] [Div α] [Neg α] [LT α] [LE α]
  [DecidableLT α] [DecidableLE α] [OfScientific α] [ArithFns α]

open ArithFns (sqrt pow abs)

/-- IEEE `a == b` -/
@[reducible] def FEq (a b : α) : Prop := a ≤ b ∧ b ≤ a
/-- `std::isinf(x)` -/
@[reducible] def IsInf (x : α) : Prop := x ≤ x ∧ ¬ (x - x ≤ x - x)

/-! ### constants of the constructor (lines 831–838) -/

structure Consts (α : Type) where
  gamma : α
  gp1d2g : α
  gm1d2g : α
  gm1dgp1 : α
  tdgp1 : α
  tdgm1 : α
  gm1d2 : α
  tgdgm1 : α
  ginv : α
  gm1inv : α

/-- `_gamma(std::max(gamma, 1.00000001))` and the derived constants, same expressions -/
def mkConsts (g : α) : Consts α :=
  let gamma : α := amax g 1.00000001
  { gamma := gamma
    gp1d2g := 0.5 * (gamma + 1.0) / gamma
    gm1d2g := 0.5 * (gamma - 1.0) / gamma
    gm1dgp1 := (gamma - 1.0) / (gamma + 1.0)
    tdgp1 := 2.0 / (gamma + 1.0)
    tdgm1 := 2.0 / (gamma - 1.0)
    gm1d2 := 0.5 * (gamma - 1.0)
    tgdgm1 := 2.0 * gamma / (gamma - 1.0)
    ginv := 1.0 / gamma
    gm1inv := 1.0 / (gamma - 1.0) }

/-- `get_soundspeed` (line 81) -/
def soundspeed (c : Consts α) (rhoinv P : α) : α := sqrt (c.gamma * P * rhoinv)

/-! ### pressure function (lines 97–189) -/

/-- `fb` (line 97): shock branch for `Pstar > P`, rarefaction branch otherwise -/
def fb (c : Consts α) (P A B Pinv afac Pstar : α) : α :=
  if P < Pstar then (Pstar - P) * sqrt (A / (Pstar + B))
  else afac * (pow (Pstar * Pinv) c.gm1d2g - 1.0)

/-- `f` (line 125) -/
def f (c : Consts α) (PL AL BL PLinv aLfac PR AR BR PRinv aRfac udiff Pstar : α) : α :=
  fb c PL AL BL PLinv aLfac Pstar + fb c PR AR BR PRinv aRfac Pstar + udiff

/-- `fprimeb` (line 143) -/
def fprimeb (c : Consts α) (P A B Pinv rhoainv Pstar : α) : α :=
  if P < Pstar then
    let C : α := 1.0 / (Pstar + B)
    (1.0 - 0.5 * (Pstar - P) * C) * sqrt (A * C)
  else pow (Pstar * Pinv) (-c.gp1d2g) * rhoainv

/-- `fprime` (line 171) -/
def fprime (c : Consts α) (PL AL BL PLinv rhoLaLinv PR AR BR PRinv rhoRaRinv Pstar : α) : α :=
  fprimeb c PL AL BL PLinv rhoLaLinv Pstar + fprimeb c PR AR BR PRinv rhoRaRinv Pstar

/-- `gb` (line 186) -/
def gb (A B Pstar : α) : α := sqrt (A / (Pstar + B))

/-! ### initial guess (lines 205–242) -/

/-- `smallP = 5.e-9 * (PL + PR)` -/
def smallP (PL PR : α) : α := 5.0e-9 * (PL + PR)

/-- `Ppv` after the first `std::max` (lines 214–215) -/
def ppv (PL aL PR aR udiff : α) : α :=
  let PLpPR := PL + PR
  amax (smallP PL PR) (0.5 * PLpPR - 0.125 * udiff * PLpPR * (aL + aR))

/-- two-rarefaction guess (lines 221–224) -/
def guessTR (c : Consts α) (PL aL PR aR udiff : α) : α :=
  pow ((aL + aR - c.gm1d2 * udiff) / (aL * pow PL (-c.gm1d2g) + aR * pow PR (-c.gm1d2g))) c.tgdgm1

/-- `guess_P`: value and branch id (1 = primitive-variable, 2 = two rarefactions,
3 = two shocks, 4 = two shocks with infinite `g`) -/
def guessPT (c : Consts α) (PL aL AL BL PR aR AR BR udiff : α) : α × Nat :=
  let Pmin := amin PL PR
  let Pmax := amax PL PR
  let qmax := Pmax / Pmin
  let small := smallP PL PR
  let Ppv := ppv PL aL PR aR udiff
  if qmax ≤ 2.0 ∧ Pmin ≤ Ppv ∧ Ppv ≤ Pmax then (amax small Ppv, 1)
  else if Ppv < Pmin then (amax small (guessTR c PL aL PR aR udiff), 2)
  else
    let gL := gb AL BL Ppv
    let gR := gb AR BR Ppv
    if IsInf gL ∨ IsInf gR then (amax small small, 4)
    else (amax small ((gL * PL + gR * PR - udiff) / (gL + gR)), 3)

def guessP (c : Consts α) (PL aL AL BL PR aR AR BR udiff : α) : α :=
  (guessPT c PL aL AL BL PR aR AR BR udiff).1

/-! ### Brent's method (lines 265–356), for an arbitrary function `F` -/

structure BState (α : Type) where
  a : α
  b : α
  c : α
  d : α
  fa : α
  fb : α
  fc : α
  mflag : Bool

/-- lines 271–300: initial swap so that `|f(b)| ≤ |f(a)|`, `c = a`, `mflag = true` -/
def brentInit (Plow Phigh fPlow fPhigh : α) : BState α :=
  if abs fPlow < abs fPhigh then ⟨Phigh, Plow, Phigh, 1.0e230, fPhigh, fPlow, fPhigh, true⟩
  else ⟨Plow, Phigh, Plow, 1.0e230, fPlow, fPhigh, fPlow, true⟩

/-- loop condition without the iteration counter (lines 305–306) -/
@[reducible] def brentCont (s : BState α) : Prop :=
  ¬ FEq s.fb 0.0 ∧ 5.0e-9 * (s.a + s.b) < abs (s.a - s.b)

/-- inverse quadratic interpolation or secant rule (lines 307–318) -/
def brentCand (s : BState α) : α :=
  if ¬ FEq s.fa s.fc ∧ ¬ FEq s.fb s.fc then
    let famfbinv : α := 1.0 / (s.fa - s.fb)
    let famfcinv : α := 1.0 / (s.fa - s.fc)
    let fbmfcinv : α := 1.0 / (s.fb - s.fc)
    s.a * s.fb * s.fc * famfbinv * famfcinv - s.b * s.fa * s.fc * famfbinv * fbmfcinv
      + s.c * s.fa * s.fb * famfcinv * fbmfcinv
  else s.b - s.fb * (s.b - s.a) / (s.fb - s.fa)

/-- `tmp2 = 0.25 * (3. * a + b)` (line 320) -/
def brentTmp2 (s : BState α) : α := 0.25 * (3.0 * s.a + s.b)

/-- the five conditions under which the candidate is replaced by bisection (lines 320–325) -/
@[reducible] def brentBisect (s : BState α) (x : α) : Prop :=
  ¬ ((brentTmp2 s < x ∧ x < s.b) ∨ (x < brentTmp2 s ∧ s.b < x))
  ∨ (s.mflag = true ∧ 0.5 * abs (s.b - s.c) ≤ abs (x - s.b))
  ∨ (s.mflag = false ∧ 0.5 * abs (s.c - s.d) ≤ abs (x - s.b))
  ∨ (s.mflag = true ∧ abs (s.b - s.c) < 5.0e-9 * (s.b + s.c))
  ∨ (s.mflag = false ∧ abs (s.c - s.d) < 5.0e-9 * (s.c + s.d))

/-- the new abscissa `s` (line 326 or the candidate) -/
def brentS (s : BState α) : α :=
  if brentBisect s (brentCand s) then 0.5 * (s.a + s.b) else brentCand s

/-- lines 343–351: swap so that `|f(b)| ≤ |f(a)|` -/
def brentSwap (s : BState α) : BState α :=
  if abs s.fa < abs s.fb then { s with a := s.b, b := s.a, fa := s.fb, fb := s.fa } else s

/-- lines 331–341: shift `d,c`, replace the end point that keeps the sign change -/
def brentUpdate (s : BState α) (x fx : α) (mf : Bool) : BState α :=
  if s.fa * fx < 0.0 then
    { a := s.a, b := x, c := s.b, d := s.c, fa := s.fa, fb := fx, fc := s.fb, mflag := mf }
  else
    { a := x, b := s.b, c := s.b, d := s.c, fa := fx, fb := s.fb, fc := s.fb, mflag := mf }

/-- one pass through the loop body -/
def brentStep (F : α → α) (s : BState α) : BState α :=
  let x := brentS s
  brentSwap (brentUpdate s x (F x) (decide (brentBisect s (brentCand s))))

/-- the `while` loop; `fuel` is `1e4 - itcount`.  Returns the state and the fuel left. -/
def brentLoop (F : α → α) : Nat → BState α → BState α × Nat
  | 0, s => (s, 0)
  | n + 1, s => if brentCont s then brentLoop F n (brentStep F s) else (s, n + 1)

/-- `solve_brent`: `none` = `cmac_error` ("Equal sign function values") -/
def solveBrent (F : α → α) (fuel : Nat) (Plow Phigh fPlow fPhigh : α) : Option (α × Nat) :=
  if 0.0 < fPlow * fPhigh then none
  else
    let r := brentLoop F fuel (brentInit Plow Phigh fPlow fPhigh)
    some (r.1.b, r.2)

/-! ### Newton–Raphson phase and hand-over to Brent (lines 943–973) -/

structure NState (α : Type) where
  Pstar : α
  fPstar : α
  Pguess : α
  fPguess : α

/-- `std::abs(Pstar - Pguess) > 5.e-9 * (Pstar + Pguess)` -/
@[reducible] def notConverged (s : NState α) : Prop :=
  5.0e-9 * (s.Pstar + s.Pguess) < abs (s.Pstar - s.Pguess)

/-- the `while` of lines 956–964 (the C++ loop has no counter: `fuel` is a device of the model;
the second component is the fuel left, `0` with the condition still true = ran out) -/
def newtonLoop (F F' : α → α) : Nat → NState α → NState α × Nat
  | 0, s => (s, 0)
  | n + 1, s =>
    if notConverged s ∧ s.fPguess < 0.0 then
      let Pg := s.Pguess - s.fPguess / F' s.Pguess
      newtonLoop F F' n ⟨s.Pguess, s.fPguess, Pg, F Pg⟩
    else (s, n + 1)

/-- lines 953–965: Newton only when there is no sign change between `0` and the guess -/
def newtonPhase (F F' : α → α) (fuel : Nat) (Pguess : α) : NState α × Nat :=
  let s0 : NState α := ⟨0.0, F 0.0, Pguess, F Pguess⟩
  if 0.0 ≤ s0.fPstar * s0.fPguess then newtonLoop F F' fuel s0 else (s0, fuel)

/-- result of the root finding: pressure, path id (1 = Newton/guess value returned,
2 = Brent), fuel left of the Newton loop and of the Brent loop, error flag of `solve_brent` -/
structure PRes (α : Type) where
  pstar : α
  path : Nat
  newtonLeft : Nat
  brentLeft : Nat
  err : Bool

/-- lines 968–973 -/
def handOver (F : α → α) (brentFuel : Nat) (r : NState α × Nat) : PRes α :=
  let s := r.1
  if notConverged s ∧ 0.0 < s.fPguess then
    match solveBrent F brentFuel s.Pstar s.Pguess s.fPstar s.fPguess with
    | some (p, left) => ⟨p, 2, r.2, left, false⟩
    | none => ⟨s.Pguess, 2, r.2, 0, true⟩
  else ⟨s.Pguess, 1, r.2, brentFuel, false⟩

def findPstar (F F' : α → α) (newtonFuel brentFuel : Nat) (Pguess : α) : PRes α :=
  handOver F brentFuel (newtonPhase F F' newtonFuel Pguess)

/-- line 985 -/
def ustarOf (uL uR fL fR : α) : α := 0.5 * ((uL + uR) + (fR - fL))

/-! ### sampling (lines 374–599) -/

structure Sol (α : Type) where
  rho : α
  u : α
  P : α
  br : Nat

/-- right shock speed (line 383) -/
def shockSpeedR (c : Consts α) (uR aR PRinv Pstar : α) : α :=
  uR + aR * sqrt (c.gp1d2g * (Pstar * PRinv) + c.gm1d2g)
/-- left shock speed (line 504) -/
def shockSpeedL (c : Consts α) (uL aL PLinv Pstar : α) : α :=
  uL - aL * sqrt (c.gp1d2g * (Pstar * PLinv) + c.gm1d2g)
/-- density behind a shock (lines 386, 507) -/
def shockDensity (c : Consts α) (rho Pinv Pstar : α) : α :=
  rho * (Pstar * Pinv + c.gm1dgp1) / (c.gm1dgp1 * (Pstar * Pinv) + 1.0)

/-- `sample_right_shock_wave` (line 374); branch 1 = star region, 2 = right state -/
def sampleRightShock (c : Consts α) (rhoR uR PR aR PRinv ustar Pstar dxdt : α) : Sol α :=
  if dxdt < shockSpeedR c uR aR PRinv Pstar then ⟨shockDensity c rhoR PRinv Pstar, ustar, Pstar, 1⟩
  else ⟨rhoR, uR, PR, 2⟩

/-- head and tail of the right rarefaction (lines 421, 427) -/
def headR (uR aR : α) : α := uR + aR
def tailR (c : Consts α) (aR PRinv ustar Pstar : α) : α := ustar + aR * pow (Pstar * PRinv) c.gm1d2g
/-- state inside the right fan (lines 436–439; `base` is clamped at zero, `std::max(0., …)`) -/
def fanR (c : Consts α) (rhoR uR PR aR dxdt : α) (br : Nat) : Sol α :=
  let base := amax 0.0 (c.tdgp1 - c.gm1dgp1 * (uR - dxdt) / aR)
  ⟨rhoR * pow base c.tdgm1, c.tdgp1 * (-aR + c.gm1d2 * uR + dxdt), PR * pow base c.tgdgm1, br⟩
/-- star state behind a right rarefaction (lines 430–432) -/
def starRarefaction (c : Consts α) (rho Pinv ustar Pstar : α) (br : Nat) : Sol α :=
  ⟨rho * pow (Pstar * Pinv) c.ginv, ustar, Pstar, br⟩

/-- `sample_right_rarefaction_wave` (line 413); 3 = right state, 4 = star region, 5 = fan -/
def sampleRightRarefaction (c : Consts α) (rhoR uR PR aR PRinv ustar Pstar dxdt : α) : Sol α :=
  if dxdt < headR uR aR then
    if dxdt < tailR c aR PRinv ustar Pstar then starRarefaction c rhoR PRinv ustar Pstar 4
    else fanR c rhoR uR PR aR dxdt 5
  else ⟨rhoR, uR, PR, 3⟩

/-- `sample_right_state` (line 464) -/
def sampleRightState (c : Consts α) (rhoR uR PR aR PRinv ustar Pstar dxdt : α) : Sol α :=
  if PR < Pstar then sampleRightShock c rhoR uR PR aR PRinv ustar Pstar dxdt
  else sampleRightRarefaction c rhoR uR PR aR PRinv ustar Pstar dxdt

/-- `sample_left_shock_wave` (line 496); 6 = star region, 7 = left state -/
def sampleLeftShock (c : Consts α) (rhoL uL PL aL PLinv ustar Pstar dxdt : α) : Sol α :=
  if shockSpeedL c uL aL PLinv Pstar < dxdt then ⟨shockDensity c rhoL PLinv Pstar, ustar, Pstar, 6⟩
  else ⟨rhoL, uL, PL, 7⟩

/-- head and tail of the left rarefaction (lines 542, 548) -/
def headL (uL aL : α) : α := uL - aL
def tailL (c : Consts α) (aL PLinv ustar Pstar : α) : α := ustar - aL * pow (Pstar * PLinv) c.gm1d2g
/-- state inside the left fan (lines 552–555) -/
def fanL (c : Consts α) (rhoL uL PL aL dxdt : α) (br : Nat) : Sol α :=
  let base := amax 0.0 (c.tdgp1 + c.gm1dgp1 * (uL - dxdt) / aL)
  ⟨rhoL * pow base c.tdgm1, c.tdgp1 * (aL + c.gm1d2 * uL + dxdt), PL * pow base c.tgdgm1, br⟩

/-- `sample_left_rarefaction_wave` (line 534); 8 = left state, 9 = fan, 10 = star region -/
def sampleLeftRarefaction (c : Consts α) (rhoL uL PL aL PLinv ustar Pstar dxdt : α) : Sol α :=
  if headL uL aL < dxdt then
    if dxdt < tailL c aL PLinv ustar Pstar then fanL c rhoL uL PL aL dxdt 9
    else starRarefaction c rhoL PLinv ustar Pstar 10
  else ⟨rhoL, uL, PL, 8⟩

/-- `sample_left_state` (line 585) -/
def sampleLeftState (c : Consts α) (rhoL uL PL aL PLinv ustar Pstar dxdt : α) : Sol α :=
  if PL < Pstar then sampleLeftShock c rhoL uL PL aL PLinv ustar Pstar dxdt
  else sampleLeftRarefaction c rhoL uL PL aL PLinv ustar Pstar dxdt

/-! ### `solve` (lines 866–1002) -/

/-- everything `solve` computes before sampling -/
structure Star (α : Type) where
  aL : α
  aR : α
  pstar : α
  ustar : α
  fL : α
  fR : α
  guessBr : Nat
  res : PRes α

/-- lines 911–985 for two non-vacuum states without vacuum generation -/
def star (c : Consts α) (newtonFuel brentFuel : Nat) (rhoL uL PL rhoR uR PR : α) : Star α :=
  let rhoLinv : α := 1.0 / rhoL
  let rhoRinv : α := 1.0 / rhoR
  let PLinv : α := 1.0 / PL
  let PRinv : α := 1.0 / PR
  let aL := soundspeed c rhoLinv PL
  let aR := soundspeed c rhoRinv PR
  let aLfac := c.tdgm1 * aL
  let aRfac := c.tdgm1 * aR
  let udiff := uR - uL
  let AL := c.tdgp1 * rhoLinv
  let BL := c.gm1dgp1 * PL
  let rhoLaLinv : α := 1.0 / (rhoL * aL)
  let AR := c.tdgp1 * rhoRinv
  let BR := c.gm1dgp1 * PR
  let rhoRaRinv : α := 1.0 / (rhoR * aR)
  let g := guessPT c PL aL AL BL PR aR AR BR udiff
  let F := f c PL AL BL PLinv aLfac PR AR BR PRinv aRfac udiff
  let F' := fprime c PL AL BL PLinv rhoLaLinv PR AR BR PRinv rhoRaRinv
  let r := findPstar F F' newtonFuel brentFuel g.1
  let fR := fb c PR AR BR PRinv aRfac r.pstar
  let fL := fb c PL AL BL PLinv aLfac r.pstar
  ⟨aL, aR, r.pstar, ustarOf uL uR fL fR, fL, fR, g.2, r⟩

/-- lines 977–1001; 23 = infinite `fL`/`fR` ⇒ vacuum -/
def sampleStar (c : Consts α) (s : Star α) (rhoL uL PL rhoR uR PR dxdt : α) : Int × Sol α :=
  if IsInf s.fR ∨ IsInf s.fL then (0, ⟨0.0, 0.0, 0.0, 23⟩)
  else if s.ustar < dxdt then
    (1, sampleRightState c rhoR uR PR s.aR (1.0 / PR) s.ustar s.pstar dxdt)
  else (-1, sampleLeftState c rhoL uL PL s.aL (1.0 / PL) s.ustar s.pstar dxdt)

/-- tags of the vacuum branches (those of `RiemannVacuum`) are shifted by 100 in `Sol.br` -/
def vacTagShift : Nat := 100

/-- `solve`: flag, sampled state, and (for the iterative regime) the star-region data.
The vacuum tests, the vacuum-generation test and the vacuum samplers are
`RiemannVacuum.solveIfVacuum` (`ovf`: threshold below which `1/x` is infinite; `2^-1024` at
`Float`, `0` at `ℝ`); `none` there = the iterative solver runs. -/
def solve (ovf g : α) (newtonFuel brentFuel : Nat) (rhoL uL PL rhoR uR PR dxdt : α) :
    Int × Sol α × Option (Star α) :=
  match RiemannVacuum.solveIfVacuum ovf g rhoL uL PL rhoR uR PR dxdt with
  | some v => (v.flag, ⟨v.rho, v.u, v.P, v.tag + vacTagShift⟩, none)
  | none =>
    let c := mkConsts g
    let s := star c newtonFuel brentFuel rhoL uL PL rhoR uR PR
    let r := sampleStar c s rhoL uL PL rhoR uR PR dxdt
    (r.1, r.2, some s)

end
end CMacVerif.ExactRiemann
