import CMacVerif.Model.GridNum
import CMacVerif.Model.Shells
/-
Model of the bucket-grid nearest neighbour search of `PointLocations`
(src/PointLocations.hpp): bucket assignment in the constructor (116-135),
`generalngbiterator` (constructor 529-568, `increase_range` 647-690, `get_max_radius2`
704-708) and `get_closest_neighbour` (718-768).  The block traversal is `Model/Shells.lean`.
Numeric code generic; core Lean only.
-/
namespace CMacVerif.Buckets
open CMacVerif.GridNum CMacVerif.Shells

/-- the bucket grid: `_grid_anchor`, `_grid_cell_sides`, `ncell_1D`, the buckets and the points -/
structure BGrid (α : Type) where
  anchor : V3 α
  cs : V3 α
  n : Int
  bucket : Int → Int → Int → List Nat          -- `_grid[ix][iy][iz]` (indices into `_positions`)
  pos : Nat → V3 α

section
variable {α : Type} [Add α] [Sub α] [Mul α] [Div α] [Neg α] [LT α] [LE α] [DecidableLT α]
  [DecidableLE α] [OfScientific α] [Trunc α] [OfInt α]

/-- constructor, bucket of a point: `(position - minpos) / maxpos * ncell_1D` per axis -/
def bucketIndex (n : Int) (p a s : α) : Int := Trunc.toInt ((p - a) / s * OfInt.ofInt n)

/-- constructor lines 116-135: the three bucket indices of a position -/
def pointBucket (n : Int) (a s : V3 α) (p : V3 α) : Int × Int × Int :=
  (bucketIndex n p.x a.x s.x, bucketIndex n p.y a.y s.y, bucketIndex n p.z a.z s.z)

/-- `_grid[ix][iy][iz].push_back(i)` for `i = 0 … npts-1`: a bucket holds, in ascending order,
the indices whose bucket indices are its own (`ids i` = bucket indices of position `i`) -/
def bucketsFrom (ids : Nat → Int × Int × Int) (npts : Nat) (ix iy iz : Int) : List Nat :=
  (List.range npts).filter (fun i => decide ((ids i).1 = ix ∧ (ids i).2.1 = iy ∧ (ids i).2.2 = iz))

/-- `_grid_cell_sides = maxpos / ncell_1D` -/
def cellSides (s : V3 α) (n : Int) : V3 α := ⟨s.x / OfInt.ofInt n, s.y / OfInt.ofInt n, s.z / OfInt.ofInt n⟩

/-- the constructor with an explicit box (`minpos = box.get_anchor()`, `maxpos = box.get_sides()`) -/
def build (n : Int) (a s : V3 α) (pos : Nat → V3 α) (npts : Nat) : BGrid α :=
  ⟨a, cellSides s n, n, bucketsFrom (fun i => pointBucket n a s (pos i)) npts, pos⟩

/-- `generalngbiterator`: anchor cell of the query, `(position - _grid_anchor) / _grid_cell_sides` -/
def anchorIndex (p a cs : α) : Int := Trunc.toInt ((p - a) / cs)

/-- iterator state besides the block indices: `_lower_bound`, `_upper_bound` -/
structure Bounds (α : Type) where
  lb : V3 α
  ub : V3 α

/-- constructor lines 552-567 (note the names: the "lower" bound starts at the upper wall of the
anchor cell and only becomes the lower wall after the first widening) -/
def initBounds (g : BGrid α) (ax ay az : Int) (p : V3 α) : Bounds α :=
  ⟨⟨g.anchor.x + OfInt.ofInt (ax + 1) * g.cs.x - p.x, g.anchor.y + OfInt.ofInt (ay + 1) * g.cs.y - p.y,
     g.anchor.z + OfInt.ofInt (az + 1) * g.cs.z - p.z⟩,
   ⟨g.anchor.x + OfInt.ofInt ax * g.cs.x - p.x, g.anchor.y + OfInt.ofInt ay * g.cs.y - p.y,
     g.anchor.z + OfInt.ofInt az * g.cs.z - p.z⟩⟩

/-- `increase_range`, the block `if (level > oldlevel) { ... }` (lines 662-688) -/
def widen (g : BGrid α) (ax ay az : Int) (oldlevel : Int) (b : Bounds α) : Bounds α :=
  ⟨⟨if oldlevel ≤ ax then b.lb.x - g.cs.x else b.lb.x, if oldlevel ≤ ay then b.lb.y - g.cs.y else b.lb.y,
     if oldlevel ≤ az then b.lb.z - g.cs.z else b.lb.z⟩,
   ⟨if oldlevel + ax < g.n then b.ub.x + g.cs.x else b.ub.x, if oldlevel + ay < g.n then b.ub.y + g.cs.y else b.ub.y,
     if oldlevel + az < g.n then b.ub.z + g.cs.z else b.ub.z⟩⟩

def fmax (a b : α) : α := if a < b then b else a      -- std::max
def fmin (a b : α) : α := if b < a then b else a      -- std::min
def fabs (a : α) : α := if a < 0.0 then -a else a     -- std::abs

/-- `get_max_radius2`: `rmin = min(|lower_bound.max()|, upper_bound.min()); rmin * rmin` -/
def maxRadius2 (b : Bounds α) : α :=
  let rmin := fmin (fabs (fmax (fmax b.lb.x b.lb.y) b.lb.z)) (fmin (fmin b.ub.x b.ub.y) b.ub.z)
  rmin * rmin

/-- `(ngbpos - cpos).norm2()` -/
def dist2 (q p : V3 α) : α :=
  (q.x - p.x) * (q.x - p.x) + (q.y - p.y) * (q.y - p.y) + (q.z - p.z) * (q.z - p.z)

/-- best candidate so far: `minr2` (negative: none yet), `minindex` -/
structure Best (α : Type) where
  r2 : α
  idx : Nat

/-- the loop over one bucket (lines 744-751) -/
def scan (g : BGrid α) (p : V3 α) : List Nat → Best α → Best α
  | [], b => b
  | q :: rest, b =>
    let r2 := dist2 (g.pos q) p
    scan g p rest (if b.r2 < 0.0 ∨ r2 < b.r2 then ⟨r2, q⟩ else b)

/-- search state -/
structure SSt (α : Type) where
  idx : Idx
  bnd : Bounds α
  best : Best α
  blocks : Nat          -- number of buckets scanned (evidence only)

inductive Exit where
  | allBlocks       -- `increase_range()` returned false
  | covered         -- `minr2 < max_radius2`
  | fuel
deriving Repr, DecidableEq

/-- `while (it.increase_range() && (minr2 < 0 || minr2 >= it.get_max_radius2())) { scan }` -/
def searchLoop (g : BGrid α) (p : V3 α) (ax ay az : Int) (mx : Idx) (fuelR : Nat) :
    Nat → SSt α → SSt α × Exit
  | 0, s => (s, .fuel)
  | fuel + 1, s =>
    match increaseRange ax ay az g.n g.n g.n mx fuelR s.idx with
    | .atEnd => (s, .allBlocks)
    | .fuelOut => (s, .fuel)
    | .next i' =>
      let bnd := if i'.level > s.idx.level then widen g ax ay az s.idx.level s.bnd else s.bnd
      let s' : SSt α := { s with idx := i', bnd := bnd }
      if s.best.r2 < 0.0 ∨ s.best.r2 ≥ maxRadius2 bnd then
        searchLoop g p ax ay az mx fuelR fuel
          { s' with best := scan g p (g.bucket (ax + i'.rx) (ay + i'.ry) (az + i'.rz)) s.best, blocks := s.blocks + 1 }
      else (s', .covered)

/-- `get_closest_neighbour(cpos)` -/
def closest (g : BGrid α) (p : V3 α) (fuelR fuel : Nat) : SSt α × Exit :=
  let ax := anchorIndex p.x g.anchor.x g.cs.x
  let ay := anchorIndex p.y g.anchor.y g.cs.y
  let az := anchorIndex p.z g.anchor.z g.cs.z
  let mx := setMaxRange ax ay az g.n g.n g.n
  let b0 : Best α := scan g p (g.bucket ax ay az) ⟨-1.0, 0⟩
  searchLoop g p ax ay az mx fuelR fuel ⟨start, initBounds g ax ay az p, b0, 1⟩
end

end CMacVerif.Buckets
