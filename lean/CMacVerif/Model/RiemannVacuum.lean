import CMacVerif.Arith
/-!
# Vacuum branches of `ExactRiemannSolver` (src/ExactRiemannSolver.hpp)

Statement-by-statement model of

* the constructor's derived constants (`_tdgm1`, `_gm1d2`, …; lines 831-838),
* `sample_right_vacuum` (615-646), `sample_left_vacuum` (662-693),
  `sample_vacuum_generation` (714-764), `solve_vacuum` (791-818),
* the vacuum tests and the dispatch at the top of `solve` (883-921),
* the flux assembly / boost of `solve_for_flux` (1039-1100).

Core Lean only, generic over the standard operator classes + `ArithFns` (DESIGN §2.1): the same
definitions run at `Float` in the drivers (C05, C11) and are reasoned about at `ℝ`.

## How `std::isinf(1/x)` is modelled

The C++ tests `x == 0. || std::isinf(1. / x)`.  For an IEEE double `x` (round to nearest,
gradual underflow) `1/x` is `±inf` exactly when `x = ±0` or `|x| ≤ 2^-1024`
(the largest subnormal whose reciprocal rounds above `DBL_MAX`: multiples of `2^-1074` up to
`2^50·2^-1074`).  `invOverflows ovf x := -ovf ≤ x ∧ x ≤ ovf` is that condition with the threshold
as a parameter: the `Float` drivers pass `ovf = 2^-1024` (bit pattern `0x0004000000000000`),
the theorems take `ovf = 0` (exact reals: the reciprocal "overflows" only at `x = 0`).
`x == 0.` is modelled as `x ≤ 0 ∧ 0 ≤ x` (same truth value for every double, NaN included).
-/
namespace CMacVerif.RiemannVacuum

/-- `CoordinateVector<>` -/
@[ext] structure V3 (α : Type) where
  x : α
  y : α
  z : α

/-- result of the 1D samplers: state at `x/t = dxdt`, the C++ return flag (-1 left, 1 right,
0 vacuum) and a branch tag for coverage -/
@[ext] structure Sample (α : Type) where
  rho : α
  u : α
  P : α
  flag : Int
  tag : Nat

/-- mass, momentum, energy flux (+ branch id of the path taken, for coverage only) -/
@[ext] structure Flux (α : Type) where
  m : α
  p : V3 α
  e : α
  br : Nat

section
variable {α : Type} [Add α] [Sub α] [Mul α] [Div α] [Neg α] [LT α] [LE α]
  [DecidableLT α] [DecidableLE α] [OfScientific α] [ArithFns α]

namespace V3
/-- `a - b` (`operator-=` componentwise) -/
@[inline] def sub (a b : V3 α) : V3 α := ⟨a.x - b.x, a.y - b.y, a.z - b.z⟩
/-- `a + b` -/
@[inline] def add (a b : V3 α) : V3 α := ⟨a.x + b.x, a.y + b.y, a.z + b.z⟩
/-- `s * v` / `v * s` (both are `v *= s`, i.e. `_x = _x * s`) -/
@[inline] def smul (v : V3 α) (s : α) : V3 α := ⟨v.x * s, v.y * s, v.z * s⟩
/-- `CoordinateVector<>::dot_product` -/
@[inline] def dot (a b : V3 α) : α := a.x * b.x + a.y * b.y + a.z * b.z
/-- `norm2()` -/
@[inline] def norm2 (a : V3 α) : α := a.x * a.x + a.y * a.y + a.z * a.z
@[inline] def neg (a : V3 α) : V3 α := ⟨-a.x, -a.y, -a.z⟩
@[inline] def zero : V3 α := ⟨0.0, 0.0, 0.0⟩
end V3

/-! ### constructor constants (functions of the effective adiabatic index `G`) -/

/-- `_gamma(std::max(gamma, 1.00000001))` -/
@[inline] def effGamma (g : α) : α := amax g 1.00000001
/-- `_gp1d2g(0.5 * (_gamma + 1.) / _gamma)` -/
@[inline] def gp1d2g (G : α) : α := 0.5 * (G + 1.0) / G
/-- `_gm1d2g(0.5 * (_gamma - 1.) / _gamma)` -/
@[inline] def gm1d2g (G : α) : α := 0.5 * (G - 1.0) / G
/-- `_gm1dgp1((_gamma - 1) / (_gamma + 1.))` -/
@[inline] def gm1dgp1 (G : α) : α := (G - 1.0) / (G + 1.0)
/-- `_tdgp1(2. / (_gamma + 1.))` -/
@[inline] def tdgp1 (G : α) : α := 2.0 / (G + 1.0)
/-- `_tdgm1(2. / (_gamma - 1.))` -/
@[inline] def tdgm1 (G : α) : α := 2.0 / (G - 1.0)
/-- `_gm1d2(0.5 * (_gamma - 1.))` -/
@[inline] def gm1d2 (G : α) : α := 0.5 * (G - 1.0)
/-- `_tgdgm1(2. * _gamma / (_gamma - 1.))` -/
@[inline] def tgdgm1 (G : α) : α := 2.0 * G / (G - 1.0)
/-- `_gm1inv(1. / (_gamma - 1.))` (called `_odgm1` in the HLLC solver) -/
@[inline] def gm1inv (G : α) : α := 1.0 / (G - 1.0)

/-! ### vacuum tests -/

/-- `x == 0.` -/
@[inline] def isZero (x : α) : Bool := decide (x ≤ 0.0) && decide (0.0 ≤ x)
/-- `std::isinf(1. / x)`, see the header comment -/
@[inline] def invOverflows (ovf x : α) : Bool := decide (-ovf ≤ x) && decide (x ≤ ovf)
/-- `(rho == 0. || std::isinf(rhoinv) || P == 0. || std::isinf(Pinv))` where `rhoinv = 1/xr`,
`Pinv = 1/xP` (`xr = rho`, `xP = P` in the exact solver; `rho + DBL_MIN`, `P + DBL_MIN` in HLLC) -/
@[inline] def isVacuum (ovf rho xr P xP : α) : Bool :=
  isZero rho || invOverflows ovf xr || isZero P || invOverflows ovf xP

/-- `get_soundspeed(rhoinv, P)` = `std::sqrt(_gamma * P * rhoinv)` -/
@[inline] def soundSpeed (G rhoinv P : α) : α := ArithFns.sqrt (G * P * rhoinv)

/-! ### the rarefaction fans next to vacuum -/

/-- left fan: `base = std::max(0., …)` (clamp added by fix 52f78a3), then `rhosol`, `usol`, `Psol`
(lines 627-630, 752-756) -/
def leftFan (G rhoL uL PL aL dxdt : α) (tag : Nat) : Sample α :=
  let base := amax 0.0 (tdgp1 G + gm1dgp1 G * (uL - dxdt) / aL)
  let rhosol := rhoL * ArithFns.pow base (tdgm1 G)
  let usol := tdgp1 G * (aL + gm1d2 G * uL + dxdt)
  let Psol := PL * ArithFns.pow base (tgdgm1 G)
  ⟨rhosol, usol, Psol, -1, tag⟩

/-- right fan (lines 674-677, 735-738) -/
def rightFan (G rhoR uR PR aR dxdt : α) (tag : Nat) : Sample α :=
  let base := amax 0.0 (tdgp1 G - gm1dgp1 G * (uR - dxdt) / aR)
  let rhosol := rhoR * ArithFns.pow base (tdgm1 G)
  let usol := tdgp1 G * (-aR + gm1d2 G * uR + dxdt)
  let Psol := PR * ArithFns.pow base (tgdgm1 G)
  ⟨rhosol, usol, Psol, 1, tag⟩

/-- the vacuum state `rhosol = usol = Psol = 0`, flag 0 -/
@[inline] def vacuumState (tag : Nat) : Sample α := ⟨0.0, 0.0, 0.0, 0, tag⟩

/-- `sample_right_vacuum` (vacuum on the right of a gas `L`) -/
def sampleRightVacuum (G rhoL uL PL aL dxdt : α) : Sample α :=
  if uL - aL < dxdt then
    -- vacuum regime
    let SL := uL + tdgm1 G * aL
    if dxdt < SL then leftFan G rhoL uL PL aL dxdt 12
    else vacuumState 13
  else ⟨rhoL, uL, PL, -1, 11⟩

/-- `sample_left_vacuum` (vacuum on the left of a gas `R`) -/
def sampleLeftVacuum (G rhoR uR PR aR dxdt : α) : Sample α :=
  if dxdt < uR + aR then
    let SR := uR - tdgm1 G * aR
    if SR < dxdt then rightFan G rhoR uR PR aR dxdt 22
    else vacuumState 23
  else ⟨rhoR, uR, PR, 1, 21⟩

/-- `sample_vacuum_generation` (two gases moving apart faster than the fans can fill) -/
def sampleVacuumGeneration (G rhoL uL PL aL rhoR uR PR aR dxdt : α) : Sample α :=
  let SR := uR - tdgm1 G * aR
  let SL := uL + tdgm1 G * aL
  if dxdt < SR ∧ SL < dxdt then vacuumState 31
  else
    if SL < dxdt then
      -- right state
      if dxdt < uR + aR then rightFan G rhoR uR PR aR dxdt 32
      else ⟨rhoR, uR, PR, 1, 33⟩
    else
      -- left state
      if uL - aL < dxdt then leftFan G rhoL uL PL aL dxdt 34
      else ⟨rhoL, uL, PL, -1, 35⟩

/-- `solve_vacuum` -/
def solveVacuum (G rhoL uL PL aL : α) (vacuumL : Bool) (rhoR uR PR aR : α) (vacuumR : Bool)
    (dxdt : α) : Sample α :=
  if vacuumL && vacuumR then vacuumState 1
  else if vacuumR then sampleRightVacuum G rhoL uL PL aL dxdt
  else if vacuumL then sampleLeftVacuum G rhoR uR PR aR dxdt
  else sampleVacuumGeneration G rhoL uL PL aL rhoR uR PR aR dxdt

/-- The head of `ExactRiemannSolver::solve` (lines 883-921): `some s` when one of the two vacuum
exits is taken (`s` = what `solve` returns through `rhosol, usol, Psol` and its flag), `none`
when the iterative solver runs (modelled in C11). `g` is the constructor argument. -/
def solveIfVacuum (ovf g rhoL uL PL rhoR uR PR dxdt : α) : Option (Sample α) :=
  let G := effGamma g
  let rhoLinv := 1.0 / rhoL
  let rhoRinv := 1.0 / rhoR
  let vacuumL := isVacuum ovf rhoL rhoL PL PL
  let vacuumR := isVacuum ovf rhoR rhoR PR PR
  if vacuumL || vacuumR then
    let aL := if vacuumL then 0.0 else soundSpeed G rhoLinv PL
    let aR := if vacuumR then 0.0 else soundSpeed G rhoRinv PR
    some (solveVacuum G rhoL uL PL aL vacuumL rhoR uR PR aR vacuumR dxdt)
  else
    let aL := soundSpeed G rhoLinv PL
    let aR := soundSpeed G rhoRinv PR
    let aLfac := tdgm1 G * aL
    let aRfac := tdgm1 G * aR
    let udiff := uR - uL
    if aLfac + aRfac ≤ udiff then
      some (solveVacuum G rhoL uL PL aL vacuumL rhoR uR PR aR vacuumR dxdt)
    else none

/-! ### flux assembly of `solve_for_flux` (lines 1062-1100) -/

/-- frame of the interface: `uLface`, `uRface`, `vL`, `vR` (lines 1039-1044) -/
structure FaceFrame (α : Type) where
  uLface : V3 α
  uRface : V3 α
  vL : α
  vR : α

def faceFrame (uL uR normal vface : V3 α) : FaceFrame α :=
  let uLface := uL.sub vface
  let uRface := uR.sub vface
  ⟨uLface, uRface, uLface.dot normal, uRface.dot normal⟩

/-- de-boost to the fixed frame (lines 1090-1093):
`Eflux += vface·pflux + 0.5 vface² mflux; pflux += mflux * vface` -/
def deboost (m : α) (p : V3 α) (e : α) (vface : V3 α) (br : Nat) : Flux α :=
  let vface2 := vface.norm2
  let e' := e + (vface.dot p + 0.5 * vface2 * m)
  let p' := p.add (vface.smul m)
  ⟨m, p', e', br⟩

/-- lines 1062-1100: from the sampled 1D state to the flux through the moving face.
(`_gamma > 1.` always holds because of the clamp in the constructor; the test is kept.) -/
def fluxFromSample (G : α) (s : Sample α) (f : FaceFrame α) (normal vface : V3 α) : Flux α :=
  if s.flag ≠ 0 then
    let usol : V3 α :=
      if s.flag = -1 then f.uLface.add (normal.smul (s.u - f.vL))
      else f.uRface.add (normal.smul (s.u - f.vR))
    let rhoesol :=
      if 1.0 < G then 0.5 * s.rho * usol.norm2 + s.P * gm1inv G
      else 0.5 * s.rho * usol.norm2
    let vsol := usol.dot normal
    let mflux := s.rho * vsol
    let pflux := (usol.smul (s.rho * vsol)).add (normal.smul s.P)
    let Eflux := (rhoesol + s.P) * vsol
    deboost mflux pflux Eflux vface s.tag
  else ⟨0.0, V3.zero, 0.0, s.tag⟩

/-- `ExactRiemannSolver::solve_for_flux` on the inputs for which `solve` takes a vacuum exit -/
def solveForFluxIfVacuum (ovf g rhoL : α) (uL : V3 α) (PL rhoR : α) (uR : V3 α) (PR : α)
    (normal vface : V3 α) : Option (Flux α) :=
  let f := faceFrame uL uR normal vface
  match solveIfVacuum ovf g rhoL f.vL PL rhoR f.vR PR 0.0 with
  | some s => some (fluxFromSample (effGamma g) s f normal vface)
  | none => none

end
end CMacVerif.RiemannVacuum
