import CMacVerif.Arith
/-!
# C18 — model of the constructor of `PlanckPhotonSourceSpectrum`
(`/repo/src/PlanckPhotonSourceSpectrum.cpp` 53-104): the three tables the sampler inverts.

Core Lean only, generic arithmetic; `ofNat` is the conversion `uint_fast32_t → double` of the loop
counter (`Nat.toFloat` in the driver, `Nat.cast` in the theorems), `hP`, `kB` the physical
constants the C++ reads from `PhysicalConstants`, `N = PLANCKPHOTONSOURCESPECTRUM_NUMFREQ`.
Statement order follows the C++; tables are functions of the index (the driver tabulates them).
-/
namespace CMacVerif.Planck
open CMacVerif

section
variable {α : Type} [Add α] [Sub α] [Mul α] [Div α] [Neg α] [LT α] [LE α]
  [DecidableLT α] [DecidableLE α] [OfScientific α] [ArithFns α]

/-- `frequency[i] = 1. + i * (max_frequency - 1.) / (NUMFREQ - 1.)`, `max_frequency = 4.` -/
def pFreq (ofNat : Nat → α) (N i : Nat) : α := 1.0 + ofNat i * (4.0 - 1.0) / (ofNat N - 1.0)

/-- `luminosity[i] = f³ / (exp(h f ν_min / (k T)) - 1)`, `ν_min = 3.289e15` -/
def pLum (hP kB T f : α) : α :=
  f * f * f / (ArithFns.exp (hP * f * 3.289e15 / (kB * T)) - 1.0)

/-- the trapezoid increment `0.5 * (L[i]/f[i] + L[i-1]/f[i-1]) * (f[i] - f[i-1])`, `i ≥ 1` -/
def pInc (ofNat : Nat → α) (hP kB T : α) (N i : Nat) : α :=
  0.5 * (pLum hP kB T (pFreq ofNat N i) / pFreq ofNat N i +
         pLum hP kB T (pFreq ofNat N (i - 1)) / pFreq ofNat N (i - 1)) *
    (pFreq ofNat N i - pFreq ofNat N (i - 1))

/-- un-normalised `_cumulative_distribution[i]` (first loop) -/
def pCum (ofNat : Nat → α) (hP kB T : α) (N : Nat) : Nat → α
  | 0 => 0.0
  | i + 1 => pCum ofNat hP kB T N i + pInc ofNat hP kB T N (i + 1)

/-- `_cumulative_distribution[i]` after the normalisation loop (entry 0 is never divided) -/
def pCdf (ofNat : Nat → α) (hP kB T : α) (N i : Nat) : α :=
  if i = 0 then 0.0 else pCum ofNat hP kB T N i / pCum ofNat hP kB T N (N - 1)

/-- `_log_cumulative_distribution[i]` -/
def pLogCdf (ofNat : Nat → α) (hP kB T : α) (N i : Nat) : α :=
  if i = 0 then -10.0 else ArithFns.log10 (pCdf ofNat hP kB T N i)

/-- `_log_frequency[i]` -/
def pLogFreq (ofNat : Nat → α) (N i : Nat) : α :=
  if i = 0 then 0.0 else ArithFns.log10 (pFreq ofNat N i)

/-! ### tabulation in linear time (what the driver runs): the same increments `pInc`, accumulated
in an array; `Lemmas/Planck.lean: pCumArr_getD` proves, for EVERY arithmetic (also `Float`), that
entry `j` of the array is `pCum j`, so the fast tables are the tables defined above. -/

/-- `#[pCum 0, …, pCum i]` -/
def pCumArr (ofNat : Nat → α) (hP kB T : α) (N : Nat) : Nat → Array α
  | 0 => #[0.0]
  | i + 1 =>
    let a := pCumArr ofNat hP kB T N i
    a.push (a.getD i 0.0 + pInc ofNat hP kB T N (i + 1))

/-- `pCdf` read from the array of cumulative sums -/
def pCdfFast (cum : Array α) (N i : Nat) : α :=
  if i = 0 then 0.0 else cum.getD i 0.0 / cum.getD (N - 1) 0.0

/-- `pLogCdf` read from the array of cumulative sums -/
def pLogCdfFast (cum : Array α) (N i : Nat) : α :=
  if i = 0 then -10.0 else ArithFns.log10 (pCdfFast cum N i)

end
end CMacVerif.Planck
