import CMacVerif.Arith
/-!
# C18 — model of `Utilities::locate` and of the inverse-CDF samplers

Core Lean only, generic arithmetic.  Tables are functions `Nat → α` (the driver passes
`fun i => arr.getD i 0`); the length is a separate argument exactly as in the C++.

* `locate`        — `Utilities.hpp` 726-742 (bisection; the final `--jl`),
* `planckSample`  — `PlanckPhotonSourceSpectrum::get_random_frequency` (149-166): locate in the
                    linear CDF, interpolate in log–log,
* `linearSample`  — `HeliumTwoPhotonContinuumSpectrum::get_random_frequency` and
                    `MaskedPhotonSourceSpectrum::get_random_frequency`: linear interpolation,
* `lymanSample`   — `HydrogenLymanContinuumSpectrum` / `HeliumLymanContinuumSpectrum`
                    `::get_random_frequency`: temperature clamp, three `locate`s, linear
                    interpolation in temperature,
* `uniformSample`, `monoSample` — the two closed forms.
-/
namespace CMacVerif.Locate
open CMacVerif

section
variable {α : Type} [LT α] [DecidableLT α]

/-- the `while (ju - jl > 1)` loop of `Utilities::locate` -/
def locateLoop (x : α) (xarr : Nat → α) (jl ju : Nat) : Nat :=
  if ju - jl > 1 then
    if xarr ((ju + jl) / 2) < x then locateLoop x xarr ((ju + jl) / 2) ju
    else locateLoop x xarr jl ((ju + jl) / 2)
  else jl
termination_by ju - jl
decreasing_by all_goals omega

/-- `Utilities::locate(x, xarr, length)`; `length ≥ 2` at every call site (for `length ≤ 1`
the C++ `--jl` / `length - 1` wrap around on unsigned integers, the model's do not) -/
def locate (x : α) (xarr : Nat → α) (length : Nat) : Nat :=
  let jl := locateLoop x xarr 0 length
  if jl = length - 1 then jl - 1 else jl

end

section
variable {α : Type} [Add α] [Sub α] [Mul α] [Div α] [Neg α] [LT α] [LE α]
  [DecidableLT α] [DecidableLE α] [OfScientific α] [ArithFns α]

/-- the exponent `log_random_frequency` of the Planck sampler -/
def planckLogFreq (x : α) (cdf logcdf logfreq : Nat → α) (n : Nat) : α :=
  let ix := locate x cdf n
  (ArithFns.log10 x - logcdf ix) / (logcdf (ix + 1) - logcdf ix) *
    (logfreq (ix + 1) - logfreq ix) + logfreq ix

/-- `PlanckPhotonSourceSpectrum::get_random_frequency` for the random number `x` -/
def planckSample (x : α) (cdf logcdf logfreq : Nat → α) (n : Nat) : α :=
  ArithFns.pow 10.0 (planckLogFreq x cdf logcdf logfreq n) * 3.288465385e15

/-- `HeliumTwoPhotonContinuumSpectrum` / `MaskedPhotonSourceSpectrum` `::get_random_frequency` -/
def linearSample (x : α) (freq cdf : Nat → α) (n : Nat) : α :=
  let inu := locate x cdf n
  freq inu + (freq (inu + 1) - freq inu) * (x - cdf inu) / (cdf (inu + 1) - cdf inu)

/-- the clamp both Lyman continuum samplers start with -/
def clampT (T : α) (ttab : Nat → α) (nT : Nat) : α :=
  amax (ttab 0) (amin T (ttab (nT - 1)))

/-- `HydrogenLymanContinuumSpectrum` / `HeliumLymanContinuumSpectrum` `::get_random_frequency`;
`cdf iT` is the cumulative distribution of temperature bin `iT` -/
def lymanSample (x T : α) (ttab : Nat → α) (nT : Nat) (freq : Nat → α) (cdf : Nat → Nat → α)
    (nF : Nat) : α :=
  let Tc := clampT T ttab nT
  let iT := locate Tc ttab nT
  let inu1 := locate x (cdf iT) nF
  let inu2 := locate x (cdf (iT + 1)) nF
  freq inu1 + (Tc - ttab iT) * (freq inu2 - freq inu1) / (ttab (iT + 1) - ttab iT)

/-- `UniformPhotonSourceSpectrum::get_random_frequency` -/
def uniformSample (x : α) : α := (1.0 + 3.0 * x) * 3.289e15

/-- `MonochromaticPhotonSourceSpectrum::get_random_frequency` -/
def monoSample (frequency : α) (_x : α) : α := frequency

end
end CMacVerif.Locate
