import CMacVerif.Model.Worker
/-
The hydro task graph of `make_hydro_tasks` / `set_dependencies` / `reset_hydro_tasks`
(src/TaskBasedRadiationHydrodynamicsSimulation.cpp:130-597) for an arbitrary layout of
subgrids and arbitrary periodicity, as functions of the layout.

Subgrids are named by their grid position (a, b, c); the linear index used by the code is
`a * ny * nz + b * nz + c` (only the driver needs it).  Tied to the code by the dump of the
constructed tables (hook H3) for many layouts, see tools/props/c07.py.
-/
namespace CMacVerif.HydroGraph
open CMacVerif.Worker

structure Layout where
  nx : Nat
  ny : Nat
  nz : Nat
  px : Bool
  py : Bool
  pz : Bool
deriving Repr, DecidableEq

abbrev Sub := Nat × Nat × Nat

inductive Axis where | x | y | z
deriving DecidableEq, Repr

/-- the 18 task slots of a subgrid, `HydroDensitySubGrid::_hydro_tasks[18]` -/
inductive Slot where
  | gradInt                -- 0
  | gradUp (ax : Axis)     -- 1, 3, 5   (+ face: pair task, or boundary task if outside)
  | gradDown (ax : Axis)   -- 2, 4, 6   (- face: only exists as boundary task)
  | limiter                -- 7
  | predict                -- 8
  | fluxInt                -- 9
  | fluxUp (ax : Axis)     -- 10, 12, 14
  | fluxDown (ax : Axis)   -- 11, 13, 15
  | updCons                -- 16
  | updPrim                -- 17
deriving DecidableEq, Repr

structure Task where
  g : Sub
  slot : Slot
deriving DecidableEq, Repr

def len (L : Layout) : Axis → Nat | .x => L.nx | .y => L.ny | .z => L.nz
def per (L : Layout) : Axis → Bool | .x => L.px | .y => L.py | .z => L.pz
def coord (g : Sub) : Axis → Nat | .x => g.1 | .y => g.2.1 | .z => g.2.2
def setCoord (g : Sub) : Axis → Nat → Sub
  | .x, v => (v, g.2.1, g.2.2) | .y, v => (g.1, v, g.2.2) | .z, v => (g.1, g.2.1, v)

def valid (L : Layout) (g : Sub) : Bool := g.1 < L.nx && g.2.1 < L.ny && g.2.2 < L.nz

/-- index of the neighbour across the + face along one axis (periodic wrap) -/
def up1 (n : Nat) (p : Bool) (i : Nat) : Option Nat :=
  if i + 1 < n then some (i + 1) else if p then some 0 else none
/-- … across the - face -/
def down1 (n : Nat) (p : Bool) (i : Nat) : Option Nat :=
  if 0 < i then some (i - 1) else if p then some (n - 1) else none

def ngbUp (L : Layout) (ax : Axis) (g : Sub) : Option Sub :=
  (up1 (len L ax) (per L ax) (coord g ax)).map (setCoord g ax)
def ngbDown (L : Layout) (ax : Axis) (g : Sub) : Option Sub :=
  (down1 (len L ax) (per L ax) (coord g ax)).map (setCoord g ax)

/-- does the slot hold a task (≠ NO_TASK)?  The - face slots only for a box boundary. -/
def slotExists (L : Layout) (g : Sub) : Slot → Bool
  | .gradDown ax => (ngbDown L ax g).isNone
  | .fluxDown ax => (ngbDown L ax g).isNone
  | _ => true

def exists_ (L : Layout) (t : Task) : Bool := valid L t.g && slotExists L t.g t.slot

/-- the task that handles the - face of `g` along `ax` for the gradients: the boundary task of
`g`, or the pair task stored in the - neighbour -/
def gradDownTask (L : Layout) (ax : Axis) (g : Sub) : Task :=
  match ngbDown L ax g with
  | none => ⟨g, .gradDown ax⟩
  | some m => ⟨m, .gradUp ax⟩
def fluxDownTask (L : Layout) (ax : Axis) (g : Sub) : Task :=
  match ngbDown L ax g with
  | none => ⟨g, .fluxDown ax⟩
  | some m => ⟨m, .fluxUp ax⟩

/-- the task in slot `s` of an optional neighbour, as a list -/
def optTask (o : Option Sub) (s : Slot) : List Task :=
  match o with
  | some n => [⟨n, s⟩]
  | none => []

/-- child lists as `set_dependencies` builds them (as multisets; order is not modelled) -/
def children (L : Layout) (t : Task) : List Task :=
  let g := t.g
  match t.slot with
  | .gradInt => [⟨g, .limiter⟩]
  | .gradUp ax => ⟨g, .limiter⟩ :: optTask (ngbUp L ax g) .limiter
  | .gradDown _ => [⟨g, .limiter⟩]
  | .limiter => [⟨g, .predict⟩]
  | .predict => [⟨g, .fluxInt⟩, ⟨g, .fluxUp .x⟩, fluxDownTask L .x g, ⟨g, .fluxUp .y⟩,
                 fluxDownTask L .y g, ⟨g, .fluxUp .z⟩, fluxDownTask L .z g]
  | .fluxInt => [⟨g, .updCons⟩]
  | .fluxUp ax => ⟨g, .updCons⟩ :: optTask (ngbUp L ax g) .updCons
  | .fluxDown _ => [⟨g, .updCons⟩]
  | .updCons => [⟨g, .updPrim⟩]
  | .updPrim => []

/-- the tasks a task waits for -/
def parents (L : Layout) (t : Task) : List Task :=
  let g := t.g
  match t.slot with
  | .limiter => [⟨g, .gradInt⟩, ⟨g, .gradUp .x⟩, gradDownTask L .x g, ⟨g, .gradUp .y⟩,
                 gradDownTask L .y g, ⟨g, .gradUp .z⟩, gradDownTask L .z g]
  | .predict => [⟨g, .limiter⟩]
  | .fluxInt => [⟨g, .predict⟩]
  | .fluxUp ax => ⟨g, .predict⟩ :: optTask (ngbUp L ax g) .predict
  | .fluxDown _ => [⟨g, .predict⟩]
  | .updCons => [⟨g, .fluxInt⟩, ⟨g, .fluxUp .x⟩, fluxDownTask L .x g, ⟨g, .fluxUp .y⟩,
                 fluxDownTask L .y g, ⟨g, .fluxUp .z⟩, fluxDownTask L .z g]
  | .updPrim => [⟨g, .updCons⟩]
  | _ => []

/-- `reset_hydro_tasks`: 0 / 7 / 1 / 1 / 1|2 / 1 / 7 / 1 -/
def resetCount (L : Layout) (t : Task) : Nat :=
  match t.slot with
  | .gradInt | .gradUp _ | .gradDown _ => 0
  | .limiter => 7
  | .predict => 1
  | .fluxInt => 1
  | .fluxUp ax => if (ngbUp L ax t.g).isSome then 2 else 1
  | .fluxDown _ => 1
  | .updCons => 7
  | .updPrim => 1

/-- subgrids whose cells the task's sweep reads or writes (`execute_task`) -/
def footprint (L : Layout) (t : Task) : List Sub :=
  match t.slot with
  | .gradUp ax | .fluxUp ax => (match ngbUp L ax t.g with | some n => [t.g, n] | none => [t.g])
  | _ => [t.g]

/-- the locks the task takes: its subgrid and, for a pair task, the neighbour (once if equal) -/
def lockset (L : Layout) (t : Task) : List Sub :=
  match t.slot with
  | .gradUp ax | .fluxUp ax =>
    (match ngbUp L ax t.g with | some n => if n = t.g then [t.g] else [t.g, n] | none => [t.g])
  | _ => [t.g]

/-- the index of a subgrid in the creator's list (x-major), the key the code sorts locks on -/
def subIndex (L : Layout) (g : Sub) : Nat := g.1 * L.ny * L.nz + g.2.1 * L.nz + g.2.2

/-- the ORDER in which a task takes its locks (`set_dependency` first, `set_extra_dependency`
second): "avoid dining philosophers by sorting the dependencies on subgrid index" -/
def lockOrder (L : Layout) (t : Task) : List Sub :=
  match lockset L t with
  | [a, b] => if subIndex L a < subIndex L b then [a, b] else [b, a]
  | l => l

def phase : Slot → Nat
  | .gradInt | .gradUp _ | .gradDown _ => 0
  | .limiter => 1 | .predict => 2
  | .fluxInt | .fluxUp _ | .fluxDown _ => 3
  | .updCons => 4 | .updPrim => 5

def allSlots : List Slot :=
  [.gradInt, .gradUp .x, .gradDown .x, .gradUp .y, .gradDown .y, .gradUp .z, .gradDown .z,
   .limiter, .predict, .fluxInt, .fluxUp .x, .fluxDown .x, .fluxUp .y, .fluxDown .y,
   .fluxUp .z, .fluxDown .z, .updCons, .updPrim]

def allSubs (L : Layout) : List Sub :=
  (List.range L.nx).flatMap fun a => (List.range L.ny).flatMap fun b =>
    (List.range L.nz).map fun c => (a, b, c)

def allTasks (L : Layout) : List Task :=
  (allSubs L).flatMap fun g => (allSlots.filter (slotExists L g)).map fun s => ⟨g, s⟩

def graph (L : Layout) : Graph Task Sub :=
  { univ := allTasks L, children := children L, parents := parents L, lockset := lockset L }

end CMacVerif.HydroGraph
