import CMacVerif.Model.Ranlux
/-
Model of the OWNERSHIP of the per-thread random streams in the task based driver loop
(TaskBasedIonizationSimulation.cpp: one `std::vector<RandomGenerator>` owned by the driver, every
task context holds a REFERENCE to it, contexts are rebuilt every iteration):

a task executed by thread `t` draws from generator `t` of the driver; the next task of thread `t`
— of whatever context, in whatever iteration — continues where that one stopped.
`runOps` lists the (thread, stream position) pairs handed out.
-/
namespace CMacVerif.Ranlux

/-- a task: the thread that executes it and the number of draws it takes from the generator it is
handed (may depend on the values drawn, e.g. re-emission decisions) -/
structure Op where
  thread : Nat
  draws  : State → Nat

/-- `f[t] := v` -/
def upd {α : Type} (f : Nat → α) (t : Nat) (v : α) : Nat → α := fun i => if i = t then v else f i

/-- the driver loop: generators `g`, positions `p` (draws consumed so far per thread) -/
def runOps : List Op → (Nat → State) → (Nat → Nat) → List (Nat × Nat)
  | [], _, _ => []
  | o :: rest, g, p =>
    let c := o.draws (g o.thread)
    (List.range c).map (fun i => (o.thread, p o.thread + i))
      ++ runOps rest (upd g o.thread (after exact (g o.thread) c)) (upd p o.thread (p o.thread + c))

/-- draws consumed by thread `t` in a run -/
def usedBy (t : Nat) : List Op → (Nat → State) → Nat
  | [], _ => 0
  | o :: rest, g =>
    let c := o.draws (g o.thread)
    (if o.thread = t then c else 0) + usedBy t rest (upd g o.thread (after exact (g o.thread) c))

/-! ### the two consumers -/

/-- SourceDiscretePhotonTaskContext::execute for `n` packets: per packet the two direction draws,
the optical depth draw and `extra` draws of the spectrum.  Returns the optical depth draws. -/
def sourceLoop (extra : Nat) : Nat → State → List Int × State
  | 0, s => ([], s)
  | n + 1, s =>
    let s3 := after exact s 2
    let (u3, s4) := next exact s3
    let s5 := after exact s4 extra
    let (l, s') := sourceLoop extra n s5
    (u3 :: l, s')

/-- PhotonReemitTaskContext::execute over a buffer of `m` packets: one draw of the re-emission
handler per packet (re-emitted iff the draw is `< thr`), then direction and optical depth draws
for the re-emitted ones.  Returns (draws consumed, optical depth draws of the survivors, state). -/
def reemitLoop (thr : Int) : Nat → State → Nat × List Int × State
  | 0, s => (0, [], s)
  | m + 1, s =>
    let (uh, s1) := next exact s
    if uh < thr then
      let s3 := after exact s1 2
      let (u3, s4) := next exact s3
      let (c, l, s') := reemitLoop thr m s4
      (c + 4, u3 :: l, s')
    else
      let (c, l, s') := reemitLoop thr m s1
      (c + 1, l, s')

def sourceOp (t extra n : Nat) : Op := ⟨t, fun _ => (3 + extra) * n⟩
def reemitOp (t : Nat) (thr : Int) (m : Nat) : Op := ⟨t, fun s => (reemitLoop thr m s).1⟩

end CMacVerif.Ranlux
