/-
Model of the photon-packet protocol of one task-based photoionization iteration (C01):
src/TaskBasedIonizationSimulation.cpp ("photon source tasks" ... "while (global_run_flag)"),
PhotonTraversalTaskContext.hpp, PhotonReemitTaskContext.hpp, SourceDiscretePhotonTaskContext.hpp,
SourceContinuousPhotonTaskContext.hpp, FlushContinuousPhotonBuffersTaskContext.hpp,
PrematureLaunchTaskContext.hpp, MemorySpace.hpp, DistributedPhotonSource.hpp.

Integers and lists of integers only.  A photon packet is a ghost identifier (a natural number);
a buffer holds the list of the packets stored in it (`count = ids.length`), so that the same
model yields the counting statement (conservation) and the per-packet statement (exactly once).
The physics inside a task is abstracted: the outcome of a traversal is an arbitrary list of exit
directions (one per packet), the outcome of a re-emission an arbitrary list of keep/absorb flags,
the subgrid a continuous-source packet lands in is arbitrary.  Everything else -- buffer pool,
task pool, active buffers, the overflow split at PHOTONBUFFER_SIZE, the cached largest buffer,
the done counter, the run flag -- mirrors the code.

One label = one committed action; a task's commit is atomic (it runs under its subgrid lock).
No thread identities at this level: any number of tasks can be `running` at once.  The worker
loop of a single thread is modelled on top of this in `PhotonLoop` (same file, second part).
-/
namespace CMacVerif.Photon

/-- PHOTONBUFFER_SIZE -/
abbrev BUFSZ : Nat := 200
/-- TRAVELDIRECTION_NUMBER; direction 0 = TRAVELDIRECTION_INSIDE -/
abbrev NDIR : Nat := 27

def upd {α : Type} (f : Nat → α) (k : Nat) (a : α) : Nat → α := fun x => if x = k then a else f x
def upd2 {α : Type} (f : Nat → Nat → α) (k i : Nat) (a : α) : Nat → Nat → α :=
  fun x y => if x = k ∧ y = i then a else f x y
def updP {α : Type} (f : Nat × Nat → α) (k : Nat × Nat) (a : α) : Nat × Nat → α :=
  fun x => if x = k then a else f x

/-- a photon buffer in use: target subgrid, input direction, stored packets -/
structure Buf where
  sub : Nat
  dir : Nat
  ids : List Nat
deriving DecidableEq, Repr

inductive Kind where
  /-- TASKTYPE_SOURCE_DISCRETE_PHOTON: source copy, packets of the batch -/
  | source (src : Nat) (ids : List Nat)
  /-- TASKTYPE_SOURCE_CONTINUOUS_PHOTON: block, batch size, packets not yet generated -/
  | contSource (block : Nat) (n : Nat) (ids : List Nat)
  /-- TASKTYPE_PHOTON_TRAVERSAL of buffer b -/
  | traverse (b : Nat)
  /-- TASKTYPE_PHOTON_REEMIT of buffer b -/
  | reemit (b : Nat)
  /-- TASKTYPE_FLUSH_CONTINUOUS_PHOTON_BUFFERS of a block -/
  | flush (block : Nat)
deriving DecidableEq, Repr

inductive TSt where
  /-- created by a commit, still in the committing thread's `tasks_to_add[]` -/
  | pending
  | queued
  /-- taken from a queue with its dependency locked -/
  | running
deriving DecidableEq, Repr

structure Task where
  kind : Kind
  st : TSt
deriving DecidableEq, Repr

/-- the resource a task locks (`Task::_dependency[0]`) -/
inductive Lock where
  | sub (g : Nat)
  | block (c : Nat)
deriving DecidableEq, Repr

structure Cfg where
  /-- requested number of packets of the iteration -/
  N : Nat
  /-- number of source copies of the DistributedPhotonSource -/
  nsrc : Nat
  /-- subgrid of a source copy -/
  srcSub : Nat → Nat
  /-- number of original subgrids (targets of the continuous source) -/
  norig : Nat
  /-- number of continuous blocks (= number of threads) -/
  nblocks : Nat
  /-- neighbour of subgrid g in output direction i (none = NEIGHBOUR_OUTSIDE) -/
  ngb : Nat → Nat → Option Nat
  /-- TravelDirections::output_to_input_direction -/
  o2i : Nat → Nat
  /-- diffuse re-emission on -/
  reemission : Bool
  /-- sizes of the MemorySpace and of the task vector -/
  bufCap : Nat
  taskCap : Nat
  /-- which worker loop: `true` = `while (global_run_flag || current_index != NO_TASK)`
  (TaskBasedIonizationSimulation.cpp since f78e960), `false` = `while (global_run_flag)` (the photon loop
  of TaskBasedRadiationHydrodynamicsSimulation.cpp, and the ionization loop before the fix) -/
  loopFixed : Bool := true

structure State where
  /-- packets not yet handed out, per source copy (`_total_number_of_photons - _number_done`) -/
  srcLeft : Nat → List Nat
  /-- continuous packets for which no source task was created yet -/
  contPool : List Nat
  /-- `block_index` of the continuous task creation loop -/
  contBlock : Nat
  pool : Nat → Option Buf
  tasks : Nat → Option Task
  /-- `DensitySubGrid::_active_buffers` -/
  active : Nat → Nat → Option Nat
  /-- `_largest_buffer_index`, `_largest_buffer_size` -/
  largest : Nat → Nat × Nat
  /-- `continuous_buffers[block][subgrid]` -/
  cont : Nat × Nat → List Nat
  /-- `SourceContinuousPhotonTaskContext::_number_of_continuous_photons` -/
  contLeft : Nat
  /-- `_continuous_photons_flushed` -/
  flushCount : Nat
  /-- terminated packets in termination order; `num_photon_done = done.length` -/
  done : List Nat
  /-- `global_run_flag` -/
  run : Bool

/-- resources (free ids) a traversal uses for one output direction, if it needs them:
new active buffer, overflow buffer, new task -/
structure DirRes where
  na : Nat
  nb : Nat
  nt : Nat
deriving DecidableEq, Repr

inductive Label where
  /-- main thread: `get_photon_batch(src, PHOTONBUFFER_SIZE)` > 0, new source task t on the shared queue -/
  | launchBatch (src t : Nat)
  /-- main thread: next continuous source task t -/
  | launchCont (t : Nat)
  /-- a thread takes the queued task t with its dependency locked -/
  | acquire (t : Nat)
  /-- a thread moves the task it created from `tasks_to_add[]` to a queue -/
  | enqueue (t : Nat)
  /-- SourceDiscretePhotonTaskContext::execute: buffer b, traversal task t' -/
  | execSource (t b t' : Nat)
  /-- running continuous source task t draws k packets that land in subgrid s -/
  | contGen (t s k : Nat)
  /-- ... the buffer of subgrid s reached PHOTONBUFFER_SIZE: buffer b, traversal task t' (queued at once) -/
  | contOverflow (t s b t' : Nat)
  /-- ... end of the task: counter update, possibly the flush tasks `fl` (one per block) -/
  | contFinish (t : Nat) (fl : List Nat)
  /-- running flush task t sends off the non-empty buffer of subgrid s -/
  | flushOne (t s b t' : Nat)
  | flushFinish (t : Nat)
  /-- PhotonTraversalTaskContext::execute: exit direction of every packet, resources per direction -/
  | execTraverse (t : Nat) (fates : List Nat) (res : List DirRes)
  /-- PhotonReemitTaskContext::execute: re-emitted? per packet, traversal task t' -/
  | execReemit (t : Nat) (keep : List Bool) (t' : Nat)
  /-- PrematureLaunchTaskContext::execute succeeds on subgrid g: new task t' -/
  | premature (g t' : Nat)
  /-- `_buffers->is_empty() && num_photon_done == _number_of_photons` holds: clear the run flag -/
  | checkTermination
deriving Repr

def lockOf (pool : Nat → Option Buf) : Kind → Option Lock
  | .traverse b => match pool b with | some buf => some (.sub buf.sub) | none => none
  | .contSource c _ _ => some (.block c)
  | .flush c => some (.block c)
  | _ => none

/-- the lock `l` is held by a running task -/
def lockHeld (cfg : Cfg) (s : State) (l : Lock) : Bool :=
  (List.range cfg.taskCap).any fun u =>
    match s.tasks u with
    | some ⟨k, .running⟩ => lockOf s.pool k == some l
    | _ => false

def bufFree (cfg : Cfg) (s : State) (b : Nat) : Bool := decide (b < cfg.bufCap) && (s.pool b).isNone
def taskFree (cfg : Cfg) (s : State) (t : Nat) : Bool := decide (t < cfg.taskCap) && (s.tasks t).isNone

def poolEmpty (cfg : Cfg) (s : State) : Bool := (List.range cfg.bufCap).all fun b => (s.pool b).isNone

/-- `MemorySpace::add_photons`: fill the target up to PHOTONBUFFER_SIZE, the rest goes to a new buffer -/
def addPhotons (target l : List Nat) : List Nat × List Nat :=
  let room := BUFSZ - target.length
  (target ++ l.take room, l.drop room)

def bufLen (pool : Nat → Option Buf) (b : Nat) : Nat :=
  match pool b with | some buf => buf.ids.length | none => 0

/-- the task a buffer gets that leaves subgrid-direction i: traversal in the neighbour, or (direction
INSIDE = absorbed packets) re-emission -/
def fullKind (i a : Nat) : Kind := if 0 < i then .traverse a else .reemit a

/-- second half of one iteration of the loop over output directions in
PhotonTraversalTaskContext::execute: the packets `L` are added to the active buffer `a` of direction i
(target subgrid `sub`, input direction `dir`, contents `old`; `old = []` for a buffer created in this
iteration); a full buffer gets a task and a fresh buffer takes the rest -/
def fillDir (cfg : Cfg) (g i a sub dir : Nat) (old L : List Nat) (r : DirRes) (s : State) : Option State :=
  let sp := addPhotons old L
  let s2 : State := { s with pool := upd s.pool a (some ⟨sub, dir, sp.1⟩) }
  if sp.1.length = BUFSZ then
    -- the buffer is full: a fresh buffer takes the rest, the full one gets a task
    if bufFree cfg s2 r.nb && taskFree cfg s2 r.nt then
      if sp.2.isEmpty then
        -- the fresh buffer stays empty and is freed at once
        some { s2 with tasks := upd s2.tasks r.nt (some ⟨fullKind i a, .pending⟩), active := upd2 s2.active g i none }
      else
        some { s2 with tasks := upd s2.tasks r.nt (some ⟨fullKind i a, .pending⟩),
                       pool := upd s2.pool r.nb (some ⟨sub, dir, sp.2⟩),
                       active := upd2 s2.active g i (some r.nb) }
    else none
  else some { s2 with active := upd2 s2.active g i (some a) }

/-- state after the iteration for output direction i (subgrid g, packets `L` leaving in direction i) -/
def travDirState (cfg : Cfg) (g : Nat) (L : List Nat) (r : DirRes) (i : Nat) (s : State) : Option State :=
  if L.isEmpty then some s else
  match cfg.ngb g i with
  | none => none
  | some ng =>
    match s.active g i with
    | some a =>
      match s.pool a with
      | some tb => fillDir cfg g i a tb.sub tb.dir tb.ids L r s
      | none => none
    | none =>
      -- buffer was not created yet: create it now
      if bufFree cfg s r.na then fillDir cfg g i r.na ng (cfg.o2i i) [] L r s else none

/-- the running (largest_index, largest_size) after direction i -/
def travLargest (cfg : Cfg) (g i : Nat) (s1 : State) (li ls : Nat) : Nat × Nat :=
  match cfg.ngb g i, s1.active g i with
  | some _, some b => if ls < bufLen s1.pool b then (i, bufLen s1.pool b) else (li, ls)
  | _, _ => (li, ls)

/-- one iteration of the loop over output directions; the accumulator carries the state and the
running (largest_index, largest_size) -/
def travDir (cfg : Cfg) (g : Nat) (outs : Nat → List Nat) (res : Nat → DirRes)
    (acc : State × Nat × Nat) (i : Nat) : Option (State × Nat × Nat) :=
  match travDirState cfg g (outs i) (res i) i acc.1 with
  | none => none
  | some s1 => some (s1, travLargest cfg g i s1 acc.2.1 acc.2.2)

def foldOpt {α β : Type} (f : α → β → Option α) : α → List β → Option α
  | a, [] => some a
  | a, b :: bs => match f a b with | none => none | some a' => foldOpt f a' bs

/-- is output direction i of subgrid g enabled in PhotonTraversalThreadContext::initialize -/
def dirEnabled (cfg : Cfg) (g i : Nat) : Bool :=
  (cfg.ngb g i).isSome && (i != 0 || cfg.reemission)

/-- packets of `pk` (packet, fate) stored in the local buffer of direction i -/
def outsOf (cfg : Cfg) (g : Nat) (pk : List (Nat × Nat)) (i : Nat) : List Nat :=
  if dirEnabled cfg g i then (pk.filter fun p => p.2 == i).map (·.1) else []

/-- packets that are not stored (absorbed without re-emission, or left the box) -/
def goneOf (cfg : Cfg) (g : Nat) (pk : List (Nat × Nat)) : List Nat :=
  (pk.filter fun p => !dirEnabled cfg g p.2).map (·.1)

/-- the recomputation of the largest active buffer at the end of PrematureLaunchTaskContext::execute -/
def recomputeLargest (s : State) (g : Nat) : Nat × Nat :=
  (List.range NDIR).foldl (fun (acc : Nat × Nat) i =>
    match s.active g i with
    | some b => if acc.2 < bufLen s.pool b then (i, bufLen s.pool b) else acc
    | none => acc) (NDIR, 0)

/-- create the flush tasks `fl` for blocks c, c+1, ... -/
def addFlush (cfg : Cfg) : State → Nat → List Nat → Option State
  | s, _, [] => some s
  | s, c, t :: ts =>
    if taskFree cfg s t then addFlush cfg { s with tasks := upd s.tasks t (some ⟨.flush c, .queued⟩) } (c + 1) ts
    else none

def step (cfg : Cfg) (s : State) : Label → Option State
  | .launchBatch src t =>
    if src < cfg.nsrc ∧ !(s.srcLeft src).isEmpty ∧ taskFree cfg s t then
      some { s with srcLeft := upd s.srcLeft src ((s.srcLeft src).drop BUFSZ),
                    tasks := upd s.tasks t (some ⟨.source src ((s.srcLeft src).take BUFSZ), .queued⟩) }
    else none
  | .launchCont t =>
    if !s.contPool.isEmpty ∧ taskFree cfg s t ∧ 0 < cfg.nblocks then
      some { s with contPool := s.contPool.drop BUFSZ, contBlock := s.contBlock + 1,
                    tasks := upd s.tasks t (some ⟨.contSource (s.contBlock % cfg.nblocks)
                      (s.contPool.take BUFSZ).length (s.contPool.take BUFSZ), .queued⟩) }
    else none
  | .acquire t =>
    match s.tasks t with
    | some ⟨k, .queued⟩ =>
      match lockOf s.pool k with
      | some l => if lockHeld cfg s l then none else some { s with tasks := upd s.tasks t (some ⟨k, .running⟩) }
      | none => some { s with tasks := upd s.tasks t (some ⟨k, .running⟩) }
    | _ => none
  | .enqueue t =>
    match s.tasks t with
    | some ⟨k, .pending⟩ => some { s with tasks := upd s.tasks t (some ⟨k, .queued⟩) }
    | _ => none
  | .execSource t b t' =>
    match s.tasks t with
    | some ⟨.source src ids, .running⟩ =>
      if bufFree cfg s b && taskFree cfg s t' then
        some { s with pool := upd s.pool b (some ⟨cfg.srcSub src, 0, ids⟩),
                      tasks := upd (upd s.tasks t' (some ⟨.traverse b, .pending⟩)) t none }
      else none
    | _ => none
  | .contGen t g k =>
    match s.tasks t with
    | some ⟨.contSource c n ids, .running⟩ =>
      if 0 < k ∧ k ≤ ids.length ∧ g < cfg.norig ∧ c < cfg.nblocks ∧ (s.cont (c, g)).length + k ≤ BUFSZ then
        some { s with cont := updP s.cont (c, g) (s.cont (c, g) ++ ids.take k),
                      tasks := upd s.tasks t (some ⟨.contSource c n (ids.drop k), .running⟩) }
      else none
    | _ => none
  | .contOverflow t g b t' =>
    match s.tasks t with
    | some ⟨.contSource c _ _, .running⟩ =>
      if (s.cont (c, g)).length = BUFSZ ∧ bufFree cfg s b ∧ taskFree cfg s t' then
        some { s with cont := updP s.cont (c, g) [],
                      pool := upd s.pool b (some ⟨g, 0, s.cont (c, g)⟩),
                      tasks := upd s.tasks t' (some ⟨.traverse b, .queued⟩) }
      else none
    | _ => none
  | .contFinish t fl =>
    match s.tasks t with
    | some ⟨.contSource c n [], .running⟩ =>
      if (List.range cfg.norig).all (fun g => (s.cont (c, g)).length < BUFSZ) ∧ n ≤ s.contLeft then
        let s1 : State := { s with contLeft := s.contLeft - n }
        let s2? : Option State :=
          if s1.contLeft = 0 then
            if s1.flushCount = 0 then
              if fl.length = cfg.nblocks then addFlush cfg { s1 with flushCount := 1 } 0 fl else none
            else some { s1 with flushCount := s1.flushCount + 1 }
          else some s1
        match s2? with
        | some s2 => some { s2 with tasks := upd s2.tasks t none }
        | none => none
      else none
    | _ => none
  | .flushOne t g b t' =>
    match s.tasks t with
    | some ⟨.flush c, .running⟩ =>
      if !(s.cont (c, g)).isEmpty ∧ g < cfg.norig ∧ bufFree cfg s b ∧ taskFree cfg s t' then
        some { s with cont := updP s.cont (c, g) [],
                      pool := upd s.pool b (some ⟨g, 0, s.cont (c, g)⟩),
                      tasks := upd s.tasks t' (some ⟨.traverse b, .queued⟩) }
      else none
    | _ => none
  | .flushFinish t =>
    match s.tasks t with
    | some ⟨.flush c, .running⟩ =>
      if (List.range cfg.norig).all (fun g => (s.cont (c, g)).isEmpty) then
        some { s with tasks := upd s.tasks t none }
      else none
    | _ => none
  | .execTraverse t fates res =>
    match s.tasks t with
    | some ⟨.traverse b0, .running⟩ =>
      match s.pool b0 with
      | some buf =>
        if fates.length = buf.ids.length ∧ fates.all (· < NDIR) then
          let g := buf.sub
          let pk := buf.ids.zip fates
          match foldOpt (travDir cfg g (outsOf cfg g pk) (fun i => res.getD i ⟨0, 0, 0⟩)) (s, NDIR, 0)
              (List.range NDIR) with
          | some (s1, li, ls) =>
            some { s1 with largest := upd s1.largest g (li, ls),
                           done := s1.done ++ goneOf cfg g pk,
                           pool := upd s1.pool b0 none,
                           tasks := upd s1.tasks t none }
          | none => none
        else none
      | none => none
    | _ => none
  | .execReemit t keep t' =>
    match s.tasks t with
    | some ⟨.reemit b, .running⟩ =>
      match s.pool b with
      | some buf =>
        if keep.length = buf.ids.length then
          let pk := buf.ids.zip keep
          let kept := (pk.filter (·.2)).map (·.1)
          let gone := (pk.filter (fun p => !p.2)).map (·.1)
          if kept.isEmpty then
            some { s with done := s.done ++ gone, pool := upd s.pool b none, tasks := upd s.tasks t none }
          else if taskFree cfg s t' then
            some { s with done := s.done ++ gone,
                          pool := upd s.pool b (some { buf with ids := kept }),
                          tasks := upd (upd s.tasks t' (some ⟨.traverse b, .pending⟩)) t none }
          else none
        else none
      | none => none
    | _ => none
  | .premature g t' =>
    if (s.largest g).1 ≠ NDIR ∧ 0 < (s.largest g).2 ∧ !lockHeld cfg s (.sub g) ∧ taskFree cfg s t' then
      match s.active g (s.largest g).1 with
      | some b =>
        let s1 : State := { s with active := upd2 s.active g (s.largest g).1 none,
                                   tasks := upd s.tasks t' (some ⟨fullKind (s.largest g).1 b, .queued⟩) }
        some { s1 with largest := upd s1.largest g (recomputeLargest s1 g) }
      | none => none
    else none
  | .checkTermination =>
    if poolEmpty cfg s ∧ s.done.length = cfg.N then some { s with run := false } else none

def run (cfg : Cfg) (s : State) : List Label → Option State
  | [] => some s
  | l :: ls => match step cfg s l with
    | none => none
    | some s' => run cfg s' ls

/-- state at the start of an iteration: `srcIds i` = packets of source copy i, `contIds` =
continuous packets; nothing else exists -/
def init (srcIds : Nat → List Nat) (contIds : List Nat) : State :=
  { srcLeft := srcIds, contPool := contIds, contBlock := 0, pool := fun _ => none,
    tasks := fun _ => none, active := fun _ _ => none, largest := fun _ => (NDIR, 0),
    cont := fun _ => [], contLeft := contIds.length, flushCount := 0, done := [], run := true }

/-- the packets of an iteration: `srcIds i` are handed to source copy i, `contIds` to the continuous
source; together they are the N requested packets 0 … N-1 -/
def Start (cfg : Cfg) (srcIds : Nat → List Nat) (contIds : List Nat) : Prop :=
  (((List.range cfg.nsrc).map srcIds).flatten ++ contIds).Perm (List.range cfg.N)

/-- number of packets a task carries itself (source tasks; traversal and re-emission tasks refer to a buffer) -/
def taskPackets : Option Task → Nat
  | some ⟨.source _ ids, _⟩ => ids.length
  | some ⟨.contSource _ _ ids, _⟩ => ids.length
  | _ => 0

/-! ### The task space across iterations (`ThreadSafeVector< Task >`)

A slot of the task space is locked from `get_free_element` until it is released.  Normally a thread
releases the slot right after it executed the task (`_tasks->free_element(current_index)`, the
protocol's commit removes the task); with the command line switch `--task-plot` nothing is released
during the iteration (the tasks are written to a file afterwards) and every executed task stays
locked.  The reset at the end of the iteration is `_tasks->clear()`. -/

/-- slots that are locked when the photon loop of an iteration has ended: the tasks that still exist
in the protocol state plus, in task-plot mode, the slots of the tasks executed in this iteration -/
def lockedAtLoopEnd (plot : Bool) (executed : Nat → Bool) (s : State) : Nat → Bool :=
  fun t => (s.tasks t).isSome || (plot && executed t)

/-- `ThreadSafeVector::clear`: unlocks every slot -/
def spaceClear (_locked : Nat → Bool) : Nat → Bool := fun _ => false

/-- `ThreadSafeVector::clear_fast`: only resets the running index (asserts that nothing is locked) -/
def spaceClearFast (locked : Nat → Bool) : Nat → Bool := locked

/-! ### DistributedPhotonSource: split of the requested number over sources and subgrid copies -/

/-- per-copy totals of one source: `number_this_source` packets over `ncopy` copies
(`number_per_copy`, `breakpoint`) -/
def perCopy (nThis ncopy : Nat) : List Nat :=
  (List.range ncopy).map fun i => nThis / ncopy + (if i < nThis % ncopy then 1 else 0)

/-- constructor loop over the sources: `srcs` = list of (⌊N·wᵢ⌋, number of copies);
returns (totals so far, overhead indices so far) -/
def splitLoop : List (Nat × Nat) → List Nat × List Nat → List Nat × List Nat
  | [], acc => acc
  | (nThis, ncopy) :: rest, (tot, ovh) =>
    splitLoop rest (tot ++ perCopy nThis ncopy, ovh ++ [tot.length + nThis % ncopy])

def bump (l : List Nat) (k : Nat) : List Nat := l.modify k (· + 1)

/-- the `num_overhead` increments: `picks` are the random indices into `overhead` -/
def applyPicks (tot ovh : List Nat) : List Nat → List Nat
  | [] => tot
  | p :: ps => applyPicks (bump tot (ovh.getD p 0)) ovh ps

/-- `_total_number_of_photons` after the constructor; `picks.length` must be N − Σ nThis -/
def splitTotals (srcs : List (Nat × Nat)) (picks : List Nat) : List Nat :=
  let r := splitLoop srcs ([], [])
  applyPicks r.1 r.2 picks

/-- all batches `get_photon_batch(i, max)` returns for a source copy with `total` packets -/
def batches (max : Nat) : Nat → Nat → List Nat
  | 0, _ => []
  | fuel + 1, left => if left = 0 ∨ max = 0 then [] else min max left :: batches max fuel (left - min max left)

/-! ### The worker loop of one thread on top of the protocol

```
uint_fast32_t current_index = _shared_queue->get_task(*_tasks);          -- start
while (global_run_flag || current_index != NO_TASK) {                     -- top
  if (current_index == NO_TASK) { premature_launch.execute(); current_index = scheduler.get_task(thread_id); }
  while (current_index != NO_TASK) {                                      -- exec / post
    execute; unlock; free; add the created tasks to the queues; current_index = scheduler.get_task(thread_id);
  }
  if (_buffers->is_empty() && num_photon_done.value() == _number_of_photons) global_run_flag = false;   -- check
  else current_index = scheduler.get_task(thread_id);
}
```
(the loop condition is the one of TaskBasedIonizationSimulation.cpp after the fix f78e960; the photon
loop of TaskBasedRadiationHydrodynamicsSimulation.cpp still reads `while (global_run_flag)`, it has no
continuous source and therefore no task that can be obtained after the flag was cleared, see
`Props/C01.lean`, `after_termination_only_packet_free_tasks`). -/

/-- control state of a thread -/
inductive Th where
  /-- before the initial `_shared_queue->get_task` -/
  | start
  /-- at the loop test holding `cur` -/
  | top (cur : Option Nat)
  /-- inside `execute` of task t -/
  | exec (t : Nat)
  /-- after `execute`: adding the created tasks to the queues, then `scheduler.get_task` -/
  | post
  /-- inner loop left with NO_TASK: at the termination test, before `_buffers->is_empty()` is read -/
  | check
  /-- the pool was seen empty; before `num_photon_done.value()` is read -/
  | check2
  /-- left the loop (only possible without a task) -/
  | exited
deriving DecidableEq, Repr

structure LState where
  p : State
  th : Nat → Th
  /-- tasks created by thread i that are still in its `tasks_to_add[]` -/
  mine : Nat → List Nat

inductive LLabel where
  /-- a step of the main thread before the parallel region (task creation) -/
  | main (l : Label)
  /-- initial `_shared_queue->get_task`: got a task or NO_TASK -/
  | startPoll (i : Nat) (got : Option Nat)
  /-- loop test false (flag cleared and no task held): leave -/
  | topExit (i : Nat)
  /-- holding a task: execute it -/
  | topGo (i : Nat)
  /-- flag true, no task: `scheduler.get_task` (the premature launch before it is the label `prem`) -/
  | topPoll (i : Nat) (got : Option Nat)
  /-- `premature_launch.execute()` of a thread without a task -/
  | prem (i g t' : Nat)
  /-- a commit step of the task the thread executes -/
  | work (i : Nat) (l : Label)
  /-- move one created task to a queue -/
  | enq (i t : Nat)
  /-- `scheduler.get_task` at the end of the inner loop -/
  | innerPoll (i : Nat) (got : Option Nat)
  /-- first read of the termination test: `_buffers->is_empty()` is true -/
  | checkEmpty (i : Nat)
  /-- second read: `num_photon_done.value() == _number_of_photons` is true: clear the flag -/
  | checkYes (i : Nat)
  /-- termination test fails: `scheduler.get_task` -/
  | checkNo (i : Nat) (got : Option Nat)
deriving Repr

/-- the task a commit label belongs to and whether the label ends the task -/
def workInfo : Label → Option (Nat × Bool)
  | .execSource t _ _ => some (t, true)
  | .contGen t _ _ => some (t, false)
  | .contOverflow t _ _ _ => some (t, false)
  | .contFinish t _ => some (t, true)
  | .flushOne t _ _ _ => some (t, false)
  | .flushFinish t => some (t, true)
  | .execTraverse t _ _ => some (t, true)
  | .execReemit t _ _ => some (t, true)
  | _ => none

def isPending (s : State) (t : Nat) : Bool :=
  match s.tasks t with | some ⟨_, .pending⟩ => true | _ => false

/-- a queued flush task whose lock is free (such a task is in the shared queue; `TaskQueue::get_task`
on the shared queue scans the whole queue under the queue lock and returns NO_TASK only if no task in
it can be locked) -/
def flushAvailable (cfg : Cfg) (s : State) : Bool :=
  (List.range cfg.taskCap).any fun u =>
    match s.tasks u with
    | some ⟨.flush c, .queued⟩ => !lockHeld cfg s (.block c)
    | _ => false

/-- `scheduler.get_task` / `_shared_queue->get_task`: a task is taken with its lock, or NO_TASK is
returned, which is possible only if no flush task could be taken (tasks in the per-thread queues can be
missed: `try_get_task` gives up when the queue lock is busy) -/
def poll (cfg : Cfg) (s : State) : Option Nat → Option State
  | none => if flushAvailable cfg s then none else some s
  | some t => step cfg s (.acquire t)

def lstep (cfg : Cfg) (s : LState) : LLabel → Option LState
  | .main l =>
    match l with
    | .launchBatch _ _ | .launchCont _ =>
      match step cfg s.p l with | some p' => some { s with p := p' } | none => none
    | _ => none
  | .startPoll i got =>
    match s.th i with
    | .start => match poll cfg s.p got with
      | some p' => some { s with p := p', th := upd s.th i (.top got) }
      | none => none
    | _ => none
  | .topExit i =>
    match s.th i with
    | .top none => if s.p.run then none else some { s with th := upd s.th i .exited }
    | .top (some _) =>
      -- `while (global_run_flag)`: the thread leaves although it holds a task (which is never executed)
      if cfg.loopFixed || s.p.run then none else some { s with th := upd s.th i .exited }
    | _ => none
  | .topGo i =>
    match s.th i with
    | .top (some t) => if cfg.loopFixed || s.p.run then some { s with th := upd s.th i (.exec t) } else none
    | _ => none
  | .topPoll i got =>
    match s.th i with
    | .top none =>
      if s.p.run then
        match poll cfg s.p got with
        | some p' => some { s with p := p', th := upd s.th i (match got with | some t => .exec t | none => .check) }
        | none => none
      else none
    | _ => none
  | .prem i g t' =>
    match s.th i with
    | .top none =>
      if s.p.run then
        match step cfg s.p (.premature g t') with | some p' => some { s with p := p' } | none => none
      else none
    | _ => none
  | .work i l =>
    match s.th i, workInfo l with
    | .exec t, some (t0, fin) =>
      if t = t0 then
        match step cfg s.p l with
        | some p' =>
          some { s with p := p', th := if fin then upd s.th i .post else s.th,
                        mine := upd s.mine i (s.mine i ++
                          (List.range cfg.taskCap).filter (fun u => isPending p' u && !isPending s.p u)) }
        | none => none
      else none
    | _, _ => none
  | .enq i t =>
    match s.th i with
    | .post => if (s.mine i).contains t then
        match step cfg s.p (.enqueue t) with
        | some p' => some { s with p := p', mine := upd s.mine i ((s.mine i).erase t) }
        | none => none
      else none
    | _ => none
  | .innerPoll i got =>
    match s.th i with
    | .post => if (s.mine i).isEmpty then
        match poll cfg s.p got with
        | some p' => some { s with p := p', th := upd s.th i (match got with | some t => .exec t | none => .check) }
        | none => none
      else none
    | _ => none
  | .checkEmpty i =>
    match s.th i with
    | .check => if poolEmpty cfg s.p then some { s with th := upd s.th i .check2 } else none
    | _ => none
  | .checkYes i =>
    -- the two reads are not one action: only the counter is read now, the pool was read before
    match s.th i with
    | .check2 => if s.p.done.length = cfg.N then
        some { s with p := { s.p with run := false }, th := upd s.th i (.top none) } else none
    | _ => none
  | .checkNo i got =>
    match s.th i with
    | .check =>
      if poolEmpty cfg s.p then none else
      match poll cfg s.p got with
      | some p' => some { s with p := p', th := upd s.th i (.top got) }
      | none => none
    | .check2 =>
      if s.p.done.length = cfg.N then none else
      match poll cfg s.p got with
      | some p' => some { s with p := p', th := upd s.th i (.top got) }
      | none => none
    | _ => none

def lrun (cfg : Cfg) (s : LState) : List LLabel → Option LState
  | [] => some s
  | l :: ls => match lstep cfg s l with
    | none => none
    | some s' => lrun cfg s' ls

def linit (srcIds : Nat → List Nat) (contIds : List Nat) : LState :=
  { p := init srcIds contIds, th := fun _ => .start, mine := fun _ => [] }

end CMacVerif.Photon
