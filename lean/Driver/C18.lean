-- stub: driver for C18 not written yet
def main : IO Unit := pure ()
