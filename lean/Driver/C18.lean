import CMacVerif.Model.Verner
import CMacVerif.Model.Recomb
import CMacVerif.Model.Locate
import CMacVerif.Model.Planck
import CMacVerif.Model.Notation
import CMacVerif.Inst.Float
import CMacVerif.Util.Bits
/-! Line-protocol driver for C18: the `Float` instantiation of the models (core Lean only).
One answer line per op line; ` #tag` = branch taken (stripped before comparison). -/
open CMacVerif CMacVerif.Util CMacVerif.Verner CMacVerif.Gen.Verner CMacVerif.Locate CMacVerif.Planck CMacVerif.Notation

structure St where
  tabs : Array (String × Array Float) := #[]
  grids : Array (String × Array (Array Float)) := #[]

def St.tab (s : St) (name : String) : Array Float :=
  match s.tabs.find? (·.1 == name) with
  | some (_, a) => a
  | none => #[]

def St.grid (s : St) (name : String) : Array (Array Float) :=
  match s.grids.find? (·.1 == name) with
  | some (_, a) => a
  | none => #[]

def St.setTab (s : St) (name : String) (a : Array Float) : St :=
  { s with tabs := (s.tabs.filter (·.1 != name)).push (name, a) }

def St.setGrid (s : St) (name : String) (i : Nat) (a : Array Float) : St :=
  let g := s.grid name
  let g := if i < g.size then g.set! i a else (g ++ Array.replicate (i - g.size) #[]).push a
  { s with grids := (s.grids.filter (·.1 != name)).push (name, g) }

def fn (a : Array Float) : Nat → Float := fun i => a.getD i 0.0

def fl (w : String) : Float := fOfBits (nat! w)

def showFs (l : List Float) : String := " ".intercalate (l.map showF)

def ionOf (w : String) : Option Ion := ionOfIndex (nat! w)

/-- position tag of a located index -/
def locTag (x : Float) (a : Array Float) (n : Nat) : String :=
  let r := locate x (fn a) n
  let jl := locateLoop x (fn a) 0 n
  if jl != r then "dec" else if r == 0 then (if fn a 0 < x then "first" else "atOrBelowFirst") else if r + 2 == n then "last" else "mid"

def step (s : St) : List String → St × String
  | ["rowA", z, n, sh] =>
    let p := prepA (dataA (α := Float) (nat! z) (nat! n) (nat! sh))
    (s, "rowA " ++ showFs [p.Plconst, p.E_th, p.E_0_inv, p.sigma_0, p.one_over_y_a, p.P, p.y_w_squared])
  | ["rowB", z, n] =>
    let p := prepB (dataB (α := Float) (nat! z) (nat! n))
    (s, "rowB " ++ showFs [p.E_0_inv, p.sigma_0, p.one_over_y_a, p.P, p.y_w_squared, p.y_0, p.y_1_squared])
  | ["rowC", n] => (s, s!"rowC {(dataC (nat! n)).1} {(dataC (nat! n)).2}")
  | ["rowR", z, n] =>
    let r := recRow (α := Float) (nat! z) (nat! n)
    (s, "rowR " ++ showFs [r.rrec0, r.rrec1, r.rnew0, r.rnew1, invNZ r.rnew2, invNZ r.rnew3])
  | ["rowF", n] =>
    let f := feRow (α := Float) (nat! n)
    (s, "rowF " ++ showFs [f.fe0, f.fe1, f.fe2])
  | ["xsv", z, n, sh, e] =>
    let v := crossSectionVerner (nat! z) (nat! n) (nat! sh) (fl e)
    (s, s!"xsv {showF v} #{(xsBranch (nat! z) (nat! n) (nat! sh) (fl e)).tag}")
  | ["xs", ion, e] =>
    match ionOf ion with
    | some i =>
      let tags := (ionShellsSpec i).map fun sh => (xsBranch sh.1 sh.2.1 sh.2.2 (fl e)).tag
      (s, s!"xs {showF (crossSection i (fl e))} #{"+".intercalate tags}")
    | none => (s, "xs unknown-ion")
  | ["recv", z, n, t] =>
    (s, s!"recv {showF (recVerner (nat! z) (nat! n) (fl t))} #{(recBranch (nat! z) (nat! n)).tag}")
  | ["rec", ion, t] =>
    match ionOf ion with
    | some i =>
      let raw := rateCgs i (fl t) * 1.0e-6
      let tag := if (0.0 : Float) < raw then "pos" else "clamped0"
      (s, s!"rec {showF (recombinationRate i (fl t))} #{repr i}-{tag}")
    | none => (s, "rec unknown-ion")
  | ["ctrh", ion, t] =>
    match ionOf ion with
    | some .H_n => (s, "ctrh error")
    | some i => (s, s!"ctrh {showF (ctRecH i (fl t))} #ctrh-{repr i}")
    | none => (s, "ctrh unknown-ion")
  | ["ctih", ion, t] =>
    match ionOf ion with
    | some .H_n => (s, "ctih error")
    | some i => (s, s!"ctih {showF (ctIonH i (fl t))} #ctih-{repr i}")
    | none => (s, "ctih unknown-ion")
  | ["ctrhe", ion, t] =>
    match ionOf ion with
    | some .He_n => (s, "ctrhe error")
    | some i => (s, s!"ctrhe {showF (ctRecHe i (fl t))} #ctrhe-{repr i}")
    | none => (s, "ctrhe unknown-ion")
  | "loc" :: n :: x :: rest =>
    let a := (rest.map fl).toArray
    if a.size != nat! n ∨ a.size < 2 then (s, "loc bad-length") else
    (s, s!"loc {locate (fl x) (fn a) a.size} #loc-{locTag (fl x) a a.size}")
  | ["mk", "planck", t] =>
    -- the tables are CONSTRUCTED by the model of the constructor (compared with the real ones by `gettab`)
    let N := planckNumFreq
    let T := fl t
    let s := { s with tabs := s.tabs.filter (fun x => !(x.1.startsWith "planck.")) }
    -- pCdfFast / pLogCdfFast over pCumArr = pCdf / pLogCdf (Lemmas/Planck.lean, proved for every arithmetic)
    let cum := pCumArr Nat.toFloat planck boltzmann T N (N - 1)
    let cdf := Array.ofFn (n := N) fun i => pCdfFast cum N i.val
    let lcdf := Array.ofFn (n := N) fun i => pLogCdfFast cum N i.val
    let lf := Array.ofFn (n := N) fun i => pLogFreq (α := Float) Nat.toFloat N i.val
    (((s.setTab "planck.cdf" cdf).setTab "planck.logcdf" lcdf).setTab "planck.logfreq" lf, "mk planck")
  | ["pmono", v, unit, _text, _expect] =>
    -- MonochromaticPhotonSourceSpectrum(role, params) with `frequency: <text>`: the frequency the
    -- parameter denotes (model of to_SI<QUANTITY_FREQUENCY>), returned by every sample
    match FUnit.ofString unit with
    | some u => (s, s!"pmono {showF (monoSample (frequencyOf u (fl v)) 0.5)} #pmono-{repr u.kind}")
    | none => (s, "pmono unknown-unit")
  | ["pplanck", t, _text] =>
    -- PlanckPhotonSourceSpectrum(role, params) with `temperature: <text>`: tables of the model
    -- constructor at that temperature, one table entry and one sample
    let N := planckNumFreq
    let cum := pCumArr Nat.toFloat planck boltzmann (fl t) N (N - 1)
    let cdf := Array.ofFn (n := N) fun i => pCdfFast cum N i.val
    let lcdf := Array.ofFn (n := N) fun i => pLogCdfFast cum N i.val
    let lf := Array.ofFn (n := N) fun i => pLogFreq (α := Float) Nat.toFloat N i.val
    (s, s!"pplanck {showF (fn cdf (N / 2))} {showF (planckSample 0.5 (fn cdf) (fn lcdf) (fn lf) N)} #pplanck")
  | ["gettab", name] =>
    let a := s.tab name
    (s, s!"gettab {a.size} {showFs a.toList}")
  | "mk" :: kind :: _ => ({ s with tabs := s.tabs.filter (fun t => !(t.1.startsWith (kind ++ "."))),
                                    grids := s.grids.filter (fun t => !(t.1.startsWith (kind ++ "."))) }, s!"mk {kind}")
  | "tab" :: name :: n :: rest =>
    let a := (rest.map fl).toArray
    if a.size != nat! n then (s, s!"tab {name} bad-length") else (s.setTab name a, s!"tab {name} {a.size}")
  | "tab2" :: name :: i :: n :: rest =>
    let a := (rest.map fl).toArray
    if a.size != nat! n then (s, s!"tab2 {name} bad-length") else (s.setGrid name (nat! i) a, s!"tab2 {name} {i} {a.size}")
  | ["smp", "planck", x] =>
    let cdf := s.tab "planck.cdf"
    let v := planckSample (fl x) (fn cdf) (fn (s.tab "planck.logcdf")) (fn (s.tab "planck.logfreq")) cdf.size
    (s, s!"smp {showF v} #planck-{locTag (fl x) cdf cdf.size}")
  | ["smp", "uniform", x] => (s, s!"smp {showF (uniformSample (fl x))} #uniform")
  | ["smp", "mono", x, f] => (s, s!"smp {showF (monoSample (fl f) (fl x))} #mono")
  | ["smp", kind, x] =>
    let cdf := s.tab (kind ++ ".cdf")
    if cdf.size < 2 then (s, "smp no-table") else
    let v := linearSample (fl x) (fn (s.tab (kind ++ ".freq"))) (fn cdf) cdf.size
    (s, s!"smp {showF v} #{kind}-{locTag (fl x) cdf cdf.size}")
  | ["smp", kind, x, t] =>
    let ttab := s.tab (kind ++ ".T")
    let freq := s.tab (kind ++ ".freq")
    let g := s.grid (kind ++ ".cdf")
    if ttab.size < 2 ∨ g.size != ttab.size then (s, "smp no-table") else
    let v := lymanSample (fl x) (fl t) (fn ttab) ttab.size (fn freq) (fun i => fn (g.getD i #[])) freq.size
    let tt := if fl t < fn ttab 0 then "Tbelow" else if fn ttab (ttab.size - 1) < fl t then "Tabove" else "Tin"
    (s, s!"smp {showF v} #{kind}-{tt}-{locTag (clampT (fl t) (fn ttab) ttab.size) ttab ttab.size}")
  | "fxs" :: ion :: e :: rest =>
    match ionOf ion with
    | some i => (s, s!"fxs {showF (fixedCrossSection (rest.map fl) i (fl e))} #fixed")
    | none => (s, "fxs unknown-ion")
  | ["thr", ion, _] => (s, s!"thr {ion}")
  | "grid" :: _ => (s, "grid")
  | _ => (s, "bad-op")

def main : IO Unit := runDriver step ({} : St)
