import CMacVerif.Model.SubgridLayout
import CMacVerif.Model.Handover
import CMacVerif.Util.Bits
import CMacVerif.Inst.Float
open CMacVerif CMacVerif.Util CMacVerif.SubgridLayout CMacVerif.Handover
open CMacVerif.Gen.TravelDirections

/-- driver state: the layout, the current `_copies` table, the state after the last `copies` op -/
structure St where
  L : Layout := ⟨1, 1, 1, 1, 1, 1, false, false, false⟩
  have_ : Bool := false
  levels : List Nat := []
  cp : Copies := ⟨[], [], []⟩

def int! (s : String) : Int := s.toInt?.getD 0

def showEnt : Option Nat → String
  | none => "x"
  | some v => toString v

def showRow (r : List (Option Nat)) : String := " ".intercalate ("row" :: r.map showEnt)

/-- which branch of the second loop of `create_copies` an entry of a copy's row takes -/
def copyCase (levels : List Nat) (orig : Nat → Nat → Option Nat) (i j : Nat) : String :=
  if j = 0 then "self" else
  match orig i j with
  | none => "outside"
  | some t =>
    let level := levels.getD i 0
    let ngbLevel := levels.getD t 0
    if ngbLevel = level then "same" else if level > ngbLevel then
      (if ngbLevel = 0 then "fewer-original-only" else "fewer") else "more"

def dedup (l : List String) : List String := l.foldl (fun acc s => if acc.contains s then acc else acc ++ [s]) []

def layoutTag (L : Layout) : String :=
  let ax (n : Nat) (p : Bool) : String := (if p then "p" else "o") ++ (if n ≥ 3 then "3+" else toString n)
  s!"{ax L.nx L.px}.{ax L.ny L.py}.{ax L.nz L.pz}"

/-- marker counters: cell `j` of subgrid `i` holds `(131 i + 17 j + seed) % 997 + 1` -/
def markerCells (s : St) (seed : Nat) : List (List Nat) :=
  (List.range s.cp.rows.length).map fun i =>
    (List.range (s.L.mx * s.L.my * s.L.mz)).map fun j => (131 * i + 17 * j + seed) % 997 + 1

def showCells (c : List (List Nat)) : String :=
  "|".intercalate (c.map fun r => ",".intercalate (r.map toString))

def step (s : St) : List String → St × String
  | ["tbl", "o2i", d] => (s, s!"tbl {outToInDir (nat! d)}")
  | ["tbl", "cout", sp, d] => (s, s!"tbl {if compatOutAt (nat! sp) (nat! d) then 1 else 0}")
  | ["tbl", "cin", sp, d] => (s, s!"tbl {if compatInAt (nat! sp) (nat! d) then 1 else 0}")
  | ["tbl", "mask", m] => (s, s!"tbl {maskDir (nat! m)}")
  | ["tbl", "pin", d] => (s, s!"tbl {pinAt (nat! d) 0} {pinAt (nat! d) 1} {pinAt (nat! d) 2}")
  | ["tbl", "idx", d] => (s, s!"tbl {idxClassAt (nat! d) 0} {idxClassAt (nat! d) 1} {idxClassAt (nat! d) 2}")
  | ["outdir", mx, my, mz, i, j, k] =>
    let r := outputDirection (nat! mx, nat! my, nat! mz) (int! i, int! j, int! k)
    (s, s!"outdir {r} #outdir-{r}")
  | ["upd", d, mx, my, mz, hx, hy, hz, px, py, pz] =>
    let r := updatePosition (nat! d) ((nat! mx).toFloat, (nat! my).toFloat, (nat! mz).toFloat)
      (fOfBits (nat! hx), fOfBits (nat! hy), fOfBits (nat! hz)) (fOfBits (nat! px), fOfBits (nat! py), fOfBits (nat! pz))
    (s, s!"upd {showF r.1} {showF r.2.1} {showF r.2.2} #upd-{pinAt (nat! d) 0}{pinAt (nat! d) 1}{pinAt (nat! d) 2}")
  | ["new", nx, ny, nz, mx, my, mz, px, py, pz] =>
    let L : Layout := ⟨nat! nx, nat! ny, nat! nz, nat! mx, nat! my, nat! mz, px == "1", py == "1", pz == "1"⟩
    let s' : St := { L := L, have_ := true, levels := List.replicate L.size 0,
                     cp := ⟨List.replicate L.size noCopy, [], (List.range L.size).map (createSubgrid L)⟩ }
    (s', s!"new {L.size} #layout-{layoutTag L}")
  | ["pos", i] =>
    if !s.have_ then (s, "bad-op") else
    let p := gridPosition s.L (nat! i)
    (s, s!"pos {p.1} {p.2.1} {p.2.2}")
  | ["row", i] =>
    if !s.have_ then (s, "bad-op") else
    let idx := nat! i
    let n := s.L.size
    if idx ≥ s.cp.rows.length then (s, "row none") else
    let r := s.cp.rows.getD idx []
    let tag :=
      if idx < n then
        let k := (r.filter (·.isNone)).length
        if k = 0 then "orig-interior" else if k = 26 then "orig-isolated" else "orig-boundary"
      else
        let o := originalOf s.cp idx
        "copy:" ++ ",".intercalate (dedup ((List.range 27).map (copyCase s.levels (ngb s.L) o)))
    (s, showRow r ++ " #" ++ tag)
  | ["ngb6", i] =>
    if !s.have_ then (s, "bad-op") else
    let l := getNeighbours s.L (nat! i)
    (s, " ".intercalate ("ngb6" :: l.map toString) ++ s!" #ngb6-{l.length}")
  | "copies" :: ls =>
    if !s.have_ || ls.length ≠ s.L.size then (s, "bad-op") else
    let levels := ls.map nat!
    let cp := createCopies s.L s.cp.copies levels
    let s' := { s with levels := levels, cp := cp }
    let stale := (List.zip levels s.cp.copies).any (fun (l, c) => l = 0 && c ≠ noCopy)
    (s', s!"copies {cp.rows.length} | " ++ " ".intercalate (cp.copies.map toString) ++ " |"
      ++ String.join (cp.originals.map (fun o => " " ++ toString o))
      ++ (if stale then " #copies-stale" else if cp.originals.isEmpty then " #copies-none" else " #copies"))
  | ["range", i] =>
    if !s.have_ then (s, "bad-op") else
    let r := copyRange s.cp (nat! i)
    let c := s.cp.copies.getD (nat! i) 0
    let tag := if c = noCopy then "range-nocopy" else if r.1 = r.2 then "range-stale" else "range"
    (s, s!"range {r.1} {r.2} #{tag}")
  | ["fold"] =>
    if !s.have_ then (s, "bad-op") else
    let v := foldVisits s.cp
    (s, "fold" ++ String.join (v.map (fun (a, b) => s!" {a}:{b}")) ++ (if v.isEmpty then " #fold-empty" else " #fold"))
  | ["foldcells", sd] =>
    if !s.have_ then (s, "bad-op") else
    let r := foldCells s.L s.cp (markerCells s (nat! sd))
    (s, "foldcells " ++ showCells r ++ (if s.cp.originals.isEmpty then " #foldcells-nocopies" else " #foldcells"))
  | ["pushcells", sd] =>
    if !s.have_ then (s, "bad-op") else
    let r := pushCells s.L s.cp (markerCells s (nat! sd))
    (s, "pushcells " ++ showCells r ++ (if s.cp.originals.isEmpty then " #pushcells-nocopies" else " #pushcells"))
  | _ => (s, "bad-op")

def main : IO Unit := runDriver step ({} : St)
