-- stub: driver for C03 not written yet
def main : IO Unit := pure ()
