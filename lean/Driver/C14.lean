import CMacVerif.Model.Rotation
import CMacVerif.Util.Bits
open CMacVerif CMacVerif.Util CMacVerif.Rotation

structure St where
  fs : FS := FS.empty
  rm : RM := RM.fresh 0

def showC (c : Content) : String := s!"{c.v}:{if c.complete then "c" else "p"}"

/-- canonical listing: main file, then backups by index (far beyond any configured count) -/
def listing (fs : FS) (n : Nat) : String :=
  let d := match fs .dump with | some c => s!" dump={showC c}" | none => ""
  let bs := (List.range (n + 3)).foldl (fun acc i =>
    match fs (.back i) with | some c => acc ++ s!" b{i}={showC c}" | none => acc) ""
  d ++ bs

def nth? {α : Type} : List α → Nat → Option α
  | [], _ => none
  | a :: _, 0 => some a
  | _ :: l, i + 1 => nth? l i

def step (s : St) : List String → St × String
  | ["new", n] => ({ fs := FS.empty, rm := RM.fresh (nat! n) }, "new")
  | ["stop"] => (s, "stop 1")     -- a stop request does not change what a dump does
  | ["newt", n] => ({ fs := FS.empty, rm := RM.fresh (nat! n) }, "newt 1")
  | ["reboot"] => match hstep (s.fs, s.rm) .reboot with
    | some (fs', rm') => ({ fs := fs', rm := rm' }, "reboot")
    | none => (s, "reboot abort")
  | ["ls"] => (s, "ls" ++ listing s.fs s.rm.maxB)
  | ["dump", v] =>
    let (ops, _) := dumpOps startFixed s.rm (nat! v)
    match hstep (s.fs, s.rm) (.dump (nat! v)) with   -- the step function of the history theorems
    | none => (s, "dump abort")
    | some (fs', rm') => ({ fs := fs', rm := rm' }, "dump ok" ++ listing fs' s.rm.maxB ++ s!" #renames={ops.length - 3}")
  | ["crash", v, p] =>
    let (ops, _) := dumpOps startFixed s.rm (nat! v)
    let ps := prefixes s.fs ops
    if ps.length < ops.length + 1 then (s, "crash abort")
    else
      let i := min (nat! p) (ps.length - 1)
      match nth? ps i with
      | some fs' => (s, "crash" ++ listing fs' s.rm.maxB)
      | none => (s, "crash abort")
  | _ => (s, "bad-op")

def main : IO Unit := runDriver step ({} : St)
