-- stub: driver for C12 not written yet
def main : IO Unit := pure ()
