import CMacVerif.Model.Lifecycle
import CMacVerif.Gen.Lifecycle
import CMacVerif.Util.Bits
/-!
Driver for C12: the model's allocation trace of one owner for one option vector.

op line:   `<unit> <n> <bits>`      unit ∈ lom | tm | tbis | rhd | urm urr dpm dpr cam car
                                   (random photon source distributions: main / restart constructor), n = number of elements given to
                                   vector fields (not used by the model), bits = option vector as
                                   a string of 0/1 in the order of the generated `opts` (`-` = none)
answer:    `<unit> after=<kinds> owned=<f.f.f> dtor=<events> end=<kinds> #<tags>`
  kinds : one character per field after the constructor / at the end: u n o f
  owned : the fields that own an allocation after the constructor, in allocation order
  dtor  : what the destructor does, in order: F<f> free, D<f> double free, W<f> uninitialised
          pointer read, N<f> null dereference, U<f> use after free, L<f> allocation lost
-/
open CMacVerif CMacVerif.Util CMacVerif.Lifecycle

def kindChar : PState → Char
  | .uninit => 'u'
  | .null => 'n'
  | .owned _ => 'o'
  | .freed _ => 'f'

def kinds (s : St) (n : Nat) : String :=
  String.ofList ((List.range n).map (fun f => kindChar (s.ptr f)))

def evStr : Event → Option String
  | .alloc _ _ => none
  | .delNull _ => none
  | .free f _ => some s!"F{f}"
  | .dfree f _ => some s!"D{f}"
  | .wild f => some s!"W{f}"
  | .nullUse f => some s!"N{f}"
  | .danglingUse f _ => some s!"U{f}"
  | .lost f _ => some s!"L{f}"

/-- fields owning an allocation, ordered by allocation number (insertion sort on few elements) -/
def ownedInOrder (s : St) (n : Nat) : List Nat :=
  let l := (List.range n).filterMap (fun f => match s.ptr f with | .owned k => some (k, f) | _ => none)
  let ins (x : Nat × Nat) (acc : List (Nat × Nat)) : List (Nat × Nat) :=
    (acc.filter (fun y => y.1 < x.1)) ++ [x] ++ (acc.filter (fun y => ¬ (y.1 < x.1)))
  (l.foldl (fun acc x => ins x acc) []).map (·.2)

def unitOf : String → Option ClassDesc
  | "lom" => some Gen.Lifecycle.liveOutputManager
  | "tm" => some Gen.Lifecycle.trackerManager
  | "tbis" => some Gen.Lifecycle.taskBasedIonizationSimulation
  | "rhd" => some Gen.Lifecycle.rhdSimulation
  | "urm" => some Gen.Lifecycle.uniformRandomPSD
  | "urr" => some Gen.Lifecycle.uniformRandomPSDRestart
  | "dpm" => some Gen.Lifecycle.discPatchPSD
  | "dpr" => some Gen.Lifecycle.discPatchPSDRestart
  | "cam" => some Gen.Lifecycle.caproniPSD
  | "car" => some Gen.Lifecycle.caproniPSDRestart
  | _ => none

def countEv (l : List Event) (p : Event → Bool) : Nat := (l.filter p).length

def step (_ : Unit) : List String → Unit × String
  | u :: _n :: bits :: _ =>
    match unitOf u with
    | none => ((), "bad-unit")
    | some d =>
      let bl := bits.toList
      let env : Env := fun o => bl.getD o '0' == '1'
      let nf := d.fields.length
      let s1 := exec env d.ctor St.init
      let s2 := exec env d.dtor s1
      let ctorEv := s1.log.filterMap evStr
      let dtorEv := (s2.log.drop s1.log.length).filterMap evStr
      let owned := ".".intercalate ((ownedInOrder s1 nf).map toString)
      let nDelNull := countEv s2.log (fun e => match e with | .delNull _ => true | _ => false)
      let nFree := countEv s2.log (fun e => match e with | .free _ _ => true | _ => false)
      let nAlloc := countEv s2.log (fun e => match e with | .alloc _ _ => true | _ => false)
      ((), s!"{u} after={kinds s1 nf} owned={owned} ctor={".".intercalate ctorEv} dtor={".".intercalate dtorEv} end={kinds s2 nf} #alloc={nAlloc},free={nFree},delnull={nDelNull}")
  | _ => ((), "bad-op")

def main : IO Unit := runDriver step ()
