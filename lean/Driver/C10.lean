import CMacVerif.Model.HydroStep
import CMacVerif.Util.Bits
/-!
Line-protocol driver for C10 (thin; the sweep lists themselves are printed by `drv_c04`).

* `same nx ny nz px py pz cx cy cz  nx' ny' nz' px' py' pz' cx' cy' cz'`
    → `G <0|1> P <0|1> N <n> <n'>`: do the two layouts describe the same global grid
      (`cellGrid`), and is `layoutOps` of the first a permutation of `layoutOps` of the second
      (decided by sorting) — the executable instance of `face_multiset_layout_independent`
* `seq nx ny nz px py pz cx cy cz`
    → `P <0|1> N <n> <n'>`: `layoutOps` against `gridOps (cellGrid …)` (`layoutOps_perm_gridOps`)
-/
open CMacVerif CMacVerif.Util CMacVerif.HydroGraph CMacVerif.HydroSweeps CMacVerif.HydroStep

def layoutOf (w : Array String) (k : Nat) : Layout × Cells :=
  (⟨nat! w[k]!, nat! w[k+1]!, nat! w[k+2]!, w[k+3]! == "1", w[k+4]! == "1", w[k+5]! == "1"⟩,
   ⟨nat! w[k+6]!, nat! w[k+7]!, nat! w[k+8]!⟩)

def axNum : Axis → Nat | .x => 0 | .y => 1 | .z => 2

/-- an injective code of a call -/
def code : Op → List Nat
  | .pair ax l r => [0, axNum ax, l.1, l.2.1, l.2.2, r.1, r.2.1, r.2.2]
  | .ghost ax up x => [1, axNum ax, if up then 1 else 0, x.1, x.2.1, x.2.2]

def lexLe : List Nat → List Nat → Bool
  | [], _ => true
  | _ :: _, [] => false
  | a :: as, b :: bs => a < b || (a == b && lexLe as bs)

def sorted (ops : List Op) : List (List Nat) := (ops.map code).mergeSort (fun a b => lexLe a b)

def b01 (b : Bool) : String := if b then "1" else "0"

def step (_ : Unit) (ws : List String) : Unit × String :=
  let w := ws.toArray
  if w[0]! == "same" && w.size == 19 then
    let (L, c) := layoutOf w 1
    let (L', c') := layoutOf w 10
    let a := layoutOps L c
    let b := layoutOps L' c'
    ((), s!"G {b01 (decide (cellGrid L c = cellGrid L' c'))} P {b01 (sorted a == sorted b)} N {a.length} {b.length}")
  else if w[0]! == "seq" && w.size == 10 then
    let (L, c) := layoutOf w 1
    let a := layoutOps L c
    let b := gridOps (cellGrid L c)
    ((), s!"P {b01 (sorted a == sorted b)} N {a.length} {b.length}")
  else ((), "bad-op")

def main : IO Unit := runDriver step ()
