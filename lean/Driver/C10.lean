-- stub: driver for C10 not written yet
def main : IO Unit := pure ()
