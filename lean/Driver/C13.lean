-- stub: driver for C13 not written yet
def main : IO Unit := pure ()
