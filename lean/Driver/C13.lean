import CMacVerif.Model.Ranlux
import CMacVerif.Model.RanluxSplit
import CMacVerif.Model.RanluxUse
import CMacVerif.Model.RanluxCtx
import CMacVerif.Inst.Float
import CMacVerif.Util.Bits
open CMacVerif CMacVerif.Util CMacVerif.Ranlux

/-- the double `k * 2^-48` (exact: |k| < 2^53 converts exactly, the scaling is a power of two) -/
def toF (k : Int) : Float :=
  let m : Float := (Float.ofNat k.natAbs) / 281474976710656.0
  if k < 0 then -m else m

def bitsOfInt (k : Int) : Nat := bitsOf (toF k)

def showState (s : State) : String :=
  let xs := (List.range 12).map (fun i => toString (bitsOfInt (rd s.x i)))
  s!"{" ".intercalate xs} {bitsOfInt s.carry} {s.ir} {s.jr} {s.irOld} {s.pr}"

def intOf (w : String) : Int :=
  if w.startsWith "-" then -((w.drop 1).toNat?.getD 0 : Nat) else (w.toNat?.getD 0 : Nat)

/-- which part of the generator a draw exercised -/
def tagOf (s : State) : String :=
  let ir := (s.ir + 1) % 12
  if ir = s.irOld then s!"refill-ir{ir}" else "plain"

/-- `k` draws: polynomial hash (mod 2^64) of the bit patterns, minimum and maximum value -/
def skipLoop : Nat → State → Nat → Int → Int → State × Nat × Int × Int
  | 0, s, h, lo, hi => (s, h, lo, hi)
  | n + 1, s, h, lo, hi =>
    let (v, s') := next exact s
    let h := (h * 6364136223846793005 + bitsOfInt v + 1442695040888963407) % 18446744073709551616
    skipLoop n s' h (if v < lo then v else lo) (if v > hi then v else hi)

/-- index of the first of the first `n` draws in which two generators differ (`-1`: none) -/
def firstDiff : Nat → Nat → State → State → Int
  | 0, _, _, _ => -1
  | n + 1, i, a, b =>
    let (u, a') := next exact a
    let (v, b') := next exact b
    if u ≠ v then (i : Int) else firstDiff n (i + 1) a' b'

/-- the first `n` draws of a generator -/
def drawsOf : Nat → State → List Int
  | 0, _ => []
  | n + 1, s => let (v, s') := next exact s; v :: drawsOf n s'

/-- `split <N> <weight bits>:<copies> …`: the split of a freshly constructed photon source;
the two float expressions are the C++ ones: `(size_t)(N * weight)`, `(size_t)(u * nsources)` -/
def splitOp (ws : List String) : String :=
  match ws with
  | n :: rest =>
    let N := nat! n
    let src : List (Nat × Nat) := rest.map fun w =>
      match w.splitOn ":" with
      | [wb, c] => ((N.toFloat * fOfBits (nat! wb)).toUInt64.toNat, nat! c)
      | _ => (0, 1)
    let L := N - (src.map Prod.fst).sum
    let us := (drawsOf L (seedState exact defaultSeed)).toArray
    let idx := fun i => ((toF (us.getD i 0)) * src.length.toFloat).toUInt64.toNat
    let r := split N src idx
    "split " ++ " ".intercalate (r.map toString) ++ (if L = 0 then " #split-no-leftover" else " #split-leftover")
  | _ => "bad-op"

instance : TrigFns Float := ⟨Float.cos, Float.sin, 3.14159265358979323846⟩

/-- `emit`: three consecutive draws through `emitDirection` / `emitTau` at `Float` -/
def emitOp (s : State) (tag : String) : State × String :=
  let (k1, s1) := next exact s
  let (k2, s2) := next exact s1
  let (k3, s3) := next exact s2
  let (x, y, z) := emitDirection (toF k1) (toF k2)
  let tau := emitTau (toF k3)
  (s3, s!"emit {showF x} {showF y} {showF z} {showF tau} #emit-{tag}")

/-- hash of the optical depths `-log(u)` of the given draws (bit patterns, as the harness) -/
def tauHash (l : List Int) : Nat :=
  l.foldl (fun h u => (h * 6364136223846793005 + bitsOf (emitTau (toF u)) + 1442695040888963407)
    % 18446744073709551616) 0

/-- `ctx <seed> <nthreads> <tok>…`: the driver loop of `Model/RanluxCtx` (stub spectrum: one draw
per packet; stub handler: re-emit iff the draw is below 0.5) -/
def ctxLoop : List String → Array State → Option Nat → String → String
  | [], _, _, acc => acc
  | tok :: rest, gens, buf, acc =>
    if tok = "I" then ctxLoop rest gens buf acc else
    let body := (tok.drop 1).toString
    let parts := body.splitOn ":"
    let t := nat! (parts.getD 0 "")
    let g := gens.getD t (seedState exact 42)
    if tok.startsWith "S" then
      let n := nat! (parts.getD 1 "")
      let (l, g') := sourceLoop 1 n g
      let c := (sourceOp t 1 n).draws g
      ctxLoop rest (gens.setIfInBounds t g') (some n) (acc ++ s!" {t}:{c}:{n}:{tauHash l}")
    else
      match buf with
      | none => ctxLoop rest gens buf (acc ++ s!" {t}:-")
      | some m =>
        let (c, l, g') := reemitLoop 140737488355328 m g
        ctxLoop rest (gens.setIfInBounds t g') (if l.length = 0 then none else some l.length)
          (acc ++ s!" {t}:{c}:{l.length}:{tauHash l}")

def step (s : State) : List String → State × String
  | ["seed", n] =>
    let s' := seedState exact (intOf n)
    (s', s!"seed {showState s'}")
  | ["next"] =>
    let (v, s') := next exact s
    let z := if v = 0 then "+zero" else if v = B - 1 then "+max" else ""
    (s', s!"next {bitsOfInt v} #{tagOf s}{z}")
  | ["skip", k] =>
    let (s', h, lo, hi) := skipLoop (nat! k) s 0 B (-1)
    (s', s!"skip {h} {bitsOfInt lo} {bitsOfInt hi}")
  | ["differ", a, b] =>
    (s, s!"differ {firstDiff 24 0 (seedState exact (intOf a)) (seedState exact (intOf b))}")
  | "state" :: rest =>
    if rest.length = 17 then
      let items := (rest.take 13).map (fun w => Item.d (intOf w))
        ++ (rest.drop 13).map (fun w => Item.u (nat! w))
      match restore items with
      | some s' => (s', s!"state {showState s'}")
      | none => (s, "state-error")
    else (s, "bad-op")
  | ["own"] => (s, "own 1 1 1 #own")
  | "ctx" :: s0 :: n :: toks =>
    let gens := ((List.range (nat! n)).map fun i => seedState exact (threadSeed (intOf s0) i)).toArray
    (s, ctxLoop toks gens none "ctx" ++ " #ctx")
  | ["abi"] => (s, "abi 8 8 8 #abi")
  | ["nexti"] =>
    let (r, s') := nextInt exact s
    (s', s!"nexti {r} #nexti")
  | ["emit", "s"] => emitOp s "source"
  | ["emit", "r"] => emitOp s "reemit"
  | ["threads", s0, n] =>
    let firsts := (threadStates (intOf s0) (nat! n)).map fun t => toString (bitsOfInt (next exact t).1)
    (s, "threads " ++ " ".intercalate firsts ++ " #threads")
  | "split" :: rest => (s, splitOp rest)
  | ["dump"] => (s, s!"dump {showState s}")
  | ["restore"] =>
    match restore (dump s) with
    | some s' => (s', s!"restore {showState s'}")
    | none => (s, "restore-error")
  | _ => (s, "bad-op")

def main : IO Unit := runDriver step (seedState exact 42)
