import CMacVerif.Model.Yaml
import CMacVerif.Model.Units
import CMacVerif.Util.Bits
/-! Line-protocol driver for C20.  Strings cross the boundary hex-encoded (two digits per byte,
"-" = empty string).  See tools/props/c20.py for the op formats. -/
open CMacVerif CMacVerif.Util

namespace C20
open CMacVerif.Yaml

def hexVal (c : Char) : Nat :=
  if '0' ≤ c && c ≤ '9' then c.toNat - '0'.toNat
  else if 'a' ≤ c && c ≤ 'f' then c.toNat - 'a'.toNat + 10
  else if 'A' ≤ c && c ≤ 'F' then c.toNat - 'A'.toNat + 10 else 0

def unhexL : List Char → List Char
  | a :: b :: r => Char.ofNat (16 * hexVal a + hexVal b) :: unhexL r
  | _ => []

def unhex (s : String) : List Char := if s = "-" then [] else unhexL s.toList

def hexDigit (n : Nat) : Char := if n < 10 then Char.ofNat (48 + n) else Char.ofNat (87 + n)

def hexL : List Char → List Char
  | [] => []
  | c :: r => hexDigit (c.toNat / 16 % 16) :: hexDigit (c.toNat % 16) :: hexL r

def hex (s : List Char) : String := if s.isEmpty then "-" else String.ofList (hexL s)

/-- split at '\n' like repeated `getline` (a trailing newline does not give an extra line) -/
def splitLines (s : List Char) : List (List Char) :=
  let rec go : List Char → List Char → List (List Char)
    | [], cur => if cur.isEmpty then [] else [cur.reverse]
    | c :: r, cur => if c = '\n' then cur.reverse :: go r [] else go r (c :: cur)
  go s []

def joinLines (ls : List (List Char)) : List Char := ls.foldr (fun l acc => l ++ '\n' :: acc) []

def showDict (d : Dict) : List Char :=
  d.foldr (fun kv acc => kv.1 ++ Char.ofNat 31 :: kv.2 ++ Char.ofNat 30 :: acc) []

/-- branch tags of one print run: which printer branches were taken -/
structure Tags where
  a : Nat := 0        -- |keygroups| > |groupname|
  b : Nat := 0
  stale : Nat := 0    -- the shrinking loop left entries beyond the common prefix
  reemit : Nat := 0   -- headers printed although the group did not change (stale stack)
  jump : Nat := 0     -- nesting changed by two or more levels
  maxDepth : Nat := 0

def tagRun (d : Dict) : Tags := Id.run do
  let mut g : List Str := []
  let mut prev : List Str := []
  let mut t : Tags := {}
  for (k, v) in d do
    let kg := (splitKey k).1
    let i := lcp g kg
    if kg.length > g.length then
      t := { t with a := t.a + 1 }
      if (popShrink i g).length > i then t := { t with stale := t.stale + 1 }
    else
      t := { t with b := t.b + 1 }
    if lcp prev kg > i then t := { t with reemit := t.reemit + 1 }
    if kg.length ≥ prev.length + 2 || prev.length ≥ kg.length + 2 then t := { t with jump := t.jump + 1 }
    if kg.length > t.maxDepth then t := { t with maxDepth := kg.length }
    g := (printEntry g k v).1
    prev := kg
  return t

def showTags (t : Tags) : String :=
  s!" #A={min t.a 1},B={min t.b 1},stale={min t.stale 1},reemit={min t.reemit 1},jump={min t.jump 1},depth={t.maxDepth}"

def yamlOp (text : List Char) : String :=
  match parseText (splitLines text) with
  | none => "err #parse-error"
  | some d =>
    let out := joinLines (printText d)
    s!"ok {d.length} {hex out} {hex (showDict d)}" ++ showTags (tagRun d)

def pairs : List String → Dict
  | k :: v :: r => Dict.insert (unhex k) (unhex v) (pairs r)
  | _ => []

def usedOp (text : List Char) (used : Dict) : String :=
  match parseText (splitLines text) with
  | none => "err #parse-error"
  | some d =>
    let out := joinLines (printUsedText used d)
    s!"ok {hex out} #used"

end C20

namespace C20U
open CMacVerif.Units CMacVerif.Gen.Units

instance : OfScientific Rat := inferInstance

def showUnitF (u : Unit Float) : String :=
  s!"{showF u.value} {u.length} {u.time} {u.mass} {u.temperature} {u.current} {u.angle}"

def showRat (r : Rat) : String := s!"{r.num}/{r.den}"

def showUnit (uf : Option (Unit Float)) (ur : Option (Unit Rat)) : String :=
  match uf, ur with
  | some a, some b => s!"ok {showUnitF a} r={showRat b.value}"
  | _, _ => "err"

def showVal (a : Option Float) (b : Option Rat) (tag : String) : String :=
  match a, b with
  | some x, some y => s!"ok {showF x} r={showRat y} #{tag}"
  | _, _ => s!"err #{tag}-err"

def ratOfBits! (n : Nat) : Rat := (ratOfBits n).getD 0

/-- which branch of to_SI / to_unit -/
def convTag (q : Nat) (u : List Char) : String :=
  match (getSIUnit q : Option (Unit Rat)), (getUnit u : Option (Unit Rat)) with
  | some si, some un => if si.sameQuantity un then "same" else
      (if si.sameQuantity ((getSIUnit qFrequency : Option (Unit Rat)).getD si) then "cross-to-freq" else "cross")
  | _, _ => "bad-unit"

end C20U

open C20 C20U CMacVerif.Units in
def step (_ : Unit) : List String → Unit × String
  | ["yaml", t] => ((), yamlOp (unhex t))
  | "used" :: t :: kvs => ((), usedOp (unhex t) (pairs kvs))
  | "query" :: _ => ((), "-")
  | ["single", n] =>
    ((), showUnit (getSingleUnit (unhex n)) (getSingleUnit (unhex n)) ++ " #single")
  | ["tablerel", a, f, b] =>
    let va : Option (Unit Rat) := getSingleUnit (unhex a)
    let vb : Option (Unit Rat) := getSingleUnit (unhex b)
    let fr : Rat := (nat! f : Nat)
    match va, vb, lookup (unhex a) CMacVerif.Gen.Units.table, lookup (unhex b) CMacVerif.Gen.Units.table with
    | some ua, some ub, some ea, some eb =>
      if !ua.sameQuantity ub then ((), "inconsistent #table-dimensions")
      else if ua.value = fr * ub.value then ((), "ok #table-exact")
      else
        -- on the shortest round-trip decimals: ma * 10^xa = f * mb * 10^xb
        let sh (m : Int) (x : Int) (lo : Int) : Int := m * (10 : Int) ^ (x - lo).toNat
        let lo := min ea.val.decExp eb.val.decExp
        if sh ea.val.decMant ea.val.decExp lo = (nat! f : Nat) * sh eb.val.decMant eb.val.decExp lo
        then ((), "ok #table-decimal") else ((), "inconsistent #table-inconsistent")
    | _, _, _, _ => ((), "err #table-err")
  | ["unit", s] => ((), showUnit (getUnit (unhex s)) (getUnit (unhex s)) ++ " #unit")
  | "compound" :: parts =>
    let s := (parts.map unhex).foldr (fun p acc => if acc.isEmpty then p else p ++ ' ' :: acc) []
    ((), showUnit (getUnit s) (getUnit s) ++ " #compound")
  | ["tosi", q, v, s] =>
    let q := nat! q; let s := unhex s
    ((), showVal (toSI q (fOfBits (nat! v)) s) (toSI q (ratOfBits! (nat! v)) s) ("tosi-" ++ convTag q s))
  | ["tounit", q, v, s] =>
    let q := nat! q; let s := unhex s
    ((), showVal (toUnit q (fOfBits (nat! v)) s) (toUnit q (ratOfBits! (nat! v)) s) ("tounit-" ++ convTag q s))
  | ["convert", v, a, b] =>
    ((), showVal (convert (fOfBits (nat! v)) (unhex a) (unhex b)) (convert (ratOfBits! (nat! v)) (unhex a) (unhex b)) "convert")
  | _ => ((), "bad-op")

def main : IO Unit := runDriver step ()
