-- stub: driver for C20 not written yet
def main : IO Unit := pure ()
