import CMacVerif.Model.Yaml
import CMacVerif.Model.Units
import CMacVerif.Model.Snapshot
import CMacVerif.Util.Bits
/-! Line-protocol driver for C20.  Strings cross the boundary hex-encoded (two digits per byte,
"-" = empty string).  See tools/props/c20.py for the op formats. -/
open CMacVerif CMacVerif.Util

namespace C20
open CMacVerif.Yaml

def hexVal (c : Char) : Nat :=
  if '0' ≤ c && c ≤ '9' then c.toNat - '0'.toNat
  else if 'a' ≤ c && c ≤ 'f' then c.toNat - 'a'.toNat + 10
  else if 'A' ≤ c && c ≤ 'F' then c.toNat - 'A'.toNat + 10 else 0

def unhexL : List Char → List Char
  | a :: b :: r => Char.ofNat (16 * hexVal a + hexVal b) :: unhexL r
  | _ => []

def unhex (s : String) : List Char := if s = "-" then [] else unhexL s.toList

def hexDigit (n : Nat) : Char := if n < 10 then Char.ofNat (48 + n) else Char.ofNat (87 + n)

def hexL : List Char → List Char
  | [] => []
  | c :: r => hexDigit (c.toNat / 16 % 16) :: hexDigit (c.toNat % 16) :: hexL r

def hex (s : List Char) : String := if s.isEmpty then "-" else String.ofList (hexL s)

/-- split at '\n' like repeated `getline` (a trailing newline does not give an extra line) -/
def splitLines (s : List Char) : List (List Char) :=
  let rec go : List Char → List Char → List (List Char)
    | [], cur => if cur.isEmpty then [] else [cur.reverse]
    | c :: r, cur => if c = '\n' then cur.reverse :: go r [] else go r (c :: cur)
  go s []

def joinLines (ls : List (List Char)) : List Char := ls.foldr (fun l acc => l ++ '\n' :: acc) []

def showDict (d : Dict) : List Char :=
  d.foldr (fun kv acc => kv.1 ++ Char.ofNat 31 :: kv.2 ++ Char.ofNat 30 :: acc) []

/-- branch tags of one print run: which printer branches were taken -/
structure Tags where
  a : Nat := 0        -- |keygroups| > |groupname|
  b : Nat := 0
  stale : Nat := 0    -- the shrinking loop left entries beyond the common prefix
  reemit : Nat := 0   -- headers printed although the group did not change (stale stack)
  jump : Nat := 0     -- nesting changed by two or more levels
  maxDepth : Nat := 0

def tagRun (d : Dict) : Tags := Id.run do
  let mut g : List Str := []
  let mut prev : List Str := []
  let mut t : Tags := {}
  for (k, v) in d do
    let kg := (splitKey k).1
    let i := lcp g kg
    if kg.length > g.length then
      t := { t with a := t.a + 1 }
      if (popShrink i g).length > i then t := { t with stale := t.stale + 1 }
    else
      t := { t with b := t.b + 1 }
    if lcp prev kg > i then t := { t with reemit := t.reemit + 1 }
    if kg.length ≥ prev.length + 2 || prev.length ≥ kg.length + 2 then t := { t with jump := t.jump + 1 }
    if kg.length > t.maxDepth then t := { t with maxDepth := kg.length }
    g := (printEntry g k v).1
    prev := kg
  return t

def showTags (t : Tags) : String :=
  s!" #A={min t.a 1},B={min t.b 1},stale={min t.stale 1},reemit={min t.reemit 1},jump={min t.jump 1},depth={t.maxDepth}"

def yamlOp (text : List Char) : String :=
  match parseText (splitLines text) with
  | none => "err #parse-error"
  | some d =>
    let out := joinLines (printText d)
    s!"ok {d.length} {hex out} {hex (showDict d)}" ++ showTags (tagRun d)

def pairs : List String → Dict
  | k :: v :: r => Dict.insert (unhex k) (unhex v) (pairs r)
  | _ => []

def usedOp (text : List Char) (used : Dict) : String :=
  match parseText (splitLines text) with
  | none => "err #parse-error"
  | some d =>
    let out := joinLines (printUsedText used d)
    s!"ok {hex out} #used"

end C20

namespace C20U
open CMacVerif.Units CMacVerif.Gen.Units

instance : OfScientific Rat := inferInstance

def showUnitF (u : Unit Float) : String :=
  s!"{showF u.value} {u.length} {u.time} {u.mass} {u.temperature} {u.current} {u.angle}"

def showRat (r : Rat) : String := s!"{r.num}/{r.den}"

def showUnit (uf : Option (Unit Float)) (ur : Option (Unit Rat)) : String :=
  match uf, ur with
  | some a, some b => s!"ok {showUnitF a} r={showRat b.value}"
  | _, _ => "err"

def showVal (a : Option Float) (b : Option Rat) (tag : String) : String :=
  match a, b with
  | some x, some y => s!"ok {showF x} r={showRat y} #{tag}"
  | _, _ => s!"err #{tag}-err"

def ratOfBits! (n : Nat) : Rat := (ratOfBits n).getD 0

/-- which branch of to_SI / to_unit -/
def convTag (q : Nat) (u : List Char) : String :=
  match (getSIUnit q : Option (Unit Rat)), (getUnit u : Option (Unit Rat)) with
  | some si, some un => if si.sameQuantity un then "same" else
      (if si.sameQuantity ((getSIUnit qFrequency : Option (Unit Rat)).getD si) then "cross-to-freq" else "cross")
  | _, _ => "bad-unit"

end C20U

namespace C20S
open CMacVerif.Snapshot

def fnv (h : UInt64) (x : Nat) : UInt64 := (h ^^^ x.toUInt64) * 1099511628211
def fnv0 : UInt64 := 14695981039346656037
def noPos : Nat := 4294967295

/-- `snapidx`: the index maps of the model for one grid — W: cell stored at every file position
(the same for every dataset, C: the coordinates dataset), P / R: file position fetched by the
plain / buffered reader for every cell of the grid in x,y,z order (on the file `position ↦ position`) -/
def snapidx (legacy : Bool) (nx ny nz gx gy gz B : Nat) : String := Id.run do
  let L : Layout := if legacy then ⟨1, 1, 1, nx, ny, nz⟩ else ⟨gx, gy, gz, nx / gx, ny / gy, nz / gz⟩
  let total := nx * ny * nz
  let coords : DS (Nat × Nat × Nat) := snapshot B L id
  let idDS : DS Nat := fun k => if k < total then some k else none
  let mut w := fnv0
  for k in [0:total] do
    w := fnv w (match coords k with | some c => one ny nz c | none => noPos)
  let grid := plainGrid nx ny nz total coords idDS
  let mut p := fnv0
  for ix in [0:nx] do
    for iy in [0:ny] do
      for iz in [0:nz] do
        p := fnv p (match get grid (one ny nz (ix, iy, iz)) with | some k => k | none => noPos)
  let cubic := !legacy && nx == ny && ny == nz
  let mut r := fnv0
  if cubic then
    let bufs : Array (Array (Option Nat)) := (Array.range L.G).map (fun sg => bufferSubgrid L idDS sg)
    for ix in [0:nx] do
      for iy in [0:ny] do
        for iz in [0:nz] do
          let i := bufferedIndex L (ix, iy, iz)
          r := fnv r (match get (bufs.getD i.1 #[]) i.2 with | some k => k | none => noPos)
  let nb := L.N / B + (if L.N % B > 0 then 1 else 0)
  let tag := if nb ≤ 1 then "1" else if nb == 2 then "2" else "3+"
  let rs := if cubic then toString r.toNat else "-"
  return s!"ok {total} W={w.toNat} C={w.toNat} P={p.toNat} R={rs} #idx-blocks={tag},{if legacy then "legacy" else if cubic then "both" else "plain"}"

/-- cell state as a function of the cell number (the same expressions as in harness/c20_snap.cpp) -/
def fieldState (fractions : Bool) (cid : Nat) : CellState Float :=
  ⟨Float.ofNat (cid + 1) * 1.0e6, 100.0 + Float.ofNat cid * 3.7,
   if fractions then (Float.ofNat (cid % 97) + 1.0) / 100.0 else 1.0e-6⟩

def showState : Option (CellState Float) → String
  | some s => s!"{CMacVerif.Util.showF s.n},{CMacVerif.Util.showF s.T},{CMacVerif.Util.showF s.xH}"
  | none => "err"

/-- `snapfields`: what the two readers reconstruct for every cell (x,y,z order) of a snapshot that
stores the given combination of quantities -/
def snapfields (c : Combo) (useD useP : Bool) (nx ny nz : Nat) (cubic : Bool) : String := Id.run do
  let mp : Float := Float.ofBits (CMacVerif.Gen.Units.protonMass).bits.toUInt64
  let k : Float := Float.ofBits (CMacVerif.Gen.Units.boltzmann).bits.toUInt64
  let pcf := k / mp
  let mut ps : String := ""
  let mut rs : String := ""
  for ix in [0:nx] do
    for iy in [0:ny] do
      for iz in [0:nz] do
        let cid := one ny nz (ix, iy, iz)
        let st := encode mp pcf c (fieldState c.fractions cid)
        ps := ps ++ (if ps.isEmpty then "" else ";") ++ showState (decodePlain mp k useD useP st)
        if cubic then
          rs := rs ++ (if rs.isEmpty then "" else ";") ++ showState (decodeBuffered mp k st)
  let tag := s!"fields-n{if c.numberDensity then 1 else 0}r{if c.density then 1 else 0}T{if c.temperature then 1 else 0}P{if c.pressure then 1 else 0}x{if c.fractions then 1 else 0}"
  return s!"ok {nx * ny * nz} P={ps} R={if cubic then rs else "-"} #{tag}"

end C20S

open C20 C20U CMacVerif.Units in
def step (_ : Unit) : List String → Unit × String
  | ["yaml", t] => ((), yamlOp (unhex t))
  | "used" :: t :: kvs => ((), usedOp (unhex t) (pairs kvs))
  | "query" :: _ => ((), "-")
  | ["snapfields", _hydro, nd, rho, t, pr, fr, _vel, ud, up, nx, ny, nz, _gx, _gy, _gz, _buffer] =>
    let b := fun (x : String) => x == "1"
    let n := (nat! nx, nat! ny, nat! nz)
    ((), C20S.snapfields ⟨b nd, b rho, b t, b pr, b fr⟩ (b ud) (b up) n.1 n.2.1 n.2.2 (n.1 == n.2.1 && n.2.1 == n.2.2))
  | ["snapidx", mode, nx, ny, nz, gx, gy, gz, b, _buffer] =>
    ((), C20S.snapidx (mode == "legacy") (nat! nx) (nat! ny) (nat! nz) (nat! gx) (nat! gy) (nat! gz) (nat! b))
  | ["single", n] =>
    ((), showUnit (getSingleUnit (unhex n)) (getSingleUnit (unhex n)) ++ " #single")
  | ["tablerel", a, f, b] =>
    let va : Option (Unit Rat) := getSingleUnit (unhex a)
    let vb : Option (Unit Rat) := getSingleUnit (unhex b)
    let fr : Rat := (nat! f : Nat)
    match va, vb, lookup (unhex a) CMacVerif.Gen.Units.table, lookup (unhex b) CMacVerif.Gen.Units.table with
    | some ua, some ub, some ea, some eb =>
      if !ua.sameQuantity ub then ((), "inconsistent #table-dimensions")
      else if ua.value = fr * ub.value then ((), "ok #table-exact")
      else
        -- on the shortest round-trip decimals: ma * 10^xa = f * mb * 10^xb
        let sh (m : Int) (x : Int) (lo : Int) : Int := m * (10 : Int) ^ (x - lo).toNat
        let lo := min ea.val.decExp eb.val.decExp
        if sh ea.val.decMant ea.val.decExp lo = (nat! f : Nat) * sh eb.val.decMant eb.val.decExp lo
        then ((), "ok #table-decimal") else ((), "inconsistent #table-inconsistent")
    | _, _, _, _ => ((), "err #table-err")
  | ["unit", s] => ((), showUnit (getUnit (unhex s)) (getUnit (unhex s)) ++ " #unit")
  | "compound" :: parts =>
    let s := (parts.map unhex).foldr (fun p acc => if acc.isEmpty then p else p ++ ' ' :: acc) []
    ((), showUnit (getUnit s) (getUnit s) ++ " #compound")
  | ["tosi", q, v, s] =>
    let q := nat! q; let s := unhex s
    ((), showVal (toSI q (fOfBits (nat! v)) s) (toSI q (ratOfBits! (nat! v)) s) ("tosi-" ++ convTag q s))
  | ["tounit", q, v, s] =>
    let q := nat! q; let s := unhex s
    ((), showVal (toUnit q (fOfBits (nat! v)) s) (toUnit q (ratOfBits! (nat! v)) s) ("tounit-" ++ convTag q s))
  | ["convert", v, a, b] =>
    ((), showVal (convert (fOfBits (nat! v)) (unhex a) (unhex b)) (convert (ratOfBits! (nat! v)) (unhex a) (unhex b)) "convert")
  | _ => ((), "bad-op")

def main : IO Unit := runDriver step ()
