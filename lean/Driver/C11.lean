-- stub: driver for C11 not written yet
def main : IO Unit := pure ()
