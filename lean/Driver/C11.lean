import CMacVerif.Model.ExactRiemann
import CMacVerif.Inst.Float
import CMacVerif.Util.Bits
/-!
Line-protocol driver of C11: the `Float` instantiation of `Model/ExactRiemann.lean`.
Doubles are decimal bit patterns.  Ops (the harness `harness/c11.cpp` answers the same lines
with the real `ExactRiemannSolver`):

* `consts g`                                   → the ten derived constants
* `fb g rho P pstar`                           → `fb`, `fprimeb`, `gb` for one state
* `guess g rhoL uL PL rhoR uR PR`              → `guess_P`
* `brent g rhoL uL PL rhoR uR PR Plow Phigh`   → `solve_brent` on the real pressure function
* `solve g rhoL uL PL rhoR uR PR dxdt`         → `flag rho u P`
* `solvex …` = `solve` (the harness skips its reference oracle: out-of-domain extremes)
* `waves g rhoL uL PL rhoR uR PR`              → (driver only) regime, p*, u*, all wave speeds
-/
open CMacVerif CMacVerif.Util CMacVerif.ExactRiemann

/-- 2^-1024: largest double whose reciprocal is `inf` (see `Model/RiemannVacuum.lean`) -/
def ovfThr : Float := Float.ofBits 0x0004000000000000

def newtonFuel : Nat := 100000
def brentFuel : Nat := 10000

def fl (s : String) : Float := fOfBits (nat! s)

def showSol (flag : Int) (s : Sol Float) : String :=
  s!"{flag} {showF s.rho} {showF s.u} {showF s.P}"

def starTags (o : Option (Star Float)) : String :=
  match o with
  | none => ""
  | some s =>
    let fuelTag := if s.res.newtonLeft == 0 then " NEWTON-FUEL-OUT" else ""
    let errTag := if s.res.err then " BRENT-ERROR" else ""
    let bfuel := if s.res.path == 2 && s.res.brentLeft == 0 then " brent-fuel-out" else ""
    s!" guess{s.guessBr} path{s.res.path}{bfuel}{fuelTag}{errTag} pstar={showF s.pstar} ustar={showF s.ustar}"

/-- the quantities the harness derives for one state exactly as `solve` does (lines 883–929) -/
structure Side where
  rhoinv : Float
  Pinv : Float
  a : Float
  afac : Float
  A : Float
  B : Float
  rhoainv : Float

def side (c : Consts Float) (rho P : Float) : Side :=
  let rhoinv := 1.0 / rho
  let Pinv := 1.0 / P
  let a := soundspeed c rhoinv P
  ⟨rhoinv, Pinv, a, c.tdgm1 * a, c.tdgp1 * rhoinv, c.gm1dgp1 * P, 1.0 / (rho * a)⟩

def doSolve (g rhoL uL PL rhoR uR PR x : String) : String :=
  let r := solve ovfThr (fl g) newtonFuel brentFuel (fl rhoL) (fl uL) (fl PL) (fl rhoR) (fl uR) (fl PR) (fl x)
  s!"{showSol r.1 r.2.1} #br{r.2.1.br}{starTags r.2.2}"

def step (_ : Unit) : List String → Unit × String
  | ["consts", g] =>
    let c := mkConsts (fl g)
    ((), s!"consts {showF c.gamma} {showF c.gp1d2g} {showF c.gm1d2g} {showF c.gm1dgp1} {showF c.tdgp1} {showF c.tdgm1} {showF c.gm1d2} {showF c.tgdgm1} {showF c.ginv} {showF c.gm1inv}")
  | ["fb", g, rho, P, ps] =>
    let c := mkConsts (fl g)
    let x := side c (fl rho) (fl P)
    let p := fl ps
    let v := fb c (fl P) x.A x.B x.Pinv x.afac p
    let d := fprimeb c (fl P) x.A x.B x.Pinv x.rhoainv p
    let br := if fl P < p then "shock" else "rarefaction"
    ((), s!"fb {showF v} {showF d} {showF (gb x.A x.B p)} #fb-{br}")
  | ["guess", g, rhoL, uL, PL, rhoR, uR, PR] =>
    let c := mkConsts (fl g)
    let l := side c (fl rhoL) (fl PL)
    let r := side c (fl rhoR) (fl PR)
    let gp := guessPT c (fl PL) l.a l.A l.B (fl PR) r.a r.A r.B (fl uR - fl uL)
    ((), s!"guess {showF gp.1} #guess{gp.2}")
  | ["brent", g, rhoL, uL, PL, rhoR, uR, PR, lo, hi] =>
    let c := mkConsts (fl g)
    let l := side c (fl rhoL) (fl PL)
    let r := side c (fl rhoR) (fl PR)
    let F := f c (fl PL) l.A l.B l.Pinv l.afac (fl PR) r.A r.B r.Pinv r.afac (fl uR - fl uL)
    let flo := F (fl lo)
    let fhi := F (fl hi)
    match solveBrent F brentFuel (fl lo) (fl hi) flo fhi with
    | none => ((), "brent error #brent-error")
    | some (p, left) => ((), s!"brent {showF p} #brent-iters-{(brentFuel - left).log2}")
  | ["solve", g, rhoL, uL, PL, rhoR, uR, PR, x] => ((), doSolve g rhoL uL PL rhoR uR PR x)
  | ["solvex", g, rhoL, uL, PL, rhoR, uR, PR, x] => ((), doSolve g rhoL uL PL rhoR uR PR x)
  | ["waves", g, rhoL, uL, PL, rhoR, uR, PR] =>
    let c := mkConsts (fl g)
    let rhoL := fl rhoL; let uL := fl uL; let PL := fl PL
    let rhoR := fl rhoR; let uR := fl uR; let PR := fl PR
    let vL := RiemannVacuum.isVacuum ovfThr rhoL rhoL PL PL
    let vR := RiemannVacuum.isVacuum ovfThr rhoR rhoR PR PR
    let aL : Float := if vL then 0.0 else soundspeed c (1.0 / rhoL) PL
    let aR : Float := if vR then 0.0 else soundspeed c (1.0 / rhoR) PR
    let reg : Nat := if vL || vR then 0 else if c.tdgm1 * aL + c.tdgm1 * aR ≤ uR - uL then 1 else 2
    if reg == 2 then
      let s := star c newtonFuel brentFuel rhoL uL PL rhoR uR PR
      let left := if PL < s.pstar then s!"LS {showF (shockSpeedL c uL s.aL (1.0 / PL) s.pstar)}"
        else s!"LR {showF (headL uL s.aL)} {showF (tailL c s.aL (1.0 / PL) s.ustar s.pstar)}"
      let right := if PR < s.pstar then s!"RS {showF (shockSpeedR c uR s.aR (1.0 / PR) s.pstar)}"
        else s!"RR {showF (headR uR s.aR)} {showF (tailR c s.aR (1.0 / PR) s.ustar s.pstar)}"
      ((), s!"waves 2 {showF s.pstar} {showF s.ustar} C {showF s.ustar} {left} {right}")
    else
      let l := if vL then "" else s!" LV {showF (uL - aL)} {showF (uL + c.tdgm1 * aL)}"
      let r := if vR then "" else s!" RV {showF (uR + aR)} {showF (uR - c.tdgm1 * aR)}"
      ((), s!"waves {reg} 0 0{l}{r}")
  | _ => ((), "bad-op")

def main : IO Unit := runDriver step ()
