import CMacVerif.Model.RayMarch
import CMacVerif.Util.Bits
import CMacVerif.Inst.Float
/-!
Line-protocol driver for C02 (the same `RayMarch.interact` the theorems are about).

  blk  ax ay az sx sy sz nx ny nz        block: anchor, side lengths (doubles as bit patterns), cells
  cells m mul add (n xH xHe){m}           cell c holds palette entry ((c*mul+add) mod m)
  pkt  px py pz dx dy dz tau sH sHe sX w nu inDir id ex   (id: serial number, ex: exactness flag; both ignored)
  prp  (same fields)   `propagate` instead of `interact`
  cod  (same fields)   `compute_optical_depth`

Default mode: `Float` instantiation, answers compared with the C++ harness.
Mode `rat` (first command line argument): the exact `Rat` instantiation on the exact values of
the same doubles; reports the discrete outcome, whether a comparison was a near tie (two wall
distances / the optical depth test / the start index within 4 ulp), and evaluates the
statements of the C02 theorems exactly on this instance.
-/
open CMacVerif CMacVerif.Util CMacVerif.RayMarch

structure DSt (α : Type) where
  blk : Block α
  pal : Array (Cell α)
  mul : Nat
  add : Nat
  /-- counters of the cells, accumulated over the `pkt` lines since the last `cells` line -/
  ctr : Nat → Counters α

def cellsOf {α : Type} (dflt : Cell α) (s : DSt α) : Nat → Cell α := fun c =>
  if s.pal.size == 0 then dflt else s.pal.getD ((c * s.mul + s.add) % s.pal.size) dflt

def v3 {β : Type} (a b c : β) : V3 β := ⟨a, b, c⟩

def parsePalette {α : Type} (conv : Nat → α) : List String → Array (Cell α) → Array (Cell α)
  | n :: x :: y :: rest, acc => parsePalette conv rest (acc.push ⟨conv (nat! n), conv (nat! x), conv (nat! y)⟩)
  | _, acc => acc

def parsePhoton {α : Type} (conv : Nat → α) (w : List Nat) : Option (Photon α × Nat) :=
  match w with
  | [px, py, pz, dx, dy, dz, tau, sH, sHe, sX, wt, nu, inDir, _id, _ex] =>
    some ({ pos := v3 (conv px) (conv py) (conv pz), dir := v3 (conv dx) (conv dy) (conv dz),
            tau := conv tau, sigH := conv sH, sigHe := conv sHe, sigX := conv sX, w := conv wt,
            nu := conv nu }, inDir)
  | _ => none

/-! ### Float mode -/

def fZeroCell : Cell Float := ⟨0.0, 0.0, 0.0⟩

def showV (v : V3 Float) : String := s!"{showF v.x} {showF v.y} {showF v.z}"

/-- a visit: cell, path, the three mean-intensity increments, and the five counters of the cell as
they stand after the packet (`deposit`: accumulated on whatever earlier packets left there) -/
def showVisit (ctr : Nat → Counters Float) (v : Visit Float) : String :=
  let c := ctr v.cell.toNat
  s!" v {v.cell} {showF v.path} {showF v.jH} {showF v.jHe} {showF v.jX} {showF c.jH} {showF c.jHe} {showF c.jX} {showF c.hH} {showF c.hHe}"

def zeroCtrF : Nat → Counters Float := fun _ => ⟨0.0, 0.0, 0.0, 0.0, 0.0⟩

/-- branch tags of one packet: recomputed by walking the same `geo`/`step` stages -/
def tagsF (b : Block Float) (cells : Nat → Cell Float) (ph : Photon Float) (inDir : Nat)
    (s0 : St Float) (r : Result Float) : List String :=
  let kinds := [idxKind inDir .x, idxKind inDir .y, idxKind inDir .z]
  let npin := (kinds.filter (· != 0)).length
  let entry := match npin with | 0 => "in-inside" | 1 => "in-face" | 2 => "in-edge" | _ => "in-corner"
  let nstatic := ([ph.dir.x, ph.dir.y, ph.dir.z].filter (· == 0.0)).length
  let stat := s!"static{nstatic}"
  let neg := if ph.dir.x < 0.0 || ph.dir.y < 0.0 || ph.dir.z < 0.0 then ["dir-neg"] else []
  let pos := if 0.0 < ph.dir.x || 0.0 < ph.dir.y || 0.0 < ph.dir.z then ["dir-pos"] else []
  let exit :=
    if r.outDir == 0 then "out-inside" else if r.outDir < 0 then "out-invalid"
    else if r.outDir ≤ 8 then "out-corner" else if r.outDir ≤ 20 then "out-edge" else "out-face"
  let nv := if r.visits.isEmpty then ["no-visit"] else []
  let zero := if r.visits.any (fun v => v.path == 0.0) then ["zero-path"] else []
  -- walk the steps again for the per-step branches
  let rec walk (f : Nat) (s : St Float) (acc : List String) : List String :=
    match f with
    | 0 => acc
    | f + 1 =>
      if s.tauDone < ph.tau && inside b.n s.idx then
        let g := geo b cells ph s
        let nb := ([Ax.x, Ax.y, Ax.z].filter (fun a => g.l.get a == g.lmin)).length
        let t :=
          if ph.tau ≤ g.td then
            (if g.td == ph.tau then "stop-exact" else "stop-surplus")
          else s!"leave{nb}"
        let t2 := if g.tau == 0.0 then ["tau0"] else []
        walk f (step b cells ph s) (if acc.contains t then t2 ++ acc else t :: t2 ++ acc)
      else acc
  let steps := walk (fuel b.n) s0 []
  ([entry, stat, exit] ++ neg ++ pos ++ nv ++ zero ++ steps).eraseDups

def stepF (s : DSt Float) : List String → DSt Float × String
  | "blk" :: rest =>
    match rest.map nat! with
    | [ax, ay, az, sx, sy, sz, nx, ny, nz] =>
      let b : Block Float := mkBlock (v3 (fOfBits ax) (fOfBits ay) (fOfBits az))
        (v3 (fOfBits sx) (fOfBits sy) (fOfBits sz)) (v3 nx ny nz)
      ({ s with blk := b }, s!"blk cs={showV b.cs} inv={showV b.inv}")
    | _ => (s, "bad-op")
  | "cells" :: m :: mul :: add :: rest =>
    let pal := parsePalette fOfBits rest #[]
    if pal.size != nat! m then (s, "bad-op") else
    ({ s with pal := pal, mul := nat! mul, add := nat! add, ctr := zeroCtrF }, s!"cells {pal.size}")
  | "pkt" :: rest =>
    match parsePhoton fOfBits (rest.map nat!) with
    | some (ph, inDir) =>
      let cells := cellsOf fZeroCell s
      let r := interact s.blk cells ph inDir
      let ctr' := deposit s.ctr r.visits
      -- only the touched cells are kept as an update chain (bounded by the visits of a group)
      let vs := String.join (r.visits.map (showVisit ctr'))
      let tags := ",".intercalate (tagsF s.blk cells ph inDir (initSt s.blk ph inDir) r)
      ({ s with ctr := ctr' }, s!"pkt out={r.outDir} fin={if r.finished then 1 else 0} pos={showV r.pos} tau={showF r.tauLeft} nv={r.visits.length}{vs} #{tags}")
    | none => (s, "bad-op")
  | "prp" :: rest =>
    match parsePhoton fOfBits (rest.map nat!) with
    | some (ph, inDir) =>
      let cells := cellsOf fZeroCell s
      let r := propagate s.blk cells ph inDir
      let tags := ",".intercalate ((tagsF s.blk cells ph inDir (initStNoPin s.blk ph inDir) r).map ("prp-" ++ ·))
      (s, s!"prp out={r.outDir} fin={if r.finished then 1 else 0} pos={showV r.pos} tau={showF r.tauLeft} #{tags}")
    | none => (s, "bad-op")
  | "cod" :: rest =>
    match parsePhoton fOfBits (rest.map nat!) with
    | some (ph, inDir) =>
      let cells := cellsOf fZeroCell s
      let r := computeOpticalDepth s.blk cells ph inDir
      let np := r.last.out.length
      let exit := if r.outDir ≤ 0 then "cod-out-invalid" else if r.outDir ≤ 8 then "cod-out-corner"
        else if r.outDir ≤ 20 then "cod-out-edge" else "cod-out-face"
      let pc := if np == 0 then "cod-passes0" else if np == 1 then "cod-passes1" else "cod-passes2+"
      (s, s!"cod out={r.outDir} fin={if r.finished then 1 else 0} pos={showV r.pos} tau={showF r.tau} #{exit},{pc}")
    | none => (s, "bad-op")
  | _ => (s, "bad-op")

/-! ### exact mode -/

def qOfBits (n : Nat) : Rat := (ratOfBits n).getD 0

def ratToFloat (q : Rat) : Float :=
  let n := q.num.natAbs
  let d := q.den
  let sh := (max n.log2 d.log2) - 900
  let n' := n >>> sh
  let d' := d >>> sh
  let v := if d' == 0 then 0.0 / 0.0 else n'.toFloat / d'.toFloat
  if q.num < 0 then -v else v

def qZeroCell : Cell Rat := ⟨0, 0, 0⟩
def qabs (q : Rat) : Rat := if q < 0 then -q else q
/-- 4 ulp as a relative distance -/
def ulp4 : Rat := mkRat 4 (2 ^ 52)
/-- equal in exact arithmetic, or within 4 ulp: rounding may decide such a comparison either way -/
def near (a b : Rat) : Bool := decide (qabs (a - b) ≤ ulp4 * (if qabs a < qabs b then qabs b else qabs a))

def kappa (c : Cell Rat) (ph : Photon Rat) : Rat := c.n * (ph.sigH * c.xH + ph.sigHe * c.xHe)

/-- near ties along the exact run -/
def tiesQ (b : Block Rat) (cells : Nat → Cell Rat) (ph : Photon Rat) (inDir : Nat) (s0 : St Rat) : Bool :=
  let startTie := [Ax.x, Ax.y, Ax.z].any fun a =>
    idxKind inDir a == 0 &&
      (let x := s0.pos.get a * b.inv.get a
       (List.range (b.n.get a + 2)).any fun k => near x (k : Rat))
  let rec walk (f : Nat) (s : St Rat) : Bool :=
    match f with
    | 0 => false
    | f + 1 =>
      if s.tauDone < ph.tau && inside b.n s.idx then
        let g := geo b cells ph s
        let mv := fun a => ph.dir.get a != 0
        let pr := fun a c => mv a && mv c && near (g.l.get a) (g.l.get c)
        let t := pr .x .y || pr .x .z || pr .y .z || near g.td ph.tau
        t || walk f (step b cells ph s)
      else false
  startTie || walk (fuel b.n) s0

/-- the statements of the C02 theorems evaluated exactly on this instance -/
def exactChecks (b : Block Rat) (cells : Nat → Cell Rat) (ph : Photon Rat) (s0 : St Rat)
    (r : Result Rat) : List String :=
  let S := r.visits.foldl (fun acc v => acc + v.path) 0
  let T := r.visits.foldl (fun acc v => acc + kappa (cells v.cell.toNat) ph * v.path) 0
  let axes := [Ax.x, Ax.y, Ax.z]
  let c1 := if r.finished then [] else ["fuel"]
  let c2 := if axes.all (fun a => r.last.pos.get a == s0.pos.get a + S * ph.dir.get a) then [] else ["path_sum"]
  let c3 := if r.visits.all (fun v => decide (0 ≤ v.path)) then [] else ["path_nonneg"]
  let c4 :=
    if r.outDir == 0 then (if T == ph.tau && decide (r.tauLeft ≤ 0) then [] else ["tau_inside"])
    else (if r.tauLeft == ph.tau - T && decide (0 < r.tauLeft) then [] else ["tau_leave"])
  let c5 := if r.visits.all (fun v => v.jH == ph.w * ph.sigH * v.path && v.jHe == ph.w * ph.sigHe * v.path
      && v.hH == ph.w * ph.sigH * v.path * (ph.nu - 3288000000000000)
      && v.hHe == ph.w * ph.sigHe * v.path * (ph.nu - 5948000000000000)) then [] else ["estimators"]
  let c6 :=
    if r.outDir == 0 then []
    else if axes.all (fun a =>
      let i := r.last.idx.get a
      let p := r.last.pos.get a
      let d := ph.dir.get a
      if i < 0 then p == 0 && decide (d < 0)
      else if i ≥ (b.n.get a : Int) then p == top b a && decide (0 < d)
      else decide (0 ≤ p) && decide (p ≤ top b a) && (decide (d ≤ 0) || decide (p < top b a)) && (decide (0 ≤ d) || decide (0 < p)))
    then [] else ["exit_geometric"]
  c1 ++ c2 ++ c3 ++ c4 ++ c5 ++ c6

/-- exit geometry of a final state outside the block (`exit_facts`) -/
def exitOK (b : Block Rat) (ph : Photon Rat) (last : St Rat) : Bool :=
  [Ax.x, Ax.y, Ax.z].all fun a =>
    let i := last.idx.get a
    let p := last.pos.get a
    let d := ph.dir.get a
    if i < 0 then p == 0 && decide (d < 0)
    else if i ≥ (b.n.get a : Int) then p == top b a && decide (0 < d)
    else decide (0 ≤ p) && decide (p ≤ top b a) && (decide (d ≤ 0) || decide (p < top b a)) && (decide (0 ≤ d) || decide (0 < p))

/-- the statement of `cod_spec` evaluated exactly on this instance -/
def exactChecksCod (b : Block Rat) (cells : Nat → Cell Rat) (ph : Photon Rat) (s0 : St Rat)
    (r : CodResult Rat) : List String :=
  let vs := r.last.out.reverse
  let S := vs.foldl (fun acc v => acc + v.path) 0
  let T := vs.foldl (fun acc v => acc + kappa (cells v.cell.toNat) ph * v.path) 0
  let axes := [Ax.x, Ax.y, Ax.z]
  (if r.finished then [] else ["fuel"]) ++
  (if r.tau == ph.tau + T then [] else ["cod_tau"]) ++
  (if axes.all (fun a => r.last.pos.get a == s0.pos.get a + S * ph.dir.get a) then [] else ["path_sum"]) ++
  (if vs.all (fun v => decide (0 ≤ v.path)) then [] else ["path_nonneg"]) ++
  (if 1 ≤ r.outDir && r.outDir < 27 && exitOK b ph r.last then [] else ["exit_geometric"])

/-- the HYPOTHESES of the theorems (`Valid` and `Start` / `StartNoPin`) evaluated exactly on this
input: the list of the premises that do NOT hold (empty = the theorems apply to this input) -/
def premisesQ (b : Block Rat) (pal : Array (Cell Rat)) (ph : Photon Rat) (inDir : Nat) (pin : Bool) :
    List String :=
  let axes := [Ax.x, Ax.y, Ax.z]
  let rel := fun a => ph.pos.get a - b.anchor.get a
  (if axes.all (fun a => decide (0 < b.cs.get a) && decide (0 < b.n.get a)) then [] else ["cs_pos"]) ++
  (if axes.any (fun a => ph.dir.get a != 0) then [] else ["moving"]) ++
  (if axes.all (fun a => ph.dir.get a == 0 || decide (b.cs.get a < dblMax * qabs (ph.dir.get a))) then [] else ["big"]) ++
  (if pal.all (fun c => decide (0 ≤ kappa c ph)) then [] else ["kappa_nonneg"]) ++
  (if 0 < ph.tau then [] else ["tau_pos"]) ++
  (if inDir < 27 then [] else ["dir_ok"]) ++
  (if axes.all (fun a => b.inv.get a * b.cs.get a == 1) then [] else ["inv_ok"]) ++
  (if axes.all (fun a => idxKind inDir a != 0 || (decide (0 ≤ rel a) && decide (rel a ≤ top b a))) then [] else ["start_computed"]) ++
  (if pin then [] else
    (if axes.all (fun a => idxKind inDir a != 1 || (decide (0 ≤ rel a) && decide (rel a ≤ b.cs.get a))) then [] else ["start_lower"]) ++
    (if axes.all (fun a => idxKind inDir a != 2 || (decide (top b a - b.cs.get a ≤ rel a) && decide (rel a ≤ top b a))) then [] else ["start_upper"]))

def showL (l : List String) : String := if l.isEmpty then "ok" else ",".intercalate l

def stepQ (s : DSt Rat) : List String → DSt Rat × String
  | "blk" :: rest =>
    match rest.map nat! with
    | [ax, ay, az, sx, sy, sz, nx, ny, nz] =>
      let b : Block Rat := mkBlock (v3 (qOfBits ax) (qOfBits ay) (qOfBits az))
        (v3 (qOfBits sx) (qOfBits sy) (qOfBits sz)) (v3 nx ny nz)
      ({ s with blk := b }, "blk")
    | _ => (s, "bad-op")
  | "cells" :: m :: mul :: add :: rest =>
    let pal := parsePalette qOfBits rest #[]
    if pal.size != nat! m then (s, "bad-op") else
    ({ s with pal := pal, mul := nat! mul, add := nat! add }, s!"cells {pal.size}")
  | "pkt" :: rest =>
    match parsePhoton qOfBits (rest.map nat!) with
    | some (ph, inDir) =>
      let cells := cellsOf qZeroCell s
      let r := interact s.blk cells ph inDir
      let tie := tiesQ s.blk cells ph inDir (initSt s.blk ph inDir)
      let bad := exactChecks s.blk cells ph (initSt s.blk ph inDir) r
      let prem := premisesQ s.blk s.pal ph inDir true
      let vs := String.join (r.visits.map fun v => s!" v {v.cell} {showF (ratToFloat v.path)}")
      let pos := s!"{showF (ratToFloat r.pos.x)} {showF (ratToFloat r.pos.y)} {showF (ratToFloat r.pos.z)}"
      (s, s!"pkt out={r.outDir} fin={if r.finished then 1 else 0} pos={pos} tau={showF (ratToFloat r.tauLeft)} nv={r.visits.length}{vs} tie={if tie then 1 else 0} hyp={showL prem} exact={showL bad}")
    | none => (s, "bad-op")
  | "prp" :: rest =>
    match parsePhoton qOfBits (rest.map nat!) with
    | some (ph, inDir) =>
      let cells := cellsOf qZeroCell s
      let s0 := initStNoPin s.blk ph inDir
      let r := propagate s.blk cells ph inDir
      let tie := tiesQ s.blk cells ph inDir s0
      let bad := exactChecks s.blk cells ph s0 r
      let prem := premisesQ s.blk s.pal ph inDir false
      let pos := s!"{showF (ratToFloat r.pos.x)} {showF (ratToFloat r.pos.y)} {showF (ratToFloat r.pos.z)}"
      (s, s!"prp out={r.outDir} fin={if r.finished then 1 else 0} pos={pos} tau={showF (ratToFloat r.tauLeft)} tie={if tie then 1 else 0} hyp={showL prem} exact={showL bad}")
    | none => (s, "bad-op")
  | "cod" :: rest =>
    match parsePhoton qOfBits (rest.map nat!) with
    | some (ph, inDir) =>
      let cells := cellsOf qZeroCell s
      let s0 := initStNoPin s.blk ph inDir
      let r := computeOpticalDepth s.blk cells ph inDir
      -- ties of the free march: those of a march whose target is never reached
      let tie := tiesQ s.blk cells { ph with tau := r.tau + 1 } inDir s0
      let bad := exactChecksCod s.blk cells ph s0 r
      let prem := premisesQ s.blk s.pal ph inDir false
      let pos := s!"{showF (ratToFloat r.pos.x)} {showF (ratToFloat r.pos.y)} {showF (ratToFloat r.pos.z)}"
      (s, s!"cod out={r.outDir} fin={if r.finished then 1 else 0} pos={pos} tau={showF (ratToFloat r.tau)} tie={if tie then 1 else 0} hyp={showL prem} exact={showL bad}")
    | none => (s, "bad-op")
  | _ => (s, "bad-op")

def main (args : List String) : IO Unit :=
  if args.contains "rat" then
    runDriver stepQ ({ blk := mkBlock (v3 0 0 0) (v3 1 1 1) (v3 1 1 1), pal := #[], mul := 0, add := 0,
                       ctr := fun _ => ⟨0, 0, 0, 0, 0⟩ } : DSt Rat)
  else
    runDriver stepF ({ blk := mkBlock (v3 0.0 0.0 0.0) (v3 1.0 1.0 1.0) (v3 1 1 1), pal := #[], mul := 0, add := 0,
                       ctr := zeroCtrF } : DSt Float)
