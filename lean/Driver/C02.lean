-- stub: driver for C02 not written yet
def main : IO Unit := pure ()
