-- stub: driver for C08 not written yet
def main : IO Unit := pure ()
