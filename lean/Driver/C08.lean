import CMacVerif.Model.Atomics
import CMacVerif.Model.AtomicsMaint
import CMacVerif.Util.Bits
/-!
Line-protocol driver for C08 (core Lean only).  One op line = one scenario:

  `S <size> <cap> <nlocks> <nqueues> <nctr> T <d0> <d1> <d0> <d1> … | <calls of thread 0> | … | X <schedule digits>`
  `S …                                      T …                    | …                    | F <seed>`

`-` is a null dependency.  Calls: `g gs f:j fb:j ap:j:n l:k tl:k u:j lt:t ut:j a:q:t p:q tp:q qs:q
i:c d:c pi:c pa:c:v oa:c:v ps:c:v ld:c lf:c:v`.

`X`: the schedule names the thread that performs the next atomic operation (a finished thread is
skipped); after the schedule the threads are completed round-robin (bounded).  Output: the
results in schedule order, then the final shared state.
`F`: the implementation runs the threads freely; only schedule-independent facts are printed
(the model runs round-robin; `counter_linear` says the result does not depend on the schedule).
-/
open CMacVerif CMacVerif.Util CMacVerif.Atomics

def int! (s : String) : Int :=
  if s.startsWith "-" then - ((s.drop 1).toNat?.getD 0 : Nat) else (s.toNat?.getD 0 : Nat)

def optNat (s : String) : Option Nat := if s = "-" then none else s.toNat?

def parseCmd (w : String) : Option Cmd :=
  match w.splitOn ":" with
  | ["g"] => some .get
  | ["gs"] => some .getSafe
  | ["f", j] => some (.free (nat! j))
  | ["fb", j] => some (.freeBuf (nat! j))
  | ["ap", j, n] => some (.addPhotons (nat! j) (nat! n))
  | ["l", k] => some (.lock (nat! k))
  | ["tl", k] => some (.tryLock (nat! k))
  | ["u", j] => some (.unlock (nat! j))
  | ["lt", t] => some (.lockTask (nat! t))
  | ["ut", j] => some (.unlockTask (nat! j))
  | ["a", q, t] => some (.addTask (nat! q) (nat! t))
  | ["p", q] => some (.getTask (nat! q))
  | ["tp", q] => some (.tryGetTask (nat! q))
  | ["qs", q] => some (.qsize (nat! q))
  | ["i", c] => some (.inc (nat! c))
  | ["d", c] => some (.dec (nat! c))
  | ["pi", c] => some (.postInc (nat! c))
  | ["pa", c, v] => some (.preAdd (nat! c) (int! v))
  | ["oa", c, v] => some (.postAdd (nat! c) (int! v))
  | ["ps", c, v] => some (.preSub (nat! c) (int! v))
  | ["ld", c] => some (.load (nat! c))
  | ["aw", c, v] => some (.await (nat! c) (int! v))
  | ["lf", c, v] => some (.lfAdd (nat! c + 100) (int! v))
  | ["su", t, v] => some (.setUnf (nat! t) (int! v))
  | ["sd", q, t] => some (.seed (nat! q) (nat! t))
  | ["rl"] => some .release
  | ["ln"] => some .loadNum
  | ["mx", c, v] => some (.maxC (nat! c) (int! v))
  | ["ml", c] => some (.loadMx (nat! c))
  | ["na"] => some .numActive
  | ["cl"] => some (.maintMark 0 0)
  | ["cf"] => some (.maintMark 1 0)
  | ["ca", k] => some (.maintMark 2 (nat! k))
  | ["gfe", n] => some (.maintMark 3 (nat! n))
  | _ => none

def showRes : Res → String
  | .slot i => s!"s{i}"
  | .freed i => s!"f{i}"
  | .photons o => s!"ph{o}"
  | .locked k ok => s!"L{k}{if ok then "+" else "-"}"
  | .unlocked k => s!"U{k}"
  | .taskLocked t ok => s!"TL{t}{if ok then "+" else "-"}"
  | .taskUnlocked t => s!"TU{t}"
  | .added q t => s!"A{q}.{t}"
  | .popped q (some t) => s!"P{q}.{t}"
  | .popped q none => s!"P{q}.N"
  | .qsize q n => s!"Q{q}.{n}"
  | .val c v => s!"V{c}.{v}"
  | .seeded q t => s!"SD{q}.{t}"
  | .released p n => s!"R{p}.{n}"
  | .num v => s!"N{v}"
  | .maxed c => s!"MX{c}"
  | .mxval c v => s!"W{c}.{v}"
  | .active v => s!"NA{v}"
  | .maint 0 _ => "CL"
  | .maint 1 _ => "CF"
  | .maint 2 k => s!"CA{k}"
  | .maint _ n => s!"GFE{n}"
  | .skip => "K"

def pcName : PC → String
  | .idle => "idle" | .getCheck _ => "getCheck" | .getInc _ => "getInc" | .getCas _ _ => "getCas"
  | .getCount _ _ => "getCount" | .getMax _ _ _ => "getMax" | .getMaxCas _ _ _ _ => "getMaxCas"
  | .cMax _ _ => "cMax" | .cMaxCas _ _ _ => "cMaxCas" | .cLoadMx _ => "cLoadMx" | .loadTaken => "loadTaken" | .getTotal _ _ => "getTotal"
  | .apFill _ _ => "apFill" | .apPlace _ _ => "apPlace" | .crashed _ => "crashed"
  | .freeReset _ => "freeReset" | .freeYield _ => "freeYield" | .freeUnlock _ => "freeUnlock" | .freeDec _ => "freeDec"
  | .lockSpin _ => "lockSpin" | .lockTry _ => "lockTry" | .unlockL _ => "unlockL"
  | .tlStart _ _ => "tlStart" | .tl0 _ _ => "tl0" | .tl1 _ _ => "tl1" | .tlBack _ _ => "tlBack"
  | .tuStart _ => "tuStart" | .tu1 _ => "tu1" | .tu0 _ => "tu0" | .addLock _ _ _ => "addLock" | .addBody _ _ _ => "addBody"
  | .addUnlock _ _ .plain => "addUnlock" | .addUnlock _ _ _ => "addUnlockK"
  | .numInc _ _ _ => "numInc" | .relDec _ _ _ => "relDec" | .retire _ => "retire" | .setUnf _ _ => "setUnf" | .loadNum => "loadNum" | .popLock _ b => if b then "popLock" else "tryPopLock"
  | .popInit _ => "popInit" | .popScan _ _ => "popScan" | .popRemove _ _ _ => "popRemove"
  | .popUnlock _ r => if r.isSome then "popUnlockT" else "popUnlockN" | .qsz _ => "qsz"
  | .cInc _ => "cInc" | .cDec _ => "cDec" | .cPostInc _ => "cPostInc" | .cPreAdd _ _ => "cPreAdd"
  | .cPostAdd _ _ => "cPostAdd" | .cPreSub _ _ => "cPreSub" | .cLoad _ => "cLoad" | .cAwait _ _ => "cAwait"
  | .lfLoad _ _ => "lfLoad" | .lfCas _ _ _ => "lfCas"

structure Scen where
  cfg : Cfg
  nlocks : Nat
  nqueues : Nat
  nctr : Nat
  ntasks : Nat
  progs : List (List Cmd)
  mode : String
  sched : List Nat

/-- one task = two tokens `x y`: `set_dependency(x); set_extra_dependency(y)` (a `-` = call not made);
a leading `r` on the first token = the two calls in the other order -/
def setOps (a b : String) : List SetOp :=
  let rev := a.startsWith "r"
  let a' := if rev then (a.drop 1).toString else a
  let d := match optNat a' with | some x => [SetOp.dep x] | none => []
  let e := match optNat b with | some y => [SetOp.extra y] | none => []
  if rev then e ++ d else d ++ e

def pairs : List String → List (Option Nat × Option Nat)
  | a :: b :: rest => setupDeps (setOps a b) :: pairs rest
  | _ => []

/-- hydro section: one token `children:queue` per task, children comma separated or `-` -/
def parseHydro (ws : List String) : List (List Nat × Nat) :=
  ws.map fun w => match w.splitOn ":" with
    | [cs, q] => ((if cs = "-" then [] else (cs.splitOn ",").map nat!), nat! q)
    | _ => ([], 0)

def splitBar (ws : List String) : List (List String) :=
  let (cur, acc) := ws.foldl (fun (p : List String × List (List String)) w =>
    if w = "|" then ([], p.1.reverse :: p.2) else (w :: p.1, p.2)) ([], [])
  (cur.reverse :: acc).reverse

def parseScen (ws : List String) : Option Scen :=
  match splitBar ws with
  | [] => none
  | hd :: rest =>
    match hd with
    | "S" :: size :: cap :: nl :: nq :: nc :: "T" :: deps0 =>
      match rest.reverse with
      | [m, arg] :: progsRev =>
        let deps := deps0.takeWhile (· ≠ "H")
        let hydro := parseHydro ((deps0.dropWhile (· ≠ "H")).drop 1)
        let table := pairs deps
        let progs := progsRev.reverse.map (fun p => p.filterMap parseCmd)
        let bad := progsRev.any (fun p => p.any (fun w => (parseCmd w).isNone))
        if bad then none else
        some { cfg := { size := nat! size, cap := nat! cap, deps := fun t => table.getD t (none, none),
                        children := fun t => (hydro.getD t ([], 0)).1, queueOf := fun t => (hydro.getD t ([], 0)).2,
                        nq := nat! nq },
               nlocks := nat! nl, nqueues := nat! nq, nctr := nat! nc, ntasks := table.length, progs := progs, mode := m,
               sched := if m.startsWith "X" then arg.toList.map (fun c => c.toNat - '0'.toNat) else [] }
      | _ => none
    | _ => none

/-- the real thread runs on without a yield: plain code, and — as long as AtomicValue::max has
no yield inside its loop (hook H1 fires once at its entry) — the compare-exchange of `max` right
after its load -/
def runsOn (inner ms : Bool) (th : Thread) : Bool :=
  match th.pc with
  | .getMaxCas _ _ _ _ => !inner
  | .cMaxCas _ _ _ => !inner
  | .freeYield _ => !ms        -- with the MemorySpace hook the thread parks between wipe and release
  | _ => th.silent

def maintOf (tid code arg : Nat) : Maint :=
  match code with
  | 0 => .clear
  | 1 => .clearFast
  | 2 => .clearAfter arg
  | _ => .getFreeElements tid arg

/-- the maintenance calls are applied by the environment (`maint`), at the place the program of
the calling thread marks; the premise (every thread idle) is not enforced here: both sides do the
same thing, the theorems only speak about the quiescent case -/
def applyMark (cfg : Cfg) (s : State) (tid code arg : Nat) (rest : List Cmd) : State :=
  let s1 := maint cfg s (maintOf tid code arg)
  match s1.threads[tid]? with
  | some th => { s1 with threads := s1.threads.set tid { th with prog := rest, res := .maint code arg :: th.res } }
  | none => s1

def settleD (cfg : Cfg) (inner ms : Bool) : Nat → State → Nat → State
  | 0, s, _ => s
  | fuel + 1, s, tid =>
    match s.threads[tid]? with
    | some th =>
      match th.pc, th.prog with
      | .idle, .maintMark code arg :: rest => settleD cfg inner ms fuel (applyMark cfg s tid code arg rest) tid
      | _, _ => if runsOn inner ms th then settleD cfg inner ms fuel (step cfg s tid) tid else s
    | none => s

def allFinished (s : State) : Bool := s.threads.all Thread.finished

/-- one schedule entry; returns the new state, the results it produced (oldest first) and the
transition tags -/
def entry (cfg : Cfg) (inner ms : Bool) (s : State) (tid : Nat) : State × List String × List String :=
  match s.threads[tid]? with
  | none => (s, [], [])
  | some th =>
    if th.finished then (s, [], ["skip-finished"]) else
    -- the atomic operation
    let s1 := step cfg s tid
    let pc1 := (s1.threads[tid]?.map (·.pc)).getD .idle
    let tag := s!"{pcName th.pc}>{pcName pc1}"
    let s2 := settleD cfg inner ms 100000 s1 tid
    let n0 := th.res.length
    let th2 := (s2.threads[tid]?).getD th
    let newRes := (th2.res.take (th2.res.length - n0)).reverse
    let tag2 := if pcName pc1 != pcName th2.pc then [s!"{pcName pc1}>>{pcName th2.pc}"] else []
    (s2, newRes.map (fun r => s!"{tid}:{showRes r}"), tag :: tag2)

def settleAll (cfg : Cfg) (inner ms : Bool) (s : State) : State × List String :=
  (List.range s.threads.length).foldl (fun (p : State × List String) tid =>
    let th0 := (p.1.threads[tid]?).getD {}
    let s' := settleD cfg inner ms 100000 p.1 tid
    let th1 := (s'.threads[tid]?).getD {}
    let newRes := (th1.res.take (th1.res.length - th0.res.length)).reverse
    (s', p.2 ++ newRes.map (fun r => s!"{tid}:{showRes r}"))) (s, [])

def bits (f : Nat → Bool) (n : Nat) : String :=
  String.ofList ((List.range n).map fun i => if f i then '1' else '0')

def commaNat (l : List Nat) : String := ",".intercalate (l.map toString)
def commaInt (l : List Int) : String := ",".intercalate (l.map toString)

def finalDump (sc : Scen) (s : State) : String :=
  let m := s.mem
  let qs := " ".intercalate ((List.range sc.nqueues).map fun q => s!"q{q}={commaNat (m.items q)}")
  s!"taken={m.taken} cur={m.cur} max={m.maxTaken} tot={m.totalTaken} flags={bits m.flags sc.cfg.size} " ++
  s!"cnt={commaNat ((List.range sc.cfg.size).map m.count)} locks={bits (fun k => m.locks (.dep k)) sc.nlocks} " ++
  s!"ql={bits (fun q => m.locks (.queue q)) sc.nqueues} {qs} ctr={commaInt ((List.range sc.nctr).map m.ctr)} " ++
  s!"num={m.num} unf={commaInt ((List.range sc.ntasks).map m.unf)} mx={commaInt ((List.range sc.nctr).map m.mx)}"

def insertSorted (x : Nat) : List Nat → List Nat
  | [] => [x]
  | y :: l => if x ≤ y then x :: y :: l else y :: insertSorted x l
def sortNat (l : List Nat) : List Nat := l.foldr insertSorted []

def addTags (acc : List String) (ts : List String) : List String :=
  ts.foldl (fun a t => if a.contains t then a else t :: a) acc

def runScen (sc : Scen) : String :=
  let cfg := sc.cfg
  let n := sc.progs.length
  let isX := sc.mode.startsWith "X"
  let inner := isX && sc.mode.contains 'I'
  let ms := isX && sc.mode.contains 'M'
  let (s0, r0) := settleAll cfg inner ms (init sc.progs)
  let nextra := if isX then 600 else 2000000
  let sched := if isX then sc.sched else []
  -- results are accumulated newest first
  let (s1, out, tags) := sched.foldl (fun (p : State × List String × List String) tid =>
    let (s', r, t) := entry cfg inner ms p.1 tid
    (s', r.reverse ++ p.2.1, addTags p.2.2 t)) (s0, r0.reverse, [])
  let rec loop (fuel e : Nat) (p : State × List String × List String) : State × List String × List String :=
    match fuel with
    | 0 => p
    | fuel + 1 =>
      if n = 0 || allFinished p.1 then p else
      let (s', r, t) := entry cfg inner ms p.1 (e % n)
      loop fuel (e + 1) (s', r.reverse ++ p.2.1, addTags p.2.2 t)
  let (s2, outR, tagsR) := loop nextra 0 (s1, out, tags)
  let out2 := outR.reverse
  let tags2 := tagsR.reverse
  let stuck := (List.range n).filter fun tid => !((s2.threads[tid]?.map Thread.finished).getD true)
  let crashed := (List.range n).filter fun tid =>
    match s2.threads[tid]?.map (·.pc) with | some (.crashed _) => true | _ => false
  let tagStr := ",".intercalate (tags2.filter (· ≠ "skip-finished"))
  if isX then
    let st := (if stuck.isEmpty then "" else " STUCK " ++ commaNat stuck) ++
              (if crashed.isEmpty then "" else " NOBUF " ++ commaNat crashed)
    s!"{" ".intercalate out2} | {finalDump sc s2}{st} #{tagStr}"
  else if sc.mode = "G" then s!"free-ok #{tagStr}"
  else
    let m := s2.mem
    let qs := " ".intercalate ((List.range sc.nqueues).map fun q => s!"q{q}={commaNat (sortNat (m.items q))}")
    s!"free taken={m.taken} nflags={((List.range cfg.size).filter m.flags).length} {qs} " ++
    s!"ctr={commaInt ((List.range sc.nctr).map m.ctr)} lf={commaInt ((List.range sc.nctr).map fun c => m.ctr (c + 100))} " ++
    s!"mx={commaInt ((List.range sc.nctr).map m.mx)}" ++
    (if stuck.isEmpty then "" else " STUCK") ++ s!" #{tagStr}"

def stepLine (_ : Unit) (ws : List String) : Unit × String :=
  -- oracle-only lines (real concurrency, results depend on the schedule): nothing to simulate
  if ws.contains "G" && (ws.dropLast.getLast? == some "G") then ((), "free-ok") else
  match parseScen ws with
  | some sc => ((), runScen sc)
  | none => ((), "bad-op")

def main : IO Unit := runDriver stepLine ()
