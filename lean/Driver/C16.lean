import CMacVerif.Model.Morton
import CMacVerif.Model.Shells
import CMacVerif.Model.AMRTree
import CMacVerif.Model.Cartesian
import CMacVerif.Model.Buckets
import CMacVerif.Model.AMRTraverse
import CMacVerif.Model.Octree
import CMacVerif.Inst.Float
import CMacVerif.Util.Bits
open CMacVerif CMacVerif.Util

/-! Line-protocol driver of C16 (see `tools/props/c16.py` for the op grammar). -/

def int! (s : String) : Int := s.toInt?.getD 0
def flt! (s : String) : Float := fOfBits (nat! s)

/-- order-sensitive checksum of a visit sequence -/
def mixOff (acc : Nat) (i : Nat) (rx ry rz : Int) : Nat :=
  let code := (((rx + 100000).toNat * 200003 + (ry + 100000).toNat) * 200003 + (rz + 100000).toNat)
  (acc + (code % 1000000007) * (i + 1)) % 1000000007

namespace Sh
open CMacVerif.Shells

/-- walk the traversal from the anchor block to the end of level `L` -/
partial def shellWalk (L : Int) (s : Idx) (i cnt chk : Nat) : Nat × Nat × Nat :=
  if s.level > L then (cnt, chk, i)
  else
    let (cnt', chk') := if s.level = L then (cnt + 1, mixOff chk cnt s.rx s.ry s.rz) else (cnt, chk)
    shellWalk L (increaseIndices s) (i + 1) cnt' chk'

/-- all blocks of a cubic grid in the order of `increase_range` -/
partial def rangeWalk (ax ay az s : Int) (mx : Idx) (fuel : Nat) (cur : Idx) (i chk lvlUps : Nat) : String :=
  match increaseRange ax ay az s s s mx fuel cur with
  | .atEnd => s!"range {i + 1} {chk} {cur.rx} {cur.ry} {cur.rz} {cur.level} {lvlUps}"
  | .fuelOut => "range fuel-out"
  | .next n =>
    rangeWalk ax ay az s mx fuel n (i + 1) (mixOff chk (i + 1) n.rx n.ry n.rz)
      (if n.level > cur.level then lvlUps + 1 else lvlUps)

def branchOfMax (ax ay az sx sy sz : Int) : String :=
  let m := setMaxRange ax ay az sx sy sz
  if m.rz = -az ∧ -az ≠ sz - az - 1 then "mz-min"
  else if m.ry = -ay ∧ -ay ≠ sy - ay - 1 then "my-min"
  else if m.rx = -ax ∧ -ax ≠ sx - ax - 1 then "mx-min" else "all-max"

def incBranch (s : Idx) : String :=
  if s.rz = s.level then (if s.ry = s.level then (if s.rx = s.level then "next-level" else "rx+1") else "ry+1")
  else if iabs s.rx < s.level ∧ iabs s.ry < s.level then "jump-rz" else "rz+1"
end Sh

namespace Am
open CMacVerif.AMR CMacVerif.GridNum

def showBox (b : Box3 Float) : String :=
  s!"{showF b.ax} {showF b.ay} {showF b.az} {showF b.sx} {showF b.sy} {showF b.sz}"

/-- `key = first; while (key != max) { ...; key = next(key) }` with count and checksum -/
partial def enumWalk (g : Grid) (key : Nat) (cnt chk : Nat) : Nat × Nat :=
  if key = maxKey64 then (cnt, chk)
  else enumWalk g (gridNextKey g key) (cnt + 1) ((chk * 31 + key % 1000000007) % 1000000007)

/-- block index before the clamp (only for the branch tags) -/
def rawBlock (n : Nat) (p a s : Float) : Nat := Trunc.toNat (Float.ofNat n * (p - a) / s)

/-- does some child index of the descent get clamped? (only for the branch tags) -/
def childClampActive : Tree → V3 Float → Box3 Float → Bool
  | .leaf, _, _ => false
  | .node c, p, box =>
    let raw := fun (q a s : Float) => Trunc.toNat (2.0 * (q - a) / s)
    if raw p.x box.ax box.sx ≥ 2 ∨ raw p.y box.ay box.sy ≥ 2 ∨ raw p.z box.az box.sz ≥ 2 then true
    else
      let ix := childIndex p.x box.ax box.sx
      let iy := childIndex p.y box.ay box.sy
      let iz := childIndex p.z box.az box.sz
      childClampActive (c ⟨(4 * ix + 2 * iy + iz) % 8, Nat.mod_lt _ (by decide)⟩) p (childBox box ix iy iz)

def gridLeaves (g : Grid) : Nat :=
  (List.range g.nx).foldl (fun a ix => (List.range g.ny).foldl (fun a iy =>
    (List.range g.nz).foldl (fun a iz => a + numLeaves (g.block ix iy iz)) a) a) 0
end Am

namespace Ca
open CMacVerif.Cartesian CMacVerif.GridNum

def dblMax : Float := fOfBits 0x7FEFFFFFFFFFFFFF

def showV (v : V3 Float) : String := s!"{showF v.x} {showF v.y} {showF v.z}"
def showB (b : Box3 Float) : String :=
  s!"{showF b.ax} {showF b.ay} {showF b.az} {showF b.sx} {showF b.sy} {showF b.sz}"

def tableAt (t : Array Float) (c : Int) (shift : Nat) : Float :=
  if t.size = 0 then 0.0 else t[(c.toNat + shift) % t.size]!

/-- per-cell mean intensity `J[c] += ds * weight * sigma_H` in visit order (only cells with a
positive density are updated, `update_integrals`) -/
def accumulate (m : Medium Float) (path : List (Int × Float)) : List (Int × Float) :=
  path.reverse.foldl (fun acc (c, ds) =>
    if m.dens c > 0.0 then
      let dj := ds * 1.0 * m.sigH
      match acc.find? (fun e => e.1 == c) with
      | some _ => acc.map (fun e => if e.1 == c then (e.1, e.2 + dj) else e)
      | none => acc ++ [(c, dj)]
    else acc) []

def insertSorted (e : Int × Float) : List (Int × Float) → List (Int × Float)
  | [] => [e]
  | h :: r => if e.1 < h.1 then e :: h :: r else h :: insertSorted e r

def sortByCell (l : List (Int × Float)) : List (Int × Float) := l.foldl (fun acc e => insertSorted e acc) []
end Ca

namespace Pl
open CMacVerif.Buckets CMacVerif.GridNum

instance : Inhabited (V3 Float) := ⟨⟨0.0, 0.0, 0.0⟩⟩

/-- triples of consecutive tokens as points -/
def points : List String → List (V3 Float)
  | x :: y :: z :: r => ⟨flt! x, flt! y, flt! z⟩ :: points r
  | _ => []

structure Built where
  g : BGrid Float
  npts : Nat
  chk : Nat
  bad : Bool

/-- the constructor: `Buckets.build` of the model (position `i` goes to the bucket with its three
truncated indices, in index order); the bucket indices are computed once per position and the
model's bucket function is tabulated once per grid (memoisation only) -/
def build (n : Int) (a s : V3 Float) (pts : Array (V3 Float)) : Built :=
  let nn := n.toNat
  let ids : Array (Int × Int × Int) := pts.map (fun p => pointBucket n a s p)
  let g0 : BGrid Float := Buckets.build n a s (fun i => pts[i]!) pts.size
  let gm : BGrid Float := { g0 with bucket := bucketsFrom (fun i => ids[i]!) pts.size }
  let tbl : Array (List Nat) := Array.ofFn (n := nn * nn * nn) (fun k =>
    gm.bucket (Int.ofNat (k.val / (nn * nn))) (Int.ofNat ((k.val / nn) % nn)) (Int.ofNat (k.val % nn)))
  let (chk, bad) := ids.foldl (fun (acc : Nat × Bool) (id : Int × Int × Int) =>
    let (ix, iy, iz) := id
    let chk := (acc.1 * 31 + ((ix.toNat * 1000 + iy.toNat) * 1000 + iz.toNat)) % 1000000007
    (chk, acc.2 || decide (ix < 0 ∨ ix ≥ n ∨ iy < 0 ∨ iy ≥ n ∨ iz < 0 ∨ iz ≥ n))) (0, false)
  let bucket : Int → Int → Int → List Nat := fun ix iy iz =>
    if ix < 0 ∨ ix ≥ n ∨ iy < 0 ∨ iy ≥ n ∨ iz < 0 ∨ iz ≥ n then []
    else tbl[((ix.toNat * nn) + iy.toNat) * nn + iz.toNat]!
  { g := { g0 with bucket := bucket }, npts := pts.size, chk := chk, bad := bad }
end Pl

namespace Ad
open CMacVerif.AMRT CMacVerif.AMR CMacVerif.GridNum

def tabAt (t : Array Float) (k : Nat) : Float := if t.size = 0 then 0.0 else t[(k % 1000003) % t.size]!

/-- split a token list at the separator "|" -/
def splitBar (l : List String) : List String × List String :=
  (l.takeWhile (· != "|"), (l.dropWhile (· != "|")).drop 1)

def accumulate (sig : Float) (path : List (Ref × Float)) : List (Nat × Float) :=
  path.reverse.foldl (fun acc (r, ds) =>
    let k := keyOf r
    let dj := ds * 1.0 * sig
    match acc.find? (fun e => e.1 == k) with
    | some _ => acc.map (fun e => if e.1 == k then (e.1, e.2 + dj) else e)
    | none => acc ++ [(k, dj)]) []

def insertSorted (e : Nat × Float) : List (Nat × Float) → List (Nat × Float)
  | [] => [e]
  | h :: r => if e.1 < h.1 then e :: h :: r else h :: insertSorted e r
def sortByKey (l : List (Nat × Float)) : List (Nat × Float) := l.foldl (fun acc e => insertSorted e acc) []
end Ad

namespace Oc
open CMacVerif.Oct CMacVerif.GridNum

structure Built where
  tree : OT Float := .empty
  pos : Array (V3 Float) := #[]
  hs : Array Float := #[]
  box : Box3 Float := ⟨0.0, 0.0, 0.0, 1.0, 1.0, 1.0⟩
  per : Bool := false

def quads : List String → List (V3 Float × Float)
  | x :: y :: z :: h :: r => (⟨flt! x, flt! y, flt! z⟩, flt! h) :: quads r
  | _ => []

/-- number of positions stored in the tree (the recursion fuel of `addPos` drops a position only
if two positions do not separate within 64 levels; checked on every `oct new`) -/
def countLeaves : OT Float → Nat
  | .empty => 0
  | .leaf _ => 1
  | .node _ _ kids => (List.finRange 8).foldl (fun acc i => acc + countLeaves (kids i)) 0

def pd (b : Built) (c : V3 Float) (i : Nat) : Float :=
  if b.per then perDist b.box (b.pos[i]!) c else dist (b.pos[i]!) c
def bd (b : Built) (c : V3 Float) (bx : Box3 Float) : Float :=
  if b.per then perBoxDist b.box bx c else boxDist bx c
end Oc

structure St where
  oc : Oc.Built := {}
  ad : AMRT.AGrid Float := ⟨⟨1, 1, 1, fun _ _ _ => .leaf⟩, ⟨0.0, 0.0, 0.0, 1.0, 1.0, 1.0⟩, false, false, false⟩
  adx : Array Float := #[]
  add : Array Float := #[]
  pl : Option Pl.Built := none
  cart : Cartesian.Grid Float := Cartesian.mkGrid ⟨0.0, 0.0, 0.0, 1.0, 1.0, 1.0⟩ ⟨1, 1, 1⟩ false false false
  xtab : Array Float := #[]
  dtab : Array Float := #[]
  amr : AMR.Grid := ⟨1, 1, 1, fun _ _ _ => .leaf⟩
  amrBox : GridNum.Box3 Float := ⟨0.0, 0.0, 0.0, 1.0, 1.0, 1.0⟩

def step (st : St) : List String → St × String
  | ["morton", ax, ay, az, sx, sy, sz, cx, cy, cz] =>
    let k := Morton.getKey (flt! cx) (flt! cy) (flt! cz) (flt! ax) (flt! ay) (flt! az) (flt! sx) (flt! sy) (flt! sz)
    (st, s!"morton {k}")
  | ["inc", rx, ry, rz, lv] =>
    let s : Shells.Idx := ⟨int! rx, int! ry, int! rz, int! lv⟩
    let n := Shells.increaseIndices s
    let o := s!"{n.rx} {n.ry} {n.rz} {n.level}"
    (st, s!"inc {o} | {o} #inc-{Sh.incBranch s}")
  | ["shell", l] =>
    let (cnt, chk, tot) := Sh.shellWalk (int! l) Shells.start 0 0 0
    (st, s!"shell {cnt} {chk} {tot}")
  | ["maxrange", ax, ay, az, sx, sy, sz] =>
    let m := Shells.setMaxRange (int! ax) (int! ay) (int! az) (int! sx) (int! sy) (int! sz)
    let o := s!"{m.rx} {m.ry} {m.rz} {m.level}"
    (st, s!"maxrange {o} | {o} #max-{Sh.branchOfMax (int! ax) (int! ay) (int! az) (int! sx) (int! sy) (int! sz)}")
  | ["range", ax, ay, az, s] =>
    let (ax, ay, az, s) := (int! ax, int! ay, int! az, int! s)
    let mx := Shells.setMaxRange ax ay az s s s
    let fuel := ((2 * mx.level + 3) ^ 3).toNat
    (st, Sh.rangeWalk ax ay az s mx fuel Shells.start 0 (mixOff 0 0 0 0 0) 0)
  | ["amr", "new", ax, ay, az, sx, sy, sz, nx, ny, nz, lv] =>
    let g := AMR.Grid.mk' (nat! nx) (nat! ny) (nat! nz) (nat! lv)
    ({ st with amr := g, amrBox := ⟨flt! ax, flt! ay, flt! az, flt! sx, flt! sy, flt! sz⟩ },
      s!"amr new {Am.gridLeaves g}")
  | ["amr", "refine", key] =>
    let (g, nk) := AMR.gridRefine st.amr (nat! key)
    ({ st with amr := g }, s!"amr refine {nk} {Am.gridLeaves g}")
  | ["amr", "enum"] =>
    let (cnt, chk) := Am.enumWalk st.amr (AMR.gridFirstKey st.amr) 0 0
    (st, s!"amr enum {cnt} {chk}")
  | ["amr", "next", key] => (st, s!"amr next {AMR.gridNextKey st.amr (nat! key)}")
  | ["amr", "loc", px, py, pz] =>
    let p : GridNum.V3 Float := ⟨flt! px, flt! py, flt! pz⟩
    let g := st.amr
    let b := st.amrBox
    let ix := AMR.blockIndex g.nx p.x b.ax b.sx
    let iy := AMR.blockIndex g.ny p.y b.ay b.sy
    let iz := AMR.blockIndex g.nz p.z b.az b.sz
    let (k, bx) := AMR.gridLocate g b p
    let clampB := Am.rawBlock g.nx p.x b.ax b.sx ≥ g.nx || Am.rawBlock g.ny p.y b.ay b.sy ≥ g.ny
      || Am.rawBlock g.nz p.z b.az b.sz ≥ g.nz
    let clampC := Am.childClampActive (g.block ix iy iz) p (AMR.blockBox g b ix iy iz)
    let extra := (if clampB then " #amr-block-index-clamped" else "") ++ (if clampC then " #amr-child-index-clamped" else "")
    (st, s!"amr loc {k} {Am.showBox bx} #amr-depth-{(AMR.decodeKey (AMR.cellOfKey k)).length}{extra}")
  | ["amr", "ngbs", _, _, _] => (st, "amr ngbs")
  | ["amr", "key", lv, px, py, pz] =>
    let p : GridNum.V3 Float := ⟨flt! px, flt! py, flt! pz⟩
    let g := st.amr
    let b := st.amrBox
    let ix := AMR.blockIndex g.nx p.x b.ax b.sx
    let iy := AMR.blockIndex g.ny p.y b.ay b.sy
    let iz := AMR.blockIndex g.nz p.z b.az b.sz
    let _ := (ix, iy, iz)
    (st, s!"amr key {AMR.gridKeyAtLevel g b (nat! lv) p}")
  | ["cart", "new", ax, ay, az, sx, sy, sz, nx, ny, nz, px, py, pz] =>
    let g := Cartesian.mkGrid (α := Float) ⟨flt! ax, flt! ay, flt! az, flt! sx, flt! sy, flt! sz⟩
      ⟨int! nx, int! ny, int! nz⟩ (px == "1") (py == "1") (pz == "1")
    ({ st with cart := g }, s!"cart new {g.n.x * g.n.y * g.n.z} {showF (Cartesian.cellVolume g)}")
  | "cart" :: "medium" :: kx :: rest =>
    let k := nat! kx
    let xs := (rest.take k).map flt!
    let ds := (rest.drop (k + 1)).map flt!
    ({ st with xtab := xs.toArray, dtab := ds.toArray }, "cart medium")
  | ["cart", "vol"] => (st, s!"cart vol {st.cart.n.x * st.cart.n.y * st.cart.n.z}")
  | ["cart", "loc", px, py, pz] =>
    let g := st.cart
    let i := Cartesian.cellIndices g ⟨flt! px, flt! py, flt! pz⟩
    let inr := decide (0 ≤ i.x ∧ i.x < g.n.x ∧ 0 ≤ i.y ∧ i.y < g.n.y ∧ 0 ≤ i.z ∧ i.z < g.n.z)
    let inrS := if inr then "in-range" else "out-of-range"
    let r := Cartesian.rawIndices g ⟨flt! px, flt! py, flt! pz⟩
    let cl := if r.x != i.x || r.y != i.y || r.z != i.z then " #cart-top-index-clamped" else ""
    (st, s!"cart loc {i.x} {i.y} {i.z} {Cartesian.longIndex g.n i} {Ca.showB (Cartesian.cellBox g i)} #cart-{inrS}{cl}")
  | ["cart", "ngb", l] =>
    let g := st.cart
    let i := Cartesian.indicesOf g.n (int! l)
    let ns := (Cartesian.neighbours g i).map (fun o => match o with | some v => toString v | none => "-1")
    let nb := ((Cartesian.neighbours g i).filter Option.isNone).length
    let nsS := " ".intercalate ns
    (st, s!"cart ngb {i.x} {i.y} {i.z} {nsS} #cart-ngb-boundary-{nb}")
  | ["cart", kind, px, py, pz, dx, dy, dz, tau, sh, she] =>
    if kind != "ray" && kind != "reray" then (st, "bad-op") else
    let g := st.cart
    let d : GridNum.V3 Float := ⟨flt! dx, flt! dy, flt! dz⟩
    -- `ray`: freshly constructed photon; `reray`: a photon that was constructed with another
    -- direction and redirected with `set_direction` (re-emission / scattering)
    let ph : Cartesian.PhotonDir Float :=
      if kind == "ray" then Cartesian.PhotonDir.new d
      else (Cartesian.PhotonDir.new (⟨d.z, d.x, d.y⟩ : GridNum.V3 Float)).setDirection d
    let sH := flt! sh
    let sHe := flt! she
    let m : Cartesian.Medium Float := ⟨sH, sHe, fun c => Ca.tableAt st.dtab c 0,
      fun c => Ca.tableAt st.xtab c 0, fun c => Ca.tableAt st.xtab c 1⟩
    let r := Cartesian.interactPhoton Ca.dblMax g m ⟨flt! px, flt! py, flt! pz⟩ ph (flt! tau) 200000
    if !r.finished then (st, "cart ray fuel-out") else
    let js := (Ca.sortByCell (Ca.accumulate m r.path)).filter (fun e => e.2 != 0.0)
    let total := js.foldl (fun a e => a + e.2) 0.0
    let shown := (js.take 10).map (fun e => s!"{e.1} {showF e.2}")
    let cellS := match r.cell with | some c => toString c | none => "-1"
    let wrapped := r.path.length > 0 && (r.cell.isSome || true)
    let tag := (if r.cell.isSome then "absorbed" else "escaped") ++
      (if r.ncell = 0 then "-nocell" else if r.ncell = 1 then "-1cell" else "-multi") ++
      (if g.px || g.py || g.pz then "-periodic" else "") ++ (if wrapped then "" else "")
    let shownS := " ".intercalate ([s!"cart ray {cellS} {Ca.showV r.pos} {js.length} {showF total}"] ++ shown)
    -- more branch tags: exact tie of the optical depth, crossing through an edge / corner, periodic wrap
    let cells := r.path.reverse.map (fun e => Cartesian.indicesOf g.n e.1)
    let diag := (cells.zip (cells.drop 1)).any (fun (a, b) =>
      (if a.x != b.x then 1 else 0) + (if a.y != b.y then 1 else 0) + (if a.z != b.z then 1 else 0) ≥ 2)
    let wrapd := (cells.zip (cells.drop 1)).any (fun (a, b) =>
      (a.x - b.x).natAbs > 1 || (a.y - b.y).natAbs > 1 || (a.z - b.z).natAbs > 1)
    let extra := (if r.od == 0.0 then " #cart-tau-exactly-zero" else "") ++ (if diag then " #cart-edge-or-corner-crossing" else "")
      ++ (if wrapd then " #cart-periodic-wrap" else "") ++ (if r.od < 0.0 then " #cart-corrected-last-step" else "")
      ++ (if kind == "reray" then " #cart-redirected-photon" else "")
    (st, s!"{shownS} #cart-{tag}{extra}")
  | "pl" :: "new" :: npc :: n :: ax :: ay :: az :: sx :: sy :: sz :: rest =>
    let _ := npc
    let b := Pl.build (int! n) ⟨flt! ax, flt! ay, flt! az⟩ ⟨flt! sx, flt! sy, flt! sz⟩ (Pl.points rest).toArray
    if b.bad then ({ st with pl := none }, s!"pl new bucket-out-of-range")
    else ({ st with pl := some b }, s!"pl new {b.npts} {b.g.n} {b.chk}")
  | ["pl", "near", qx, qy, qz] =>
    match st.pl with
    | none => (st, "pl near no-grid")
    | some b =>
      let q : GridNum.V3 Float := ⟨flt! qx, flt! qy, flt! qz⟩
      let g := b.g
      let ax := Buckets.anchorIndex q.x g.anchor.x g.cs.x
      let ay := Buckets.anchorIndex q.y g.anchor.y g.cs.y
      let az := Buckets.anchorIndex q.z g.anchor.z g.cs.z
      if ax < 0 ∨ ax ≥ g.n ∨ ay < 0 ∨ ay ≥ g.n ∨ az < 0 ∨ az ≥ g.n then (st, "pl near anchor-out-of-range #pl-out-of-range")
      else
      let mx := Shells.setMaxRange ax ay az g.n g.n g.n
      let fuelR := ((2 * mx.level + 3) ^ 3).toNat
      let (s, ex) := Buckets.closest g q fuelR (g.n * g.n * g.n + 5).toNat
      let exS := match ex with | .allBlocks => "all-blocks" | .covered => "covered" | .fuel => "FUEL"
      let lv := s.idx.level
      (st, s!"pl near {s.best.idx} {showF s.best.r2} #pl-{exS} #pl-level-{if lv > 3 then 4 else lv}")
  | "oct" :: "new" :: per :: ax :: ay :: az :: sx :: sy :: sz :: rest =>
    let qs := Oc.quads rest
    let pos := (qs.map (·.1)).toArray
    let hs := (qs.map (·.2)).toArray
    let box : GridNum.Box3 Float := ⟨flt! ax, flt! ay, flt! az, flt! sx, flt! sy, flt! sz⟩
    let tree := Oct.build (fun i => pos[i]!) pos.size box (fun i => hs[i]!)
    let stored := if Oc.countLeaves tree == pos.size then "#oct-all-stored" else "#oct-fuel-dropped-a-position"
    ({ st with oc := { tree := tree, pos := pos, hs := hs, box := box, per := per == "1" } }, s!"oct new {pos.size} {stored}")
  | ["oct", "ngbs", qx, qy, qz] =>
    let b := st.oc
    let c : GridNum.V3 Float := ⟨flt! qx, flt! qy, flt! qz⟩
    let r := Oct.searchRoot (Oc.pd b c) (Oc.bd b c) (fun i => b.hs[i]!) none b.tree
    let rs := " ".intercalate ([s!"oct ngbs {r.length}"] ++ r.map toString)
    (st, s!"{rs} #oct-found-{if r.length > 3 then 4 else r.length}")
  | ["oct", "sphere", qx, qy, qz, rad] =>
    let b := st.oc
    let c : GridNum.V3 Float := ⟨flt! qx, flt! qy, flt! qz⟩
    let r := Oct.searchRoot (Oc.pd b c) (Oc.bd b c) (fun i => b.hs[i]!) (some (flt! rad)) b.tree
    let rs := " ".intercalate ([s!"oct sphere {r.length}"] ++ r.map toString)
    (st, rs)
  | ["oct", "closest", qx, qy, qz] =>
    let b := st.oc
    let c : GridNum.V3 Float := ⟨flt! qx, flt! qy, flt! qz⟩
    (st, s!"oct closest {Oct.closestRoot (Oc.pd b c) (Oc.bd b c) Ca.dblMax b.tree}")
  | "amrd" :: "new" :: ax :: ay :: az :: sx :: sy :: sz :: nx :: ny :: nz :: lv :: px :: py :: pz :: rest =>
    let (xs, r1) := Ad.splitBar rest
    let (ds, keys) := Ad.splitBar r1
    let g0 := AMR.Grid.mk' (nat! nx) (nat! ny) (nat! nz) (nat! lv)
    let g := keys.foldl (fun g k => (AMR.gridRefine g (nat! k)).1) g0
    let G : AMRT.AGrid Float := ⟨g, ⟨flt! ax, flt! ay, flt! az, flt! sx, flt! sy, flt! sz⟩, px == "1", py == "1", pz == "1"⟩
    ({ st with ad := G, adx := (xs.map flt!).toArray, add := (ds.map flt!).toArray }, s!"amrd new {Am.gridLeaves g}")
  | ["amrd", "loc", px, py, pz] =>
    let r := AMRT.locate st.ad ⟨flt! px, flt! py, flt! pz⟩
    (st, s!"amrd loc {AMRT.keyOf r} #amrd-depth-{r.path.length}")
  | ["amrd", kind, px, py, pz, dx, dy, dz, tau, sh] =>
    -- `reray`: the photon was redirected with `set_direction` (the AMR traversal reads the direction only)
    if kind != "ray" && kind != "reray" then (st, "bad-op") else
    let G := st.ad
    let sH := flt! sh
    let m : AMRT.Medium Float := ⟨sH, fun k => Ad.tabAt st.add k, fun k => Ad.tabAt st.adx k⟩
    let r := AMRT.interact Ca.dblMax G m ⟨flt! px, flt! py, flt! pz⟩ ⟨flt! dx, flt! dy, flt! dz⟩ (flt! tau) 100000
    if !r.finished then (st, "amrd ray fuel-out") else
    let js := (Ad.sortByKey (Ad.accumulate sH r.path)).filter (fun e => e.2 != 0.0)
    let total := js.foldl (fun a e => a + e.2) 0.0
    let shown := (js.take 10).map (fun e => s!"{e.1} {showF e.2}")
    let cellS := match r.cell with | some c => toString (AMRT.keyOf c) | none => "-1"
    let line := " ".intercalate ([s!"amrd ray {cellS} {Ca.showV r.pos} {js.length} {showF total}"] ++ shown)
    let levels := (r.path.map (fun e => e.1.path.length))
    let lvchg := (levels.zip (levels.drop 1)).any (fun (a, b) => a != b)
    let blocks := r.path.map (fun e => (e.1.bx, e.1.by', e.1.bz))
    let wrapd := (blocks.zip (blocks.drop 1)).any (fun (a, b) =>
      (a.1 + 1 < b.1 || b.1 + 1 < a.1) || (a.2.1 + 1 < b.2.1 || b.2.1 + 1 < a.2.1) || (a.2.2 + 1 < b.2.2 || b.2.2 + 1 < a.2.2))
    let tag := (if r.cell.isSome then "absorbed" else "escaped") ++ (if r.path.length ≤ 1 then "-1cell" else "-multi")
    let extra := (if lvchg then " #amrd-level-change" else "") ++ (if wrapd then " #amrd-periodic-wrap" else "")
      ++ (if r.od < 0.0 then " #amrd-corrected-last-step" else "") ++ (if r.od == 0.0 then " #amrd-tau-exactly-zero" else "")
      ++ (if kind == "reray" then " #amrd-redirected-photon" else "")
    (st, s!"{line} #amrd-{tag}{extra}")
  -- VoronoiDensityGrid has no model (C15 not applicable): the implementation is judged by oracles only
  | "vor" :: _ => (st, "vor oracle-only")
  | _ => (st, "bad-op")

def main : IO Unit := runDriver step ({} : St)
