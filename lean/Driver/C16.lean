-- stub: driver for C16 not written yet
def main : IO Unit := pure ()
