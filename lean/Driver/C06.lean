import CMacVerif.Model.IonBalance
import CMacVerif.Inst.Float
import CMacVerif.Util.Bits
/-!
Line-protocol driver for C06: the `Float` instantiation of `Model/IonBalance.lean`.
Every double crosses the boundary as the decimal value of its bit pattern.  Ops (full form, as
written by `c06 --prep`):

* `h0 aH jH nH`
* `h0m aH jH nH aH' jH' nH'`
* `met T <47 values of MetalIn>`
* `hhe aH aHe jH jHe nH AHe T`  (`hhex`, `cellx`, `tempx`: same ops on inputs outside the stated domain)
* `cell jfac n T AHe mean[14] a[14] ct[19]`
* `temp <19 scalars> mean[14] heat[2] met0[12] aH8 aHe8 ntab (T aH aHe a[12] ct[19] L)*ntab`
  (the balance function is the MODEL's `balModel`; only the rates at `T` and the value `L` of
  `LineCoolingData::get_cooling` are tabulated)
* `bal T n j[14] hH hHe AHe AC AN AO ANe AS pah crfac crscale z aH aHe a[12] ct[19] L`
* `newcell` (the harness starts a new history on a fresh re-used cell; no model state)
* `abort …` (the implementation aborted while the line was prepared)
-/
open CMacVerif CMacVerif.Util CMacVerif.IonBalance

def fl (s : String) : Float := fOfBits (nat! s)

def nan : Float := 0.0 / 0.0

def getF (a : Array Float) (i : Nat) : Float := a.getD i nan

def metalInOf (a : Array Float) (o : Nat) : MetalIn Float :=
  let g := fun i => getF a (o + i)
  { jCp1 := g 0, jCp2 := g 1, jNn := g 2, jNp1 := g 3, jNp2 := g 4, jOn := g 5, jOp1 := g 6,
    jNen := g 7, jNep1 := g 8, jSp1 := g 9, jSp2 := g 10, jSp3 := g 11,
    ne := g 12, nh0 := g 13, nhe0 := g 14, nhp := g 15,
    aCp1 := g 16, aCp2 := g 17, aNn := g 18, aNp1 := g 19, aNp2 := g 20, aOn := g 21,
    aOp1 := g 22, aNen := g 23, aNep1 := g 24, aSp1 := g 25, aSp2 := g 26, aSp3 := g 27,
    rCp2H := g 28, rCp2He := g 29, iNnH := g 30, rNnH := g 31, rNp1H := g 32, rNp1He := g 33,
    rNp2H := g 34, rNp2He := g 35, iOnH := g 36, rOnH := g 37, rOp1H := g 38, rOp1He := g 39,
    rNep1H := g 40, rNep1He := g 41, rSp1H := g 42, rSp2H := g 43, rSp2He := g 44,
    rSp3H := g 45, rSp3He := g 46 }

def metList (m : MetalOut Float) : List Float :=
  [m.c.f1, m.c.f2, m.n.f1, m.n.f2, m.n.f3, m.o.f1, m.o.f2, m.ne.f1, m.ne.f2, m.s.f1, m.s.f2, m.s.f3]

def showL (l : List Float) : String := " ".intercalate (l.map showF)

def zeros12 : List Float := List.replicate 12 0.0

instance : HasCbrt Float := ⟨Float.cbrt⟩

def withJ (m : MetalIn Float) (j : Nat → Float) : MetalIn Float :=
  { m with jCp1 := j 0, jCp2 := j 1, jNn := j 2, jNp1 := j 3, jNp2 := j 4, jOn := j 5, jOp1 := j 6,
           jNen := j 7, jNep1 := j 8, jSp1 := j 9, jSp2 := j 10, jSp3 := j 11,
           ne := 0.0, nh0 := 0.0, nhe0 := 0.0, nhp := 0.0 }

def abundList (b : Abund Float) : List Float :=
  [b.cII, b.cIII, b.nI, b.nII, b.nIII, b.oI, b.oII, b.oIII, b.neII, b.neIII, b.sII, b.sIII, b.sIV]

/-- table of the temperature-dependent inputs: T bits ↦ index of the entry
`T aH aHe a[12] ct[19] L` (35 tokens) in the line -/
def parseRTab (raw : Array String) (o n : Nat) : Array (Nat × Nat) :=
  (Array.range n).map fun k => (nat! (raw.getD (o + 35 * k) "0"), o + 35 * k)

/-- the model's `compute_cooling_and_heating_balance` with rates and the line cooling value
looked up by the bit pattern of the temperature; a miss yields NaNs -/
def balFromTab (a : Array Float) (tab : Array (Nat × Nat)) (p : BalParams Float) (j : Nat → Float)
    (crfac T : Float) : Bal Float (List Float) :=
  match tab.find? (fun e => e.1 == bitsOf T) with
  | some (_, b) =>
    let r : BalRates Float := ⟨getF a (b + 1), getF a (b + 2), withJ (metalInOf a (b + 3 - 16)) j⟩
    let o := balModel { p with crfac := crfac } r (fun _ _ _ => getF a (b + 34)) T
    ⟨o.bal.h0, o.bal.he0, o.bal.gain, o.bal.loss, metList o.bal.met⟩
  | none => ⟨nan, nan, nan, nan, List.replicate 12 nan⟩

def clampTag (tmin : Float) (r : TempOut Float (List Float)) : String :=
  if r.tag != 2 then "special" else
  if r.niter == 0 then "noiter"
  else if r.T == 500.0 then "low"
  else if r.T == 30000.0 then "cap"
  else if r.T < tmin then "BELOW" else "mid"

/-- instrumentation only (not part of the model): which special branches of `expOf`/`newT` and
which clamps the iteration went through; re-walks the loop with the model's own `tempStep` -/
def walk (bal : Float → Bal Float (List Float)) (eps tmin : Float) :
    Nat → TState Float (List Float) → List String → List String
  | 0, _, f => f
  | n + 1, s, f =>
    if tempCond eps s then
      let b1 := bal (1.1 * s.T0); let b2 := bal (0.9 * s.T0); let b0 := bal s.T0
      let add := fun (f : List String) (c : Bool) (t : String) => if c && !f.contains t then t :: f else f
      let f := add f (b2.gain > 0.0 && !(b1.gain > 0.0)) "g-"
      let f := add f (!(b2.gain > 0.0) && b1.gain > 0.0) "g+"
      let f := add f (!(b2.gain > 0.0) && !(b1.gain > 0.0)) "g0"
      let f := add f (b2.loss > 0.0 && !(b1.loss > 0.0)) "l-"
      let f := add f (!(b2.loss > 0.0) && b1.loss > 0.0) "l+"
      let f := add f (!(b2.loss > 0.0) && !(b1.loss > 0.0)) "l0"
      let ed := expOf b1.gain b2.gain - expOf b1.loss b2.loss
      let f := add f (!(b0.gain > 0.0 && ed != 0.0)) "W"
      let tn := newT s.T0 (1.1 * s.T0) b0.gain b0.loss ed
      let f := add f (tn < tmin) "v"
      let f := add f (!(tn < tmin) && tn > 1.0e10) "^"
      walk bal eps tmin n (tempStep bal tmin s) f
    else f

def walkTag (f : List String) : String :=
  "".intercalate (["g-", "g+", "g0", "l-", "l+", "l0", "W", "v", "^"].filter f.contains)

/-- the kernel-level ops; `raw`/`a` = tokens of the line and their values -/
def answerCore (op : String) (raw : Array String) (a : Array Float) : Unit × String :=
  let g := getF a
  match op with
  | "h0" =>
    let r := h0HydrogenB (g 1) (g 2) (g 3)
    ((), s!"h0 {showF r.1} #h0-b{r.2}")
  | "h0m" =>
    let r1 := h0HydrogenB (g 1) (g 2) (g 3)
    let r2 := h0HydrogenB (g 4) (g 5) (g 6)
    ((), s!"h0m {showF r1.1} {showF r2.1} #h0m-b{r1.2}{r2.2}")
  | "met" =>
    let m := metalInOf a 2
    let dz := if m.ne == 0.0 then "ne0" else "ne+"
    ((), s!"met {showL (metList (metalFractions m))} #met-{dz}")
  | "hhe" =>
    let r := hHeSolve (g 1) (g 2) (g 3) (g 4) (g 5) (g 6) (g 7)
    let cn := if r.offDom then "-offdom" else ""
    let bucket := if r.niter == 0 then "0" else if r.niter ≤ 5 then "1to5" else if r.niter ≤ 10 then "6to10" else "11to20"
    if r.abort then ((), s!"hhe abort #hhe-abort{cn}")
    else ((), s!"hhe {showF r.h0} {showF r.he0} #hhe-it{bucket}{cn}")
  | "cell" =>
    let jfac := g 1
    let mean := fun i => g (5 + i)
    let m0 := metalInOf a (21 - 16)   -- alphas start at token 21, ct at 33; j/densities are overwritten below
    let m : MetalIn Float :=
      { m0 with
        jCp1 := jfac * mean 2, jCp2 := jfac * mean 3, jNn := jfac * mean 4, jNp1 := jfac * mean 5,
        jNp2 := jfac * mean 6, jOn := jfac * mean 7, jOp1 := jfac * mean 8, jNen := jfac * mean 9,
        jNep1 := jfac * mean 10, jSp1 := jfac * mean 11, jSp2 := jfac * mean 12, jSp3 := jfac * mean 13,
        ne := 0.0, nh0 := 0.0, nhe0 := 0.0, nhp := 0.0 }
    let r := ionCell (jfac * mean 0) (jfac * mean 1) (g 2) (g 4) (g 19) (g 20) (g 3) m
    let cn := if r.tag == 3 || r.tag == 2 then
        (if (withDensities m (g 2) (g 4) r.h0 r.he0).ne > 0.0 then "-ne+" else "-ne0") else ""
    if r.abort then ((), s!"cell abort #cell-t{r.tag}-abort")
    else ((), s!"cell {showF r.h0} {showF r.he0} {showL (metList r.met)} #cell-t{r.tag}{cn}")
  | "bal" =>
    -- bal T n j[14] hH hHe AHe AC AN AO ANe AS pah crfac crscale z | aH aHe a[12] ct[19] L
    let p : BalParams Float :=
      { n := g 2, jH := g 3, jHe := g 4, hH := g 17, hHe := g 18, aHe := g 19, aC := g 20, aN := g 21,
        aO := g 22, aNe := g 23, aS := g 24, pah := g 25, crfac := g 26, crscale := g 27, z := g 28 }
    let r : BalRates Float := ⟨g 29, g 30, withJ (metalInOf a 15) (fun k => g (5 + k))⟩
    let o := balModel p r (fun _ _ _ => g 62) (g 1)
    let tag := (if o.ne > 0.0 then "ne+" else "ne0") ++ (if p.crfac > 0.0 then "-cr" else "") ++
      (if o.offDom then "-offdom" else "") ++ (if o.bal.gain == 0.0 then "-g0" else "") ++ (if o.bal.loss == 0.0 then "-l0" else "")
    if o.abort then ((), "bal abort #bal-abort")
    else ((), s!"bal {showF o.bal.h0} {showF o.bal.he0} {showF o.bal.gain} {showF o.bal.loss} {showL (metList o.bal.met)} {showF o.ne} {showL (abundList o.abund)} #bal-{tag}")
  | "temp" =>
    -- 1..19 scalars, 20..33 mean, 34..35 heat, 36..47 met0, 48 aH8, 49 aHe8, 50 ntab,
    -- 51.. table of (T aH aHe a[12] ct[19] L)
    let ntab := nat! (raw.getD 50 "0")
    let tab := parseRTab raw 51 ntab
    let i : TempIn Float (List Float) :=
      { jfac := g 1, meanH := g 20, meanHe := g 21, n := g 3, Told := g 4, aHe := g 5,
        crfac := g 12, crcell := g 13, crlim := g 14, eps := g 17, tmin := g 18,
        maxit := nat! (raw.getD 19 "0"), alphaH8 := g 48, alphaHe8 := g 49,
        met0 := (List.range 12).map fun k => g (36 + k) }
    let p : BalParams Float :=
      { n := g 3, jH := g 1 * g 20, jHe := g 1 * g 21, hH := g 2 * g 34, hHe := g 2 * g 35,
        aHe := g 5, aC := g 6, aN := g 7, aO := g 8, aNe := g 9, aS := g 10, pah := g 11,
        crfac := 0.0, crscale := g 15, z := g 16 }
    let bal := balFromTab a tab p (fun k => g 1 * g (22 + k))
    let r := temperatureCell bal i
    if r.abort then ((), s!"temp abort #temp-t{r.tag}-abort")
    else
      let met := if r.metZero then zeros12 else r.met
      let wt := if r.tag == 2 then
          walkTag (walk (bal (crfacEff i.crfac i.crcell)) i.eps i.tmin i.maxit
            ⟨tempInit i.Told, 0.0, 0.0, 1.0, 0.0, i.met0⟩ [])
        else ""
      ((), s!"temp {showF r.T} {showF r.h0} {showF r.he0} {showL met} #temp-t{r.tag}-{clampTag i.tmin r}{wt}")
  | "newcell" => ((), "newcell")
  | "abort" => ((), "abort #impl-abort-in-prep")
  | _ => ((), "bad-op")

/-- tokens `k..` of the line, re-indexed so that token `k + i` becomes token `i + 1`, with the first
two (jfac, hfac of the kernel-level op) replaced by the wrapper's values -/
def shifted (raw : Array String) (a : Array Float) (k : Nat) (jfac hfac : Option Float) :
    Array String × Array Float :=
  let r := raw.extract (k - 1) raw.size
  let b := a.extract (k - 1) a.size
  let b := match jfac with | some x => b.set! 1 x | none => b
  let b := match hfac with | some x => b.set! 2 x | none => b
  (r, b)

def retag (s : String) (old new : String) : String :=
  let s := if s.startsWith old then new ++ (s.drop old.length).toString else s
  s.replace (" #" ++ old) (" #" ++ new)

def step (_ : Unit) (w : List String) : Unit × String :=
  let raw := w.toArray
  let a := raw.map fl
  let g := getF a
  let op := match w.head? with
    | some "hhex" => "hhe" | some "cellx" => "cell" | some "tempx" => "temp" | some "balx" => "bal" | some o => o | none => ""
  match op with
  | "sgcell" =>
    -- sgcell L tw sx sy sz nx ny nz | n T AHe mean[14] a[14] ct[19]   (cell tokens 2.. at 9..)
    let V := cellVolume (g 3) (g 4) (g 5) (g 6) (g 7) (g 8)
    let (r, b) := shifted raw a 8 (some (jfacCell (g 1) (g 2) V)) none
    let (_, s) := answerCore "cell" r b
    ((), retag s "cell" "sgcell")
  | "sgion" =>
    -- sgion mode L0 L tw sx sy sz nx ny nz | n T AHe mean[14] a[14] ct[19]
    -- TemperatureCalculator(L0); update_luminosity(L); ionization-only branch of
    -- calculate_temperature(loop, totweight, subgrid): mode 0 = temperature calculation off,
    -- mode 1 = on but loop (1) <= minimum number of iterations (5)
    let mode := nat! (raw.getD 1 "0")
    let l := updateLuminosity (g 3) (⟨g 2, g 2⟩ : Lums Float)
    let L := lumUsed (mode == 1) 1 5 l
    let V := cellVolume (g 5) (g 6) (g 7) (g 8) (g 9) (g 10)
    let (r, b) := shifted raw a 10 (some (jfacCell L (g 4) V)) none
    let (_, s) := answerCore "cell" r b
    ((), retag s "cell" "sgion")
  | "sgtemp" =>
    -- sgtemp L0 L tw sx sy sz nx ny nz | <tokens 1.. of a temp line>  (temperature branch, loop 1 > 0)
    let l := updateLuminosity (g 2) (⟨g 1, g 1⟩ : Lums Float)
    let L := lumUsed true 1 0 l
    let V := cellVolume (g 4) (g 5) (g 6) (g 7) (g 8) (g 9)
    let (r, b) := shifted raw a 10 (some (jfacCell L (g 3) V)) (some (hfacCell L (g 3) V))
    let (_, s) := answerCore "temp" r b
    ((), retag s "temp" "sgtemp")
  | _ => answerCore op raw a

def main : IO Unit := runDriver step ()
