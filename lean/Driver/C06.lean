-- stub: driver for C06 not written yet
def main : IO Unit := pure ()
