-- stub: driver for C09 not written yet
def main : IO Unit := pure ()
