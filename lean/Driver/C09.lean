import CMacVerif.Model.RestartCodec
import CMacVerif.Gen.RestartSchemas
import CMacVerif.Util.Bits
/-!
Driver of C09: the Lean reader (`decode` with the generated READ schema) is run on bytes the REAL code
wrote (a component written by harness/c09.cpp, or a restart.dump of the real binary), the decoded
value is re-encoded with the generated WRITE schema, and the size log the C++ writer produces under
`-DRESTARTWRITER_INFO` is reproduced from the decoded value.

op lines:
  comp <Class> <case> <path> ...   -> comp <Class> <case> bytes=<consumed> fnv=<fnv of re-encoded bytes> info=<rle size log>
  dump <path> <opt0> <opt1>        -> dump bytes=<consumed> rest=<left over> fnv=<…> leaves=<n> conf=<bool>
-/
open CMacVerif CMacVerif.Util CMacVerif.RestartCodec CMacVerif.Gen.RestartSchemas

def fnv (bs : Bytes) : UInt64 :=
  bs.foldl (fun h b => (h ^^^ b.toUInt64) * 1099511628211) 14695981039346656037

def rle (l : List String) : String :=
  let rec go : List String → Option (String × Nat) → List String → List String
    | [], none, acc => acc
    | [], some (t, n), acc => (if n = 1 then t else s!"{t}*{n}") :: acc
    | x :: xs, none, acc => go xs (some (x, 1)) acc
    | x :: xs, some (t, n), acc =>
      if x == t then go xs (some (t, n + 1)) acc
      else go xs (some (x, 1)) ((if n = 1 then t else s!"{t}*{n}") :: acc)
  ",".intercalate (go l none []).reverse

def findSch (name : String) : Option (Sch × Sch) :=
  match all.find? (fun e => e.1 == name) with
  | some e => some e.2
  | none => none

def readBytes (path : String) : IO (Option Bytes) := do
  try
    let b ← IO.FS.readBinFile path
    pure (some (b.toList.map (·.toNat)))
  catch _ => pure none

def answer (ws : List String) : IO String := do
  match ws with
  | "comp" :: cls :: case :: path :: _ =>
    match findSch cls, (← readBytes path) with
    | some (w, r), some bs =>
      match decode r {} bs with
      | some (v, rest) =>
        let re := encode w v
        let tag := if conf w {} v then "conforming" else "NOT-conforming"
        pure s!"comp {cls} {case} bytes={bs.length - rest.length} fnv={fnv re} info={rle (info w v)} #{tag}"
      | none => pure s!"comp {cls} {case} decode-failed"
    | none, _ => pure s!"comp {cls} {case} no-such-schema"
    | _, none => pure s!"comp {cls} {case} no-such-file"
  | ["dump", path, o0, o1] =>
    match findSch "do_simulation", (← readBytes path) with
    | some (w, r), some bs =>
      let env : Env := { opts := [nat! o0, nat! o1] }
      match decode r env bs with
      | some (v, rest) =>
        let re := encode w v
        pure s!"dump bytes={bs.length - rest.length} rest={rest.length} fnv={fnv re} leaves={leaves v} conf={conf w env v}"
      | none => pure "dump decode-failed"
    | _, _ => pure "dump no-such-file-or-schema"
  | ["list"] => pure ("list " ++ " ".intercalate (all.map (·.1)))
  | _ => pure "bad-op"

partial def loopIO (h : IO.FS.Stream) (out : IO.FS.Stream) : IO Unit := do
  let line ← h.getLine
  if line.isEmpty then return ()
  let o ← answer (words line)
  out.putStrLn o
  loopIO h out

def main : IO Unit := do
  let i ← IO.getStdin
  let o ← IO.getStdout
  loopIO i o
  o.flush
