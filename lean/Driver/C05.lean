import CMacVerif.Model.HLLC
import CMacVerif.Model.ExactFlux
import CMacVerif.Inst.Float
import CMacVerif.Util.Bits
/-!
Line-protocol driver for C05: the `Float` instantiation of the HLLC model, of the vacuum branches and
of the complete `ExactRiemannSolver::solve_for_flux` (`Model/ExactFlux.lean` around C11's `solve`).

ops (all doubles as decimal bit patterns):
* `f|t|m|i|d  rhoL uLx uLy uLz PL rhoR uRx uRy uRz PR nx ny nz vfx vfy vfz gamma wx wy wz`
    → `F <coarse> m px py pz e X <flag m px py pz e> #<branch>`
* `x gamma rhoL uL PL rhoR uR PR dxdt w`      (ExactRiemannSolver::solve)
    → `X <flag rho u P> #<tag>`   (tag: vacuum sampler tag, or 50 + C11's sampling branch)
* `sr|sl gamma rho u P a dxdt`, `sg gamma rhoL uL PL aL rhoR uR PR aR dxdt`  (private samplers)
    → `S E <flag rho u P> H <flag rho u P> #<tag>`
-/
open CMacVerif CMacVerif.Util CMacVerif.RiemannVacuum

/-- `DBL_MIN` = 2^-1022 -/
def dblMin : Float := Float.ofBits 0x0010000000000000
/-- 2^-1024: largest double whose reciprocal is `inf` -/
def ovfThr : Float := Float.ofBits 0x0004000000000000

/-- bounds of the Newton loop (none in the C++) and of Brent's loop (`1e4` in the C++) -/
def newtonFuel : Nat := 100000
def brentFuel : Nat := 10000

def fl (s : String) : Float := fOfBits (nat! s)

/-- coverage tag of the exact solver: vacuum sampler tag (C11 shifts it by 100), else 50 + branch -/
def xtag (br : Nat) : Nat := if br ≥ 100 then br - 100 else 50 + br

def showFlux (f : Flux Float) : String :=
  s!"{showF f.m} {showF f.p.x} {showF f.p.y} {showF f.p.z} {showF f.e}"

def showSample (s : Sample Float) : String :=
  s!"{s.flag} {showF s.rho} {showF s.u} {showF s.P}"

/-- coarse branch class that the harness can also observe on the real class -/
def coarse (br : Nat) : Nat :=
  if br == 12 then 11 else if br == 22 then 21 else if br == 33 then 32 else if br == 35 then 34
  else if br < 40 then br else 40

def step (_ : Unit) : List String → Unit × String
  | [k, rhoL, uLx, uLy, uLz, pL, rhoR, uRx, uRy, uRz, pR, nx, ny, nz, vfx, vfy, vfz, g, _, _, _] =>
    if k == "f" || k == "t" || k == "m" || k == "i" || k == "d" then
      let uL : V3 Float := ⟨fl uLx, fl uLy, fl uLz⟩
      let uR : V3 Float := ⟨fl uRx, fl uRy, fl uRz⟩
      let n : V3 Float := ⟨fl nx, fl ny, fl nz⟩
      let vf : V3 Float := ⟨fl vfx, fl vfy, fl vfz⟩
      let h := HLLC.solveForFlux dblMin ovfThr (fl g) (fl rhoL) uL (fl pL) (fl rhoR) uR (fl pR) n vf
      let xr := ExactFlux.solveForFluxS ovfThr (fl g) newtonFuel brentFuel (fl rhoL) uL (fl pL) (fl rhoR) uR (fl pR) n vf
      let x := xr.2
      let xs1 := xr.1
      let xs := s!"{xs1.flag} {showFlux x}"
      let xb := xtag xs1.tag
      ((), s!"F {coarse h.br} {showFlux h} X {xs} #h{h.br}x{xb}")
    else ((), "bad-op")
  | ["x", g, rhoL, uL, pL, rhoR, uR, pR, dxdt, _] =>
    let s := ExactFlux.solve1D ovfThr (fl g) newtonFuel brentFuel (fl rhoL) (fl uL) (fl pL) (fl rhoR) (fl uR) (fl pR) (fl dxdt)
    ((), s!"X {showSample s} #x{xtag s.tag}")
  | ["sr", g, rho, u, p, a, dxdt] =>
    let G := effGamma (fl g)
    let e := sampleRightVacuum G (fl rho) (fl u) (fl p) (fl a) (fl dxdt)
    let h := HLLC.sampleRightVacuum G (fl rho) (fl u) (fl p) (fl a)
    ((), s!"S E {showSample e} H {showSample h} #s{e.tag}h{h.tag}")
  | ["sl", g, rho, u, p, a, dxdt] =>
    let G := effGamma (fl g)
    let e := sampleLeftVacuum G (fl rho) (fl u) (fl p) (fl a) (fl dxdt)
    let h := HLLC.sampleLeftVacuum G (fl rho) (fl u) (fl p) (fl a)
    ((), s!"S E {showSample e} H {showSample h} #s{e.tag}h{h.tag}")
  | ["sg", g, rhoL, uL, pL, aL, rhoR, uR, pR, aR, dxdt] =>
    let G := effGamma (fl g)
    let e := sampleVacuumGeneration G (fl rhoL) (fl uL) (fl pL) (fl aL) (fl rhoR) (fl uR) (fl pR) (fl aR) (fl dxdt)
    let h := HLLC.sampleVacuumGeneration G (fl rhoL) (fl uL) (fl pL) (fl aL) (fl rhoR) (fl uR) (fl pR) (fl aR)
    ((), s!"S E {showSample e} H {showSample h} #s{e.tag}h{h.tag}")
  | _ => ((), "bad-op")

def main : IO Unit := runDriver step ()
