-- stub: driver for C05 not written yet
def main : IO Unit := pure ()
