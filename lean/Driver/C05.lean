import CMacVerif.Model.HLLC
import CMacVerif.Inst.Float
import CMacVerif.Util.Bits
/-!
Line-protocol driver for C05: the `Float` instantiation of the HLLC / vacuum models.

ops (all doubles as decimal bit patterns):
* `f|t|m|i|d  rhoL uLx uLy uLz PL rhoR uRx uRy uRz PR nx ny nz vfx vfy vfz gamma wx wy wz`
    → `F <coarse> m px py pz e X <flag m px py pz e | none> #<branch>`
* `x gamma rhoL uL PL rhoR uR PR dxdt`      (ExactRiemannSolver::solve, vacuum exits only)
    → `X <flag rho u P | none> #<tag>`
* `sr|sl gamma rho u P a dxdt`, `sg gamma rhoL uL PL aL rhoR uR PR aR dxdt`  (private samplers)
    → `S E <flag rho u P> H <flag rho u P> #<tag>`
-/
open CMacVerif CMacVerif.Util CMacVerif.RiemannVacuum

/-- `DBL_MIN` = 2^-1022 -/
def dblMin : Float := Float.ofBits 0x0010000000000000
/-- 2^-1024: largest double whose reciprocal is `inf` -/
def ovfThr : Float := Float.ofBits 0x0004000000000000

def fl (s : String) : Float := fOfBits (nat! s)

def showFlux (f : Flux Float) : String :=
  s!"{showF f.m} {showF f.p.x} {showF f.p.y} {showF f.p.z} {showF f.e}"

def showSample (s : Sample Float) : String :=
  s!"{s.flag} {showF s.rho} {showF s.u} {showF s.P}"

/-- coarse branch class that the harness can also observe on the real class -/
def coarse (br : Nat) : Nat :=
  if br == 12 then 11 else if br == 22 then 21 else if br == 33 then 32 else if br == 35 then 34
  else if br < 40 then br else 40

def step (_ : Unit) : List String → Unit × String
  | [k, rhoL, uLx, uLy, uLz, pL, rhoR, uRx, uRy, uRz, pR, nx, ny, nz, vfx, vfy, vfz, g, _, _, _] =>
    if k == "f" || k == "t" || k == "m" || k == "i" || k == "d" then
      let uL : V3 Float := ⟨fl uLx, fl uLy, fl uLz⟩
      let uR : V3 Float := ⟨fl uRx, fl uRy, fl uRz⟩
      let n : V3 Float := ⟨fl nx, fl ny, fl nz⟩
      let vf : V3 Float := ⟨fl vfx, fl vfy, fl vfz⟩
      let h := HLLC.solveForFlux dblMin ovfThr (fl g) (fl rhoL) uL (fl pL) (fl rhoR) uR (fl pR) n vf
      let x := solveForFluxIfVacuum ovfThr (fl g) (fl rhoL) uL (fl pL) (fl rhoR) uR (fl pR) n vf
      let ff := faceFrame uL uR n vf
      let xflag : Int := match solveIfVacuum ovfThr (fl g) (fl rhoL) ff.vL (fl pL) (fl rhoR) ff.vR (fl pR) 0.0 with
        | some sm => sm.flag
        | none => 9
      let xs := match x with
        | some fx => s!"{xflag} {showFlux fx}"
        | none => "none"
      let xb := match x with
        | some fx => fx.br
        | none => 50
      ((), s!"F {coarse h.br} {showFlux h} X {xs} #h{h.br}x{xb}")
    else ((), "bad-op")
  | ["x", g, rhoL, uL, pL, rhoR, uR, pR, dxdt, _] =>
    match solveIfVacuum ovfThr (fl g) (fl rhoL) (fl uL) (fl pL) (fl rhoR) (fl uR) (fl pR) (fl dxdt) with
    | some s => ((), s!"X {showSample s} #x{s.tag}")
    | none => ((), "X none #x50")
  | ["sr", g, rho, u, p, a, dxdt] =>
    let G := effGamma (fl g)
    let e := sampleRightVacuum G (fl rho) (fl u) (fl p) (fl a) (fl dxdt)
    let h := HLLC.sampleRightVacuum G (fl rho) (fl u) (fl p) (fl a)
    ((), s!"S E {showSample e} H {showSample h} #s{e.tag}h{h.tag}")
  | ["sl", g, rho, u, p, a, dxdt] =>
    let G := effGamma (fl g)
    let e := sampleLeftVacuum G (fl rho) (fl u) (fl p) (fl a) (fl dxdt)
    let h := HLLC.sampleLeftVacuum G (fl rho) (fl u) (fl p) (fl a)
    ((), s!"S E {showSample e} H {showSample h} #s{e.tag}h{h.tag}")
  | ["sg", g, rhoL, uL, pL, aL, rhoR, uR, pR, aR, dxdt] =>
    let G := effGamma (fl g)
    let e := sampleVacuumGeneration G (fl rhoL) (fl uL) (fl pL) (fl aL) (fl rhoR) (fl uR) (fl pR) (fl aR) (fl dxdt)
    let h := HLLC.sampleVacuumGeneration G (fl rhoL) (fl uL) (fl pL) (fl aL) (fl rhoR) (fl uR) (fl pR) (fl aR)
    ((), s!"S E {showSample e} H {showSample h} #s{e.tag}h{h.tag}")
  | _ => ((), "bad-op")

def main : IO Unit := runDriver step ()
