import CMacVerif.Model.TimeLine
import CMacVerif.Util.Bits
open CMacVerif CMacVerif.Util CMacVerif.TimeLine

/-- driver state: integer model + the two conversion factors as doubles and A as exact rational -/
structure St where
  tl : TL := ⟨1, 1, 0⟩
  aF : Float := 0.0
  bF : Float := 0.0
  aQ : Rat := 0
  stopped : Bool := false

def gtOf (a : Rat) (rbits : Nat) : Nat → Bool :=
  match ratOfBits rbits with
  | some r => fun ts => decide (a * (ts : Rat) > r)
  | none => fun _ => false

def physI (s : St) (n : Nat) : Float := s.aF * n.toUInt64.toFloat
def physT (s : St) (n : Nat) : Float := s.aF * n.toUInt64.toFloat + s.bF

def showTL (s : St) : String := s!"{s.tl.minStep} {s.tl.maxStep} {s.tl.cur}"

def step (s : St) : List String → St × String
  | ["new", sb, eb, mnb, mxb] =>
    let st := fOfBits (nat! sb); let en := fOfBits (nat! eb)
    let interval := en - st
    let aF := interval / 9223372036854775808.0
    let aQ := (ratOfFloat aF).getD 0
    let mn := fOfBits (nat! mnb); let mx := fOfBits (nat! mxb)
    let tl := mk (mn > 0.0) (gtOf aQ (nat! mnb)) (mx > 0.0) (gtOf aQ (nat! mxb))
    let s' : St := { tl := tl, aF := aF, bF := st, aQ := aQ }
    (s', s!"new {showTL s'}")
  | ["adv", rb] =>
    if s.stopped then (s, "skip") else
    let (tl', ts, o) := advance s.tl (gtOf s.aQ (nat! rb))
    let ret := match o with | .stepped true => 1 | _ => 0
    let s' := { s with tl := tl', stopped := ret == 0 }
    let br := match o with
      | .stepped true => if ts == roundDown (gtOf s.aQ (nat! rb)) s.tl.maxStep then "stepped" else "stepped-halved"
      | .stepped false => "stepped-end" | .tooSmall => "tooSmall" | .belowMin => "belowMin"
    (s', s!"adv {ret} {showF (physI s' ts)} {showF (physT s' tl'.cur)} {showTL s'} #{br}")
  | ["rst"] =>
    match restore (dump s.tl) with
    | some tl => ({ s with tl := tl }, s!"rst {showTL s}")
    | none => (s, "rst-error")
  | _ => (s, "bad-op")

def main : IO Unit := runDriver step ({} : St)
