import CMacVerif.Model.HydroGraph
import CMacVerif.Util.Bits
open CMacVerif CMacVerif.Util CMacVerif.Worker CMacVerif.HydroGraph

def slotOfNat : Nat → Option Slot
  | 0 => some .gradInt | 1 => some (.gradUp .x) | 2 => some (.gradDown .x)
  | 3 => some (.gradUp .y) | 4 => some (.gradDown .y) | 5 => some (.gradUp .z) | 6 => some (.gradDown .z)
  | 7 => some .limiter | 8 => some .predict | 9 => some .fluxInt
  | 10 => some (.fluxUp .x) | 11 => some (.fluxDown .x) | 12 => some (.fluxUp .y) | 13 => some (.fluxDown .y)
  | 14 => some (.fluxUp .z) | 15 => some (.fluxDown .z) | 16 => some .updCons | 17 => some .updPrim
  | _ => none

def natOfSlot : Slot → Nat
  | .gradInt => 0 | .gradUp .x => 1 | .gradDown .x => 2 | .gradUp .y => 3 | .gradDown .y => 4
  | .gradUp .z => 5 | .gradDown .z => 6 | .limiter => 7 | .predict => 8 | .fluxInt => 9
  | .fluxUp .x => 10 | .fluxDown .x => 11 | .fluxUp .y => 12 | .fluxDown .y => 13
  | .fluxUp .z => 14 | .fluxDown .z => 15 | .updCons => 16 | .updPrim => 17

def kindName (L : Layout) (t : Task) : String :=
  match t.slot with
  | .gradInt => "GRADIENTSWEEP_INTERNAL"
  | .gradUp ax => if (ngbUp L ax t.g).isSome then "GRADIENTSWEEP_EXTERNAL_NEIGHBOUR" else "GRADIENTSWEEP_EXTERNAL_BOUNDARY"
  | .gradDown _ => "GRADIENTSWEEP_EXTERNAL_BOUNDARY"
  | .limiter => "SLOPE_LIMITER" | .predict => "PREDICT_PRIMITIVES" | .fluxInt => "FLUXSWEEP_INTERNAL"
  | .fluxUp ax => if (ngbUp L ax t.g).isSome then "FLUXSWEEP_EXTERNAL_NEIGHBOUR" else "FLUXSWEEP_EXTERNAL_BOUNDARY"
  | .fluxDown _ => "FLUXSWEEP_EXTERNAL_BOUNDARY"
  | .updCons => "UPDATE_CONSERVED" | .updPrim => "UPDATE_PRIMITIVES"

def subOfIdx (L : Layout) (i : Nat) : Sub := (i / (L.ny * L.nz), (i / L.nz) % L.ny, i % L.nz)
def idxOfSub (L : Layout) (g : Sub) : Nat := g.1 * L.ny * L.nz + g.2.1 * L.nz + g.2.2
def code (L : Layout) (t : Task) : Nat := idxOfSub L t.g * 18 + natOfSlot t.slot
def showTask (L : Layout) (t : Task) : String := s!"{idxOfSub L t.g}:{natOfSlot t.slot}"
def sortNat (l : List Nat) : List Nat := (l.toArray.qsort (· < ·)).toList
def showCodes (l : List Nat) : String := " ".intercalate (l.map fun c => s!"{c / 18}:{c % 18}")
def showOpt (L : Layout) (o : Option Sub) : String := match o with | some g => toString (idxOfSub L g) | none => "-1"

structure St where
  L : Layout := ⟨1, 1, 1, false, false, false⟩
  /-- child order of the implementation (a permutation of the model's child lists, checked by `perm`) -/
  order : List (Nat × List Task) := []
  ws : WState Task := init (graph ⟨1, 1, 1, false, false, false⟩)

def chOf (s : St) (t : Task) : List Task :=
  match s.order.find? (fun p => p.1 == code s.L t) with
  | some p => p.2
  | none => children s.L t

def G (s : St) : Graph Task Sub := { graph s.L with children := chOf s }

def parseTask (L : Layout) (g sl : String) : Option Task :=
  (slotOfNat (nat! sl)).map fun s => ⟨subOfIdx L (nat! g), s⟩

def parseTasks (L : Layout) : List String → List Task
  | g :: sl :: rest => (match parseTask L g sl with | some t => [t] | none => []) ++ parseTasks L rest
  | _ => []

def statusName : Status Task → String
  | .notReady => "notReady" | .queued => "queued" | .running => "running"
  | .releasing _ => "releasing" | .done => "done"

def step (s : St) : List String → St × String
  | ["layout", nx, ny, nz, px, py, pz] =>
    let L : Layout := ⟨nat! nx, nat! ny, nat! nz, px == "1", py == "1", pz == "1"⟩
    ({ L := L, order := [], ws := init (graph L) }, s!"layout {(allTasks L).length}")
  | ["sub", g] =>
    let gg := subOfIdx s.L (nat! g)
    (s, s!"sub {g} {showOpt s.L (ngbUp s.L .x gg)} {showOpt s.L (ngbDown s.L .x gg)} {showOpt s.L (ngbUp s.L .y gg)} {showOpt s.L (ngbDown s.L .y gg)} {showOpt s.L (ngbUp s.L .z gg)} {showOpt s.L (ngbDown s.L .z gg)}")
  | ["task", g, sl] =>
    match parseTask s.L g sl with
    | none => (s, "bad-op")
    | some t =>
      if exists_ s.L t then
        let locks := (lockOrder s.L t).map (subIndex s.L)   -- in the order in which they are taken
        let ch := sortNat ((children s.L t).map (code s.L))
        (s, s!"task {g} {sl} {kindName s.L t} locks=[{" ".intercalate (locks.map toString)}] children=[{showCodes ch}] reset={resetCount s.L t} parents={(parents s.L t).length}")
      else (s, s!"task {g} {sl} none")
  | "order" :: g :: sl :: rest =>
    -- the implementation's child order of one task: accepted iff a permutation of the model's list
    match parseTask s.L g sl with
    | none => (s, "bad-op")
    | some t =>
      let impl := parseTasks s.L rest
      if sortNat (impl.map (code s.L)) == sortNat ((children s.L t).map (code s.L)) then
        ({ s with order := (code s.L t, impl) :: s.order }, "order perm")
      else (s, "order NOT-A-PERMUTATION")
  | ["start"] =>
    let ws := init (G s)
    ({ s with ws := ws }, s!"start {ws.num}")
  | ["A", g, sl] =>
    match parseTask s.L g sl with
    | none => (s, "bad-op")
    | some t => match Worker.step (G s) s.ws (.acquire t) with
      | some ws' => ({ s with ws := ws' }, "A ok #acquire")
      | none => (s, s!"A DISABLED status={statusName (s.ws.st t)}")
  | ["F", g, sl] =>
    match parseTask s.L g sl with
    | none => (s, "bad-op")
    | some t => match Worker.step (G s) s.ws (.finishExec t) with
      | some ws' => ({ s with ws := ws' }, "F ok #finish")
      | none => (s, s!"F DISABLED status={statusName (s.ws.st t)}")
  | ["R", g, sl, cg, csl] =>
    match parseTask s.L g sl, parseTask s.L cg csl with
    | some t, some c =>
      (match s.ws.st t with
       | .releasing (c' :: _) =>
         if c' = c then
           match Worker.step (G s) s.ws (.releaseChild t) with
           | some ws' => ({ s with ws := ws' }, s!"R ok {ws'.cnt c} #{if ws'.st c == .queued && s.ws.st c == .notReady then "release-enqueue" else "release"}")
           | none => (s, "R DISABLED")
         else (s, s!"R WRONG-CHILD expected {showTask s.L c'}")
       | _ => (s, s!"R DISABLED status={statusName (s.ws.st t)}"))
    | _, _ => (s, "bad-op")
  | ["E", g, sl] =>
    match parseTask s.L g sl with
    | none => (s, "bad-op")
    | some t => match Worker.step (G s) s.ws (.retire t) with
      | some ws' => ({ s with ws := ws' }, s!"E ok {ws'.num} #retire")
      | none => (s, s!"E DISABLED status={statusName (s.ws.st t)}")
  | ["end"] =>
    let alldone := (allTasks s.L).all fun t => s.ws.st t == .done && s.ws.execd t == 1
    (s, s!"end {s.ws.num} {if alldone then "all-done-once" else "NOT-ALL-DONE"}")
  | _ => (s, "bad-op")

def main : IO Unit := runDriver step ({} : St)
