-- stub: driver for C07 not written yet
def main : IO Unit := pure ()
