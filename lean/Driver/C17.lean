import CMacVerif.Model.Predicates
import CMacVerif.Inst.Float
import CMacVerif.Util.Bits
open CMacVerif CMacVerif.Util CMacVerif.Predicates

/-- `get_mantissa` of a double -/
def mantF (x : Float) : Int := mantissa (bitsOf x)

def v3OfBits : List String → Option (V3 Nat × List String)
  | x :: y :: z :: rest => some (⟨nat! x, nat! y, nat! z⟩, rest)
  | _ => none

def pts : Nat → List String → Option (List (V3 Nat))
  | 0, [] => some []
  | 0, _ => none
  | n + 1, l => match v3OfBits l with
    | some (p, rest) => (pts n rest).map (p :: ·)
    | none => none

def sg (i : Int) : String := toString i

/-- branch tag: which way the adaptive routine decided -/
def tag (filt exact : Int) : String :=
  if filt = 1 then "filter-pos" else if filt = -1 then "filter-neg"
  else if exact = 1 then "fallback-pos" else if exact = -1 then "fallback-neg" else "fallback-zero"

def step (s : Unit) : List String → Unit × String
  | ["widths"] => (s, s!"widths {orientBits} {insphereBits}")
  | "box" :: rest =>      -- rescaling of a simulation box and of generators into [1,2)
    match rest.length / 3, pts (rest.length / 3) rest with
    | n + 3, some (a :: sd :: gens) =>
      let _ := n
      -- 1 + 4 DBL_EPSILON = 1 + 2^-50 (exact)
      let k : Float := fOfBits 4607182418800017412
      let r := rescaleBox k (a.map fOfBits) (sd.map fOfBits)
      let sh (p : V3 Float) : String := s!"{showF p.x} {showF p.y} {showF p.z}"
      -- rescaled generators, each followed by its six wall copies in the rescaled box
      let rs := rescaledSides r
      let gs := gens.foldl (fun acc g =>
        let rg := rescaleP (g.map fOfBits) r.mn r.ext
        let ws := (List.range 6).foldl (fun a w => a ++ " " ++ sh (wallCopy w r.bottom rs rg)) ""
        acc ++ " " ++ sh rg ++ ws) ""
      (s, s!"box {sh r.bottom} {sh ⟨r.top.x - r.bottom.x, r.top.y - r.bottom.y, r.top.z - r.bottom.z⟩} {sh r.tet.v0} {sh r.tet.v1} {sh r.tet.v2} {sh r.tet.v3}{gs}")
    | _, _ => (s, "bad-op")
  | ["m", b] => (s, s!"m {mantissa (nat! b)}")      -- get_mantissa of one bit pattern
  | "oe" :: rest =>       -- exact orientation test only, arbitrary bit patterns
    match pts 4 rest with
    | some [a, b, c, d] =>
      (s, s!"oe {sg (orient3dExact (a.map mantissa) (b.map mantissa) (c.map mantissa) (d.map mantissa))}")
    | _ => (s, "bad-op")
  | "ie" :: rest =>
    match pts 5 rest with
    | some [a, b, c, d, e] =>
      (s, s!"ie {sg (insphereExact (a.map mantissa) (b.map mantissa) (c.map mantissa) (d.map mantissa) (e.map mantissa))}")
    | _ => (s, "bad-op")
  | "o" :: rest =>        -- exact and adaptive orientation test, coordinates in [1,2)
    match pts 4 rest with
    | some [a, b, c, d] =>
      let ex := orient3dExact (a.map mantissa) (b.map mantissa) (c.map mantissa) (d.map mantissa)
      let af := a.map fOfBits; let bf := b.map fOfBits; let cf := c.map fOfBits; let df := d.map fOfBits
      let fs := filterSign (orientFilter af bf cf df)
      let ad := orient3dAdaptive mantF af bf cf df
      (s, s!"o {sg ex} {sg ad} #{tag fs ex}")
    | _ => (s, "bad-op")
  | "i" :: rest =>
    match pts 5 rest with
    | some [a, b, c, d, e] =>
      let ex := insphereExact (a.map mantissa) (b.map mantissa) (c.map mantissa) (d.map mantissa) (e.map mantissa)
      let af := a.map fOfBits; let bf := b.map fOfBits; let cf := c.map fOfBits; let df := d.map fOfBits
      let ef := e.map fOfBits
      let fs := filterSign (insphereFilter af bf cf df ef)
      let ad := insphereAdaptive mantF af bf cf df ef
      (s, s!"i {sg ex} {sg ad} #{tag fs ex}")
    | _ => (s, "bad-op")
  | _ => (s, "bad-op")

def main : IO Unit := runDriver step ()
