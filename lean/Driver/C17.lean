-- stub: driver for C17 not written yet
def main : IO Unit := pure ()
