-- stub: driver for C01 not written yet
def main : IO Unit := pure ()
