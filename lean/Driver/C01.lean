import CMacVerif.Model.PhotonProtocol
import CMacVerif.Util.Bits
open CMacVerif CMacVerif.Util CMacVerif.Photon

/-! Line-protocol driver for C01: replays the records of a hook-H2 trace through `Photon.step`
(every record must be an enabled label; the post-values are printed and compared with the
logged ones by tools/props/c01.py) and evaluates the DistributedPhotonSource model. -/

structure St where
  cfg : Cfg := { N := 0, nsrc := 0, srcSub := fun _ => 0, norig := 0, nblocks := 0, ngb := fun _ _ => none,
                 o2i := fun i => i, reemission := false, bufCap := 0, taskCap := 0 }
  nsub : Nat := 0
  totals : List (Nat × Nat × Nat) := []      -- (source copy, subgrid, total)
  ngbs : List (Nat × List (Option Nat)) := []
  s : State := init (fun _ => []) []
  doneBefore : Nat := 0
  /-- real packet identity of every model packet (hook records Q*), staged physics outcomes -/
  m2r : Array Nat := #[]
  fates : Option (List Nat) := none
  keeps : Option (List Bool) := none

def int! (s : String) : Int := s.toInt?.getD 0
def optOfInt (i : Int) : Option Nat := if i < 0 then none else some i.toNat

/-- replace the update chains of the state by table look-ups (extensionally the same state) -/
def normalize (st : St) : State :=
  let s := st.s
  let c := st.cfg
  let pool := ((List.range c.bufCap).map s.pool).toArray
  let tasks := ((List.range c.taskCap).map s.tasks).toArray
  let act := ((List.range st.nsub).map fun g => ((List.range NDIR).map (s.active g)).toArray).toArray
  let lg := ((List.range st.nsub).map s.largest).toArray
  let cont := ((List.range c.nblocks).map fun b => ((List.range c.norig).map fun g => s.cont (b, g)).toArray).toArray
  let src := ((List.range c.nsrc).map s.srcLeft).toArray
  { s with
    pool := fun b => if h : b < pool.size then pool[b] else s.pool b
    tasks := fun t => if h : t < tasks.size then tasks[t] else s.tasks t
    active := fun g i => if h : g < act.size then (if h2 : i < act[g].size then act[g][i] else s.active g i) else s.active g i
    largest := fun g => if h : g < lg.size then lg[g] else s.largest g
    cont := fun k => if h : k.1 < cont.size then (if h2 : k.2 < cont[k.1].size then cont[k.1][k.2] else s.cont k) else s.cont k
    srcLeft := fun i => if h : i < src.size then src[i] else s.srcLeft i }

def kindStr (s : State) : Kind → String
  | .source src ids => s!"source {src} {ids.length}"
  | .contSource c n _ => s!"contsource {c} {n}"
  | .traverse b => s!"traverse {match s.pool b with | some buf => toString buf.sub | none => "?"} {b}"
  | .reemit b => s!"reemit {match s.pool b with | some buf => toString buf.sub | none => "?"} {b}"
  | .flush c => s!"flush {c} 0"

def kindBuf' : Kind → Option Nat
  | .traverse b => some b
  | .reemit b => some b
  | _ => none

def stStr : TSt → String
  | .pending => "pending" | .queued => "queued" | .running => "running"

def taskStr (s : State) (t : Nat) : String :=
  match s.tasks t with
  | some ⟨k, st⟩ => s!"{kindStr s k} {stStr st}"
  | none => "free"

def apply (st : St) (l : Label) : Option St :=
  match step st.cfg st.s l with
  | some s' => let st' := { st with s := s' }; some { st' with s := normalize st' }
  | none => none

def applyAll (st : St) : List Label → Option St
  | [] => some st
  | l :: ls => match apply st l with | some st' => applyAll st' ls | none => none

def countTasks (st : St) (p : Task → Bool) : Nat :=
  ((List.range st.cfg.taskCap).filter fun t => match st.s.tasks t with | some tk => p tk | none => false).length

def parseNats (l : List String) : List Nat := l.map nat!

/-- "d:out:na:nb:nt" -/
def parseDir (w : String) : Nat × Nat × DirRes × Bool :=
  match (w.splitOn ":").map int! with
  | [d, o, na, nb, nt] => (d.toNat, o.toNat, ⟨na.toNat, nb.toNat, nt.toNat⟩, decide (0 ≤ nb))
  | _ => (0, 0, ⟨0, 0, 0⟩, false)

/-- "-2" as overflow buffer = any buffer that is free in the model (a buffer that is taken and released
again inside one commit; in a non-serialised trace another thread may log its use of the same slot
before this commit record) -/
def fixWild (free : Nat) (w : String) : String :=
  match w.splitOn ":" with
  | [d, o, na, nb, nt] => if nb == "-2" then ":".intercalate [d, o, na, toString free, nt] else w
  | _ => w

def mentioned (ws : List String) : List Nat :=
  ws.flatMap fun w => match (w.splitOn ":").map int! with
    | [_, _, na, nb, _] => [na.toNat, nb.toNat]
    | _ => []

def splitBar (ws : List String) : List (List String) :=
  ws.foldr (fun w acc => if w == "|" then [] :: acc else match acc with | a :: r => (w :: a) :: r | [] => [[w]]) [[]]

def showList (l : List Nat) : String := " ".intercalate (l.map toString)

def handle (st : St) : List String → St × String
  | ["cfg", n, nsrc, norig, nblocks, reem, bcap, tcap, nsub] =>
    ({ cfg := { st.cfg with N := nat! n, nsrc := nat! nsrc, norig := nat! norig, nblocks := nat! nblocks,
                            reemission := reem == "1", bufCap := nat! bcap, taskCap := nat! tcap,
                            ngb := fun _ _ => none, srcSub := fun _ => 0 },
       nsub := nat! nsub, totals := [], ngbs := [], s := init (fun _ => []) [] }, "cfg ok")
  | "ngb" :: g :: rest =>
    let row := rest.map fun w => optOfInt (int! w)
    let ngbs := (nat! g, row) :: st.ngbs
    let arr := ((List.range st.nsub).map fun g => ((ngbs.find? (·.1 == g)).map (·.2)).getD []).toArray
    ({ st with ngbs := ngbs, cfg := { st.cfg with ngb := fun g i => ((arr.getD g []).getD i none) } }, "ngb ok")
  | ["src", i, g, tot] =>
    let totals := st.totals ++ [(nat! i, nat! g, nat! tot)]
    let subs := (totals.map fun p => p.2.1).toArray
    ({ st with totals := totals, cfg := { st.cfg with srcSub := fun i => subs.getD i 0 } }, "src ok")
  | ["init", ncont] =>
    -- packet identifiers: consecutive blocks per source copy, then the continuous packets
    let (srcIds, next) := st.totals.foldl (fun (acc : List (List Nat) × Nat) p =>
        (acc.1 ++ [(List.range p.2.2).map (· + acc.2)], acc.2 + p.2.2)) ([], 0)
    let arr := srcIds.toArray
    let contIds := (List.range (nat! ncont)).map (· + next)
    let st' := { st with s := init (fun i => arr.getD i []) contIds, doneBefore := 0,
                         m2r := (List.range (next + nat! ncont)).toArray, fates := none, keeps := none }
    ({ st' with s := normalize st' }, s!"init {next + nat! ncont}")
  | ["launch", t, src] =>
    match apply st (.launchBatch (nat! src) (nat! t)) with
    | some st' => (st', s!"launch {taskStr st'.s (nat! t)} #launch-discrete")
    | none => (st, "launch DISABLED")
  | ["launchc", t] =>
    match apply st (.launchCont (nat! t)) with
    | some st' => (st', s!"launchc {taskStr st'.s (nat! t)} #launch-continuous")
    | none => (st, "launchc DISABLED")
  | ["acq", t] =>
    match apply st (.acquire (nat! t)) with
    | some st' => (st', s!"acq {taskStr st'.s (nat! t)} #acquire")
    | none => (st, s!"acq DISABLED {taskStr st.s (nat! t)}")
  | ["enq", t] =>
    match apply st (.enqueue (nat! t)) with
    | some st' => (st', s!"enq {taskStr st'.s (nat! t)} #enqueue")
    | none => (st, s!"enq DISABLED {taskStr st.s (nat! t)}")
  | ["srcx", t, b, t'] =>
    match apply st (.execSource (nat! t) (nat! b) (nat! t')) with
    | some st' => (st', s!"srcx buf={bufLen st'.s.pool (nat! b)} task={taskStr st'.s (nat! t')} #exec-source")
    | none => (st, s!"srcx DISABLED {taskStr st.s (nat! t)} buf-free={bufFree st.cfg st.s (nat! b)} task-free={taskFree st.cfg st.s (nat! t')}")
  | ["cover", t, g, b, t'] =>
    -- continuous source: the buffer of subgrid g overflowed (fill it up first)
    match st.s.tasks (nat! t) with
    | some ⟨.contSource c _ _, .running⟩ =>
      let k := BUFSZ - (st.s.cont (c, nat! g)).length
      let ls := (if k = 0 then [] else [Label.contGen (nat! t) (nat! g) k]) ++ [Label.contOverflow (nat! t) (nat! g) (nat! b) (nat! t')]
      match applyAll st ls with
      | some st' => (st', s!"cover buf={bufLen st'.s.pool (nat! b)} task={taskStr st'.s (nat! t')} #cont-overflow")
      | none => (st, "cover DISABLED")
    | _ => (st, s!"cover DISABLED {taskStr st.s (nat! t)}")
  | "cfin" :: t :: rest =>
    -- rest = sizes of the block's buffers per subgrid | flush task ids
    match splitBar rest, st.s.tasks (nat! t) with
    | [sizes, fl], some ⟨.contSource c _ _, .running⟩ =>
      let gens := (sizes.map nat!).zipIdx.filterMap fun (sz, g) =>
        let cur := (st.s.cont (c, g)).length
        if cur < sz then some (Label.contGen (nat! t) g (sz - cur)) else none
      match applyAll st (gens ++ [Label.contFinish (nat! t) (parseNats fl)]) with
      | some st' =>
        let nf (x : St) := countTasks x fun tk => match tk.kind with | .flush _ => true | _ => false
        (st', s!"cfin left={st'.s.contLeft} flush={nf st' - nf st} #cont-finish{if fl.isEmpty then "" else "-flush"}")
      | none => (st, s!"cfin DISABLED {taskStr st.s (nat! t)} left={st.s.contLeft}")
    | _, _ => (st, s!"cfin DISABLED {taskStr st.s (nat! t)}")
  | ["fone", t, g, b, t'] =>
    match apply st (.flushOne (nat! t) (nat! g) (nat! b) (nat! t')) with
    | some st' => (st', s!"fone buf={bufLen st'.s.pool (nat! b)} task={taskStr st'.s (nat! t')} #flush-one")
    | none => (st, s!"fone DISABLED {taskStr st.s (nat! t)}")
  | ["ffin", t] =>
    match apply st (.flushFinish (nat! t)) with
    | some st' => (st', "ffin ok #flush-finish")
    | none => (st, s!"ffin DISABLED {taskStr st.s (nat! t)}")
  | "trav" :: t :: gone :: rest =>
    match st.s.tasks (nat! t) with
    | some ⟨.traverse b0, .running⟩ =>
      match st.s.pool b0 with
      | some buf =>
        let used := mentioned rest
        let free := ((List.range st.cfg.bufCap).find? fun b => bufFree st.cfg st.s b && !used.contains b).getD st.cfg.bufCap
        let dirs := (rest.map (fixWild free)).map parseDir
        let g := buf.sub
        -- physics outcome: the first out(d) packets leave through d (in the order given), the last `gone`
        -- packets are not stored (a disabled direction)
        let dis := (List.range NDIR).find? fun i => !dirEnabled st.cfg g i
        let fates := match st.fates with
          | some f => f
          | none => (dirs.flatMap fun d => List.replicate d.2.1 d.1) ++ List.replicate (nat! gone) (dis.getD NDIR)
        let res := (List.range NDIR).map fun i => ((dirs.find? (·.1 == i)).map (·.2.2.1)).getD ⟨0, 0, 0⟩
        match apply st (.execTraverse (nat! t) fates res) with
        | some st' =>
          let per := dirs.map fun d =>
            let a := (st.s.active g d.1).getD d.2.2.1.na
            s!"d{d.1}={bufLen st'.s.pool a},{if d.2.2.2 then toString (bufLen st'.s.pool d.2.2.1.nb) else "-"}"
          let ovf := dirs.any fun d => match st'.s.tasks d.2.2.1.nt with | some ⟨_, .pending⟩ => (st.s.tasks d.2.2.1.nt).isNone | _ => false
          let newa := dirs.any fun d => (st.s.active g d.1).isNone
          let tag := (if ovf then "-overflow" else "") ++ (if newa then "-newactive" else "") ++ (if nat! gone > 0 then "-gone" else "")
          ({ st' with doneBefore := st'.s.done.length, fates := none },
           s!"trav sub={g} in={buf.ids.length} done={st'.s.done.length - st.s.done.length} largest={(st'.s.largest g).1},{(st'.s.largest g).2} {" ".intercalate per} #traverse{tag}")
        | none => (st, s!"trav DISABLED fates={fates.length} in={buf.ids.length} dis={dis}")
      | none => (st, "trav DISABLED input-buffer-not-in-use")
    | _ => (st, s!"trav DISABLED {taskStr st.s (nat! t)}")
  | ["reem", t, k, t'] =>
    match st.s.tasks (nat! t) with
    | some ⟨.reemit b, .running⟩ =>
      let n := bufLen st.s.pool b
      let keep := match st.keeps with
        | some f => f
        | none => List.replicate (nat! k) true ++ List.replicate (n - nat! k) false
      match apply st (.execReemit (nat! t) keep (nat! t')) with
      | some st' => ({ st' with keeps := none }, s!"reem in={n} kept={bufLen st'.s.pool b} done={st'.s.done.length - st.s.done.length} #reemit{if nat! k = 0 then "-none" else if nat! k = n then "-all" else "-some"}")
      | none => (st, s!"reem DISABLED in={n}")
    | _ => (st, s!"reem DISABLED {taskStr st.s (nat! t)}")
  | ["prem", g, t'] =>
    let d := (st.s.largest (nat! g)).1
    let b := (st.s.active (nat! g) d).getD 0
    match apply st (.premature (nat! g) (nat! t')) with
    | some st' => (st', s!"prem dir={d} buf={b} count={bufLen st'.s.pool b} task={taskStr st'.s (nat! t')} #premature-{if d = 0 then "reemit" else "traverse"}")
    | none => (st, s!"prem DISABLED largest={(st.s.largest (nat! g)).1},{(st.s.largest (nat! g)).2} locked={lockHeld st.cfg st.s (.sub (nat! g))}")
  | "qbind" :: b :: ids =>
    -- the packets of the new buffer b get the identities the implementation gave them
    match st.s.pool (nat! b) with
    | some buf =>
      if buf.ids.length = ids.length then
        let m2r := (buf.ids.zip (parseNats ids)).foldl (fun (a : Array Nat) p => a.setIfInBounds p.1 p.2) st.m2r
        ({ st with m2r := m2r }, "qbind ok")
      else (st, s!"qbind BAD model has {buf.ids.length} packets in the buffer")
    | none => (st, "qbind BAD buffer not in use in the model")
  | "qin" :: t :: ids =>
    -- identities of the packets that enter a traversal / re-emission task
    match st.s.tasks (nat! t) with
    | some ⟨k, _⟩ =>
      match kindBuf' k with
      | some b =>
        let mine := ((st.s.pool b).map fun buf => buf.ids.map fun m => st.m2r.getD m 0).getD []
        if mine == parseNats ids then (st, "qin ok") else (st, s!"qin BAD model={showList mine}")
      | none => (st, "qin BAD task has no buffer")
    | none => (st, "qin BAD no such task")
  | "qbuf" :: b :: ids =>
    let mine := ((st.s.pool (nat! b)).map fun buf => buf.ids.map fun m => st.m2r.getD m 0).getD []
    if mine == parseNats ids then (st, "qbuf ok") else (st, s!"qbuf BAD model={showList mine}")
  | "qfate" :: fs => ({ st with fates := some (parseNats fs) }, "qfate ok")
  | "qkeep" :: fs => ({ st with keeps := some (fs.map (· == "1")) }, "qkeep ok")
  | ["largest", g] => (st, s!"largest {(st.s.largest (nat! g)).1} {(st.s.largest (nat! g)).2}")
  | ["term"] =>
    match apply st .checkTermination with
    | some st' => (st', "term ok #termination")
    | none => (st, s!"term DISABLED done={st.s.done.length} pool-empty={poolEmpty st.cfg st.s}")
  | ["end"] =>
    let s := st.s
    let bufs := ((List.range st.cfg.bufCap).filter fun b => (s.pool b).isSome).length
    let alive := countTasks st fun _ => true
    let queued := countTasks st fun tk => tk.st == .queued
    let act := ((List.range st.nsub).map fun g => ((List.range NDIR).filter fun i => (s.active g i).isSome).length).sum
    let cont := ((List.range st.cfg.nblocks).map fun b => ((List.range st.cfg.norig).map fun g => (s.cont (b, g)).length).sum).sum
    let src := ((List.range st.cfg.nsrc).map fun i => (s.srcLeft i).length).sum + s.contPool.length
    let sorted := (s.done.toArray.qsort (· < ·)).toList
    let once := sorted == List.range st.cfg.N
    (st, s!"end done={s.done.length} bufs={bufs} tasks={alive} queued={queued} active={act} cont={cont} src={src} run={if s.run then 1 else 0} once={if once then "ok" else "BAD"}")
  | "split" :: rest =>
    -- split | nThis:ncopy ... | picks ...
    match splitBar rest with
    | [_, srcs, picks] =>
      let ss := srcs.map fun w => match (w.splitOn ":").map nat! with | [a, b] => (a, b) | _ => (0, 1)
      (st, s!"split {showList (splitTotals ss (parseNats picks))}")
    | _ => (st, "bad-op")
  | ["batches", mx, tot] =>
    (st, s!"batches {showList (batches (nat! mx) (nat! tot + 1) (nat! tot))}")
  | _ => (st, "bad-op")

def main : IO Unit := runDriver handle ({} : St)
