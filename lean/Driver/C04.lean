import CMacVerif.Model.HydroSweeps
import CMacVerif.Model.HydroUpdate
import CMacVerif.Model.HLLC
import CMacVerif.Inst.Float
import CMacVerif.Util.Bits
/-!
Line-protocol driver for C04 / C10.

Integer ops (the sweeps of `Model/HydroSweeps.lean`):
* `sub nx ny nz px py pz cx cy cz a b c`
    → every call the tasks of subgrid `(a, b, c)` make, at the index level of the code:
      `I<ax>:<il>:<ir>` (internal sweep), `O<ax>:<ngb>:<il>:<ir>` (pair sweep with subgrid `ngb`),
      `B<ax>:<+|->:<il>` (boundary sweep), after `<subgrid index>`
* `cells nx ny nz px py pz cx cy cz a b c` → global cell index of every cell index of the subgrid
* `grid nx ny nz px py pz cx cy cz` → the faces of the undivided global grid (`gridFaces`,
      `gridGhosts`) as `<ax>:<gl>:<gr>` / `<ax>:<+|->:<gl>` with global cell indices
* `all nx ny nz px py pz cx cy cz` → the same from `allFaces` / `allGhosts` (all subgrids)

Numeric ops (`Model/HydroUpdate.lean` at `Float` with C05's HLLC model as flux function), see
harness/c04.cpp for the formats.
-/
open CMacVerif CMacVerif.Util CMacVerif.RiemannVacuum CMacVerif.HydroGraph CMacVerif.HydroSweeps
  CMacVerif.HydroUpdate

def dblMin : Float := Float.ofBits 0x0010000000000000
def dblMax : Float := Float.ofBits 0x7FEFFFFFFFFFFFFF
def ovfThr : Float := Float.ofBits 0x0004000000000000

def fl (s : String) : Float := fOfBits (nat! s)

def axes : List Axis := [.x, .y, .z]
def axNum : Axis → Nat | .x => 0 | .y => 1 | .z => 2
def bOf (s : String) : Boundary := if s == "i" then .inflow else if s == "o" then .outflow else .reflective
def axOf (s : String) : Axis := if s == "0" then .x else if s == "1" then .y else .z

def layoutOf (w : Array String) (k : Nat) : Layout × Cells :=
  (⟨nat! w[k]!, nat! w[k+1]!, nat! w[k+2]!, w[k+3]! == "1", w[k+4]! == "1", w[k+5]! == "1"⟩,
   ⟨nat! w[k+6]!, nat! w[k+7]!, nat! w[k+8]!⟩)

def join (l : List String) : String := " ".intercalate l

def subLine (L : Layout) (c : Cells) (g : Sub) : String :=
  let parts := axes.flatMap fun ax =>
    let a := axNum ax
    (innerIdx c ax).map (fun p => s!"I{a}:{p.1}:{p.2}") ++
    (match ngbUp L ax g with
      | some n => (outerIdx c ax).map (fun p => s!"O{a}:{HydroSweeps.subIndex L n}:{p.1}:{p.2}")
      | none => (ghostIdx c ax true).map (fun i => s!"B{a}:+:{i}")) ++
    (match ngbDown L ax g with
      | some _ => []
      | none => (ghostIdx c ax false).map (fun i => s!"B{a}:-:{i}"))
  s!"{HydroSweeps.subIndex L g} " ++ join parts

def faceLine (L : Layout) (c : Cells) (faces : Axis → List Face) (ghosts : Axis → Bool → List Loc) :
    String :=
  join (axes.flatMap fun ax =>
    let a := axNum ax
    (faces ax).map (fun f => s!"{a}:{gidx L c f.1}:{gidx L c f.2}") ++
    (ghosts ax true).map (fun x => s!"{a}:+:{gidx L c x}") ++
    (ghosts ax false).map (fun x => s!"{a}:-:{gidx L c x}"))

def readQ (w : Array String) (k : Nat) : Q Float :=
  ⟨fl w[k]!, ⟨fl w[k+1]!, fl w[k+2]!, fl w[k+3]!⟩, fl w[k+4]!⟩

def readV3 (w : Array String) (k : Nat) : V3 Float := ⟨fl w[k]!, fl w[k+1]!, fl w[k+2]!⟩

/-- limiters as the code stores them: `lim[2j]` minimum, `lim[2j+1]` maximum -/
def readLim (w : Array String) (k : Nat) : Q Float × Q Float :=
  (⟨fl w[k]!, ⟨fl w[k+2]!, fl w[k+4]!, fl w[k+6]!⟩, fl w[k+8]!⟩,
   ⟨fl w[k+1]!, ⟨fl w[k+3]!, fl w[k+5]!, fl w[k+7]!⟩, fl w[k+9]!⟩)

def zeroQ : Q Float := ⟨0.0, ⟨0.0, 0.0, 0.0⟩, 0.0⟩

/-- prim(5) grad(15) cons(5) dcons(5) -/
def readCell (w : Array String) (k : Nat) : HV Float :=
  { prim := readQ w k
    grad := ⟨readV3 w (k+5), readV3 w (k+8), readV3 w (k+11), readV3 w (k+14), readV3 w (k+17)⟩
    lo := zeroQ, hi := zeroQ
    cons := readQ w (k+20)
    dcons := readQ w (k+25)
    acc := ⟨0.0, 0.0, 0.0⟩, eterm := 0.0 }

def showQ (q : Q Float) : String :=
  s!"{showF q.d} {showF q.v.x} {showF q.v.y} {showF q.v.z} {showF q.e}"

def showLim (lo hi : Q Float) : String :=
  s!"{showF lo.d} {showF hi.d} {showF lo.v.x} {showF hi.v.x} {showF lo.v.y} {showF hi.v.y} {showF lo.v.z} {showF hi.v.z} {showF lo.e} {showF hi.e}"

def hllcFlux (g : Float) : FluxFn Float := fun rhoL uL pL rhoR uR pR n =>
  HLLC.solveForFlux dblMin ovfThr g rhoL uL pL rhoR uR pR n ⟨0.0, 0.0, 0.0⟩

def step (_ : Unit) (ws : List String) : Unit × String :=
  let w := ws.toArray
  let n := w.size
  let op := w[0]!
  if op == "sub" && n == 13 then
    let (L, c) := layoutOf w 1
    ((), subLine L c (nat! w[10]!, nat! w[11]!, nat! w[12]!))
  else if op == "cells" && n == 13 then
    let (L, c) := layoutOf w 1
    let g : Sub := (nat! w[10]!, nat! w[11]!, nat! w[12]!)
    ((), join ((List.range (c.cx * c.cy * c.cz)).map fun i =>
      toString (gidx L c (gcell c g (threeIndex c i)))))
  else if op == "grid" && n == 10 then
    let (L, c) := layoutOf w 1
    ((), faceLine L c (gridFaces (cellGrid L c)) (gridGhosts (cellGrid L c)))
  else if op == "all" && n == 10 then
    let (L, c) := layoutOf w 1
    ((), faceLine L c (allFaces L c) (allGhosts L c))
  else if op == "lim" && n == 4 then
    let pL := fl w[2]!
    let pR := fl w[3]!
    let d1 := 0.5 * Float.abs (pL - pR)
    let mx := amax pL pR
    let mn := amin pL pR
    let tag := (if feq pL pR then 0 else if pL < pR then 1 else 2)
      + (if 0.0 < (mx + d1) * mx then 4 else 0) + (if 0.0 < (mn - d1) * mn then 8 else 0)
    ((), s!"L {showF (limit dblMin (fl w[1]!) pL pR 0.5)} #lim{tag}")
  else if op == "flux" && n == 66 then
    let g := fl w[1]!
    let i := axOf w[2]!
    let L := readCell w 6
    let R := readCell w 36
    let ft := faceFluxTag (hllcFlux g) dblMin g i L R (fl w[3]!) (fl w[4]!) (fl w[5]!)
    let r := doFluxCalculation (hllcFlux g) dblMin g i L R (fl w[3]!) (fl w[4]!) (fl w[5]!)
    ((), s!"F {showQ r.1.dcons} {showQ r.2.dcons} #fl{ft.2}")
  else if op == "gflux" && n == 37 then
    -- gflux <r|i|o> gamma i dx A dt L(30)
    let bk := bOf w[1]!
    let g := fl w[2]!
    let i := axOf w[3]!
    let L := readCell w 7
    let ft := ghostFaceFluxTagB bk (hllcFlux g) dblMin g i L (fl w[4]!) (fl w[5]!) (fl w[6]!)
    let r := doGhostFluxCalculationB bk (hllcFlux g) dblMin g i L (fl w[4]!) (fl w[5]!) (fl w[6]!)
    let inw := decide (HydroUpdate.orientation (fl w[4]!) * V3'.get L.prim.v i < 0.0)
    ((), s!"G {showQ r.dcons} #gf{w[1]!}{if bk == .outflow then (if inw then "in" else "out") else ""}{ft.2}")
  else if op == "grad" && n == 83 then
    let i := axOf w[1]!
    let limL := readLim w 33
    let limR := readLim w 73
    let L := { readCell w 3 with lo := limL.1, hi := limL.2 }
    let R := { readCell w 43 with lo := limR.1, hi := limR.2 }
    let r := doGradientCalculation i L R (fl w[2]!)
    ((), s!"D {showQ (r.1.grad.along i)} {showLim r.1.lo r.1.hi} {showQ (r.2.grad.along i)} {showLim r.2.lo r.2.hi} #grad")
  else if op == "ggrad" && n == 44 then
    -- ggrad <r|i|o> i dxinv L(30) lim(10)
    let bk := bOf w[1]!
    let i := axOf w[2]!
    let limL := readLim w 34
    let L := { readCell w 4 with lo := limL.1, hi := limL.2 }
    let r := doGhostGradientCalculationB bk i L (fl w[3]!)
    ((), s!"E {showQ (r.grad.along i)} {showLim r.lo r.hi} #ggrad{w[1]!}")
  else if op == "slim" && n == 34 then
    let dx : V3 Float := readV3 w 1
    let lim := readLim w 24
    let h : HV Float :=
      { prim := readQ w 4
        grad := ⟨readV3 w 9, readV3 w 12, readV3 w 15, readV3 w 18, readV3 w 21⟩
        lo := lim.1, hi := lim.2, cons := zeroQ, dcons := zeroQ, acc := ⟨0.0, 0.0, 0.0⟩, eterm := 0.0 }
    let G := applySlopeLimiter dblMax h dx
    let sv (v : V3 Float) : String := s!"{showF v.x} {showF v.y} {showF v.z}"
    let tags := [(slopeAlphaTag dblMax h.prim.d h.grad.d h.lo.d h.hi.d dx).2,
      (slopeAlphaTag dblMax h.prim.v.x h.grad.vx h.lo.v.x h.hi.v.x dx).2,
      (slopeAlphaTag dblMax h.prim.v.y h.grad.vy h.lo.v.y h.hi.v.y dx).2,
      (slopeAlphaTag dblMax h.prim.v.z h.grad.vz h.lo.v.z h.hi.v.z dx).2,
      (slopeAlphaTag dblMax h.prim.e h.grad.e h.lo.e h.hi.e dx).2]
    let has (k : Nat) : Bool := tags.any (fun t => t / k % 2 == 1)
    let tag := (if has 1 then "z" else "") ++ (if has 4 then "n" else "") ++ (if has 8 then "c" else "")
      ++ (if tags.any (fun t => t / 4 == 0) then "p" else "")
    ((), s!"S {sv G.d} {sv G.vx} {sv G.vy} {sv G.vz} {sv G.e} #sl{tag}")
  else if op == "pred" && n == 26 then
    let G : Grad Float := ⟨readV3 w 8, readV3 w 11, readV3 w 14, readV3 w 17, readV3 w 20⟩
    let r := predictPrimitiveTag (fl w[1]!) ovfThr (readQ w 3) G (readV3 w 23) (fl w[2]!)
    ((), s!"Q {showQ r.1} #pr{r.2}")
  else if op == "tstep" && n == 8 then
    -- tstep gamma V prim(5)
    let dt := getTimestep (fl w[1]!) dblMin ovfThr (Float.ofBits 0x3FD45F306DC9C883) (1.0 / 3.0) (readQ w 3) (fl w[2]!)
    ((), s!"T {showF dt} #ts")
  else if op == "ucons" && n == 16 then
    let h : HV Float :=
      { prim := zeroQ, grad := Grad.zero, lo := zeroQ, hi := zeroQ, cons := readQ w 2,
        dcons := readQ w 7, acc := readV3 w 12, eterm := fl w[15]! }
    let r := updateConservedTag dblMax h (fl w[1]!)
    let u := r.1
    let reset := u.eterm == 0.0 && u.lo.d == dblMax && u.hi.e == -dblMax && u.dcons.d == 0.0
      && u.dcons.e == 0.0 && u.grad.d.x == 0.0
    ((), s!"U {showQ u.cons} reset={if reset then 1 else 0} #uc{r.2}")
  else if op == "uprim" && n == 9 then
    let r := setPrimitiveTag (fl w[1]!) (fl w[2]!) ovfThr (fl w[3]!) (readQ w 4)
    ((), s!"P {showQ r.1} #up{r.2}")
  else ((), "bad-op")

def main : IO Unit := runDriver step ()
