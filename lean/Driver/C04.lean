-- stub: driver for C04 not written yet
def main : IO Unit := pure ()
