// C01 harness: the real DistributedPhotonSource (constructor split + get_photon_batch) on a real
// DensitySubGridCreator with subgrid copies.
//
//   dps N nsub | lvl_0 ... lvl_{nsub-1} | sub:weightbits ...
//       nsub subgrids along x, copy level per subgrid, sources given by the subgrid they sit in and
//       their weight (bit pattern of the double).
//   answer:  dps nthis=a,b,.. ncopy=a,b,.. picks=a,b,.. totals=a,b,.. subgrids=a,b,.. batches=i:n,i:n,...
//       nthis  = number_of_photons * weight truncated (the same expression as the constructor, so that the
//                Lean model can be fed with it; a mutated constructor shows up in `totals`)
//       picks  = the indices the constructor's default-seeded RandomGenerator draws for the overhead
//       totals = _total_number_of_photons of the real object, batches = the real round-robin batch loop of
//                the simulation (get_photon_batch(isrc, PHOTONBUFFER_SIZE) until N packets are handed out)
//   ORACLE lines: the property on the real object (totals sum to N, batches in 1..PHOTONBUFFER_SIZE and
//                sum to the totals, the batch loop ends).
#include "common.hpp"
#define private public
#define protected public
#include "DensitySubGridCreator.hpp"
#include "DistributedPhotonSource.hpp"
#include "HomogeneousDensityFunction.hpp"
#include "PhotonBuffer.hpp"
#include "PhotonSourceDistribution.hpp"
#include "RandomGenerator.hpp"
#undef private
#undef protected

class ListDistribution : public PhotonSourceDistribution {
public:
  std::vector< CoordinateVector<> > pos;
  std::vector< double > weight;
  virtual photonsourcenumber_t get_number_of_sources() const { return pos.size(); }
  virtual CoordinateVector<> get_position(photonsourcenumber_t index) { return pos[index]; }
  virtual double get_weight(photonsourcenumber_t index) const { return weight[index]; }
  virtual double get_total_luminosity() const { return 1.; }
};

static std::string join(const std::vector< size_t > &v) {
  std::ostringstream s;
  for (size_t i = 0; i < v.size(); ++i)
    s << (i ? "," : "") << v[i];
  return s.str();
}

int main() {
  std::string line;
  uint64_t lineno = 0;
  HomogeneousDensityFunction density_function;
  while (std::getline(std::cin, line)) {
    ++lineno;
    auto w = words(line);
    if (w.size() < 4 || w[0] != "dps") {
      std::cout << "bad-op\n";
      continue;
    }
    const size_t N = u64(w[1]);
    const int nsub = std::stoi(w[2]);
    std::vector< uint_fast8_t > levels;
    size_t k = 4;
    for (; k < w.size() && w[k] != "|"; ++k)
      levels.push_back(std::stoi(w[k]));
    ++k;
    ListDistribution dist;
    std::vector< int > srcsub;
    for (; k < w.size(); ++k) {
      const size_t c = w[k].find(':');
      const int sub = std::stoi(w[k].substr(0, c));
      srcsub.push_back(sub);
      dist.pos.push_back(CoordinateVector<>((sub + 0.5) / nsub, 0.5, 0.5));
      dist.weight.push_back(dbl(w[k].substr(c + 1)));
    }
    if ((int)levels.size() != nsub || srcsub.empty()) {
      std::cout << "bad-op\n";
      continue;
    }
    const Box<> box(CoordinateVector<>(0.), CoordinateVector<>(1.));
    DensitySubGridCreator< DensitySubGrid > gc(box, CoordinateVector< int_fast32_t >(nsub, 1, 1),
                                              CoordinateVector< int_fast32_t >(nsub, 1, 1),
                                              CoordinateVector< bool >(false));
    gc.initialize(density_function);
    gc.create_copies(levels);
    // the two inputs of the split that are not integers: truncated products and random picks
    std::vector< size_t > nthis, ncopy;
    size_t sum = 0;
    for (size_t i = 0; i < dist.pos.size(); ++i) {
      const size_t n = N * dist.get_weight(i);
      nthis.push_back(n);
      ncopy.push_back(size_t(1) << levels[srcsub[i]]);
      sum += n;
    }
    if (sum > N) {
      std::cout << "dps nthis=" << join(nthis) << " SUM-EXCEEDS-N\n";
      std::cout << "ORACLE line=" << lineno << " split-sum-exceeds-requested sum of truncated source numbers " << sum
                << " > " << N << "\n";
      continue;
    }
    std::vector< size_t > picks;
    {
      RandomGenerator random_generator;
      for (size_t i = 0; i < N - sum; ++i)
        picks.push_back(random_generator.get_uniform_random_double() * dist.pos.size());
    }
    DistributedPhotonSource< DensitySubGrid > source(N, dist, gc);
    std::vector< size_t > totals(source._total_number_of_photons.begin(), source._total_number_of_photons.end());
    std::vector< size_t > subs(source._subgrids.begin(), source._subgrids.end());
    size_t tsum = 0;
    for (size_t t : totals)
      tsum += t;
    std::ostringstream bad;
    if (tsum != N)
      bad << "split-total totals sum to " << tsum << " but " << N << " packets were requested";
    // the batch loop of TaskBasedIonizationSimulation::run
    std::ostringstream batches;
    std::vector< size_t > got(totals.size(), 0);
    size_t done = 0, rounds = 0;
    bool first = true;
    source.reset();
    while (done < N && rounds < N + 5) {
      ++rounds;
      for (size_t isrc = 0; isrc < source.get_number_of_sources(); ++isrc) {
        const size_t n = source.get_photon_batch(isrc, PHOTONBUFFER_SIZE);
        if (n > 0) {
          batches << (first ? "" : ",") << isrc << ":" << n;
          first = false;
          got[isrc] += n;
          done += n;
          if (n > PHOTONBUFFER_SIZE && bad.str().empty())
            bad << "batch-size batch of " << n << " packets for source copy " << isrc;
        }
      }
    }
    if (bad.str().empty() && done != N)
      bad << "batch-loop handed out " << done << " of " << N << " packets after " << rounds << " rounds";
    for (size_t i = 0; i < totals.size() && bad.str().empty(); ++i)
      if (got[i] != totals[i])
        bad << "batch-total source copy " << i << " handed out " << got[i] << " of " << totals[i];
    std::cout << "dps nthis=" << join(nthis) << " ncopy=" << join(ncopy) << " picks=" << join(picks)
              << " totals=" << join(totals) << " subgrids=" << join(subs) << " batches=" << batches.str() << "\n";
    if (!bad.str().empty())
      std::cout << "ORACLE line=" << lineno << " " << bad.str() << "\n";
  }
  return 0;
}
